import CaoProofs.Lemmas.NoPanicExec
import CaoProofs.Lemmas.NativeLemmas
import CaoProofs.Lemmas.UpvalueLemmas
/-!
# Helper lemmas for the cross-property theorems (C08b, C15b)

1. the call instructions as stand-alone computations (`Instr.functionPointer`,
   `Instr.callFunction`), `go_callScript`, `go_ret`: what they do to the machine, exactly;
2. a `Pres` logic for relations that only look at the call stack (`FrameRel`), and the
   call-stack invariant `FInv G P` ("every return address satisfies `G`, every recorded call
   site satisfies `P`") — kept by every instruction *whatever its outcome*;
3. `exec_located`: the control-flow-integrity induction of `Lemmas/NoPanicExec.lean` re-run with
   that invariant and with the failing address in the error postcondition.
-/
namespace Cao.Cross
open Cao Cao.Vm Cao.Gc Cao.C05
set_option linter.unusedSectionVars false
set_option linter.unusedVariables false
set_option linter.unusedSimpArgs false

/-! ## 1. the call instructions -/

namespace Instr

/-- `FunctionPointer handle arity` -/
def functionPointer (h ar : UInt32) (ip : Nat) : M Ctl := do
  let a ← initSimple (.fn h ar)
  push (.obj a)
  dropGuard a
  return { ip := ip + 8 }

/-- `CallFunction` at address `src` -/
def callFunction (p : Prog) (reenter : Reenter) (src : Nat) : M Ctl := do
  let f ← pop
  match f with
  | .obj a =>
    match (← get).heap.get a with
    | some (.native h) => callNative reenter h; return { ip := src + 1 }
    | some (.fn h ar) => step.callScript p src (src + 1) h ar.toNat none
    | some (.closure h ar _) => step.callScript p src (src + 1) h ar.toNat (some a)
    | _ => throwE .invalidArgument
  | _ => throwE .invalidArgument

end Instr

theorem step_functionPointer (p : Prog) (re : Reenter) (src : Nat)
    (h : p.bytecode.getD src 0 = Compiler.op.functionPointer) :
    step p re src = Instr.functionPointer (UInt32.ofNat (rdU32 p.bytecode (src + 1)))
      (UInt32.ofNat (rdU32 p.bytecode (src + 1 + 4))) (src + 1) := by
  unfold step; dsimp only; rw [h]; rfl

theorem step_callFunction (p : Prog) (re : Reenter) (src : Nat)
    (h : p.bytecode.getD src 0 = Compiler.op.callFunction) :
    step p re src = Instr.callFunction p re src := by
  unfold step; dsimp only; rw [h]; rfl

/-- `push_call_frame` + jump, as a function of the state -/
theorem go_callScript (p : Prog) (src ip : Nat) (l : UInt32) (ar : Nat) (c : Option Nat) (s : VmState) :
    (step.callScript p src ip l ar c).go s =
      if s.frames.isEmpty = true then (.error (.panic "Call stack was empty"), s) else
      if s.stack.count < ar then (.error .missingArgument, s) else
      if s.frames.length ≥ s.frameCap then (.error .callStackOverflow, s) else
      match p.labels.find? (fun l' => l'.1 == l) with
      | some (_, pos) =>
        (.ok { ip := pos },
          { s with frames := s.frames.dropLast ++ [{ (s.frames.getLast?.getD ⟨0, 0, 0, none⟩) with dst := ip }] ++
              [{ src := src, dst := ip, stackOffset := s.stack.count - ar, closure := c }] })
      | none =>
        (.error .procedureNotFound,
          { s with frames := s.frames.dropLast ++ [{ (s.frames.getLast?.getD ⟨0, 0, 0, none⟩) with dst := ip }] ++
              [{ src := src, dst := ip, stackOffset := s.stack.count - ar, closure := c }] }) := by
  unfold step.callScript
  by_cases h1 : s.frames.isEmpty = true
  · simp only [go_bind, go_get, h1, if_true, go_throwE]
  by_cases h2 : s.stack.count < ar
  · simp only [go_bind, go_get, h1, Bool.false_eq_true, if_false, go_pure, h2, if_true, go_throwE]
  by_cases h3 : s.frames.length ≥ s.frameCap
  · simp only [go_bind, go_get, h1, Bool.false_eq_true, if_false, go_pure, h2, h3, if_true, go_throwE]
  simp only [go_bind, go_get, h1, Bool.false_eq_true, if_false, go_pure, h2, h3, go_set]
  cases p.labels.find? (fun l' => l'.1 == l) with
  | none => rfl
  | some x => rfl

/-! ### running them -/

theorem go_pop (s : VmState) : Vm.pop.go s = (.ok s.stack.pop.2, { s with stack := s.stack.pop.1 }) := rfl

theorem go_push (v : Val) (s : VmState) :
    (push v).go s = if s.stack.count + 1 < s.stack.data.length
      then (.ok ⟨⟩, { s with stack := { count := s.stack.count + 1, data := s.stack.data.set s.stack.count v } })
      else (.error .stackoverflow, s) := by
  unfold push
  simp only [go_bind, go_get, VStack.push]
  by_cases h : s.stack.count + 1 < s.stack.data.length
  · simp only [h, if_true]; rfl
  · simp only [h, if_false]; rfl

/-- `FunctionPointer h ar` as a function of the state: one allocation (which may collect), the
    new object, a push -/
theorem go_functionPointer (h ar : UInt32) (ip : Nat) (s : VmState) :
    (Instr.functionPointer h ar ip).go s =
      match alloc1Pure Heap.objCharge (.fn h ar) s with
      | (.error e, s1) => (.error e, s1)
      | (.ok a, s1) =>
        if s1.stack.count + 1 < s1.stack.data.length then
          (.ok { ip := ip + 8 },
            { s1 with stack := { count := s1.stack.count + 1, data := s1.stack.data.set s1.stack.count (.obj a) },
                      guards := s1.guards.erase a })
        else (.error .stackoverflow, s1) := by
  unfold Instr.functionPointer
  simp only [go_bind, Upv.go_initSimple]
  rcases alloc1Pure Heap.objCharge (.fn h ar) s with ⟨r, s1⟩
  cases r with
  | error e => rfl
  | ok a =>
    simp only [go_push]
    by_cases hroom : s1.stack.count + 1 < s1.stack.data.length
    · simp only [hroom, if_true, Upv.go_dropGuard, go_pure]
    · simp only [hroom, if_false]

theorem allocPure_fresh (c : Nat) (s : VmState) (hf : FreshNext s.heap) : FreshNext (allocPure c s).2.heap := by
  have := Native.allocBytes_fresh c s hf
  rwa [Upv.go_allocBytes] at this

theorem allocPure_frameCap (c : Nat) (s : VmState) : (allocPure c s).2.frameCap = s.frameCap := by
  have := (pres_allocBytes (R := SameFrameCap) c).rel s
  rwa [Upv.go_allocBytes] at this

/-- **`FunctionPointer h ar` creates a function object that carries its two operands and pushes
    it**; nothing else on the value stack and nothing of the call stack changes -/
theorem functionPointer_ok {h ar : UInt32} {ip : Nat} {s s' : VmState} {ctl : Ctl} (hf : FreshNext s.heap)
    (hgo : (Instr.functionPointer h ar ip).go s = (.ok ctl, s')) :
    ctl = { ip := ip + 8 } ∧ s.stack.count + 1 < s.stack.data.length ∧ ∃ a,
      s'.stack = { count := s.stack.count + 1, data := s.stack.data.set s.stack.count (.obj a) } ∧
      s'.heap.get a = some (.fn h ar) ∧ s'.frames = s.frames ∧ s'.frameCap = s.frameCap ∧
      s'.openUpvalues = s.openUpvalues ∧ FreshNext s'.heap := by
  rw [go_functionPointer] at hgo
  unfold alloc1Pure at hgo
  have hrel := Upv.allocPure_rel Heap.objCharge s
  have hfr := allocPure_fresh Heap.objCharge s hf
  have hcap := allocPure_frameCap Heap.objCharge s
  generalize allocPure Heap.objCharge s = q at hgo hrel hfr hcap
  rcases q with ⟨r, s0⟩
  cases r with
  | error e => cases hgo
  | ok u =>
    dsimp only at hgo hrel hfr hcap
    by_cases hroom : (withObject (.fn h ar) s0).stack.count + 1 < (withObject (.fn h ar) s0).stack.data.length
    · rw [if_pos hroom] at hgo
      simp only [Prod.mk.injEq, Except.ok.injEq] at hgo
      obtain ⟨rfl, rfl⟩ := hgo
      have hst : (withObject (.fn h ar) s0).stack = s.stack := hrel.stack_eq
      refine ⟨rfl, by rw [hst] at hroom; exact hroom, s0.heap.next, ?_, ?_, hrel.frames_eq, hcap, hrel.open_eq, ?_⟩
      · show ({ count := _, data := _ } : VStack Val) = _
        rw [hst]
      · exact Native.get_withObject_new _ s0 hfr
      · exact Native.withObject_fresh _ s0 hfr
    · rw [if_neg hroom] at hgo
      cases hgo

/-- `CallFunction` on a script function object: the object is popped, then `push_call_frame` -/
theorem go_callFunction_fn (p : Prog) (re : Reenter) (src : Nat) {s : VmState} {a : Nat} {h ar : UInt32}
    (hpos : s.stack.count ≠ 0) (htop : s.stack.data.getD (s.stack.count - 1) .nil = .obj a)
    (hget : s.heap.get a = some (.fn h ar)) :
    (Instr.callFunction p re src).go s =
      (step.callScript p src (src + 1) h ar.toNat none).go { s with stack := s.stack.pop.1 } := by
  have hp : s.stack.pop.2 = .obj a := by
    unfold VStack.pop
    rw [if_neg hpos]
    exact htop
  unfold Instr.callFunction
  rw [go_bind, go_pop, hp]
  dsimp only
  rw [go_bind]
  simp only [go_get]
  have : ({ s with stack := s.stack.pop.1 } : VmState).heap.get a = some (.fn h ar) := hget
  rw [this]

/-- `FunctionPointer` leaves the budget counters and the capacity of the call stack alone -/
theorem functionPointer_keep (h ar : UInt32) (ip : Nat) : Pres Keep (Instr.functionPointer h ar ip) := by
  unfold Instr.functionPointer
  pres_auto

/-- **`CallFunction` on a script function object**: exactly what it does — the object is popped,
    the caller's frame gets the return address `src + 1`, a new frame for the `ar` topmost values
    is pushed, and control continues at the label of the object's handle -/
theorem callFunction_enters (p : Prog) (re : Reenter) (src : Nat)
    (hop : p.bytecode.getD src 0 = Compiler.op.callFunction) {hd h ar : UInt32} {pos a : Nat} (s : VmState)
    (hpos : s.stack.count ≠ 0) (htop : s.stack.data.getD (s.stack.count - 1) .nil = .obj a)
    (hget : s.heap.get a = some (.fn h ar))
    (hl : p.labels.find? (fun l => l.1 == h) = some (hd, pos))
    (hfr : s.frames ≠ []) (hargs : ar.toNat ≤ s.stack.count - 1) (hroom : s.frames.length < s.frameCap) :
    (step p re src).go s = (.ok { ip := pos },
      { s with stack := { count := s.stack.count - 1, data := s.stack.data.set (s.stack.count - 1) .nil },
               frames := s.frames.dropLast ++ [{ (s.frames.getLast?.getD ⟨0, 0, 0, none⟩) with dst := src + 1 }] ++
                 [{ src := src, dst := src + 1, stackOffset := s.stack.count - 1 - ar.toNat, closure := none }] }) := by
  rw [step_callFunction p re src hop, go_callFunction_fn p re src hpos htop hget, go_callScript]
  have hpop : s.stack.pop.1 = { count := s.stack.count - 1, data := s.stack.data.set (s.stack.count - 1) .nil } := by
    unfold VStack.pop
    rw [if_neg hpos]
    rfl
  have e1 : ¬ (({ s with stack := s.stack.pop.1 } : VmState).frames.isEmpty = true) := by
    show ¬ (s.frames.isEmpty = true)
    cases hf : s.frames with
    | nil => exact absurd hf hfr
    | cons => simp
  have e2 : ¬ (({ s with stack := s.stack.pop.1 } : VmState).stack.count < ar.toNat) := by
    show ¬ (s.stack.pop.1.count < _)
    rw [hpop]
    exact Nat.not_lt.2 hargs
  have e3 : ¬ (({ s with stack := s.stack.pop.1 } : VmState).frames.length ≥
      ({ s with stack := s.stack.pop.1 } : VmState).frameCap) := by
    show ¬ (s.frames.length ≥ s.frameCap)
    omega
  rw [if_neg e1, if_neg e2, if_neg e3, hl]
  show (_, ({ s with stack := s.stack.pop.1, frames := _ } : VmState)) = _
  rw [hpop]

/-- the height `clear_until i` leaves: it only truncates -/
theorem clearUntil_height (i c : Nat) : (if i < c then i else c) = min i c := by
  rw [Nat.min_def]; split <;> split <;> omega

/-- `Return` as a function of the state (`clear_until` only truncates: the stack is cut at
    `min stackOffset height`) -/
theorem go_ret (s : VmState) :
    Upv.Instr.ret.go s =
      match s.frames.getLast? with
      | none => (.error .badReturn, s)
      | some fr =>
        let s1 := Upv.closeState fr.stackOffset { s with frames := s.frames.dropLast }
        let c := min fr.stackOffset s.stack.count
        let s2 : VmState := { s1 with stack := { s1.stack with count := c } }
        match s.frames.dropLast.getLast? with
        | none => (.error .badReturn, s2)
        | some caller =>
          if c + 1 < s.stack.data.length then
            (.ok { ip := caller.dst },
              { s2 with stack := { count := c + 1, data := s.stack.data.set c s.stack.last } })
          else (.error .stackoverflow, s2) := by
  unfold Upv.Instr.ret
  simp only [go_bind, go_get]
  cases hl : s.frames.getLast? with
  | none => rfl
  | some fr =>
    simp only [go_bind, go_set, Upv.go_closeUpvalues, go_get, VStack.clearUntil]
    have hst0 : (Upv.closeState fr.stackOffset { s with frames := s.frames.dropLast }).stack = s.stack := rfl
    simp only [hst0, clearUntil_height]
    cases hc : s.frames.dropLast.getLast? with
    | none =>
      have : (Upv.closeState fr.stackOffset { s with frames := s.frames.dropLast }).frames.getLast? = none := hc
      simp only [go_bind, go_get, this, go_throwE]
    | some caller =>
      have : (Upv.closeState fr.stackOffset { s with frames := s.frames.dropLast }).frames.getLast? = some caller := hc
      have hst : (Upv.closeState fr.stackOffset { s with frames := s.frames.dropLast }).stack = s.stack := rfl
      simp only [go_bind, go_get, this, go_push, go_pure, hst]
      by_cases hroom : min fr.stackOffset s.stack.count + 1 < s.stack.data.length
      · simp only [hroom, if_true]
      · simp only [hroom, if_false]

/-! ## 2. relations that only look at the call stack -/

/-- a preorder on states that relates any two states with the same call stack (everything except
    `CallFunction`, `Return` and the callback of a host function respects such a relation) -/
class SameFrames (R : VmState → VmState → Prop) : Prop extends StateOrder R where
  of_frames : ∀ {s s' : VmState}, s'.frames = s.frames → R s s'

/-- a preorder on states that relates `s` to every state whose call stack is a sub-multiset of
    that of `s` (in particular: the same call stack) -/
class FrameRel (R : VmState → VmState → Prop) : Prop extends SameFrames R where
  of_sub : ∀ {s s' : VmState}, (∀ f ∈ s'.frames, f ∈ s.frames) → R s s'

macro_rules | `(tactic| pres_side) => `(tactic| with_reducible exact SameFrames.of_frames rfl)
macro_rules | `(tactic| pres_side) => `(tactic| exact SameFrames.of_frames (gc_frames _))
theorem FrameRel.of_dropLast {R : VmState → VmState → Prop} [FrameRel R] {s s' : VmState}
    (h : s'.frames = s.frames.dropLast) : R s s' :=
  FrameRel.of_sub (fun f hf => List.dropLast_subset _ (h ▸ hf))

macro_rules | `(tactic| pres_side) => `(tactic| exact FrameRel.of_dropLast rfl)

section frameprims
variable {R : VmState → VmState → Prop} [SameFrames R]

theorem fpres_push (v : Val) : Pres R (push v) := by unfold push; pres_auto
theorem fpres_pop : Pres R pop := by unfold pop; pres_auto
theorem fpres_peek (n : Nat) : Pres R (peek n) := by unfold peek; pres_auto
theorem fpres_popN (n : Nat) : Pres R (popN n) := by unfold popN; pres_auto
theorem fpres_curFrame : Pres R curFrame := by unfold curFrame; pres_auto
theorem fpres_writeLocal (a b : Nat) (v : Val) : Pres R (writeLocal a b v) := by
  unfold writeLocal; pres_auto
theorem fpres_readLocal (a b : Nat) : Pres R (readLocal a b) := by unfold readLocal; pres_auto
theorem fpres_keyOf (v : Val) : Pres R (keyOf v) := by unfold keyOf; pres_auto
theorem fpres_getTable (v : Val) : Pres R (getTable v) := by unfold getTable; pres_auto
theorem fpres_tableGet (es : List (Val × Val)) (k : Val) : Pres R (tableGet es k) := by
  unfold tableGet; pres_auto
theorem fpres_deallocBytes (c : Nat) : Pres R (deallocBytes c) := by unfold deallocBytes; pres_auto
theorem fpres_newObject (o : Obj) : Pres R (newObject o) := by unfold newObject; pres_auto
theorem fpres_dropGuard (a : Nat) : Pres R (dropGuard a) := by unfold dropGuard; pres_auto
theorem fpres_closeUpvalues (t : Nat) : Pres R (closeUpvalues t) := by
  unfold closeUpvalues; pres_auto
theorem fpres_readUpvalueLoc (a : Nat) : Pres R (readUpvalueLoc a) := by
  unfold readUpvalueLoc; pres_auto
theorem fpres_writeUpvalueLoc (a : Nat) (v : Val) : Pres R (writeUpvalueLoc a v) := by
  unfold writeUpvalueLoc; pres_auto
theorem fpres_guardVal (v : Val) : Pres R (guardVal v) := by
  unfold guardVal
  split
  · pres_auto
  · exact pres_pure _
theorem fpres_unguardVal (v : Val) : Pres R (unguardVal v) := by
  unfold unguardVal
  split
  · exact fpres_dropGuard _
  · exact pres_pure _

end frameprims

macro_rules | `(tactic| pres_prim) => `(tactic| with_reducible first
  | exact fpres_push _ | exact fpres_pop | exact fpres_peek _ | exact fpres_popN _ | exact fpres_curFrame
  | exact fpres_writeLocal _ _ _ | exact fpres_readLocal _ _ | exact fpres_keyOf _ | exact fpres_getTable _
  | exact fpres_tableGet _ _ | exact fpres_deallocBytes _ | exact fpres_newObject _ | exact fpres_dropGuard _
  | exact fpres_closeUpvalues _ | exact fpres_readUpvalueLoc _ | exact fpres_writeUpvalueLoc _ _
  | exact fpres_guardVal _ | exact fpres_unguardVal _)

section framerows
variable {R : VmState → VmState → Prop} [SameFrames R]
theorem fpres_guardRows (es : List (Val × Val)) : Pres R (guardRows es) := by
  unfold guardRows; pres_auto
theorem fpres_unguardRows (es : List (Val × Val)) : Pres R (unguardRows es) := by
  unfold unguardRows; pres_auto
end framerows
macro_rules | `(tactic| pres_prim) => `(tactic| with_reducible first
  | exact fpres_guardRows _ | exact fpres_unguardRows _)

section framecompound
variable {R : VmState → VmState → Prop} [SameFrames R]

theorem fpres_allocBytes (c : Nat) : Pres R (allocBytes c) := by
  unfold allocBytes
  pres_auto
macro_rules | `(tactic| pres_prim) => `(tactic| with_reducible exact fpres_allocBytes _)

theorem fpres_initTable : Pres R initTable := by
  unfold initTable
  pres_auto
theorem fpres_initString (b : List UInt8) : Pres R (initString b) := by
  unfold initString
  pres_auto
theorem fpres_initSimple (o : Obj) : Pres R (initSimple o) := by
  unfold initSimple
  pres_auto
theorem fpres_tableInsert (a : Nat) (k v : Val) : Pres R (tableInsert a k v) := by
  unfold tableInsert
  pres_auto
macro_rules | `(tactic| pres_prim) => `(tactic| with_reducible first
  | exact fpres_initTable | exact fpres_initString _ | exact fpres_initSimple _ | exact fpres_tableInsert _ _ _)

theorem fpres_nativeConv (name : String) : Pres R (nativeConv name) := by
  unfold nativeConv
  pres_auto
macro_rules | `(tactic| pres_prim) => `(tactic| with_reducible exact fpres_nativeConv _)

theorem fpres_callNativeBody (reenter : Reenter) (hre : ∀ f, Pres R (reenter f)) (name : String) :
    Pres R (callNativeBody reenter name) := by
  unfold callNativeBody
  pres_auto
macro_rules
  | `(tactic| pres_prim) => `(tactic| with_reducible exact fpres_callNativeBody _ (by assumption) _)

theorem fpres_callNative (reenter : Reenter) (hre : ∀ f, Pres R (reenter f)) (h : UInt32) :
    Pres R (callNative reenter h) := by
  unfold callNative
  pres_auto
macro_rules
  | `(tactic| pres_prim) => `(tactic| with_reducible exact fpres_callNative _ (by assumption) _)

end framecompound

section framestep
variable {R : VmState → VmState → Prop} [FrameRel R]

macro_rules | `(tactic| pres_prim) => `(tactic| with_reducible exact (‹∀ (h : UInt32) (ar : Nat) (c : Option Nat), Pres _ (step.callScript _ _ _ h ar c)›) _ _ _)

set_option maxHeartbeats 400000 in
/-- an instruction other than `CallFunction` only shrinks the call stack (`Return`) or leaves it
    to the re-entry callback -/
theorem fpres_step_other (p : Prog) (reenter : Reenter) (hre : ∀ f, Pres R (reenter f)) (src : Nat)
    (h : p.bytecode.getD src 0 ≠ Compiler.op.callFunction) : Pres R (step p reenter src) := by
  have hf : (p.bytecode.getD src 0 == Compiler.op.callFunction) = false := by simpa using h
  unfold step
  dsimp only
  rw [hf]
  simp only [Bool.false_eq_true, if_false]
  pres_auto

/-- `CallFunction`, given what `push_call_frame` does -/
theorem fpres_callFunction (p : Prog) (reenter : Reenter) (hre : ∀ f, Pres R (reenter f)) (src : Nat)
    (hcs : ∀ (h : UInt32) (ar : Nat) (c : Option Nat), Pres R (step.callScript p src (src + 1) h ar c)) :
    Pres R (Instr.callFunction p reenter src) := by
  unfold Instr.callFunction
  pres_auto

end framestep

/-! ## 3. the call-stack invariant with call sites -/

/-- every return address on the call stack satisfies `G`, every recorded call site satisfies `P` -/
def FInv (G P : Nat → Prop) (fs : List Frame) : Prop := ∀ f ∈ fs, G f.dst ∧ P f.src

/-- "the invariant is kept" as a relation between states -/
def FInvR (G P : Nat → Prop) (s s' : VmState) : Prop := FInv G P s.frames → FInv G P s'.frames

instance (G P : Nat → Prop) : FrameRel (FInvR G P) where
  refl _ h := h
  trans h1 h2 h := h2 (h1 h)
  of_frames he h := he ▸ h
  of_sub hsub h := fun f hf => h f (hsub f hf)

theorem FInv.good {G P : Nat → Prop} {fs : List Frame} (h : FInv G P fs) : Good G fs :=
  fun f hf => (h f hf).1

theorem FInv.nil (G P : Nat → Prop) : FInv G P [] := fun _ h => nomatch h

theorem FInv.append {G P : Nat → Prop} {a b : List Frame} (ha : FInv G P a) (hb : FInv G P b) :
    FInv G P (a ++ b) := fun f hf => by
  rcases List.mem_append.1 hf with h | h
  · exact ha f h
  · exact hb f h

theorem FInv.dropLast {G P : Nat → Prop} {fs : List Frame} (h : FInv G P fs) : FInv G P fs.dropLast :=
  fun f hf => h f (List.dropLast_subset _ hf)

section finv
variable {G P : Nat → Prop}

/-- `push_call_frame` keeps the invariant: the new frame records the address of the call
    instruction and returns behind it; the caller's frame keeps its call site -/
theorem fpres_callScript_inv (p : Prog) (src ip : Nat) (l : UInt32) (ar : Nat) (c : Option Nat)
    (hip : G ip) (hsrc : P src) : Pres (FInvR G P) (step.callScript p src ip l ar c) := by
  refine Pres.intro fun s hinv => ?_
  rw [go_callScript]
  split
  · exact hinv
  next hne =>
  split
  · exact hinv
  split
  · exact hinv
  have key : FInv G P (s.frames.dropLast ++ [{ (s.frames.getLast?.getD ⟨0, 0, 0, none⟩) with dst := ip }] ++
      [{ src := src, dst := ip, stackOffset := s.stack.count - ar, closure := c }]) := by
    refine FInv.append (FInv.append hinv.dropLast ?_) ?_
    · intro f hf
      rw [List.mem_singleton] at hf
      subst hf
      refine ⟨hip, ?_⟩
      cases hl : s.frames.getLast? with
      | none =>
        rw [List.getLast?_eq_none_iff] at hl
        rw [hl] at hne
        exact absurd rfl hne
      | some fr => exact (hinv fr (List.mem_of_getLast? hl)).2
    · intro f hf
      rw [List.mem_singleton] at hf
      subst hf
      exact ⟨hip, hsrc⟩
  split <;> exact key

/-- **every instruction keeps the call-stack invariant, whatever its outcome** — provided the
    re-entry callback does, the instruction is dispatched at a `G` address, and the address of a
    `CallFunction` instruction satisfies `P` -/
theorem fpres_step_inv (p : Prog) (hc : Cfi p G) (re : Reenter) (hre : ∀ f, Pres (FInvR G P) (re f))
    (src : Nat) (hsrc : G src) (hP : p.bytecode.getD src 0 = Compiler.op.callFunction → P src) :
    Pres (FInvR G P) (step p re src) := by
  by_cases h : p.bytecode.getD src 0 = Compiler.op.callFunction
  · rw [step_callFunction p re src h]
    have hip : G (src + 1) := hc.seq src 1 hsrc (by rw [h]; rfl) (by rw [h]; decide)
    exact fpres_callFunction p re hre src (fun h' ar c => fpres_callScript_inv p src (src + 1) h' ar c hip (hP h))
  · exact fpres_step_other p re hre src h

end finv

/-! ## 4. the dispatch loop: where an error is located -/

/-- where an error reported by the dispatch loop comes from: the budget, the model's fuel, the end
    of the code, or the instruction at `e.at_` (run with some callback from some state) raised it -/
def ErrAt (p : Prog) (e : RunErr) : Prop :=
  e.kind = .timeout ∨ e.kind = .panic "gas exhausted" ∨
  (e.kind = .unexpectedEndOfInput ∧ p.bytecode.size ≤ e.at_) ∨
  ∃ (re : Reenter) (s s' : VmState), (step p re e.at_).go s = (.error e.kind, s')

instance : ExecErr (fun _ : ErrKind => True) where
  calm _ := trivial
  wrap _ := trivial
  capture := trivial
  index := trivial
  gas := trivial

section located
variable {G P : Nat → Prop} (p : Prog) (hc : Cfi p G) (h0 : G 0) (hlab : ∀ l ∈ p.labels, P l.2)

/-- what the loop guarantees about the call stack it leaves and about the error it reports -/
def LoopLoc (G P : Nat → Prop) (p : Prog) (gas : Nat) : Prop :=
  ∀ (B : List Frame) (ip : Nat) (s : VmState), BaseExit p B → FInv G P s.frames → G ip →
    AtBase p B s.frames ip →
    FInv G P (exec p gas (.loop ip) s).1.frames ∧
    ∀ e, (exec p gas (.loop ip) s).2 = .error e →
      G e.at_ ∧ e.frames = (exec p gas (.loop ip) s).1.frames ∧ ErrAt p e

/-- the same for `run_function` (which pops the call stack back to its entry depth before it
    propagates an error: the error record keeps the call stack of the moment of failure, which is
    no longer the call stack of the state; it satisfies the invariant too) -/
def CallLoc (G P : Nat → Prop) (p : Prog) (gas : Nat) : Prop :=
  ∀ (f : Val) (s : VmState), FInv G P s.frames →
    FInv G P (exec p gas (.call f) s).1.frames ∧
    ∀ e, (exec p gas (.call f) s).2 = .error e → G e.at_ ∧ FInv G P e.frames

theorem failAt_loc {s : VmState} {k : ErrKind} (h0 : G 0) (hs : FInv G P s.frames) :
    FInv G P (failAt s k).1.frames ∧
    ∀ e, (failAt s k).2 = .error e → G e.at_ ∧ FInv G P e.frames := by
  refine ⟨hs, fun e he => ?_⟩
  simp only [failAt, Except.error.injEq] at he
  subst he
  exact ⟨h0, hs⟩

include hc h0 hlab in
theorem enterScript_loc (gas : Nat) (ih : LoopLoc G P p gas) (s : VmState) (l : UInt32) (ar : Nat)
    (c : Option Nat) (hs : FInv G P s.frames) :
    FInv G P (enterScript p gas s l ar c).1.frames ∧
    ∀ e, (enterScript p gas s l ar c).2 = .error e →
      G e.at_ ∧ FInv G P e.frames := by
  unfold enterScript
  split
  · exact failAt_loc h0 hs
  next pos hfind =>
  dsimp only
  split
  · exact failAt_loc h0 hs
  split
  · exact failAt_loc h0 hs
  generalize hfr : ({ src := pos, dst := p.bytecode.size - 1, stackOffset := s.stack.count - ar, closure := c } : Frame) = fr
  have hdst : fr.dst = p.bytecode.size - 1 := by rw [← hfr]
  have hsrc : fr.src = pos := by rw [← hfr]
  have hpos : G pos := hc.label _ (List.mem_of_find?_eq_some hfind)
  have hPpos : P pos := hlab _ (List.mem_of_find?_eq_some hfind)
  have hfrI : FInv G P [fr] := by
    intro f hf
    rw [List.mem_singleton] at hf
    subst hf
    rw [hdst, hsrc]
    exact ⟨hc.last, hPpos⟩
  split
  · refine ⟨hs, fun e he => ?_⟩
    simp only [Except.error.injEq] at he
    subst he
    exact ⟨h0, FInv.append hs hfrI⟩
  have hB : BaseExit p (s.frames ++ [fr]) := by
    intro c' hc'
    rw [List.getLast?_append, List.getLast?_singleton] at hc'
    simp only [Option.some_or, Option.some.injEq] at hc'
    rw [← hc', hdst]; exact hc.lastExit
  have hgood : FInv G P (s.frames ++ [fr, fr]) :=
    FInv.append hs (FInv.append (a := [fr]) (b := [fr]) hfrI hfrI)
  have key := ih (s.frames ++ [fr]) pos { s with frames := s.frames ++ [fr, fr] } hB hgood hpos
    (.inl ⟨[fr], by simp, by simp⟩)
  rcases hex : exec p gas (.loop pos) { s with frames := s.frames ++ [fr, fr] } with ⟨s', r⟩
  rw [hex] at key
  cases r with
  | error e =>
    refine ⟨fun f hf => key.1 f (List.mem_of_mem_take hf), fun e' he' => ?_⟩
    simp only [Except.error.injEq] at he'
    subst he'
    exact ⟨(key.2 e rfl).1, (key.2 e rfl).2.1 ▸ key.1⟩
  | ok v =>
    refine ⟨fun f hf => key.1 f (List.mem_of_mem_take hf), fun e' he' => ?_⟩
    cases he'

include hc h0 hlab in
/-- **the dispatch loop and `run_function` keep the call-stack invariant whatever their outcome,
    and an error is reported at a `G` address (an instruction start), with the call stack of the
    moment of failure** -/
theorem exec_located (hPc : ∀ a, G a → p.bytecode.getD a 0 = Compiler.op.callFunction → P a) :
    ∀ gas, LoopLoc G P p gas ∧ CallLoc G P p gas := by
  intro gas
  induction gas with
  | zero =>
    constructor
    · intro B ip s _ hs _ _
      rw [exec_zero]
      refine ⟨hs, fun e he => ?_⟩
      simp only [Except.error.injEq] at he
      subst he
      exact ⟨h0, rfl, .inr (.inl rfl)⟩
    · intro f s hs
      rw [exec_zero]
      refine ⟨hs, fun e he => ?_⟩
      simp only [Except.error.injEq] at he
      subst he
      exact ⟨h0, hs⟩
  | succ gas ih =>
    have hreB : ReBase (reenterOf p gas) G (fun _ => True) := fun f fs hg =>
      fr_liftRun (fun s hs => by
        subst hs; exact (exec_cfi (E := fun _ => True) p hc gas).2.prefix f s hg)
    have hreI : ∀ f, Pres (FInvR G P) (reenterOf p gas f) := fun f =>
      pres_liftRun (fun s hs => (ih.2 f s hs).1)
    constructor
    · intro B ip s hB hs hip hat
      rw [exec_loop]
      split
      · next hge =>
        refine ⟨hs, fun e he => ?_⟩
        simp only [Except.error.injEq] at he
        subst he
        exact ⟨hip, rfl, .inr (.inr (.inl ⟨rfl, hge⟩))⟩
      split
      · refine ⟨hs, fun e he => ?_⟩
        simp only [Except.error.injEq] at he
        subst he
        exact ⟨hip, rfl, .inl rfl⟩
      have hne : s.frames ≠ [] := by
        rcases hat with ⟨rest, hr, he⟩ | ⟨he, hb, _⟩
        · rw [he]; simp [hr]
        · rw [he]; exact hb
      have hstep := fr_step_cfi (E := fun _ => True) p hc (reenterOf p gas) hreB ip s.frames hne hs.good hip
      have hinv : FInv G P ((step p (reenterOf p gas) ip).go s.tick).2.frames :=
        (fpres_step_inv p hc (reenterOf p gas) hreI ip hip (hPc ip hip)).rel s.tick hs
      rcases hat with ⟨rest, hr, he⟩ | ⟨he, hb, hx⟩
      · split
        · next e s' heq =>
          rw [heq] at hinv
          refine ⟨hinv, fun e' he' => ?_⟩
          simp only [Except.error.injEq] at he'
          subst he'
          exact ⟨hip, rfl, .inr (.inr (.inr ⟨_, _, _, heq⟩))⟩
        · next ctl s' heq =>
          rw [heq] at hinv
          have post := hstep.ok s.tick ctl s' rfl heq
          have hsh := shape_above (ctl := ctl) hB hr (he ▸ post.shape)
          split
          · next hexit =>
            refine ⟨hinv, fun e' he' => ?_⟩
            cases he'
          · next hexit =>
            have hexit' : ctl.exit = false := by cases h : ctl.exit <;> simp_all
            exact ih.1 B ctl.ip s' hB hinv (post.next hexit') (hsh.2 hexit')
      · rw [step_exit p _ ip hx]
        simp only [go_pure, if_true]
        refine ⟨hs, fun e' he' => ?_⟩
        cases he'
    · intro f s hs
      rw [exec_call]
      split
      · split
        · next a h hget =>
          have hn := (fpres_callNative (R := FInvR G P) (reenterOf p gas) hreI h).rel s hs
          split
          · next s' heq =>
            rw [heq] at hn
            refine ⟨hn, fun e' he' => ?_⟩
            cases he'
          · next e s' heq =>
            rw [heq] at hn
            exact failAt_loc h0 hn
        · exact enterScript_loc p hc h0 hlab gas ih.1 s _ _ _ hs
        · exact enterScript_loc p hc h0 hlab gas ih.1 s _ _ _ hs
        · exact failAt_loc h0 hs
      · exact failAt_loc h0 hs

include hc h0 hlab in
/-- **`run`**: from a call stack that satisfies the invariant (e.g. the empty one of a fresh or
    cleared machine) every reported error is located at a `G` address, carries a call stack that
    satisfies the invariant, and comes from the budget, the fuel, the end of the code or the
    instruction at that address — or is the `CallStackOverflow` of a `run` that did not start -/
theorem run_located (hPc : ∀ a, G a → p.bytecode.getD a 0 = Compiler.op.callFunction → P a) (hP0 : P 0)
    (n : Nat) (s : VmState) (hs : FInv G P s.frames) (e : RunErr) (h : (run p n s).2 = some e) :
    G e.at_ ∧ FInv G P e.frames ∧
      (ErrAt p e ∨ (e = ⟨.callStackOverflow, 0, []⟩ ∧ s.frames.length ≥ s.frameCap)) := by
  by_cases hr : s.frames.length < s.frameCap
  · rw [run_room p n s hr] at h
    simp only at h
    have hgood : FInv G P (started n s).frames := by
      refine FInv.append hs ?_
      intro f hf
      rw [List.mem_singleton] at hf
      subst hf
      exact ⟨h0, hP0⟩
    have key := (exec_located p hc h0 hlab hPc (gasFor (started n s) n)).1 [] 0 (started n s)
      (fun c hc' => by simp at hc') hgood h0
      (.inl ⟨(started n s).frames, by simp [started], by simp⟩)
    split at h
    · cases h
    · next e' heq =>
      simp only [Option.some.injEq] at h
      subst h
      obtain ⟨h1, h2, h3⟩ := key.2 e' heq
      exact ⟨h1, h2 ▸ key.1, .inl h3⟩
  · rw [run_no_room p n s (Nat.not_lt.1 hr)] at h
    simp only [Option.some.injEq] at h
    subst h
    exact ⟨h0, FInv.nil G P, .inr ⟨rfl, Nat.not_lt.1 hr⟩⟩

end located

end Cao.Cross
