import CaoProofs.Lemmas.VmFrame
import CaoProofs.Props.C05
/-!
# Lifting the accounting invariant `C05.Inv` from the allocation primitives to whole runs

`InvR s s' := Inv s → Inv s'` is a preorder on states, so the `Pres` logic of `VmFrame.lean`
applies to it (only its `StateOrder` part: `InvR` does *not* contain `Keep`, a computation that
keeps the counters may do anything to the heap; the class `MemFrame` replaces `CounterFrame`). The primitives that do not touch the heap or the
allocator preserve it trivially (`invR_of_same`); the allocating constructors preserve it by the
theorems of `Props/C05.lean`.

A few code blocks of `step` / `callNativeBody` need to know *where* they run (the table operand
of `tableInsert` must be rooted; an object that is overwritten in place must keep its charge):
they are verified with a small weakest-precondition calculus `WP` whose error postcondition is
`Inv`.
-/
namespace Cao.RunInv
open Cao Cao.Vm Cao.Gc Cao.C02 Cao.C05
set_option linter.unusedSectionVars false
set_option linter.unusedVariables false

/-! ## relations that only look at the heap and at the allocator -/

/-- a preorder on states that relates any two states with the same heap and allocator -/
class MemFrame (R : VmState → VmState → Prop) : Prop extends StateOrder R where
  of_same : ∀ {s s' : VmState}, s'.heap = s.heap → s'.mem = s.mem → R s s'

macro_rules | `(tactic| pres_side) => `(tactic| with_reducible exact MemFrame.of_same rfl rfl)

section memprims
variable {R : VmState → VmState → Prop} [MemFrame R]

theorem mpres_push (v : Val) : Pres R (push v) := by unfold push; pres_auto
theorem mpres_pop : Pres R pop := by unfold pop; pres_auto
theorem mpres_peek (n : Nat) : Pres R (peek n) := by unfold peek; pres_auto
theorem mpres_popN (n : Nat) : Pres R (popN n) := by unfold popN; pres_auto
theorem mpres_curFrame : Pres R curFrame := by unfold curFrame; pres_auto
theorem mpres_writeLocal (a b : Nat) (v : Val) : Pres R (writeLocal a b v) := by
  unfold writeLocal; pres_auto
theorem mpres_readLocal (a b : Nat) : Pres R (readLocal a b) := by unfold readLocal; pres_auto
theorem mpres_keyOf (v : Val) : Pres R (keyOf v) := by unfold keyOf; pres_auto
theorem mpres_getTable (v : Val) : Pres R (getTable v) := by unfold getTable; pres_auto
theorem mpres_tableGet (es : List (Val × Val)) (k : Val) : Pres R (tableGet es k) := by
  unfold tableGet; pres_auto
theorem mpres_dropGuard (a : Nat) : Pres R (dropGuard a) := by unfold dropGuard; pres_auto
theorem mpres_readUpvalueLoc (a : Nat) : Pres R (readUpvalueLoc a) := by
  unfold readUpvalueLoc; pres_auto
theorem mpres_guardVal (v : Val) : Pres R (guardVal v) := by unfold guardVal; pres_auto
theorem mpres_unguardVal (v : Val) : Pres R (unguardVal v) := by
  unfold unguardVal
  split
  · exact mpres_dropGuard _
  · exact pres_pure _
end memprims

macro_rules | `(tactic| pres_prim) => `(tactic| with_reducible first
  | exact mpres_push _ | exact mpres_pop | exact mpres_peek _ | exact mpres_popN _
  | exact mpres_curFrame | exact mpres_writeLocal _ _ _ | exact mpres_readLocal _ _
  | exact mpres_keyOf _ | exact mpres_getTable _ | exact mpres_tableGet _ _
  | exact mpres_dropGuard _ | exact mpres_readUpvalueLoc _ | exact mpres_guardVal _
  | exact mpres_unguardVal _)

section memrows
variable {R : VmState → VmState → Prop} [MemFrame R]
theorem mpres_guardRows (es : List (Val × Val)) : Pres R (guardRows es) := by
  unfold guardRows; pres_auto
theorem mpres_unguardRows (es : List (Val × Val)) : Pres R (unguardRows es) := by
  unfold unguardRows; pres_auto
end memrows
macro_rules | `(tactic| pres_prim) => `(tactic| with_reducible first
  | exact mpres_guardRows _ | exact mpres_unguardRows _)

section memprims2
variable {R : VmState → VmState → Prop} [MemFrame R]
theorem mpres_nativeConv (name : String) : Pres R (nativeConv name) := by
  unfold nativeConv
  pres_auto
theorem mpres_callScript (p : Prog) (src ip : Nat) (l : UInt32) (ar : Nat) (c : Option Nat) :
    Pres R (step.callScript p src ip l ar c) := by
  unfold step.callScript
  pres_auto
end memprims2

macro_rules | `(tactic| pres_prim) => `(tactic| with_reducible first
  | exact mpres_nativeConv _ | exact mpres_callScript _ _ _ _ _ _)

/-! ## the dispatch loop and `run`, for any such relation that `step` and `callNative` respect -/

section loop
variable {R : VmState → VmState → Prop} [MemFrame R]

theorem enterScript_mem (p : Prog) (gas : Nat)
    (ih : ∀ t s, R s (exec p gas t s).1) (s : VmState) (l : UInt32) (ar : Nat) (c : Option Nat) :
    R s (enterScript p gas s l ar c).1 := by
  unfold enterScript
  split
  · exact StateOrder.refl s
  · dsimp only
    split
    · exact StateOrder.refl s
    split
    · exact StateOrder.refl s
    split
    · exact MemFrame.of_same rfl rfl
    next pos _ _ _ _ =>
    have h := ih (.loop pos) { s with frames := s.frames ++ [⟨pos, p.bytecode.size - 1, s.stack.count - ar, c⟩, ⟨pos, p.bytecode.size - 1, s.stack.count - ar, c⟩] }
    have h0 : R s { s with frames := s.frames ++ [⟨pos, p.bytecode.size - 1, s.stack.count - ar, c⟩, ⟨pos, p.bytecode.size - 1, s.stack.count - ar, c⟩] } :=
      MemFrame.of_same rfl rfl
    split
    · next s' _ heq =>
      rw [heq] at h
      exact StateOrder.trans h0 (StateOrder.trans h (MemFrame.of_same rfl rfl))
    · next s' _ heq =>
      rw [heq] at h
      exact StateOrder.trans h0 (StateOrder.trans h (MemFrame.of_same rfl rfl))

/-- every run of the dispatch loop / of `run_function` respects `R`, whatever the outcome (normal
    exit, error, timeout, fuel exhausted) -/
theorem exec_mem (p : Prog)
    (hstep : ∀ re : Reenter, (∀ f, Pres R (re f)) → ∀ src, Pres R (step p re src))
    (hnat : ∀ re : Reenter, (∀ f, Pres R (re f)) → ∀ h, Pres R (callNative re h)) :
    ∀ (gas : Nat) (t : Task) (s : VmState), R s (exec p gas t s).1 := by
  intro gas
  induction gas with
  | zero => intro t s; rw [exec_zero]; exact StateOrder.refl s
  | succ gas ih =>
    intro t s
    have hre : ∀ f, Pres R (reenterOf p gas f) := fun f => pres_liftRun (fun s => ih (.call f) s)
    cases t with
    | loop ip =>
      rw [exec_loop]
      split
      · exact StateOrder.refl s
      split
      · exact MemFrame.of_same rfl rfl
      next _ hrem =>
      have h1 : R s s.tick := MemFrame.of_same rfl rfl
      have h2 := (hstep _ hre ip).rel s.tick
      split
      · next e s' heq => rw [heq] at h2; exact StateOrder.trans h1 h2
      · next ctl s' heq =>
        rw [heq] at h2
        split
        · exact StateOrder.trans h1 h2
        · exact StateOrder.trans h1 (StateOrder.trans h2 (ih _ _))
    | call f =>
      rw [exec_call]
      split
      · split
        · next h _ =>
          have h2 := (hnat _ hre h).rel s
          split
          · next s' heq => rw [heq] at h2; exact StateOrder.trans h2 (MemFrame.of_same rfl rfl)
          · next e s' heq => rw [heq] at h2; exact h2
        · exact enterScript_mem p gas ih s _ _ _
        · exact enterScript_mem p gas ih s _ _ _
        · exact StateOrder.refl s
      · exact StateOrder.refl s

theorem run_mem (p : Prog)
    (hstep : ∀ re : Reenter, (∀ f, Pres R (re f)) → ∀ src, Pres R (step p re src))
    (hnat : ∀ re : Reenter, (∀ f, Pres R (re f)) → ∀ h, Pres R (callNative re h))
    (n : Nat) (s : VmState) : R s (run p n s).1 := by
  by_cases h : s.frames.length < s.frameCap
  · rw [run_room p n s h]
    have h0 : R s (started n s) := MemFrame.of_same rfl rfl
    have h1 := exec_mem p hstep hnat (gasFor (started n s) n) (.loop 0) (started n s)
    exact StateOrder.trans h0 (StateOrder.trans h1 (MemFrame.of_same rfl rfl))
  · rw [run_no_room p n s (Nat.not_lt.mp h)]
    exact StateOrder.refl s

end loop

/-! ## the configured limit is never changed -/

/-- the limit of the allocator is the same -/
def SameLimit (s s' : VmState) : Prop := s'.mem.limit = s.mem.limit

theorem sameLimit_intro {s s' : VmState} (h : s'.mem.limit = s.mem.limit) : SameLimit s s' := h

instance : MemFrame SameLimit where
  refl _ := rfl
  trans h1 h2 := Eq.trans h2 h1
  of_same _ hm := by unfold SameLimit; rw [hm]

macro_rules | `(tactic| pres_side) => `(tactic| exact sameLimit_intro rfl)

theorem lpres_deallocBytes (c : Nat) : Pres SameLimit (deallocBytes c) := by
  unfold deallocBytes; pres_auto
theorem lpres_newObject (o : Obj) : Pres SameLimit (newObject o) := by unfold newObject; pres_auto
theorem lpres_closeUpvalues (t : Nat) : Pres SameLimit (closeUpvalues t) := by
  unfold closeUpvalues; pres_auto
theorem lpres_writeUpvalueLoc (a : Nat) (v : Val) : Pres SameLimit (writeUpvalueLoc a v) := by
  unfold writeUpvalueLoc; pres_auto
theorem lpres_allocBytes (c : Nat) : Pres SameLimit (allocBytes c) := by
  unfold allocBytes; pres_auto
macro_rules | `(tactic| pres_prim) => `(tactic| with_reducible first
  | exact lpres_deallocBytes _ | exact lpres_newObject _ | exact lpres_closeUpvalues _
  | exact lpres_writeUpvalueLoc _ _ | exact lpres_allocBytes _)
theorem lpres_initTable : Pres SameLimit initTable := by unfold initTable; pres_auto
theorem lpres_initString (b : List UInt8) : Pres SameLimit (initString b) := by
  unfold initString; pres_auto
theorem lpres_initSimple (o : Obj) : Pres SameLimit (initSimple o) := by unfold initSimple; pres_auto
theorem lpres_tableInsert (a : Nat) (k v : Val) : Pres SameLimit (tableInsert a k v) := by
  unfold tableInsert; pres_auto
macro_rules | `(tactic| pres_prim) => `(tactic| with_reducible first
  | exact lpres_initTable | exact lpres_initString _ | exact lpres_initSimple _
  | exact lpres_tableInsert _ _ _)
theorem lpres_callNativeBody (reenter : Reenter) (hre : ∀ f, Pres SameLimit (reenter f))
    (name : String) : Pres SameLimit (callNativeBody reenter name) := by
  unfold callNativeBody
  pres_auto
macro_rules
  | `(tactic| pres_prim) => `(tactic| with_reducible exact lpres_callNativeBody _ (by assumption) _)
theorem lpres_callNative (reenter : Reenter) (hre : ∀ f, Pres SameLimit (reenter f)) (h : UInt32) :
    Pres SameLimit (callNative reenter h) := by
  unfold callNative
  pres_auto
macro_rules
  | `(tactic| pres_prim) => `(tactic| with_reducible exact lpres_callNative _ (by assumption) _)
theorem lpres_step (p : Prog) (reenter : Reenter) (hre : ∀ f, Pres SameLimit (reenter f))
    (src : Nat) : Pres SameLimit (step p reenter src) := by
  unfold step
  pres_auto

/-- **no run changes the configured memory limit** -/
theorem run_limit (p : Prog) (n : Nat) (s : VmState) : (run p n s).1.mem.limit = s.mem.limit :=
  run_mem (R := SameLimit) p (lpres_step p) (fun re hre h => lpres_callNative re hre h) n s

/-! ## the accounting invariant as a relation -/

/-- the accounting invariant is carried over from the first state to the second -/
def InvR (s s' : VmState) : Prop := Inv s → Inv s'

/-- `Inv` only looks at the heap and at the allocator -/
theorem inv_of_same {s s' : VmState} (hh : s'.heap = s.heap) (hm : s'.mem = s.mem) (h : Inv s) :
    Inv s' := by
  obtain ⟨h1, h2, h3, h4, h5⟩ := h
  refine ⟨?_, ?_, ?_, ?_, ?_⟩
  · unfold Ledger at *; rw [hh, hm]; exact h1
  · unfold WithinLimit at *; rw [hm]; exact h2
  · rw [hh]; exact h3
  · rw [hh]; exact h4
  · unfold ThresholdOk at *; rw [hm]; exact h5

instance : MemFrame InvR where
  refl _ := id
  trans h1 h2 := fun h => h2 (h1 h)
  of_same hh hm := inv_of_same hh hm

theorem invR_of_same {s s' : VmState} (hh : s'.heap = s.heap) (hm : s'.mem = s.mem) : InvR s s' :=
  inv_of_same hh hm

/-! ## overwriting an object in place -/

theorem set_objs_of_get_none (h : Heap) (a : Nat) (o' : Obj) (hg : h.get a = none) :
    h.set a o' = h := by
  unfold Heap.get at hg
  unfold Heap.set
  have : h.objs.map (fun p => if p.1 == a then (a, o') else p) = h.objs := by
    generalize h.objs = l at hg
    induction l with
    | nil => rfl
    | cons p l ih =>
      by_cases hp : (p.1 == a) = true
      · simp [hp] at hg
      · have hp' : (p.1 == a) = false := by simpa using hp
        simp only [List.find?_cons, hp'] at hg
        simp only [List.map_cons, hp', Bool.false_eq_true, if_false, ih hg]
  rw [this]

/-- replacing an object by one with the same charge (or "replacing" at a free address, which does
    nothing) keeps the invariant -/
theorem set_inv (s : VmState) (a : Nat) (o' : Obj) (h : Inv s)
    (hc : ∀ o, s.heap.get a = some o → Heap.chargeOf o' = Heap.chargeOf o) :
    Inv { s with heap := s.heap.set a o' } := by
  cases hg : s.heap.get a with
  | none => rw [set_objs_of_get_none _ _ _ hg]; exact h
  | some o =>
    exact ⟨set_ledgerP s a o o' 0 h.unique hg (hc o hg) h.ledger, h.within,
      set_unique _ _ _ h.unique, set_fresh _ _ _ h.fresh, h.threshold⟩

theorem upvalueSlot_some {h : Heap} {a i : Nat} (hs : upvalueSlot h a = some i) :
    h.get a = some (.upvalue (.stack i)) := by
  unfold upvalueSlot at hs
  split at hs
  · next j hj => cases hs; exact hj
  · cases hs

/-- `closeUpvalues` only turns open upvalue objects into closed ones: same charge -/
theorem closeGo_inv (top : Nat) (s0 : VmState) : ∀ (l : List Nat) (s : VmState), Inv s →
    Inv { s with heap := (closeUpvalues.go top s0 l s.heap).2 } := by
  intro l
  induction l with
  | nil => intro s h; exact h
  | cons a rest ih =>
    intro s h
    unfold closeUpvalues.go
    split
    · next i hi =>
      split
      · exact h
      · have hg := upvalueSlot_some hi
        have := ih { s with heap := s.heap.set a (.upvalue (.closed (s0.stack.data.getD i .nil))) }
          (set_inv s a _ h (fun o ho => by rw [hg] at ho; cases ho; rfl))
        exact this
    · exact h

theorem ipres_closeUpvalues (t : Nat) : Pres InvR (closeUpvalues t) := by
  unfold closeUpvalues
  refine pres_get_bind (fun s => ?_)
  refine presAt_set (fun h => ?_)
  have := closeGo_inv t s s.openUpvalues s h
  exact inv_of_same (s := { s with heap := (closeUpvalues.go t s s.openUpvalues s.heap).2 }) rfl rfl this

theorem ipres_writeUpvalueLoc (a : Nat) (v : Val) : Pres InvR (writeUpvalueLoc a v) := by
  unfold writeUpvalueLoc
  refine pres_get_bind (fun s => ?_)
  split
  · pres_auto
  · next w hw =>
    exact presAt_set (fun h => set_inv s a _ h (fun o ho => by rw [hw] at ho; cases ho; rfl))
  · pres_auto

/-! ## the allocating constructors (from `Props/C05.lean`) -/

theorem ipres_initTable : Pres InvR initTable := Pres.intro (fun s h => initTable_inv s h)
theorem ipres_initString (b : List UInt8) : Pres InvR (initString b) :=
  Pres.intro (fun s h => initString_inv b s h)
theorem ipres_initSimple (o : Obj) (ho : Heap.chargeOf o = Heap.objCharge) : Pres InvR (initSimple o) :=
  Pres.intro (fun s h => initSimple_inv o s ho h)

macro_rules | `(tactic| pres_prim) => `(tactic| with_reducible first
  | exact ipres_closeUpvalues _ | exact ipres_writeUpvalueLoc _ _ | exact ipres_initTable
  | exact ipres_initString _ | exact ipres_initSimple _ rfl)


/-! ## a weakest-precondition calculus with error postcondition `Inv` -/

/-- started in `s`, `m` either returns `a` in a state `s'` with `Q a s'`, or fails in a state
    that satisfies the invariant -/
def WP {α : Type} (m : M α) (Q : α → VmState → Prop) (s : VmState) : Prop :=
  match m.go s with
  | (.ok a, s') => Q a s'
  | (.error _, s') => C05.Inv s'

section wp
variable {α β : Type} {Q : α → VmState → Prop} {s : VmState}

theorem wp_of_go {m : M α} {a : α} {s' : VmState} (h : m.go s = (.ok a, s')) (hq : Q a s') :
    WP m Q s := by
  unfold WP; rw [h]; exact hq

theorem wp_pure {a : α} (h : Q a s) : WP (pure a) Q s := wp_of_go rfl h
theorem wp_get {Q : VmState → VmState → Prop} (h : Q s s) : WP get Q s := wp_of_go rfl h
theorem wp_modify {Q : PUnit → VmState → Prop} {f : VmState → VmState} (h : Q ⟨⟩ (f s)) :
    WP (modify f) Q s := wp_of_go rfl h
theorem wp_set {Q : PUnit → VmState → Prop} {x : VmState} (h : Q ⟨⟩ x) : WP (set x) Q s :=
  wp_of_go rfl h
theorem wp_throwE {e : ErrKind} (h : C05.Inv s) : WP (throwE e : M α) Q s := by
  unfold WP; exact h

theorem wp_bind {m : M α} {f : α → M β} {Q : β → VmState → Prop}
    (h : WP m (fun a s' => WP (f a) Q s') s) : WP (m >>= f) Q s := by
  unfold WP at h ⊢
  rw [go_bind]
  rcases hgo : m.go s with ⟨r, s'⟩
  rw [hgo] at h
  cases r with
  | ok a => exact h
  | error e => exact h

theorem wp_mono {m : M α} {Q' : α → VmState → Prop} (h : WP m Q s) (hq : ∀ a s', Q a s' → Q' a s') :
    WP m Q' s := by
  unfold WP at h ⊢
  rcases hgo : m.go s with ⟨r, s'⟩
  rw [hgo] at h
  cases r with
  | ok a => exact hq a s' h
  | error e => exact h

/-- a computation that carries the invariant over may be used as a step -/
theorem wp_pres {m : M α} (hm : Pres InvR m) (hi : C05.Inv s) (hq : ∀ a s', C05.Inv s' → Q a s') :
    WP m Q s := by
  have := hm.rel s hi
  unfold WP
  rcases hgo : m.go s with ⟨r, s'⟩
  rw [hgo] at this
  cases r with
  | ok a => exact hq a s' this
  | error e => exact this

/-- and the other way round -/
theorem pres_of_wp {m : M α} (h : ∀ s, C05.Inv s → WP m (fun _ s' => C05.Inv s') s) : Pres InvR m := by
  refine Pres.intro (fun s hi => ?_)
  have := h s hi
  unfold WP at this
  show C05.Inv (m.go s).2
  rcases hgo : m.go s with ⟨r, s'⟩
  rw [hgo] at this
  cases r with
  | ok a => exact this
  | error e => exact this

theorem wp_peek {Q : Val → VmState → Prop} {n : Nat} (h : Q (s.stack.peekLast n) s) :
    WP (peek n) Q s := wp_of_go rfl h

theorem go_pop (s : VmState) :
    pop.go s = (.ok s.stack.pop.2, { s with stack := s.stack.pop.1 }) := by
  unfold pop
  rw [go_bind]
  simp only [go_get]
  rcases s.stack.pop with ⟨st, v⟩
  rfl

theorem wp_pop {Q : Val → VmState → Prop} (h : Q s.stack.pop.2 { s with stack := s.stack.pop.1 }) :
    WP pop Q s := wp_of_go (go_pop s) h

theorem wp_dropGuard {Q : PUnit → VmState → Prop} {a : Nat}
    (h : Q ⟨⟩ { s with guards := s.guards.erase a }) : WP (dropGuard a) Q s := wp_of_go rfl h

theorem wp_curFrame {Q : Frame → VmState → Prop} (hi : C05.Inv s) (h : ∀ f, Q f s) : WP curFrame Q s := by
  unfold WP curFrame
  rw [go_bind]
  simp only [go_get]
  cases s.frames.getLast? with
  | none => exact hi
  | some f => exact h f

theorem wp_getTable {Q : (Nat × Nat × List (Val × Val)) → VmState → Prop} {v : Val} (hi : C05.Inv s)
    (h : ∀ a cap es, v = .obj a → s.heap.get a = some (.table cap es) → Q (a, cap, es) s) :
    WP (getTable v) Q s := by
  cases v with
  | obj a =>
    unfold WP
    have e : (getTable (.obj a)).go s = _ := getTable_run a s
    rw [e]
    cases hg : s.heap.get a with
    | none => exact hi
    | some o => cases o <;> first | exact h _ _ _ rfl hg | exact hi
  | nil => exact hi
  | int _ => exact hi
  | real _ => exact hi

end wp

/-! ### roots -/

theorem peekLast_mem {st : VStack Val} {n a : Nat} (h : st.peekLast n = .obj a) :
    Val.obj a ∈ st.contents := by
  unfold VStack.peekLast at h
  split at h
  · next hc =>
    rw [← h]
    unfold VStack.contents
    by_cases hl : st.count - n - 1 < st.data.length
    · have : st.data.getD (st.count - n - 1) default = st.data[st.count - n - 1] := by
        simp [List.getD, hl]
      rw [this]
      exact List.mem_take_iff_getElem.mpr ⟨st.count - n - 1, by omega, rfl⟩
    · have : st.data.getD (st.count - n - 1) default = (default : Val) := by
        simp [List.getD, Nat.le_of_not_lt hl]
      rw [this] at h
      cases h
  · cases h

theorem reach_of_stack {s : VmState} {a : Nat} (h : Val.obj a ∈ s.stack.contents) :
    Reach s.heap (rootAddrs s) a :=
  Reach.root (mem_addrs.mpr (by unfold roots; simp [h]))

theorem reach_of_guard {s : VmState} {a : Nat} (h : a ∈ s.guards) :
    Reach s.heap (rootAddrs s) a :=
  Reach.root (mem_addrs.mpr (by unfold roots; simp [h]))

/-! ### the allocating operations, with what the blocks need to know about their result -/

theorem allocPure_guards (c : Nat) (s : VmState) : (allocPure c s).2.guards = s.guards := by
  have := (allocBytes_obs c s).guards
  rwa [allocBytes_run] at this

/-- whatever is allocated after an allocation was allocated before -/
theorem allocPure_get (c : Nat) (s : VmState) (a : Nat) (o : Obj)
    (h : (allocPure c s).2.heap.get a = some o) : s.heap.get a = some o := by
  have := (allocBytes_vs_no_collection c s).2
  rw [allocBytes_run] at this
  rcases this with h' | h'
  · rwa [h'] at h
  · rw [h'] at h; exact ((gc_exact_get s a o).mp h).1

theorem withObject_get (o : Obj) (s : VmState) (a : Nat) (o' : Obj)
    (h : (withObject o s).heap.get a = some o') : s.heap.get a = some o' ∨ o' = o := by
  unfold withObject Heap.get at h
  simp only [List.find?_append] at h
  unfold Heap.get
  cases hf : s.heap.objs.find? (fun x => x.1 == a) with
  | some q => rw [hf] at h; exact Or.inl h
  | none =>
    rw [hf] at h
    simp only [Option.none_or, List.find?_cons, List.find?_nil] at h
    split at h
    · simp only [Option.map_some, Option.some.injEq] at h; exact Or.inr h.symm
    · cases h

theorem wp_alloc2 {Q : Nat → VmState → Prop} {s : VmState} (m : M Nat) (c1 c2 : Nat) (o : Obj)
    (hrun : ∀ s, m.run.run s = alloc2Pure c1 c2 o s) (hpres : Pres InvR m) (hi : C05.Inv s)
    (h : ∀ a s', C05.Inv s' → s'.guards = a :: s.guards → Q a s') : WP m Q s := by
  have hinv := hpres.rel s hi
  unfold WP
  have e : m.go s = _ := hrun s
  change C05.Inv (m.go s).2 at hinv
  rw [e] at hinv ⊢
  unfold alloc2Pure at hinv ⊢
  have g1 := allocPure_guards c1 s
  rcases h1 : allocPure c1 s with ⟨r1, s1⟩
  rw [h1] at hinv g1
  cases r1 with
  | error e => exact hinv
  | ok u =>
    dsimp only at hinv ⊢
    have g2 := allocPure_guards c2 s1
    rcases h2 : allocPure c2 s1 with ⟨r2, s2⟩
    rw [h2] at hinv g2
    cases r2 with
    | error e => exact hinv
    | ok u =>
      refine h _ _ hinv ?_
      show s2.heap.next :: s2.guards = _
      rw [g2, g1]

/-- `initTable`: the new table is guarded -/
theorem wp_initTable {Q : Nat → VmState → Prop} {s : VmState} (hi : C05.Inv s)
    (h : ∀ a s', C05.Inv s' → s'.guards = a :: s.guards → Q a s') : WP initTable Q s :=
  wp_alloc2 initTable _ _ _ initTable_run ipres_initTable hi h

theorem wp_initString {Q : Nat → VmState → Prop} {s : VmState} {b : List UInt8} (hi : C05.Inv s)
    (h : ∀ a s', C05.Inv s' → s'.guards = a :: s.guards → Q a s') : WP (initString b) Q s :=
  wp_alloc2 (initString b) _ _ _ (initString_run b) (ipres_initString b) hi h

/-- `initSimple`: every object allocated afterwards was allocated before, or is the new one -/
theorem wp_initSimple {Q : Nat → VmState → Prop} {s : VmState} {o : Obj}
    (ho : Heap.chargeOf o = Heap.objCharge) (hi : C05.Inv s)
    (h : ∀ a s', C05.Inv s' → (∀ c o', s'.heap.get c = some o' → s.heap.get c = some o' ∨ o' = o) →
      Q a s') : WP (initSimple o) Q s := by
  have hinv := initSimple_inv o s ho hi
  unfold WP
  have e : (initSimple o).go s = _ := initSimple_run o s
  rw [initSimple_run] at hinv
  rw [e]
  unfold alloc1Pure at hinv ⊢
  have g1 := allocPure_get Heap.objCharge s
  rcases h1 : allocPure Heap.objCharge s with ⟨r1, s1⟩
  rw [h1] at hinv g1
  cases r1 with
  | error e => exact hinv
  | ok u =>
    refine h _ _ hinv (fun c o' hc => ?_)
    rcases withObject_get o s1 c o' hc with h1 | h1
    · exact Or.inl (g1 c o' h1)
    · exact Or.inr h1

theorem tableInsertPure_guards (a : Nat) (k v : Val) (s : VmState) :
    (tableInsertPure a k v s).2.guards = s.guards := by
  unfold tableInsertPure
  split
  · dsimp only
    split
    · rfl
    · split
      · next cap es _ _ _ =>
        have g := allocPure_guards (Heap.tableCharge (HMap.growCap cap)) s
        rcases h1 : allocPure (Heap.tableCharge (HMap.growCap cap)) s with ⟨r, s1⟩
        rw [h1] at g
        cases r with
        | error e => exact g
        | ok u => exact g
      · rfl
  · rfl

/-- `tableInsert` into a rooted table: the invariant is kept and the guards are untouched -/
theorem wp_tableInsert {Q : Unit → VmState → Prop} {s : VmState} {a : Nat} {k v : Val} (hi : C05.Inv s)
    (hr : Reach s.heap (rootAddrs s) a)
    (h : ∀ s', C05.Inv s' → s'.guards = s.guards → Q () s') : WP (tableInsert a k v) Q s := by
  have hinv := tableInsert_inv a k v s hi hr
  have hg := tableInsertPure_guards a k v s
  unfold WP
  have e : (tableInsert a k v).go s = _ := tableInsert_run a k v s
  rw [tableInsert_run] at hinv
  rw [e]
  rcases hgo : tableInsertPure a k v s with ⟨r, s'⟩
  rw [hgo] at hinv hg
  cases r with
  | error e => exact hinv
  | ok u => exact h s' hinv hg


open Lean Elab Tactic Meta in
/-- `wp_head`: put the computation of a `WP` goal into weak head normal form (β, ζ, `match` on
    constructors) -/
elab "wp_head" : tactic => withMainContext do
  let g ← getMainGoal
  let t ← whnfR (← instantiateMVars (← g.getType))
  let fn := t.getAppFn
  let args := t.getAppArgs
  unless fn.isConstOf ``WP && args.size == 4 do
    throwError "wp_head: not a WP goal"
  let m := args[1]!
  let m' ← whnfCore m
  replaceMainGoal [← g.change (mkAppN fn (args.set! 1 m'))]

structure Stop (P : Prop) : Prop where
  out : P

theorem stop_initTable {β : Type} {f : Nat → M β} (h : Stop (Pres InvR (initTable >>= f))) :
    Pres InvR (initTable >>= f) := h.out
theorem stop_initTable_at {β : Type} {f : Nat → M β} {s : VmState}
    (h : Stop (Pres InvR (initTable >>= f))) : PresAt InvR (initTable >>= f) s := h.out.at_ s

macro "inv_auto" : tactic =>
  `(tactic| repeat' (first | (with_reducible apply stop_initTable) | (with_reducible apply stop_initTable_at) | pres_step))

theorem wp_forIn {γ σ : Type} (I : VmState → Prop) (l : List γ) (f : γ → σ → M (ForInStep σ))
    (hf : ∀ x b s, I s → WP (f x b) (fun _ s' => I s') s) :
    ∀ (init : σ) (s : VmState), I s → WP (forIn l init f) (fun _ s' => I s') s := by
  induction l with
  | nil => intro init s hs; rw [List.forIn_nil]; exact wp_pure hs
  | cons x xs ih =>
    intro init s hs
    rw [List.forIn_cons]
    refine wp_bind (wp_mono (hf x init s hs) (fun r s' hs' => ?_))
    cases r with
    | done b => exact wp_pure hs'
    | yield b => exact ih b s' hs'

theorem ipres_callNativeBody (reenter : Reenter) (hre : ∀ f, Pres InvR (reenter f)) (name : String) :
    Pres InvR (callNativeBody reenter name) := by
  unfold callNativeBody
  inv_auto
  -- "__min", "__max": the result row
  iterate 2
    refine ⟨pres_of_wp (fun s hi => ?_)⟩
    refine wp_bind (wp_initTable hi (fun row s1 hi1 g1 => ?_))
    refine wp_bind (wp_initString hi1 (fun ks s2 hi2 g2 => ?_))
    refine wp_bind (wp_tableInsert hi2 (reach_of_guard (by rw [g2, g1]; simp)) (fun s3 hi3 g3 => ?_))
    refine wp_bind (wp_dropGuard ?_)
    refine wp_bind (wp_initString (inv_of_same (s := s3) rfl rfl hi3) (fun vs s4 hi4 g4 => ?_))
    refine wp_bind (wp_tableInsert hi4 (reach_of_guard (by rw [g4, g3, g2, g1]; simp)) (fun s5 hi5 g5 => ?_))
    exact wp_pres (by pres_auto) hi5 (fun _ _ h => h)
  -- "__sort"
  · refine ⟨pres_of_wp (fun s hi => ?_)⟩
    refine wp_bind (wp_initTable hi (fun out s1 hi1 g1 => ?_))
    refine wp_bind (wp_mono (wp_forIn (fun s => C05.Inv s ∧ out ∈ s.guards) _ _ ?_ _ s1 ⟨hi1, by rw [g1]; simp⟩)
      (fun _ s2 h2 => ?_))
    · intro x b s' hs'
      wp_head
      refine wp_bind (wp_tableInsert hs'.1 (reach_of_guard hs'.2) (fun s'' hi'' g'' => ?_))
      exact wp_pure ⟨hi'', by rw [g'']; exact hs'.2⟩
    · exact wp_pres (by pres_auto) h2.1 (fun _ _ h => h)
  -- "__to_array"
  · refine ⟨pres_of_wp (fun s hi => ?_)⟩
    refine wp_bind (wp_initTable hi (fun out s1 hi1 g1 => ?_))
    wp_head
    refine wp_bind (wp_mono (wp_forIn (fun s => C05.Inv s ∧ out ∈ s.guards) _ _ ?_ _ s1 ⟨hi1, by rw [g1]; simp⟩)
      (fun _ s2 h2 => ?_))
    · intro x b s' hs'
      wp_head
      refine wp_bind (wp_tableInsert hs'.1 (reach_of_guard hs'.2) (fun s'' hi'' g'' => ?_))
      exact wp_pure ⟨hi'', by rw [g'']; exact hs'.2⟩
    · exact wp_pres (by pres_auto) h2.1 (fun _ _ h => h)
  -- "mktable"
  · refine ⟨pres_of_wp (fun s hi => ?_)⟩
    refine wp_bind (wp_initTable hi (fun row s1 hi1 g1 => ?_))
    refine wp_bind (wp_initString hi1 (fun ks s2 hi2 g2 => ?_))
    refine wp_bind (wp_tableInsert hi2 (reach_of_guard (by rw [g2, g1]; simp)) (fun s3 hi3 g3 => ?_))
    exact wp_pres (by pres_auto) hi3 (fun _ _ h => h)


macro_rules
  | `(tactic| pres_prim) => `(tactic| with_reducible exact ipres_callNativeBody _ (by assumption) _)

theorem ipres_callNative (reenter : Reenter) (hre : ∀ f, Pres InvR (reenter f)) (h : UInt32) :
    Pres InvR (callNative reenter h) := by
  unfold callNative
  pres_auto
macro_rules
  | `(tactic| pres_prim) => `(tactic| with_reducible exact ipres_callNative _ (by assumption) _)

theorem closure_charge {s : VmState} {c : Nat} {hd ar : UInt32} {ups ups' : List Nat}
    (hg : s.heap.get c = some (.closure hd ar ups)) :
    ∀ o, s.heap.get c = some o → Heap.chargeOf (.closure hd ar ups') = Heap.chargeOf o := by
  intro o ho; rw [hg] at ho; cases ho; rfl

/-- **one instruction carries the accounting invariant over**, on success and on failure, as soon as
    the re-entry callback does -/
theorem ipres_step (p : Prog) (reenter : Reenter) (hre : ∀ f, Pres InvR (reenter f)) (src : Nat) :
    Pres InvR (step p reenter src) := by
  unfold step
  pres_head
  repeat' (with_reducible apply pres_ite)
  all_goals first | (pres_auto; done) | skip
  -- setProperty
  · refine pres_of_wp (fun s hi => ?_)
    refine wp_bind (wp_peek ?_)
    refine wp_bind (wp_peek ?_)
    refine wp_bind (wp_peek ?_)
    refine wp_bind (wp_getTable hi (fun a cap es hv hg => ?_))
    wp_head
    refine wp_bind (wp_tableInsert hi (reach_of_stack (peekLast_mem hv)) (fun s' hi' _ => ?_))
    exact wp_pres (by pres_auto) hi' (fun _ _ h => h)
  -- nthRow
  · refine pres_of_wp (fun s hi => ?_)
    refine wp_bind (wp_peek ?_)
    refine wp_bind (wp_peek ?_)
    refine wp_bind (wp_getTable hi (fun a cap es hv hg => ?_))
    wp_head
    split
    · next i _ =>
      wp_head
      split
      · exact wp_bind (wp_throwE hi)
      · wp_head
        generalize es.getD i.toInt.toNat (Val.nil, Val.nil) = kv
        obtain ⟨k, v⟩ := kv
        wp_head
        refine wp_bind (wp_initTable hi (fun row s1 hi1 g1 => ?_))
        refine wp_bind (wp_initString hi1 (fun ks s2 hi2 g2 => ?_))
        refine wp_bind (wp_initString hi2 (fun vs s3 hi3 g3 => ?_))
        refine wp_bind (wp_tableInsert hi3 (reach_of_guard (by rw [g3, g2, g1]; simp)) (fun s4 hi4 g4 => ?_))
        refine wp_bind (wp_tableInsert hi4 (reach_of_guard (by rw [g4, g3, g2, g1]; simp)) (fun s5 hi5 g5 => ?_))
        exact wp_pres (by pres_auto) hi5 (fun _ _ h => h)
    · exact wp_throwE hi
  -- appendTable
  · refine pres_of_wp (fun s hi => ?_)
    refine wp_bind (wp_peek ?_)
    refine wp_bind (wp_peek ?_)
    refine wp_bind (wp_getTable hi (fun a cap es hv hg => ?_))
    wp_head
    refine wp_bind (wp_get ?_)
    wp_head
    refine wp_bind (wp_tableInsert hi (reach_of_stack (peekLast_mem hv)) (fun s' hi' _ => ?_))
    exact wp_pres (by pres_auto) hi' (fun _ _ h => h)
  -- popTable
  · refine pres_of_wp (fun s hi => ?_)
    refine wp_bind (wp_pop ?_)
    have hi1 : C05.Inv { s with stack := s.stack.pop.1 } := inv_of_same (s := s) rfl rfl hi
    refine wp_bind (wp_getTable hi1 (fun a cap es hv hg => ?_))
    wp_head
    split
    · exact wp_pres (by pres_auto) hi1 (fun _ _ h => h)
    · refine wp_bind (wp_modify ?_)
      refine wp_pres (by pres_auto) ?_ (fun _ _ h => h)
      exact set_inv _ a _ hi1 (fun o ho => by rw [hg] at ho; cases ho; rfl)
  -- registerUpvalue
  · refine pres_of_wp (fun s hi => ?_)
    wp_head
    refine wp_bind (wp_pop ?_)
    have hi1 : C05.Inv { s with stack := s.stack.pop.1 } := inv_of_same (s := s) rfl rfl hi
    generalize ({ s with stack := s.stack.pop.1 } : VmState) = s1 at hi1 ⊢
    split
    · next c _ =>
      refine wp_bind (wp_get ?_)
      split
      · next hd ar ups hg =>
        wp_head
        split
        · refine wp_bind (wp_curFrame hi1 (fun fr => ?_))
          wp_head
          refine wp_bind (wp_get ?_)
          wp_head
          split
          · exact wp_bind (wp_throwE hi1)
          · wp_head
            refine wp_bind (wp_get ?_)
            split
            · refine wp_bind (wp_modify ?_)
              exact wp_pure (set_inv s1 c _ hi1 (closure_charge hg))
            · refine wp_bind (wp_initSimple rfl hi1 (fun u s2 hi2 hget => ?_))
              refine wp_bind (wp_modify ?_)
              refine wp_bind (wp_dropGuard ?_)
              refine wp_pure ?_
              generalize List.partition _ s2.openUpvalues = pr
              obtain ⟨phi, plo⟩ := pr
              refine inv_of_same (s := { s2 with heap := s2.heap.set c (.closure hd ar (ups ++ [u])) }) rfl rfl ?_
              refine set_inv s2 c _ hi2 (fun o ho => ?_)
              rcases hget c o ho with h1 | h1
              · exact closure_charge hg o h1
              · rw [h1]; rfl
        · refine wp_bind (wp_curFrame hi1 (fun fr => ?_))
          split
          · exact wp_bind (wp_throwE hi1)
          · refine wp_bind (wp_get ?_)
            split
            · split
              · refine wp_bind (wp_modify ?_)
                exact wp_pure (set_inv s1 c _ hi1 (closure_charge hg))
              · exact wp_bind (wp_throwE hi1)
            · exact wp_bind (wp_throwE hi1)
      · exact wp_throwE hi1
    · exact wp_throwE hi1

/-! ## the dispatch loop, `run` -/

theorem exec_invR (p : Prog) (gas : Nat) (t : Task) (s : VmState) : InvR s (exec p gas t s).1 :=
  exec_mem p (ipres_step p) (fun re hre h => ipres_callNative re hre h) gas t s

theorem run_invR (p : Prog) (n : Nat) (s : VmState) : InvR s (run p n s).1 :=
  run_mem p (ipres_step p) (fun re hre h => ipres_callNative re hre h) n s

end Cao.RunInv
