import CaoProofs.Lemmas.WfDecode
/-!
# The structural invariant of the compiler state (C10)

`Inv H s`: the bytecode of `s` is a concatenation of whole instructions, every instruction has
well-formed operands (`OperOK`), labels and trace keys are instruction starts, and the auxiliary
tables (`Aux`) are consistent.  `H` is a set of *holes*: jump instructions whose operand is still a
placeholder (to be back-patched).
-/
namespace Cao.Compiler
open Cao Cao.Bytecode

/-! ## arrays -/

theorem getD_append_left {a b : Array UInt8} {i : Nat} (h : i < a.size) :
    (a ++ b).getD i 0 = a.getD i 0 := by
  simp only [Array.getD_eq_getD_getElem?]
  rw [Array.getElem?_append_left h]

theorem getD_append_right {a b : Array UInt8} {i : Nat} (h : a.size ≤ i) :
    (a ++ b).getD i 0 = b.getD (i - a.size) 0 := by
  simp only [Array.getD_eq_getD_getElem?]
  rw [Array.getElem?_append_right h]

theorem getD_of_getElem? {a a' : Array UInt8} {i : Nat} (h : a'[i]? = a[i]?) :
    a'.getD i 0 = a.getD i 0 := by
  simp only [Array.getD_eq_getD_getElem?, h]

theorem getD_toArray (l : List UInt8) (i : Nat) : l.toArray.getD i 0 = l.getD i 0 := by
  simp [Array.getD_eq_getD_getElem?, List.getD_eq_getElem?_getD]

/-- operand bytes of the instruction at `p` (`n` of them) -/
def opBytes (bc : Array UInt8) (p n : Nat) : List UInt8 :=
  (List.range n).map fun i => bc.getD (p + 1 + i) 0

theorem opBytes_congr {bc bc' : Array UInt8} {p n : Nat}
    (h : ∀ i, p < i → i ≤ p + n → bc'.getD i 0 = bc.getD i 0) : opBytes bc' p n = opBytes bc p n := by
  unfold opBytes
  apply List.map_congr_left
  intro i hi
  have := List.mem_range.1 hi
  exact h _ (by omega) (by omega)

theorem opBytes_append (bc : Array UInt8) (o : UInt8) (bs : List UInt8) :
    opBytes (bc ++ (o :: bs).toArray) bc.size bs.length = bs := by
  unfold opBytes
  apply List.ext_getElem
  · simp
  · intro i h1 h2
    simp only [List.length_map, List.length_range] at h1
    simp only [List.getElem_map, List.getElem_range]
    rw [getD_append_right (by omega), getD_toArray]
    have : bc.size + 1 + i - bc.size = i + 1 := by omega
    rw [this, List.getD_cons_succ, List.getD_eq_getElem?_getD, List.getElem?_eq_getElem h2]
    rfl

theorem opBytes_length (bc : Array UInt8) (p n : Nat) : (opBytes bc p n).length = n := by
  simp [opBytes]

/-! ## opcode classes -/

def isJump (o : UInt8) : Bool := o == op.goto || o == op.gotoIfTrue || o == op.gotoIfFalse
def isStr (o : UInt8) : Bool := o == op.stringLiteral || o == op.nativeFunctionPointer
def isSlot (o : UInt8) : Bool :=
  o == op.setLocalVar || o == op.readLocalVar || o == op.setUpvalue || o == op.readUpvalue
def isGlob (o : UInt8) : Bool := o == op.setGlobalVar || o == op.readGlobalVar
def isEach (o : UInt8) : Bool := o == op.beginForEach || o == op.forEach
def isFnp (o : UInt8) : Bool := o == op.functionPointer
def isClos (o : UInt8) : Bool := o == op.closure
def isReg (o : UInt8) : Bool := o == op.registerUpvalue

/-- opcodes whose operands are constrained by the checker -/
def constrained (o : UInt8) : Bool :=
  isJump o || isStr o || isFnp o || isClos o || isSlot o || isGlob o || isEach o || isReg o

/-- a complete length-prefixed UTF-8 string record starts at offset `off` of `data` -/
def StrAt (data : Array UInt8) (off : Nat) : Prop :=
  ∃ (str : String) (pre post : List UInt8),
    data.toList = pre ++ (le32 (UInt32.ofNat str.toUTF8.toList.length) ++ str.toUTF8.toList) ++ post ∧
    pre.length = off

theorem StrAt.append {data : Array UInt8} {off : Nat} (h : StrAt data off) (d : Array UInt8) :
    StrAt (data ++ d) off := by
  obtain ⟨str, pre, post, h1, h2⟩ := h
  exact ⟨str, pre, post ++ d.toList, by simp [h1], h2⟩

/-- well-formedness of the operands `bs` of the instruction `o` at position `p` -/
structure OperOK (H : Nat → Prop) (s : CState) (p : Nat) (o : UInt8) (bs : List UInt8) : Prop where
  trace : needsTrace o = true → ∃ t ∈ s.trace, t.1 = p
  jump : isJump o = true → H p ∨ ∃ t, bs = le32 (UInt32.ofNat t) ∧ Start s.bytecode t ∧ t ≤ s.bytecode.size
  str : isStr o = true → ∃ off, bs = le32 (UInt32.ofNat off) ∧ StrAt s.data off
  fnp : isFnp o = true → ∃ e ∈ s.jumpTable, bs.take 4 = le32 e.2.1
  clos : isClos o = true → ∃ l ∈ s.labels, bs.take 4 = le32 l.1
  slot : isSlot o = true → ∃ x, x < 255 ∧ bs = le32 (UInt32.ofNat x)
  glob : isGlob o = true → ∃ x, x < s.varIds.length ∧ bs = le32 (UInt32.ofNat x)
  each : isEach o = true → ∃ a b c d e, a < 255 ∧ b < 255 ∧ c < 255 ∧ d < 255 ∧ e < 255 ∧
    bs = le32 (UInt32.ofNat a) ++ (le32 (UInt32.ofNat b) ++ (le32 (UInt32.ofNat c) ++
      (le32 (UInt32.ofNat d) ++ le32 (UInt32.ofNat e))))
  reg : isReg o = true → ∃ i f, f.toNat ≤ 1 ∧ bs = [i, f]

/-- the hash of a global id -/
def idHash (i : Nat) : UInt32 := Hash.handleFromU32 (UInt32.ofNat i)

/-- `idHash` is injective below `n` -/
def HInj (n : Nat) : Prop := ∀ i j, i < n → j < n → idHash i = idHash j → i = j

/-- consistency of the auxiliary tables -/
structure Aux (s : CState) : Prop where
  locals : ∀ ls ∈ s.locals, ls.length ≤ 255
  upvalues : ∀ us ∈ s.upvalues, us.length ≤ 255
  ids : s.varIds.map (·.2) = List.range s.nextVar
  nodup : (s.varIds.map (·.1)).Pairwise (· ≠ ·)
  names : ∀ i, i < s.nextVar → ∃ n ∈ s.varNames, n.1 = idHash i
  namesEq : HInj s.nextVar → s.varNames.map (·.1) = (List.range s.nextVar).map idHash
  nv : s.nextVar ≤ s.bytecode.size

structure Inv (H : Nat → Prop) (s : CState) : Prop where
  tiled : Tiled s.bytecode 0 s.bytecode.size
  instr : ∀ p n, Start s.bytecode p → p < s.bytecode.size → Gen.spanOf (s.bytecode.getD p 0) = some n →
    OperOK H s p (s.bytecode.getD p 0) (opBytes s.bytecode p (n - 1))
  labels : ∀ l ∈ s.labels, Start s.bytecode l.2 ∧ l.2 ≤ s.bytecode.size
  trace : ∀ t ∈ s.trace, Start s.bytecode t.1 ∧ t.1 < s.bytecode.size
  aux : Aux s

/-- monotone growth of everything `OperOK` looks at -/
structure Grow (s s' : CState) : Prop where
  size_le : s.bytecode.size ≤ s'.bytecode.size
  pref : ∀ i, i < s.bytecode.size → s'.bytecode.getD i 0 = s.bytecode.getD i 0
  data : ∃ d, s'.data = s.data ++ d
  labels : ∀ l ∈ s.labels, l ∈ s'.labels
  trace : ∀ t ∈ s.trace, t ∈ s'.trace
  varIds : s.varIds.length ≤ s'.varIds.length
  jt : ∀ e ∈ s.jumpTable, e ∈ s'.jumpTable

theorem _root_.Cao.Bytecode.Tiled.grow {s s' : CState} (hg : Grow s s') {t : Nat} (ht : Start s.bytecode t)
    (hle : t ≤ s.bytecode.size) : Start s'.bytecode t :=
  Tiled.congr ht fun i _ h2 => hg.pref i (by omega)

theorem _root_.Cao.Bytecode.Tiled.shrink {s s' : CState} (hg : Grow s s') {t : Nat} (ht : Start s'.bytecode t)
    (hle : t ≤ s.bytecode.size) : Start s.bytecode t :=
  Tiled.congr ht fun i _ h2 => (hg.pref i (by omega)).symm

theorem OperOK.mono {H : Nat → Prop} {s s' : CState} {p : Nat} {o : UInt8} {bs : List UInt8}
    (hg : Grow s s') (h : OperOK H s p o bs) : OperOK H s' p o bs := by
  refine ⟨?_, ?_, ?_, ?_, ?_, h.slot, ?_, h.each, h.reg⟩
  · intro ho; obtain ⟨t, ht, hp⟩ := h.trace ho; exact ⟨t, hg.trace t ht, hp⟩
  · intro ho
    rcases h.jump ho with hh | ⟨t, h1, h2, h3⟩
    · exact .inl hh
    · exact .inr ⟨t, h1, h2.grow hg h3, Nat.le_trans h3 hg.size_le⟩
  · intro ho
    obtain ⟨off, h1, h2⟩ := h.str ho
    obtain ⟨d, hd⟩ := hg.data
    exact ⟨off, h1, by rw [hd]; exact h2.append d⟩
  · intro ho; obtain ⟨e, he, h1⟩ := h.fnp ho; exact ⟨e, hg.jt e he, h1⟩
  · intro ho; obtain ⟨l, hl, h1⟩ := h.clos ho; exact ⟨l, hg.labels l hl, h1⟩
  · intro ho; obtain ⟨x, hx, h1⟩ := h.glob ho; exact ⟨x, Nat.lt_of_lt_of_le hx hg.varIds, h1⟩

theorem OperOK.weaken {H H' : Nat → Prop} {s : CState} {p : Nat} {o : UInt8} {bs : List UInt8}
    (hH : ∀ q, H q → H' q) (h : OperOK H s p o bs) : OperOK H' s p o bs :=
  ⟨h.trace, fun ho => (h.jump ho).imp (hH p) id, h.str, h.fnp, h.clos, h.slot, h.glob, h.each, h.reg⟩

theorem Inv.weaken {H H' : Nat → Prop} {s : CState} (hH : ∀ q, H q → H' q) (h : Inv H s) : Inv H' s :=
  ⟨h.tiled, fun p n h1 h2 h3 => (h.instr p n h1 h2 h3).weaken hH, h.labels, h.trace, h.aux⟩

/-- the general step: the state grows by a tiled segment of well-formed instructions -/
theorem Inv.step {H : Nat → Prop} {s s' : CState} (hI : Inv H s) (hg : Grow s s')
    (ht : Tiled s'.bytecode s.bytecode.size s'.bytecode.size)
    (hi : ∀ p n, s.bytecode.size ≤ p → Tiled s'.bytecode s.bytecode.size p → p < s'.bytecode.size →
      Gen.spanOf (s'.bytecode.getD p 0) = some n →
      OperOK H s' p (s'.bytecode.getD p 0) (opBytes s'.bytecode p (n - 1)))
    (hl : ∀ l ∈ s'.labels, l ∈ s.labels ∨ (Start s'.bytecode l.2 ∧ l.2 ≤ s'.bytecode.size))
    (htr : ∀ t ∈ s'.trace, t ∈ s.trace ∨ (Start s'.bytecode t.1 ∧ t.1 < s'.bytecode.size))
    (ha : Aux s') : Inv H s' := by
  have hs0 : Start s'.bytecode s.bytecode.size := hI.tiled.grow hg (Nat.le_refl _)
  refine ⟨hs0.trans ht, ?_, ?_, ?_, ha⟩
  · intro p n hp hlt hsp
    rcases Nat.lt_or_ge p s.bytecode.size with hps | hps
    · have hp0 : Start s.bytecode p := hp.shrink hg (Nat.le_of_lt hps)
      obtain ⟨n0, hn0, hle, _⟩ := hp0.start_lt hI.tiled hps
      rw [hg.pref p hps] at hsp ⊢
      rw [hn0] at hsp; cases hsp
      have hn := span_pos hn0
      have := (hI.instr p n hp0 hps hn0).mono hg
      rwa [opBytes_congr (bc' := s'.bytecode) (fun i h1 h2 => hg.pref i (by omega))]
    · exact hi p n hps (hs0.split hp hps) hlt hsp
  · intro l hl'
    rcases hl l hl' with h | h
    · exact ⟨(hI.labels l h).1.grow hg (hI.labels l h).2, Nat.le_trans (hI.labels l h).2 hg.size_le⟩
    · exact h
  · intro t ht'
    rcases htr t ht' with h | h
    · have := hI.trace t h
      exact ⟨this.1.grow hg (Nat.le_of_lt this.2), Nat.lt_of_lt_of_le this.2 hg.size_le⟩
    · exact h


/-! ## special steps -/

/-- the part of the state the invariant looks at -/
def core (s : CState) :=
  (s.bytecode, s.data, s.labels, s.trace, s.varIds, s.varNames, s.nextVar, s.jumpTable, s.locals, s.upvalues)

theorem Aux.of_eq {s s' : CState} (h : Aux s) (hl : s'.locals = s.locals) (hu : s'.upvalues = s.upvalues)
    (hv : s'.varIds = s.varIds) (hn : s'.varNames = s.varNames) (hx : s'.nextVar = s.nextVar)
    (hb : s.bytecode.size ≤ s'.bytecode.size) : Aux s' := by
  refine ⟨?_, ?_, ?_, ?_, ?_, ?_, ?_⟩
  · rw [hl]; exact h.locals
  · rw [hu]; exact h.upvalues
  · rw [hv, hx]; exact h.ids
  · rw [hv]; exact h.nodup
  · rw [hn, hx]; exact h.names
  · rw [hn, hx]; exact h.namesEq
  · rw [hx]; exact Nat.le_trans h.nv hb

theorem Grow.of_eq {s s' : CState} (hb : s'.bytecode = s.bytecode) (hd : s'.data = s.data)
    (hl : s'.labels = s.labels) (ht : s'.trace = s.trace) (hv : s'.varIds = s.varIds)
    (hj : s'.jumpTable = s.jumpTable) : Grow s s' :=
  ⟨by rw [hb]; exact Nat.le_refl _, fun i _ => by rw [hb], ⟨#[], by rw [hd]; simp⟩,
   fun l h => by rw [hl]; exact h, fun l h => by rw [ht]; exact h, by rw [hv]; exact Nat.le_refl _,
   fun l h => by rw [hj]; exact h⟩

/-- nothing new in the bytecode: only tables grew -/
theorem Inv.tables {H : Nat → Prop} {s s' : CState} (hI : Inv H s) (hb : s'.bytecode = s.bytecode)
    (hg : Grow s s')
    (hl : ∀ l ∈ s'.labels, l ∈ s.labels ∨ (Start s'.bytecode l.2 ∧ l.2 ≤ s'.bytecode.size))
    (htr : ∀ t ∈ s'.trace, t ∈ s.trace) (ha : Aux s') : Inv H s' := by
  refine hI.step hg (by rw [hb]; exact .nil _) ?_ hl (fun t h => .inl (htr t h)) ha
  intro p n h1 _ h3
  rw [hb] at h3; omega

theorem Inv.of_core {H : Nat → Prop} {s s' : CState} (h : core s' = core s) (hI : Inv H s) : Inv H s' := by
  simp only [core, Prod.mk.injEq] at h
  obtain ⟨h1, h2, h3, h4, h5, h6, h7, h8, h9, h10⟩ := h
  exact hI.tables h1 (Grow.of_eq h1 h2 h3 h4 h5 h8) (fun l hl => .inl (by rw [← h3]; exact hl))
    (fun t ht => by rw [← h4]; exact ht) (hI.aux.of_eq h9 h10 h5 h6 h7 (by rw [h1]; exact Nat.le_refl _))

theorem isJump_span {o : UInt8} (h : isJump o = true) : Gen.spanOf o = some 5 := by
  simp only [isJump, Bool.or_eq_true, beq_iff_eq] at h
  rcases h with (h | h) | h <;> subst h <;> decide

/-- one whole instruction is appended -/
theorem Inv.push {H : Nat → Prop} {s s' : CState} {o : UInt8} {bs : List UInt8} (hI : Inv H s)
    (hb : s'.bytecode = s.bytecode ++ (o :: bs).toArray)
    (hsp : Gen.spanOf o = some (bs.length + 1))
    (hd : ∃ d, s'.data = s.data ++ d) (hl : s'.labels = s.labels)
    (ht : ∀ t ∈ s'.trace, t ∈ s.trace ∨ t.1 = s.bytecode.size) (ht' : ∀ t ∈ s.trace, t ∈ s'.trace)
    (hv : s.varIds.length ≤ s'.varIds.length) (hj : s'.jumpTable = s.jumpTable)
    (hok : OperOK H s' s.bytecode.size o bs) (ha : Aux s') : Inv H s' := by
  have hsz : s'.bytecode.size = s.bytecode.size + (bs.length + 1) := by rw [hb]; simp
  have hg : Grow s s' := ⟨by omega, fun i hi => by rw [hb]; exact getD_append_left hi, hd,
    fun l h => by rw [hl]; exact h, ht', hv, fun l h => by rw [hj]; exact h⟩
  have ho : s'.bytecode.getD s.bytecode.size 0 = o := by
    rw [hb, getD_append_right (Nat.le_refl _), Nat.sub_self, getD_toArray]; rfl
  have hs0 : Start s'.bytecode s.bytecode.size := hI.tiled.grow hg (Nat.le_refl _)
  have h1 : Tiled s'.bytecode s.bytecode.size s'.bytecode.size := by
    rw [hsz]; exact .single (by rw [ho]; exact hsp)
  refine hI.step hg h1 ?_ (fun l h => .inl (by rw [← hl]; exact h)) ?_ ha
  · intro p n hp htl hlt hspan
    have hpe : p = s.bytecode.size := by
      cases htl with
      | nil => rfl
      | @cons _ n' _ hs' ht' =>
        rw [ho, hsp] at hs'; cases hs'
        have := ht'.le; omega
    subst hpe
    rw [ho] at hspan ⊢
    rw [hsp] at hspan; cases hspan
    simp only [Nat.add_sub_cancel]
    rw [hb, opBytes_append]
    exact hok
  · intro t h
    rcases ht t h with h | h
    · exact .inl h
    · exact .inr ⟨by rw [h]; exact hs0, by rw [h]; omega⟩


theorem isJump_excl {o : UInt8} (h : isJump o = true) :
    isStr o = false ∧ isFnp o = false ∧ isClos o = false ∧ isSlot o = false ∧ isGlob o = false ∧
    isEach o = false ∧ isReg o = false := by
  simp only [isJump, Bool.or_eq_true, beq_iff_eq] at h
  rcases h with (h | h) | h <;> subst h <;> decide

theorem raw_excl {o : UInt8} (h : o = op.pop ∨ o = op.closeUpvalue) :
    Gen.spanOf o = some 1 ∧ needsTrace o = false ∧ constrained o = false := by
  rcases h with h | h <;> subst h <;> decide

theorem OperOK.of_unconstrained {H : Nat → Prop} {s : CState} {p : Nat} {o : UInt8} {bs : List UInt8}
    (hc : constrained o = false) (ht : needsTrace o = true → ∃ t ∈ s.trace, t.1 = p) :
    OperOK H s p o bs := by
  simp only [constrained, Bool.or_eq_false_iff] at hc
  obtain ⟨⟨⟨⟨⟨⟨⟨h1, h2⟩, h3⟩, h4⟩, h5⟩, h6⟩, h7⟩, h8⟩ := hc
  refine ⟨ht, ?_, ?_, ?_, ?_, ?_, ?_, ?_, ?_⟩ <;> intro h <;> simp_all

/-- raw one-byte instructions (`scope_end`) -/
theorem Inv.raw {H : Nat → Prop} : ∀ (bytes : List UInt8) (s : CState), Inv H s →
    (∀ b ∈ bytes, b = op.pop ∨ b = op.closeUpvalue) →
    Inv H { s with bytecode := s.bytecode ++ bytes.toArray }
  | [], s, hI, _ => by
    refine Inv.of_core ?_ hI
    simp [core]
  | b :: rest, s, hI, hb => by
    obtain ⟨h1, h2, h3⟩ := raw_excl (hb b (List.mem_cons_self ..))
    have hI1 : Inv H { s with bytecode := s.bytecode ++ [b].toArray } := by
      refine hI.push (o := b) (bs := []) rfl h1 ⟨#[], by simp⟩ rfl (fun t h => .inl h) (fun t h => h)
        (Nat.le_refl _) rfl (OperOK.of_unconstrained h3 (by rw [h2]; intro h; cases h)) ?_
      exact hI.aux.of_eq rfl rfl rfl rfl rfl (by simp)
    have := Inv.raw rest _ hI1 (fun b' hb' => hb b' (List.mem_cons_of_mem _ hb'))
    have e : s.bytecode ++ [b].toArray ++ rest.toArray = s.bytecode ++ (b :: rest).toArray := by simp
    simp only [e] at this
    exact this

theorem Inv.label {H : Nat → Prop} {s : CState} (hI : Inv H s) (h : UInt32) {pos : Nat}
    (hp : Start s.bytecode pos) (hle : pos ≤ s.bytecode.size) :
    Inv H { s with labels := s.labels ++ [(h, pos)] } := by
  refine hI.tables rfl ⟨Nat.le_refl _, fun _ _ => rfl, ⟨#[], by simp⟩, fun l hl => by simp [hl],
    fun _ h => h, Nat.le_refl _, fun _ h => h⟩ ?_ (fun _ h => h)
    (hI.aux.of_eq rfl rfl rfl rfl rfl (Nat.le_refl _))
  intro l hl
  simp only [List.mem_append, List.mem_singleton] at hl
  rcases hl with hl | rfl
  · exact .inl hl
  · exact .inr ⟨hp, hle⟩

theorem _root_.Cao.Bytecode.Tiled.congr_starts {bc bc' : Array UInt8} {a b : Nat} (h : Tiled bc a b)
    (he : ∀ q, Tiled bc a q → q < b → bc'.getD q 0 = bc.getD q 0) : Tiled bc' a b := by
  induction h with
  | nil => exact .nil _
  | @cons a n b hs ht ih =>
    have hn := span_pos hs
    have hle := ht.le
    refine .cons (by rw [he a (.nil _) (by omega)]; exact hs) (ih fun q hq hlt => he q (.cons hs hq) hlt)

theorem patch_getD (at_ : Nat) (bs : List UInt8) (a : Array UInt8) (h : at_ + 4 ≤ a.size) (i : Nat) :
    ((List.range 4).foldl (fun a j => a.set! (at_ + j) (bs.getD j 0)) a).getD i 0 =
      if at_ ≤ i ∧ i < at_ + 4 then bs.getD (i - at_) 0 else a.getD i 0 := by
  rw [range4]
  simp only [List.foldl_cons, List.foldl_nil, Array.set!_eq_setIfInBounds, Array.getD_eq_getD_getElem?,
    Array.getElem?_setIfInBounds, Array.size_setIfInBounds]
  have l3 : at_ + 3 < a.size := by omega
  have l2 : at_ + 2 < a.size := by omega
  have l1 : at_ + 1 < a.size := by omega
  have l0 : at_ < a.size := by omega
  by_cases h3 : at_ + 3 = i
  · subst h3
    have : at_ + 3 - at_ = 3 := by omega
    simp [this, l3]
  · by_cases h2 : at_ + 2 = i
    · subst h2
      have : at_ + 2 - at_ = 2 := by omega
      simp [this, l2]
    · by_cases h1 : at_ + 1 = i
      · subst h1
        have : at_ + 1 - at_ = 1 := by omega
        simp [this, l1]
      · by_cases h0 : at_ = i
        · subst h0
          simp [l0]
        · have : ¬ (at_ ≤ i ∧ i < at_ + 4) := by omega
          simp [h3, h2, h1, h0, this]

/-- back-patching the operand of the jump instruction at `p` with a valid target closes the hole -/
theorem Inv.patch {H H' : Nat → Prop} {s : CState} {p v : Nat} {bc' : Array UInt8} (hI : Inv H' s)
    (hp : Start s.bytecode p) (hp5 : p + 5 ≤ s.bytecode.size)
    (hj : isJump (s.bytecode.getD p 0) = true)
    (hsz : bc'.size = s.bytecode.size)
    (hget : ∀ i, bc'.getD i 0 = if p + 1 ≤ i ∧ i < p + 1 + 4
      then (le32 (UInt32.ofNat v)).getD (i - (p + 1)) 0 else s.bytecode.getD i 0)
    (hv : Start s.bytecode v) (hvle : v ≤ s.bytecode.size)
    (hH : ∀ q, H' q → H q ∨ q = p) : Inv H { s with bytecode := bc' } := by
  have hsp := isJump_span hj
  have hout : ∀ i, ¬ (p + 1 ≤ i ∧ i < p + 1 + 4) → bc'.getD i 0 = s.bytecode.getD i 0 := by
    intro i hi; rw [hget, if_neg hi]
  have hop : bc'.getD p 0 = s.bytecode.getD p 0 := hout p (by omega)
  have fwd : ∀ t, Start s.bytecode t → Start bc' t := by
    intro t ht
    refine ht.congr_starts fun q hq hlt => hout q ?_
    intro hc
    have := hp.no_overlap hq (by omega) hsp
    omega
  have hp' : Start bc' p := fwd p hp
  have bwd : ∀ t, Start bc' t → Start s.bytecode t := by
    intro t ht
    refine ht.congr_starts fun q hq hlt => (hout q ?_).symm
    intro hc
    have := hp'.no_overlap hq (by omega) (by rw [hop]; exact hsp)
    omega
  refine ⟨by show Tiled bc' 0 bc'.size; rw [hsz]; exact fwd _ hI.tiled, ?_, ?_, ?_, ?_⟩
  · intro q n hq hlt hn
    simp only at hq hlt hn ⊢
    have hq0 := bwd q hq
    rw [hsz] at hlt
    by_cases hqp : q = p
    · subst hqp
      rw [hop] at hn ⊢
      rw [hsp] at hn; cases hn
      have hold := hI.instr q 5 hq0 hlt hsp
      obtain ⟨e1, e2, e3, e4, e5, e6, e7⟩ := isJump_excl hj
      have hbytes : opBytes bc' q (5 - 1) = le32 (UInt32.ofNat v) := by
        apply List.ext_getElem
        · rw [opBytes_length, le32_length]
        · intro i h1 h2
          rw [opBytes_length] at h1
          simp only [opBytes, List.getElem_map, List.getElem_range]
          rw [hget, if_pos (by omega)]
          have : q + 1 + i - (q + 1) = i := by omega
          rw [this, List.getD_eq_getElem?_getD, List.getElem?_eq_getElem h2]; rfl
      rw [hbytes]
      refine ⟨hold.trace, fun _ => .inr ⟨v, rfl, fwd v hv, by show v ≤ bc'.size; omega⟩, ?_, ?_, ?_, ?_, ?_, ?_, ?_⟩
        <;> intro h <;> simp_all
    · have hqop : bc'.getD q 0 = s.bytecode.getD q 0 := by
        refine hout q ?_
        intro hc
        have := hp.no_overlap hq0 (by omega) hsp
        omega
      rw [hqop] at hn ⊢
      have hold := hI.instr q n hq0 hlt hn
      have hnp := span_pos hn
      have hb : opBytes bc' q (n - 1) = opBytes s.bytecode q (n - 1) := by
        apply opBytes_congr
        intro i h1 h2
        refine hout i ?_
        intro hc
        rcases Nat.lt_or_ge q p with hlt' | hge
        · have := hq0.no_overlap hp hlt' hn; omega
        · have := hp.no_overlap hq0 (by omega) hsp; omega
      rw [hb]
      refine ⟨hold.trace, ?_, hold.str, hold.fnp, hold.clos, hold.slot, hold.glob, hold.each, hold.reg⟩
      intro hjq
      rcases hold.jump hjq with hh | ⟨t, h1, h2, h3⟩
      · rcases hH q hh with hh | hh
        · exact .inl hh
        · exact absurd hh hqp
      · exact .inr ⟨t, h1, fwd t h2, by show t ≤ bc'.size; omega⟩
  · intro l hl
    have := hI.labels l hl
    exact ⟨fwd _ this.1, by show l.2 ≤ bc'.size; omega⟩
  · intro t ht
    have := hI.trace t ht
    exact ⟨fwd _ this.1, by show t.1 < bc'.size; omega⟩
  · exact hI.aux.of_eq rfl rfl rfl rfl rfl (by show s.bytecode.size ≤ bc'.size; omega)

end Cao.Compiler
