import CaoProofs.Lemmas.WfUnit
/-!
# From the invariant to the checker's view of operands (C10)
-/
namespace Cao.Compiler.Wf
open Cao Cao.Bytecode

/-! ## byte arrays and strings -/

theorem _root_.ByteArray.toList_loop_eq' (bs : ByteArray) : ∀ (n i : Nat) (r : List UInt8), bs.size - i = n →
    ByteArray.toList.loop bs i r = r.reverse ++ bs.data.toList.drop i := by
  intro n
  induction n with
  | zero =>
    intro i r h
    unfold ByteArray.toList.loop
    have : ¬ i < bs.size := by omega
    rw [if_neg this]
    have : bs.data.toList.length ≤ i := by
      rw [Array.length_toList, ByteArray.size_data]; omega
    rw [List.drop_eq_nil_of_le this, List.append_nil]
  | succ n ih =>
    intro i r h
    unfold ByteArray.toList.loop
    have hi : i < bs.size := by omega
    rw [if_pos hi, ih (i+1) _ (by omega)]
    have hl : i < bs.data.toList.length := by
      rw [Array.length_toList, ByteArray.size_data]; exact hi
    rw [List.drop_eq_getElem_cons hl, List.reverse_cons, List.append_assoc, List.singleton_append]
    congr 2
    show bs.data[i]! = _
    rw [getElem!_pos bs.data i (by rw [ByteArray.size_data]; exact hi)]
    rw [Array.getElem_toList]

theorem _root_.ByteArray.toList_eq' (bs : ByteArray) : bs.toList = bs.data.toList := by
  unfold ByteArray.toList
  rw [ByteArray.toList_loop_eq' bs _ 0 [] rfl]; rfl

theorem _root_.ByteArray.mk_toList_toArray' (bs : ByteArray) : ByteArray.mk bs.toList.toArray = bs := by
  rw [ByteArray.toList_eq']

/-- `String.toUTF8` always yields valid UTF-8 -/
theorem fromUTF8?_toUTF8_isSome (s : String) : (String.fromUTF8? s.toUTF8).isSome = true := by
  have h : s.toUTF8.IsValidUTF8 := s.isValidUTF8
  simp only [String.fromUTF8?, dif_pos h, Option.isSome_some]

theorem getD_toList (a : Array UInt8) (i : Nat) : a.getD i 0 = a.toList.getD i 0 := by
  simp [Array.getD_eq_getD_getElem?, List.getD_eq_getElem?_getD]

theorem getD_mid {pre mid post : List UInt8} (j : Nat) (hj : j < mid.length) :
    (pre ++ mid ++ post).getD (pre.length + j) 0 = mid.getD j 0 := by
  simp only [List.getD_eq_getElem?_getD]
  rw [List.getElem?_append_left (by simp; omega), List.getElem?_append_right (by omega)]
  congr 2; omega

theorem u32L_ofNat (x : Nat) : u32L (le32 (UInt32.ofNat x)) 0 = x % 2 ^ 32 := by
  rw [u32L_le32, UInt32.toNat_ofNat']

theorem u32L_take (bs : List UInt8) (h : 4 ≤ bs.length) : u32L (bs.take 4) 0 = u32L bs 0 := by
  simp only [u32L, List.getD_eq_getElem?_getD]
  rw [List.getElem?_take_of_lt (by omega), List.getElem?_take_of_lt (by omega),
    List.getElem?_take_of_lt (by omega), List.getElem?_take_of_lt (by omega)]

theorem u32L_append_left (a b : List UInt8) (off : Nat) (h : off + 4 ≤ a.length) :
    u32L (a ++ b) off = u32L a off := by
  simp only [u32L, List.getD_eq_getElem?_getD]
  rw [List.getElem?_append_left (by omega), List.getElem?_append_left (by omega),
    List.getElem?_append_left (by omega), List.getElem?_append_left (by omega)]

theorem u32L_append_right (a b : List UInt8) (off : Nat) (h : a.length ≤ off) :
    u32L (a ++ b) off = u32L b (off - a.length) := by
  simp only [u32L, List.getD_eq_getElem?_getD]
  rw [List.getElem?_append_right (by omega), List.getElem?_append_right (by omega),
    List.getElem?_append_right (by omega), List.getElem?_append_right (by omega)]
  have e1 : off + 1 - a.length = off - a.length + 1 := by omega
  have e2 : off + 2 - a.length = off - a.length + 2 := by omega
  have e3 : off + 3 - a.length = off - a.length + 3 := by omega
  rw [e1, e2, e3]

theorem opBytes_getD (bc : Array UInt8) (p m j : Nat) (h : j < m) :
    (opBytes bc p m).getD j 0 = bc.getD (p + 1 + j) 0 := by
  simp [opBytes, List.getD_eq_getElem?_getD, h]

theorem rdU32_opBytes (bc : Array UInt8) (p m off : Nat) (h : off + 4 ≤ m) :
    rdU32 bc (p + 1 + off) = u32L (opBytes bc p m) off := by
  rw [rdU32_eq]
  simp only [u32L]
  rw [opBytes_getD _ _ _ _ (by omega), opBytes_getD _ _ _ _ (by omega), opBytes_getD _ _ _ _ (by omega),
    opBytes_getD _ _ _ _ (by omega)]
  simp only [Nat.add_assoc]

/-- a string record found by the compiler is accepted by the checker -/
theorem validStr_of_StrAt {data : Array UInt8} {off : Nat} (h : StrAt data off) (hd : data.size < 2 ^ 32) :
    validStr data off = true := by
  obtain ⟨str, pre, post, h1, h2⟩ := h
  have hlen : data.size = pre.length + (4 + str.toUTF8.toList.length) + post.length := by
    rw [← Array.length_toList, h1]; simp only [List.length_append, le32_length]
  have hget : ∀ j, j < 4 + str.toUTF8.toList.length → data.getD (off + j) 0 =
      (le32 (UInt32.ofNat str.toUTF8.toList.length) ++ str.toUTF8.toList).getD j 0 := by
    intro j hj
    rw [getD_toList, h1, ← h2]
    exact getD_mid j (by simp only [List.length_append, le32_length]; omega)
  have hrd : rdU32 data off = str.toUTF8.toList.length := by
    rw [rdU32_eq]
    have e := u32L_ofNat str.toUTF8.toList.length
    simp only [u32L] at e
    have g0 := hget 0 (by omega)
    have g1 := hget 1 (by omega)
    have g2 := hget 2 (by omega)
    have g3 := hget 3 (by omega)
    simp only [List.getD_eq_getElem?_getD] at g0 g1 g2 g3 e
    rw [List.getElem?_append_left (by rw [le32_length]; omega)] at g0 g1 g2 g3
    rw [Nat.add_zero] at g0
    rw [g0, g1, g2, g3]
    simp only [Nat.zero_add] at e
    rw [e]
    exact Nat.mod_eq_of_lt (by omega)
  unfold validStr
  rw [if_neg (by omega)]
  simp only [hrd]
  rw [if_neg (by omega)]
  have hb : (List.range str.toUTF8.toList.length).map (fun i => data.getD (off + 4 + i) 0) =
      str.toUTF8.toList := by
    apply List.ext_getElem
    · simp
    · intro i h1' h2'
      simp only [List.getElem_map, List.getElem_range]
      rw [Nat.add_assoc, hget (4 + i) (by omega)]
      simp only [List.getD_eq_getElem?_getD]
      rw [List.getElem?_append_right (by rw [le32_length]; omega), le32_length]
      have : 4 + i - 4 = i := by omega
      rw [this, List.getElem?_eq_getElem h2']; rfl
  rw [hb, ByteArray.mk_toList_toArray']
  exact fromUTF8?_toUTF8_isSome str

/-! ## duplicate detection -/

theorem dupH_false_of_pairwise : ∀ (l : List UInt32), l.Pairwise (· ≠ ·) → wfReason.dupH l = false
  | [], _ => rfl
  | x :: r, h => by
    rw [List.pairwise_cons] at h
    unfold wfReason.dupH
    rw [dupH_false_of_pairwise r h.2, Bool.or_false]
    cases hc : r.contains x with
    | false => rfl
    | true =>
      have := List.contains_iff_mem.1 hc
      exact absurd rfl (h.1 x this)

end Cao.Compiler.Wf
