import CaoProofs.Lemmas.SerdeTables
import CaoModel.Vm
/-!
# Serialization of compiled programs (`CaoCompiledProgram`)

`CProgram` is the compiled program with its four tables as the Rust keeps them
(`labels: HandleTable<Label>`, `variables.ids / names: HandleTable<_>`,
`trace: CaoHashMap<u32, Trace>`); the derived `Serialize`/`Deserialize` impls go field by field, the
byte vectors and the version string are handled by the (trusted) format, the tables by the impls
modelled in `SerdeTables.lean`.

The interpreter model (`Vm.Prog`) looks tables up only through `find?` on their entry lists
(`p.labels.find?` in `step.callScript` / `exec`, `p.trace.find?` in `errTrace`), so programs whose
tables are equal *as maps* run identically: `exec_congr`, `run_congr`, `errTrace_congr`.
-/
namespace Cao.Serde
open Cao Cao.Vm Cao.Compiler

/-! ## equal lookups give equal runs -/

/-- the two programs agree on everything the interpreter reads -/
structure ProgEq (p p' : Prog) : Prop where
  bytecode : p.bytecode = p'.bytecode
  data : p.data = p'.data
  labels : ∀ l, p.labels.find? (fun x => x.1 == l) = p'.labels.find? (fun x => x.1 == l)
  trace : ∀ a, p.trace.find? (fun x => x.1 == a) = p'.trace.find? (fun x => x.1 == a)

theorem ProgEq.refl (p : Prog) : ProgEq p p := ⟨rfl, rfl, fun _ => rfl, fun _ => rfl⟩
theorem ProgEq.symm {p p' : Prog} (h : ProgEq p p') : ProgEq p' p :=
  ⟨h.bytecode.symm, h.data.symm, fun l => (h.labels l).symm, fun a => (h.trace a).symm⟩
theorem ProgEq.trans {p q r : Prog} (h1 : ProgEq p q) (h2 : ProgEq q r) : ProgEq p r :=
  ⟨h1.bytecode.trans h2.bytecode, h1.data.trans h2.data, fun l => (h1.labels l).trans (h2.labels l),
   fun a => (h1.trace a).trans (h2.trace a)⟩

theorem callScript_congr {p p' : Prog} (h : ProgEq p p')
    (src ip : Nat) (label : UInt32) (arity : Nat) (closure : Option Nat) :
    step.callScript p src ip label arity closure = step.callScript p' src ip label arity closure := by
  unfold step.callScript
  simp only [h.labels]

/-- one instruction reads the program only through the bytecode, the data and label lookups -/
theorem step_congr {p p' : Prog} (h : ProgEq p p') (re : Reenter) (src : Nat) :
    step p re src = step p' re src := by
  unfold step
  simp only [h.bytecode, h.data, callScript_congr h]

/-! ### the equations of `exec` (self-contained copies of the unfolding lemmas of `VmFrame.lean`,
so that this file depends on the model only) -/

/-- the callback `step` is given by `exec` -/
def reenterP (p : Prog) (gas : Nat) : Reenter := fun f => liftRun (exec p gas (.call f))

/-- the state in which the dispatch loop runs an instruction -/
def tickP (s : VmState) : VmState :=
  { s with remaining := s.remaining - 1, dispatches := s.dispatches + 1 }

theorem exec_zeroP (p : Prog) (t : Task) (s : VmState) :
    exec p 0 t s = (s, .error ⟨.panic "gas exhausted", 0, s.frames⟩) := by
  unfold exec; rfl

theorem exec_loopP (p : Prog) (gas ip : Nat) (s : VmState) :
    exec p (gas+1) (.loop ip) s =
      if ip ≥ p.bytecode.size then (s, .error ⟨.unexpectedEndOfInput, ip, s.frames⟩) else
      if s.remaining - 1 = 0 then
        ({ s with remaining := s.remaining - 1 }, .error ⟨.timeout, ip, s.frames⟩) else
      match (step p (reenterP p gas) ip).run.run (tickP s) with
      | (.error e, s') => (s', .error ⟨e, ip, s'.frames⟩)
      | (.ok ctl, s') => if ctl.exit then (s', .ok none) else exec p gas (.loop ctl.ip) s' := by
  rw [exec]
  by_cases h1 : ip ≥ p.bytecode.size
  · simp only [h1, if_true]
  · simp only [h1, if_false]
    by_cases h2 : s.remaining - 1 = 0
    · simp [h2]
    · simp only [h2, if_false, beq_iff_eq]
      rfl

def failP (s : VmState) (e : ErrKind) : VmState × Except RunErr (Option Val) :=
  (s, .error ⟨e, 0, s.frames⟩)

/-- `run_function` on a script callee -/
def enterScriptP (p : Prog) (gas : Nat) (s : VmState) (label : UInt32) (arity : Nat)
    (closure : Option Nat) : VmState × Except RunErr (Option Val) :=
  match p.labels.find? (fun l => l.1 == label) with
  | none => failP s .procedureNotFound
  | some (_, pos) =>
    if s.stack.count < arity then failP s .missingArgument else
    let fr : Frame := { src := pos, dst := p.bytecode.size - 1, stackOffset := s.stack.count - arity, closure := closure }
    if s.frames.length + 1 > s.frameCap then failP s .callStackOverflow else
    if s.frames.length + 2 > s.frameCap then (s, .error ⟨.callStackOverflow, 0, s.frames ++ [fr]⟩) else
    match exec p gas (.loop pos) { s with frames := s.frames ++ [fr, fr] } with
    | (s', .ok _) =>
      ({ s' with frames := s'.frames.take s.frames.length, stack := s'.stack.pop.1 }, .ok (some s'.stack.pop.2))
    | (s', .error e) => ({ s' with frames := s'.frames.take s.frames.length }, .error e)

theorem exec_callP (p : Prog) (gas : Nat) (f : Val) (s : VmState) :
    exec p (gas+1) (.call f) s =
      match f with
      | .obj a =>
        match s.heap.get a with
        | some (.native h) =>
          match (callNative (reenterP p gas) h).run.run s with
          | (.ok (), s') => ({ s' with stack := s'.stack.pop.1 }, .ok (some s'.stack.pop.2))
          | (.error e, s') => failP s' e
        | some (.fn h ar) => enterScriptP p gas s h ar.toNat none
        | some (.closure h ar _) => enterScriptP p gas s h ar.toNat (some a)
        | _ => failP s .invalidArgument
      | _ => failP s .invalidArgument := by
  unfold exec
  rfl

theorem enterScript_congr {p p' : Prog} (h : ProgEq p p') (gas : Nat)
    (ih : ∀ t s, exec p gas t s = exec p' gas t s) (s : VmState) (l : UInt32) (ar : Nat)
    (c : Option Nat) : enterScriptP p gas s l ar c = enterScriptP p' gas s l ar c := by
  unfold enterScriptP
  simp only [h.labels, h.bytecode, ih]

/-- **the dispatch loop / `run_function` of two programs that agree as maps are the same
    function** -/
theorem exec_congr {p p' : Prog} (h : ProgEq p p') :
    ∀ (gas : Nat) (t : Task) (s : VmState), exec p gas t s = exec p' gas t s := by
  intro gas
  induction gas with
  | zero => intro t s; rw [exec_zeroP, exec_zeroP]
  | succ gas ih =>
    have hre : reenterP p gas = reenterP p' gas := by
      funext f
      unfold reenterP
      have : exec p gas (.call f) = exec p' gas (.call f) := funext (ih (.call f))
      rw [this]
    intro t s
    cases t with
    | loop ip =>
      rw [exec_loopP, exec_loopP, step_congr h, hre, h.bytecode]
      simp only [ih]
    | call f =>
      rw [exec_callP, exec_callP, hre]
      simp only [enterScript_congr h gas ih]

theorem runLoop_congr {p p' : Prog} (h : ProgEq p p') (gas ip : Nat) (s : VmState) :
    runLoop p gas ip s = runLoop p' gas ip s := by
  unfold runLoop
  rw [exec_congr h]

/-- **`Vm::run` gives the same final state and the same outcome** -/
theorem run_congr {p p' : Prog} (h : ProgEq p p') (n : Nat) (s : VmState) :
    run p n s = run p' n s := by
  unfold run
  simp only [runLoop_congr h]

/-- the error trace is resolved through `trace` lookups only -/
theorem errTrace_congr {p p' : Prog} (h : ProgEq p p') (e : RunErr) :
    errTrace p e = errTrace p' e := by
  unfold errTrace
  simp only [h.trace]

/-! ## association lists -/

theorem find?_eq_lookup {K V : Type} [DecidableEq K] (l : List (K × V)) (k : K) :
    l.find? (fun x => x.1 == k) = (AL.lookup l k).map (fun v => (k, v)) := by
  induction l with
  | nil => rfl
  | cons x l ih =>
    obtain ⟨k', v⟩ := x
    simp only [List.find?_cons, AL.lookup_cons]
    by_cases hk : k' = k
    · subst hk; simp
    · have : (k' == k) = false := by simp [hk]
      simp only [this, hk, if_false]
      exact ih

/-- with unique keys, lookups do not depend on the order of the entries -/
theorem lookup_perm {K V : Type} [DecidableEq K] {l l' : List (K × V)} (wf : AL.WF l)
    (hp : l.Perm l') (k : K) : AL.lookup l k = AL.lookup l' k := by
  have wf' : AL.WF l' := (hp.map Prod.fst).nodup_iff.mp wf
  cases h : AL.lookup l k with
  | some v =>
    have := (AL.lookup_iff_mem wf k v).mp h
    exact ((AL.lookup_iff_mem wf' k v).mpr (hp.mem_iff.mp this)).symm
  | none =>
    symm
    rw [AL.lookup_eq_none] at h ⊢
    intro hk
    exact h ((hp.map Prod.fst).mem_iff.mpr hk)

/-- **`Prog` level**: two programs with the same bytes whose label and trace lists are
    permutations of each other run identically — provided the keys are unique (`NoDupKeys`);
    without that, `find?` returns the first match and the order matters (`progEq_needs_nodup`) -/
theorem progEq_of_perm {p p' : Prog} (hb : p.bytecode = p'.bytecode) (hd : p.data = p'.data)
    (hl : p.labels.Perm p'.labels) (hln : (p.labels.map Prod.fst).Nodup)
    (ht : p.trace.Perm p'.trace) (htn : (p.trace.map Prod.fst).Nodup) : ProgEq p p' where
  bytecode := hb
  data := hd
  labels := fun l => by rw [find?_eq_lookup, find?_eq_lookup, lookup_perm hln hl]
  trace := fun a => by rw [find?_eq_lookup, find?_eq_lookup, lookup_perm htn ht]

/-- the side condition is needed: with a duplicated label the two orders resolve differently -/
theorem progEq_needs_nodup :
    let p : Prog := { bytecode := #[], data := #[], labels := [(1, 0), (1, 5)], varNames := [], trace := [] }
    let p' : Prog := { p with labels := [(1, 5), (1, 0)] }
    p.labels.Perm p'.labels ∧ ¬ ProgEq p p' := by
  refine ⟨List.Perm.swap _ _ _, fun h => ?_⟩
  have := h.labels 1
  revert this
  decide

/-! ## the compiled program and its serialized form -/

structure CProgram where
  bytecode : Array UInt8
  data : Array UInt8
  labels : HTable Nat
  varIds : HTable Nat
  varNames : HTable String
  version : String
  trace : HMap Nat Trace

/-- what the derived `Serialize` hands to the format -/
structure SProgram where
  bytecode : Array UInt8
  data : Array UInt8
  labels : List (UInt32 × Nat)
  varIds : List (UInt32 × Nat)
  varNames : List (UInt32 × String)
  version : String
  trace : List (Nat × Trace)

def serializeProgram (p : CProgram) : SProgram :=
  { bytecode := p.bytecode, data := p.data, labels := htSerialize p.labels,
    varIds := htSerialize p.varIds, varNames := htSerialize p.varNames, version := p.version,
    trace := hmSerialize p.trace }

/-- the derived `Deserialize`: fields in declaration order. `fmt len` is the size hint the format
    gives for a map of `len` entries (`some len` for bincode / CBOR, `none` for JSON / YAML). -/
def deserializeProgram (hashOf : Nat → UInt64) (fmt : Nat → Option Nat) (sp : SProgram)
    (al : Alloc) : Alloc × Res CProgram :=
  match htDeserialize (hintCap (fmt sp.labels.length)) sp.labels al with
  | (al, .allocErr) => (al, .allocErr)
  | (al, .panic w) => (al, .panic w)
  | (al, .ok labels) =>
    match htDeserialize (hintCap (fmt sp.varIds.length)) sp.varIds al with
    | (al, .allocErr) => (al, .allocErr)
    | (al, .panic w) => (al, .panic w)
    | (al, .ok varIds) =>
      match htDeserialize (hintCap (fmt sp.varNames.length)) sp.varNames al with
      | (al, .allocErr) => (al, .allocErr)
      | (al, .panic w) => (al, .panic w)
      | (al, .ok varNames) =>
        match hmDeserialize hashOf (hintCap (fmt sp.trace.length)) sp.trace al with
        | (al, .allocErr) => (al, .allocErr)
        | (al, .panic w) => (al, .panic w)
        | (al, .ok trace) =>
          (al, .ok { bytecode := sp.bytecode, data := sp.data, labels := labels, varIds := varIds,
                     varNames := varNames, version := sp.version, trace := trace })

/-- the representation invariants of the four tables -/
structure CProgram.WF (hashOf : Nat → UInt64) (p : CProgram) : Prop where
  labels : C13.HTInv p.labels
  varIds : C13.HTInv p.varIds
  varNames : C13.HTInv p.varNames
  trace : C12.HInv hashOf p.trace

/-- `p ≃ p'`: same bytes, same version, the four tables equal as finite maps (same `get` for every
    key, same `len`, iteration lists permutations of each other) -/
structure CProgram.Equiv (hashOf : Nat → UInt64) (p p' : CProgram) : Prop where
  bytecode : p'.bytecode = p.bytecode
  data : p'.data = p.data
  version : p'.version = p.version
  labels : HTEquiv p.labels p'.labels
  varIds : HTEquiv p.varIds p'.varIds
  varNames : HTEquiv p.varNames p'.varNames
  trace : HMEquiv hashOf p.trace p'.trace

/-- the view of a compiled program the interpreter model takes (`Vm.Prog`) -/
def CProgram.toProg (p : CProgram) : Prog :=
  { bytecode := p.bytecode, data := p.data, labels := p.labels.toList,
    varNames := p.varNames.toList, trace := p.trace.toList }

/-- `CaoCompiledProgram::variable_id` -/
def CProgram.variableId (p : CProgram) (h : UInt32) : Option Nat := p.varIds.get h

/-- `Vm::read_var_by_name`'s lookup of the name -/
def CProgram.variableName (p : CProgram) (h : UInt32) : Option String := p.varNames.get h

theorem ht_find?_toList {V : Type} {t : HTable V} (hI : C13.HTInv t) (k : UInt32) :
    t.toList.find? (fun x => x.1 == k) = (t.get k).map (fun v => (k, v)) := by
  rw [find?_eq_lookup, (ht_toList_facts hI).2.2.1 k]

theorem hm_find?_toList {K V : Type} [DecidableEq K] {hashOf : K → UInt64} {m : HMap K V}
    (hI : C12.HInv hashOf m) (k : K) :
    m.toList.find? (fun x => x.1 == k) = (m.get hashOf k).map (fun v => (k, v)) := by
  rw [find?_eq_lookup, (hm_toList_facts hI).2.1 k]

/-- equivalent programs are indistinguishable for the interpreter -/
theorem CProgram.Equiv.progEq {hashOf : Nat → UInt64} {p p' : CProgram}
    (hw : p.WF hashOf) (hw' : p'.WF hashOf) (h : CProgram.Equiv hashOf p p') :
    ProgEq p.toProg p'.toProg where
  bytecode := h.bytecode.symm
  data := h.data.symm
  labels := fun l => by
    show p.labels.toList.find? _ = p'.labels.toList.find? _
    rw [ht_find?_toList hw.labels, ht_find?_toList hw'.labels, h.labels.get]
  trace := fun a => by
    show p.trace.toList.find? _ = p'.trace.toList.find? _
    rw [hm_find?_toList hw.trace, hm_find?_toList hw'.trace, h.trace.get]

/-! ## the tables of the model compiler's output -/

/-- `cp` holds the tables of the program `prog` the model compiler produced (whose tables are
    resolved association lists) -/
structure Represents (hashOf : Nat → UInt64) (cp : CProgram) (prog : Program) : Prop where
  bytecode : cp.bytecode = prog.bytecode
  data : cp.data = prog.data
  labels : ∀ k, cp.labels.get k = AL.lookup prog.labels k
  varIds : ∀ k, cp.varIds.get k = AL.lookup prog.varIds k
  varNames : ∀ k, cp.varNames.get k = AL.lookup prog.varNames k
  trace : ∀ k, cp.trace.get hashOf k = AL.lookup prog.trace k

theorem Represents.progEq {hashOf : Nat → UInt64} {cp : CProgram} {prog : Program}
    (hw : cp.WF hashOf) (h : Represents hashOf cp prog) :
    ProgEq cp.toProg (Prog.ofProgram prog) where
  bytecode := h.bytecode
  data := h.data
  labels := fun l => by
    show cp.labels.toList.find? _ = prog.labels.find? _
    rw [ht_find?_toList hw.labels, find?_eq_lookup, h.labels]
  trace := fun a => by
    show cp.trace.toList.find? _ = prog.trace.find? _
    rw [hm_find?_toList hw.trace, find?_eq_lookup, h.trace]

theorem Represents.of_equiv {hashOf : Nat → UInt64} {cp cp' : CProgram} {prog : Program}
    (h : Represents hashOf cp prog) (he : CProgram.Equiv hashOf cp cp') :
    Represents hashOf cp' prog where
  bytecode := he.bytecode.trans h.bytecode
  data := he.data.trans h.data
  labels := fun k => (he.labels.get k).trans (h.labels k)
  varIds := fun k => (he.varIds.get k).trans (h.varIds k)
  varNames := fun k => (he.varNames.get k).trans (h.varNames k)
  trace := fun k => (he.trace.get k).trans (h.trace k)

end Cao.Serde
