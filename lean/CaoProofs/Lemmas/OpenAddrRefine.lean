import CaoProofs.Lemmas.OpenAddr
/-!
# Refinement lemmas for the executable open-addressing core

`CaoModel/OpenAddr.lean` (`find/get/put/erase/toList/rehash/compact`) is related to a finite map
`f : K → Option V` through `Abs cap s f`; the lemmas here say that, under the representation
invariant `Inv`, every core operation terminates (`find` never returns `none`) and implements the
corresponding map operation. The second part (`Cao.AL`) is the association-list vocabulary used
as the specification state in `Props/C12.lean` and `Props/C13.lean`.
-/
namespace Cao.OA

variable {K V : Type}

/-! ### `toList`, `size` -/

theorem toList_succ (n : Nat) (s : Slots K V) : toList (n+1) s = toList n s ++ (s n).toList := by
  cases h : s n <;> simp [toList, List.range_succ, List.filterMap_append, h]

/-- number of occupied slots below `cap` -/
def size (cap : Nat) (s : Slots K V) : Nat := (toList cap s).length

@[simp] theorem size_zero (s : Slots K V) : size 0 s = 0 := by simp [size, toList]

theorem size_succ (n : Nat) (s : Slots K V) :
    size (n+1) s = size n s + (if (s n).isSome then 1 else 0) := by
  cases h : s n <;> simp [size, toList_succ, h]

theorem mem_toList {cap : Nat} {s : Slots K V} {k : K} {v : V} :
    (k, v) ∈ toList cap s ↔ Mem cap s k v := by
  simp [toList, Mem, List.mem_filterMap]

theorem mem_toList' {cap : Nat} {s : Slots K V} {kv : K × V} :
    kv ∈ toList cap s ↔ Mem cap s kv.1 kv.2 := mem_toList

theorem size_le (cap : Nat) (s : Slots K V) : size cap s ≤ cap := by
  induction cap with
  | zero => simp
  | succ n ih => rw [size_succ]; split <;> omega

theorem size_lt_of_empty {cap : Nat} {s : Slots K V} {e : Nat} (he : e < cap) (hs : s e = none) :
    size cap s < cap := by
  induction cap with
  | zero => omega
  | succ n ih =>
    rw [size_succ]
    by_cases hen : e = n
    · subst hen; simp [hs]; have := size_le e s; omega
    · have := ih (by omega); split <;> omega

theorem exists_empty_of_size_lt {cap : Nat} {s : Slots K V} (h : size cap s < cap) :
    ∃ e < cap, s e = none := by
  induction cap with
  | zero => omega
  | succ n ih =>
    rw [size_succ] at h
    cases hn : s n with
    | none => exact ⟨n, by omega, hn⟩
    | some kv =>
      simp [hn] at h
      obtain ⟨e, he, hse⟩ := ih h
      exact ⟨e, by omega, hse⟩

theorem size_lt_iff {cap : Nat} {s : Slots K V} : size cap s < cap ↔ ∃ e < cap, s e = none :=
  ⟨exists_empty_of_size_lt, fun ⟨_, he, hs⟩ => size_lt_of_empty he hs⟩

/-- slots that agree below `cap` -/
def EqBelow (cap : Nat) (s s' : Slots K V) : Prop := ∀ i < cap, s i = s' i

theorem toList_congr {cap : Nat} {s s' : Slots K V} (h : EqBelow cap s s') :
    toList cap s = toList cap s' := by
  induction cap with
  | zero => simp [toList]
  | succ n ih =>
    rw [toList_succ, toList_succ, ih (fun i hi => h i (by omega)), h n (by omega)]

theorem size_congr {cap : Nat} {s s' : Slots K V} (h : EqBelow cap s s') :
    size cap s = size cap s' := by unfold size; rw [toList_congr h]

theorem size_upd_ge {cap i : Nat} (s : Slots K V) (x : Option (K × V)) (h : cap ≤ i) :
    size cap (upd s i x) = size cap s :=
  size_congr (fun j hj => upd_other _ _ _ _ (by omega))

/-- effect of a point update on the number of occupied slots -/
theorem size_upd {cap i : Nat} (s : Slots K V) (x : Option (K × V)) (h : i < cap) :
    size cap (upd s i x) + (if (s i).isSome then 1 else 0) =
      size cap s + (if x.isSome then 1 else 0) := by
  induction cap with
  | zero => omega
  | succ n ih =>
    rw [size_succ, size_succ]
    by_cases hin : i = n
    · subst hin
      rw [size_upd_ge s x (Nat.le_refl _), upd_same]
      omega
    · rw [upd_other _ _ _ _ (Ne.symm hin)]
      have := ih (by omega)
      omega

theorem size_upd_new {cap i : Nat} {s : Slots K V} (kv : K × V) (h : i < cap) (hs : s i = none) :
    size cap (upd s i (some kv)) = size cap s + 1 := by
  have := size_upd s (some kv) h; simp [hs] at this; exact this

theorem size_upd_over {cap i : Nat} {s : Slots K V} (kv : K × V) (h : i < cap)
    (hs : (s i).isSome = true) : size cap (upd s i (some kv)) = size cap s := by
  have := size_upd s (some kv) h; simp [hs] at this; exact this

theorem size_upd_none {cap i : Nat} {s : Slots K V} (h : i < cap) (hs : (s i).isSome = true) :
    size cap (upd s i none) + 1 = size cap s := by
  have := size_upd s none h; simp [hs] at this; exact this

/-- two free slots: after filling one empty slot another one remains -/
theorem exists_two_empty {cap : Nat} {s : Slots K V} (h : size cap s + 1 < cap) :
    ∃ e1 < cap, ∃ e2 < cap, e1 ≠ e2 ∧ s e1 = none ∧ s e2 = none := by
  obtain ⟨e1, he1, hs1⟩ := exists_empty_of_size_lt (cap := cap) (s := s) (by omega)
  by_cases hex : ∃ j kv, s j = some kv
  · obtain ⟨j, kv, _⟩ := hex
    have hsz := size_upd_new (s := s) kv he1 hs1
    obtain ⟨e2, he2, hs2⟩ := exists_empty_of_size_lt (cap := cap) (s := upd s e1 (some kv))
      (by omega)
    have hne : e2 ≠ e1 := by intro e; subst e; simp at hs2
    rw [upd_other _ _ _ _ hne] at hs2
    exact ⟨e1, he1, e2, he2, Ne.symm hne, hs1, hs2⟩
  · have hall : ∀ j, s j = none := by
      intro j
      cases hj : s j with
      | none => rfl
      | some kv => exact absurd ⟨j, kv, hj⟩ hex
    exact ⟨0, by omega, 1, by omega, by omega, hall 0, hall 1⟩

@[simp] theorem toList_empty (cap : Nat) : toList cap (empty : Slots K V) = [] := by
  induction cap with
  | zero => simp [toList]
  | succ n ih => rw [toList_succ, ih]; simp [empty]

@[simp] theorem size_empty (cap : Nat) : size cap (empty : Slots K V) = 0 := by simp [size]

/-- keys of `toList` are pairwise distinct when the slots hold distinct keys -/
theorem toList_keys_nodup {cap : Nat} {s : Slots K V}
    (hd : ∀ i < cap, ∀ j < cap, ∀ k v w, s i = some (k, v) → s j = some (k, w) → i = j) :
    ((toList cap s).map Prod.fst).Nodup := by
  suffices h : ∀ n ≤ cap, ((toList n s).map Prod.fst).Nodup from h cap (Nat.le_refl _)
  intro n
  induction n with
  | zero => intro _; simp [toList]
  | succ n ih =>
    intro hn
    rw [toList_succ, List.map_append, List.nodup_append]
    refine ⟨ih (by omega), ?_, ?_⟩
    · cases s n <;> simp
    · intro a ha b hb
      cases hsn : s n with
      | none => simp [hsn] at hb
      | some kv =>
        obtain ⟨k, v⟩ := kv
        simp [hsn] at hb
        subst hb
        obtain ⟨⟨a', v'⟩, hmem, rfl⟩ := List.mem_map.mp ha
        obtain ⟨i, hi, hsi⟩ := mem_toList.mp hmem
        intro hab
        simp only at hab
        subst hab
        have := hd i (by omega) n (by omega) _ _ _ hsi hsn
        omega

theorem nodup_of_map {α β : Type} (f : α → β) {l : List α} (h : (l.map f).Nodup) : l.Nodup := by
  rw [List.nodup_iff_pairwise_ne, List.pairwise_map] at h
  exact h.imp (fun hab e => hab (by rw [e]))

theorem toList_nodup {cap : Nat} {s : Slots K V}
    (hd : ∀ i < cap, ∀ j < cap, ∀ k v w, s i = some (k, v) → s j = some (k, w) → i = j) :
    (toList cap s).Nodup := nodup_of_map _ (toList_keys_nodup hd)

/-! ### `find`, `get` -/

variable [DecidableEq K]

/-- **termination of the probe loop**: under `Inv`, `find` returns a slot below `cap` that either
    holds the key or is the first empty slot of its probe path (and then the key is absent) -/
theorem find_spec {cap : Nat} {home : K → Nat} {s : Slots K V} (inv : Inv cap home s) (k : K) :
    ∃ i < cap, find cap home s k = some i ∧
      ((∃ w, s i = some (k, w)) ∨
       (s i = none ∧ (∀ w, ¬ Mem cap s k w) ∧
          ∀ m < dist cap (home k) i, occ s (probe cap (home k) m))) := by
  by_cases h : ∃ w, Mem cap s k w
  · obtain ⟨w, i, hi, hs⟩ := h
    exact ⟨i, hi, find_mem inv hi hs, Or.inl ⟨w, hs⟩⟩
  · have h' : ∀ w, ¬ Mem cap s k w := fun w hw => h ⟨w, hw⟩
    obtain ⟨i, hi, hf, hs, hp⟩ := find_absent inv h'
    exact ⟨i, hi, hf, Or.inr ⟨hs, h', hp⟩⟩

theorem find_ne_none {cap : Nat} {home : K → Nat} {s : Slots K V} (inv : Inv cap home s) (k : K) :
    find cap home s k ≠ none := by
  obtain ⟨i, _, hf, _⟩ := find_spec inv k
  rw [hf]; simp

omit [DecidableEq K] in
theorem Mem_unique {cap : Nat} {home : K → Nat} {s : Slots K V} (inv : Inv cap home s)
    {k : K} {v w : V} (h1 : Mem cap s k v) (h2 : Mem cap s k w) : v = w := by
  obtain ⟨i, hi, hsi⟩ := h1
  obtain ⟨j, hj, hsj⟩ := h2
  have := inv.distinct i hi j hj k v w hsi hsj
  subst this
  rw [hsi] at hsj
  simpa using hsj

theorem get_eq_some_iff {cap : Nat} {home : K → Nat} {s : Slots K V} (inv : Inv cap home s)
    (k : K) (v : V) : get cap home s k = some v ↔ Mem cap s k v := by
  obtain ⟨i, hi, hf, h⟩ := find_spec inv k
  unfold get
  rw [hf]
  rcases h with ⟨w, hs⟩ | ⟨hs, habs, _⟩
  · simp only [hs, Option.map_some]
    constructor
    · intro h; simp at h; subst h; exact ⟨i, hi, hs⟩
    · intro h; rw [Mem_unique inv h ⟨i, hi, hs⟩]
  · simp only [hs, Option.map_none]
    constructor
    · intro h; cases h
    · intro h; exact absurd h (habs v)

/-- abstraction relation: the slots below `cap` represent the finite map `f` -/
def Abs (cap : Nat) (s : Slots K V) (f : K → Option V) : Prop :=
  ∀ k v, f k = some v ↔ Mem cap s k v

theorem Abs_get {cap : Nat} {home : K → Nat} {s : Slots K V} (inv : Inv cap home s) :
    Abs cap s (get cap home s) := fun k v => get_eq_some_iff inv k v

omit [DecidableEq K] in
theorem Abs_unique {cap : Nat} {s : Slots K V} {f g : K → Option V}
    (hf : Abs cap s f) (hg : Abs cap s g) : f = g := by
  funext k
  cases hfk : f k with
  | none =>
    cases hgk : g k with
    | none => rfl
    | some v => have := (hf k v).mpr ((hg k v).mp hgk); rw [hfk] at this; cases this
  | some v => exact ((hg k v).mpr ((hf k v).mp hfk)).symm

theorem get_spec {cap : Nat} {home : K → Nat} {s : Slots K V} {f : K → Option V}
    (inv : Inv cap home s) (habs : Abs cap s f) (k : K) : get cap home s k = f k := by
  rw [Abs_unique habs (Abs_get inv)]

omit [DecidableEq K] in
theorem Abs_none {cap : Nat} {s : Slots K V} {f : K → Option V} (habs : Abs cap s f) {k : K} :
    f k = none ↔ ∀ w, ¬ Mem cap s k w := by
  constructor
  · intro h w hw; rw [(habs k w).mpr hw] at h; cases h
  · intro h
    cases hfk : f k with
    | none => rfl
    | some v => exact absurd ((habs k v).mp hfk) (h v)

/-- the slot returned by `find` holds exactly what the abstract map says -/
theorem find_slot {cap : Nat} {home : K → Nat} {s : Slots K V} {f : K → Option V}
    (inv : Inv cap home s) (habs : Abs cap s f) {k : K} {i : Nat}
    (hf : find cap home s k = some i) : i < cap ∧ s i = (f k).map (fun w => (k, w)) := by
  obtain ⟨i', hi, hf', h⟩ := find_spec inv k
  rw [hf] at hf'
  obtain rfl : i = i' := by simpa using hf'
  refine ⟨hi, ?_⟩
  rcases h with ⟨w, hs⟩ | ⟨hs, hnone, _⟩
  · rw [(habs k w).mpr ⟨i, hi, hs⟩, hs]; rfl
  · rw [(Abs_none habs).mpr hnone, hs]; rfl

/-! ### `put` -/

/-- the abstract map after `k ↦ v` -/
def fupd (f : K → Option V) (k : K) (x : Option V) : K → Option V :=
  fun k' => if k' = k then x else f k'

@[simp] theorem fupd_same (f : K → Option V) (k : K) (x : Option V) : fupd f k x k = x := by
  simp [fupd]

theorem fupd_other (f : K → Option V) (k : K) (x : Option V) {k' : K} (h : k' ≠ k) :
    fupd f k x k' = f k' := by simp [fupd, h]

/-- overwriting the value of the key stored at slot `i` preserves the invariant -/
theorem overwrite_inv {cap : Nat} {home : K → Nat} {s : Slots K V} (inv : Inv cap home s)
    {k : K} {v w : V} {i : Nat} (hi : i < cap) (hsi : s i = some (k, w)) :
    Inv cap home (upd s i (some (k, v))) where
  capPos := inv.capPos
  homeLt := inv.homeLt
  path := by
    intro j hj k' v' hs m hm
    by_cases hji : j = i
    · subst hji
      simp at hs
      obtain ⟨rfl, rfl⟩ := hs
      exact occ_upd_some (inv.path j hj _ _ hsi m hm)
    · rw [upd_other _ _ _ _ hji] at hs
      exact occ_upd_some (inv.path j hj k' v' hs m hm)
  distinct := by
    intro a ha b hb k' v' w' hsa hsb
    by_cases hai : a = i <;> by_cases hbi : b = i
    · omega
    · subst hai
      simp at hsa
      rw [upd_other _ _ _ _ hbi] at hsb
      obtain ⟨rfl, _⟩ := hsa
      exact inv.distinct a ha b hb _ _ _ hsi hsb
    · subst hbi
      simp at hsb
      rw [upd_other _ _ _ _ hai] at hsa
      obtain ⟨rfl, _⟩ := hsb
      exact inv.distinct a ha b hb _ _ _ hsa hsi
    · rw [upd_other _ _ _ _ hai] at hsa
      rw [upd_other _ _ _ _ hbi] at hsb
      exact inv.distinct a ha b hb k' v' w' hsa hsb
  hasEmpty := by
    obtain ⟨e, he, hse⟩ := inv.hasEmpty
    have hne : e ≠ i := by intro h; rw [h, hsi] at hse; cases hse
    exact ⟨e, he, by rw [upd_other _ _ _ _ hne]; exact hse⟩

/-- membership after writing `(k, v)` into a slot that was empty or held `k` -/
theorem Mem_upd_key {cap : Nat} {s : Slots K V} {k : K} {v : V} {i : Nat} (hi : i < cap)
    (hold : ∀ k' w, s i = some (k', w) → k' = k)
    (hothers : ∀ j < cap, ∀ w, s j = some (k, w) → j = i) (k' : K) (v' : V) :
    Mem cap (upd s i (some (k, v))) k' v' ↔ (k' = k ∧ v' = v) ∨ (k' ≠ k ∧ Mem cap s k' v') := by
  constructor
  · rintro ⟨j, hj, hs⟩
    by_cases hji : j = i
    · subst hji
      simp at hs
      exact Or.inl ⟨hs.1.symm, hs.2.symm⟩
    · rw [upd_other _ _ _ _ hji] at hs
      by_cases hk : k' = k
      · subst hk; exact absurd (hothers j hj _ hs) hji
      · exact Or.inr ⟨hk, j, hj, hs⟩
  · rintro (⟨rfl, rfl⟩ | ⟨hk, j, hj, hs⟩)
    · exact ⟨i, hi, by simp⟩
    · have hji : j ≠ i := by
        intro h; subst h; exact hk (hold _ _ hs)
      exact ⟨j, hj, by rw [upd_other _ _ _ _ hji]; exact hs⟩

/-- writing `k ↦ v` at the slot returned by `find`: invariant, abstraction, size, displaced
    entry. `hroom`: if the key is new, another empty slot must remain afterwards. -/
theorem upd_find_spec {cap : Nat} {home : K → Nat} {s : Slots K V} {f : K → Option V}
    (inv : Inv cap home s) (habs : Abs cap s f) {k : K} (v : V) {i : Nat}
    (hf : find cap home s k = some i) (hroom : f k = none → size cap s + 1 < cap) :
    Inv cap home (upd s i (some (k, v))) ∧ Abs cap (upd s i (some (k, v))) (fupd f k (some v)) ∧
      size cap (upd s i (some (k, v))) = size cap s + (if (f k).isSome then 0 else 1) ∧
      s i = (f k).map (fun w => (k, w)) := by
  obtain ⟨i', hi, hf', h⟩ := find_spec inv k
  rw [hf] at hf'
  obtain rfl : i = i' := by simpa using hf'
  have hslot := (find_slot inv habs hf).2
  have hmem : ∀ k' v', Mem cap (upd s i (some (k, v))) k' v' ↔
      (k' = k ∧ v' = v) ∨ (k' ≠ k ∧ Mem cap s k' v') := by
    apply Mem_upd_key hi
    · intro k' w hs
      rcases h with ⟨w', hs'⟩ | ⟨hs', _⟩
      · rw [hs'] at hs; simp at hs; exact hs.1.symm
      · rw [hs'] at hs; cases hs
    · intro j hj w hs
      rcases h with ⟨w', hs'⟩ | ⟨_, hnone, _⟩
      · exact inv.distinct j hj i hi _ _ _ hs hs'
      · exact absurd ⟨j, hj, hs⟩ (hnone w)
  have habs' : Abs cap (upd s i (some (k, v))) (fupd f k (some v)) := by
    intro k' v'
    rw [hmem]
    by_cases hk : k' = k
    · subst hk; simp [eq_comm]
    · rw [fupd_other _ _ _ hk, habs k' v']; simp [hk]
  rcases h with ⟨w, hs⟩ | ⟨hs, hnone, hpath⟩
  · have hfk : f k = some w := (habs k w).mpr ⟨i, hi, hs⟩
    refine ⟨overwrite_inv inv hi hs, habs', ?_, hslot⟩
    rw [size_upd_over _ hi (by simp [hs]), hfk]; simp
  · have hfk : f k = none := (Abs_none habs).mpr hnone
    have hsz := size_upd_new (s := s) (k, v) hi hs
    refine ⟨?_, habs', ?_, hslot⟩
    · apply insert_new_inv inv hi hs hnone hpath
      have hlt : size cap (upd s i (some (k, v))) < cap := by rw [hsz]; exact hroom hfk
      obtain ⟨e, he, hse⟩ := exists_empty_of_size_lt hlt
      have hne : e ≠ i := by intro h; subst h; simp at hse
      rw [upd_other _ _ _ _ hne] at hse
      exact ⟨e, he, hne, hse⟩
    · rw [hsz, hfk]; simp

/-- **`put`** terminates and implements `f[k ↦ v]` when the key is present or two slots are empty -/
theorem put_spec {cap : Nat} {home : K → Nat} {s : Slots K V} {f : K → Option V}
    (inv : Inv cap home s) (habs : Abs cap s f) (k : K) (v : V)
    (hroom : f k = none → size cap s + 1 < cap) :
    ∃ s', put cap home s k v = some (s', (f k).map (fun w => (k, w))) ∧
      Inv cap home s' ∧ Abs cap s' (fupd f k (some v)) ∧
      size cap s' = size cap s + (if (f k).isSome then 0 else 1) := by
  obtain ⟨i, _, hf, _⟩ := find_spec inv k
  obtain ⟨h1, h2, h3, h4⟩ := upd_find_spec inv habs v hf hroom
  refine ⟨upd s i (some (k, v)), ?_, h1, h2, h3⟩
  unfold put
  simp only [hf, h4]

/-! ### backward shift preserves the stored entries -/

omit [DecidableEq K] in
theorem Mem_move {cap : Nat} {s : Slots K V} {hole j : Nat} {kj : K} {vj : V}
    (hh : hole < cap) (hj : j < cap) (hsh : s hole = none) (hsj : s j = some (kj, vj))
    (k : K) (v : V) :
    Mem cap (upd (upd s hole (some (kj, vj))) j none) k v ↔ Mem cap s k v := by
  have hne : j ≠ hole := by intro h; rw [h, hsh] at hsj; cases hsj
  constructor
  · rintro ⟨x, hx, hs⟩
    by_cases hxj : x = j
    · subst hxj; simp at hs
    rw [upd_other _ _ _ _ hxj] at hs
    by_cases hxh : x = hole
    · subst hxh
      simp at hs
      obtain ⟨rfl, rfl⟩ := hs
      exact ⟨j, hj, hsj⟩
    · rw [upd_other _ _ _ _ hxh] at hs
      exact ⟨x, hx, hs⟩
  · rintro ⟨x, hx, hs⟩
    by_cases hxj : x = j
    · subst hxj
      rw [hsj] at hs
      obtain ⟨rfl, rfl⟩ : k = kj ∧ v = vj := by simpa [eq_comm] using hs
      exact ⟨hole, hh, by rw [upd_other _ _ _ _ (Ne.symm hne)]; simp⟩
    · have hxh : x ≠ hole := by intro h; subst h; rw [hsh] at hs; cases hs
      exact ⟨x, hx, by rw [upd_other _ _ _ _ hxj, upd_other _ _ _ _ hxh]; exact hs⟩

omit [DecidableEq K] in
theorem size_move {cap : Nat} {s : Slots K V} {hole j : Nat} {kv : K × V}
    (hh : hole < cap) (hj : j < cap) (hsh : s hole = none) (hsj : s j = some kv) :
    size cap (upd (upd s hole (some kv)) j none) = size cap s := by
  have hne : j ≠ hole := by intro h; rw [h, hsh] at hsj; cases hsj
  have h1 := size_upd_new (s := s) kv hh hsh
  have h2 := size_upd_none (s := upd s hole (some kv)) hj
    (by rw [upd_other _ _ _ _ hne, hsj]; rfl)
  omega

omit [DecidableEq K] in
/-- the backward shift only relocates entries into the (empty) hole: every stored entry is still
    stored afterwards, nothing is added, and the number of occupied slots is unchanged -/
theorem shift_mem {cap : Nat} {home : K → Nat} (hc : 0 < cap) :
    ∀ (fuel : Nat) (s : Slots K V) (hole j : Nat), hole < cap → s hole = none →
      (∀ k v, Mem cap (shift cap home s hole j fuel) k v ↔ Mem cap s k v) ∧
      size cap (shift cap home s hole j fuel) = size cap s := by
  intro fuel
  induction fuel with
  | zero => intro s hole j _ _; simp [shift]
  | succ fuel ih =>
    intro s hole j hh hsh
    have hpl : probe cap j 1 < cap := probe_lt hc
    cases hsj : s (probe cap j 1) with
    | none => simp only [shift, hsj]; simp
    | some kv =>
      obtain ⟨kj, vj⟩ := kv
      simp only [shift, hsj]
      by_cases hyes : dist cap hole (probe cap j 1) ≤ dist cap (home kj) (probe cap j 1)
      · rw [if_pos hyes]
        obtain ⟨h1, h2⟩ := ih (upd (upd s hole (some (kj, vj))) (probe cap j 1) none)
          (probe cap j 1) (probe cap j 1) hpl (by simp)
        refine ⟨fun k v => ?_, ?_⟩
        · rw [h1, Mem_move hh hpl hsh hsj]
        · rw [h2, size_move hh hpl hsh hsj]
      · rw [if_neg hyes]
        exact ih s hole (probe cap j 1) hh hsh

/-! ### `erase` -/

/-- **`erase`** terminates and implements removal of `k` -/
theorem erase_spec {cap : Nat} {home : K → Nat} {s : Slots K V} {f : K → Option V}
    (inv : Inv cap home s) (habs : Abs cap s f) (k : K) :
    ∃ s', erase cap home s k = some (s', (f k).map (fun w => (k, w))) ∧
      Inv cap home s' ∧ Abs cap s' (fupd f k none) ∧
      size cap s' + (if (f k).isSome then 1 else 0) = size cap s := by
  obtain ⟨i, hi, hf, h⟩ := find_spec inv k
  have hslot := (find_slot inv habs hf).2
  rcases h with ⟨w, hs⟩ | ⟨hs, hnone, _⟩
  · have hfk : f k = some w := (habs k w).mpr ⟨i, hi, hs⟩
    refine ⟨shift cap home (upd s i none) i i cap, ?_, remove_inv inv hi hs, ?_, ?_⟩
    · unfold erase; rw [hf]; simp only [hs, hfk, Option.map_some]
    · obtain ⟨hm, _⟩ := shift_mem (home := home) inv.capPos cap (upd s i none) i i hi (by simp)
      intro k' v'
      rw [hm]
      constructor
      · intro h
        by_cases hk : k' = k
        · subst hk; simp at h
        · rw [fupd_other _ _ _ hk] at h
          obtain ⟨j, hj, hsj⟩ := (habs k' v').mp h
          have hji : j ≠ i := by intro e; subst e; rw [hs] at hsj; simp at hsj; exact hk hsj.1.symm
          exact ⟨j, hj, by rw [upd_other _ _ _ _ hji]; exact hsj⟩
      · rintro ⟨j, hj, hsj⟩
        have hji : j ≠ i := by intro e; subst e; simp at hsj
        rw [upd_other _ _ _ _ hji] at hsj
        have hk : k' ≠ k := by
          intro e; subst e; exact hji (inv.distinct j hj i hi _ _ _ hsj hs)
        rw [fupd_other _ _ _ hk]
        exact (habs k' v').mpr ⟨j, hj, hsj⟩
    · obtain ⟨_, hsz⟩ := shift_mem (home := home) inv.capPos cap (upd s i none) i i hi (by simp)
      rw [hsz, hfk]
      simpa using size_upd_none (s := s) hi (by rw [hs]; rfl)
  · have hfk : f k = none := (Abs_none habs).mpr hnone
    refine ⟨s, ?_, inv, ?_, ?_⟩
    · unfold erase; rw [hf]; simp only [hs, hfk, Option.map_none]
    · intro k' v'
      by_cases hk : k' = k
      · subst hk; simp; exact hnone v'
      · rw [fupd_other _ _ _ hk]; exact habs k' v'
    · rw [hfk]; simp

/-! ### `empty`, `rehash`, `compact` -/

omit [DecidableEq K] in
theorem empty_inv {cap : Nat} {home : K → Nat} (hc : 0 < cap) (hh : ∀ k, home k < cap) :
    Inv cap home (empty : Slots K V) where
  capPos := hc
  homeLt := hh
  path := by intro i _ k v hs; simp [empty] at hs
  distinct := by intro i _ j _ k v w hs; simp [empty] at hs
  hasEmpty := ⟨0, hc, rfl⟩

omit [DecidableEq K] in
theorem empty_abs (cap : Nat) : Abs cap (empty : Slots K V) (fun _ => none) := by
  intro k v
  constructor
  · intro h; cases h
  · rintro ⟨i, _, hs⟩; simp [empty] at hs

/-- the re-insertion loop of `rehash` (and of `clone`), from any intermediate table -/
theorem foldl_put_spec {cap : Nat} {home : K → Nat} :
    ∀ (l : List (K × V)) (s0 : Slots K V), Inv cap home s0 →
      (l.map Prod.fst).Nodup → (∀ kv ∈ l, ∀ w, ¬ Mem cap s0 kv.1 w) →
      size cap s0 + l.length < cap →
      ∃ s', l.foldl (fun acc kv => match acc with
                | none => none
                | some s => (put cap home s kv.1 kv.2).map (·.1)) (some s0) = some s' ∧
        Inv cap home s' ∧ (∀ k v, Mem cap s' k v ↔ Mem cap s0 k v ∨ (k, v) ∈ l) ∧
        size cap s' = size cap s0 + l.length := by
  intro l
  induction l with
  | nil => intro s0 inv _ _ _; exact ⟨s0, rfl, inv, by simp, by simp⟩
  | cons kv l ih =>
    intro s0 inv hnd hfresh hsz
    obtain ⟨k, v⟩ := kv
    simp only [List.map_cons, List.nodup_cons] at hnd
    have hk0 : get cap home s0 k = none :=
      (Abs_none (Abs_get inv)).mpr (hfresh (k, v) (by simp))
    obtain ⟨s1, hput, inv1, habs1, hsz1⟩ := put_spec inv (Abs_get inv) k v
      (by intro _; simp only [List.length_cons] at hsz; omega)
    rw [hk0] at hsz1
    simp only [Option.isSome_none, Bool.false_eq_true, if_false] at hsz1
    obtain ⟨s', hfold, inv', hmem', hsz'⟩ := ih s1 inv1 hnd.2
      (by
        intro kv' hkv' w hm
        have := (habs1 kv'.1 w).mpr hm
        by_cases hkk : kv'.1 = k
        · exact hnd.1 (List.mem_map.mpr ⟨kv', hkv', hkk⟩)
        · rw [fupd_other _ _ _ hkk] at this
          exact hfresh kv' (List.mem_cons_of_mem _ hkv') w ((Abs_get inv _ _).mp this))
      (by simp only [List.length_cons] at hsz; omega)
    refine ⟨s', ?_, inv', ?_, ?_⟩
    · simp only [List.foldl_cons, hput, Option.map_some]; exact hfold
    · intro k' v'
      rw [hmem', ← habs1 k' v']
      by_cases hkk : k' = k
      · subst hkk
        simp only [fupd_same, List.mem_cons, Prod.mk.injEq, true_and]
        constructor
        · rintro (h | h)
          · simp at h; subst h; exact Or.inr (Or.inl rfl)
          · exact Or.inr (Or.inr h)
        · rintro (h | h | h)
          · exact absurd h (hfresh (k', v) (by simp) v')
          · subst h; exact Or.inl rfl
          · exact Or.inr h
      · rw [fupd_other _ _ _ hkk, Abs_get inv k' v']
        simp [hkk]
    · rw [hsz', hsz1]; simp only [List.length_cons]; omega

/-- **`rehash`** into a strictly larger-than-content table terminates and preserves the map -/
theorem rehash_spec {oldCap newCap : Nat} {home home' : K → Nat} {old : Slots K V}
    (inv : Inv oldCap home old) (hc : 0 < newCap) (hh : ∀ k, home' k < newCap)
    (hsz : size oldCap old < newCap) :
    ∃ s', rehash oldCap old newCap home' = some s' ∧ Inv newCap home' s' ∧
      (∀ k v, Mem newCap s' k v ↔ Mem oldCap old k v) ∧ size newCap s' = size oldCap old := by
  obtain ⟨s', h1, h2, h3, h4⟩ := foldl_put_spec (cap := newCap) (home := home')
    (toList oldCap old) empty (empty_inv hc hh) (toList_keys_nodup inv.distinct)
    (by rintro kv _ w ⟨i, _, hs⟩; simp [empty] at hs)
    (by simpa [size] using hsz)
  refine ⟨s', h1, h2, ?_, ?_⟩
  · intro k v
    rw [h3, mem_toList]
    constructor
    · rintro (⟨i, _, hs⟩ | h)
      · simp [empty] at hs
      · exact h
    · exact Or.inr
  · rw [h4]; simp [size]

theorem rehash_abs {oldCap newCap : Nat} {home home' : K → Nat} {old : Slots K V}
    {f : K → Option V} (inv : Inv oldCap home old) (habs : Abs oldCap old f)
    (hc : 0 < newCap) (hh : ∀ k, home' k < newCap) (hsz : size oldCap old < newCap) :
    ∃ s', rehash oldCap old newCap home' = some s' ∧ Inv newCap home' s' ∧
      Abs newCap s' f ∧ size newCap s' = size oldCap old := by
  obtain ⟨s', h1, h2, h3, h4⟩ := rehash_spec (home' := home') inv hc hh hsz
  exact ⟨s', h1, h2, fun k v => by rw [h3]; exact habs k v, h4⟩

omit [DecidableEq K] in
theorem compact_eq (cap : Nat) (s : Slots K V) : EqBelow cap (compact cap s) s := by
  intro i hi
  simp [compact, hi]

omit [DecidableEq K] in
theorem Mem_congr {cap : Nat} {s s' : Slots K V} (h : EqBelow cap s s') (k : K) (v : V) :
    Mem cap s k v ↔ Mem cap s' k v := by
  constructor
  · rintro ⟨i, hi, hs⟩; exact ⟨i, hi, by rw [← h i hi]; exact hs⟩
  · rintro ⟨i, hi, hs⟩; exact ⟨i, hi, by rw [h i hi]; exact hs⟩

omit [DecidableEq K] in
theorem Abs_congr {cap : Nat} {s s' : Slots K V} (h : EqBelow cap s s') {f : K → Option V}
    (habs : Abs cap s' f) : Abs cap s f :=
  fun k v => by rw [Mem_congr h]; exact habs k v

omit [DecidableEq K] in
theorem Inv_congr {cap : Nat} {home : K → Nat} {s s' : Slots K V} (h : EqBelow cap s s')
    (inv : Inv cap home s') : Inv cap home s where
  capPos := inv.capPos
  homeLt := inv.homeLt
  path := by
    intro i hi k v hs m hm
    rw [h i hi] at hs
    have := inv.path i hi k v hs m hm
    unfold occ at *
    rw [h _ (probe_lt inv.capPos)]; exact this
  distinct := by
    intro i hi j hj k v w hsi hsj
    rw [h i hi] at hsi; rw [h j hj] at hsj
    exact inv.distinct i hi j hj k v w hsi hsj
  hasEmpty := by
    obtain ⟨e, he, hse⟩ := inv.hasEmpty
    exact ⟨e, he, by rw [h e he]; exact hse⟩

theorem findFrom_congr {cap : Nat} (hc : 0 < cap) {s s' : Slots K V} (h : EqBelow cap s s')
    (hm : Nat) (k : K) : ∀ fuel n, findFrom cap s hm k n fuel = findFrom cap s' hm k n fuel := by
  intro fuel
  induction fuel with
  | zero => intro n; rfl
  | succ fuel ih =>
    intro n
    simp only [findFrom, h _ (probe_lt hc), ih]

theorem findFrom_lt {cap : Nat} (hc : 0 < cap) {s : Slots K V} {hm : Nat} {k : K} {i : Nat} :
    ∀ {fuel n}, findFrom cap s hm k n fuel = some i → i < cap := by
  intro fuel
  induction fuel with
  | zero => intro n h; cases h
  | succ fuel ih =>
    intro n h
    simp only [findFrom] at h
    split at h
    · obtain rfl : probe cap hm n = i := by simpa using h
      exact probe_lt hc
    · split at h
      · obtain rfl : probe cap hm n = i := by simpa using h
        exact probe_lt hc
      · exact ih h

theorem find_congr {cap : Nat} (hc : 0 < cap) {home : K → Nat} {s s' : Slots K V}
    (h : EqBelow cap s s') (k : K) : find cap home s k = find cap home s' k :=
  findFrom_congr hc h _ _ _ _

theorem get_congr {cap : Nat} (hc : 0 < cap) {home : K → Nat} {s s' : Slots K V}
    (h : EqBelow cap s s') (k : K) : get cap home s k = get cap home s' k := by
  unfold get
  rw [find_congr hc h]
  cases hf : find cap home s' k with
  | none => rfl
  | some i =>
    simp only [h i (findFrom_lt hc hf)]

end Cao.OA

/-! ## Association lists: the specification-level finite map -/
namespace Cao.AL

variable {K V : Type} [DecidableEq K]

/-- first value stored under `k` -/
def lookup : List (K × V) → K → Option V
  | [], _ => none
  | (k', v) :: t, k => if k' = k then some v else lookup t k

/-- remove every pair with key `k` -/
def erase (l : List (K × V)) (k : K) : List (K × V) := l.filter (fun kv => kv.1 ≠ k)

/-- `l[k ↦ v]` -/
def insert (l : List (K × V)) (k : K) (v : V) : List (K × V) := (k, v) :: erase l k

def keys (l : List (K × V)) : List K := l.map Prod.fst

/-- well-formed: no key occurs twice -/
def WF (l : List (K × V)) : Prop := (keys l).Nodup

@[simp] theorem lookup_nil (k : K) : lookup ([] : List (K × V)) k = none := rfl

theorem lookup_cons (k' : K) (v : V) (t : List (K × V)) (k : K) :
    lookup ((k', v) :: t) k = if k' = k then some v else lookup t k := rfl

theorem erase_cons (k' : K) (v : V) (t : List (K × V)) (k : K) :
    erase ((k', v) :: t) k = if k' = k then erase t k else (k', v) :: erase t k := by
  by_cases h : k' = k <;> simp [erase, h]

theorem lookup_erase (l : List (K × V)) (k k' : K) :
    lookup (erase l k) k' = if k' = k then none else lookup l k' := by
  induction l with
  | nil => simp [erase]
  | cons kv t ih =>
    obtain ⟨a, v⟩ := kv
    rw [erase_cons]
    by_cases ha : a = k
    · rw [if_pos ha, ih, lookup_cons]
      by_cases hk : k' = k
      · simp [hk]
      · have : a ≠ k' := by intro e; exact hk (by rw [← e, ha])
        simp [hk, this]
    · rw [if_neg ha, lookup_cons, lookup_cons, ih]
      by_cases hk : k' = k
      · simp [hk, ha]
      · simp [hk]

theorem lookup_insert (l : List (K × V)) (k : K) (v : V) (k' : K) :
    lookup (insert l k v) k' = if k' = k then some v else lookup l k' := by
  unfold insert
  rw [lookup_cons, lookup_erase]
  by_cases hk : k' = k
  · simp [hk]
  · have : k ≠ k' := fun e => hk e.symm
    simp [hk, this]

theorem lookup_insert_fupd (l : List (K × V)) (k : K) (v : V) :
    OA.fupd (lookup l) k (some v) = lookup (insert l k v) := by
  funext k'; rw [lookup_insert]; rfl

theorem lookup_erase_fupd (l : List (K × V)) (k : K) :
    OA.fupd (lookup l) k none = lookup (erase l k) := by
  funext k'; rw [lookup_erase]; rfl

theorem mem_of_lookup {l : List (K × V)} {k : K} {v : V} (h : lookup l k = some v) :
    (k, v) ∈ l := by
  induction l with
  | nil => cases h
  | cons kv t ih =>
    obtain ⟨a, w⟩ := kv
    rw [lookup_cons] at h
    by_cases ha : a = k
    · rw [if_pos ha] at h
      obtain rfl : w = v := by simpa using h
      subst ha; simp
    · rw [if_neg ha] at h
      exact List.mem_cons_of_mem _ (ih h)

theorem lookup_eq_none {l : List (K × V)} {k : K} : lookup l k = none ↔ k ∉ keys l := by
  induction l with
  | nil => simp [keys]
  | cons kv t ih =>
    obtain ⟨a, w⟩ := kv
    rw [lookup_cons]
    by_cases ha : a = k
    · simp [ha, keys]
    · have : k ≠ a := fun e => ha e.symm
      simp only [if_neg ha, ih, keys, List.map_cons, List.mem_cons, not_or]
      simp [this]

theorem lookup_of_mem {l : List (K × V)} (wf : WF l) {k : K} {v : V} (h : (k, v) ∈ l) :
    lookup l k = some v := by
  induction l with
  | nil => cases h
  | cons kv t ih =>
    obtain ⟨a, w⟩ := kv
    unfold WF keys at wf
    simp only [List.map_cons, List.nodup_cons] at wf
    rw [lookup_cons]
    rcases List.mem_cons.mp h with e | h'
    · obtain ⟨rfl, rfl⟩ : k = a ∧ v = w := by simpa using e
      simp
    · have : a ≠ k := by
        intro e; subst e
        exact wf.1 (List.mem_map.mpr ⟨(a, v), h', rfl⟩)
      rw [if_neg this]
      exact ih wf.2 h'

theorem lookup_iff_mem {l : List (K × V)} (wf : WF l) (k : K) (v : V) :
    lookup l k = some v ↔ (k, v) ∈ l := ⟨mem_of_lookup, lookup_of_mem wf⟩

theorem keys_erase (l : List (K × V)) (k : K) : keys (erase l k) = (keys l).filter (· ≠ k) := by
  induction l with
  | nil => rfl
  | cons kv t ih =>
    obtain ⟨a, w⟩ := kv
    rw [erase_cons]
    by_cases ha : a = k
    · rw [if_pos ha, ih]; simp [keys, ha]
    · rw [if_neg ha]; simp only [keys] at ih ⊢; simp [ha, ih]

omit [DecidableEq K] in
theorem WF_nil : WF ([] : List (K × V)) := by simp [WF, keys]

theorem WF_erase {l : List (K × V)} (wf : WF l) (k : K) : WF (erase l k) := by
  unfold WF; rw [keys_erase]
  exact List.Nodup.sublist List.filter_sublist wf

theorem not_mem_keys_erase (l : List (K × V)) (k : K) : k ∉ keys (erase l k) := by
  rw [keys_erase]; simp

theorem WF_insert {l : List (K × V)} (wf : WF l) (k : K) (v : V) : WF (insert l k v) := by
  unfold WF insert keys
  simp only [List.map_cons, List.nodup_cons]
  exact ⟨not_mem_keys_erase l k, WF_erase wf k⟩

theorem WF_cons {l : List (K × V)} (wf : WF l) {k : K} (v : V) (h : lookup l k = none) :
    WF ((k, v) :: l) := by
  unfold WF keys
  simp only [List.map_cons, List.nodup_cons]
  exact ⟨lookup_eq_none.mp h, wf⟩

theorem erase_of_not_mem {l : List (K × V)} {k : K} (h : k ∉ keys l) : erase l k = l := by
  unfold erase
  rw [List.filter_eq_self]
  intro kv hkv
  have : kv.1 ≠ k := by
    intro e; exact h (List.mem_map.mpr ⟨kv, hkv, e⟩)
  simp [this]

theorem erase_of_lookup_none {l : List (K × V)} {k : K} (h : lookup l k = none) :
    erase l k = l := erase_of_not_mem (lookup_eq_none.mp h)

/-- removing a key splits a well-formed list into the removed pair and the rest -/
theorem perm_erase {l : List (K × V)} (wf : WF l) (k : K) :
    l.Perm (((lookup l k).map (fun w => (k, w))).toList ++ erase l k) := by
  induction l with
  | nil => simp [erase]
  | cons kv t ih =>
    obtain ⟨a, w⟩ := kv
    have wf' := wf
    unfold WF keys at wf'
    simp only [List.map_cons, List.nodup_cons] at wf'
    rw [lookup_cons, erase_cons]
    by_cases ha : a = k
    · subst ha
      rw [if_pos rfl, if_pos rfl, erase_of_not_mem wf'.1]
      simp
    · rw [if_neg ha, if_neg ha]
      exact (List.Perm.cons _ (ih wf'.2)).trans List.perm_middle.symm

/-- accounting form of `insert`: the new list plus the displaced pair is the old list plus the
    inserted pair -/
theorem perm_insert {l : List (K × V)} (wf : WF l) (k : K) (v : V) :
    (insert l k v ++ ((lookup l k).map (fun w => (k, w))).toList).Perm (l ++ [(k, v)]) := by
  have hp := perm_erase wf k
  unfold insert
  rw [List.cons_append]
  refine (List.Perm.cons _ List.perm_append_comm).trans ?_
  refine (List.perm_append_singleton _ _).symm.trans ?_
  exact List.Perm.append_right _ hp.symm

theorem length_erase {l : List (K × V)} (wf : WF l) (k : K) :
    (erase l k).length + (if (lookup l k).isSome then 1 else 0) = l.length := by
  have := (perm_erase wf k).length_eq
  rw [this]
  cases lookup l k <;> simp <;> omega

theorem length_insert {l : List (K × V)} (wf : WF l) (k : K) (v : V) :
    (insert l k v).length = l.length + (if (lookup l k).isSome then 0 else 1) := by
  have := length_erase wf k
  unfold insert
  simp only [List.length_cons]
  split at this <;> simp_all <;> omega

omit [DecidableEq K] in
theorem nodup_of_WF {l : List (K × V)} (wf : WF l) : l.Nodup := OA.nodup_of_map _ wf

/-- two well-formed lists with the same lookups are permutations of each other -/
theorem perm_of_lookup_eq {l l' : List (K × V)} (wf : WF l) (wf' : WF l')
    (h : ∀ k, lookup l k = lookup l' k) : l.Perm l' := by
  rw [List.perm_ext_iff_of_nodup (nodup_of_WF wf) (nodup_of_WF wf')]
  rintro ⟨k, v⟩
  rw [← lookup_iff_mem wf, ← lookup_iff_mem wf', h]

/-! ### link with the open-addressing core -/

omit [DecidableEq K] in
theorem WF_toList {cap : Nat} {home : K → Nat} {s : OA.Slots K V} (inv : OA.Inv cap home s) :
    WF (OA.toList cap s) := OA.toList_keys_nodup inv.distinct

/-- the iteration list of a table represents the same map as the table -/
theorem abs_toList {cap : Nat} {home : K → Nat} {s : OA.Slots K V} (inv : OA.Inv cap home s) :
    OA.Abs cap s (lookup (OA.toList cap s)) := by
  intro k v
  rw [lookup_iff_mem (WF_toList inv), OA.mem_toList]

/-- a well-formed list representing the table's map is a permutation of its iteration list -/
theorem perm_toList {cap : Nat} {home : K → Nat} {s : OA.Slots K V} (inv : OA.Inv cap home s)
    {l : List (K × V)} (wf : WF l) (habs : OA.Abs cap s (lookup l)) :
    l.Perm (OA.toList cap s) := by
  apply perm_of_lookup_eq wf (WF_toList inv)
  intro k
  rw [OA.Abs_unique habs (abs_toList inv)]

theorem length_eq_size {cap : Nat} {home : K → Nat} {s : OA.Slots K V} (inv : OA.Inv cap home s)
    {l : List (K × V)} (wf : WF l) (habs : OA.Abs cap s (lookup l)) :
    l.length = OA.size cap s := (perm_toList inv wf habs).length_eq

end Cao.AL
