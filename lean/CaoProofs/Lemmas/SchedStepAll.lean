import CaoProofs.Lemmas.SchedOpsD
/-!
# Schedule independence: every instruction

`step_sim`: for every program, instruction address and pair of related machine states, one
instruction gives the same next address / exit flag or the same error in both machines and
leaves them related — provided the host functions do (`NatSimAt`) and the instruction does not
touch a stale stack slot (`StepOk`: only `ClearStack`, `Return`, `CloseUpvalue` and `ReadUpvalue`
have a condition).
-/
namespace Cao.SchedFull
open Cao Cao.Vm Cao.Gc Cao.C02 Cao.C05 Cao.RunInv Cao.Native
set_option linter.unusedVariables false
set_option linter.unusedSectionVars false

/-- the instruction at `src` does not read or expose a stale stack slot in state `s`:
    `ClearStack` / `Return` do not move the stack pointer upwards, `Return` / `CloseUpvalue` do not
    close an upvalue over a slot at or above the stack height, `ReadUpvalue` does not read such a
    slot -/
def StepOk (p : Prog) (src : Nat) (s : VmState) : Prop :=
  ((p.bytecode.getD src 0 = Compiler.op.clearStack ∨ p.bytecode.getD src 0 = Compiler.op.ret) → FrameOk s) ∧
  ((p.bytecode.getD src 0 = Compiler.op.ret ∨ p.bytecode.getD src 0 = Compiler.op.closeUpvalue) → UpvOk s) ∧
  (p.bytecode.getD src 0 = Compiler.op.readUpvalue → ReadUpvOk (rdU32 p.bytecode (src + 1)) s)

/-- the result of the arithmetic / logic / comparison instructions -/
def binF (opc : UInt8) : OVal → OVal → Val := fun oa ob =>
  let o := Compiler.op
  let F := hostF64
  let num (x : OVal) : Val := match x with
    | .int i => .int i | .real r => .real r | _ => .nil
  if opc == o.and then boolVal (OVal.asBool F oa && OVal.asBool F ob)
  else if opc == o.or then boolVal (OVal.asBool F oa || OVal.asBool F ob)
  else if opc == o.xor then boolVal (OVal.asBool F oa != OVal.asBool F ob)
  else if opc == o.add then num (OVal.arith F .add oa ob)
  else if opc == o.sub then num (OVal.arith F .sub oa ob)
  else if opc == o.mul then num (OVal.arith F .mul oa ob)
  else if opc == o.div then num (OVal.arith F .div oa ob)
  else if opc == o.equals then boolVal (OVal.veq F oa ob)
  else if opc == o.notEquals then boolVal (!(OVal.veq F oa ob))
  else if opc == o.less then boolVal (OVal.vlt F oa ob)
  else boolVal (OVal.vle F oa ob)

theorem binF_vk (opc : UInt8) (x y : OVal) (K : Nat → Prop) : VK K (binF opc x y) := by
  have hnum : ∀ z : OVal, VK K (match z with | .int i => Val.int i | .real r => .real r | _ => .nil) := by
    intro z; cases z <;> first | exact VK.int | exact VK.real | exact VK.nil
  unfold binF
  dsimp only
  repeat' split
  all_goals first | exact VK.boolVal | exact VK.int | exact VK.real | exact VK.nil | exact hnum _

/-- the instruction at `src`, started in `s`, calls the host function with handle `hd` -/
def CalledAt (p : Prog) (src : Nat) (s : VmState) (hd : UInt32) : Prop :=
  (p.bytecode.getD src 0 = Compiler.op.callNative ∧ hd = UInt32.ofNat (rdU32 p.bytecode (src + 1))) ∨
  (p.bytecode.getD src 0 = Compiler.op.callFunction ∧
    ∃ a, s.stack.pop.2 = .obj a ∧ s.heap.get a = some (.native hd))

theorem step_sim {c : Cfg} (p : Prog) (re₁ re₂ : Reenter) (src : Nat) {K : Nat → Prop} {s t : VmState}
    (hn : ∀ hd, CalledAt p src s hd → NatSimAt c re₁ re₂ hd)
    (h : Agree c K s t) (hok : StepOk p src s) :
    W2 c (step p re₁ src) (step p re₂ src) (QStep c) s t := by
  obtain ⟨hokF, hokU, hokR⟩ := hok
  unfold step
  w2h
  repeat' (refine w2_ite (fun _ => ?_) (fun _ => ?_))
  -- initTable
  · exact sim_alloc _ allocSim_initTable _ h
  -- getProperty
  · exact sim_getProperty _ h
  -- setProperty
  · exact sim_setProperty _ h
  -- beginForEach
  · exact sim_beginForEach _ _ _ _ _ _ h
  -- forEach
  · exact sim_forEach _ _ _ _ _ _ h
  -- gotoIfTrue
  · exact sim_gotoIf _ _ h
  -- gotoIfFalse
  · exact sim_gotoIf _ _ h
  -- goto
  · exact sim_goto _ h
  -- swapLast
  · exact sim_swapLast _ h
  -- scalarNil
  · exact sim_pushV _ (fun _ => VK.nil) _ h
  -- clearStack
  · exact sim_clearStack _ h (hokF (Or.inl (eq_of_beq ‹_›)))
  -- setLocalVar
  · exact sim_setLocalVar _ _ h
  -- readLocalVar
  · exact sim_readLocalVar _ _ h
  -- setGlobalVar
  · exact sim_setGlobalVar _ _ h
  -- readGlobalVar
  · exact sim_readGlobalVar _ _ h
  -- pop
  · exact sim_pop _ h
  -- callFunction
  · exact sim_callFunction p re₁ re₂
      (fun a hd h1 h2 => hn hd (Or.inr ⟨eq_of_beq ‹_›, a, h1, h2⟩)) _ _ h
  -- ret
  · exact sim_ret h (hokF (Or.inr (eq_of_beq ‹_›))) (hokU (Or.inl (eq_of_beq ‹_›)))
  -- exit
  · exact sim_exit _ h
  -- copyLast
  · exact sim_copyLast _ h
  -- nativeFunctionPointer
  · cases readStr p.data (rdU32 p.bytecode (src + 1)) with
    | none => exact w2_throwE h.rel
    | some name => exact sim_alloc _ (allocSim_initSimple _ rfl rfl) _ h
  -- functionPointer
  · exact sim_alloc _ (allocSim_initSimple _ rfl rfl) _ h
  -- closure
  · exact sim_alloc _ (allocSim_initSimple _ rfl rfl) _ h
  -- scalarInt
  · exact sim_pushV _ (fun _ => VK.int) _ h
  -- scalarFloat
  · exact sim_pushV _ (fun _ => VK.real) _ h
  -- not
  · exact sim_not _ h
  -- and … lessOrEq
  · exact sim_bin (binF (p.bytecode.getD src 0)) (binF_vk _) _ h
  -- stringLiteral
  · cases readStr p.data (rdU32 p.bytecode (src + 1)) with
    | none => exact w2_throwE h.rel
    | some bytes => exact sim_alloc _ (allocSim_initString _) _ h
  -- callNative
  · exact sim_callNative re₁ re₂ _ (hn _ (Or.inl ⟨eq_of_beq ‹_›, rfl⟩)) _ h
  -- len
  · exact sim_len _ h
  -- nthRow
  · exact sim_nthRow _ h
  -- appendTable
  · exact sim_appendTable _ h
  -- popTable
  · exact sim_popTable _ h
  -- setUpvalue
  · exact sim_setUpvalue _ _ h
  -- readUpvalue
  · exact sim_readUpvalue _ _ h (hokR (eq_of_beq ‹_›))
  -- registerUpvalue
  · exact sim_registerUpvalue _ _ _ h
  -- closeUpvalue
  · exact sim_closeUpvalue _ h (hokU (Or.inr (eq_of_beq ‹_›)))
  -- invalid opcode
  · exact w2_throwE h.rel

end Cao.SchedFull
