import CaoProofs.Lemmas.NativeLemmas
import CaoProofs.Lemmas.UpvalueLemmas
/-!
# `row_to_value` through the real dispatch loop

The key function the standard library passes to `__min` / `__max` / `__sort` is
`row_to_value(_key, val) = val`. Its compiled code is

    ReadLocalVar 0 ; Return ; Pop ; Pop ; ScalarNil ; Return

(parameters are bound in reverse declaration order: `val` is local 0, `_key` local 1; the two
`Pop`s and `ScalarNil; Return` are the unreachable epilogue of `compileFunction`).

This file evaluates `exec p gas (.call f)` — the model of `Vm::run_function` — on that code:

* `RowToValueAt p pos` — the bytes at `pos` are that code, and the last byte of the program is the
  `Exit` the trap frames of `run_function` return to;
* `rtvFinal s` — the state the call ends in;
* `rowToValue_run` (total: under the exact side conditions the call returns the value),
  `rowToValue_inv` (inversion: a successful call satisfied the side conditions and ended in
  `rtvFinal s` with the value), `rowToValue_ok_iff` (success ⇔ side conditions);
* `UpvaluesBelow s top` — `closeUpvalues top` has nothing to do (implied by the invariant `UpInv`
  of `Lemmas/UpvalueLemmas.lean`: `UpvaluesBelow.of_inv`);
* `PureCallbackAt s₀ re f φ` — `PureCallback` relative to the state `s₀` in which the native was
  entered, `callKV_okAt`, and the instance `rowToValue_pure`.
-/
namespace Cao.RowValue
open Cao Cao.Vm Cao.Native
set_option linter.unusedVariables false
set_option linter.unusedSectionVars false

/-! ## the code -/

/-- the bytes `compileFunction` emits for `row_to_value(_key, val) { return val }` -/
def rowToValueCode : List UInt8 :=
  [Compiler.op.readLocalVar] ++ Compiler.le32 0 ++
    [Compiler.op.ret, Compiler.op.pop, Compiler.op.pop, Compiler.op.scalarNil, Compiler.op.ret]

theorem rowToValueCode_eq : rowToValueCode = [20, 0, 0, 0, 0, 22, 16, 16, 7, 22] := by decide

/-- the code of `row_to_value` is at `pos`, and the program ends with the `Exit` instruction that
    `run_function` uses as the return address of its trap frames (`dst = bytecode.size - 1`) -/
structure RowToValueAt (p : Prog) (pos : Nat) : Prop where
  code : ∀ i, i < rowToValueCode.length → p.bytecode[pos + i]? = rowToValueCode[i]?
  last : p.bytecode.back? = some Compiler.op.exit

/-- an executable version for concrete programs -/
def rowToValueAtB (p : Prog) (pos : Nat) : Bool :=
  (p.bytecode.toList.drop pos).take rowToValueCode.length == rowToValueCode &&
    p.bytecode.back? == some Compiler.op.exit

theorem rowToValueAt_of_B {p : Prog} {pos : Nat} (h : rowToValueAtB p pos = true) :
    RowToValueAt p pos := by
  unfold rowToValueAtB at h
  rw [Bool.and_eq_true] at h
  obtain ⟨h1, h2⟩ := h
  have h1 : (p.bytecode.toList.drop pos).take rowToValueCode.length = rowToValueCode := by
    simpa using h1
  refine ⟨fun i hi => ?_, by simpa using h2⟩
  have : ((p.bytecode.toList.drop pos).take rowToValueCode.length)[i]? = rowToValueCode[i]? := by
    rw [h1]
  rw [List.getElem?_take, if_pos hi, List.getElem?_drop] at this
  rw [← this, Array.getElem?_toList]

theorem rdU32_zero (b : Array UInt8) (q : Nat) (h0 : b.getD q 0 = 0) (h1 : b.getD (q + 1) 0 = 0)
    (h2 : b.getD (q + 2) 0 = 0) (h3 : b.getD (q + 3) 0 = 0) : rdU32 b q = 0 := by
  unfold rdU32
  have r4 : List.range 4 = [0, 1, 2, 3] := by decide
  rw [r4]
  simp only [List.foldl_cons, List.foldl_nil, Nat.add_zero, h0, h1, h2, h3]
  have : (0 : UInt8).toNat = 0 := rfl
  rw [this]

section facts
variable {p : Prog} {pos : Nat} (hc : RowToValueAt p pos)
include hc

theorem RowToValueAt.byte (i : Nat) (b : UInt8) (h : rowToValueCode[i]? = some b) :
    p.bytecode.getD (pos + i) 0 = b := by
  have hi : i < rowToValueCode.length := by
    rcases Nat.lt_or_ge i rowToValueCode.length with h' | h'
    · exact h'
    · rw [List.getElem?_eq_none h'] at h; cases h
  rw [Array.getD_eq_getD_getElem?, hc.code i hi, h]; rfl

theorem RowToValueAt.in_bounds (i : Nat) (hi : i < 10) : pos + i < p.bytecode.size := by
  have h := hc.code i (by rw [rowToValueCode_eq]; exact hi)
  rcases Nat.lt_or_ge (pos + i) p.bytecode.size with h' | h'
  · exact h'
  · rw [Array.getElem?_eq_none h', rowToValueCode_eq] at h
    have : ([20, 0, 0, 0, 0, 22, 16, 16, 7, 22] : List UInt8)[i]? ≠ none := by
      rw [Ne, List.getElem?_eq_none_iff]; simp; omega
    exact absurd h.symm this

theorem RowToValueAt.op0 : p.bytecode.getD pos 0 = Compiler.op.readLocalVar := by
  have := hc.byte 0 20 (by rw [rowToValueCode_eq]; rfl)
  rw [Nat.add_zero] at this; rw [this]; rfl

theorem RowToValueAt.arg0 : rdU32 p.bytecode (pos + 1) = 0 := by
  have h1 := hc.byte 1 0 (by rw [rowToValueCode_eq]; rfl)
  have h2 := hc.byte 2 0 (by rw [rowToValueCode_eq]; rfl)
  have h3 := hc.byte 3 0 (by rw [rowToValueCode_eq]; rfl)
  have h4 := hc.byte 4 0 (by rw [rowToValueCode_eq]; rfl)
  exact rdU32_zero _ _ h1 h2 h3 h4

theorem RowToValueAt.op5 : p.bytecode.getD (pos + 5) 0 = Compiler.op.ret := by
  rw [hc.byte 5 22 (by rw [rowToValueCode_eq]; rfl)]; rfl

theorem RowToValueAt.size_pos : 0 < p.bytecode.size := by
  have := hc.in_bounds 0 (by omega); omega

theorem RowToValueAt.opLast : p.bytecode.getD (p.bytecode.size - 1) 0 = Compiler.op.exit := by
  have h := hc.last
  rw [Array.back?_eq_getElem?] at h
  rw [Array.getD_eq_getD_getElem?, h]; rfl

end facts

/-! ## single instructions as state functions -/

theorem step_exit (p : Prog) (re : Reenter) (src : Nat) (h : p.bytecode.getD src 0 = Compiler.op.exit) :
    step p re src = pure { ip := src + 1, exit := true } := by
  unfold step
  simp only [h]
  rfl

@[simp] theorem go_readLocal (off hd : Nat) (s : VmState) :
    (readLocal off hd).go s = (.ok (s.stack.get (off + hd)), s) := rfl

theorem go_readLocalVar (hd ip : Nat) (s : VmState) (fr : Frame) (hfr : s.frames.getLast? = some fr) :
    (Upv.Instr.readLocalVar hd ip).go s =
      if s.stack.count + 1 < s.stack.data.length then
        (.ok { ip := ip + 4 }, { s with stack := ⟨s.stack.count + 1,
          s.stack.data.set s.stack.count (s.stack.get (fr.stackOffset + hd))⟩ })
      else (.error .stackoverflow, s) := by
  unfold Upv.Instr.readLocalVar
  rw [go_bind, Upv.go_curFrame, hfr]
  simp only []
  rw [go_bind, go_readLocal]
  simp only []
  rw [go_bind, go_push]
  by_cases h : s.stack.count + 1 < s.stack.data.length
  · rw [if_pos h, if_pos h]; rfl
  · rw [if_neg h, if_neg h]

/-- `closeUpvalues top` has nothing to do: the list of open upvalues is empty, or its head (the
    open upvalue with the highest slot) points below `top` -/
def UpvaluesBelow (s : VmState) (top : Nat) : Prop :=
  ∀ a, s.openUpvalues.head? = some a → ∃ i, upvalueSlot s.heap a = some i ∧ i < top

theorem UpvaluesBelow.congr {s s' : VmState} {top : Nat} (h : UpvaluesBelow s top)
    (hh : s'.heap = s.heap) (ho : s'.openUpvalues = s.openUpvalues) : UpvaluesBelow s' top := by
  unfold UpvaluesBelow; rw [hh, ho]; exact h

/-- the invariant of the capture mechanism gives it for `top = stack.count` -/
theorem UpvaluesBelow.of_inv {s : VmState} (h : Upv.UpInv s) : UpvaluesBelow s s.stack.count := by
  intro a ha
  have hm : a ∈ s.openUpvalues := List.mem_of_mem_head? ha
  obtain ⟨i, hi⟩ := h.core.open_ a hm
  exact ⟨i, hi, h.bound a hm i hi⟩

theorem go_closeUpvalues_noop {s : VmState} {top : Nat} (h : UpvaluesBelow s top) :
    (closeUpvalues top).go s = (.ok ⟨⟩, s) := by
  rw [Upv.go_closeUpvalues]
  unfold Upv.closeState
  cases ho : s.openUpvalues with
  | nil => rw [Upv.closeGo_nil]; cases s; simp_all
  | cons a rest =>
    obtain ⟨i, hi, hlt⟩ := h a (by rw [ho]; rfl)
    rw [Upv.closeGo_cons top s a rest s.heap i hi, if_pos hlt]
    cases s; simp_all

theorem go_ret (s : VmState) (fr caller : Frame) (fs : List Frame)
    (hfs : s.frames = fs ++ [caller, fr]) (hup : UpvaluesBelow s fr.stackOffset)
    (hle : fr.stackOffset ≤ s.stack.count) :
    Upv.Instr.ret.go s =
      if fr.stackOffset + 1 < s.stack.data.length then
        (.ok { ip := caller.dst },
          { s with frames := fs ++ [caller],
                   stack := ⟨fr.stackOffset + 1, s.stack.data.set fr.stackOffset s.stack.last⟩ })
      else (.error .stackoverflow,
          { s with frames := fs ++ [caller], stack := ⟨fr.stackOffset, s.stack.data⟩ }) := by
  have hlast : s.frames.getLast? = some fr := by rw [hfs]; simp
  have hdrop : s.frames.dropLast = fs ++ [caller] := by
    rw [hfs, show fs ++ [caller, fr] = (fs ++ [caller]) ++ [fr] by simp, List.dropLast_concat]
  unfold Upv.Instr.ret
  rw [go_bind, go_get]
  simp only [hlast]
  rw [go_bind, go_set]
  simp only []
  have hcl := go_closeUpvalues_noop (s := { s with frames := s.frames.dropLast })
    (top := fr.stackOffset) (hup.congr rfl rfl)
  rw [go_bind, hcl]
  simp only []
  rw [go_bind, go_get]
  simp only [VStack.clearUntil]
  rw [show (if fr.stackOffset < s.stack.count then fr.stackOffset else s.stack.count)
      = fr.stackOffset by split <;> omega]
  rw [go_bind, go_set]
  simp only []
  rw [go_bind, go_get]
  simp only [hdrop, List.getLast?_concat]
  rw [go_bind, go_push]
  by_cases h : fr.stackOffset + 1 < s.stack.data.length
  · simp only [h, if_true]; rfl
  · simp only [h, if_false]

theorem get_eq_peekLast1 (st : VStack Val) (h : 2 ≤ st.count) :
    st.get (st.count - 2 + 0) = st.peekLast 1 := by
  unfold VStack.get VStack.peekLast
  rw [if_neg (by omega), if_pos (by omega)]
  rw [show st.count - 2 + 0 = st.count - 1 - 1 by omega]

/-! ## the three dispatches -/

/-- the state after `ReadLocalVar 0`: one dispatch charged, a copy of the value pushed -/
def afterRead (s : VmState) : VmState :=
  { s.tick with stack := ⟨s.stack.count + 1, s.stack.data.set s.stack.count (s.stack.peekLast 1)⟩ }

section stages
variable {p : Prog} {pos : Nat} (hc : RowToValueAt p pos)
include hc

/-- `ReadLocalVar 0` in a frame whose locals start two slots below the top -/
theorem stage_read (g : Nat) (s : VmState) (fr : Frame) (hfr : s.frames.getLast? = some fr)
    (hoff : fr.stackOffset = s.stack.count - 2) (h2 : 2 ≤ s.stack.count) :
    exec p (g + 1) (.loop pos) s =
      if s.remaining - 1 = 0 then
        ({ s with remaining := s.remaining - 1 }, .error ⟨.timeout, pos, s.frames⟩)
      else if s.stack.count + 1 < s.stack.data.length then
        exec p g (.loop (pos + 5)) (afterRead s)
      else (s.tick, .error ⟨.stackoverflow, pos, s.frames⟩) := by
  rw [exec_loop, if_neg (by have := hc.in_bounds 0 (by omega); omega)]
  by_cases hrem : s.remaining - 1 = 0
  · rw [if_pos hrem, if_pos hrem]
  · rw [if_neg hrem, if_neg hrem, Upv.step_readLocalVar _ _ _ hc.op0, hc.arg0,
      go_readLocalVar 0 (pos + 1) s.tick fr hfr]
    have htick : s.tick.stack = s.stack := rfl
    rw [htick]
    by_cases hroom : s.stack.count + 1 < s.stack.data.length
    · rw [if_pos hroom, if_pos hroom]
      show exec p g (.loop (pos + 1 + 4)) _ = _
      rw [hoff, get_eq_peekLast1 _ h2]
      rfl
    · rw [if_neg hroom, if_neg hroom]
      rfl

/-- `Return` from the callee frame into the trap frame below it -/
theorem stage_ret (g : Nat) (s : VmState) (fr caller : Frame) (fs : List Frame)
    (hfs : s.frames = fs ++ [caller, fr]) (hup : UpvaluesBelow s fr.stackOffset)
    (hle : fr.stackOffset ≤ s.stack.count) :
    exec p (g + 1) (.loop (pos + 5)) s =
      if s.remaining - 1 = 0 then
        ({ s with remaining := s.remaining - 1 }, .error ⟨.timeout, pos + 5, s.frames⟩)
      else if fr.stackOffset + 1 < s.stack.data.length then
        exec p g (.loop caller.dst)
          { s.tick with frames := fs ++ [caller],
                        stack := ⟨fr.stackOffset + 1, s.stack.data.set fr.stackOffset s.stack.last⟩ }
      else ({ s.tick with frames := (fs ++ [caller]), stack := ⟨fr.stackOffset, s.stack.data⟩ },
            .error ⟨.stackoverflow, pos + 5, fs ++ [caller]⟩) := by
  rw [exec_loop, if_neg (by have := hc.in_bounds 5 (by omega); omega)]
  by_cases hrem : s.remaining - 1 = 0
  · rw [if_pos hrem, if_pos hrem]
  · rw [if_neg hrem, if_neg hrem, Upv.step_ret _ _ _ hc.op5,
      go_ret s.tick fr caller fs hfs (hup.congr rfl rfl) hle]
    have htick : s.tick.stack = s.stack := rfl
    rw [htick]
    by_cases hroom : fr.stackOffset + 1 < s.stack.data.length
    · rw [if_pos hroom, if_pos hroom]
      rfl
    · rw [if_neg hroom, if_neg hroom]

/-- the `Exit` at the end of the program, where the trap frames return to -/
theorem stage_exit (g : Nat) (s : VmState) :
    exec p (g + 1) (.loop (p.bytecode.size - 1)) s =
      if s.remaining - 1 = 0 then
        ({ s with remaining := s.remaining - 1 }, .error ⟨.timeout, p.bytecode.size - 1, s.frames⟩)
      else (s.tick, .ok none) := by
  rw [exec_loop, if_neg (by have := hc.size_pos; omega)]
  by_cases hrem : s.remaining - 1 = 0
  · rw [if_pos hrem, if_pos hrem]
  · rw [if_neg hrem, if_neg hrem, step_exit _ _ _ hc.opLast]
    rfl

end stages

/-! ## the whole call -/

theorem last_after_read (c : Nat) (d : List Val) (v : Val) (h : c < d.length) :
    (⟨c + 1, d.set c v⟩ : VStack Val).last = v := by
  unfold VStack.last
  rw [if_pos (by show c + 1 > 0; omega)]
  show (d.set c v).getD (c + 1 - 1) default = v
  rw [Nat.add_sub_cancel, List.getD_eq_getElem?_getD, List.getElem?_set_self h]; rfl

theorem pop_after_ret (c : Nat) (D : List Val) :
    (⟨c + 1, D⟩ : VStack Val).pop = (⟨c, D.set c default⟩, D.getD c default) := by
  unfold VStack.pop
  rw [if_neg (by show c + 1 ≠ 0; omega)]
  rfl

/-- the state in which the dispatch loop stops at the final `Exit` -/
def loopEnd (s : VmState) (fs : List Frame) (fr : Frame) : VmState :=
  { s with remaining := s.remaining - 1 - 1 - 1, dispatches := s.dispatches + 1 + 1 + 1,
           frames := fs ++ [fr],
           stack := ⟨s.stack.count - 2 + 1,
             (s.stack.data.set s.stack.count (s.stack.peekLast 1)).set (s.stack.count - 2)
               (s.stack.peekLast 1)⟩ }

/-- the state `run_function(row_to_value)` ends in: three dispatches were charged, the two argument
    slots are gone (the slot of the value is nil-ed by the final `pop`, the stale slot above the
    old top holds a copy of the value), nothing else changed -/
def rtvFinal (s : VmState) : VmState :=
  { s with remaining := s.remaining - 1 - 1 - 1, dispatches := s.dispatches + 1 + 1 + 1,
           stack := ⟨s.stack.count - 2,
             ((s.stack.data.set s.stack.count (s.stack.peekLast 1)).set (s.stack.count - 2)
               (s.stack.peekLast 1)).set (s.stack.count - 2) default⟩ }

/-- the two trap frames `run_function` pushes -/
def trapFrame (p : Prog) (pos : Nat) (s : VmState) : Frame :=
  { src := pos, dst := p.bytecode.size - 1, stackOffset := s.stack.count - 2, closure := none }

/-- the state in which the dispatch loop is entered -/
def entered (p : Prog) (pos : Nat) (s : VmState) : VmState :=
  { s with frames := s.frames ++ [trapFrame p pos s, trapFrame p pos s] }

section call
variable {p : Prog} {pos : Nat} (hc : RowToValueAt p pos)
include hc

/-- the three dispatches, from a state whose two top frames are the trap frames -/
theorem loop_run (g : Nat) (s : VmState) (fs : List Frame) (fr : Frame)
    (hfs : s.frames = fs ++ [fr, fr]) (hoff : fr.stackOffset = s.stack.count - 2)
    (hdst : fr.dst = p.bytecode.size - 1) (h2 : 2 ≤ s.stack.count)
    (hroom : s.stack.count + 1 < s.stack.data.length) (hrem : 4 ≤ s.remaining)
    (hup : UpvaluesBelow s (s.stack.count - 2)) :
    exec p (g + 1 + 1 + 1) (.loop pos) s = (loopEnd s fs fr, .ok none) := by
  rw [stage_read hc (g + 1 + 1) s fr (by rw [hfs]; simp) hoff h2,
    if_neg (by omega), if_pos hroom]
  rw [stage_ret hc (g + 1) (afterRead s) fr fr fs hfs (by rw [hoff]; exact hup.congr rfl rfl)
    (by rw [hoff]; show s.stack.count - 2 ≤ s.stack.count + 1; omega)]
  rw [if_neg (by show s.remaining - 1 - 1 ≠ 0; omega),
    if_pos (by show fr.stackOffset + 1 < (s.stack.data.set _ _).length; rw [List.length_set]; omega)]
  rw [hdst, stage_exit hc g, if_neg (by show s.remaining - 1 - 1 - 1 ≠ 0; omega)]
  have hl := last_after_read s.stack.count s.stack.data (s.stack.peekLast 1) (by omega)
  show (_, _) = (_, _)
  congr 1
  unfold loopEnd afterRead VmState.tick
  simp only [hl, hoff]

/-- a run of the three dispatches that returns had the budget, the fuel and the stack room -/
theorem loop_inv (g : Nat) (s : VmState) (fs : List Frame) (fr : Frame)
    (hfs : s.frames = fs ++ [fr, fr]) (hoff : fr.stackOffset = s.stack.count - 2)
    (hdst : fr.dst = p.bytecode.size - 1) (h2 : 2 ≤ s.stack.count)
    (hup : UpvaluesBelow s (s.stack.count - 2)) {s' : VmState} {ov : Option Val}
    (h : exec p g (.loop pos) s = (s', .ok ov)) :
    3 ≤ g ∧ 4 ≤ s.remaining ∧ s.stack.count + 1 < s.stack.data.length := by
  cases g with
  | zero => rw [exec_zero] at h; cases h
  | succ g =>
    rw [stage_read hc g s fr (by rw [hfs]; simp) hoff h2] at h
    by_cases hr1 : s.remaining - 1 = 0
    · rw [if_pos hr1] at h; cases h
    rw [if_neg hr1] at h
    have hroom : s.stack.count + 1 < s.stack.data.length := by
      rcases Nat.lt_or_ge (s.stack.count + 1) s.stack.data.length with hroom | hroom
      · exact hroom
      · rw [if_neg (by omega)] at h; cases h
    rw [if_pos hroom] at h
    cases g with
    | zero => rw [exec_zero] at h; cases h
    | succ g =>
      rw [stage_ret hc g (afterRead s) fr fr fs hfs (by rw [hoff]; exact hup.congr rfl rfl)
    (by rw [hoff]; show s.stack.count - 2 ≤ s.stack.count + 1; omega)] at h
      by_cases hr2 : (afterRead s).remaining - 1 = 0
      · rw [if_pos hr2] at h; cases h
      rw [if_neg hr2, if_pos (by show fr.stackOffset + 1 < (s.stack.data.set _ _).length
                                 rw [List.length_set]; omega)] at h
      cases g with
      | zero => rw [exec_zero] at h; cases h
      | succ g =>
        rw [hdst, stage_exit hc g] at h
        split at h
        · cases h
        · rename_i hr3
          have e2 : (afterRead s).remaining = s.remaining - 1 := rfl
          rw [e2] at hr2
          change ¬ (s.remaining - 1 - 1 - 1 = 0) at hr3
          exact ⟨by omega, by omega, hroom⟩

/-- **`run_function(row_to_value)`, total form.** With `f` a function object for the label of
    `row_to_value` (arity 2), at least 4 units of fuel, an instruction budget `remaining ≥ 4`
    (three dispatches, and the budget must not reach 0), room for the two trap frames, room for
    one push, two arguments on the stack and no open upvalue at or above them: the call returns
    the value (the second slot from the top) and ends in `rtvFinal s`. -/
theorem rowToValue_run {a : Nat} {h h' ar : UInt32} (s : VmState) (g : Nat)
    (hget : s.heap.get a = some (.fn h ar)) (har : ar.toNat = 2)
    (hlab : p.labels.find? (fun l => l.1 == h) = some (h', pos))
    (h2 : 2 ≤ s.stack.count) (hroom : s.stack.count + 1 < s.stack.data.length)
    (hfr : s.frames.length + 2 ≤ s.frameCap) (hrem : 4 ≤ s.remaining)
    (hup : UpvaluesBelow s (s.stack.count - 2)) :
    exec p (g + 4) (.call (.obj a)) s = (rtvFinal s, .ok (some (s.stack.peekLast 1))) := by
  rw [show g + 4 = g + 1 + 1 + 1 + 1 from rfl, exec_call]
  simp only [hget]
  unfold enterScript
  simp only [hlab, har]
  rw [if_neg (by omega), if_neg (by omega), if_neg (by omega)]
  have hl := loop_run hc g (entered p pos s) s.frames (trapFrame p pos s) rfl rfl rfl h2 hroom hrem
    (hup.congr rfl rfl)
  simp only [entered, trapFrame] at hl
  rw [hl]
  have hv : ((s.stack.data.set s.stack.count (s.stack.peekLast 1)).set (s.stack.count - 2)
      (s.stack.peekLast 1)).getD (s.stack.count - 2) default = s.stack.peekLast 1 := by
    rw [List.getD_eq_getElem?_getD, List.getElem?_set_self (by rw [List.length_set]; omega)]; rfl
  simp only [loopEnd, rtvFinal, pop_after_ret, List.take_left' rfl, hv]

/-- **`run_function(row_to_value)`, inversion.** A call that returns satisfied the side conditions
    of `rowToValue_run` — so it returned the value and ended in `rtvFinal s`. -/
theorem rowToValue_inv {a : Nat} {h h' ar : UInt32} (s : VmState) (gas : Nat)
    (hget : s.heap.get a = some (.fn h ar)) (har : ar.toNat = 2)
    (hlab : p.labels.find? (fun l => l.1 == h) = some (h', pos))
    (h2 : 2 ≤ s.stack.count) (hup : UpvaluesBelow s (s.stack.count - 2))
    {s' : VmState} {ov : Option Val} (hok : exec p gas (.call (.obj a)) s = (s', .ok ov)) :
    4 ≤ gas ∧ 4 ≤ s.remaining ∧ s.frames.length + 2 ≤ s.frameCap ∧
    s.stack.count + 1 < s.stack.data.length ∧ s' = rtvFinal s ∧ ov = some (s.stack.peekLast 1) := by
  have hcond : 4 ≤ gas ∧ 4 ≤ s.remaining ∧ s.frames.length + 2 ≤ s.frameCap ∧
      s.stack.count + 1 < s.stack.data.length := by
    cases gas with
    | zero => rw [exec_zero] at hok; cases hok
    | succ g =>
      rw [exec_call] at hok
      simp only [hget] at hok
      unfold enterScript failAt at hok
      simp only [hlab, har] at hok
      rw [if_neg (by omega)] at hok
      split at hok
      · cases hok
      split at hok
      · cases hok
      have hl : ∀ s1 ov1, exec p g (.loop pos) (entered p pos s) = (s1, .ok ov1) → _ :=
        fun s1 ov1 => loop_inv hc g (entered p pos s) s.frames (trapFrame p pos s) rfl rfl rfl h2
          (hup.congr rfl rfl) (s' := s1) (ov := ov1)
      simp only [entered, trapFrame] at hl
      split at hok
      · rename_i s1 r hx
        obtain ⟨h3, h4, h5⟩ := hl _ _ hx
        exact ⟨by omega, h4, by omega, h5⟩
      · cases hok
  obtain ⟨hg, hrem, hfr, hroom⟩ := hcond
  have hrun := rowToValue_run hc s (gas - 4) hget har hlab h2 hroom hfr hrem hup
  rw [show gas - 4 + 4 = gas by omega, hok] at hrun
  simp only [Prod.mk.injEq, Except.ok.injEq] at hrun
  exact ⟨hg, hrem, hfr, hroom, hrun.1, hrun.2⟩

/-- **success ⇔ the side conditions**: with the static hypotheses (function object, label, code,
    two arguments, no open upvalue in the argument slots), `run_function(row_to_value)` returns iff
    there are 4 units of fuel, the budget is at least 4, two frames fit on the call stack and one
    value fits on the value stack -/
theorem rowToValue_ok_iff {a : Nat} {h h' ar : UInt32} (s : VmState) (gas : Nat)
    (hget : s.heap.get a = some (.fn h ar)) (har : ar.toNat = 2)
    (hlab : p.labels.find? (fun l => l.1 == h) = some (h', pos))
    (h2 : 2 ≤ s.stack.count) (hup : UpvaluesBelow s (s.stack.count - 2)) :
    (∃ s' ov, exec p gas (.call (.obj a)) s = (s', .ok ov)) ↔
      4 ≤ gas ∧ 4 ≤ s.remaining ∧ s.frames.length + 2 ≤ s.frameCap ∧
      s.stack.count + 1 < s.stack.data.length := by
  constructor
  · rintro ⟨s', ov, hok⟩
    obtain ⟨h1, h3, h4, h5, -, -⟩ := rowToValue_inv hc s gas hget har hlab h2 hup hok
    exact ⟨h1, h3, h4, h5⟩
  · rintro ⟨h1, h3, h4, h5⟩
    have := rowToValue_run hc s (gas - 4) hget har hlab h2 h5 h4 h3 hup
    rw [show gas - 4 + 4 = gas by omega] at this
    exact ⟨_, _, this⟩

end call

/-! ## callbacks relative to the state in which the native was entered -/

/-- `PureCallback` (`Lemmas/NativeLemmas.lean`) relative to the state `s₀` in which the native
    function was entered: the contract is only required of entry states that are `s₀` plus the two
    pushed arguments — same heap, open upvalues, frames and globals, height `s₀.stack.count + 2`.
    (The natives `__min`, `__max`, `__sort` only ever call back from such states: they allocate
    after the last callback.) Budget counters, host log, allocator counters and the guards of the
    entry state are unconstrained, and so is failure. -/
structure PureCallbackAt (s₀ : VmState) (re : Reenter) (f : Val) (φ : Val → Val → Val) : Prop where
  ok : ∀ (s : VmState) (r : Val) (s' : VmState), s.stack.count = s₀.stack.count + 2 →
    s.stack.count < s.stack.data.length → s.heap = s₀.heap → s.openUpvalues = s₀.openUpvalues →
    s.frames = s₀.frames → s.globals = s₀.globals → (re f).go s = (.ok r, s') →
    r = φ (s.stack.peekLast 0) (s.stack.peekLast 1) ∧
    Prefix s'.stack s.stack ∧ s'.stack.count + 2 = s.stack.count ∧
    s'.heap = s.heap ∧ s'.guards = s.guards ∧ s'.frames = s.frames ∧ s'.globals = s.globals ∧
    s'.openUpvalues = s.openUpvalues

/-- the unrelativised contract implies the relativised one, for every entry state -/
theorem pureCallbackAt_of_pure {re : Reenter} {f : Val} {φ : Val → Val → Val} (h : PureCallback re f φ)
    (s₀ : VmState) : PureCallbackAt s₀ re f φ :=
  ⟨fun s r s' hc hl _ _ _ _ hok => h.ok s r s' (by omega) hl hok⟩

/-- one callback round trip from a state `t` that is `s₀` up to guards and stale slots -/
theorem callKV_okAt {s₀ : VmState} {re : Reenter} {f : Val} {φ : Val → Val → Val}
    (hcb : PureCallbackAt s₀ re f φ) {k v r : Val} {t t' : VmState} (hG : Grown s₀ t)
    (hheap : t.heap = s₀.heap) (hok : (callKV re f k v).go t = (.ok r, t')) :
    r = φ k v ∧ StackSame t.stack t'.stack ∧ t'.heap = t.heap ∧ t'.guards = t.guards ∧
    t'.frames = t.frames ∧ t'.globals = t.globals ∧ t'.openUpvalues = t.openUpvalues := by
  unfold callKV at hok
  obtain ⟨_, t₁, h1, hok⟩ := ok_bind hok
  obtain ⟨_, t₂, h2, hok⟩ := ok_bind hok
  obtain ⟨hc1, rfl⟩ := push_ok h1
  obtain ⟨hc2, rfl⟩ := push_ok h2
  dsimp only at hc2 hok
  rw [List.length_set] at hc2
  obtain ⟨hr, hpre, hcnt, hheap', hgu, hfr, hgl, hup⟩ := hcb.ok _ r t'
    (by dsimp only; rw [hG.stack.count]) (by dsimp only; rw [List.length_set, List.length_set]; omega)
    (by exact hheap) (by exact hG.openUpvalues) (by exact hG.frames) (by exact hG.globals) hok
  dsimp only at hr hpre hcnt hheap' hgu hfr hgl hup
  refine ⟨?_, ?_, hheap', hgu, hfr, hgl, hup⟩
  · rw [hr, peekLast_push0 _ _ _ (by rw [List.length_set]; omega),
      peekLast_succ_push, peekLast_push0 _ _ _ (by omega)]
  · exact StackSame.of_prefix ((Prefix.push t.stack v).trans (Prefix.push _ k)) hpre (by omega)

theorem liftRun_ok {f : VmState → VmState × Except RunErr (Option Val)} {s s' : VmState} {r : Val}
    (h : (liftRun f).go s = (.ok r, s')) : ∃ ov, f s = (s', .ok ov) ∧ r = ov.getD .nil := by
  have h' : (match f s with
    | (s', .ok (some v)) => ((.ok v : Except ErrKind Val), s')
    | (s', .ok none) => (.ok .nil, s')
    | (s', .error e) => (.error e.kind, s')) = (.ok r, s') := h
  split at h'
  · next s1 v hx =>
    simp only [Prod.mk.injEq, Except.ok.injEq] at h'
    exact ⟨some v, by rw [hx, h'.2], h'.1.symm⟩
  · next s1 hx =>
    simp only [Prod.mk.injEq, Except.ok.injEq] at h'
    exact ⟨none, by rw [hx, h'.2], h'.1.symm⟩
  · simp at h'

theorem rtvFinal_prefix (s : VmState) (h2 : 2 ≤ s.stack.count) :
    Prefix (rtvFinal s).stack s.stack := by
  refine ⟨Nat.sub_le _ _, by simp [rtvFinal], fun i hi => ?_⟩
  have hi : i < s.stack.count - 2 := hi
  show (((s.stack.data.set _ _).set _ _).set _ _)[i]? = _
  rw [List.getElem?_set_ne (by omega), List.getElem?_set_ne (by omega),
    List.getElem?_set_ne (by omega)]

/-- **the real callback on `row_to_value` is a pure callback with `φ key value = value`**, relative
    to every entry state `s₀` of a native in which the key function is a function object for the
    label of `row_to_value` and no open upvalue points at or above the top of the stack (the
    invariant `UpInv` of the capture mechanism gives that: `UpvaluesBelow.of_inv`). No hypothesis
    on fuel, budget, call-stack room or stack room: a call that lacks one of them fails. -/
theorem rowToValue_pure {p : Prog} {pos : Nat} (hc : RowToValueAt p pos) {a : Nat} {h h' ar : UInt32}
    (gas : Nat) (s₀ : VmState) (hget : s₀.heap.get a = some (.fn h ar)) (har : ar.toNat = 2)
    (hlab : p.labels.find? (fun l => l.1 == h) = some (h', pos))
    (hup : UpvaluesBelow s₀ s₀.stack.count) :
    PureCallbackAt s₀ (reenterOf p gas) (.obj a) (fun _ v => v) := by
  refine ⟨fun s r s' hcnt hroom hheap hopen hfr hgl hok => ?_⟩
  obtain ⟨ov, hx, hr⟩ := liftRun_ok hok
  have h2 : 2 ≤ s.stack.count := by omega
  obtain ⟨-, -, -, -, hs', hov⟩ := rowToValue_inv hc s gas (by rw [hheap]; exact hget) har hlab h2
    (by rw [hcnt, Nat.add_sub_cancel]; exact hup.congr hheap hopen) hx
  subst hs'
  refine ⟨by rw [hr, hov]; rfl, rtvFinal_prefix s h2, ?_, rfl, rfl, rfl, rfl, rfl⟩
  show s.stack.count - 2 + 2 = s.stack.count
  omega

end Cao.RowValue
