import CaoProofs.Lemmas.SchedOpsC
/-!
# Schedule independence, all instructions: `RegisterUpvalue`

The closure object is popped before the upvalue object is allocated, so a collection in between may
free it in one run and not in the other; it is then unreachable in both, and overwriting it (or
not) makes no observable difference (`Agree.set'`).
-/
namespace Cao.SchedFull
open Cao Cao.Vm Cao.Gc Cao.C02 Cao.C05 Cao.RunInv Cao.Native
set_option linter.unusedVariables false
set_option linter.unusedSectionVars false

def cRegisterUpvalue (index : Nat) (isLocal : Bool) (ip : Nat) : M Ctl := do
  let cv ← pop
  match cv with
  | .obj c =>
    match (← get).heap.get c with
    | some (.closure hd ar ups) =>
      if isLocal then
        let off := (← curFrame).stackOffset
        let slot := off + index
        if slot ≥ (← get).stack.count then throwE .invalidArgument
        let s ← get
        match s.openUpvalues.find? (fun a => upvalueSlot s.heap a == some slot) with
        | some u =>
          modify fun s => { s with heap := s.heap.set c (.closure hd ar (ups ++ [u])) }
        | none =>
          let u ← initSimple (.upvalue (.stack slot))
          modify fun s =>
            let (hi, lo) := s.openUpvalues.partition (fun a => match upvalueSlot s.heap a with
              | some i => i > slot | none => true)
            { s with openUpvalues := hi ++ [u] ++ lo,
                     heap := s.heap.set c (.closure hd ar (ups ++ [u])) }
          dropGuard u
      else
        match (← curFrame).closure with
        | none => throwE (.panic "closure not found for capture")
        | some outer =>
          match (← get).heap.get outer with
          | some (.closure _ _ oups) =>
            match oups[index]? with
            | some u => modify fun s => { s with heap := s.heap.set c (.closure hd ar (ups ++ [u])) }
            | none => throwE (.panic "upvalue index out of bounds")
          | _ => throwE (.panic "closure not found for capture")
      return { ip }
    | _ => throwE .invalidArgument
  | _ => throwE .invalidArgument

section
variable {c : Cfg} {K : Nat → Prop} {s t : VmState}

/-- `initSimple` with the run equations of both machines -/
theorem w2_initSimple2 {Q : Nat → Nat → VmState → VmState → Prop} (o : Obj) (hk : Heap.children o = [])
    (ho : Heap.chargeOf o = Heap.objCharge) (h : Agree c K s t)
    (hq : ∀ a s' t', (initSimple o).go s = (.ok a, s') → (initSimple o).go t = (.ok a, t') →
      Agree c (R s') s' t' → Q a a s' t') :
    W2 c (initSimple o) (initSimple o) Q s t := by
  have hcore : ((initSimple o).go t).1 = ((initSimple o).go s).1 ∧
      ∃ K', Core c K' ((initSimple o).go s).2 ((initSimple o).go t).2 := by
    rw [show (initSimple o).go s = _ from initSimple_run o s,
      show (initSimple o).go t = _ from initSimple_run o t]
    exact alloc1Pure_core _ _ hk h
  obtain ⟨e, K', hc⟩ := hcore
  have i1 : C05.Inv ((initSimple o).go s).2 := initSimple_inv o s ho h.invL
  have i2 : C05.Inv ((initSimple o).go t).2 := initSimple_inv o t ho h.invR
  unfold W2
  rcases h1 : (initSimple o).go s with ⟨r1, s'⟩
  rcases h2 : (initSimple o).go t with ⟨r2, t'⟩
  rw [h1, h2] at e hc
  rw [h1] at i1
  rw [h2] at i2
  dsimp only at e hc i1 i2
  subst e
  have hA : Agree c (R s') s' t' := Agree.toR { hc with invL := i1, invR := i2 }
  cases r2 with
  | error e => exact ⟨rfl, hA.rel⟩
  | ok a => exact hq a s' t' h1 h2 hA

/-- what `initSimple` does to the heap: the new object sits at the old `next`; every other
    allocated object was allocated before -/
theorem initSimple_facts {o : Obj} {s s' : VmState} {a : Nat} (hgo : (initSimple o).go s = (.ok a, s')) :
    a = s.heap.next ∧ s'.guards = a :: s.guards ∧
    (∀ x ob, x ≠ a → s'.heap.get x = some ob → s.heap.get x = some ob) := by
  rw [show (initSimple o).go s = _ from initSimple_run o s] at hgo
  unfold alloc1Pure at hgo
  have o1 := allocPure_obs Heap.objCharge s
  have g1 := allocPure_get Heap.objCharge s
  rcases h1 : allocPure Heap.objCharge s with ⟨r1, s1⟩
  rw [h1] at hgo o1 g1
  cases r1 with
  | error e => cases hgo
  | ok u =>
    simp only [Prod.mk.injEq, Except.ok.injEq] at hgo
    obtain ⟨rfl, rfl⟩ := hgo
    dsimp only at o1 g1
    refine ⟨o1.next, ?_, ?_⟩
    · show s1.heap.next :: s1.guards = s1.heap.next :: s.guards
      rw [o1.guards]
    · intro x ob hx hg
      rw [SchedSim.withObject_get_ne o s1 x hx] at hg
      exact g1 x ob hg

theorem partition_congr' {α : Type} {p q : α → Bool} {l : List α} (h : ∀ x ∈ l, p x = q x) :
    l.partition p = l.partition q := by
  rw [List.partition_eq_filter_filter, List.partition_eq_filter_filter]
  have e1 : l.filter p = l.filter q := List.filter_congr h
  have e2 : l.filter (not ∘ p) = l.filter (not ∘ q) :=
    List.filter_congr (fun x hx => by simp only [Function.comp, h x hx])
  rw [e1, e2]

theorem mem_of_partition {α : Type} {p : α → Bool} {l hi lo : List α} (h : l.partition p = (hi, lo))
    {x : α} (hx : x ∈ hi ∨ x ∈ lo) : x ∈ l := by
  rw [List.partition_eq_filter_filter] at h
  simp only [Prod.mk.injEq] at h
  rcases hx with hx | hx
  · rw [← h.1] at hx; exact (List.mem_filter.mp hx).1
  · rw [← h.2] at hx; exact (List.mem_filter.mp hx).1

theorem closure_kids {hd ar : UInt32} {ups : List Nat} {u b : Nat}
    (hb : Val.obj b ∈ Heap.children (.closure hd ar (ups ++ [u]))) :
    b = u ∨ Val.obj b ∈ Heap.children (.closure hd ar ups) := by
  simp only [Heap.children, List.map_append, List.mem_append, List.mem_map, List.mem_singleton,
    Val.obj.injEq, List.map_cons, List.map_nil] at hb ⊢
  rcases hb with hb | hb
  · exact Or.inr hb
  · exact Or.inl hb

theorem sim_registerUpvalue (index : Nat) (isLocal : Bool) (ip : Nat) (h : Agree c K s t) :
    W2 c (cRegisterUpvalue index isLocal ip) (cRegisterUpvalue index isLocal ip) (QStep c) s t := by
  unfold cRegisterUpvalue
  refine w2_bind (w2_pop' h fun cv s1 t1 _ _ hcv hA => ?_)
  cases cv with
  | nil => exact w2_throwE hA.rel
  | int _ => exact w2_throwE hA.rel
  | real _ => exact w2_throwE hA.rel
  | obj cl =>
    dsimp only
    have hcl : K cl := hcv cl rfl
    refine w2_get' ?_
    rw [hA.agree cl hcl]
    cases hg : s1.heap.get cl with
    | none => exact w2_throwE hA.rel
    | some o =>
      cases o with
      | table _ _ => exact w2_throwE hA.rel
      | str _ => exact w2_throwE hA.rel
      | fn _ _ => exact w2_throwE hA.rel
      | native _ => exact w2_throwE hA.rel
      | upvalue _ => exact w2_throwE hA.rel
      | closure hd ar ups =>
        dsimp only
        have hgt : t1.heap.get cl = some (.closure hd ar ups) := by rw [hA.agree cl hcl]; exact hg
        have hups : ∀ b, Val.obj b ∈ Heap.children (.closure hd ar ups) → K b :=
          fun b hb => hA.closed cl _ b hcl hg hb
        cases isLocal with
        | true =>
          simp only [if_true]
          refine w2_bind (w2_curFrame hA fun f hf _ => ?_)
          w2h
          refine w2_get' ?_
          rw [hA.stack.count]
          by_cases hslot : f.stackOffset + index ≥ s1.stack.count
          · rw [if_pos hslot]; exact w2_throwE_bind hA.rel
          rw [if_neg hslot]
          w2h
          refine w2_get' ?_
          have efind : t1.openUpvalues.find? (fun a => upvalueSlot t1.heap a == some (f.stackOffset + index)) =
              s1.openUpvalues.find? (fun a => upvalueSlot s1.heap a == some (f.stackOffset + index)) := by
            rw [hA.openUpvalues]
            exact find?_congr' (fun x hx => by rw [upvalueSlot_eq hA.toCore (hA.k_upv hx)])
          rw [efind]
          cases hfind : s1.openUpvalues.find? (fun a => upvalueSlot s1.heap a == some (f.stackOffset + index)) with
          | some u =>
            dsimp only
            have hku : K u := hA.k_upv (List.mem_of_find?_eq_some hfind)
            refine w2_bind (w2_modify ?_)
            have hA2 := hA.set cl (.closure hd ar (ups ++ [u])) hcl
              (fun b hb => by
                rcases closure_kids hb with rfl | hb
                · exact hku
                · exact hups b hb)
              (fun o ho => by rw [hg] at ho; cases ho; rfl)
            exact w2_done hA2 _
          | none =>
            dsimp only
            refine w2_bind (w2_initSimple2 _ rfl rfl hA fun u s2 t2 go1 go2 hA2 => ?_)
            obtain ⟨eu, hgd, hold⟩ := initSimple_facts go1
            obtain ⟨eu', _, hold'⟩ := initSimple_facts go2
            have hne : cl ≠ u := by
              rw [eu]; exact Nat.ne_of_lt (get_lt_next hA.invL.fresh hg)
            have hru : R s2 u := SchedSim.reach_guard' (by rw [hgd]; exact List.mem_cons_self)
            refine w2_bind (w2_modify ?_)
            -- the closure object: overwritten where it still exists
            have hA3 := hA2.set' cl (.closure hd ar (ups ++ [u]))
              (fun hr ⟨o, ho⟩ b hb => by
                rcases closure_kids hb with rfl | hb
                · exact hru
                · have := hold cl o hne ho
                  rw [hg] at this
                  cases this
                  exact Reach.step hr ho hb)
              (fun o ho => by
                have := hold cl o hne ho
                rw [hg] at this; cases this; rfl)
              (fun o ho => by
                have := hold' cl o hne ho
                rw [hgt] at this; cases this; rfl)
            -- the open-upvalue list
            have epart : t2.openUpvalues.partition (fun a => match upvalueSlot t2.heap a with
                  | some i => decide (i > f.stackOffset + index) | none => true) =
                s2.openUpvalues.partition (fun a => match upvalueSlot s2.heap a with
                  | some i => decide (i > f.stackOffset + index) | none => true) := by
              rw [hA2.openUpvalues]
              exact partition_congr' (fun x hx => by
                rw [upvalueSlot_eq hA2.toCore (SchedSim.reach_upv hx)])
            rcases hp : s2.openUpvalues.partition (fun a => match upvalueSlot s2.heap a with
                  | some i => decide (i > f.stackOffset + index) | none => true) with ⟨hi, lo⟩
            rw [hp] at epart
            rw [epart]
            dsimp only
            have hA4 : Agree c (R s2)
                { s2 with openUpvalues := hi ++ [u] ++ lo, heap := s2.heap.set cl (.closure hd ar (ups ++ [u])) }
                { t2 with openUpvalues := hi ++ [u] ++ lo, heap := t2.heap.set cl (.closure hd ar (ups ++ [u])) } := by
              refine hA3.reroot rfl rfl rfl rfl hA3.stack hA3.globals hA3.frames rfl hA3.guards hA3.remaining
                hA3.dispatches hA3.hostLog hA3.frameCap ?_
              refine rootsK_of (fun v hv => hA3.vk_stack hv) (fun v hv => hA3.vk_global hv)
                (fun f hf a ha => hA3.k_frame hf ha) (fun a ha => ?_) (fun a ha => hA3.k_guard ha)
              simp only [List.mem_append, List.mem_singleton] at ha
              rcases ha with (ha | ha) | ha
              · exact SchedSim.reach_upv (mem_of_partition hp (Or.inl ha))
              · rw [ha]; exact hru
              · exact SchedSim.reach_upv (mem_of_partition hp (Or.inr ha))
            refine w2_bind (w2_dropGuard' _ hA4 fun s5 t5 _ hA5 => ?_)
            exact w2_done hA5 _
        | false =>
          simp only [Bool.false_eq_true, if_false]
          refine w2_bind (w2_curFrame hA fun f hf hfm => ?_)
          cases hc : f.closure with
          | none => exact w2_throwE_bind hA.rel
          | some outer =>
            dsimp only
            have hko : K outer := hA.k_frame hfm hc
            refine w2_get' ?_
            rw [hA.agree outer hko]
            cases hgo : s1.heap.get outer with
            | none => exact w2_throwE_bind hA.rel
            | some oo =>
              cases oo with
              | table _ _ => exact w2_throwE_bind hA.rel
              | str _ => exact w2_throwE_bind hA.rel
              | fn _ _ => exact w2_throwE_bind hA.rel
              | native _ => exact w2_throwE_bind hA.rel
              | upvalue _ => exact w2_throwE_bind hA.rel
              | closure ohd oar oups =>
                dsimp only
                cases hu : oups[index]? with
                | none => exact w2_throwE_bind hA.rel
                | some u =>
                  dsimp only
                  have hku : K u := hA.closed outer _ u hko hgo (by
                    simp only [Heap.children, List.mem_map]
                    exact ⟨u, List.mem_of_getElem? hu, rfl⟩)
                  refine w2_bind (w2_modify ?_)
                  have hA2 := hA.set cl (.closure hd ar (ups ++ [u])) hcl
                    (fun b hb => by
                      rcases closure_kids hb with rfl | hb
                      · exact hku
                      · exact hups b hb)
                    (fun o ho => by rw [hg] at ho; cases ho; rfl)
                  exact w2_done hA2 _

end

end Cao.SchedFull
