import CaoProofs.Lemmas.VmFrame
import CaoProofs.Props.C02
import CaoProofs.Props.C05
/-!
# The capture mechanism of the interpreter: upvalue objects

* heap lemmas (`get_set`, `get_append`);
* the well-formedness invariant of the capture mechanism: `UpCore` (the part that does not mention
  the height of the value stack), `UpBound` (no open upvalue points at or above `stack.count`),
  `UpInv = UpCore ∧ UpBound`;
* `closeUpvalues` as a pure function (`closeGo_spec`);
* the upvalue instructions of `step` as stand-alone computations (`Instr.*`) with the equations
  `step_*` that tie them to `step`;
* preservation of `UpCore` by every primitive (for the `Pres` logic of `VmFrame.lean`).
-/
namespace Cao.Upv
open Cao Cao.Vm Cao.Gc Cao.C02 Cao.C05
set_option linter.unusedSectionVars false
set_option linter.unusedVariables false

/-! ## heap lemmas -/

theorem get_set (h : Heap) (a b : Nat) (o : Obj) :
    (h.set a o).get b = if b = a then (h.get a).map (fun _ => o) else h.get b := by
  unfold Heap.get Heap.set
  simp only
  induction h.objs with
  | nil => simp
  | cons p l ih =>
    simp only [List.map_cons, List.find?_cons]
    by_cases hpa : p.1 = a
    · by_cases hb : b = a
      · subst hb; simp [hpa]
      · have h1 : (a == b) = false := by simpa using fun h => hb h.symm
        have h2 : (p.1 == b) = false := by rw [hpa]; exact h1
        simp only [hpa, beq_self_eq_true, if_true, h1]
        simpa [hb] using ih
    · have h0 : (p.1 == a) = false := by simpa using hpa
      simp only [h0, Bool.false_eq_true, if_false]
      by_cases hpb : p.1 = b
      · have hb : ¬ b = a := fun h => hpa (hpb.trans h)
        simp [hpb, hb]
      · have h2 : (p.1 == b) = false := by simpa using hpb
        simp only [h2]
        exact ih

theorem get_set_self (h : Heap) (a : Nat) (o o' : Obj) (ha : h.get a = some o') :
    (h.set a o).get a = some o := by
  rw [get_set, if_pos rfl, ha]; rfl

theorem get_set_ne (h : Heap) (a b : Nat) (o : Obj) (hb : b ≠ a) : (h.set a o).get b = h.get b := by
  rw [get_set, if_neg hb]

theorem get_set_none (h : Heap) (a b : Nat) (o : Obj) (ha : h.get a = none) :
    (h.set a o).get b = h.get b := by
  rw [get_set]
  split
  · next hb => subst hb; rw [ha]; rfl
  · rfl

theorem set_next (h : Heap) (a : Nat) (o : Obj) : (h.set a o).next = h.next := rfl

theorem get_lt_next {h : Heap} (hf : FreshNext h) {a : Nat} {o : Obj} (ha : h.get a = some o) :
    a < h.next := by
  unfold Heap.get at ha
  cases hfd : h.objs.find? (fun p => p.1 == a) with
  | none => rw [hfd] at ha; cases ha
  | some p =>
    have h1 := List.find?_some hfd
    have h2 := List.mem_of_find?_eq_some hfd
    have : p.1 = a := by simpa using h1
    rw [← this]; exact hf p h2

theorem get_next_none {h : Heap} (hf : FreshNext h) : h.get h.next = none := by
  cases hg : h.get h.next with
  | none => rfl
  | some o => exact absurd (get_lt_next hf hg) (Nat.lt_irrefl _)

/-- the heap after `newObject o` -/
def Heap.add (h : Heap) (o : Obj) : Heap := { objs := h.objs ++ [(h.next, o)], next := h.next + 1 }

theorem get_add (h : Heap) (o : Obj) (b : Nat) (hf : FreshNext h) :
    (Heap.add h o).get b = if b = h.next then some o else h.get b := by
  unfold Heap.add Heap.get
  simp only [List.find?_append]
  split
  · next hb =>
    subst hb
    have := get_next_none hf
    unfold Heap.get at this
    cases hfd : h.objs.find? (fun p => p.1 == h.next) with
    | none => simp
    | some p => rw [hfd] at this; cases this
  · next hb =>
    have h1 : (h.next == b) = false := by simpa using fun h => hb h.symm
    cases hfd : h.objs.find? (fun p => p.1 == b) with
    | none => simp [h1]
    | some p => simp

theorem add_fresh (h : Heap) (o : Obj) (hf : FreshNext h) : FreshNext (Heap.add h o) := by
  intro p hp
  unfold Heap.add at hp ⊢
  simp only [List.mem_append, List.mem_singleton] at hp ⊢
  rcases hp with hp | hp
  · exact Nat.lt_succ_of_lt (hf p hp)
  · subst hp; exact Nat.lt_succ_self _

theorem withObject_heap (o : Obj) (s : VmState) : (withObject o s).heap = Heap.add s.heap o := rfl

/-! ## upvalue objects -/

/-- `u` is the address of an upvalue object -/
def IsUp (h : Heap) (u : Nat) : Prop := ∃ loc, h.get u = some (.upvalue loc)

theorem upvalueSlot_eq_some {h : Heap} {a i : Nat} :
    upvalueSlot h a = some i ↔ h.get a = some (.upvalue (.stack i)) := by
  unfold upvalueSlot
  split
  · next j hj => rw [hj]; simp
  · next hne =>
    constructor
    · intro h1; cases h1
    · intro h1; exact absurd h1 (hne i)

theorem upvalueSlot_congr {h h' : Heap} {a : Nat} (hg : h'.get a = h.get a) :
    upvalueSlot h' a = upvalueSlot h a := by
  unfold upvalueSlot; rw [hg]

theorem isUp_of_slot {h : Heap} {a i : Nat} (hs : upvalueSlot h a = some i) : IsUp h a :=
  ⟨_, upvalueSlot_eq_some.mp hs⟩

/-- the slots of two listed upvalues are strictly descending -/
def SlotGt (h : Heap) (a b : Nat) : Prop :=
  ∀ i j, upvalueSlot h a = some i → upvalueSlot h b = some j → j < i

/-- the part of the invariant that talks about the heap and the list of open upvalues only -/
structure UpCore (s : VmState) : Prop where
  /-- every allocated address is below `heap.next` (so that new objects are really new) -/
  fresh : FreshNext s.heap
  /-- every listed address is an `upvalue (open slot)` object -/
  open_ : ∀ a ∈ s.openUpvalues, ∃ i, upvalueSlot s.heap a = some i
  /-- the list is sorted by slot, highest first, without repetition of a slot -/
  sorted : s.openUpvalues.Pairwise (SlotGt s.heap)
  /-- the upvalue lists of closures refer to upvalue objects -/
  closures : ∀ c hd ar ups, s.heap.get c = some (.closure hd ar ups) → ∀ u ∈ ups, IsUp s.heap u

/-- no open upvalue points at or above the top of the value stack -/
def UpBound (s : VmState) : Prop :=
  ∀ a ∈ s.openUpvalues, ∀ i, upvalueSlot s.heap a = some i → i < s.stack.count

/-- **the well-formedness invariant of the capture mechanism** -/
structure UpInv (s : VmState) : Prop where
  core : UpCore s
  bound : UpBound s

/-- the open upvalue that captures `slot`, if any (`RegisterUpvalue` looks it up like this) -/
def upvalueFor (s : VmState) (slot : Nat) : Option Nat :=
  s.openUpvalues.find? (fun a => upvalueSlot s.heap a == some slot)

theorem upvalueFor_some {s : VmState} {slot u : Nat} (h : upvalueFor s slot = some u) :
    u ∈ s.openUpvalues ∧ s.heap.get u = some (.upvalue (.stack slot)) := by
  unfold upvalueFor at h
  have h1 := List.find?_some h
  have h2 := List.mem_of_find?_eq_some h
  exact ⟨h2, upvalueSlot_eq_some.mp (by simpa using h1)⟩

theorem upvalueFor_none {s : VmState} {slot : Nat} (h : upvalueFor s slot = none) :
    ∀ a ∈ s.openUpvalues, upvalueSlot s.heap a ≠ some slot := by
  unfold upvalueFor at h
  rw [List.find?_eq_none] at h
  intro a ha hs
  exact h a ha (by simp [hs])

/-- distinct listed upvalues have distinct slots -/
theorem UpCore.slot_inj {s : VmState} (hc : UpCore s) {a b i : Nat} (ha : a ∈ s.openUpvalues)
    (hb : b ∈ s.openUpvalues) (hsa : upvalueSlot s.heap a = some i) (hsb : upvalueSlot s.heap b = some i) :
    a = b := by
  have hs := hc.sorted
  generalize s.openUpvalues = l at ha hb hs
  induction l with
  | nil => cases ha
  | cons x l ih =>
    rw [List.pairwise_cons] at hs
    rcases List.mem_cons.mp ha with rfl | ha'
    · rcases List.mem_cons.mp hb with rfl | hb'
      · rfl
      · exact absurd (hs.1 b hb' i i hsa hsb) (Nat.lt_irrefl _)
    · rcases List.mem_cons.mp hb with rfl | hb'
      · exact absurd (hs.1 a ha' i i hsb hsa) (Nat.lt_irrefl _)
      · exact ih ha' hb' hs.2

/-- **the open upvalue of a slot is unique**: `upvalueFor` finds *the* listed upvalue of the slot -/
theorem UpCore.upvalueFor_iff {s : VmState} (hc : UpCore s) {slot u : Nat} :
    upvalueFor s slot = some u ↔ u ∈ s.openUpvalues ∧ upvalueSlot s.heap u = some slot := by
  constructor
  · intro h
    exact ⟨(upvalueFor_some h).1, upvalueSlot_eq_some.mpr (upvalueFor_some h).2⟩
  · rintro ⟨hm, hs⟩
    cases hf : upvalueFor s slot with
    | none => exact absurd hs (upvalueFor_none hf u hm)
    | some u' =>
      have := upvalueFor_some hf
      rw [hc.slot_inj this.1 hm (upvalueSlot_eq_some.mpr this.2) hs]

theorem UpCore.congr {s s' : VmState} (hh : s'.heap = s.heap) (ho : s'.openUpvalues = s.openUpvalues)
    (hc : UpCore s) : UpCore s' := by
  constructor
  · rw [hh]; exact hc.fresh
  · rw [hh, ho]; exact hc.open_
  · rw [hh, ho]; exact hc.sorted
  · rw [hh]; exact hc.closures

theorem UpBound.congr {s s' : VmState} (hh : s'.heap = s.heap) (ho : s'.openUpvalues = s.openUpvalues)
    (hk : s.stack.count ≤ s'.stack.count) (hb : UpBound s) : UpBound s' := by
  intro a ha i hi
  rw [ho] at ha; rw [hh] at hi
  exact Nat.lt_of_lt_of_le (hb a ha i hi) hk

/-! ## `closeUpvalues` as a pure function -/

/-- is the slot of the (open) upvalue `a` below `top`? -/
def below (h : Heap) (top : Nat) (a : Nat) : Bool :=
  match upvalueSlot h a with
  | some i => decide (i < top)
  | none => false

theorem closeGo_nil (top : Nat) (s : VmState) (h : Heap) : closeUpvalues.go top s [] h = ([], h) := by
  unfold closeUpvalues.go; rfl

theorem closeGo_cons (top : Nat) (s : VmState) (a : Nat) (rest : List Nat) (h : Heap) (i : Nat)
    (hi : upvalueSlot h a = some i) :
    closeUpvalues.go top s (a :: rest) h =
      if i < top then (a :: rest, h)
      else closeUpvalues.go top s rest (h.set a (.upvalue (.closed (s.stack.data.getD i .nil)))) := by
  rw [closeUpvalues.go]
  simp only [hi]

theorem closeGo_spec (top : Nat) (s : VmState) : ∀ (l : List Nat) (h : Heap),
    (∀ a ∈ l, ∃ i, upvalueSlot h a = some i) → l.Pairwise (SlotGt h) →
    (closeUpvalues.go top s l h).1 = l.filter (below h top) ∧
    (∀ b ∈ l, ∀ i, upvalueSlot h b = some i → top ≤ i →
      (closeUpvalues.go top s l h).2.get b = some (.upvalue (.closed (s.stack.data.getD i .nil)))) ∧
    (∀ b, (b ∉ l ∨ below h top b = true) → (closeUpvalues.go top s l h).2.get b = h.get b) ∧
    (FreshNext h → FreshNext (closeUpvalues.go top s l h).2) := by
  intro l
  induction l with
  | nil =>
    intro h _ _
    rw [closeGo_nil]
    exact ⟨rfl, fun b hb => absurd hb List.not_mem_nil, fun _ _ => rfl, fun hf => hf⟩
  | cons a rest ih =>
    intro h hopen hsorted
    obtain ⟨i, hi⟩ := hopen a List.mem_cons_self
    rw [List.pairwise_cons] at hsorted
    rw [closeGo_cons top s a rest h i hi]
    have hrest : ∀ b ∈ rest, ∃ j, upvalueSlot h b = some j ∧ j < i := by
      intro b hb
      obtain ⟨j, hj⟩ := hopen b (List.mem_cons_of_mem _ hb)
      exact ⟨j, hj, hsorted.1 b hb i j hi hj⟩
    by_cases hlt : i < top
    · rw [if_pos hlt]
      have hbelow : ∀ b ∈ a :: rest, below h top b = true := by
        intro b hb
        rcases List.mem_cons.mp hb with rfl | hb
        · simp [below, hi, hlt]
        · obtain ⟨j, hj, hji⟩ := hrest b hb
          simp only [below, hj, decide_eq_true_eq]; omega
      refine ⟨(List.filter_eq_self.mpr hbelow).symm, ?_, fun _ _ => rfl, fun hf => hf⟩
      intro b hb j hj hle
      have := hbelow b hb
      simp only [below, hj, decide_eq_true_eq] at this
      omega
    · rw [if_neg hlt]
      have hga : h.get a = some (.upvalue (.stack i)) := upvalueSlot_eq_some.mp hi
      have hne : ∀ b ∈ rest, b ≠ a := by
        intro b hb hba
        obtain ⟨j, hj, hji⟩ := hrest b hb
        rw [hba, hi] at hj
        cases hj; omega
      generalize hh' : h.set a (.upvalue (.closed (s.stack.data.getD i .nil))) = h'
      have hslot' : ∀ b, b ≠ a → upvalueSlot h' b = upvalueSlot h b := by
        intro b hb; subst hh'; exact upvalueSlot_congr (get_set_ne h a b _ hb)
      have hbel' : ∀ b, b ≠ a → below h' top b = below h top b := by
        intro b hb; unfold below; rw [hslot' b hb]
      have hopen' : ∀ b ∈ rest, ∃ j, upvalueSlot h' b = some j := by
        intro b hb
        obtain ⟨j, hj, _⟩ := hrest b hb
        exact ⟨j, by rw [hslot' b (hne b hb)]; exact hj⟩
      have hsorted' : rest.Pairwise (SlotGt h') := by
        refine List.Pairwise.imp_of_mem ?_ hsorted.2
        intro x y hx hy hxy i' j' hi' hj'
        rw [hslot' x (hne x hx)] at hi'
        rw [hslot' y (hne y hy)] at hj'
        exact hxy i' j' hi' hj'
      obtain ⟨ih1, ih2, ih3, ih4⟩ := ih h' hopen' hsorted'
      have hbela : below h top a = false := by simp [below, hi, hlt]
      refine ⟨?_, ?_, ?_, ?_⟩
      · rw [ih1, List.filter_cons, hbela]
        simp only [Bool.false_eq_true, if_false]
        exact List.filter_congr (fun b hb => hbel' b (hne b hb))
      · intro b hb j hj hle
        rcases List.mem_cons.mp hb with rfl | hb
        · rw [hi] at hj; cases hj
          rw [ih3 b (Or.inl (fun hm => hne b hm rfl))]
          subst hh'; exact get_set_self h b _ _ hga
        · exact ih2 b hb j (by rw [hslot' b (hne b hb)]; exact hj) hle
      · intro b hb
        have hba : b ≠ a := by
          rcases hb with hb | hb
          · intro h1; exact hb (h1 ▸ List.mem_cons_self)
          · intro h1; rw [h1, hbela] at hb; cases hb
        have : b ∉ rest ∨ below h' top b = true := by
          rcases hb with hb | hb
          · exact Or.inl (fun hm => hb (List.mem_cons_of_mem _ hm))
          · exact Or.inr (by rw [hbel' b hba]; exact hb)
        rw [ih3 b this]
        subst hh'; exact get_set_ne h a b _ hba
      · intro hf
        exact ih4 (by subst hh'; exact set_fresh h a _ hf)

/-- the state after `closeUpvalues top` -/
def closeState (top : Nat) (s : VmState) : VmState :=
  { s with openUpvalues := (closeUpvalues.go top s s.openUpvalues s.heap).1,
           heap := (closeUpvalues.go top s s.openUpvalues s.heap).2 }

theorem go_closeUpvalues (top : Nat) (s : VmState) :
    (closeUpvalues top).go s = (.ok ⟨⟩, closeState top s) := by
  unfold closeUpvalues closeState
  simp only [go_bind, go_get]
  rcases closeUpvalues.go top s s.openUpvalues s.heap with ⟨l, h⟩
  rfl

section close
variable {s : VmState} (hc : UpCore s) (top : Nat)
include hc

theorem closeState_open : (closeState top s).openUpvalues = s.openUpvalues.filter (below s.heap top) :=
  (closeGo_spec top s s.openUpvalues s.heap hc.open_ hc.sorted).1

theorem closeState_closed {b i : Nat} (hb : b ∈ s.openUpvalues) (hi : upvalueSlot s.heap b = some i)
    (hle : top ≤ i) :
    (closeState top s).heap.get b = some (.upvalue (.closed (s.stack.data.getD i .nil))) :=
  (closeGo_spec top s s.openUpvalues s.heap hc.open_ hc.sorted).2.1 b hb i hi hle

theorem closeState_other {b : Nat} (hb : b ∉ s.openUpvalues ∨ below s.heap top b = true) :
    (closeState top s).heap.get b = s.heap.get b :=
  (closeGo_spec top s s.openUpvalues s.heap hc.open_ hc.sorted).2.2.1 b hb

theorem closeState_isUp {u : Nat} (hu : IsUp s.heap u) : IsUp (closeState top s).heap u := by
  by_cases hm : u ∈ s.openUpvalues
  · obtain ⟨i, hi⟩ := hc.open_ u hm
    by_cases hle : top ≤ i
    · exact ⟨_, closeState_closed hc top hm hi hle⟩
    · obtain ⟨loc, hl⟩ := hu
      exact ⟨loc, by rw [closeState_other hc top (Or.inr (by simp only [below, hi, decide_eq_true_eq]; omega))]; exact hl⟩
  · obtain ⟨loc, hl⟩ := hu
    exact ⟨loc, by rw [closeState_other hc top (Or.inl hm)]; exact hl⟩

/-- an object that is not an upvalue is left alone -/
theorem closeState_notUp {b : Nat} (hb : ¬ IsUp s.heap b) : (closeState top s).heap.get b = s.heap.get b := by
  apply closeState_other hc top
  by_cases hm : b ∈ s.openUpvalues
  · obtain ⟨i, hi⟩ := hc.open_ b hm
    exact absurd (isUp_of_slot hi) hb
  · exact Or.inl hm

theorem closeState_core : UpCore (closeState top s) := by
  have hsurv : ∀ a ∈ (closeState top s).openUpvalues,
      a ∈ s.openUpvalues ∧ upvalueSlot (closeState top s).heap a = upvalueSlot s.heap a := by
    intro a ha
    rw [closeState_open hc top, List.mem_filter] at ha
    exact ⟨ha.1, upvalueSlot_congr (closeState_other hc top (Or.inr ha.2))⟩
  constructor
  · exact (closeGo_spec top s s.openUpvalues s.heap hc.open_ hc.sorted).2.2.2 hc.fresh
  · intro a ha
    obtain ⟨hm, hs⟩ := hsurv a ha
    rw [hs]; exact hc.open_ a hm
  · have h1 : (closeState top s).openUpvalues.Pairwise (SlotGt s.heap) := by
      rw [closeState_open hc top]
      exact hc.sorted.sublist List.filter_sublist
    refine List.Pairwise.imp_of_mem ?_ h1
    intro x y hx hy hxy i j hi hj
    rw [(hsurv x hx).2] at hi
    rw [(hsurv y hy).2] at hj
    exact hxy i j hi hj
  · intro c hd ar ups hg u hu
    have : s.heap.get c = some (.closure hd ar ups) := by
      by_cases hup : IsUp s.heap c
      · obtain ⟨loc, hl⟩ := closeState_isUp hc top hup
        rw [hl] at hg; cases hg
      · rw [← closeState_notUp hc top hup]; exact hg
    exact closeState_isUp hc top (hc.closures c hd ar ups this u hu)

/-- after `closeUpvalues top` every remaining open upvalue is below `top` -/
theorem closeState_below {a i : Nat} (ha : a ∈ (closeState top s).openUpvalues)
    (hi : upvalueSlot (closeState top s).heap a = some i) : i < top := by
  rw [closeState_open hc top, List.mem_filter] at ha
  rw [upvalueSlot_congr (closeState_other hc top (Or.inr ha.2))] at hi
  have := ha.2
  simp only [below, hi, decide_eq_true_eq] at this
  exact this

end close

/-! ## transferring the invariant to a modified heap -/

/-- a heap update that keeps the listed upvalues, keeps upvalue objects upvalue objects and creates
    no closure with a bad upvalue list preserves `UpCore` -/
theorem UpCore.transfer {s s' : VmState} (hc : UpCore s) (hf : FreshNext s'.heap)
    (ho : s'.openUpvalues = s.openUpvalues)
    (hslot : ∀ a ∈ s.openUpvalues, s'.heap.get a = s.heap.get a)
    (hisup : ∀ b, IsUp s.heap b → IsUp s'.heap b)
    (hcl : ∀ c hd ar ups, s'.heap.get c = some (.closure hd ar ups) →
      s.heap.get c = some (.closure hd ar ups) ∨ ∀ u ∈ ups, IsUp s'.heap u) : UpCore s' := by
  constructor
  · exact hf
  · intro a ha
    rw [ho] at ha
    rw [upvalueSlot_congr (hslot a ha)]
    exact hc.open_ a ha
  · rw [ho]
    refine List.Pairwise.imp_of_mem ?_ hc.sorted
    intro x y hx hy hxy i j hi hj
    rw [upvalueSlot_congr (hslot x hx)] at hi
    rw [upvalueSlot_congr (hslot y hy)] at hj
    exact hxy i j hi hj
  · intro c hd ar ups hg u hu
    rcases hcl c hd ar ups hg with h1 | h1
    · exact hisup u (hc.closures c hd ar ups h1 u hu)
    · exact h1 u hu

/-- objects whose creation cannot break the invariant: everything except a closure that already
    has upvalues -/
def noUps : Obj → Bool
  | .closure _ _ (_ :: _) => false
  | _ => true

theorem get_add_of_some {h : Heap} (hf : FreshNext h) (o : Obj) {a : Nat} {x : Obj}
    (ha : h.get a = some x) : (Heap.add h o).get a = some x := by
  rw [get_add h o a hf, if_neg (Nat.ne_of_lt (get_lt_next hf ha))]; exact ha

theorem withObject_core {s : VmState} (hc : UpCore s) (o : Obj) (ho : noUps o = true) :
    UpCore (withObject o s) := by
  refine hc.transfer (add_fresh _ _ hc.fresh) rfl ?_ ?_ ?_
  · intro a ha
    obtain ⟨i, hi⟩ := hc.open_ a ha
    have := upvalueSlot_eq_some.mp hi
    rw [withObject_heap, get_add_of_some hc.fresh o this, this]
  · rintro b ⟨loc, hl⟩
    exact ⟨loc, by rw [withObject_heap]; exact get_add_of_some hc.fresh o hl⟩
  · intro c hd ar ups hg
    rw [withObject_heap, get_add _ _ _ hc.fresh] at hg
    split at hg
    · cases hg
      cases ups with
      | nil => exact Or.inr (fun u hu => absurd hu List.not_mem_nil)
      | cons _ _ => cases ho
    · exact Or.inl hg

/-- overwriting a table (or nothing) by a table -/
theorem set_table_core {s : VmState} (hc : UpCore s) (a : Nat) (cap : Nat) (es : List (Val × Val))
    (ha : s.heap.get a = none ∨ ∃ cap' es', s.heap.get a = some (.table cap' es')) :
    UpCore { s with heap := s.heap.set a (.table cap es) } := by
  have hne : ∀ b o, s.heap.get b = some o → (∀ c e, o ≠ .table c e) → (s.heap.set a (.table cap es)).get b = some o := by
    intro b o hb hnt
    rw [get_set]
    split
    · next hba =>
      subst hba
      rcases ha with ha | ⟨c, e, ha⟩
      · rw [ha] at hb; cases hb
      · rw [ha] at hb; cases hb; exact absurd rfl (hnt c e)
    · exact hb
  refine hc.transfer (set_fresh _ _ _ hc.fresh) rfl ?_ ?_ ?_
  · intro b hb
    obtain ⟨i, hi⟩ := hc.open_ b hb
    have := upvalueSlot_eq_some.mp hi
    show (s.heap.set a (.table cap es)).get b = _
    rw [hne b _ this (fun _ _ h => by cases h), this]
  · rintro b ⟨loc, hl⟩
    exact ⟨loc, hne b _ hl (fun _ _ h => by cases h)⟩
  · intro c hd ar ups hg
    left
    change (s.heap.set a (.table cap es)).get c = _ at hg
    rw [get_set] at hg
    split at hg
    · next hca =>
      subst hca
      rcases ha with ha | ⟨c', e, ha⟩
      · rw [ha] at hg; cases hg
      · rw [ha] at hg; cases hg
    · exact hg

/-- appending an upvalue to the list of a closure -/
theorem set_closure_core {s : VmState} (hc : UpCore s) (c : Nat) (hd ar : UInt32) (ups : List Nat) (u : Nat)
    (hcl : s.heap.get c = none ∨ s.heap.get c = some (.closure hd ar ups)) (hu : IsUp s.heap u) :
    UpCore { s with heap := s.heap.set c (.closure hd ar (ups ++ [u])) } := by
  have hne : ∀ b loc, s.heap.get b = some (.upvalue loc) →
      (s.heap.set c (.closure hd ar (ups ++ [u]))).get b = some (.upvalue loc) := by
    intro b loc hb
    rw [get_set]
    split
    · next hbc =>
      subst hbc
      rcases hcl with h1 | h1 <;> rw [h1] at hb <;> cases hb
    · exact hb
  have hisup : ∀ b, IsUp s.heap b → IsUp (s.heap.set c (.closure hd ar (ups ++ [u]))) b :=
    fun b ⟨loc, hl⟩ => ⟨loc, hne b loc hl⟩
  refine hc.transfer (set_fresh _ _ _ hc.fresh) rfl ?_ hisup ?_
  · intro b hb
    obtain ⟨i, hi⟩ := hc.open_ b hb
    have := upvalueSlot_eq_some.mp hi
    show (s.heap.set c _).get b = _
    rw [hne b _ this, this]
  · intro c' hd' ar' ups' hg
    change (s.heap.set c _).get c' = _ at hg
    rw [get_set] at hg
    split at hg
    · next hcc =>
      subst hcc
      rcases hcl with h1 | h1
      · rw [h1] at hg; cases hg
      · rw [h1] at hg
        simp only [Option.map_some, Option.some.injEq, Obj.closure.injEq] at hg
        obtain ⟨rfl, rfl, rfl⟩ := hg
        right
        intro x hx
        rcases List.mem_append.mp hx with hx | hx
        · exact hisup x (hc.closures _ _ _ _ h1 x hx)
        · rw [List.mem_singleton] at hx; subst hx; exact hisup _ hu
    · exact Or.inl hg

/-- writing a closed upvalue -/
theorem set_closed_core {s : VmState} (hc : UpCore s) (u : Nat) (v w : Val)
    (hu : s.heap.get u = some (.upvalue (.closed w))) :
    UpCore { s with heap := s.heap.set u (.upvalue (.closed v)) } := by
  refine hc.transfer (set_fresh _ _ _ hc.fresh) rfl ?_ ?_ ?_
  · intro b hb
    obtain ⟨i, hi⟩ := hc.open_ b hb
    have := upvalueSlot_eq_some.mp hi
    show (s.heap.set u _).get b = _
    rw [get_set_ne]
    intro hbu; subst hbu; rw [hu] at this; cases this
  · rintro b ⟨loc, hl⟩
    show IsUp (s.heap.set u _) b
    by_cases hbu : b = u
    · subst hbu; exact ⟨_, get_set_self _ _ _ _ hu⟩
    · exact ⟨loc, by rw [get_set_ne _ _ _ _ hbu]; exact hl⟩
  · intro c hd ar ups hg
    left
    change (s.heap.set u _).get c = _ at hg
    rw [get_set] at hg
    split at hg
    · next hcu => subst hcu; rw [hu] at hg; cases hg
    · exact hg

/-! ## the collector and the allocator -/

theorem mem_rootAddrs_open {s : VmState} {a : Nat} (ha : a ∈ s.openUpvalues) : a ∈ rootAddrs s := by
  unfold rootAddrs
  rw [mem_addrs]
  unfold roots
  simp only [List.mem_append, List.mem_map]
  exact Or.inl (Or.inr ⟨a, ha, rfl⟩)

theorem mem_rootAddrs_stack {s : VmState} {a : Nat} (ha : Val.obj a ∈ s.stack.contents) : a ∈ rootAddrs s := by
  unfold rootAddrs
  rw [mem_addrs]
  unfold roots
  simp only [List.mem_append]
  exact Or.inl (Or.inl (Or.inl (Or.inl ha)))

theorem gc_core {s : VmState} (hc : UpCore s) : UpCore (gc s) := by
  have hkeep : ∀ a ∈ s.openUpvalues, (gc s).heap.get a = s.heap.get a :=
    fun a ha => gc_preserves_reachable s a (Reach.root (mem_rootAddrs_open ha))
  constructor
  · exact gc_fresh s hc.fresh
  · intro a ha
    rw [upvalueSlot_congr (hkeep a ha)]
    exact hc.open_ a ha
  · show s.openUpvalues.Pairwise (SlotGt (gc s).heap)
    refine List.Pairwise.imp_of_mem ?_ hc.sorted
    intro x y hx hy hxy i j hi hj
    rw [upvalueSlot_congr (hkeep x hx)] at hi
    rw [upvalueSlot_congr (hkeep y hy)] at hj
    exact hxy i j hi hj
  · intro c hd ar ups hg u hu
    obtain ⟨hg', hr⟩ := (gc_exact_get s c _).mp hg
    have hru : Reach s.heap (rootAddrs s) u :=
      Reach.step hr hg' (by simp only [Heap.children, List.mem_map]; exact ⟨u, hu, rfl⟩)
    obtain ⟨loc, hl⟩ := hc.closures c hd ar ups hg' u hu
    exact ⟨loc, by rw [gc_preserves_reachable s u hru]; exact hl⟩

/-- what an allocation may do to the machine: a collection (objects disappear, roots stay) -/
structure AllocRel (s s1 : VmState) : Prop where
  stack_eq : s1.stack = s.stack
  frames_eq : s1.frames = s.frames
  open_eq : s1.openUpvalues = s.openUpvalues
  guards_eq : s1.guards = s.guards
  next_eq : s1.heap.next = s.heap.next
  get_sub : ∀ a, s1.heap.get a = s.heap.get a ∨ s1.heap.get a = none
  root_keep : ∀ a ∈ rootAddrs s, s1.heap.get a = s.heap.get a

theorem allocRel_gc (s : VmState) : AllocRel s (gc s) where
  stack_eq := rfl
  frames_eq := rfl
  open_eq := rfl
  guards_eq := rfl
  next_eq := rfl
  get_sub a := by rw [gc_get]; split <;> simp
  root_keep a ha := gc_preserves_reachable s a (Reach.root ha)

theorem allocRel_of_eq {s s1 : VmState} (h1 : s1.stack = s.stack) (h2 : s1.frames = s.frames)
    (h3 : s1.openUpvalues = s.openUpvalues) (h4 : s1.guards = s.guards) (h5 : s1.heap = s.heap) :
    AllocRel s s1 :=
  ⟨h1, h2, h3, h4, by rw [h5], fun a => Or.inl (by rw [h5]), fun a _ => by rw [h5]⟩

theorem allocCollected_rel (c : Nat) (s : VmState) : AllocRel s (allocCollected c s) := by
  unfold allocCollected
  split
  · have h := allocRel_gc (allocCharged c s)
    exact ⟨h.stack_eq, h.frames_eq, h.open_eq, h.guards_eq, h.next_eq, h.get_sub, h.root_keep⟩
  · exact allocRel_of_eq rfl rfl rfl rfl rfl

theorem allocCollected_core (c : Nat) {s : VmState} (hc : UpCore s) : UpCore (allocCollected c s) := by
  have h0 : UpCore (allocCharged c s) := UpCore.congr (s := s) rfl rfl hc
  unfold allocCollected
  split
  · exact UpCore.congr (s := gc (allocCharged c s)) rfl rfl (gc_core h0)
  · exact h0

theorem allocPure_core (c : Nat) {s : VmState} (hc : UpCore s) : UpCore (allocPure c s).2 := by
  unfold allocPure
  simp only
  split
  · exact UpCore.congr (s := allocCollected c s) rfl rfl (allocCollected_core c hc)
  · exact allocCollected_core c hc

theorem allocPure_rel (c : Nat) (s : VmState) : AllocRel s (allocPure c s).2 := by
  have h := allocCollected_rel c s
  unfold allocPure
  simp only
  split
  · exact ⟨h.stack_eq, h.frames_eq, h.open_eq, h.guards_eq, h.next_eq, h.get_sub, h.root_keep⟩
  · exact h

theorem go_allocBytes (c : Nat) (s : VmState) : (allocBytes c).go s = allocPure c s := allocBytes_run c s
theorem go_initSimple (o : Obj) (s : VmState) : (initSimple o).go s = alloc1Pure Heap.objCharge o s :=
  initSimple_run o s
theorem go_tableInsert (a : Nat) (k v : Val) (s : VmState) :
    (tableInsert a k v).go s = tableInsertPure a k v s := tableInsert_run a k v s
theorem go_newObject (o : Obj) (s : VmState) : (newObject o).go s = (.ok s.heap.next, withObject o s) := rfl

theorem tableInsertPure_core (a : Nat) (k v : Val) {s : VmState} (hc : UpCore s) :
    UpCore (tableInsertPure a k v s).2 := by
  unfold tableInsertPure
  split
  · next cap es hg =>
    simp only
    split
    · exact set_table_core hc a _ _ (Or.inr ⟨_, _, hg⟩)
    · split
      · have hrel := allocPure_rel (Heap.tableCharge (HMap.growCap cap)) s
        have hcore := allocPure_core (Heap.tableCharge (HMap.growCap cap)) hc
        split
        · next e s1 heq => rw [heq] at hcore; exact hcore
        · next s1 heq =>
          rw [heq] at hcore hrel
          have h2 : UpCore (refund (Heap.tableCharge cap) s1) := UpCore.congr (s := s1) rfl rfl hcore
          refine set_table_core h2 a _ _ ?_
          show s1.heap.get a = none ∨ _
          rcases hrel.get_sub a with h3 | h3
          · exact Or.inr ⟨_, _, h3.trans hg⟩
          · exact Or.inl h3
      · exact set_table_core hc a _ _ (Or.inr ⟨_, _, hg⟩)
  · exact hc

/-! ## the `Pres` logic for `UpCore` -/

/-- the relation "`UpCore` is kept" -/
def CoreR (s s' : VmState) : Prop := UpCore s → UpCore s'

instance : StateOrder CoreR where
  refl _ h := h
  trans h1 h2 h := h2 (h1 h)

theorem coreR_same {s s' : VmState} (hh : s'.heap = s.heap) (ho : s'.openUpvalues = s.openUpvalues) :
    CoreR s s' := fun hc => hc.congr hh ho

macro_rules | `(tactic| pres_side) => `(tactic| exact coreR_same rfl rfl)

section coreprims

theorem corePres_push (v : Val) : Pres CoreR (push v) := by unfold push; pres_auto
theorem corePres_pop : Pres CoreR pop := by unfold pop; pres_auto
theorem corePres_peek (n : Nat) : Pres CoreR (peek n) := by unfold peek; pres_auto
theorem corePres_popN (n : Nat) : Pres CoreR (popN n) := by unfold popN; pres_auto
theorem corePres_curFrame : Pres CoreR curFrame := by unfold curFrame; pres_auto
theorem corePres_writeLocal (a b : Nat) (v : Val) : Pres CoreR (writeLocal a b v) := by
  unfold writeLocal; pres_auto
theorem corePres_readLocal (a b : Nat) : Pres CoreR (readLocal a b) := by unfold readLocal; pres_auto
theorem corePres_keyOf (v : Val) : Pres CoreR (keyOf v) := by unfold keyOf; pres_auto
theorem corePres_getTable (v : Val) : Pres CoreR (getTable v) := by unfold getTable; pres_auto
theorem corePres_tableGet (es : List (Val × Val)) (k : Val) : Pres CoreR (tableGet es k) := by
  unfold tableGet; pres_auto
theorem corePres_deallocBytes (c : Nat) : Pres CoreR (deallocBytes c) := by unfold deallocBytes; pres_auto
theorem corePres_dropGuard (a : Nat) : Pres CoreR (dropGuard a) := by unfold dropGuard; pres_auto
theorem corePres_readUpvalueLoc (a : Nat) : Pres CoreR (readUpvalueLoc a) := by
  unfold readUpvalueLoc; pres_auto
theorem corePres_guardVal (v : Val) : Pres CoreR (guardVal v) := by
  unfold guardVal
  split
  · pres_auto
  · exact pres_pure _
theorem corePres_unguardVal (v : Val) : Pres CoreR (unguardVal v) := by
  unfold unguardVal
  split
  · exact corePres_dropGuard _
  · exact pres_pure _

macro_rules | `(tactic| pres_prim) => `(tactic| with_reducible first
  | exact corePres_push _ | exact corePres_pop | exact corePres_peek _ | exact corePres_popN _
  | exact corePres_curFrame | exact corePres_writeLocal _ _ _ | exact corePres_readLocal _ _
  | exact corePres_keyOf _ | exact corePres_getTable _ | exact corePres_tableGet _ _
  | exact corePres_deallocBytes _ | exact corePres_dropGuard _ | exact corePres_readUpvalueLoc _
  | exact corePres_guardVal _ | exact corePres_unguardVal _)

theorem corePres_guardRows (es : List (Val × Val)) : Pres CoreR (guardRows es) := by
  unfold guardRows; pres_auto
theorem corePres_unguardRows (es : List (Val × Val)) : Pres CoreR (unguardRows es) := by
  unfold unguardRows; pres_auto
macro_rules | `(tactic| pres_prim) => `(tactic| with_reducible first
  | exact corePres_guardRows _ | exact corePres_unguardRows _)

theorem corePres_nativeConv (name : String) : Pres CoreR (nativeConv name) := by
  unfold nativeConv; pres_auto

theorem corePres_allocBytes (c : Nat) : Pres CoreR (allocBytes c) :=
  Pres.intro (fun s hc => by rw [go_allocBytes]; exact allocPure_core c hc)

theorem corePres_newObject (o : Obj) (ho : noUps o = true) : Pres CoreR (newObject o) :=
  Pres.intro (fun s hc => withObject_core hc o ho)

theorem corePres_tableInsert (a : Nat) (k v : Val) : Pres CoreR (tableInsert a k v) :=
  Pres.intro (fun s hc => by rw [go_tableInsert]; exact tableInsertPure_core a k v hc)

theorem corePres_closeUpvalues (top : Nat) : Pres CoreR (closeUpvalues top) :=
  Pres.intro (fun s hc => by rw [go_closeUpvalues]; exact closeState_core hc top)

theorem corePres_writeUpvalueLoc (u : Nat) (v : Val) : Pres CoreR (writeUpvalueLoc u v) := by
  refine Pres.intro (fun s hc => ?_)
  unfold writeUpvalueLoc
  simp only [go_bind, go_get]
  split
  · exact UpCore.congr (s := s) rfl rfl hc
  · next w hg => exact set_closed_core hc u v w hg
  · exact hc

end coreprims

macro_rules | `(tactic| pres_prim) => `(tactic| with_reducible first
  | exact corePres_nativeConv _ | exact corePres_allocBytes _ | exact corePres_newObject _ rfl
  | exact corePres_tableInsert _ _ _ | exact corePres_closeUpvalues _ | exact corePres_writeUpvalueLoc _ _)

theorem corePres_initTable : Pres CoreR initTable := by unfold initTable; pres_auto
theorem corePres_initString (b : List UInt8) : Pres CoreR (initString b) := by unfold initString; pres_auto
theorem corePres_initSimple (o : Obj) (ho : noUps o = true) : Pres CoreR (initSimple o) := by
  unfold initSimple
  exact pres_bind (corePres_allocBytes _) (fun _ => corePres_newObject o ho)

macro_rules | `(tactic| pres_prim) => `(tactic| with_reducible first
  | exact corePres_initTable | exact corePres_initString _ | exact corePres_initSimple _ rfl)

/-! ## the upvalue instructions as stand-alone computations -/

namespace Instr

/-- `Closure handle arity` -/
def closure (hd ar : UInt32) (ip : Nat) : M Ctl := do
  let a ← initSimple (.closure hd ar [])
  push (.obj a)
  dropGuard a
  return { ip := ip + 8 }

/-- `SetUpvalue index` -/
def setUpvalue (index ip : Nat) : M Ctl := do
  let v ← pop
  match (← curFrame).closure with
  | none => throwE .notClosure
  | some c =>
    match (← get).heap.get c with
    | some (.closure _ _ ups) =>
      match ups[index]? with
      | some u => writeUpvalueLoc u v
      | none => throwE .invalidUpvalue
    | _ => throwE .notClosure
  return { ip := ip + 4 }

/-- `ReadUpvalue index` -/
def readUpvalue (index ip : Nat) : M Ctl := do
  match (← curFrame).closure with
  | none => throwE .notClosure
  | some c =>
    match (← get).heap.get c with
    | some (.closure _ _ ups) =>
      match ups[index]? with
      | some u => push (← readUpvalueLoc u)
      | none => throwE .invalidUpvalue
    | _ => throwE .notClosure
  return { ip := ip + 4 }

/-- `RegisterUpvalue index isLocal` -/
@[reducible] def registerUpvalue (index : Nat) (isLocal : Bool) (ip : Nat) : M Ctl := do
  let cv ← pop
  match cv with
  | .obj c =>
    match (← get).heap.get c with
    | some (.closure hd ar ups) =>
      if isLocal then
        let off := (← curFrame).stackOffset
        let slot := off + index
        -- (repaired) the slot of the variable is gone: an error, not an out-of-bounds panic
        if slot ≥ (← get).stack.count then throwE .invalidArgument
        let s ← get
        match s.openUpvalues.find? (fun a => upvalueSlot s.heap a == some slot) with
        | some u =>
          modify fun s => { s with heap := s.heap.set c (.closure hd ar (ups ++ [u])) }
        | none =>
          let u ← initSimple (.upvalue (.stack slot))
          modify fun s =>
            let (hi, lo) := s.openUpvalues.partition (fun a => match upvalueSlot s.heap a with
              | some i => i > slot | none => true)
            { s with openUpvalues := hi ++ [u] ++ lo,
                     heap := s.heap.set c (.closure hd ar (ups ++ [u])) }
          dropGuard u
      else
        match (← curFrame).closure with
        | none => throwE (.panic "closure not found for capture")
        | some outer =>
          match (← get).heap.get outer with
          | some (.closure _ _ oups) =>
            match oups[index]? with
            | some u => modify fun s => { s with heap := s.heap.set c (.closure hd ar (ups ++ [u])) }
            | none => throwE (.panic "upvalue index out of bounds")
          | _ => throwE (.panic "closure not found for capture")
      return { ip := ip + 2 }
    | _ => throwE .invalidArgument
  | _ => throwE .invalidArgument

/-- `CloseUpvalue` -/
def closeUpvalue (ip : Nat) : M Ctl := do
  let s ← get
  if s.stack.count == 0 then throwE .invalidArgument
  closeUpvalues (s.stack.count - 1)
  -- (repaired) the instruction stands in for the `Pop` of a captured local: the slot goes
  let _ ← Vm.pop
  return { ip }

/-- `Return` -/
def ret : M Ctl := do
  let s ← get
  match s.frames.getLast? with
  | none => throwE .badReturn
  | some fr =>
    set { s with frames := s.frames.dropLast }
    closeUpvalues fr.stackOffset
    let s ← get
    let (st, v) := s.stack.clearUntil fr.stackOffset
    set { s with stack := st }
    match (← get).frames.getLast? with
    | none => throwE .badReturn
    | some caller =>
      push v
      return { ip := caller.dst }

/-- `Pop` -/
def pop (ip : Nat) : M Ctl := do
  let _ ← Vm.pop
  return { ip }

/-- `ReadLocalVar handle` -/
def readLocalVar (handle ip : Nat) : M Ctl := do
  let off := (← curFrame).stackOffset
  push (← readLocal off handle)
  return { ip := ip + 4 }

/-- `SetLocalVar handle` -/
def setLocalVar (handle ip : Nat) : M Ctl := do
  let off := (← curFrame).stackOffset
  let s ← get
  let (st, v) := s.stack.popWOffset off
  set { s with stack := st }
  writeLocal off handle v
  return { ip := ip + 4 }

end Instr

section stepEq
variable (p : Prog) (re : Reenter) (src : Nat)

theorem step_closure (h : p.bytecode.getD src 0 = Compiler.op.closure) :
    step p re src = Instr.closure (UInt32.ofNat (rdU32 p.bytecode (src + 1)))
      (UInt32.ofNat (rdU32 p.bytecode (src + 1 + 4))) (src + 1) := by
  unfold step; dsimp only; rw [h]; rfl

theorem step_setUpvalue (h : p.bytecode.getD src 0 = Compiler.op.setUpvalue) :
    step p re src = Instr.setUpvalue (rdU32 p.bytecode (src + 1)) (src + 1) := by
  unfold step; dsimp only; rw [h]; rfl

theorem step_readUpvalue (h : p.bytecode.getD src 0 = Compiler.op.readUpvalue) :
    step p re src = Instr.readUpvalue (rdU32 p.bytecode (src + 1)) (src + 1) := by
  unfold step; dsimp only; rw [h]; rfl

theorem step_registerUpvalue (h : p.bytecode.getD src 0 = Compiler.op.registerUpvalue) :
    step p re src = Instr.registerUpvalue (p.bytecode.getD (src + 1) 0).toNat
      (p.bytecode.getD (src + 1 + 1) 0 != 0) (src + 1) := by
  unfold step; dsimp only; rw [h]; rfl

theorem step_closeUpvalue (h : p.bytecode.getD src 0 = Compiler.op.closeUpvalue) :
    step p re src = Instr.closeUpvalue (src + 1) := by
  unfold step; dsimp only; rw [h]; rfl

theorem step_ret (h : p.bytecode.getD src 0 = Compiler.op.ret) : step p re src = Instr.ret := by
  unfold step; dsimp only; rw [h]; rfl

theorem step_pop (h : p.bytecode.getD src 0 = Compiler.op.pop) : step p re src = Instr.pop (src + 1) := by
  unfold step; dsimp only; rw [h]; rfl

theorem step_readLocalVar (h : p.bytecode.getD src 0 = Compiler.op.readLocalVar) :
    step p re src = Instr.readLocalVar (rdU32 p.bytecode (src + 1)) (src + 1) := by
  unfold step; dsimp only; rw [h]; rfl

theorem step_setLocalVar (h : p.bytecode.getD src 0 = Compiler.op.setLocalVar) :
    step p re src = Instr.setLocalVar (rdU32 p.bytecode (src + 1)) (src + 1) := by
  unfold step; dsimp only; rw [h]; rfl

end stepEq

/-! ## `RegisterUpvalue` keeps `UpCore` -/

theorem go_curFrame (s : VmState) : curFrame.go s = match s.frames.getLast? with
    | some f => (.ok f, s)
    | none => (.error (.panic "call stack is empty"), s) := by
  unfold curFrame
  simp only [go_bind, go_get]
  cases s.frames.getLast? <;> rfl

theorem curFrame_ro (s : VmState) : (curFrame.go s).2 = s := by
  rw [go_curFrame]; split <;> rfl

/-- a computation that does not change the state in front of a continuation -/
theorem presAt_ro_bind {R : VmState → VmState → Prop} [StateOrder R] {α β : Type} {m : M α}
    {f : α → M β} {s : VmState} (hro : (m.go s).2 = s) (hf : ∀ a, PresAt R (f a) s) :
    PresAt R (m >>= f) s := by
  refine presAt_bind' ⟨by rw [hro]; exact StateOrder.refl s⟩ (fun a s' h => ?_)
  have : s' = s := by rw [h] at hro; exact hro
  subst this
  exact hf a

/-- the partition `RegisterUpvalue` uses to keep the list sorted -/
def splitAt (h : Heap) (slot : Nat) (l : List Nat) : List Nat × List Nat :=
  l.partition (fun a => match upvalueSlot h a with | some i => decide (i > slot) | none => true)

theorem insert_core {s : VmState} (hc : UpCore s) {u slot : Nat} (hu : upvalueSlot s.heap u = some slot)
    (hnone : ∀ a ∈ s.openUpvalues, upvalueSlot s.heap a ≠ some slot) :
    UpCore { s with openUpvalues := (splitAt s.heap slot s.openUpvalues).1 ++ [u] ++
      (splitAt s.heap slot s.openUpvalues).2 } := by
  unfold splitAt
  simp only [List.partition_eq_filter_filter]
  constructor
  · exact hc.fresh
  · intro a ha
    simp only [List.mem_append, List.mem_filter, List.mem_singleton] at ha
    rcases ha with (⟨ha, _⟩ | rfl) | ⟨ha, _⟩
    · exact hc.open_ a ha
    · exact ⟨slot, hu⟩
    · exact hc.open_ a ha
  · show List.Pairwise (SlotGt s.heap) _
    rw [List.pairwise_append, List.pairwise_append]
    refine ⟨⟨hc.sorted.sublist List.filter_sublist, List.pairwise_singleton _ _, ?_⟩,
      hc.sorted.sublist List.filter_sublist, ?_⟩
    · intro a ha b hb i j hi hj
      rw [List.mem_singleton] at hb; subst hb
      rw [hu] at hj; cases hj
      have := (List.mem_filter.mp ha).2
      simp only [hi, gt_iff_lt, decide_eq_true_eq] at this
      exact this
    · intro a ha b hb i j hi hj
      have hb2 : j ≤ slot := by
        have := (List.mem_filter.mp hb).2
        simpa [hj] using this
      have hjne : j ≠ slot := fun h => hnone b (List.mem_filter.mp hb).1 (h ▸ hj)
      rcases List.mem_append.mp ha with ha | ha
      · have := (List.mem_filter.mp ha).2
        simp only [hi, gt_iff_lt, decide_eq_true_eq] at this
        omega
      · rw [List.mem_singleton] at ha; subst ha
        rw [hu] at hi; cases hi
        omega
  · exact hc.closures

theorem alloc1Pure_ok {c1 : Nat} {o : Obj} {s s1 : VmState} {u : Nat}
    (h : alloc1Pure c1 o s = (.ok u, s1)) :
    ∃ s0, AllocRel s s0 ∧ (UpCore s → UpCore s0) ∧ u = s0.heap.next ∧ s1 = withObject o s0 := by
  unfold alloc1Pure at h
  have hrel := allocPure_rel c1 s
  have hcore := fun hc => allocPure_core c1 (s := s) hc
  generalize allocPure c1 s = q at h hrel hcore
  rcases q with ⟨r, s0⟩
  cases r with
  | error e => cases h
  | ok x =>
    simp only [Prod.mk.injEq, Except.ok.injEq] at h
    exact ⟨s0, hrel, hcore, h.1.symm, h.2.symm⟩

theorem go_dropGuard (a : Nat) (s : VmState) :
    (dropGuard a).go s = (.ok ⟨⟩, { s with guards := s.guards.erase a }) := rfl

/-- the state after a successful fresh capture of `slot` for the closure `c`, from the state `s0`
    the allocator left -/
def captured (s0 : VmState) (c : Nat) (hd ar : UInt32) (ups : List Nat) (slot : Nat) : VmState :=
  let s1 := withObject (.upvalue (.stack slot)) s0
  let u := s0.heap.next
  { s1 with openUpvalues := (splitAt s1.heap slot s1.openUpvalues).1 ++ [u] ++ (splitAt s1.heap slot s1.openUpvalues).2,
            heap := s1.heap.set c (.closure hd ar (ups ++ [u])),
            guards := s1.guards.erase u }

theorem captured_core {s s0 : VmState} (hc : UpCore s) (hrel : AllocRel s s0) (hc0 : UpCore s0)
    {c : Nat} {hd ar : UInt32} {ups : List Nat} {slot : Nat}
    (hg : s.heap.get c = some (.closure hd ar ups))
    (hnone : ∀ a ∈ s.openUpvalues, upvalueSlot s.heap a ≠ some slot) :
    UpCore (captured s0 c hd ar ups slot) := by
  have hc1 : UpCore (withObject (.upvalue (.stack slot)) s0) := withObject_core hc0 _ rfl
  have hu : (withObject (.upvalue (.stack slot)) s0).heap.get s0.heap.next = some (.upvalue (.stack slot)) := by
    rw [withObject_heap, get_add _ _ _ hc0.fresh, if_pos rfl]
  have hnone1 : ∀ a ∈ (withObject (.upvalue (.stack slot)) s0).openUpvalues,
      upvalueSlot (withObject (.upvalue (.stack slot)) s0).heap a ≠ some slot := by
    intro a ha
    have ha' : a ∈ s.openUpvalues := by
      have : (withObject (.upvalue (.stack slot)) s0).openUpvalues = s0.openUpvalues := rfl
      rw [this, hrel.open_eq] at ha; exact ha
    obtain ⟨i, hi⟩ := hc.open_ a ha'
    have h1 := upvalueSlot_eq_some.mp hi
    have h2 : s0.heap.get a = some (.upvalue (.stack i)) := by
      rw [hrel.root_keep a (mem_rootAddrs_open ha')]; exact h1
    rw [upvalueSlot_eq_some.mpr (by rw [withObject_heap]; exact get_add_of_some hc0.fresh _ h2)]
    rw [← hi]; exact hnone a ha'
  have h2 := insert_core hc1 (upvalueSlot_eq_some.mpr hu) hnone1
  have hcne : c ≠ s0.heap.next := by
    have := get_lt_next hc.fresh hg
    rw [← hrel.next_eq] at this
    exact Nat.ne_of_lt this
  have hgc : (withObject (.upvalue (.stack slot)) s0).heap.get c = none ∨
      (withObject (.upvalue (.stack slot)) s0).heap.get c = some (.closure hd ar ups) := by
    rw [withObject_heap, get_add _ _ _ hc0.fresh, if_neg hcne]
    rcases hrel.get_sub c with h3 | h3
    · exact Or.inr (h3.trans hg)
    · exact Or.inl h3
  have h3 := set_closure_core h2 c hd ar ups s0.heap.next hgc ⟨_, hu⟩
  exact ⟨h3.fresh, h3.open_, h3.sorted, h3.closures⟩

theorem corePres_registerUpvalue (index : Nat) (isLocal : Bool) (ip : Nat) :
    Pres CoreR (Instr.registerUpvalue index isLocal ip) := by
  refine pres_bind corePres_pop (fun cv => ?_)
  cases cv with
  | obj c =>
    refine pres_get_bind (fun s => ?_)
    split
    · next hd ar ups hg =>
      dsimp only
      split
      · -- a variable of the running function
        refine presAt_ro_bind (curFrame_ro s) (fun fr => ?_)
        refine presAt_get_bind ?_
        split
        · exact presAt_throwE_bind
        · refine presAt_get_bind ?_
          split
          · next u hfind =>
            refine presAt_bind (presAt_modify ?_) (fun _ => pres_pure _)
            intro hc
            exact set_closure_core hc c hd ar ups u (Or.inr hg)
              (isUp_of_slot (i := fr.stackOffset + index) (by simpa using List.find?_some hfind))
          · next hfind =>
            constructor
            intro hc
            simp only [go_bind, go_initSimple]
            have hcore1 := (corePres_initSimple (.upvalue (.stack (fr.stackOffset + index))) rfl).rel s hc
            rw [go_initSimple] at hcore1
            rcases hal : alloc1Pure Heap.objCharge (.upvalue (.stack (fr.stackOffset + index))) s with ⟨r, s1⟩
            rw [hal] at hcore1
            cases r with
            | error e => exact hcore1
            | ok u =>
              obtain ⟨s0, hrel, hc0, rfl, rfl⟩ := alloc1Pure_ok hal
              simp only [go_modify, go_dropGuard, go_pure]
              refine captured_core hc hrel (hc0 hc) hg ?_
              intro a ha hs
              rw [List.find?_eq_none] at hfind
              exact hfind a ha (by simp [hs])
      · -- a variable the running closure has captured itself
        refine presAt_ro_bind (curFrame_ro s) (fun fr => ?_)
        split
        · exact presAt_throwE_bind
        · next outer _ =>
          refine presAt_get_bind ?_
          split
          · next oups hgo =>
            split
            · next u hu =>
              refine presAt_bind (presAt_modify ?_) (fun _ => pres_pure _)
              intro hc
              exact set_closure_core hc c hd ar ups u (Or.inr hg)
                (hc.closures outer _ _ oups hgo u (List.mem_of_getElem? hu))
            · exact presAt_throwE_bind
          · exact presAt_throwE_bind
    · exact presAt_throwE _ _
  | _ => exact pres_throwE _


/-! ## every instruction keeps `UpCore` -/

/-- `getTable` in front of a continuation: the continuation may use that the address holds a table -/
theorem corePres_getTable_bind {β : Type} (v : Val) {f : Nat × Nat × List (Val × Val) → M β}
    (hf : ∀ a cap es s, s.heap.get a = some (.table cap es) → PresAt CoreR (f (a, cap, es)) s) :
    Pres CoreR (getTable v >>= f) := by
  refine ⟨fun s => presAt_bind' (pres_at (corePres_getTable v)) (fun r s' h => ?_)⟩
  cases v with
  | obj a =>
    have h1 : (getTable (.obj a)).go s = _ := getTable_run a s
    rw [h1] at h
    split at h
    · next cap es hg =>
      simp only [Prod.mk.injEq, Except.ok.injEq] at h
      obtain ⟨rfl, rfl⟩ := h
      exact hf a cap es s hg
    · cases h
  | _ => cases h

theorem coreR_set_table {s : VmState} {a cap cap' : Nat} {es es' : List (Val × Val)}
    (h : s.heap.get a = some (.table cap es)) :
    CoreR s { s with heap := s.heap.set a (.table cap' es') } :=
  fun hc => set_table_core hc a cap' es' (Or.inr ⟨_, _, h⟩)

macro_rules | `(tactic| pres_side) => `(tactic| exact coreR_set_table (by assumption))
macro_rules
  | `(tactic| pres_prim) => `(tactic| with_reducible (apply corePres_getTable_bind; intro _ _ _ _ _))

theorem corePres_callNativeBody (reenter : Reenter) (hre : ∀ f, Pres CoreR (reenter f)) (name : String) :
    Pres CoreR (callNativeBody reenter name) := by
  unfold callNativeBody
  pres_auto
macro_rules
  | `(tactic| pres_prim) => `(tactic| with_reducible exact corePres_callNativeBody _ (by assumption) _)

theorem corePres_callNative (reenter : Reenter) (hre : ∀ f, Pres CoreR (reenter f)) (h : UInt32) :
    Pres CoreR (callNative reenter h) := by
  unfold callNative
  pres_auto
macro_rules
  | `(tactic| pres_prim) => `(tactic| with_reducible exact corePres_callNative _ (by assumption) _)

theorem corePres_callScript (p : Prog) (src ip : Nat) (l : UInt32) (ar : Nat) (c : Option Nat) :
    Pres CoreR (step.callScript p src ip l ar c) := by
  unfold step.callScript
  pres_auto
macro_rules
  | `(tactic| pres_prim) => `(tactic| with_reducible exact corePres_callScript _ _ _ _ _ _)

/-- **every instruction keeps `UpCore`** (as soon as the re-entry callback does) -/
theorem corePres_step (p : Prog) (reenter : Reenter) (hre : ∀ f, Pres CoreR (reenter f)) (src : Nat) :
    Pres CoreR (step p reenter src) := by
  by_cases h : p.bytecode.getD src 0 = Compiler.op.registerUpvalue
  · rw [step_registerUpvalue p reenter src h]; exact corePres_registerUpvalue _ _ _
  · have hf : (p.bytecode.getD src 0 == Compiler.op.registerUpvalue) = false := by simpa using h
    unfold step
    dsimp only
    rw [hf]
    simp only [Bool.false_eq_true, if_false]
    pres_auto

/-! ## every run keeps `UpCore` -/

theorem enterScript_core (p : Prog) (gas : Nat)
    (ih : ∀ t s, CoreR s (exec p gas t s).1) (s : VmState) (l : UInt32) (ar : Nat) (c : Option Nat) :
    CoreR s (enterScript p gas s l ar c).1 := by
  unfold enterScript
  split
  · exact StateOrder.refl s
  · dsimp only
    split
    · exact StateOrder.refl s
    split
    · exact StateOrder.refl s
    split
    · exact coreR_same rfl rfl
    next pos _ _ _ _ =>
    have h := ih (.loop pos) { s with frames := s.frames ++ [⟨pos, p.bytecode.size - 1, s.stack.count - ar, c⟩, ⟨pos, p.bytecode.size - 1, s.stack.count - ar, c⟩] }
    have h0 : CoreR s { s with frames := s.frames ++ [⟨pos, p.bytecode.size - 1, s.stack.count - ar, c⟩, ⟨pos, p.bytecode.size - 1, s.stack.count - ar, c⟩] } :=
      coreR_same rfl rfl
    split
    · next s' _ heq =>
      rw [heq] at h
      exact StateOrder.trans h0 (StateOrder.trans h (coreR_same rfl rfl))
    · next s' _ heq =>
      rw [heq] at h
      exact StateOrder.trans h0 (StateOrder.trans h (coreR_same rfl rfl))

/-- **every run of the dispatch loop / of `run_function` keeps `UpCore`** -/
theorem exec_core (p : Prog) : ∀ (gas : Nat) (t : Task) (s : VmState), CoreR s (exec p gas t s).1 := by
  intro gas
  induction gas with
  | zero => intro t s; rw [exec_zero]; exact StateOrder.refl s
  | succ gas ih =>
    intro t s
    have hre : ∀ f, Pres CoreR (reenterOf p gas f) := fun f => pres_liftRun (fun s => ih (.call f) s)
    cases t with
    | loop ip =>
      rw [exec_loop]
      split
      · exact StateOrder.refl s
      split
      · exact coreR_same rfl rfl
      next _ hrem =>
      have h1 : CoreR s s.tick := coreR_same rfl rfl
      have h2 := (corePres_step p _ hre ip).rel s.tick
      split
      · next e s' heq => rw [heq] at h2; exact StateOrder.trans h1 h2
      · next ctl s' heq =>
        rw [heq] at h2
        split
        · exact StateOrder.trans h1 h2
        · exact StateOrder.trans h1 (StateOrder.trans h2 (ih _ _))
    | call f =>
      rw [exec_call]
      split
      · split
        · next h _ =>
          have h2 := (corePres_callNative _ hre h).rel s
          split
          · next s' heq => rw [heq] at h2; exact StateOrder.trans h2 (coreR_same rfl rfl)
          · next e s' heq => rw [heq] at h2; exact h2
        · exact enterScript_core p gas ih s _ _ _
        · exact enterScript_core p gas ih s _ _ _
        · exact StateOrder.refl s
      · exact StateOrder.refl s

/-- `Vm::run` keeps `UpCore` -/
theorem run_core (p : Prog) (n : Nat) (s : VmState) (hc : UpCore s) : UpCore (run p n s).1 := by
  by_cases h : s.frames.length < s.frameCap
  · rw [run_room p n s h]
    have h1 : UpCore (started n s) := UpCore.congr (s := s) rfl rfl hc
    have h2 := exec_core p (gasFor (started n s) n) (.loop 0) (started n s) h1
    exact UpCore.congr (s := (exec p (gasFor (started n s) n) (.loop 0) (started n s)).1) rfl rfl h2
  · rw [run_no_room p n s (Nat.le_of_not_lt h)]; exact hc

theorem empty_core {s : VmState} (hh : s.heap.objs = []) (ho : s.openUpvalues = []) : UpCore s := by
  have hget : ∀ a, s.heap.get a = none := by intro a; unfold Heap.get; rw [hh]; rfl
  refine ⟨?_, ?_, ?_, ?_⟩
  · intro q hq; rw [hh] at hq; cases hq
  · intro a ha; rw [ho] at ha; cases ha
  · rw [ho]; exact List.Pairwise.nil
  · intro c hd ar ups hg; rw [hget] at hg; cases hg

theorem fresh_core (c : Config) : UpCore (VmState.fresh c) := empty_core rfl rfl

theorem fresh_inv (c : Config) : UpInv (VmState.fresh c) :=
  ⟨fresh_core c, fun _ h => absurd h List.not_mem_nil⟩

theorem clear_inv (s : VmState) : UpInv (clear s) :=
  ⟨empty_core rfl rfl, fun _ h => absurd h List.not_mem_nil⟩

end Cao.Upv
