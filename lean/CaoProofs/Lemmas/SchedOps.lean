import CaoProofs.Lemmas.SchedStep
/-!
# Schedule independence: instructions

The simulation for single instructions (`sim_*`), and `StepSimAny` for programs all of whose
bytes are opcodes of the fragment `simpleOps` (one-byte instructions that neither compare deep
values nor move the stack pointer upwards).
-/
namespace Cao.SchedSim
open Cao Cao.Vm Cao.Gc Cao.C02 Cao.C05 Cao.RunInv
set_option linter.unusedVariables false

/-- the post-condition of an instruction -/
abbrev QStep : Ctl → Ctl → VmState → VmState → Prop := fun a b s' t' => b = a ∧ SchedEq s' t'

/-! ## the code of single instructions -/

def codePop (ip : Nat) : M Ctl := do let _ ← pop; return { ip }
def codeScalarNil (ip : Nat) : M Ctl := do push .nil; return { ip }
def codeCopyLast (ip : Nat) : M Ctl := do push (← get).stack.last; return { ip }
def codeExit (ip : Nat) : M Ctl := return { ip, exit := true }
def codeSwapLast (ip : Nat) : M Ctl := do
  let b ← pop
  let a ← pop
  push b; push a
  return { ip }
def codeInitTable (ip : Nat) : M Ctl := do
  let a ← initTable
  push (.obj a)
  dropGuard a
  return { ip }
def codeLen (ip : Nat) : M Ctl := do
  let v ← pop
  let h := (← get).heap
  let n : Nat := match v with
    | .nil => 0
    | .int _ | .real _ => 1
    | .obj a => match h.get a with
      | some (.table _ es) => es.length
      | some (.str b) => b.length
      | _ => 0
  push (.int (Int64.ofNat n))
  return { ip }
def codePopTable (ip : Nat) : M Ctl := do
  let inst ← pop
  let (a, cap, es) ← getTable inst
  match es.getLast? with
  | none => push .nil
  | some (_, v) =>
    modify fun s => { s with heap := s.heap.set a (.table cap es.dropLast) }
    push v
  return { ip }

theorem step_pop (p : Prog) (re : Reenter) (src : Nat) (h : p.bytecode.getD src 0 = 16) :
    step p re src = codePop (src + 1) := by unfold step; simp only [h]; rfl
theorem step_scalarNil (p : Prog) (re : Reenter) (src : Nat) (h : p.bytecode.getD src 0 = 7) :
    step p re src = codeScalarNil (src + 1) := by unfold step; simp only [h]; rfl
theorem step_copyLast (p : Prog) (re : Reenter) (src : Nat) (h : p.bytecode.getD src 0 = 9) :
    step p re src = codeCopyLast (src + 1) := by unfold step; simp only [h]; rfl
theorem step_exit (p : Prog) (re : Reenter) (src : Nat) (h : p.bytecode.getD src 0 = 10) :
    step p re src = codeExit (src + 1) := by unfold step; simp only [h]; rfl
theorem step_swapLast (p : Prog) (re : Reenter) (src : Nat) (h : p.bytecode.getD src 0 = 23) :
    step p re src = codeSwapLast (src + 1) := by unfold step; simp only [h]; rfl
theorem step_initTable (p : Prog) (re : Reenter) (src : Nat) (h : p.bytecode.getD src 0 = 31) :
    step p re src = codeInitTable (src + 1) := by unfold step; simp only [h]; rfl
theorem step_len (p : Prog) (re : Reenter) (src : Nat) (h : p.bytecode.getD src 0 = 34) :
    step p re src = codeLen (src + 1) := by unfold step; simp only [h]; rfl
theorem step_popTable (p : Prog) (re : Reenter) (src : Nat) (h : p.bytecode.getD src 0 = 41) :
    step p re src = codePopTable (src + 1) := by unfold step; simp only [h]; rfl

/-! ## their simulation -/

section ops
variable {s t : VmState}

theorem sim_pop (ip : Nat) (h : SchedEq s t) : ResEq ((codePop ip).go s) ((codePop ip).go t) := by
  refine resEq_of_w2 ?_
  unfold codePop
  refine w2_bind (w2_pop h.toAgree fun v hv hA => ?_)
  exact w2_pure ⟨rfl, hA.toSchedEq⟩

theorem sim_scalarNil (ip : Nat) (h : SchedEq s t) :
    ResEq ((codeScalarNil ip).go s) ((codeScalarNil ip).go t) := by
  refine resEq_of_w2 ?_
  unfold codeScalarNil
  refine w2_bind (w2_push _ h.toAgree VK.nil fun hA => ?_)
  exact w2_pure ⟨rfl, hA.toSchedEq⟩

theorem sim_copyLast (ip : Nat) (h : SchedEq s t) :
    ResEq ((codeCopyLast ip).go s) ((codeCopyLast ip).go t) := by
  refine resEq_of_w2 ?_
  unfold codeCopyLast
  have hA := h.toAgree
  refine w2_bind (w2_get ?_)
  rw [hA.stack]
  refine w2_bind (w2_push _ hA (last_vk hA) fun hA1 => ?_)
  exact w2_pure ⟨rfl, hA1.toSchedEq⟩

theorem sim_exit (ip : Nat) (h : SchedEq s t) : ResEq ((codeExit ip).go s) ((codeExit ip).go t) :=
  resEq_of_w2 (w2_pure ⟨rfl, h⟩)

theorem sim_swapLast (ip : Nat) (h : SchedEq s t) :
    ResEq ((codeSwapLast ip).go s) ((codeSwapLast ip).go t) := by
  refine resEq_of_w2 ?_
  unfold codeSwapLast
  refine w2_bind (w2_pop h.toAgree fun b hb hA1 => ?_)
  refine w2_bind (w2_pop hA1 fun a ha hA2 => ?_)
  refine w2_bind (w2_push _ hA2 hb fun hA3 => ?_)
  refine w2_bind (w2_push _ hA3 ha fun hA4 => ?_)
  exact w2_pure ⟨rfl, hA4.toSchedEq⟩

theorem sim_initTable (ip : Nat) (h : SchedEq s t) :
    ResEq ((codeInitTable ip).go s) ((codeInitTable ip).go t) := by
  refine resEq_of_w2 ?_
  unfold codeInitTable
  refine w2_bind (w2_alloc initTable h.toAgree initTable_sim initTable_ok_guard fun a s1 t1 h1 hg => ?_)
  have hA := h1.toAgree
  refine w2_bind (w2_push _ hA (VK.obj (reach_guard' hg)) fun hA1 => ?_)
  refine w2_bind (w2_dropGuard a hA1 fun hA2 => ?_)
  exact w2_pure ⟨rfl, hA2.toSchedEq⟩

theorem sim_len (ip : Nat) (h : SchedEq s t) : ResEq ((codeLen ip).go s) ((codeLen ip).go t) := by
  refine resEq_of_w2 ?_
  unfold codeLen
  refine w2_bind (w2_pop h.toAgree fun v hv hA => ?_)
  generalize ({ s with stack := s.stack.pop.1 } : VmState) = s1 at hA ⊢
  generalize ({ t with stack := s.stack.pop.1 } : VmState) = t1 at hA ⊢
  refine w2_bind (w2_get ?_)
  w2_head
  cases v with
  | obj a =>
    dsimp only
    rw [show t1.heap.get a = s1.heap.get a from hA.agree a (hv a rfl)]
    refine w2_bind (w2_push _ hA VK.int fun hA1 => ?_)
    exact w2_pure ⟨rfl, hA1.toSchedEq⟩
  | nil =>
    refine w2_bind (w2_push _ hA VK.int fun hA1 => ?_)
    exact w2_pure ⟨rfl, hA1.toSchedEq⟩
  | int _ =>
    refine w2_bind (w2_push _ hA VK.int fun hA1 => ?_)
    exact w2_pure ⟨rfl, hA1.toSchedEq⟩
  | real _ =>
    refine w2_bind (w2_push _ hA VK.int fun hA1 => ?_)
    exact w2_pure ⟨rfl, hA1.toSchedEq⟩

theorem sim_popTable (ip : Nat) (h : SchedEq s t) :
    ResEq ((codePopTable ip).go s) ((codePopTable ip).go t) := by
  refine resEq_of_w2 ?_
  unfold codePopTable
  refine w2_bind (w2_pop h.toAgree fun inst hv hA => ?_)
  refine w2_bind (w2_getTable inst hA hv fun a cap es _ ha hg hg' hes => ?_)
  w2_head
  cases hl : es.getLast? with
  | none =>
    w2_head
    refine w2_bind (w2_push _ hA VK.nil fun hA1 => ?_)
    exact w2_pure ⟨rfl, hA1.toSchedEq⟩
  | some kv =>
    obtain ⟨k, v⟩ := kv
    w2_head
    have hmem : (k, v) ∈ es := List.mem_of_getLast? hl
    refine w2_bind (w2_modify ?_)
    have hA1 := hA.set a (.table cap es.dropLast) ha
      (fun b hb => by
        obtain ⟨e, he, hbe⟩ := List.mem_flatMap.mp hb
        have := hes e (List.dropLast_subset _ he)
        simp only [List.mem_cons, List.not_mem_nil, or_false] at hbe
        rcases hbe with hbe | hbe
        · exact this.1 b hbe.symm
        · exact this.2 b hbe.symm)
      (fun o ho => by rw [hg] at ho; cases ho; rfl)
    refine w2_bind (w2_push _ hA1 (hes _ hmem).2 fun hA2 => ?_)
    exact w2_pure ⟨rfl, hA2.toSchedEq⟩

end ops

/-! ## programs over the simple fragment -/

/-- `ScalarNil`, `CopyLast`, `Exit`, `Pop`, `SwapLast`, `InitTable`, `Len`, `PopTable` -/
def simpleOps : List UInt8 := [7, 9, 10, 16, 23, 31, 34, 41]

/-- every byte of the program is one of these one-byte instructions (so every address decodes
    to one of them) -/
def SimpleProg (p : Prog) : Prop := ∀ i, i < p.bytecode.size → p.bytecode.getD i 0 ∈ simpleOps

theorem stepSimAny_simple (p : Prog) (hp : SimpleProg p) : StepSimAny p := by
  intro re₁ re₂ src hsrc s t h
  have := hp src hsrc
  simp only [simpleOps, List.mem_cons, List.not_mem_nil, or_false] at this
  rcases this with h7 | h9 | h10 | h16 | h23 | h31 | h34 | h41
  · rw [step_scalarNil p re₁ src h7, step_scalarNil p re₂ src h7]; exact sim_scalarNil _ h
  · rw [step_copyLast p re₁ src h9, step_copyLast p re₂ src h9]; exact sim_copyLast _ h
  · rw [step_exit p re₁ src h10, step_exit p re₂ src h10]; exact sim_exit _ h
  · rw [step_pop p re₁ src h16, step_pop p re₂ src h16]; exact sim_pop _ h
  · rw [step_swapLast p re₁ src h23, step_swapLast p re₂ src h23]; exact sim_swapLast _ h
  · rw [step_initTable p re₁ src h31, step_initTable p re₂ src h31]; exact sim_initTable _ h
  · rw [step_len p re₁ src h34, step_len p re₂ src h34]; exact sim_len _ h
  · rw [step_popTable p re₁ src h41, step_popTable p re₂ src h41]; exact sim_popTable _ h

end Cao.SchedSim
