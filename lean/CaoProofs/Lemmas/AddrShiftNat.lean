import CaoProofs.Lemmas.AddrShift
/-!
# Equivariance under address shifts: the registered host functions

One lemma per name of `nativeNames` (`nat_min` … `nat_papply`), `callNativeBody_other` for every other
name, `natSimA : NatSimA δ` and `callNativeSimA : CallNativeSimA δ`. The comparator of `__sort` and the
comparison of `__min` / `__max` only use `ownD`, which is invariant (`ownD_shiftA`).
-/
namespace Cao.Vm
open Cao
set_option linter.unusedSectionVars false
set_option linter.unusedVariables false

section natives
variable {δ : Nat} (re₁ re₂ : Reenter) (hre : ∀ f, SimA δ (shiftV δ) (re₁ f) (re₂ (shiftV δ f)))
include hre

theorem nat_log : SimA δ (shiftV δ) (callNativeBody re₁ "log") (callNativeBody re₂ "log") := by
  unfold callNativeBody; sima_auto
theorem nat_sum2 : SimA δ (shiftV δ) (callNativeBody re₁ "sum2") (callNativeBody re₂ "sum2") := by
  unfold callNativeBody; sima_auto
theorem nat_fail : SimA δ (shiftV δ) (callNativeBody re₁ "fail") (callNativeBody re₂ "fail") := by
  unfold callNativeBody; sima_auto
theorem nat_callback : SimA δ (shiftV δ) (callNativeBody re₁ "callback") (callNativeBody re₂ "callback") := by
  unfold callNativeBody; sima_auto
theorem nat_papply : SimA δ (shiftV δ) (callNativeBody re₁ "papply") (callNativeBody re₂ "papply") := by
  unfold callNativeBody; sima_auto
theorem nat_strlen : SimA δ (shiftV δ) (callNativeBody re₁ "strlen") (callNativeBody re₂ "strlen") := by
  unfold callNativeBody; sima_auto
theorem nat_three : SimA δ (shiftV δ) (callNativeBody re₁ "three") (callNativeBody re₂ "three") := by
  unfold callNativeBody; sima_auto
theorem nat_four : SimA δ (shiftV δ) (callNativeBody re₁ "four") (callNativeBody re₂ "four") := by
  unfold callNativeBody; sima_auto
theorem nat_mktable : SimA δ (shiftV δ) (callNativeBody re₁ "mktable") (callNativeBody re₂ "mktable") := by
  unfold callNativeBody; sima_auto

theorem nat_to_array :
    SimA δ (shiftV δ) (callNativeBody re₁ "__to_array") (callNativeBody re₂ "__to_array") := by
  unfold callNativeBody; sima_auto

theorem nat_sort : SimA δ (shiftV δ) (callNativeBody re₁ "__sort") (callNativeBody re₂ "__sort") := by
  unfold callNativeBody; sima_auto
  · rename_i key
    cases key <;> exact sima_modify (fun s => rfl)
  · apply sima_pure_of
    simp only [stepMap_yield, sh_list, List.map_append, List.map_cons, List.map_nil, sh_prod, sh_val]
  · -- the comparator of the sort only looks at deep values
    refine sima_forIn_mergeSort _ _ _ _ _ _ _ _ (fun a b => ?_) rfl (fun x b => ?_)
    · simp only [sh_prod_fst, sh_val, ownD_shiftA]
    · sima_norm
      sima_auto

theorem nat_min : SimA δ (shiftV δ) (callNativeBody re₁ "__min") (callNativeBody re₂ "__min") := by
  unfold callNativeBody; sima_auto
theorem nat_max : SimA δ (shiftV δ) (callNativeBody re₁ "__max") (callNativeBody re₂ "__max") := by
  unfold callNativeBody; sima_auto

end natives

/-- an unregistered name: `ProcedureNotFound` -/
theorem callNativeBody_other (re : Reenter) (name : String) (h : name ∉ nativeNames) :
    callNativeBody re name = (get >>= fun _ => throwE .procedureNotFound) := by
  simp only [nativeNames, List.mem_cons, List.not_mem_nil, or_false, not_or] at h
  unfold callNativeBody
  split
  all_goals first
    | rfl
    | (exfalso; simp_all; done)

/-- **every registered host function commutes with the renaming** -/
theorem natSimA (δ : Nat) : NatSimA δ := by
  intro re₁ re₂ hre name
  by_cases h : name ∈ nativeNames
  · simp only [nativeNames, List.mem_cons, List.not_mem_nil, or_false] at h
    rcases h with h | h | h | h | h | h | h | h | h | h | h | h | h <;> subst h
    · exact nat_min re₁ re₂ hre
    · exact nat_max re₁ re₂ hre
    · exact nat_sort re₁ re₂ hre
    · exact nat_to_array re₁ re₂ hre
    · exact nat_log re₁ re₂ hre
    · exact nat_sum2 re₁ re₂ hre
    · exact nat_fail re₁ re₂ hre
    · exact nat_callback re₁ re₂ hre
    · exact nat_strlen re₁ re₂ hre
    · exact nat_three re₁ re₂ hre
    · exact nat_four re₁ re₂ hre
    · exact nat_mktable re₁ re₂ hre
    · exact nat_papply re₁ re₂ hre
  · rw [callNativeBody_other re₁ name h, callNativeBody_other re₂ name h]
    exact sima_get_bind (fun _ => sima_throwE _ _)

/-- `call_native` commutes with the renaming -/
theorem callNativeSimA (δ : Nat) : CallNativeSimA δ := callNativeSimA_of_nat (natSimA δ)

end Cao.Vm
