import CaoProofs.Lemmas.SchedStep
import CaoProofs.Lemmas.NativeLemmas
import CaoProofs.Lemmas.SerdeOwn
/-!
# Schedule independence, all instructions: the relation and the two-run calculus

The relation of `Lemmas/SchedSim.lean` (`SchedEq`), rebuilt so that it also serves the comparison
of a cleared VM with a fresh one (C17):

* `Cfg.full`: whether the two value stacks are equal as arrays (`True`: the case of two runs of the
  same machine under different schedules) or only in their live part (`False`: a cleared machine
  keeps stale slots that a fresh one does not have);
* `Cfg.pre`: the host log of the left machine is `pre ++` the host log of the right one.

`Agree c K s t`: roots equal, heaps equal on the set `K ⊇ roots` closed under children, accounting
invariant on both sides. `Rel c s t := ∃ K, Agree c K s t` is what holds between instructions;
`VRes c v s t`: moreover the value `v` denotes the same thing in both machines.
`W2 c m₁ m₂ Q s t`: the two-run weakest precondition.
-/
namespace Cao.SchedFull
open Cao Cao.Vm Cao.Gc Cao.C02 Cao.C05 Cao.RunInv Cao.Native
set_option linter.unusedVariables false
set_option linter.unusedSectionVars false

/-! ## the value stack: equal, or equal in its live part -/

def StackEq (full : Prop) (a b : VStack Val) : Prop := StackSame a b ∧ (full → b = a)

theorem StackEq.refl (full : Prop) (a : VStack Val) : StackEq full a a := ⟨StackSame.refl a, fun _ => rfl⟩

theorem StackEq.map {full : Prop} {a b : VStack Val} (h : StackEq full a b)
    (f : VStack Val → VStack Val) (hf : StackSame (f a) (f b)) : StackEq full (f a) (f b) :=
  ⟨hf, fun hfull => by rw [h.2 hfull]⟩

theorem StackEq.count {full : Prop} {a b : VStack Val} (h : StackEq full a b) : b.count = a.count := h.1.count
theorem StackEq.cap {full : Prop} {a b : VStack Val} (h : StackEq full a b) :
    b.data.length = a.data.length := h.1.cap
theorem StackEq.contents {full : Prop} {a b : VStack Val} (h : StackEq full a b) :
    b.contents = a.contents := h.1.contents
theorem StackEq.peekLast {full : Prop} {a b : VStack Val} (h : StackEq full a b) (n : Nat) :
    b.peekLast n = a.peekLast n := h.1.peekLast n

theorem _root_.Cao.Native.StackSame.getD {a b : VStack Val} (h : StackSame a b) {i : Nat} (hi : i < a.count) :
    b.data.getD i .nil = a.data.getD i .nil := by
  rw [List.getD_eq_getElem?_getD, List.getD_eq_getElem?_getD, h.slots i hi]

theorem _root_.Cao.Native.StackSame.last {a b : VStack Val} (h : StackSame a b) : b.last = a.last := by
  unfold VStack.last
  rw [h.count]
  split
  · exact StackSame.getD h (by omega)
  · rfl

theorem _root_.Cao.Native.StackSame.get {a b : VStack Val} (h : StackSame a b) (i : Nat) : b.get i = a.get i := by
  unfold VStack.get
  rw [h.count]
  split
  · rfl
  · exact StackSame.getD h (by omega)

theorem _root_.Cao.Native.StackSame.pop {a b : VStack Val} (h : StackSame a b) :
    StackSame a.pop.1 b.pop.1 ∧ b.pop.2 = a.pop.2 := by
  unfold VStack.pop
  rw [h.count]
  split
  · exact ⟨h, rfl⟩
  · next hc =>
    refine ⟨⟨by simp, by simp [h.cap], fun i hi => ?_⟩, StackSame.getD h (by omega)⟩
    dsimp only at hi ⊢
    rw [List.getElem?_set, List.getElem?_set]
    have : ¬ a.count - 1 = i := by omega
    simp only [this, if_false]
    exact h.slots i (by omega)

theorem _root_.Cao.Native.StackSame.push {a b : VStack Val} (h : StackSame a b) (v : Val) :
    StackSame (a.push v).1 (b.push v).1 ∧ (b.push v).2 = (a.push v).2 := by
  unfold VStack.push
  rw [h.count, h.cap]
  split
  · next hc =>
    refine ⟨⟨rfl, by simp [h.cap], fun i hi => ?_⟩, rfl⟩
    dsimp only at hi ⊢
    rw [List.getElem?_set, List.getElem?_set, h.cap]
    split
    · rfl
    · exact h.slots i (by omega)
  · exact ⟨h, rfl⟩

theorem _root_.Cao.Native.StackSame.popN {a b : VStack Val} (h : StackSame a b) (n : Nat) :
    StackSame (a.popN n).1 (b.popN n).1 := by
  unfold VStack.popN
  dsimp only
  rw [h.count]
  exact ⟨rfl, h.cap, fun i hi => h.slots i (by dsimp only at hi; omega)⟩

theorem _root_.Cao.Native.StackSame.dataSet {a b : VStack Val} (h : StackSame a b) (i : Nat) (v : Val) :
    StackSame { a with data := a.data.set i v } { b with data := b.data.set i v } := by
  refine ⟨h.count, by simp [h.cap], fun j hj => ?_⟩
  dsimp only at hj ⊢
  rw [List.getElem?_set, List.getElem?_set, h.cap]
  split
  · rfl
  · exact h.slots j hj

theorem _root_.Cao.Native.StackSame.set {a b : VStack Val} (h : StackSame a b) (i : Nat) (v : Val) :
    StackSame (a.set i v).1 (b.set i v).1 ∧ (b.set i v).2 = (a.set i v).2 := by
  unfold VStack.set
  by_cases h1 : i > a.count
  · have h1' : i > b.count := by rw [h.count]; exact h1
    simp only [if_pos h1, if_pos h1']; exact ⟨h, trivial⟩
  · have h1' : ¬ i > b.count := by rw [h.count]; exact h1
    simp only [if_neg h1, if_neg h1']
    by_cases h2 : i = a.count
    · have h2' : i = b.count := by rw [h.count]; exact h2
      simp only [if_pos h2, if_pos h2']
      obtain ⟨g1, g2⟩ := h.push v
      rcases ha : a.push v with ⟨a', ra⟩
      rcases hb : b.push v with ⟨b', rb⟩
      rw [ha, hb] at g1 g2
      dsimp only at g1 g2
      subst g2
      cases rb with
      | ok u => exact ⟨g1, rfl⟩
      | error e => exact ⟨g1, rfl⟩
    · have h2' : ¬ i = b.count := by rw [h.count]; exact h2
      simp only [if_neg h2, if_neg h2']
      exact ⟨h.dataSet i v, congrArg Except.ok (StackSame.getD h (by omega))⟩

theorem _root_.Cao.Native.StackSame.clearUntil {a b : VStack Val} (h : StackSame a b) {i : Nat} (hi : i ≤ a.count) :
    StackSame (a.clearUntil i).1 (b.clearUntil i).1 ∧ (b.clearUntil i).2 = (a.clearUntil i).2 := by
  unfold VStack.clearUntil
  exact ⟨⟨by dsimp only; rw [h.count], h.cap,
    fun j hj => h.slots j (by dsimp only at hj; split at hj <;> omega)⟩, h.last⟩

theorem _root_.Cao.Native.StackSame.popWOffset {a b : VStack Val} (h : StackSame a b) (off : Nat) :
    StackSame (a.popWOffset off).1 (b.popWOffset off).1 ∧ (b.popWOffset off).2 = (a.popWOffset off).2 := by
  unfold VStack.popWOffset
  rw [h.count]
  split
  · exact ⟨h, rfl⟩
  · exact h.pop

/-! ## membership in the live part -/

theorem mem_contents_of_getD {st : VStack Val} {i : Nat} (hi : i < st.count) (hl : i < st.data.length) :
    st.data.getD i .nil ∈ st.contents := by
  unfold VStack.contents
  rw [List.getD_eq_getElem?_getD]
  apply List.mem_iff_getElem?.mpr
  refine ⟨i, ?_⟩
  rw [List.getElem?_take, if_pos hi, List.getElem?_eq_getElem hl]
  rfl

/-- a slot below the height holds a live value, or `nil` (beyond the capacity) -/
theorem getD_live {st : VStack Val} {i : Nat} (hi : i < st.count) :
    st.data.getD i .nil ∈ st.contents ∨ st.data.getD i .nil = .nil := by
  by_cases hl : i < st.data.length
  · exact Or.inl (mem_contents_of_getD hi hl)
  · right
    rw [List.getD_eq_getElem?_getD, List.getElem?_eq_none (by omega)]
    rfl

theorem mem_contents_sub {st st' : VStack Val} (hc : st'.count ≤ st.count)
    (hs : ∀ i, i < st'.count → st'.data[i]? = st.data[i]?) {v : Val} (hv : v ∈ st'.contents) :
    v ∈ st.contents := by
  unfold VStack.contents at hv ⊢
  obtain ⟨i, hi⟩ := List.mem_iff_getElem?.mp hv
  rw [List.getElem?_take] at hi
  split at hi
  · next h1 =>
    apply List.mem_iff_getElem?.mpr
    exact ⟨i, by rw [List.getElem?_take, if_pos (by omega), ← hs i h1]; exact hi⟩
  · cases hi

theorem mem_popN_contents {st : VStack Val} {n : Nat} {v : Val} (h : v ∈ (st.popN n).1.contents) :
    v ∈ st.contents :=
  mem_contents_sub (st := st) (st' := (st.popN n).1) (by unfold VStack.popN; dsimp only; omega) (fun i _ => rfl) h

theorem mem_clearUntil_contents {st : VStack Val} {k : Nat} (hk : k ≤ st.count) {v : Val}
    (h : v ∈ (st.clearUntil k).1.contents) : v ∈ st.contents :=
  mem_contents_sub (st := st) (st' := (st.clearUntil k).1)
    (by unfold VStack.clearUntil; dsimp only; split <;> omega) (fun i _ => rfl) h

theorem mem_dataSet_contents {st : VStack Val} {i : Nat} {v w : Val}
    (h : w ∈ ({ st with data := st.data.set i v } : VStack Val).contents) : w = v ∨ w ∈ st.contents := by
  unfold VStack.contents at h ⊢
  dsimp only at h
  obtain ⟨j, hj⟩ := List.mem_iff_getElem?.mp h
  rw [List.getElem?_take] at hj
  split at hj
  · next h1 =>
    rw [List.getElem?_set] at hj
    split at hj
    · split at hj
      · left; simpa using hj.symm
      · cases hj
    · right
      apply List.mem_iff_getElem?.mpr
      exact ⟨j, by rw [List.getElem?_take, if_pos h1]; exact hj⟩
  · cases hj

theorem mem_set_contents {st : VStack Val} {i : Nat} {v w : Val} (h : w ∈ (st.set i v).1.contents) :
    w = v ∨ w ∈ st.contents := by
  unfold VStack.set at h
  split at h
  · exact Or.inr h
  · split at h
    · have hp : ∀ x, x = st.push v → w ∈ x.1.contents := by
        intro x hx
        rw [← hx] at h
        rcases x with ⟨s', r⟩
        cases r <;> exact h
      exact SchedSim.mem_push_contents (hp _ rfl)
    · exact mem_dataSet_contents h

theorem mem_popWOffset_contents {st : VStack Val} {off : Nat} {v : Val}
    (h : v ∈ (st.popWOffset off).1.contents) : v ∈ st.contents := by
  unfold VStack.popWOffset at h
  split at h
  · exact h
  · exact SchedSim.mem_pop_contents h

theorem get_mem {st : VStack Val} {i a : Nat} (h : st.get i = .obj a) : Val.obj a ∈ st.contents := by
  unfold VStack.get at h
  split at h
  · cases h
  · next hi =>
    rcases getD_live (st := st) (i := i) (by omega) with h1 | h1
    · rw [show (default : Val) = .nil from rfl] at h; rw [h] at h1; exact h1
    · rw [show (default : Val) = .nil from rfl] at h; rw [h] at h1; cases h1

theorem last_mem {st : VStack Val} {a : Nat} (h : st.last = .obj a) : Val.obj a ∈ st.contents := by
  unfold VStack.last at h
  split at h
  · next hi =>
    rcases getD_live (st := st) (i := st.count - 1) (by omega) with h1 | h1
    · rw [show (default : Val) = .nil from rfl] at h; rw [h] at h1; exact h1
    · rw [show (default : Val) = .nil from rfl] at h; rw [h] at h1; cases h1
  · cases h

theorem pop2_mem {st : VStack Val} {a : Nat} (h : st.pop.2 = .obj a) : Val.obj a ∈ st.contents := by
  unfold VStack.pop at h
  split at h
  · cases h
  · next hi =>
    dsimp only at h
    rcases getD_live (st := st) (i := st.count - 1) (by omega) with h1 | h1
    · rw [show (default : Val) = .nil from rfl] at h; rw [h] at h1; exact h1
    · rw [show (default : Val) = .nil from rfl] at h; rw [h] at h1; cases h1

/-! ## the relation -/

structure Cfg where
  /-- the two value stacks are equal as arrays, not only in their live part -/
  full : Prop
  /-- host log of the left machine = `pre ++` host log of the right one -/
  pre : List String

/-- a value that is not an object, or an object in `K` -/
def VK (K : Nat → Prop) (v : Val) : Prop := ∀ a, v = .obj a → K a

theorem VK.nil {K : Nat → Prop} : VK K .nil := fun _ h => by cases h
theorem VK.int {K : Nat → Prop} {i : Int64} : VK K (.int i) := fun _ h => by cases h
theorem VK.real {K : Nat → Prop} {b : UInt64} : VK K (.real b) := fun _ h => by cases h
theorem VK.obj {K : Nat → Prop} {a : Nat} (h : K a) : VK K (.obj a) := fun _ e => by cases e; exact h
theorem VK.boolVal {K : Nat → Prop} {b : Bool} : VK K (boolVal b) := fun _ h => by
  unfold Vm.boolVal at h; cases h
theorem VK.mono {K K' : Nat → Prop} {v : Val} (h : VK K v) (hk : ∀ a, K a → K' a) : VK K' v :=
  fun a e => hk a (h a e)

/-- what is reachable in `s` -/
def R (s : VmState) : Nat → Prop := fun a => Reach s.heap (rootAddrs s) a

/-- everything except the accounting invariant (which is suspended inside an allocation) -/
structure Core (c : Cfg) (K : Nat → Prop) (s t : VmState) : Prop where
  stack : StackEq c.full s.stack t.stack
  globals : t.globals = s.globals
  frames : t.frames = s.frames
  openUpvalues : t.openUpvalues = s.openUpvalues
  guards : t.guards = s.guards
  next : t.heap.next = s.heap.next
  limit : t.mem.limit = s.mem.limit
  remaining : t.remaining = s.remaining
  dispatches : t.dispatches = s.dispatches
  hostLog : s.hostLog = c.pre ++ t.hostLog
  frameCap : t.frameCap = s.frameCap
  uniqL : UniqueAddrs s.heap
  uniqR : UniqueAddrs t.heap
  freshL : FreshNext s.heap
  freshR : FreshNext t.heap
  rootsK : ∀ a ∈ rootAddrs s, K a
  closed : ∀ a o b, K a → s.heap.get a = some o → Val.obj b ∈ Heap.children o → K b
  agree : ∀ a, K a → t.heap.get a = s.heap.get a

structure Agree (c : Cfg) (K : Nat → Prop) (s t : VmState) : Prop extends Core c K s t where
  invL : Inv s
  invR : Inv t

def Rel (c : Cfg) (s t : VmState) : Prop := ∃ K, Agree c K s t

/-- related states in which `v` denotes the same value -/
def VRes (c : Cfg) (v : Val) (s t : VmState) : Prop := ∃ K, Agree c K s t ∧ VK K v

section core
variable {c : Cfg} {K : Nat → Prop} {s t : VmState}

theorem Core.rootAddrs_eq (h : Core c K s t) : rootAddrs t = rootAddrs s :=
  rootAddrs_congr h.stack.contents h.globals h.frames h.openUpvalues h.guards

theorem Core.reachK (h : Core c K s t) {a : Nat} (ha : R s a) : K a := by
  induction ha with
  | root hr => exact h.rootsK _ hr
  | step _ ho hc ih => exact h.closed _ _ _ ih ho hc

theorem Core.reachR (h : Core c K s t) {a : Nat} (ha : R s a) : R t a := by
  induction ha with
  | root hr => exact Reach.root (h.rootAddrs_eq ▸ hr)
  | @step a b o hra ho hc ih => exact Reach.step ih (by rw [h.agree a (h.reachK hra)]; exact ho) hc

theorem Core.reachL (h : Core c K s t) {a : Nat} (ha : R t a) : R s a ∧ K a := by
  induction ha with
  | @root a hr =>
    have : a ∈ rootAddrs s := h.rootAddrs_eq ▸ hr
    exact ⟨Reach.root this, h.rootsK _ this⟩
  | @step a b o _ ho hc ih =>
    have ho' : s.heap.get a = some o := by rw [← h.agree a ih.2]; exact ho
    exact ⟨Reach.step ih.1 ho' hc, h.closed _ _ _ ih.2 ho' hc⟩

/-- the agreement set may always be shrunk to what is reachable now -/
theorem Core.toR (h : Core c K s t) : Core c (R s) s t :=
  { h with
    rootsK := fun a ha => Reach.root ha
    closed := fun a o b ha ho hc => Reach.step ha ho hc
    agree := fun a ha => h.agree a (h.reachK ha) }

theorem Agree.toR (h : Agree c K s t) : Agree c (R s) s t := { h.toCore.toR with invL := h.invL, invR := h.invR }

theorem Agree.rel (h : Agree c K s t) : Rel c s t := ⟨K, h⟩

theorem Agree.vres (h : Agree c K s t) {v : Val} (hv : VK K v) : VRes c v s t := ⟨K, h, hv⟩

theorem VRes.rel {v : Val} (h : VRes c v s t) : Rel c s t := let ⟨K, h1, _⟩ := h; ⟨K, h1⟩

theorem Rel.refl (s : VmState) (h : Inv s) : Rel ⟨True, []⟩ s s :=
  ⟨R s, { stack := StackEq.refl _ _, globals := rfl, frames := rfl, openUpvalues := rfl, guards := rfl,
          next := rfl, limit := rfl, remaining := rfl, dispatches := rfl, hostLog := rfl, frameCap := rfl,
          uniqL := h.unique, uniqR := h.unique, freshL := h.fresh, freshR := h.fresh,
          rootsK := fun a ha => Reach.root ha, closed := fun a o b ha ho hc => Reach.step ha ho hc,
          agree := fun _ _ => rfl, invL := h, invR := h }⟩

theorem Core.vk_stack (h : Core c K s t) {v : Val} (hv : v ∈ s.stack.contents) : VK K v := by
  intro a e; subst e
  exact h.rootsK a ((SchedSim.mem_rootAddrs_iff s a).mpr (Or.inl hv))

theorem Core.vk_global (h : Core c K s t) {v : Val} (hv : v ∈ s.globals) : VK K v := by
  intro a e; subst e
  exact h.rootsK a ((SchedSim.mem_rootAddrs_iff s a).mpr (Or.inr (Or.inl hv)))

theorem Core.k_frame (h : Core c K s t) {f : Frame} (hf : f ∈ s.frames) {a : Nat}
    (ha : f.closure = some a) : K a :=
  h.rootsK a ((SchedSim.mem_rootAddrs_iff s a).mpr (Or.inr (Or.inr (Or.inl ⟨f, hf, ha⟩))))

theorem Core.k_upv (h : Core c K s t) {a : Nat} (ha : a ∈ s.openUpvalues) : K a :=
  h.rootsK a ((SchedSim.mem_rootAddrs_iff s a).mpr (Or.inr (Or.inr (Or.inr (Or.inl ha)))))

theorem Core.k_guard (h : Core c K s t) {a : Nat} (ha : a ∈ s.guards) : K a :=
  h.rootsK a ((SchedSim.mem_rootAddrs_iff s a).mpr (Or.inr (Or.inr (Or.inr (Or.inr ha)))))

theorem Core.vk_child (h : Core c K s t) {a : Nat} {o : Obj} (ha : K a) (ho : s.heap.get a = some o)
    {v : Val} (hv : v ∈ Heap.children o) : VK K v := by
  intro b e; subst e
  exact h.closed a o b ha ho hv

theorem Core.vk_entry (h : Core c K s t) {a cap : Nat} {es : List (Val × Val)} (ha : K a)
    (ho : s.heap.get a = some (.table cap es)) {e : Val × Val} (he : e ∈ es) : VK K e.1 ∧ VK K e.2 :=
  ⟨h.vk_child ha ho (List.mem_flatMap.mpr ⟨e, he, by simp⟩),
   h.vk_child ha ho (List.mem_flatMap.mpr ⟨e, he, by simp⟩)⟩

theorem Core.vk_peek (h : Core c K s t) (n : Nat) : VK K (s.stack.peekLast n) :=
  fun a e => h.vk_stack (peekLast_mem e) a rfl

theorem Core.vk_last (h : Core c K s t) : VK K s.stack.last :=
  fun a e => h.vk_stack (last_mem e) a rfl

theorem Core.vk_pop (h : Core c K s t) : VK K s.stack.pop.2 :=
  fun a e => h.vk_stack (pop2_mem e) a rfl

theorem Core.vk_get (h : Core c K s t) (i : Nat) : VK K (s.stack.get i) :=
  fun a e => h.vk_stack (get_mem e) a rfl

/-- a live slot -/
theorem Core.vk_slot (h : Core c K s t) {i : Nat} (hi : i < s.stack.count) : VK K (s.stack.data.getD i .nil) := by
  rcases getD_live (st := s.stack) hi with h1 | h1
  · exact h.vk_stack h1
  · rw [h1]; exact VK.nil

/-- changing only the roots, to values in `K` -/
theorem Core.reroot {s' t' : VmState} (h : Core c K s t)
    (hs : s'.heap = s.heap) (hsm : s'.mem.limit = s.mem.limit) (ht : t'.heap = t.heap)
    (htm : t'.mem.limit = t.mem.limit)
    (e1 : StackEq c.full s'.stack t'.stack) (e2 : t'.globals = s'.globals) (e3 : t'.frames = s'.frames)
    (e4 : t'.openUpvalues = s'.openUpvalues) (e5 : t'.guards = s'.guards)
    (c1 : t'.remaining = s'.remaining) (c2 : t'.dispatches = s'.dispatches)
    (c3 : s'.hostLog = c.pre ++ t'.hostLog) (c4 : t'.frameCap = s'.frameCap)
    (hr : ∀ a ∈ rootAddrs s', K a) : Core c K s' t' :=
  { stack := e1, globals := e2, frames := e3, openUpvalues := e4, guards := e5,
    next := by rw [hs, ht, h.next], limit := by rw [hsm, htm, h.limit],
    remaining := c1, dispatches := c2, hostLog := c3, frameCap := c4,
    uniqL := by rw [hs]; exact h.uniqL, uniqR := by rw [ht]; exact h.uniqR,
    freshL := by rw [hs]; exact h.freshL, freshR := by rw [ht]; exact h.freshR,
    rootsK := hr,
    closed := fun a o b ha ho hc => h.closed a o b ha (by rw [← hs]; exact ho) hc,
    agree := fun a ha => by rw [hs, ht]; exact h.agree a ha }

theorem Agree.reroot {s' t' : VmState} (h : Agree c K s t)
    (hs : s'.heap = s.heap) (hsm : s'.mem = s.mem) (ht : t'.heap = t.heap) (htm : t'.mem = t.mem)
    (e1 : StackEq c.full s'.stack t'.stack) (e2 : t'.globals = s'.globals) (e3 : t'.frames = s'.frames)
    (e4 : t'.openUpvalues = s'.openUpvalues) (e5 : t'.guards = s'.guards)
    (c1 : t'.remaining = s'.remaining) (c2 : t'.dispatches = s'.dispatches)
    (c3 : s'.hostLog = c.pre ++ t'.hostLog) (c4 : t'.frameCap = s'.frameCap)
    (hr : ∀ a ∈ rootAddrs s', K a) : Agree c K s' t' :=
  { h.toCore.reroot hs (by rw [hsm]) ht (by rw [htm]) e1 e2 e3 e4 e5 c1 c2 c3 c4 hr with
    invL := inv_of_same hs hsm h.invL, invR := inv_of_same ht htm h.invR }

/-- the roots of a state, component by component -/
theorem rootsK_of {s' : VmState} {K : Nat → Prop}
    (h1 : ∀ v ∈ s'.stack.contents, VK K v) (h2 : ∀ v ∈ s'.globals, VK K v)
    (h3 : ∀ f ∈ s'.frames, ∀ a, f.closure = some a → K a)
    (h4 : ∀ a ∈ s'.openUpvalues, K a) (h5 : ∀ a ∈ s'.guards, K a) : ∀ a ∈ rootAddrs s', K a := by
  intro a ha
  rcases (SchedSim.mem_rootAddrs_iff s' a).mp ha with h | h | ⟨f, hf, hfa⟩ | h | h
  · exact h1 _ h a rfl
  · exact h2 _ h a rfl
  · exact h3 f hf a hfa
  · exact h4 a h
  · exact h5 a h

/-- a change of the value stack that only keeps `K`-values -/
theorem Agree.stack_change (h : Agree c K s t) {st st' : VStack Val} (he : StackEq c.full st st')
    (hst : ∀ v ∈ st.contents, VK K v) :
    Agree c K { s with stack := st } { t with stack := st' } :=
  h.reroot rfl rfl rfl rfl he h.globals h.frames h.openUpvalues h.guards h.remaining
    h.dispatches h.hostLog h.frameCap
    (rootsK_of hst (fun v hv => h.vk_global hv) (fun f hf a ha => h.k_frame hf ha)
      (fun a ha => h.k_upv ha) (fun a ha => h.k_guard ha))

/-- overwriting a `K`-object by an object whose children are in `K` (same charge) -/
theorem Core.set (h : Core c K s t) (a : Nat) (o' : Obj) (ha : K a)
    (hkids : ∀ b, Val.obj b ∈ Heap.children o' → K b) :
    Core c K { s with heap := s.heap.set a o' } { t with heap := t.heap.set a o' } :=
  { stack := h.stack, globals := h.globals, frames := h.frames, openUpvalues := h.openUpvalues,
    guards := h.guards, next := h.next, limit := h.limit, remaining := h.remaining,
    dispatches := h.dispatches, hostLog := h.hostLog, frameCap := h.frameCap,
    uniqL := by show UniqueAddrs (s.heap.set a o'); unfold UniqueAddrs; rw [set_keys]; exact h.uniqL,
    uniqR := by show UniqueAddrs (t.heap.set a o'); unfold UniqueAddrs; rw [set_keys]; exact h.uniqR,
    freshL := by
      intro q hq
      have : q.1 ∈ (s.heap.set a o').objs.map (fun p => p.1) := List.mem_map_of_mem hq
      rw [set_keys] at this
      obtain ⟨q', hq', e⟩ := List.mem_map.mp this
      rw [← e]; exact h.freshL q' hq'
    freshR := by
      intro q hq
      have : q.1 ∈ (t.heap.set a o').objs.map (fun p => p.1) := List.mem_map_of_mem hq
      rw [set_keys] at this
      obtain ⟨q', hq', e⟩ := List.mem_map.mp this
      rw [← e]; exact h.freshR q' hq'
    rootsK := h.rootsK,
    closed := by
      intro x o b hx ho hcb
      rw [show ({ s with heap := s.heap.set a o' } : VmState).heap = s.heap.set a o' from rfl,
        SchedSim.get_set] at ho
      split at ho
      · cases hg : s.heap.get a with
        | none => rw [hg] at ho; cases ho
        | some o0 =>
          rw [hg] at ho
          simp only [Option.map_some, Option.some.injEq] at ho
          subst ho
          exact hkids b hcb
      · exact h.closed x o b hx ho hcb
    agree := by
      intro x hx
      show (t.heap.set a o').get x = (s.heap.set a o').get x
      rw [SchedSim.get_set, SchedSim.get_set, h.agree x hx, h.agree a ha] }

theorem Agree.set (h : Agree c K s t) (a : Nat) (o' : Obj) (ha : K a)
    (hkids : ∀ b, Val.obj b ∈ Heap.children o' → K b)
    (hc : ∀ o, s.heap.get a = some o → Heap.chargeOf o' = Heap.chargeOf o) :
    Agree c K { s with heap := s.heap.set a o' } { t with heap := t.heap.set a o' } :=
  { h.toCore.set a o' ha hkids with
    invL := set_inv s a o' h.invL hc,
    invR := set_inv t a o' h.invR (fun o ho => hc o (by rw [← h.agree a ha]; exact ho)) }

/-! ## deep values -/

/-- **the deep value of a `K`-value is the same in both heaps** — whatever the amount of garbage
    (the fuel of `ownD` counts garbage, `own_adequate` shows that it does not matter) -/
theorem Core.ownD_eq (h : Core c K s t) {v : Val} (hv : VK K v) : ownD t.heap v = ownD s.heap v := by
  have fwd : ∀ f o, own s.heap f v = some o → own t.heap f v = some o := fun f o ho =>
    Serde.own_keep K (fun b ob hb hg => by rw [h.agree b hb]; exact hg)
      (fun b ob x hb hg hx => h.closed b ob x hb hg hx) f v o hv ho
  have bwd : ∀ f o, own t.heap f v = some o → own s.heap f v = some o := fun f o ho =>
    Serde.own_keep K (fun b ob hb hg => by rw [← h.agree b hb]; exact hg)
      (fun b ob x hb hg hx => h.closed b ob x hb (by rw [← h.agree b hb]; exact hg) hx) f v o hv ho
  cases ho : own s.heap (ownFuel s.heap) v with
  | some o =>
    have h1 : Serde.Owns s.heap v o := ⟨_, ho⟩
    have h2 : Serde.Owns t.heap v o := ⟨_, fwd _ o ho⟩
    rw [h1.ownD, h2.ownD]
  | none =>
    cases ho' : own t.heap (ownFuel t.heap) v with
    | some o =>
      have h1 : Serde.Owns s.heap v o := ⟨_, bwd _ o ho'⟩
      rw [h1.own_fuel] at ho; cases ho
    | none => unfold Cao.ownD; rw [ho, ho']

theorem Core.toI64_eq (h : Core c K s t) {v : Val} (hv : VK K v) : toI64 t.heap v = toI64 s.heap v := by
  unfold toI64; rw [h.ownD_eq hv]

theorem Core.findEntry_eq (h : Core c K s t) {es : List (Val × Val)} (hes : ∀ e ∈ es, VK K e.1) (k : OVal) :
    findEntry t.heap es k = findEntry s.heap es k := by
  unfold findEntry
  induction es with
  | nil => rfl
  | cons e es ih =>
    rw [List.find?_cons, List.find?_cons, h.ownD_eq (hes e List.mem_cons_self),
      ih (fun e' he' => hes e' (List.mem_cons_of_mem _ he'))]

end core

/-! ## the two-run weakest precondition -/

def W2 {α : Type} (c : Cfg) (m₁ m₂ : M α) (Q : α → α → VmState → VmState → Prop) (s t : VmState) : Prop :=
  match m₁.go s, m₂.go t with
  | (.ok a, s'), (.ok b, t') => Q a b s' t'
  | (.error e, s'), (.error e', t') => e' = e ∧ Rel c s' t'
  | _, _ => False

section w2
variable {α β : Type} {c : Cfg} {Q : α → α → VmState → VmState → Prop} {s t : VmState}

theorem w2_of_go {m₁ m₂ : M α} {a b : α} {s' t' : VmState} (h1 : m₁.go s = (.ok a, s'))
    (h2 : m₂.go t = (.ok b, t')) (hq : Q a b s' t') : W2 c m₁ m₂ Q s t := by
  unfold W2; rw [h1, h2]; exact hq

theorem w2_of_go_err {m₁ m₂ : M α} {e : ErrKind} {s' t' : VmState} (h1 : m₁.go s = (.error e, s'))
    (h2 : m₂.go t = (.error e, t')) (hq : Rel c s' t') : W2 c m₁ m₂ Q s t := by
  unfold W2; rw [h1, h2]; exact ⟨rfl, hq⟩

theorem w2_pure {a b : α} (h : Q a b s t) : W2 c (pure a) (pure b) Q s t := w2_of_go rfl rfl h
theorem w2_get {Q : VmState → VmState → VmState → VmState → Prop} (h : Q s t s t) :
    W2 c get get Q s t := w2_of_go rfl rfl h
theorem w2_modify {Q : PUnit → PUnit → VmState → VmState → Prop} {f g : VmState → VmState}
    (h : Q ⟨⟩ ⟨⟩ (f s) (g t)) : W2 c (modify f) (modify g) Q s t := w2_of_go rfl rfl h
theorem w2_set {Q : PUnit → PUnit → VmState → VmState → Prop} {x y : VmState}
    (h : Q ⟨⟩ ⟨⟩ x y) : W2 c (set x) (set y) Q s t := w2_of_go rfl rfl h
theorem w2_throwE {e : ErrKind} (h : Rel c s t) : W2 c (throwE e : M α) (throwE e) Q s t :=
  w2_of_go_err rfl rfl h
theorem w2_throw {e : ErrKind} (h : Rel c s t) : W2 c (throw e : M α) (throw e) Q s t :=
  w2_of_go_err rfl rfl h

theorem w2_bind {m₁ m₂ : M α} {f₁ f₂ : α → M β} {Q : β → β → VmState → VmState → Prop}
    (h : W2 c m₁ m₂ (fun a b s' t' => W2 c (f₁ a) (f₂ b) Q s' t') s t) :
    W2 c (m₁ >>= f₁) (m₂ >>= f₂) Q s t := by
  unfold W2 at h ⊢
  rw [go_bind, go_bind]
  rcases h1 : m₁.go s with ⟨r1, s'⟩
  rcases h2 : m₂.go t with ⟨r2, t'⟩
  rw [h1, h2] at h
  cases r1 <;> cases r2 <;> first | exact h | exact h.elim

theorem w2_throwE_bind {e : ErrKind} {f₁ f₂ : α → M β} {Q : β → β → VmState → VmState → Prop}
    (h : Rel c s t) : W2 c ((throwE e : M α) >>= f₁) ((throwE e : M α) >>= f₂) Q s t :=
  w2_bind (w2_throwE h)

theorem w2_mono {m₁ m₂ : M α} {Q' : α → α → VmState → VmState → Prop} (h : W2 c m₁ m₂ Q s t)
    (hq : ∀ a b s' t', Q a b s' t' → Q' a b s' t') : W2 c m₁ m₂ Q' s t := by
  unfold W2 at h ⊢
  rcases h1 : m₁.go s with ⟨r1, s'⟩
  rcases h2 : m₂.go t with ⟨r2, t'⟩
  rw [h1, h2] at h
  cases r1 <;> cases r2 <;> first | exact hq _ _ _ _ h | exact h | exact h.elim

theorem w2_ite {p : Prop} [Decidable p] {a₁ b₁ a₂ b₂ : M α} (ha : p → W2 c a₁ a₂ Q s t)
    (hb : ¬ p → W2 c b₁ b₂ Q s t) : W2 c (if p then a₁ else b₁) (if p then a₂ else b₂) Q s t := by
  by_cases hp : p
  · rw [if_pos hp, if_pos hp]; exact ha hp
  · rw [if_neg hp, if_neg hp]; exact hb hp

/-- the final form: same result, related states -/
def ResEq {α : Type} (c : Cfg) (r₁ r₂ : Except ErrKind α × VmState) : Prop := r₂.1 = r₁.1 ∧ Rel c r₁.2 r₂.2

theorem resEq_of_w2 {m₁ m₂ : M α} (h : W2 c m₁ m₂ (fun a b s' t' => b = a ∧ Rel c s' t') s t) :
    ResEq c (m₁.go s) (m₂.go t) := by
  unfold W2 at h
  unfold ResEq
  rcases h1 : m₁.go s with ⟨r1, s'⟩
  rcases h2 : m₂.go t with ⟨r2, t'⟩
  rw [h1, h2] at h
  cases r1 <;> cases r2
  · exact ⟨by rw [h.1], h.2⟩
  · exact h.elim
  · exact h.elim
  · exact ⟨by rw [h.1], h.2⟩

theorem w2_of_resEq {m₁ m₂ : M α} (h : ResEq c (m₁.go s) (m₂.go t))
    (hq : ∀ a s' t', Rel c s' t' → Q a a s' t') : W2 c m₁ m₂ Q s t := by
  unfold W2
  unfold ResEq at h
  rcases h1 : m₁.go s with ⟨r1, s'⟩
  rcases h2 : m₂.go t with ⟨r2, t'⟩
  rw [h1, h2] at h
  obtain ⟨e, hs⟩ := h
  dsimp only at e hs
  subst e
  cases r2 with
  | error e => exact ⟨rfl, hs⟩
  | ok a => exact hq a s' t' hs

/-- `try … catch`: the handler runs from related states -/
theorem w2_tryCatch {m₁ m₂ : M α} {h₁ h₂ : ErrKind → M α}
    (hm : W2 c m₁ m₂ Q s t)
    (hh : ∀ e s' t', Rel c s' t' → W2 c (h₁ e) (h₂ e) Q s' t') :
    W2 c (tryCatch m₁ h₁) (tryCatch m₂ h₂) Q s t := by
  unfold W2 at hm ⊢
  rw [go_tryCatch, go_tryCatch]
  rcases h1 : m₁.go s with ⟨r1, s'⟩
  rcases h2 : m₂.go t with ⟨r2, t'⟩
  rw [h1, h2] at hm
  cases r1 <;> cases r2
  · obtain ⟨rfl, hr⟩ := hm
    exact hh _ _ _ hr
  · exact hm.elim
  · exact hm.elim
  · exact hm

theorem w2_orElse {m₁ m₂ : M α} {h₁ h₂ : Unit → M α}
    (hm : W2 c m₁ m₂ Q s t)
    (hh : ∀ s' t', Rel c s' t' → W2 c (h₁ ()) (h₂ ()) Q s' t') :
    W2 c (m₁ <|> h₁ ()) (m₂ <|> h₂ ()) Q s t :=
  w2_tryCatch hm (fun _ s' t' hr => hh s' t' hr)

theorem w2_forIn {γ σ : Type} (I : σ → VmState → VmState → Prop) (l : List γ)
    (f₁ f₂ : γ → σ → M (ForInStep σ))
    (hf : ∀ x ∈ l, ∀ b s t, I b s t →
      W2 c (f₁ x b) (f₂ x b) (fun r r' s' t' => r' = r ∧ I r.value s' t') s t) :
    ∀ (init : σ) (s t : VmState), I init s t →
      W2 c (forIn l init f₁) (forIn l init f₂) (fun b b' s' t' => b' = b ∧ I b s' t') s t := by
  induction l with
  | nil => intro init s t hs; rw [List.forIn_nil, List.forIn_nil]; exact w2_pure ⟨rfl, hs⟩
  | cons x xs ih =>
    intro init s t hs
    rw [List.forIn_cons, List.forIn_cons]
    refine w2_bind (w2_mono (hf x List.mem_cons_self init s t hs) (fun r r' s' t' hr => ?_))
    obtain ⟨rfl, hI⟩ := hr
    cases r' with
    | done b => exact w2_pure ⟨rfl, hI⟩
    | yield b => exact ih (fun y hy => hf y (List.mem_cons_of_mem _ hy)) b s' t' hI

end w2

open Lean Elab Tactic Meta in
/-- `w2_head`: weak head normal form of both computations of a `W2` goal -/
elab "w2h" : tactic => withMainContext do
  let g ← getMainGoal
  let t ← whnfR (← instantiateMVars (← g.getType))
  let fn := t.getAppFn
  let args := t.getAppArgs
  unless fn.isConstOf ``W2 && args.size == 7 do
    throwError "w2h: not a W2 goal"
  let m₁ ← whnfCore args[2]!
  let m₂ ← whnfCore args[3]!
  replaceMainGoal [← g.change (mkAppN fn ((args.set! 2 m₁).set! 3 m₂))]

end Cao.SchedFull
