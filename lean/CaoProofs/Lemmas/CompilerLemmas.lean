import CaoModel.Compiler
/-!
# Basic facts about the (total) compiler model
-/
namespace Cao.Compiler
open Cao

/-! ## running `CM` actions -/

theorem bind_ok {α β : Type} {m : CM α} {f : α → CM β} {s : CState} {b : β} {s'' : CState} :
    (m >>= f) s = .ok (b, s'') ↔ ∃ a s', m s = .ok (a, s') ∧ f a s' = .ok (b, s'') := by
  show (StateT.bind m f s) = _ ↔ _
  unfold StateT.bind
  show (Except.bind (m s) _) = _ ↔ _
  cases h : m s with
  | error e => simp [Except.bind]
  | ok p =>
    cases p with
    | mk a s' =>
      simp only [Except.bind, Except.ok.injEq, Prod.mk.injEq]
      constructor
      · intro h; exact ⟨a, s', ⟨rfl, rfl⟩, h⟩
      · rintro ⟨a1, s1, ⟨rfl, rfl⟩, h⟩; exact h

@[simp] theorem pure_run {α : Type} (a : α) (s : CState) : (pure a : CM α) s = .ok (a, s) := rfl
@[simp] theorem get_run (s : CState) : (get : CM CState) s = .ok (s, s) := rfl
@[simp] theorem modify_run (f : CState → CState) (s : CState) : (modify f : CM Unit) s = .ok ((), f s) := rfl
@[simp] theorem throw_run {α : Type} (e : CErr) (s : CState) : (throw e : CM α) s = .error e := rfl
@[simp] theorem fail_run {α : Type} (k : CErrKind) (s : CState) :
    (fail k : CM α) s = .error (.err k (some { ns := s.ns, function := s.curFunction, indices := s.curIndices })) := rfl


/-! ## (a)+(b): the bytecode only grows, a frozen prefix is never touched, new trace keys are
positions of the new bytes -/

/-- `s'` extends `s`: the bytecode did not shrink, the first `k` bytes are unchanged, and the
trace log was extended by entries whose keys are positions in the new part of the bytecode. -/
structure Ext (k : Nat) (s s' : CState) : Prop where
  size_le : s.bytecode.size ≤ s'.bytecode.size
  pref : ∀ i, i < k → s'.bytecode[i]? = s.bytecode[i]?
  trace : ∃ t, s'.trace = s.trace ++ t ∧ ∀ p ∈ t, s.bytecode.size ≤ p.1 ∧ p.1 < s'.bytecode.size

theorem Ext.refl (k : Nat) (s : CState) : Ext k s s :=
  ⟨Nat.le_refl _, fun _ _ => rfl, [], by simp, by simp⟩

theorem Ext.of_eq {k : Nat} {s s' : CState} (hb : s'.bytecode = s.bytecode) (ht : s'.trace = s.trace) :
    Ext k s s' :=
  ⟨by rw [hb]; exact Nat.le_refl _, fun _ _ => by rw [hb], [], by simp [ht], by simp⟩

theorem Ext.trans {k : Nat} {s s1 s2 : CState} (h1 : Ext k s s1) (h2 : Ext k s1 s2) : Ext k s s2 := by
  obtain ⟨a1, b1, t1, c1, d1⟩ := h1
  obtain ⟨a2, b2, t2, c2, d2⟩ := h2
  refine ⟨Nat.le_trans a1 a2, fun i hi => by rw [b2 i hi, b1 i hi], t1 ++ t2, by rw [c2, c1, List.append_assoc], ?_⟩
  intro p hp
  rcases List.mem_append.1 hp with hp | hp
  · have := d1 p hp; omega
  · have := d2 p hp; omega

theorem Ext.weaken {k k' : Nat} {s s' : CState} (h : Ext k s s') (hk : k' ≤ k) : Ext k' s s' :=
  ⟨h.size_le, fun i hi => h.pref i (by omega), h.trace⟩

/-- Hoare triple for `Ext`: run from a state whose bytecode has at least `k` bytes, a successful
`m` extends the state (keeping the first `k` bytes) and returns a value satisfying `Q`. -/
structure MonoV {α : Type} (k : Nat) (Q : α → Prop) (m : CM α) : Prop where
  run : ∀ s a s', m s = .ok (a, s') → k ≤ s.bytecode.size → Ext k s s' ∧ Q a

/-- `MonoV` without a condition on the result -/
abbrev Mono {α : Type} (k : Nat) (m : CM α) : Prop := MonoV k (fun _ => True) m

theorem mono_intro {α : Type} {k : Nat} {m : CM α}
    (h : ∀ s a s', m s = .ok (a, s') → k ≤ s.bytecode.size → Ext k s s') : Mono k m :=
  ⟨fun s a s' hr hk => ⟨h s a s' hr hk, trivial⟩⟩

theorem mono_bind {α β : Type} {k : Nat} {Q : α → Prop} {Q' : β → Prop} {m : CM α} {f : α → CM β}
    (hm : MonoV k Q m) (hf : ∀ a, Q a → MonoV k Q' (f a)) : MonoV k Q' (m >>= f) := by
  constructor
  intro s b s'' h hk
  obtain ⟨a, s', h1, h2⟩ := bind_ok.1 h
  obtain ⟨e1, qa⟩ := hm.run s a s' h1 hk
  obtain ⟨e2, qb⟩ := (hf a qa).run s' b s'' h2 (Nat.le_trans hk e1.size_le)
  exact ⟨e1.trans e2, qb⟩

theorem mono_weaken {α : Type} {k : Nat} {Q Q' : α → Prop} {m : CM α}
    (hm : MonoV k Q m) (h : ∀ a, Q a → Q' a) : MonoV k Q' m :=
  ⟨fun s a s' hr hk => ⟨(hm.run s a s' hr hk).1, h a (hm.run s a s' hr hk).2⟩⟩

theorem monoV_pure {α : Type} {k : Nat} {Q : α → Prop} {a : α} (h : Q a) : MonoV k Q (pure a : CM α) := by
  constructor
  intro s b s' hr _
  simp only [pure_run, Except.ok.injEq, Prod.mk.injEq] at hr
  obtain ⟨rfl, rfl⟩ := hr
  exact ⟨Ext.refl _ _, h⟩

theorem mono_pure {α : Type} {k : Nat} {a : α} : Mono k (pure a : CM α) := monoV_pure trivial

/-- the state read by `get` has at least `k` bytes of bytecode -/
theorem mono_get {k : Nat} : MonoV k (fun st => k ≤ st.bytecode.size) (get : CM CState) := by
  constructor
  intro s b s' hr hk
  simp only [get_run, Except.ok.injEq, Prod.mk.injEq] at hr
  obtain ⟨rfl, rfl⟩ := hr
  exact ⟨Ext.refl _ _, hk⟩

theorem mono_modify {k : Nat} {f : CState → CState} (h : ∀ s, k ≤ s.bytecode.size → Ext k s (f s)) :
    Mono k (modify f : CM Unit) := by
  apply mono_intro
  intro s b s' hr hk
  simp only [modify_run, Except.ok.injEq, Prod.mk.injEq] at hr
  obtain ⟨_, rfl⟩ := hr
  exact h s hk

theorem mono_throw {α : Type} {k : Nat} {Q : α → Prop} {e : CErr} : MonoV k Q (throw e : CM α) := by
  constructor; intro s b s' hr _; simp at hr

theorem mono_fail {α : Type} {k : Nat} {Q : α → Prop} {e : CErrKind} : MonoV k Q (fail e : CM α) := by
  constructor; intro s b s' hr _; simp at hr

theorem mono_throw_bind {α β : Type} {k : Nat} {Q : β → Prop} {e : CErr} {f : α → CM β} :
    MonoV k Q ((throw e : CM α) >>= f) := by
  constructor; intro s b s' hr _
  obtain ⟨a, s1, h1, _⟩ := bind_ok.1 hr
  simp at h1

theorem mono_fail_bind {α β : Type} {k : Nat} {Q : β → Prop} {e : CErrKind} {f : α → CM β} :
    MonoV k Q ((fail e : CM α) >>= f) := by
  constructor; intro s b s' hr _
  obtain ⟨a, s1, h1, _⟩ := bind_ok.1 hr
  simp at h1

theorem mono_ite {α : Type} {k : Nat} {Q : α → Prop} {c : Prop} [Decidable c] {x y : CM α}
    (hx : MonoV k Q x) (hy : MonoV k Q y) : MonoV k Q (if c then x else y) := by
  split <;> assumption


/-- extensible: closes a goal `MonoV k ?Q m` for a known action `m` -/
syntax "mono_prim" : tactic
macro_rules | `(tactic| mono_prim) => `(tactic| assumption)

/-- one step of the syntax-directed proof of a `MonoV` goal -/
macro "mono_step" : tactic => `(tactic| first
  | mono_prim
  | dsimp only
  | with_reducible exact mono_throw_bind
  | with_reducible exact mono_fail_bind
  | with_reducible exact mono_pure
  | with_reducible exact mono_get
  | with_reducible exact mono_throw
  | with_reducible exact mono_fail
  | with_reducible apply mono_bind
  | with_reducible apply mono_ite
  | intro _
  | split)
macro "mono" : tactic => `(tactic| repeat' mono_step)

/-! ### primitives -/

theorem foldl_push_eq (bs : List UInt8) (a : Array UInt8) :
    bs.foldl (fun a b => a.push b) a = a ++ bs.toArray := by
  induction bs generalizing a with
  | nil => simp
  | cons b bs ih => simp [ih]

theorem Ext.append {k : Nat} {s s' : CState} {bs : Array UInt8} (hk : k ≤ s.bytecode.size)
    (hb : s'.bytecode = s.bytecode ++ bs) (ht : s'.trace = s.trace) : Ext k s s' := by
  refine ⟨by rw [hb]; simp, fun i hi => ?_, [], by simp [ht], by simp⟩
  rw [hb, Array.getElem?_append_left (by omega)]

theorem emitBytes_mono {k : Nat} (bs : List UInt8) : Mono k (emitBytes bs) := by
  unfold emitBytes
  exact mono_modify fun s hk => Ext.append hk (foldl_push_eq bs s.bytecode) rfl
macro_rules | `(tactic| mono_prim) => `(tactic| with_reducible exact emitBytes_mono _)

theorem emitU32_mono {k : Nat} (x : Nat) : Mono k (emitU32 x) := emitBytes_mono _
macro_rules | `(tactic| mono_prim) => `(tactic| with_reducible exact emitU32_mono _)

theorem curTrace_mono {k : Nat} : Mono k curTrace := by
  unfold curTrace; exact mono_bind mono_get fun _ _ => mono_pure
macro_rules | `(tactic| mono_prim) => `(tactic| with_reducible exact curTrace_mono)

theorem pushInstr_mono {k : Nat} (o : UInt8) : Mono k (pushInstr o) := by
  unfold pushInstr
  refine mono_bind curTrace_mono fun t _ => mono_modify fun s hk => ?_
  refine ⟨by simp, fun i hi => ?_, [(s.bytecode.size, t)], rfl, by simp⟩
  simp only [Array.push_eq_append]
  rw [Array.getElem?_append_left (by omega)]
macro_rules | `(tactic| mono_prim) => `(tactic| with_reducible exact pushInstr_mono _)

/-- a state update that touches neither the bytecode nor the trace -/
theorem mono_modify_other {k : Nat} {f : CState → CState}
    (hb : ∀ s, (f s).bytecode = s.bytecode) (ht : ∀ s, (f s).trace = s.trace) : Mono k (modify f : CM Unit) :=
  mono_modify fun s _ => Ext.of_eq (hb s) (ht s)
macro_rules | `(tactic| mono_prim) => `(tactic| with_reducible exact mono_modify_other (fun _ => rfl) (fun _ => rfl))

theorem pushSub_mono {k : Nat} (i : Nat) : Mono k (pushSub i) := by unfold pushSub; mono
theorem popSub_mono {k : Nat} : Mono k popSub := by unfold popSub; mono
macro_rules | `(tactic| mono_prim) => `(tactic| with_reducible exact pushSub_mono _)
macro_rules | `(tactic| mono_prim) => `(tactic| with_reducible exact popSub_mono)

theorem insertLabel_mono {k : Nat} (h : UInt32) (pos : Nat) : Mono k (insertLabel h pos) := by
  unfold insertLabel; mono
macro_rules | `(tactic| mono_prim) => `(tactic| with_reducible exact insertLabel_mono _ _)


theorem patch_bytes (at_ : Nat) (bs : List UInt8) (a : Array UInt8) :
    ((List.range 4).foldl (fun a i => a.set! (at_ + i) (bs.getD i 0)) a).size = a.size ∧
    ∀ i, i < at_ → ((List.range 4).foldl (fun a i => a.set! (at_ + i) (bs.getD i 0)) a)[i]? = a[i]? := by
  have hr : List.range 4 = [0, 1, 2, 3] := by decide
  simp only [hr, List.foldl_cons, List.foldl_nil, Array.set!_eq_setIfInBounds]
  refine ⟨by simp, fun i hi => ?_⟩
  repeat rw [Array.getElem?_setIfInBounds_ne (by omega)]

/-- back-patching at a position `≥ k` keeps the first `k` bytes (and the length) -/
theorem patchI32_mono {k at_ : Nat} (v : Nat) (h : k ≤ at_) : Mono k (patchI32 at_ v) := by
  unfold patchI32
  refine mono_modify fun s _ => ?_
  obtain ⟨h1, h2⟩ := patch_bytes at_ (le32 (UInt32.ofNat v)) s.bytecode
  dsimp only
  refine ⟨?_, ?_, [], ?_, ?_⟩
  · rw [h1]; exact Nat.le_refl _
  · intro i hi; rw [h2 i (Nat.lt_of_lt_of_le hi h)]
  · exact (List.append_nil _).symm
  · exact fun _ hp => nomatch hp
macro_rules | `(tactic| mono_prim) => `(tactic| with_reducible exact patchI32_mono _ (by assumption))

theorem scopeBegin_mono {k : Nat} : Mono k scopeBegin := by unfold scopeBegin; mono
macro_rules | `(tactic| mono_prim) => `(tactic| with_reducible exact scopeBegin_mono)

theorem scopeEnd_mono {k : Nat} : Mono k scopeEnd := by unfold scopeEnd; mono
macro_rules | `(tactic| mono_prim) => `(tactic| with_reducible exact scopeEnd_mono)

theorem addLocalUnchecked_mono {k : Nat} (n : String) : Mono k (addLocalUnchecked n) := by
  unfold addLocalUnchecked; mono
macro_rules | `(tactic| mono_prim) => `(tactic| with_reducible exact addLocalUnchecked_mono _)

theorem validateVarName_mono {k : Nat} (n : String) : Mono k (validateVarName n) := by
  unfold validateVarName; mono
macro_rules | `(tactic| mono_prim) => `(tactic| with_reducible exact validateVarName_mono _)

theorem addLocal_mono {k : Nat} (n : String) : Mono k (addLocal n) := by
  unfold addLocal; mono
macro_rules | `(tactic| mono_prim) => `(tactic| with_reducible exact addLocal_mono _)

theorem addUpvalue_mono {k : Nat} (i : UInt8) (l : Bool) (f : Nat) : Mono k (addUpvalue i l f) := by
  unfold addUpvalue; mono
macro_rules | `(tactic| mono_prim) => `(tactic| with_reducible exact addUpvalue_mono _ _ _)

theorem resolveUpvalue_mono {k : Nat} (n : String) : ∀ fid, Mono k (resolveUpvalue n fid)
  | 0 => by unfold resolveUpvalue; mono
  | fid+1 => by
    have ih := resolveUpvalue_mono (k := k) n fid
    unfold resolveUpvalue; mono
macro_rules | `(tactic| mono_prim) => `(tactic| with_reducible exact resolveUpvalue_mono _ _)

theorem resolveVar_mono {k : Nat} (n : String) : Mono k (resolveVar n) := by
  unfold resolveVar; mono
macro_rules | `(tactic| mono_prim) => `(tactic| with_reducible exact resolveVar_mono _)

theorem readLocalVar_mono {k : Nat} (i : Nat) : Mono k (readLocalVar i) := by unfold readLocalVar; mono
theorem writeLocalVar_mono {k : Nat} (i : Nat) : Mono k (writeLocalVar i) := by unfold writeLocalVar; mono
theorem readUpvalue_mono {k : Nat} (i : Nat) : Mono k (readUpvalue i) := by unfold readUpvalue; mono
theorem writeUpvalue_mono {k : Nat} (i : Nat) : Mono k (writeUpvalue i) := by unfold writeUpvalue; mono
macro_rules | `(tactic| mono_prim) => `(tactic| with_reducible exact readLocalVar_mono _)
macro_rules | `(tactic| mono_prim) => `(tactic| with_reducible exact writeLocalVar_mono _)
macro_rules | `(tactic| mono_prim) => `(tactic| with_reducible exact readUpvalue_mono _)
macro_rules | `(tactic| mono_prim) => `(tactic| with_reducible exact writeUpvalue_mono _)

theorem pushStr_mono {k : Nat} (x : String) : Mono k (pushStr x) := by unfold pushStr; mono
macro_rules | `(tactic| mono_prim) => `(tactic| with_reducible exact pushStr_mono _)

theorem globalId_mono {k : Nat} (x : String) : Mono k (globalId x) := by unfold globalId; mono
macro_rules | `(tactic| mono_prim) => `(tactic| with_reducible exact globalId_mono _)

theorem readProps_mono {k : Nat} : ∀ ps, Mono k (readProps ps)
  | [] => by unfold readProps; mono
  | p :: ps => by
    have ih := readProps_mono (k := k) ps
    unfold readProps; mono
macro_rules | `(tactic| mono_prim) => `(tactic| with_reducible exact readProps_mono _)

theorem readVarCard_mono {k : Nat} (x : String) : Mono k (readVarCard x) := by unfold readVarCard; mono
macro_rules | `(tactic| mono_prim) => `(tactic| with_reducible exact readVarCard_mono _)

theorem resolveFunction_mono {k : Nat} (x : String) : Mono k (resolveFunction x) := by
  unfold resolveFunction; mono
macro_rules | `(tactic| mono_prim) => `(tactic| with_reducible exact resolveFunction_mono _)

theorem encodeJump_mono {k : Nat} (x : String) : Mono k (encodeJump x) := by unfold encodeJump; mono
macro_rules | `(tactic| mono_prim) => `(tactic| with_reducible exact encodeJump_mono _)


/-! ### the combinators of `processCard` -/

theorem cardLabel_mono {k : Nat} : Mono k cardLabel := by unfold cardLabel; mono
macro_rules | `(tactic| mono_prim) => `(tactic| with_reducible exact cardLabel_mono)

theorem withSub_mono {k : Nat} {i : Nat} {m : CM Unit} (hm : Mono k m) : Mono k (withSub i m) := by
  unfold withSub; mono
macro_rules | `(tactic| mono_prim) => `(tactic| with_reducible apply withSub_mono)

theorem encodeIfThen_mono {k : Nat} {skip : UInt8} {m : CM Unit} (hm : Mono k m) :
    Mono k (encodeIfThen skip m) := by
  unfold encodeIfThen; mono
macro_rules | `(tactic| mono_prim) => `(tactic| with_reducible apply encodeIfThen_mono)

theorem encodeIfThenRet_mono {k : Nat} {Q : Nat → Prop} {skip : UInt8} {m : CM Nat} (hm : MonoV k Q m) :
    MonoV k Q (encodeIfThenRet skip m) := by
  unfold encodeIfThenRet
  mono
  exact monoV_pure (by assumption)

theorem addLocals_mono {k : Nat} : ∀ ps, Mono k (addLocals ps)
  | [] => by unfold addLocals; mono
  | p :: ps => by
    have ih := addLocals_mono (k := k) ps
    unfold addLocals; mono
macro_rules | `(tactic| mono_prim) => `(tactic| with_reducible exact addLocals_mono _)

theorem emitUpvalues_mono {k : Nat} : ∀ ups, Mono k (emitUpvalues ups)
  | [] => by unfold emitUpvalues; mono
  | (l, i) :: rest => by
    have ih := emitUpvalues_mono (k := k) rest
    unfold emitUpvalues; mono
macro_rules | `(tactic| mono_prim) => `(tactic| with_reducible exact emitUpvalues_mono _)

theorem scalarIntCode_mono {k : Nat} (i : Int64) : Mono k (scalarIntCode i) := by
  unfold scalarIntCode; mono
macro_rules | `(tactic| mono_prim) => `(tactic| with_reducible exact scalarIntCode_mono _)

theorem processScalarInt_mono {k : Nat} (i : Int64) : Mono k (processScalarInt i) := by
  unfold processScalarInt; mono
macro_rules | `(tactic| mono_prim) => `(tactic| with_reducible exact processScalarInt_mono _)

theorem bindLoopVar_mono {k : Nat} (n : Option String) (src : Nat) : Mono k (bindLoopVar n src) := by
  unfold bindLoopVar; mono
macro_rules | `(tactic| mono_prim) => `(tactic| with_reducible exact bindLoopVar_mono _ _)

theorem forEachCode_mono {k : Nat} {i kk v : Option String} {it body : CM Unit}
    (h1 : Mono k it) (h2 : Mono k body) : Mono k (forEachCode i kk v it body) := by
  unfold forEachCode; mono

theorem whileCode_mono {k : Nat} {c b : CM Unit} (h1 : Mono k c) (h2 : Mono k b) :
    Mono k (whileCode c b) := by
  unfold whileCode; mono

theorem repeatCode_mono {k : Nat} {i : Option String} {n b : CM Unit} (h1 : Mono k n) (h2 : Mono k b) :
    Mono k (repeatCode i n b) := by
  unfold repeatCode; mono

theorem setVarTarget_mono {k : Nat} (n : String) : Mono k (setVarTarget n) := by
  unfold setVarTarget; mono
macro_rules | `(tactic| mono_prim) => `(tactic| with_reducible exact setVarTarget_mono _)

theorem setVarCode_mono {k : Nat} {n : String} {v : CM Unit} (h : Mono k v) : Mono k (setVarCode n v) := by
  unfold setVarCode; mono

theorem setGlobalVarCode_mono {k : Nat} {n : String} {v : CM Unit} (h : Mono k v) :
    Mono k (setGlobalVarCode n v) := by
  unfold setGlobalVarCode; mono

theorem ifElseCode_mono {k : Nat} {c t e : CM Unit} (h1 : Mono k c) (h2 : Mono k t) (h3 : Mono k e) :
    Mono k (ifElseCode c t e) := by
  unfold ifElseCode
  apply mono_bind (withSub_mono h1); intro _ _
  apply mono_bind (pushSub_mono _); intro _ _
  apply mono_bind (Q := fun r => k ≤ r)
  · apply encodeIfThenRet_mono
    mono
    exact monoV_pure (by assumption)
  · intro idx hidx
    mono

theorem ifCode_mono {k : Nat} {skip : UInt8} {c b : CM Unit} (h1 : Mono k c) (h2 : Mono k b) :
    Mono k (ifCode skip c b) := by
  unfold ifCode; mono

theorem callCode_mono {k : Nat} {n : String} {a : CM Unit} (h : Mono k a) : Mono k (callCode n a) := by
  unfold callCode; mono

theorem callNativeCode_mono {k : Nat} {n : String} {a : CM Unit} (h : Mono k a) :
    Mono k (callNativeCode n a) := by
  unfold callNativeCode; mono

theorem compileBegin_mono {k : Nat} : Mono k compileBegin := by unfold compileBegin; mono
theorem compileEnd_mono {k : Nat} : Mono k compileEnd := by unfold compileEnd; mono
macro_rules | `(tactic| mono_prim) => `(tactic| with_reducible exact compileBegin_mono)
macro_rules | `(tactic| mono_prim) => `(tactic| with_reducible exact compileEnd_mono)

theorem closureCode_mono {k : Nat} {args : List String} {b : CM Unit} (h : Mono k b) :
    Mono k (closureCode args b) := by
  unfold closureCode; mono

theorem arrayCode_mono {k : Nat} {items : Nat → CM Unit} (h : ∀ tv, Mono k (items tv)) :
    Mono k (arrayCode items) := by
  unfold arrayCode; mono
  exact h _

theorem unCode_mono {k : Nat} {u : UnKind} {c : CM Unit} (h : Mono k c) : Mono k (unCode u c) := by
  unfold unCode; mono

theorem binCode_mono {k : Nat} {bk : BinKind} {a b : CM Unit} (h1 : Mono k a) (h2 : Mono k b) :
    Mono k (binCode bk a b) := by
  unfold binCode
  split
  · exact whileCode_mono h1 h2
  · exact ifCode_mono h1 h2
  · exact ifCode_mono h1 h2
  · mono

theorem triCode_mono {k : Nat} {tk : TriKind} {a b c : CM Unit} (h1 : Mono k a) (h2 : Mono k b)
    (h3 : Mono k c) : Mono k (triCode tk a b c) := by
  unfold triCode
  split
  · exact ifElseCode_mono h1 h2 h3
  · mono

theorem dynamicCallCode_mono {k : Nat} {a f : CM Unit} (h1 : Mono k a) (h2 : Mono k f) :
    Mono k (dynamicCallCode a f) := by
  unfold dynamicCallCode; mono


macro_rules | `(tactic| mono_prim) => `(tactic| with_reducible apply forEachCode_mono)
macro_rules | `(tactic| mono_prim) => `(tactic| with_reducible apply repeatCode_mono)
macro_rules | `(tactic| mono_prim) => `(tactic| with_reducible apply setVarCode_mono)
macro_rules | `(tactic| mono_prim) => `(tactic| with_reducible apply setGlobalVarCode_mono)
macro_rules | `(tactic| mono_prim) => `(tactic| with_reducible apply callCode_mono)
macro_rules | `(tactic| mono_prim) => `(tactic| with_reducible apply callNativeCode_mono)
macro_rules | `(tactic| mono_prim) => `(tactic| with_reducible apply closureCode_mono)
macro_rules | `(tactic| mono_prim) => `(tactic| with_reducible apply arrayCode_mono)
macro_rules | `(tactic| mono_prim) => `(tactic| with_reducible apply unCode_mono)
macro_rules | `(tactic| mono_prim) => `(tactic| with_reducible apply binCode_mono)
macro_rules | `(tactic| mono_prim) => `(tactic| with_reducible apply triCode_mono)
macro_rules | `(tactic| mono_prim) => `(tactic| with_reducible apply dynamicCallCode_mono)

/-- all three recursive functions extend the state -/
theorem processCard_mono_all (k : Nat) :
    (∀ c, Mono k (processCard c)) ∧
    (∀ tv i cs, Mono k (processArrayItems tv i cs)) ∧
    (∀ i cs, Mono k (compileSubexprFrom i cs)) := by
  apply processCard.mutual_induct
    (motive_1 := fun c => Mono k (processCard c))
    (motive_2 := fun tv i cs => Mono k (processArrayItems tv i cs))
    (motive_3 := fun i cs => Mono k (compileSubexprFrom i cs))
  all_goals
    intros
    simp only [processCard, processArrayItems, compileSubexprFrom]
    mono

theorem processCard_mono {k : Nat} (c : Card) : Mono k (processCard c) := (processCard_mono_all k).1 c
theorem processArrayItems_mono {k : Nat} (tv i : Nat) (cs : List Card) :
    Mono k (processArrayItems tv i cs) := (processCard_mono_all k).2.1 tv i cs
theorem compileSubexprFrom_mono {k : Nat} (i : Nat) (cs : List Card) :
    Mono k (compileSubexprFrom i cs) := (processCard_mono_all k).2.2 i cs
theorem compileSubexpr_mono {k : Nat} (cs : List Card) : Mono k (compileSubexpr cs) :=
  compileSubexprFrom_mono 0 cs


/-! ## (c) balance of the bookkeeping

`shape s` collects the bookkeeping fields; `Hs p q m` says that `m` takes a state of shape `p`
(with at least one `locals` context) to a state of shape `q`. -/

structure Shape where
  curIndices : List Nat
  functionId : Nat
  scopeDepth : List Int
  nLocals : Nat
  nUpvalues : Nat

def shape (s : CState) : Shape :=
  { curIndices := s.curIndices, functionId := s.functionId, scopeDepth := s.scopeDepth,
    nLocals := s.locals.length, nUpvalues := s.upvalues.length }

structure Hs {α : Type} (p q : Shape) (m : CM α) : Prop where
  run : ∀ s a s', m s = .ok (a, s') → shape s = p → p.nLocals ≠ 0 → shape s' = q

theorem hs_bind {α β : Type} {p q r : Shape} {m : CM α} {f : α → CM β}
    (hm : Hs p q m) (hq : p.nLocals ≠ 0 → q.nLocals ≠ 0) (hf : ∀ a, Hs q r (f a)) : Hs p r (m >>= f) := by
  constructor
  intro s b s'' h hp hn
  obtain ⟨a, s', h1, h2⟩ := bind_ok.1 h
  exact (hf a).run s' b s'' h2 (hm.run s a s' h1 hp hn) (hq hn)

theorem hs_pure {α : Type} {p : Shape} {a : α} : Hs p p (pure a : CM α) := by
  constructor
  intro s b s' hr hp _
  simp only [pure_run, Except.ok.injEq, Prod.mk.injEq] at hr
  obtain ⟨_, rfl⟩ := hr
  exact hp

theorem hs_get {p : Shape} : Hs p p (get : CM CState) := by
  constructor
  intro s b s' hr hp _
  simp only [get_run, Except.ok.injEq, Prod.mk.injEq] at hr
  obtain ⟨_, rfl⟩ := hr
  exact hp

theorem hs_modify {p q : Shape} {f : CState → CState}
    (h : ∀ s, shape s = p → p.nLocals ≠ 0 → shape (f s) = q) : Hs p q (modify f : CM Unit) := by
  constructor
  intro s b s' hr hp hn
  simp only [modify_run, Except.ok.injEq, Prod.mk.injEq] at hr
  obtain ⟨_, rfl⟩ := hr
  exact h s hp hn

/-- a state update that keeps the shape (given at least one `locals` context) -/
theorem hs_modify_same {p : Shape} {f : CState → CState}
    (h : ∀ s, s.locals.length ≠ 0 → shape (f s) = shape s) : Hs p p (modify f : CM Unit) :=
  hs_modify fun s hp hn => by rw [h s (by rw [← hp] at hn; exact hn), hp]

theorem hs_throw {α : Type} {p q : Shape} {e : CErr} : Hs p q (throw e : CM α) := by
  constructor; intro s b s' hr _; simp at hr

theorem hs_fail {α : Type} {p q : Shape} {e : CErrKind} : Hs p q (fail e : CM α) := by
  constructor; intro s b s' hr _; simp at hr

theorem hs_throw_bind {α β : Type} {p q : Shape} {e : CErr} {f : α → CM β} :
    Hs p q ((throw e : CM α) >>= f) := by
  constructor; intro s b s' hr _
  obtain ⟨a, s1, h1, _⟩ := bind_ok.1 hr
  simp at h1

theorem hs_fail_bind {α β : Type} {p q : Shape} {e : CErrKind} {f : α → CM β} :
    Hs p q ((fail e : CM α) >>= f) := by
  constructor; intro s b s' hr _
  obtain ⟨a, s1, h1, _⟩ := bind_ok.1 hr
  simp at h1

/-- (the `else` branch comes first so that it determines an unknown `q`) -/
theorem hs_ite {α : Type} {p q : Shape} {c : Prop} [Decidable c] {x y : CM α}
    (hy : Hs p q y) (hx : Hs p q x) : Hs p q (if c then x else y) := by
  split <;> assumption

/-- extensible: closes a goal `Hs p ?q m` for a known action `m` -/
syntax "hs_prim" : tactic
macro_rules | `(tactic| hs_prim) => `(tactic| with_reducible exact (by assumption : ∀ p, Hs p p _) _)

macro "hs_step" : tactic => `(tactic| first
  | assumption
  | hs_prim
  | dsimp only
  | with_reducible exact hs_throw_bind
  | with_reducible exact hs_fail_bind
  | with_reducible exact hs_pure
  | with_reducible exact hs_get
  | with_reducible exact hs_throw
  | with_reducible exact hs_fail
  | with_reducible exact hs_modify_same (fun _ _ => rfl)
  | exact id
  | exact fun _ => Nat.succ_ne_zero _
  | with_reducible apply hs_bind
  | with_reducible apply hs_ite
  | intro _
  | split)
macro "hs" : tactic => `(tactic| repeat' hs_step)

theorem curTrace_hs {p : Shape} : Hs p p curTrace := by unfold curTrace; hs
macro_rules | `(tactic| hs_prim) => `(tactic| with_reducible exact curTrace_hs)

theorem emitBytes_hs {p : Shape} (bs : List UInt8) : Hs p p (emitBytes bs) := by unfold emitBytes; hs
macro_rules | `(tactic| hs_prim) => `(tactic| with_reducible exact emitBytes_hs _)
theorem emitU32_hs {p : Shape} (x : Nat) : Hs p p (emitU32 x) := emitBytes_hs _
macro_rules | `(tactic| hs_prim) => `(tactic| with_reducible exact emitU32_hs _)

theorem pushInstr_hs {p : Shape} (o : UInt8) : Hs p p (pushInstr o) := by unfold pushInstr; hs
macro_rules | `(tactic| hs_prim) => `(tactic| with_reducible exact pushInstr_hs _)

theorem insertLabel_hs {p : Shape} (h : UInt32) (pos : Nat) : Hs p p (insertLabel h pos) := by
  unfold insertLabel; hs
macro_rules | `(tactic| hs_prim) => `(tactic| with_reducible exact insertLabel_hs _ _)

theorem patchI32_hs {p : Shape} (a v : Nat) : Hs p p (patchI32 a v) := by unfold patchI32; hs
macro_rules | `(tactic| hs_prim) => `(tactic| with_reducible exact patchI32_hs _ _)


/-! ### the bracketing primitives -/

theorem pushSub_hs {p : Shape} (i : Nat) :
    Hs p { p with curIndices := p.curIndices ++ [i] } (pushSub i) := by
  unfold pushSub
  exact hs_modify fun s hp _ => by rw [← hp]; rfl
macro_rules | `(tactic| hs_prim) => `(tactic| with_reducible exact pushSub_hs _)

theorem popSub_hs {p : Shape} {i : Nat} :
    Hs { p with curIndices := p.curIndices ++ [i] } p popSub := by
  unfold popSub
  refine hs_modify fun s hp _ => ?_
  cases p
  simp only [shape, Shape.mk.injEq] at hp ⊢
  simp [hp]
macro_rules | `(tactic| hs_prim) => `(tactic| with_reducible exact popSub_hs)

/-- the effect of `scope_begin` on the `scopeDepth` stack -/
def depthUp (l : List Int) : List Int :=
  match l.reverse with
  | d :: r => ((d + 1) :: r).reverse
  | [] => []

def depthDown (l : List Int) : List Int :=
  match l.reverse with
  | d :: r => ((d - 1) :: r).reverse
  | [] => []

theorem depthDown_depthUp (l : List Int) : depthDown (depthUp l) = l := by
  unfold depthUp
  cases h : l.reverse with
  | nil => simp only [depthDown]; simp at h; simp [h]
  | cons d r =>
    simp only [depthDown, List.reverse_reverse]
    have : d + 1 - 1 = d := by omega
    rw [this, ← h, List.reverse_reverse]

theorem scopeBegin_hs {p : Shape} : Hs p { p with scopeDepth := depthUp p.scopeDepth } scopeBegin := by
  unfold scopeBegin
  exact hs_modify fun s hp _ => by rw [← hp]; rfl
macro_rules | `(tactic| hs_prim) => `(tactic| with_reducible exact scopeBegin_hs)

theorem scopeEnd_hs {p : Shape} : Hs { p with scopeDepth := depthUp p.scopeDepth } p scopeEnd := by
  unfold scopeEnd
  apply hs_bind (q := p)
  · refine hs_modify fun s hp _ => ?_
    cases p
    simp only [shape, Shape.mk.injEq] at hp ⊢
    obtain ⟨h1, h2, h3, h4, h5⟩ := hp
    refine ⟨h1, h2, ?_, h4, h5⟩
    rw [h3]; exact depthDown_depthUp _
  · exact id
  · intro _; hs
    exact hs_modify_same fun s _ => by simp [shape]
macro_rules | `(tactic| hs_prim) => `(tactic| with_reducible exact scopeEnd_hs)

/-- the shape inside a closure body (`compile_begin`) -/
def Shape.enter (p : Shape) : Shape :=
  { curIndices := p.curIndices, functionId := p.functionId + 1, scopeDepth := p.scopeDepth ++ [0],
    nLocals := p.nLocals + 1, nUpvalues := p.nUpvalues + 1 }

theorem compileBegin_hs {p : Shape} : Hs p p.enter compileBegin := by
  unfold compileBegin
  exact hs_modify fun s hp _ => by rw [← hp]; simp [shape, Shape.enter]
macro_rules | `(tactic| hs_prim) => `(tactic| with_reducible exact compileBegin_hs)

theorem compileEnd_hs {p : Shape} : Hs p.enter p compileEnd := by
  unfold compileEnd
  refine hs_modify fun s hp _ => ?_
  cases p
  simp only [shape, Shape.enter, Shape.mk.injEq] at hp ⊢
  obtain ⟨h1, h2, h3, h4, h5⟩ := hp
  refine ⟨h1, by omega, by simp [h3], by simp [h4], by simp [h5]⟩
macro_rules | `(tactic| hs_prim) => `(tactic| with_reducible exact compileEnd_hs)

/-! ### balanced primitives -/

theorem addLocalUnchecked_hs {p : Shape} (n : String) : Hs p p (addLocalUnchecked n) := by
  unfold addLocalUnchecked; hs
  exact hs_modify_same fun s h => by simp [shape]; omega
macro_rules | `(tactic| hs_prim) => `(tactic| with_reducible exact addLocalUnchecked_hs _)

theorem validateVarName_hs {p : Shape} (n : String) : Hs p p (validateVarName n) := by
  unfold validateVarName; hs
macro_rules | `(tactic| hs_prim) => `(tactic| with_reducible exact validateVarName_hs _)

theorem addLocal_hs {p : Shape} (n : String) : Hs p p (addLocal n) := by unfold addLocal; hs
macro_rules | `(tactic| hs_prim) => `(tactic| with_reducible exact addLocal_hs _)

theorem addUpvalue_hs {p : Shape} (i : UInt8) (l : Bool) (f : Nat) : Hs p p (addUpvalue i l f) := by
  unfold addUpvalue; hs
  exact hs_modify_same fun s _ => by simp [shape]
macro_rules | `(tactic| hs_prim) => `(tactic| with_reducible exact addUpvalue_hs _ _ _)

theorem resolveUpvalue_hs (n : String) : ∀ (fid : Nat) (p : Shape), Hs p p (resolveUpvalue n fid)
  | 0, p => by unfold resolveUpvalue; hs
  | fid+1, p => by
    have ih := resolveUpvalue_hs n fid
    unfold resolveUpvalue; hs
    exact hs_modify_same fun s _ => by simp [shape]
macro_rules | `(tactic| hs_prim) => `(tactic| with_reducible exact resolveUpvalue_hs _ _ _)

theorem resolveVar_hs {p : Shape} (n : String) : Hs p p (resolveVar n) := by unfold resolveVar; hs
macro_rules | `(tactic| hs_prim) => `(tactic| with_reducible exact resolveVar_hs _)

theorem readLocalVar_hs {p : Shape} (i : Nat) : Hs p p (readLocalVar i) := by unfold readLocalVar; hs
theorem writeLocalVar_hs {p : Shape} (i : Nat) : Hs p p (writeLocalVar i) := by unfold writeLocalVar; hs
theorem readUpvalue_hs {p : Shape} (i : Nat) : Hs p p (readUpvalue i) := by unfold readUpvalue; hs
theorem writeUpvalue_hs {p : Shape} (i : Nat) : Hs p p (writeUpvalue i) := by unfold writeUpvalue; hs
macro_rules | `(tactic| hs_prim) => `(tactic| with_reducible exact readLocalVar_hs _)
macro_rules | `(tactic| hs_prim) => `(tactic| with_reducible exact writeLocalVar_hs _)
macro_rules | `(tactic| hs_prim) => `(tactic| with_reducible exact readUpvalue_hs _)
macro_rules | `(tactic| hs_prim) => `(tactic| with_reducible exact writeUpvalue_hs _)

theorem pushStr_hs {p : Shape} (x : String) : Hs p p (pushStr x) := by unfold pushStr; hs
macro_rules | `(tactic| hs_prim) => `(tactic| with_reducible exact pushStr_hs _)

theorem globalId_hs {p : Shape} (x : String) : Hs p p (globalId x) := by unfold globalId; hs
macro_rules | `(tactic| hs_prim) => `(tactic| with_reducible exact globalId_hs _)

theorem readProps_hs : ∀ (ps : List String) (p : Shape), Hs p p (readProps ps)
  | [], p => by unfold readProps; hs
  | x :: ps, p => by
    have ih := readProps_hs ps
    unfold readProps; hs
macro_rules | `(tactic| hs_prim) => `(tactic| with_reducible exact readProps_hs _ _)

theorem readVarCard_hs {p : Shape} (x : String) : Hs p p (readVarCard x) := by unfold readVarCard; hs
macro_rules | `(tactic| hs_prim) => `(tactic| with_reducible exact readVarCard_hs _)

theorem resolveFunction_hs {p : Shape} (x : String) : Hs p p (resolveFunction x) := by
  unfold resolveFunction; hs
macro_rules | `(tactic| hs_prim) => `(tactic| with_reducible exact resolveFunction_hs _)

theorem encodeJump_hs {p : Shape} (x : String) : Hs p p (encodeJump x) := by unfold encodeJump; hs
macro_rules | `(tactic| hs_prim) => `(tactic| with_reducible exact encodeJump_hs _)


/-! ### the combinators -/

/-- `m` keeps the shape, whatever it is -/
def Bal {α : Type} (m : CM α) : Prop := ∀ p, Hs p p m

theorem cardLabel_hs {p : Shape} : Hs p p cardLabel := by unfold cardLabel; hs
macro_rules | `(tactic| hs_prim) => `(tactic| with_reducible exact cardLabel_hs)

theorem withSub_hs {p : Shape} {i : Nat} {m : CM Unit} (hm : ∀ p, Hs p p m) : Hs p p (withSub i m) := by
  unfold withSub; hs
macro_rules | `(tactic| hs_prim) => `(tactic| with_reducible apply withSub_hs)

theorem encodeIfThen_hs {p : Shape} {skip : UInt8} {m : CM Unit} (hm : ∀ p, Hs p p m) :
    Hs p p (encodeIfThen skip m) := by
  unfold encodeIfThen; hs
macro_rules | `(tactic| hs_prim) => `(tactic| with_reducible apply encodeIfThen_hs)

theorem encodeIfThenRet_hs {p : Shape} {skip : UInt8} {m : CM Nat} (hm : ∀ p, Hs p p m) :
    Hs p p (encodeIfThenRet skip m) := by
  unfold encodeIfThenRet; hs
macro_rules | `(tactic| hs_prim) => `(tactic| with_reducible apply encodeIfThenRet_hs)

theorem addLocals_hs : ∀ (ps : List String) (p : Shape), Hs p p (addLocals ps)
  | [], p => by unfold addLocals; hs
  | x :: ps, p => by
    have ih := addLocals_hs ps
    unfold addLocals; hs
macro_rules | `(tactic| hs_prim) => `(tactic| with_reducible exact addLocals_hs _ _)

theorem emitUpvalues_hs : ∀ (ups : List (Bool × UInt8)) (p : Shape), Hs p p (emitUpvalues ups)
  | [], p => by unfold emitUpvalues; hs
  | (l, i) :: rest, p => by
    have ih := emitUpvalues_hs rest
    unfold emitUpvalues; hs
macro_rules | `(tactic| hs_prim) => `(tactic| with_reducible exact emitUpvalues_hs _ _)

theorem scalarIntCode_hs {p : Shape} (i : Int64) : Hs p p (scalarIntCode i) := by
  unfold scalarIntCode; hs
macro_rules | `(tactic| hs_prim) => `(tactic| with_reducible exact scalarIntCode_hs _)

theorem processScalarInt_hs {p : Shape} (i : Int64) : Hs p p (processScalarInt i) := by
  unfold processScalarInt; hs
macro_rules | `(tactic| hs_prim) => `(tactic| with_reducible exact processScalarInt_hs _)

theorem bindLoopVar_hs {p : Shape} (n : Option String) (src : Nat) : Hs p p (bindLoopVar n src) := by
  unfold bindLoopVar; hs
macro_rules | `(tactic| hs_prim) => `(tactic| with_reducible exact bindLoopVar_hs _ _)

theorem forEachCode_hs {p : Shape} {i kk v : Option String} {it body : CM Unit}
    (h1 : ∀ p, Hs p p it) (h2 : ∀ p, Hs p p body) : Hs p p (forEachCode i kk v it body) := by
  unfold forEachCode; hs

theorem whileCode_hs {p : Shape} {c b : CM Unit} (h1 : ∀ p, Hs p p c) (h2 : ∀ p, Hs p p b) :
    Hs p p (whileCode c b) := by
  unfold whileCode; hs

theorem repeatCode_hs {p : Shape} {i : Option String} {n b : CM Unit}
    (h1 : ∀ p, Hs p p n) (h2 : ∀ p, Hs p p b) : Hs p p (repeatCode i n b) := by
  unfold repeatCode; hs

theorem setVarTarget_hs {p : Shape} (n : String) : Hs p p (setVarTarget n) := by
  unfold setVarTarget; hs
macro_rules | `(tactic| hs_prim) => `(tactic| with_reducible exact setVarTarget_hs _)

theorem setVarCode_hs {p : Shape} {n : String} {v : CM Unit} (h : ∀ p, Hs p p v) :
    Hs p p (setVarCode n v) := by
  unfold setVarCode; hs

theorem setGlobalVarCode_hs {p : Shape} {n : String} {v : CM Unit} (h : ∀ p, Hs p p v) :
    Hs p p (setGlobalVarCode n v) := by
  unfold setGlobalVarCode; hs

theorem ifElseCode_hs {p : Shape} {c t e : CM Unit}
    (h1 : ∀ p, Hs p p c) (h2 : ∀ p, Hs p p t) (h3 : ∀ p, Hs p p e) : Hs p p (ifElseCode c t e) := by
  unfold ifElseCode; hs

theorem ifCode_hs {p : Shape} {skip : UInt8} {c b : CM Unit} (h1 : ∀ p, Hs p p c) (h2 : ∀ p, Hs p p b) :
    Hs p p (ifCode skip c b) := by
  unfold ifCode; hs

theorem callCode_hs {p : Shape} {n : String} {a : CM Unit} (h : ∀ p, Hs p p a) :
    Hs p p (callCode n a) := by
  unfold callCode; hs

theorem callNativeCode_hs {p : Shape} {n : String} {a : CM Unit} (h : ∀ p, Hs p p a) :
    Hs p p (callNativeCode n a) := by
  unfold callNativeCode; hs

theorem closureCode_hs {p : Shape} {args : List String} {b : CM Unit} (h : ∀ p, Hs p p b) :
    Hs p p (closureCode args b) := by
  unfold closureCode; hs

theorem arrayCode_hs {p : Shape} {items : Nat → CM Unit} (h : ∀ tv p, Hs p p (items tv)) :
    Hs p p (arrayCode items) := by
  unfold arrayCode; hs
  exact h _ _

theorem unCode_hs {p : Shape} {u : UnKind} {c : CM Unit} (h : ∀ p, Hs p p c) : Hs p p (unCode u c) := by
  unfold unCode; hs

theorem binCode_hs {p : Shape} {bk : BinKind} {a b : CM Unit} (h1 : ∀ p, Hs p p a) (h2 : ∀ p, Hs p p b) :
    Hs p p (binCode bk a b) := by
  unfold binCode
  split
  · exact whileCode_hs h1 h2
  · exact ifCode_hs h1 h2
  · exact ifCode_hs h1 h2
  · hs

theorem triCode_hs {p : Shape} {tk : TriKind} {a b c : CM Unit}
    (h1 : ∀ p, Hs p p a) (h2 : ∀ p, Hs p p b) (h3 : ∀ p, Hs p p c) : Hs p p (triCode tk a b c) := by
  unfold triCode
  split
  · exact ifElseCode_hs h1 h2 h3
  · hs

theorem dynamicCallCode_hs {p : Shape} {a f : CM Unit} (h1 : ∀ p, Hs p p a) (h2 : ∀ p, Hs p p f) :
    Hs p p (dynamicCallCode a f) := by
  unfold dynamicCallCode; hs

macro_rules | `(tactic| hs_prim) => `(tactic| with_reducible apply forEachCode_hs)
macro_rules | `(tactic| hs_prim) => `(tactic| with_reducible apply repeatCode_hs)
macro_rules | `(tactic| hs_prim) => `(tactic| with_reducible apply setVarCode_hs)
macro_rules | `(tactic| hs_prim) => `(tactic| with_reducible apply setGlobalVarCode_hs)
macro_rules | `(tactic| hs_prim) => `(tactic| with_reducible apply callCode_hs)
macro_rules | `(tactic| hs_prim) => `(tactic| with_reducible apply callNativeCode_hs)
macro_rules | `(tactic| hs_prim) => `(tactic| with_reducible apply closureCode_hs)
macro_rules | `(tactic| hs_prim) => `(tactic| with_reducible apply arrayCode_hs)
macro_rules | `(tactic| hs_prim) => `(tactic| with_reducible apply unCode_hs)
macro_rules | `(tactic| hs_prim) => `(tactic| with_reducible apply binCode_hs)
macro_rules | `(tactic| hs_prim) => `(tactic| with_reducible apply triCode_hs)
macro_rules | `(tactic| hs_prim) => `(tactic| with_reducible apply dynamicCallCode_hs)

/-- all three recursive functions keep the shape -/
theorem processCard_hs_all :
    (∀ c p, Hs p p (processCard c)) ∧
    (∀ tv i cs p, Hs p p (processArrayItems tv i cs)) ∧
    (∀ i cs p, Hs p p (compileSubexprFrom i cs)) := by
  apply processCard.mutual_induct
    (motive_1 := fun c => ∀ p, Hs p p (processCard c))
    (motive_2 := fun tv i cs => ∀ p, Hs p p (processArrayItems tv i cs))
    (motive_3 := fun i cs => ∀ p, Hs p p (compileSubexprFrom i cs))
  all_goals
    intros
    simp only [processCard, processArrayItems, compileSubexprFrom]
    hs


theorem processCard_hs {p : Shape} (c : Card) : Hs p p (processCard c) := processCard_hs_all.1 c p
theorem processArrayItems_hs {p : Shape} (tv i : Nat) (cs : List Card) :
    Hs p p (processArrayItems tv i cs) := processCard_hs_all.2.1 tv i cs p
theorem compileSubexprFrom_hs {p : Shape} (i : Nat) (cs : List Card) :
    Hs p p (compileSubexprFrom i cs) := processCard_hs_all.2.2 i cs p
theorem compileSubexpr_hs {p : Shape} (cs : List Card) : Hs p p (compileSubexpr cs) :=
  compileSubexprFrom_hs 0 cs

/-! ## the statements, for all cards

`(m.run s = .ok (a, s'))` is definitionally `m s = .ok (a, s')`. -/

/-- what (a) and (b) say about a successful run from `s` to `s'` -/
structure Extends (s s' : CState) : Prop where
  /-- (a) the bytecode only grows … -/
  size_le : s.bytecode.size ≤ s'.bytecode.size
  /-- (a) … and the bytes that were there are unchanged (back-patching only touches placeholders
      emitted by the action itself) -/
  pref : ∀ i, i < s.bytecode.size → s'.bytecode[i]? = s.bytecode[i]?
  /-- (b) the trace log is extended by entries keyed by positions of the new bytes -/
  trace : ∃ t, s'.trace = s.trace ++ t ∧ ∀ p ∈ t, s.bytecode.size ≤ p.1 ∧ p.1 < s'.bytecode.size

theorem Mono.extends {α : Type} {m : CM α} (hm : ∀ k, Mono k m) {s s' : CState} {a : α}
    (h : m.run s = .ok (a, s')) : Extends s s' :=
  have e := ((hm s.bytecode.size).run s a s' h (Nat.le_refl _)).1
  ⟨e.size_le, e.pref, e.trace⟩

/-- the balance statement (c) about a successful run from `s` to `s'` -/
structure Balanced (s s' : CState) : Prop where
  curIndices : s'.curIndices = s.curIndices
  functionId : s'.functionId = s.functionId
  scopeDepth : s'.scopeDepth = s.scopeDepth
  locals : s'.locals.length = s.locals.length
  upvalues : s'.upvalues.length = s.upvalues.length

theorem Hs.balanced {α : Type} {m : CM α} (hm : ∀ p, Hs p p m) {s s' : CState} {a : α}
    (h : m.run s = .ok (a, s')) (hl : s.locals ≠ []) : Balanced s s' := by
  have e := (hm (shape s)).run s a s' h rfl (by simpa [shape] using hl)
  simp only [shape, Shape.mk.injEq] at e
  exact ⟨e.1, e.2.1, e.2.2.1, e.2.2.2.1, e.2.2.2.2⟩

/-- (a)+(b) for `processCard` -/
theorem processCard_extends {c : Card} {s s' : CState} (h : (processCard c).run s = .ok ((), s')) :
    Extends s s' := Mono.extends (fun _ => processCard_mono c) h

/-- (a)+(b) for `compileSubexpr` (the list version) -/
theorem compileSubexpr_extends {cs : List Card} {s s' : CState}
    (h : (compileSubexpr cs).run s = .ok ((), s')) : Extends s s' :=
  Mono.extends (fun _ => compileSubexpr_mono cs) h

theorem compileSubexprFrom_extends {i : Nat} {cs : List Card} {s s' : CState}
    (h : (compileSubexprFrom i cs).run s = .ok ((), s')) : Extends s s' :=
  Mono.extends (fun _ => compileSubexprFrom_mono i cs) h

theorem processArrayItems_extends {tv i : Nat} {cs : List Card} {s s' : CState}
    (h : (processArrayItems tv i cs).run s = .ok ((), s')) : Extends s s' :=
  Mono.extends (fun _ => processArrayItems_mono tv i cs) h

/-- (a) `processCard` only appends to the bytecode (back-patching keeps the length) -/
theorem processCard_bytecode_size_le {c : Card} {s s' : CState}
    (h : (processCard c).run s = .ok ((), s')) : s.bytecode.size ≤ s'.bytecode.size :=
  (processCard_extends h).size_le

/-- (a) prefix property -/
theorem processCard_bytecode_prefix {c : Card} {s s' : CState}
    (h : (processCard c).run s = .ok ((), s')) (i : Nat) (hi : i < s.bytecode.size) :
    s'.bytecode[i]? = s.bytecode[i]? :=
  (processCard_extends h).pref i hi

/-- (b) every trace entry of the result is an old one or is keyed by a position in the new part of
    the bytecode; in particular its key is `< s'.bytecode.size` -/
theorem processCard_trace_keys {c : Card} {s s' : CState}
    (h : (processCard c).run s = .ok ((), s')) (p : Nat × Trace) (hp : p ∈ s'.trace) :
    p ∈ s.trace ∨ (s.bytecode.size ≤ p.1 ∧ p.1 < s'.bytecode.size) := by
  obtain ⟨t, ht, hk⟩ := (processCard_extends h).trace
  rw [ht] at hp
  rcases List.mem_append.1 hp with hp | hp
  · exact .inl hp
  · exact .inr (hk p hp)

/-- (c) for `processCard` -/
theorem processCard_balanced {c : Card} {s s' : CState}
    (h : (processCard c).run s = .ok ((), s')) (hl : s.locals ≠ []) : Balanced s s' :=
  Hs.balanced (fun _ => processCard_hs c) h hl

/-- (c) for `compileSubexpr` -/
theorem compileSubexpr_balanced {cs : List Card} {s s' : CState}
    (h : (compileSubexpr cs).run s = .ok ((), s')) (hl : s.locals ≠ []) : Balanced s s' :=
  Hs.balanced (fun _ => compileSubexpr_hs cs) h hl

theorem compileSubexprFrom_balanced {i : Nat} {cs : List Card} {s s' : CState}
    (h : (compileSubexprFrom i cs).run s = .ok ((), s')) (hl : s.locals ≠ []) : Balanced s s' :=
  Hs.balanced (fun _ => compileSubexprFrom_hs i cs) h hl

theorem processArrayItems_balanced {tv i : Nat} {cs : List Card} {s s' : CState}
    (h : (processArrayItems tv i cs).run s = .ok ((), s')) (hl : s.locals ≠ []) : Balanced s s' :=
  Hs.balanced (fun _ => processArrayItems_hs tv i cs) h hl

/-! ### the hypothesis `s.locals ≠ []` of (c) is needed

`addLocalUnchecked` rebuilds the list of contexts as `locals.dropLast ++ [last ++ [l]]`, so from a
state without any `locals` context it *creates* one: the unconditional balance statement is false.
(The initial state and every state reached by `compileUnit` have at least one context.) -/

/-- number of `locals` contexts after a successful run (0 on error) -/
def nLocalsAfter (m : CM Unit) (s : CState) : Nat :=
  match m.run s with
  | .ok (_, s') => s'.locals.length
  | .error _ => 0

theorem nLocalsAfter_array_nil : nLocalsAfter (processCard (.array [])) { locals := [] } = 1 := by decide

/-- counterexample to (c) without the hypothesis on `locals` -/
theorem processCard_not_balanced_without_locals :
    ∃ (c : Card) (s s' : CState), (processCard c).run s = .ok ((), s') ∧
      s'.locals.length ≠ s.locals.length := by
  have h1 := nLocalsAfter_array_nil
  unfold nLocalsAfter at h1
  cases h : (processCard (.array [])).run { locals := [] } with
  | error e => rw [h] at h1; cases h1
  | ok r =>
    obtain ⟨⟨⟩, s'⟩ := r
    rw [h] at h1
    exact ⟨_, _, s', h, by simp only at h1; rw [h1]; decide⟩

/-! ## the whole compilation unit -/

theorem processFunctionCards_mono {k : Nat} : ∀ i cs, Mono k (processFunctionCards i cs)
  | _, [] => by unfold processFunctionCards; mono
  | i, c :: cs => by
    have ih := processFunctionCards_mono (k := k) (i + 1) cs
    have hc := processCard_mono (k := k) c
    unfold processFunctionCards; mono
macro_rules | `(tactic| mono_prim) => `(tactic| with_reducible exact processFunctionCards_mono _ _)

theorem processFunction_mono {k : Nat} (f : FunctionIr) : Mono k (processFunction f) := by
  unfold processFunction; mono
macro_rules | `(tactic| mono_prim) => `(tactic| with_reducible exact processFunction_mono _)

theorem addFunction_mono {k : Nat} (f : FunctionIr) : Mono k (addFunction f) := by
  unfold addFunction; mono
macro_rules | `(tactic| mono_prim) => `(tactic| with_reducible exact addFunction_mono _)

theorem addFunctions_mono {k : Nat} : ∀ fs, Mono k (addFunctions fs)
  | [] => by unfold addFunctions; mono
  | f :: fs => by
    have ih := addFunctions_mono (k := k) fs
    unfold addFunctions; mono
macro_rules | `(tactic| mono_prim) => `(tactic| with_reducible exact addFunctions_mono _)

theorem compileFunction_mono {k : Nat} (f : FunctionIr) : Mono k (compileFunction f) := by
  unfold compileFunction; mono
macro_rules | `(tactic| mono_prim) => `(tactic| with_reducible exact compileFunction_mono _)

theorem compileFunctions_mono {k : Nat} : ∀ fs, Mono k (compileFunctions fs)
  | [] => by unfold compileFunctions; mono
  | f :: fs => by
    have ih := compileFunctions_mono (k := k) fs
    unfold compileFunctions; mono
macro_rules | `(tactic| mono_prim) => `(tactic| with_reducible exact compileFunctions_mono _)

theorem compileUnit_mono {k : Nat} (unit : Array FunctionIr) : Mono k (compileUnit unit) := by
  have hc := processCard_mono (k := k) .abort
  unfold compileUnit; mono

theorem compileUnit_extends {unit : Array FunctionIr} {s s' : CState}
    (h : (compileUnit unit).run s = .ok ((), s')) : Extends s s' :=
  Mono.extends (fun _ => compileUnit_mono unit) h

/-- every trace key produced by `compileUnit` from the initial state is a bytecode position -/
theorem compileUnit_trace_keys {unit : Array FunctionIr} {s' : CState}
    (h : (compileUnit unit).run {} = .ok ((), s')) (p : Nat × Trace) (hp : p ∈ s'.trace) :
    p.1 < s'.bytecode.size := by
  obtain ⟨t, ht, hk⟩ := (compileUnit_extends h).trace
  rw [ht] at hp
  simp only [List.nil_append] at hp
  exact (hk p hp).2

theorem resolveLog_subset {α β : Type} [BEq α] (log : List (α × β)) :
    ∀ p ∈ resolveLog log, p ∈ log := by
  unfold resolveLog
  suffices h : ∀ (acc : List (α × β)) (P : α × β → Prop), (∀ p ∈ acc, P p) → (∀ p ∈ log, P p) →
      ∀ p ∈ log.foldl (fun acc p => acc.filter (fun q => !(q.1 == p.1)) ++ [p]) acc, P p by
    exact h [] (· ∈ log) (by simp) (fun p hp => hp)
  induction log with
  | nil => intro acc P ha _; simpa using ha
  | cons x xs ih =>
    intro acc P ha hl
    simp only [List.foldl_cons]
    apply ih
    · intro p hp
      rcases List.mem_append.1 hp with hp | hp
      · exact ha p (List.mem_filter.1 hp).1
      · simp only [List.mem_singleton] at hp
        rw [hp]; exact hl x (List.mem_cons_self ..)
    · intro p hp; exact hl p (List.mem_cons_of_mem _ hp)

/-- the trace table of a compiled program only has keys inside the bytecode -/
theorem compile_trace_keys {m std : Module} {limit : Nat} {prog : Program}
    (h : compile m std limit = .ok prog) (p : Nat × Trace) (hp : p ∈ prog.trace) :
    p.1 < prog.bytecode.size := by
  unfold compile at h
  split at h
  · cases h
  · split at h
    · cases h
    · rename_i unit _ s hs
      simp only [Except.ok.injEq] at h
      subst h
      exact compileUnit_trace_keys hs p (resolveLog_subset _ p hp)

end Cao.Compiler
