import CaoProofs.Lemmas.VmFrame
/-!
# A frames-only Hoare logic for the interpreter monad (C04)

`Fr m fs Q E`: started in any state whose call stack is `fs`, the computation `m` either returns
`a` in a state whose call stack satisfies `Q a`, or raises an error satisfying `E`. Everything the
no-panic / control-flow-integrity arguments need to know about a machine state is its call stack,
so the state itself stays universally quantified and only the list of frames is tracked
symbolically. `Quiet m`: `m` leaves the call stack alone and raises only errors that are not
(wrapped) panics. The tactic `fr_auto` applies the rules syntax-directed and leaves the `pure`
leaves (and whatever it does not understand) to the caller.
-/
namespace Cao.Vm
set_option linter.unusedSectionVars false
set_option linter.unusedVariables false

/-! ## error classes -/

/-- not a panic, also not below `TaskFailure` wrappers -/
def Calm (e : ErrKind) : Prop := ∀ w, rootCause e ≠ .panic w

/-- a class of errors that contains the calm ones and is closed under `TaskFailure` wrapping -/
class ErrClass (E : ErrKind → Prop) : Prop where
  calm : ∀ {e}, Calm e → E e
  wrap : ∀ {n e}, E e → E (.taskFailure n e)

instance : ErrClass Calm where
  calm h := h
  wrap h := h

/-- `E` only looks at the root cause -/
theorem errClass_of_root {E : ErrKind → Prop} (P : ErrKind → Prop) (hE : ∀ e, E e ↔ P (rootCause e))
    (hc : ∀ e, (∀ w, e ≠ .panic w) → P e) : ErrClass E where
  calm h := (hE _).2 (hc _ h)
  wrap {n e} h := (hE (.taskFailure n e)).2 ((hE e).1 h)

/-! ## the triple -/

structure Fr {α : Type} (m : M α) (fs : List Frame) (Q : α → List Frame → Prop)
    (E : ErrKind → Prop) : Prop where
  ok : ∀ s a s', s.frames = fs → m.go s = (.ok a, s') → Q a s'.frames
  err : ∀ s e s', s.frames = fs → m.go s = (.error e, s') → E e

/-- `m` does not touch the call stack and raises no panic -/
def Quiet {α : Type} (m : M α) : Prop := ∀ fs, Fr m fs (fun _ fs' => fs' = fs) Calm

/-- a computation that never returns normally (a re-raising handler) -/
abbrev Never {α : Type} : α → List Frame → Prop := fun _ _ => False

section rules
variable {α β : Type} {fs : List Frame} {Q : α → List Frame → Prop} {E : ErrKind → Prop}

theorem fr_pure {a : α} (h : Q a fs) : Fr (pure a : M α) fs Q E :=
  ⟨fun s a' s' hs hg => by
      simp only [go_pure, Prod.mk.injEq, Except.ok.injEq] at hg
      obtain ⟨rfl, rfl⟩ := hg; rw [hs]; exact h,
   fun s e s' _ hg => by simp at hg⟩

theorem fr_throwE {e : ErrKind} (h : E e) : Fr (throwE e : M α) fs Q E :=
  ⟨fun s a s' _ hg => by simp at hg,
   fun s e' s' _ hg => by
      simp only [go_throwE, Prod.mk.injEq, Except.error.injEq] at hg
      obtain ⟨rfl, _⟩ := hg; exact h⟩

theorem fr_throw {e : ErrKind} (h : E e) : Fr (throw e : M α) fs Q E := fr_throwE h

theorem fr_conseq {m : M α} {Q' : α → List Frame → Prop} {E' : ErrKind → Prop}
    (hm : Fr m fs Q' E') (hq : ∀ a fs', Q' a fs' → Q a fs') (he : ∀ e, E' e → E e) : Fr m fs Q E :=
  ⟨fun s a s' hs hg => hq _ _ (hm.ok s a s' hs hg), fun s e s' hs hg => he _ (hm.err s e s' hs hg)⟩

/-- the general sequencing rule, with an intermediate assertion -/
theorem fr_bind {m : M α} {f : α → M β} {J : α → List Frame → Prop} {Q : β → List Frame → Prop}
    (hm : Fr m fs J E) (hf : ∀ a fs', J a fs' → Fr (f a) fs' Q E) : Fr (m >>= f) fs Q E := by
  constructor
  · intro s b s' hs hg
    rw [go_bind] at hg
    rcases hgo : m.go s with ⟨r, s1⟩
    rw [hgo] at hg
    cases r with
    | error e => simp at hg
    | ok a => exact (hf a s1.frames (hm.ok s a s1 hs hgo)).ok s1 b s' rfl hg
  · intro s e s' hs hg
    rw [go_bind] at hg
    rcases hgo : m.go s with ⟨r, s1⟩
    rw [hgo] at hg
    cases r with
    | error e' =>
      simp only [Prod.mk.injEq, Except.error.injEq] at hg
      obtain ⟨rfl, _⟩ := hg
      exact hm.err s e' s1 hs hgo
    | ok a => exact (hf a s1.frames (hm.ok s a s1 hs hgo)).err s1 e s' rfl hg

/-- sequencing when the postcondition does not depend on the value: it is the invariant -/
theorem fr_bind_inv {m : M α} {f : α → M β} {J : List Frame → Prop}
    (hm : Fr m fs (fun _ fs' => J fs') E) (hf : ∀ a fs', J fs' → Fr (f a) fs' (fun _ fs'' => J fs'') E) :
    Fr (m >>= f) fs (fun _ fs' => J fs') E := fr_bind hm hf

theorem fr_quiet [ErrClass E] {m : M α} (hm : Quiet m) (h : ∀ a, Q a fs) : Fr m fs Q E :=
  fr_conseq (hm fs) (fun a fs' h' => by subst h'; exact h a) (fun _ => ErrClass.calm)

theorem fr_quiet_bind [ErrClass E] {m : M α} {f : α → M β} {Q : β → List Frame → Prop} (hm : Quiet m)
    (hf : ∀ a, Fr (f a) fs Q E) : Fr (m >>= f) fs Q E :=
  fr_bind (fr_quiet (Q := fun _ fs' => fs' = fs) hm (fun _ => rfl)) (fun a fs' h => by subst h; exact hf a)

theorem fr_get_bind {f : VmState → M β} {Q : β → List Frame → Prop}
    (hf : ∀ s, s.frames = fs → Fr (f s) fs Q E) : Fr (get >>= f) fs Q E :=
  ⟨fun s b s' hs hg => by
      rw [go_bind] at hg; simp only [go_get] at hg
      exact (hf s hs).ok s b s' hs hg,
   fun s e s' hs hg => by
      rw [go_bind] at hg; simp only [go_get] at hg
      exact (hf s hs).err s e s' hs hg⟩

theorem fr_get {Q : VmState → List Frame → Prop} (h : ∀ s, s.frames = fs → Q s fs) :
    Fr (get : M VmState) fs Q E :=
  ⟨fun s a s' hs hg => by
      simp only [go_get, Prod.mk.injEq, Except.ok.injEq] at hg
      obtain ⟨rfl, rfl⟩ := hg; rw [hs]; exact h _ hs,
   fun s e s' _ hg => by simp at hg⟩

theorem fr_set_bind {x : VmState} {fs' : List Frame} {f : PUnit → M β} {Q : β → List Frame → Prop}
    (hx : x.frames = fs') (hf : Fr (f ⟨⟩) fs' Q E) : Fr (set x >>= f) fs Q E :=
  ⟨fun s b s' _ hg => by
      rw [go_bind] at hg; simp only [go_set] at hg
      exact hf.ok x b s' hx hg,
   fun s e s' _ hg => by
      rw [go_bind] at hg; simp only [go_set] at hg
      exact hf.err x e s' hx hg⟩

theorem fr_set {x : VmState} {fs' : List Frame} {Q : PUnit → List Frame → Prop}
    (hx : x.frames = fs') (h : Q ⟨⟩ fs') : Fr (set x : M PUnit) fs Q E :=
  ⟨fun s a s' _ hg => by
      simp only [go_set, Prod.mk.injEq] at hg
      obtain ⟨_, rfl⟩ := hg; rw [hx]; exact h,
   fun s e s' _ hg => by simp at hg⟩

theorem fr_ite {c : Prop} [Decidable c] {a b : M α} (ha : c → Fr a fs Q E) (hb : ¬ c → Fr b fs Q E) :
    Fr (if c then a else b) fs Q E := by
  split
  · exact ha ‹_›
  · exact hb ‹_›

/-- `try … catch` whose handler always re-raises -/
theorem fr_tryCatch {m : M α} {h : ErrKind → M α} (hm : Fr m fs Q E)
    (hh : ∀ e fs', E e → Fr (h e) fs' Never E) : Fr (tryCatch m h) fs Q E := by
  constructor
  · intro s a s' hs hg
    rw [go_tryCatch] at hg
    rcases hgo : m.go s with ⟨r, s1⟩
    rw [hgo] at hg
    cases r with
    | ok a' =>
      simp only [Prod.mk.injEq, Except.ok.injEq] at hg
      obtain ⟨rfl, rfl⟩ := hg
      exact hm.ok s a' s1 hs hgo
    | error e => exact ((hh e s1.frames (hm.err s e s1 hs hgo)).ok s1 a s' rfl hg).elim
  · intro s e s' hs hg
    rw [go_tryCatch] at hg
    rcases hgo : m.go s with ⟨r, s1⟩
    rw [hgo] at hg
    cases r with
    | ok a' => simp at hg
    | error e' => exact (hh e' s1.frames (hm.err s e' s1 hs hgo)).err s1 e s' rfl hg

theorem fr_orElse {m : M α} {h : Unit → M α} (hm : Fr m fs Q E)
    (hh : ∀ fs', Fr (h ()) fs' Never E) : Fr (HOrElse.hOrElse m h) fs Q E :=
  fr_tryCatch (h := fun _ => h ()) hm (fun _ fs' _ => hh fs')

/-- `for x in l do …` with an invariant on the call stack -/
theorem fr_forIn {γ σ : Type} {J : List Frame → Prop} (l : List γ) (init : σ)
    (f : γ → σ → M (ForInStep σ)) (hJ : J fs)
    (hf : ∀ x b fs', J fs' → Fr (f x b) fs' (fun _ fs'' => J fs'') E) :
    Fr (forIn l init f) fs (fun _ fs' => J fs') E := by
  induction l generalizing init fs with
  | nil => rw [List.forIn_nil]; exact fr_pure hJ
  | cons x xs ih =>
    rw [List.forIn_cons]
    refine fr_bind (hf x init fs hJ) (fun r fs' hJ' => ?_)
    cases r with
    | done b => exact fr_pure hJ'
    | yield b => exact ih b hJ'

end rules

/-! ## `Quiet` computations -/

section quiet
variable {α β : Type}

theorem quiet_pure (a : α) : Quiet (pure a : M α) := fun _ => fr_pure rfl
theorem quiet_get : Quiet (get : M VmState) := fun _ => fr_get (fun _ _ => rfl)
theorem quiet_modify {f : VmState → VmState} (h : ∀ s, (f s).frames = s.frames) :
    Quiet (modify f : M PUnit) := fun fs =>
  ⟨fun s a s' hs hg => by
      simp only [go_modify, Prod.mk.injEq] at hg
      obtain ⟨_, rfl⟩ := hg; rw [h, hs],
   fun s e s' _ hg => by simp at hg⟩
theorem quiet_bind {m : M α} {f : α → M β} (hm : Quiet m) (hf : ∀ a, Quiet (f a)) : Quiet (m >>= f) :=
  fun fs => fr_quiet_bind hm (fun a => hf a fs)

/-- a `Calm` error, re-raised, perhaps after some quiet clean-up -/
theorem quiet_tryCatch {m : M α} {h : ErrKind → M α} (hm : Quiet m)
    (hh : ∀ e fs', Calm e → Fr (h e) fs' Never Calm) : Quiet (tryCatch m h) :=
  fun fs => fr_tryCatch (hm fs) hh

theorem quiet_orElse {m : M α} {h : Unit → M α} (hm : Quiet m)
    (hh : ∀ fs', Fr (h ()) fs' Never Calm) : Quiet (HOrElse.hOrElse m h) :=
  fun fs => fr_orElse (hm fs) hh

theorem quiet_forIn {γ σ : Type} (l : List γ) (init : σ) (f : γ → σ → M (ForInStep σ))
    (hf : ∀ x b, Quiet (f x b)) : Quiet (forIn l init f) := fun fs =>
  fr_forIn (J := fun fs' => fs' = fs) l init f rfl (fun x b fs' h => by subst h; exact hf x b fs')

end quiet

/-! ## `Calm` side goals -/

theorem calm_of_ne {e : ErrKind} (h1 : ∀ n i, e ≠ .taskFailure n i) (h2 : ∀ w, e ≠ .panic w) : Calm e := by
  intro w
  cases e <;> simp_all [rootCause]

/-- neither a panic nor a wrapper -/
def ErrKind.isPlain : ErrKind → Bool
  | .taskFailure _ _ => false
  | .panic _ => false
  | _ => true

theorem calm_of_plain {e : ErrKind} (h : e.isPlain = true) : Calm e := by
  intro w
  cases e <;> simp_all [rootCause, ErrKind.isPlain]

theorem calm_wrap {n : String} {e : ErrKind} (h : Calm e) : Calm (.taskFailure n e) := h

/-- closes `E e` for a concrete non-panic error, for an error known to be in `E`, or a wrapped one -/
syntax "fr_err" : tactic
macro_rules | `(tactic| fr_err) => `(tactic| first
  | assumption
  | exact ErrClass.calm (calm_of_plain rfl)
  | exact ErrClass.wrap (by assumption)
  | exact ErrClass.calm (by assumption))

/-! ## automation -/

open Lean Elab Tactic Meta in
/-- `fr_head`: weak-head-normalise the computation of an `Fr` goal; `fr_head_split`: succeed iff
    it is a `match` -/
def frHeadCore (onlyCheck : Bool) : TacticM Unit := withMainContext do
  let g ← getMainGoal
  let t ← instantiateMVars (← g.getType)
  let fn := t.getAppFn
  let args := t.getAppArgs
  unless fn.isConstOf ``Fr && args.size == 5 do
    throwError "fr_head: not an Fr goal"
  let m := args[1]!
  if onlyCheck then
    let ok ← match m.getAppFn with
      | .const n _ => pure ((← getMatcherInfo? n).isSome)
      | _ => pure false
    unless ok do throwError "fr_head_split: the head is not a `match`"
  else
    let m' ← whnfCore m
    if m' == m then throwError "fr_head: no progress"
    replaceMainGoal [← g.change (mkAppN fn (args.set! 1 m'))]

elab "fr_head" : tactic => frHeadCore false
elab "fr_head_split" : tactic => frHeadCore true

/-- `Quiet prim` facts; extended by `macro_rules` -/
syntax "fr_quiet_prim" : tactic
/-- specifications of the non-quiet building blocks (`reenter`, `callNative`, …) as
    `Fr m fs J E` with the precondition found by `assumption` -/
syntax "fr_spec" : tactic
macro_rules | `(tactic| fr_spec) => `(tactic| fail "no spec")
macro_rules | `(tactic| fr_quiet_prim) => `(tactic| first
  | with_reducible exact quiet_pure _
  | with_reducible exact quiet_get
  | (with_reducible refine quiet_modify (fun _ => ?_); exact rfl))

theorem gc_frames (s : VmState) : (gc s).frames = s.frames := by
  unfold gc; simp only []

theorem fr_guard_bind {β : Type} {fs : List Frame} {E : ErrKind → Prop} {c : Prop} [Decidable c]
    {e : ErrKind} {f : PUnit → M β} {Q : β → List Frame → Prop}
    (he : c → E e) (hf : ¬ c → Fr (f ⟨⟩) fs Q E) :
    Fr ((if c then throwE e else Pure.pure PUnit.unit) >>= f) fs Q E := by
  by_cases hc : c
  · simp only [hc, if_true]
    exact fr_bind (J := Never) (fr_throwE (he hc)) (fun _ _ h => h.elim)
  · simp only [hc, if_false]
    exact fr_bind (J := fun _ fs' => fs' = fs) (fr_pure rfl) (fun _ _ h => by subst h; exact hf hc)

/-- a dead continuation -/
theorem fr_throwE_bind {α β : Type} {fs : List Frame} {E : ErrKind → Prop} {e : ErrKind} {f : α → M β}
    {Q : β → List Frame → Prop} (he : E e) : Fr ((throwE e : M α) >>= f) fs Q E :=
  fr_bind (J := Never) (fr_throwE he) (fun _ _ h => h.elim)

/-- sequencing after a computation that leaves the call stack alone -/
theorem fr_bind_same {α β : Type} {fs : List Frame} {E : ErrKind → Prop} {m : M α} {f : α → M β}
    {Q : β → List Frame → Prop} (hm : Fr m fs (fun _ fs' => fs' = fs) E)
    (hf : ∀ a, Fr (f a) fs Q E) : Fr (m >>= f) fs Q E :=
  fr_bind hm (fun a fs' h => by subst h; exact hf a)

/-- the frames of the state that is being `set` -/
macro "fr_frames" : tactic => `(tactic| first
  | assumption
  | (dsimp only; rw [gc_frames]; assumption)
  | exact rfl)

/-- closes the leaves it can -/
syntax "fr_leaf" : tactic
macro_rules | `(tactic| fr_leaf) => `(tactic| first | exact rfl | assumption | exact trivial)

macro "fr_step" : tactic => `(tactic| first
  | ((with_reducible apply fr_throwE); fr_err)
  | ((with_reducible apply fr_throw); fr_err)
  | ((with_reducible apply fr_throwE_bind); fr_err)
  | ((with_reducible refine fr_pure ?_); try fr_leaf)
  | (with_reducible refine fr_get_bind (fun _ _ => ?_))
  | (with_reducible refine fr_quiet_bind (by fr_quiet_prim) (fun _ => ?_))
  | (with_reducible refine fr_bind (by fr_spec) (fun _ _ _ => ?_))
  | ((with_reducible refine fr_set_bind (fs' := ?fs') ?hx ?_); (case hx => fr_frames))
  | (with_reducible refine fr_guard_bind (fun _ => ?_) (fun _ => ?_))
  | ((with_reducible refine fr_set (fs' := ?fs') ?hx ?_); (case hx => fr_frames); try fr_leaf)
  | ((with_reducible refine fr_quiet (by fr_quiet_prim) (fun _ => ?_)); try fr_leaf)
  | fr_spec
  | (with_reducible refine fr_tryCatch ?_ (fun _ _ _ => ?_))
  | (with_reducible refine fr_orElse ?_ (fun _ => ?_))
  | (with_reducible refine fr_ite (fun _ => ?_) (fun _ => ?_))
  | (with_reducible refine fr_forIn _ _ _ (by assumption) (fun _ _ _ _ => ?_))
  | ((with_reducible refine fr_bind_inv ?_ (fun _ _ h => ?_)); try subst h)
  | (with_reducible refine fr_bind_same ?_ (fun _ => ?_))
  | fr_head
  | (fr_head_split; split))

macro "fr_auto" : tactic => `(tactic| repeat' fr_step)

/-! ## the primitives are quiet -/

theorem quiet_push (v : Val) : Quiet (push v) := by intro fs; unfold push; fr_auto
theorem quiet_pop : Quiet pop := by intro fs; unfold pop; fr_auto
theorem quiet_peek (n : Nat) : Quiet (peek n) := by intro fs; unfold peek; fr_auto
theorem quiet_popN (n : Nat) : Quiet (popN n) := by intro fs; unfold popN; fr_auto
theorem quiet_writeLocal (a b : Nat) (v : Val) : Quiet (writeLocal a b v) := by
  intro fs; unfold writeLocal; fr_auto
theorem quiet_readLocal (a b : Nat) : Quiet (readLocal a b) := by intro fs; unfold readLocal; fr_auto
theorem quiet_keyOf (v : Val) : Quiet (keyOf v) := by intro fs; unfold keyOf; fr_auto
theorem quiet_getTable (v : Val) : Quiet (getTable v) := by intro fs; unfold getTable; fr_auto
theorem quiet_tableGet (es : List (Val × Val)) (k : Val) : Quiet (tableGet es k) := by
  intro fs; unfold tableGet; fr_auto
theorem quiet_deallocBytes (c : Nat) : Quiet (deallocBytes c) := by intro fs; unfold deallocBytes; fr_auto
theorem quiet_newObject (o : Obj) : Quiet (newObject o) := by intro fs; unfold newObject; fr_auto
theorem quiet_dropGuard (a : Nat) : Quiet (dropGuard a) := by intro fs; unfold dropGuard; fr_auto
theorem quiet_guardVal (v : Val) : Quiet (guardVal v) := by
  intro fs; unfold guardVal; cases v <;> fr_auto
theorem quiet_unguardVal (v : Val) : Quiet (unguardVal v) := by
  intro fs; unfold unguardVal; cases v <;> first | exact quiet_dropGuard _ fs | fr_auto
theorem quiet_closeUpvalues (t : Nat) : Quiet (closeUpvalues t) := by
  intro fs; unfold closeUpvalues; fr_auto
theorem quiet_readUpvalueLoc (a : Nat) : Quiet (readUpvalueLoc a) := by
  intro fs; unfold readUpvalueLoc; fr_auto
theorem quiet_writeUpvalueLoc (a : Nat) (v : Val) : Quiet (writeUpvalueLoc a v) := by
  intro fs; unfold writeUpvalueLoc; fr_auto
theorem quiet_allocBytes (c : Nat) : Quiet (allocBytes c) := by intro fs; unfold allocBytes; fr_auto

macro_rules | `(tactic| fr_quiet_prim) => `(tactic| with_reducible first
  | exact quiet_push _ | exact quiet_pop | exact quiet_peek _ | exact quiet_popN _
  | exact quiet_writeLocal _ _ _ | exact quiet_readLocal _ _
  | exact quiet_keyOf _ | exact quiet_getTable _ | exact quiet_tableGet _ _
  | exact quiet_deallocBytes _ | exact quiet_newObject _ | exact quiet_dropGuard _
  | exact quiet_guardVal _ | exact quiet_unguardVal _
  | exact quiet_closeUpvalues _ | exact quiet_readUpvalueLoc _ | exact quiet_writeUpvalueLoc _ _
  | exact quiet_allocBytes _)

theorem quiet_guardRows (es : List (Val × Val)) : Quiet (guardRows es) := by
  unfold guardRows
  refine quiet_bind (quiet_forIn _ _ _ (fun x _ => ?_)) (fun _ => quiet_pure _)
  obtain ⟨k, v⟩ := x
  exact quiet_bind (quiet_guardVal _) (fun _ => quiet_bind (quiet_guardVal _) (fun _ => quiet_pure _))
theorem quiet_unguardRows (es : List (Val × Val)) : Quiet (unguardRows es) := by
  unfold unguardRows
  refine quiet_bind (quiet_forIn _ _ _ (fun x _ => ?_)) (fun _ => quiet_pure _)
  obtain ⟨k, v⟩ := x
  exact quiet_bind (quiet_unguardVal _) (fun _ => quiet_bind (quiet_unguardVal _) (fun _ => quiet_pure _))

macro_rules | `(tactic| fr_quiet_prim) => `(tactic| with_reducible first
  | exact quiet_guardRows _ | exact quiet_unguardRows _)

theorem quiet_initTable : Quiet initTable := by intro fs; unfold initTable; fr_auto
theorem quiet_initString (b : List UInt8) : Quiet (initString b) := by intro fs; unfold initString; fr_auto
theorem quiet_initSimple (o : Obj) : Quiet (initSimple o) := by intro fs; unfold initSimple; fr_auto
theorem quiet_tableInsert (a : Nat) (k v : Val) : Quiet (tableInsert a k v) := by
  intro fs; unfold tableInsert; fr_auto
theorem quiet_nativeConv (name : String) : Quiet (nativeConv name) := by
  intro fs; unfold nativeConv; fr_auto

macro_rules | `(tactic| fr_quiet_prim) => `(tactic| with_reducible first
  | exact quiet_initTable | exact quiet_initString _ | exact quiet_initSimple _
  | exact quiet_tableInsert _ _ _ | exact quiet_nativeConv _)


/-! ## natives: any invariant of the call stack that the re-entry callback keeps -/

/-- the callback keeps the invariant `J` of the call stack (when it returns) and raises `E`-errors -/
def ReSpec (re : Reenter) (J : List Frame → Prop) (E : ErrKind → Prop) : Prop :=
  ∀ f fs, J fs → Fr (re f) fs (fun _ fs' => J fs') E

theorem ReSpec.app {re : Reenter} {J : List Frame → Prop} {E : ErrKind → Prop} (h : ReSpec re J E)
    (f : Val) {fs : List Frame} (hJ : J fs) : Fr (re f) fs (fun _ fs' => J fs') E := h f fs hJ

macro_rules | `(tactic| fr_spec) => `(tactic| with_reducible exact ReSpec.app (by assumption) _ (by assumption))

theorem fr_callNativeBody {E : ErrKind → Prop} [ErrClass E] (re : Reenter) (J : List Frame → Prop)
    (hre : ReSpec re J E) (name : String) (fs : List Frame) (hJ : J fs) :
    Fr (callNativeBody re name) fs (fun _ fs' => J fs') E := by
  unfold callNativeBody
  fr_auto

macro_rules | `(tactic| fr_spec) => `(tactic| with_reducible exact fr_callNativeBody _ _ (by assumption) _ _ (by assumption))

theorem fr_callNative {E : ErrKind → Prop} [ErrClass E] (re : Reenter) (J : List Frame → Prop)
    (hre : ReSpec re J E) (h : UInt32) (fs : List Frame) (hJ : J fs) :
    Fr (callNative re h) fs (fun _ fs' => J fs') E := by
  unfold callNative
  fr_auto

macro_rules | `(tactic| fr_spec) => `(tactic| with_reducible exact fr_callNative _ _ (by assumption) _ _ (by assumption))


/-! ## control-flow integrity of one instruction -/

/-- every return address on the call stack is a good address -/
def Good (G : Nat → Prop) (fs : List Frame) : Prop := ∀ f ∈ fs, G f.dst

/-- the invariant natives keep: the call stack they were entered with is still there, and
    everything on it is good -/
def JInv (G : Nat → Prop) (fs₀ fs : List Frame) : Prop := fs₀ <+: fs ∧ Good G fs

/-- what `exec (.call f)` does to the call stack -/
def ReBase (re : Reenter) (G : Nat → Prop) (E : ErrKind → Prop) : Prop :=
  ∀ f fs, Good G fs → Fr (re f) fs (fun _ fs' => fs <+: fs' ∧ Good G fs') E

theorem ReBase.spec {re : Reenter} {G : Nat → Prop} {E : ErrKind → Prop} (h : ReBase re G E)
    (fs₀ : List Frame) : ReSpec re (JInv G fs₀) E := fun f fs hJ =>
  fr_conseq (h f fs hJ.2) (fun _ fs' h' => ⟨List.IsPrefix.trans hJ.1 h'.1, h'.2⟩) (fun _ he => he)

/-- the facts about the program that control-flow integrity rests on; `G` = "is an instruction start" -/
structure Cfi (p : Prog) (G : Nat → Prop) : Prop where
  /-- a good address holds an opcode of the instruction table … -/
  valid : ∀ src, G src → Gen.spanOf (p.bytecode.getD src 0) ≠ none
  /-- … and, unless that is `Exit`, the next instruction starts right behind it -/
  seq : ∀ src sp, G src → Gen.spanOf (p.bytecode.getD src 0) = some sp →
    p.bytecode.getD src 0 ≠ Compiler.op.exit → G (src + sp)
  jump : ∀ src, G src → (p.bytecode.getD src 0 = Compiler.op.goto ∨
    p.bytecode.getD src 0 = Compiler.op.gotoIfTrue ∨ p.bytecode.getD src 0 = Compiler.op.gotoIfFalse) →
    G (rdU32 p.bytecode (src + 1))
  label : ∀ l ∈ p.labels, G l.2
  /-- the return address `run_function` uses: the final `Exit` -/
  last : G (p.bytecode.size - 1)
  lastExit : p.bytecode.getD (p.bytecode.size - 1) 0 = Compiler.op.exit

/-- the error class of an instruction: the two capture panics are not excluded -/
class StepErr (E : ErrKind → Prop) : Prop extends ErrClass E where
  capture : E (.panic "closure not found for capture")
  index : E (.panic "upvalue index out of bounds")

macro_rules | `(tactic| fr_err) => `(tactic| first | exact StepErr.capture | exact StepErr.index)

/-- what one instruction does to the call stack -/
def Shape (fs : List Frame) (ctl : Ctl) (fs' : List Frame) : Prop :=
  (∃ t, t ≠ [] ∧ fs' = fs.dropLast ++ t) ∨
  (fs' = fs.dropLast ∧ fs' ≠ [] ∧ ctl.exit = false ∧ ∃ c, fs'.getLast? = some c ∧ ctl.ip = c.dst)

structure StepPost (G : Nat → Prop) (fs : List Frame) (ctl : Ctl) (fs' : List Frame) : Prop where
  good : Good G fs'
  next : ctl.exit = false → G ctl.ip
  shape : Shape fs ctl fs'

theorem fr_curFrame_bind {β : Type} {fs : List Frame} {E : ErrKind → Prop} {f : Frame → M β}
    {Q : β → List Frame → Prop} (hne : fs ≠ [])
    (hf : ∀ fr, fs.getLast? = some fr → Fr (f fr) fs Q E) : Fr (curFrame >>= f) fs Q E := by
  unfold curFrame
  constructor
  · intro s b s' hs hg
    rw [go_bind, go_bind] at hg
    simp only [go_get] at hg
    rcases hl : s.frames.getLast? with _ | fr
    · rw [hs] at hl; exact absurd (List.getLast?_eq_none_iff.1 hl) hne
    · rw [hl] at hg
      simp only [go_pure] at hg
      exact (hf fr (hs ▸ hl)).ok s b s' hs hg
  · intro s e s' hs hg
    rw [go_bind, go_bind] at hg
    simp only [go_get] at hg
    rcases hl : s.frames.getLast? with _ | fr
    · rw [hs] at hl; exact absurd (List.getLast?_eq_none_iff.1 hl) hne
    · rw [hl] at hg
      simp only [go_pure] at hg
      exact (hf fr (hs ▸ hl)).err s e s' hs hg

end Cao.Vm
