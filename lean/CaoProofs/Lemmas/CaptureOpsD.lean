import CaoProofs.Lemmas.CaptureStep
/-!
# One instruction keeps the capture invariant: jumps, `Exit`, `PopTable`, `FunctionPointer`, `Closure`,
# `CallFunction`, `Return`
-/
namespace Cao.Vm
open Cao.Gc Cao.C02
set_option linter.unusedSectionVars false
set_option linter.unusedVariables false

variable {p : Prog} {G : Nat → Prop} {lvl cnt : Nat → Nat} {E : ErrKind → Prop} [ErrClass E]
  {re : Reenter} {W0 : List (Option Nat × Nat)} {fs0 : List Frame} {l : Frame} {src : Nat}

/-! ## jumps and `Exit` -/

theorem st_op_goto (hs : CapStatic p G lvl cnt) (hsrc : G src)
    (hop : p.bytecode.getD src 0 = Compiler.op.goto) :
    St (InvX p lvl none (W0 ++ [(l.closure, lvl src)]) (fs0 ++ [l])) (step p re src)
      (StepQ p lvl W0 fs0 l src) E := by
  st_op hop
  exact StepQ.ord rfl (by assumption) (hs.jump src hsrc (.inl hop))

theorem st_op_gotoIfTrue (hs : CapStatic p G lvl cnt) (hsrc : G src)
    (hop : p.bytecode.getD src 0 = Compiler.op.gotoIfTrue) :
    St (InvX p lvl none (W0 ++ [(l.closure, lvl src)]) (fs0 ++ [l])) (step p re src)
      (StepQ p lvl W0 fs0 l src) E := by
  st_op hop
  refine StepQ.ord rfl (by assumption) ?_
  dsimp only
  split
  · exact hs.jump src hsrc (.inr (.inl hop))
  · exact hs.seq src 5 hsrc (by rw [hop]; decide) (by rw [hop]; decide) (by rw [hop]; decide) (by rw [hop]; decide)

theorem st_op_gotoIfFalse (hs : CapStatic p G lvl cnt) (hsrc : G src)
    (hop : p.bytecode.getD src 0 = Compiler.op.gotoIfFalse) :
    St (InvX p lvl none (W0 ++ [(l.closure, lvl src)]) (fs0 ++ [l])) (step p re src)
      (StepQ p lvl W0 fs0 l src) E := by
  st_op hop
  refine StepQ.ord rfl (by assumption) ?_
  dsimp only
  split
  · exact hs.seq src 5 hsrc (by rw [hop]; decide) (by rw [hop]; decide) (by rw [hop]; decide) (by rw [hop]; decide)
  · exact hs.jump src hsrc (.inr (.inr hop))

theorem st_op_exit (hop : p.bytecode.getD src 0 = Compiler.op.exit) :
    St (InvX p lvl none (W0 ++ [(l.closure, lvl src)]) (fs0 ++ [l])) (step p re src)
      (StepQ p lvl W0 fs0 l src) E := by
  st_op hop
  exact StepQ.exit rfl (by assumption)

/-! ## `PopTable` -/

theorem st_getTable_spec {K : VmState → Prop} (v : Val) :
    St K (getTable v) (fun r s => K s ∧ s.heap.get r.1 = some (.table r.2.1 r.2.2)) E := by
  unfold getTable
  cases v with
  | obj a =>
    dsimp only
    refine st_get_bind (fun s0 hs0 => ?_)
    split
    · next cap es heq =>
      refine st_pure (fun s hs => ?_)
      subst hs
      exact ⟨hs0, heq⟩
    · exact st_throwE (ErrClass.calm (calm_of_plain rfl))
  | _ => exact st_throwE (ErrClass.calm (calm_of_plain rfl))

theorem st_op_popTable (hs : CapStatic p G lvl cnt) (hsrc : G src)
    (hop : p.bytecode.getD src 0 = Compiler.op.popTable) :
    St (InvX p lvl none (W0 ++ [(l.closure, lvl src)]) (fs0 ++ [l])) (step p re src)
      (StepQ p lvl W0 fs0 l src) E := by
  unfold step; simp only [hop]; st_peel
  refine st_keeps_bind (by st_prim) (fun inst => ?_)
  refine st_bind (st_getTable_spec inst) (fun r => ?_)
  obtain ⟨a, cap, es⟩ := r
  dsimp only
  split
  · refine st_conseq (P' := InvX p lvl none (W0 ++ [(l.closure, lvl src)]) (fs0 ++ [l])) ?_
      (fun s h => h.1) (fun _ _ h => h) (fun _ h => h)
    st_auto
    q_seq hs, hsrc, hop, 1
  · refine st_bind (J := fun _ => InvX p lvl none (W0 ++ [(l.closure, lvl src)]) (fs0 ++ [l])) ?_ (fun _ => ?_)
    · refine st_modify (fun s hs => ?_)
      exact hs.1.harmless (harmless_set s a _ rfl (fun x hx => by
        rw [hs.2] at hx; cases hx; rfl)) (.inl rfl)
    · st_auto
      q_seq hs, hsrc, hop, 1

/-! ## a new function / closure object -/

theorem withObject_get (o : Obj) (s : VmState) (b : Nat) : (withObject o s).heap.get b =
    match s.heap.get b with
    | some x => some x
    | none => if s.heap.next = b then some o else none :=
  heap_get_append s.heap.objs s.heap.next (s.heap.next + 1) o b

/-- the invariant just after the object `o` has been put at `a` -/
structure InvN (p : Prog) (lvl : Nat → Nat) (a : Nat) (o : Obj) (W : List (Option Nat × Nat))
    (fs : List Frame) (s : VmState) : Prop where
  fn : ∀ b h ar, s.heap.get b = some (.fn h ar) → b ≠ a → FnSafe p lvl h
  clo : ∀ b h ar ups, s.heap.get b = some (.closure h ar ups) → b ≠ a → Complete p lvl h ups.length
  obl : ∀ w ∈ W, FrameOk s.heap w.2 w.1
  rooted : RootedIn W fs
  frames : s.frames = fs
  new : s.heap.get a = some o

theorem invN_withObject {W : List (Option Nat × Nat)} {fs : List Frame} {s : VmState} (o : Obj)
    (h : InvX p lvl none W fs s) (hfresh : s.heap.get s.heap.next = none) :
    InvN p lvl s.heap.next o W fs (withObject o s) := by
  refine ⟨fun b hd ar hb hne => ?_, fun b hd ar ups hb hne => ?_, fun w hw => ?_, h.rooted, h.frames, ?_⟩
  · rw [withObject_get] at hb
    cases hg : s.heap.get b with
    | some x => rw [hg] at hb; simp only [Option.some.injEq] at hb; subst hb; exact h.heap.fn b hd ar hg
    | none =>
      rw [hg] at hb
      simp only at hb
      split at hb
      · next he => exact absurd he.symm hne
      · cases hb
  · rw [withObject_get] at hb
    cases hg : s.heap.get b with
    | some x =>
      rw [hg] at hb; simp only [Option.some.injEq] at hb; subst hb
      exact h.heap.clo b hd ar ups hg (by simp)
    | none =>
      rw [hg] at hb
      simp only at hb
      split at hb
      · next he => exact absurd he.symm hne
      · cases hb
  · rcases h.obl w hw with h0 | ⟨c, hc, hd, ar, ups, hg, hn⟩
    · exact .inl h0
    · refine .inr ⟨c, hc, hd, ar, ups, ?_, hn⟩
      rw [withObject_get, hg]
  · rw [withObject_get, hfresh]; simp

/-- the address is in use: the new object is not visible, nothing changes -/
theorem invX_withObject_stale {W : List (Option Nat × Nat)} {fs : List Frame} {s : VmState} (o : Obj) {x : Obj}
    (h : InvX p lvl none W fs s) (hx : s.heap.get s.heap.next = some x) :
    InvX p lvl none W fs (withObject o s) := by
  have key : ∀ b, (withObject o s).heap.get b = s.heap.get b := by
    intro b
    rw [withObject_get]
    cases hg : s.heap.get b with
    | some y => rfl
    | none =>
      simp only
      split
      · next he => rw [he] at hx; rw [hx] at hg; cases hg
      · rfl
  refine ⟨⟨fun b hd ar hb => h.heap.fn b hd ar (key b ▸ hb), fun b hd ar ups hb hne =>
    h.heap.clo b hd ar ups (key b ▸ hb) hne⟩, fun w hw => ?_, h.rooted, h.frames, fun _ hx => by cases hx⟩
  rcases h.obl w hw with h0 | ⟨c, hc, hd, ar, ups, hg, hn⟩
  · exact .inl h0
  · exact .inr ⟨c, hc, hd, ar, ups, by rw [key]; exact hg, hn⟩

/-- a new function object whose handle is safe -/
theorem invX_withObject_fn {W : List (Option Nat × Nat)} {fs : List Frame} {s : VmState} {hd ar : UInt32}
    (h : InvX p lvl none W fs s) (hsafe : FnSafe p lvl hd) :
    InvX p lvl none W fs (withObject (.fn hd ar) s) := by
  cases hx : s.heap.get s.heap.next with
  | some x => exact invX_withObject_stale _ h hx
  | none =>
    have hn := invN_withObject (.fn hd ar) h hx
    refine ⟨⟨fun b h1 ar1 hb => ?_, fun b h1 ar1 ups hb _ => ?_⟩, hn.obl, hn.rooted, hn.frames,
      fun _ hx => by cases hx⟩
    · by_cases hba : b = s.heap.next
      · subst hba
        rw [hn.new] at hb
        simp only [Option.some.injEq, Obj.fn.injEq] at hb
        rw [← hb.1]; exact hsafe
      · exact hn.fn b h1 ar1 hb hba
    · by_cases hba : b = s.heap.next
      · subst hba
        rw [hn.new] at hb
        cases hb
      · exact hn.clo b h1 ar1 ups hb hba

theorem st_newObject_fn {W : List (Option Nat × Nat)} {fs : List Frame} {hd ar : UInt32}
    (hsafe : FnSafe p lvl hd) :
    St (InvX p lvl none W fs) (newObject (.fn hd ar)) (fun _ => InvX p lvl none W fs) E := by
  constructor
  · intro s a s' hs hg
    have e : (newObject (.fn hd ar)).go s = (.ok s.heap.next, withObject (.fn hd ar) s) := rfl
    rw [e] at hg
    simp only [Prod.mk.injEq, Except.ok.injEq] at hg
    obtain ⟨_, rfl⟩ := hg
    exact invX_withObject_fn hs hsafe
  · intro s e s' hs hg
    have e' : (newObject (.fn hd ar)).go s = (.ok s.heap.next, withObject (.fn hd ar) s) := rfl
    rw [e'] at hg
    simp at hg

theorem st_op_functionPointer (hs : CapStatic p G lvl cnt) (hsrc : G src)
    (hop : p.bytecode.getD src 0 = Compiler.op.functionPointer) :
    St (InvX p lvl none (W0 ++ [(l.closure, lvl src)]) (fs0 ++ [l])) (step p re src)
      (StepQ p lvl W0 fs0 l src) E := by
  have hsafe := hs.fnLabel src hsrc hop
  unfold step; simp only [hop]; st_peel
  unfold initSimple
  refine st_bind_inv ?_ (fun a => ?_)
  · refine st_keeps_bind (by st_prim) (fun _ => ?_)
    exact st_newObject_fn hsafe
  · st_auto
    q_seq hs, hsrc, hop, 9

/-! ### `Closure` -/

theorem push_go_ok {v : Val} {s s' : VmState} {u : Unit} (h : (push v).go s = (.ok u, s')) :
    s.stack.count + 1 < s.stack.data.length ∧
      s' = { s with stack := { count := s.stack.count + 1, data := s.stack.data.set s.stack.count v } } := by
  unfold push at h
  rw [go_bind] at h
  simp only [go_get] at h
  by_cases hlt : s.stack.count + 1 < s.stack.data.length
  · simp only [VStack.push, hlt, if_true, go_set, Prod.mk.injEq] at h
    exact ⟨hlt, h.2.symm⟩
  · simp only [VStack.push, hlt, if_false] at h
    simp at h

theorem push_go_err {v : Val} {s s' : VmState} {e : ErrKind} (h : (push v).go s = (.error e, s')) :
    Calm e := by
  have := (quiet_push v s.frames).err s e s' rfl h
  exact this

theorem mem_take_set_self {α : Type} (d : List α) (n : Nat) (v : α) (h : n < d.length) :
    v ∈ (d.set n v).take (n + 1) := by
  rw [List.mem_take_iff_getElem]
  refine ⟨n, by simp; omega, ?_⟩
  simp

theorem getD_set_self {α : Type} (d : List α) (n : Nat) (v dflt : α) (h : n < d.length) :
    (d.set n v).getD n dflt = v := by
  simp [List.getD_eq_getElem?_getD, h]

/-- `InvN` for a new closure object, then `push`: the closure under construction is on top of the stack -/
theorem invX_of_invN_push {W : List (Option Nat × Nat)} {fs : List Frame} {s : VmState} {a : Nat}
    {hd ar : UInt32} (h : InvN p lvl a (.closure hd ar []) W fs s)
    (hfit : s.stack.count + 1 < s.stack.data.length) (g : List Nat) :
    let s' : VmState := { s with stack := { count := s.stack.count + 1, data := s.stack.data.set s.stack.count (.obj a) },
                                 guards := g }
    InvX p lvl (some a) W fs s' ∧ s'.heap.get a = some (.closure hd ar []) ∧ TopIs s' a := by
  refine ⟨⟨⟨fun b h1 ar1 hb => ?_, fun b h1 ar1 ups hb hne => ?_⟩, h.obl, h.rooted, h.frames, fun a' ha' => ?_⟩,
    h.new, ?_⟩
  · by_cases hba : b = a
    · subst hba
      have := h.new
      simp only at hb
      rw [this] at hb; cases hb
    · exact h.fn b h1 ar1 hb hba
  · exact h.clo b h1 ar1 ups hb (fun hba => hne (by rw [hba]))
  · simp only [Option.some.injEq] at ha'
    subst ha'
    show Val.obj a ∈ (s.stack.data.set s.stack.count (Val.obj a)).take (s.stack.count + 1)
    exact mem_take_set_self _ _ _ (by omega)
  · refine ⟨Nat.succ_pos _, ?_, ?_⟩
    · show s.stack.count + 1 < (s.stack.data.set s.stack.count (Val.obj a)).length
      rw [List.length_set]; exact hfit
    · show (s.stack.data.set s.stack.count (Val.obj a)).getD (s.stack.count + 1 - 1) Val.nil = Val.obj a
      rw [Nat.add_sub_cancel]
      exact getD_set_self _ _ _ _ (by omega)

theorem st_op_closure (hs : CapStatic p G lvl cnt) (hsrc : G src)
    (hop : p.bytecode.getD src 0 = Compiler.op.closure) :
    St (InvX p lvl none (W0 ++ [(l.closure, lvl src)]) (fs0 ++ [l])) (step p re src)
      (StepQ p lvl W0 fs0 l src) E := by
  have hseq : lvl (src + 9) = lvl src :=
    hs.seq src 9 hsrc (by rw [hop]; decide) (by rw [hop]; decide) (by rw [hop]; decide) (by rw [hop]; decide)
  unfold step; simp only [hop]; st_peel
  unfold initSimple
  generalize hhd : UInt32.ofNat (rdU32 p.bytecode (src + 1)) = hd
  generalize har : UInt32.ofNat (rdU32 p.bytecode (src + 1 + 4)) = ar
  refine st_bind (J := fun a s =>
      InvN p lvl a (.closure hd ar []) (W0 ++ [(l.closure, lvl src)]) (fs0 ++ [l]) s ∨
      InvX p lvl none (W0 ++ [(l.closure, lvl src)]) (fs0 ++ [l]) s) ?_ (fun a => ?_)
  · refine st_keeps_bind (by st_prim) (fun _ => ?_)
    constructor
    · intro s a s' hs' hg
      have e : (newObject (.closure hd ar [])).go s = (.ok s.heap.next, withObject (.closure hd ar []) s) := rfl
      rw [e] at hg
      simp only [Prod.mk.injEq, Except.ok.injEq] at hg
      obtain ⟨rfl, rfl⟩ := hg
      cases hx : s.heap.get s.heap.next with
      | some x => exact .inr (invX_withObject_stale _ hs' hx)
      | none => exact .inl (invN_withObject _ hs' hx)
    · intro s e s' _ hg
      have e' : (newObject (.closure hd ar [])).go s = (.ok s.heap.next, withObject (.closure hd ar []) s) := rfl
      rw [e'] at hg
      simp at hg
  · constructor
    · intro s ctl s' hs' hg
      rw [go_bind] at hg
      rcases hp : (push (.obj a)).go s with ⟨r, s1⟩
      rw [hp] at hg
      cases r with
      | error e => simp at hg
      | ok u =>
        obtain ⟨hfit, rfl⟩ := push_go_ok hp
        have e : ∀ (c : Ctl) (t : VmState), (dropGuard a >>= fun _ => (pure c : M Ctl)).go t =
            (.ok c, { t with guards := t.guards.erase a }) := fun _ _ => rfl
        simp only at hg
        rw [e] at hg
        simp only [Prod.mk.injEq, Except.ok.injEq] at hg
        obtain ⟨rfl, rfl⟩ := hg
        rcases hs' with hN | hX
        · obtain ⟨h1, h2, h3⟩ := invX_of_invN_push hN hfit (s.guards.erase a)
          exact StepQ.clos a ar rfl rfl hop h1 (hhd ▸ h2) h3
        · refine StepQ.ord rfl (hX.congr' rfl rfl) ?_
          exact hseq
    · intro s e s' hs' hg
      rw [go_bind] at hg
      rcases hp : (push (.obj a)).go s with ⟨r, s1⟩
      rw [hp] at hg
      cases r with
      | error e' =>
        simp only [Prod.mk.injEq, Except.error.injEq] at hg
        obtain ⟨rfl, _⟩ := hg
        exact ErrClass.calm (push_go_err hp)
      | ok u =>
        have e : ∀ (c : Ctl) (t : VmState), (dropGuard a >>= fun _ => (pure c : M Ctl)).go t =
            (.ok c, { t with guards := t.guards.erase a }) := fun _ _ => rfl
        simp only at hg
        rw [e] at hg
        simp at hg

end Cao.Vm
