import CaoProofs.Lemmas.NoPanic
/-!
# Control-flow integrity of `step`, `exec` and `run` (C04)
-/
namespace Cao.Vm
set_option linter.unusedSectionVars false
set_option linter.unusedVariables false

macro_rules | `(tactic| fr_step) => `(tactic| (with_reducible refine fr_curFrame_bind (by assumption) (fun _ _ => ?_)))

theorem good_dropLast {G : Nat → Prop} {fs : List Frame} (h : Good G fs) : Good G fs.dropLast :=
  fun f hf => h f (List.dropLast_subset fs hf)

theorem callScript_post {G : Nat → Prop} {fs : List Frame} (hg : Good G fs) {ip pos : Nat}
    (hip : G ip) (hpos : G pos) (a b : Frame) (ha : a.dst = ip) (hb : b.dst = ip) :
    StepPost G fs { ip := pos } (fs.dropLast ++ [a] ++ [b]) where
  good := by
    intro f hf
    simp only [List.mem_append, List.mem_singleton] at hf
    rcases hf with (hf | rfl) | rfl
    · exact good_dropLast hg f hf
    · rw [ha]; exact hip
    · rw [hb]; exact hip
  next := fun _ => hpos
  shape := .inl ⟨[a, b], by simp, by simp⟩

theorem fr_callScript {G : Nat → Prop} {E : ErrKind → Prop} [ErrClass E] (p : Prog) (hc : Cfi p G)
    (src ip : Nat) (l : UInt32) (ar : Nat) (c : Option Nat) (fs : List Frame)
    (hne : fs ≠ []) (hg : Good G fs) (hip : G ip) :
    Fr (step.callScript p src ip l ar c) fs (StepPost G fs) E := by
  unfold step.callScript
  refine fr_get_bind (fun s hs => ?_)
  have hne' : ¬ (s.frames.isEmpty = true) := by
    rw [hs]; cases fs with
    | nil => exact absurd rfl hne
    | cons => simp
  rw [if_neg hne']
  fr_auto
  next _ _ _ _ _ pos hfind =>
    dsimp only
    rw [hs]
    exact callScript_post hg hip (hc.label _ (List.mem_of_find?_eq_some hfind)) _ _ rfl rfl



/-! ## opcodes -/

theorem forall_uint8 {P : UInt8 → Prop} (h : ∀ n, n < 256 → P (UInt8.ofNat n)) : ∀ b, P b := by
  intro b
  have := h b.toNat (UInt8.toNat_lt b)
  simpa using this

/-- no branch of `step` is taken -/
def noBranch (b : UInt8) : Bool :=
  !(b == Compiler.op.initTable) &&
  !(b == Compiler.op.getProperty) &&
  !(b == Compiler.op.setProperty) &&
  !(b == Compiler.op.beginForEach) &&
  !(b == Compiler.op.forEach) &&
  !(b == Compiler.op.gotoIfTrue) &&
  !(b == Compiler.op.gotoIfFalse) &&
  !(b == Compiler.op.goto) &&
  !(b == Compiler.op.swapLast) &&
  !(b == Compiler.op.scalarNil) &&
  !(b == Compiler.op.clearStack) &&
  !(b == Compiler.op.setLocalVar) &&
  !(b == Compiler.op.readLocalVar) &&
  !(b == Compiler.op.setGlobalVar) &&
  !(b == Compiler.op.readGlobalVar) &&
  !(b == Compiler.op.pop) &&
  !(b == Compiler.op.callFunction) &&
  !(b == Compiler.op.ret) &&
  !(b == Compiler.op.exit) &&
  !(b == Compiler.op.copyLast) &&
  !(b == Compiler.op.nativeFunctionPointer) &&
  !(b == Compiler.op.functionPointer) &&
  !(b == Compiler.op.closure) &&
  !(b == Compiler.op.scalarInt) &&
  !(b == Compiler.op.scalarFloat) &&
  !(b == Compiler.op.not) &&
  !(b == Compiler.op.and || b == Compiler.op.or || b == Compiler.op.xor || b == Compiler.op.add || b == Compiler.op.sub || b == Compiler.op.mul || b == Compiler.op.div || b == Compiler.op.equals || b == Compiler.op.notEquals || b == Compiler.op.less || b == Compiler.op.lessOrEq) &&
  !(b == Compiler.op.stringLiteral) &&
  !(b == Compiler.op.callNative) &&
  !(b == Compiler.op.len) &&
  !(b == Compiler.op.nthRow) &&
  !(b == Compiler.op.appendTable) &&
  !(b == Compiler.op.popTable) &&
  !(b == Compiler.op.setUpvalue) &&
  !(b == Compiler.op.readUpvalue) &&
  !(b == Compiler.op.registerUpvalue) &&
  !(b == Compiler.op.closeUpvalue)

theorem noBranch_spanOf : ∀ n, n < 256 → noBranch (UInt8.ofNat n) = true → Gen.spanOf (UInt8.ofNat n) = none := by
  decide +kernel

theorem spanOf_none_of_no_branch (b : UInt8)
    (h0 : ¬(b == Compiler.op.initTable) = true)
    (h1 : ¬(b == Compiler.op.getProperty) = true)
    (h2 : ¬(b == Compiler.op.setProperty) = true)
    (h3 : ¬(b == Compiler.op.beginForEach) = true)
    (h4 : ¬(b == Compiler.op.forEach) = true)
    (h5 : ¬(b == Compiler.op.gotoIfTrue) = true)
    (h6 : ¬(b == Compiler.op.gotoIfFalse) = true)
    (h7 : ¬(b == Compiler.op.goto) = true)
    (h8 : ¬(b == Compiler.op.swapLast) = true)
    (h9 : ¬(b == Compiler.op.scalarNil) = true)
    (h10 : ¬(b == Compiler.op.clearStack) = true)
    (h11 : ¬(b == Compiler.op.setLocalVar) = true)
    (h12 : ¬(b == Compiler.op.readLocalVar) = true)
    (h13 : ¬(b == Compiler.op.setGlobalVar) = true)
    (h14 : ¬(b == Compiler.op.readGlobalVar) = true)
    (h15 : ¬(b == Compiler.op.pop) = true)
    (h16 : ¬(b == Compiler.op.callFunction) = true)
    (h17 : ¬(b == Compiler.op.ret) = true)
    (h18 : ¬(b == Compiler.op.exit) = true)
    (h19 : ¬(b == Compiler.op.copyLast) = true)
    (h20 : ¬(b == Compiler.op.nativeFunctionPointer) = true)
    (h21 : ¬(b == Compiler.op.functionPointer) = true)
    (h22 : ¬(b == Compiler.op.closure) = true)
    (h23 : ¬(b == Compiler.op.scalarInt) = true)
    (h24 : ¬(b == Compiler.op.scalarFloat) = true)
    (h25 : ¬(b == Compiler.op.not) = true)
    (h26 : ¬(b == Compiler.op.and || b == Compiler.op.or || b == Compiler.op.xor || b == Compiler.op.add || b == Compiler.op.sub || b == Compiler.op.mul || b == Compiler.op.div || b == Compiler.op.equals || b == Compiler.op.notEquals || b == Compiler.op.less || b == Compiler.op.lessOrEq) = true)
    (h27 : ¬(b == Compiler.op.stringLiteral) = true)
    (h28 : ¬(b == Compiler.op.callNative) = true)
    (h29 : ¬(b == Compiler.op.len) = true)
    (h30 : ¬(b == Compiler.op.nthRow) = true)
    (h31 : ¬(b == Compiler.op.appendTable) = true)
    (h32 : ¬(b == Compiler.op.popTable) = true)
    (h33 : ¬(b == Compiler.op.setUpvalue) = true)
    (h34 : ¬(b == Compiler.op.readUpvalue) = true)
    (h35 : ¬(b == Compiler.op.registerUpvalue) = true)
    (h36 : ¬(b == Compiler.op.closeUpvalue) = true) :
    Gen.spanOf b = none := by
  refine forall_uint8 (P := fun b => noBranch b = true → Gen.spanOf b = none) noBranch_spanOf b ?_
  simp only [noBranch, Bool.and_eq_true, Bool.not_eq_true', Bool.not_eq_true] at *
  simp only [*, and_self]

def isArith (b : UInt8) : Bool :=
  b == Compiler.op.and || b == Compiler.op.or || b == Compiler.op.xor || b == Compiler.op.add || b == Compiler.op.sub || b == Compiler.op.mul || b == Compiler.op.div || b == Compiler.op.equals || b == Compiler.op.notEquals || b == Compiler.op.less || b == Compiler.op.lessOrEq

theorem arith_span_aux : ∀ n, n < 256 → isArith (UInt8.ofNat n) = true →
    Gen.spanOf (UInt8.ofNat n) = some 1 ∧ UInt8.ofNat n ≠ Compiler.op.exit := by
  decide +kernel

theorem arith_span (b : UInt8) (h : (b == Compiler.op.and || b == Compiler.op.or || b == Compiler.op.xor || b == Compiler.op.add || b == Compiler.op.sub || b == Compiler.op.mul || b == Compiler.op.div || b == Compiler.op.equals || b == Compiler.op.notEquals || b == Compiler.op.less || b == Compiler.op.lessOrEq) = true) :
    Gen.spanOf b = some 1 ∧ b ≠ Compiler.op.exit :=
  forall_uint8 (P := fun b => isArith b = true → Gen.spanOf b = some 1 ∧ b ≠ Compiler.op.exit) arith_span_aux b h

theorem seq_of {p : Prog} {G : Nat → Prop} (hc : Cfi p G) {src : Nat} (hsrc : G src) {o : UInt8}
    (h : (p.bytecode.getD src 0 == o) = true) (sp : Nat) (hsp : Gen.spanOf o = some sp)
    (hx : o ≠ Compiler.op.exit) : G (src + sp) := by
  have := eq_of_beq h
  exact hc.seq src sp hsrc (this ▸ hsp) (this ▸ hx)

theorem jump_or_seq {p : Prog} {G : Nat → Prop} (hc : Cfi p G) {src : Nat} (hsrc : G src) {o : UInt8}
    (h : (p.bytecode.getD src 0 == o) = true)
    (ho : o = Compiler.op.gotoIfTrue ∨ o = Compiler.op.gotoIfFalse) (c : Prop) [Decidable c] :
    G (if c then rdU32 p.bytecode (src + 1) else src + 1 + 4) ∧
    G (if c then src + 1 + 4 else rdU32 p.bytecode (src + 1)) := by
  have e := eq_of_beq h
  have hj : G (rdU32 p.bytecode (src + 1)) := hc.jump src hsrc (by
    rcases ho with rfl | rfl
    · exact .inr (.inl e)
    · exact .inr (.inr e))
  have hs : G (src + 1 + 4) := by
    rcases ho with rfl | rfl
    · exact seq_of hc hsrc h 5 rfl (by decide)
    · exact seq_of hc hsrc h 5 rfl (by decide)
  constructor <;> split <;> assumption

/-! ## postconditions -/

theorem post_same {G : Nat → Prop} {fs : List Frame} (hne : fs ≠ []) (hg : Good G fs) (ctl : Ctl)
    (h : ctl.exit = false → G ctl.ip) : StepPost G fs ctl fs where
  good := hg
  next := h
  shape := .inl ⟨[fs.getLast hne], by simp, (List.dropLast_concat_getLast hne).symm⟩

theorem post_prefix {G : Nat → Prop} {fs fs' : List Frame} (hne : fs ≠ []) (hJ : JInv G fs fs')
    (ctl : Ctl) (h : ctl.exit = false → G ctl.ip) : StepPost G fs ctl fs' where
  good := hJ.2
  next := h
  shape := by
    obtain ⟨u, rfl⟩ := hJ.1
    exact .inl ⟨[fs.getLast hne] ++ u, by simp, by
      rw [← List.append_assoc, List.dropLast_concat_getLast]⟩

theorem ret_post {G : Nat → Prop} {fs : List Frame} (hg : Good G fs) (c : Frame)
    (h : fs.dropLast.getLast? = some c) : StepPost G fs { ip := c.dst } fs.dropLast where
  good := good_dropLast hg
  next := fun _ => good_dropLast hg c (List.mem_of_getLast? h)
  shape := by
    refine .inr ⟨rfl, ?_, rfl, c, h, rfl⟩
    intro h0; rw [h0] at h; cases h

set_option maxHeartbeats 1000000 in
/-- **one instruction**: from a non-empty call stack whose return addresses are instruction starts,
    at an instruction start, an instruction that returns leaves such a call stack, continues at an
    instruction start, and has changed the call stack only at its top; the errors it raises are
    calm ones, the two capture panics, or what the re-entry callback raises -/
theorem fr_step_cfi {G : Nat → Prop} {E : ErrKind → Prop} [StepErr E] (p : Prog) (hc : Cfi p G)
    (re : Reenter) (hre : ReBase re G E) (src : Nat) (fs : List Frame)
    (hne : fs ≠ []) (hg : Good G fs) (hsrc : G src) :
    Fr (step p re src) fs (StepPost G fs) E := by
  have hJ : ReSpec re (JInv G fs) E := hre.spec fs
  have hJ0 : JInv G fs fs := ⟨List.prefix_refl _, hg⟩
  unfold step
  fr_auto
  all_goals first
    | (refine post_same hne hg _ (fun h => ?_); cases h; done)
    | (refine post_same hne hg _ (fun _ => ?_)
       have h1 := seq_of hc hsrc ‹(p.bytecode.getD src 0 == _) = true›
       have h2 := h1 _ rfl (by decide)
       exact h2)
    | (refine post_prefix hne ‹JInv G fs _› _ (fun _ => ?_)
       have h1 := seq_of hc hsrc ‹(p.bytecode.getD src 0 == _) = true›
       have h2 := h1 _ rfl (by decide)
       exact h2)
    | (refine post_same hne hg _ (fun _ => ?_)
       have h1 := arith_span _ ‹_›
       exact hc.seq src 1 hsrc h1.1 h1.2)
    | exact post_same hne hg _ (fun _ => (jump_or_seq hc hsrc ‹(p.bytecode.getD src 0 == _) = true› (by decide) _).1)
    | exact post_same hne hg _ (fun _ => (jump_or_seq hc hsrc ‹(p.bytecode.getD src 0 == _) = true› (by decide) _).2)
    | exact post_same hne hg _ (fun _ => hc.jump src hsrc (.inl (eq_of_beq ‹(p.bytecode.getD src 0 == _) = true›)))
    | (have h1 := seq_of hc hsrc ‹(p.bytecode.getD src 0 == _) = true›
       have h2 := h1 _ rfl (by decide)
       exact fr_callScript p hc _ _ _ _ _ _ hne hg h2)
    | (next s9 hs9 o1 c1 h1 u1 s5 hs5 s3 hs3 o c h u =>
        dsimp only at hs3 ⊢
        rw [hs3] at h
        rw [hs9] at h ⊢
        exact ret_post hg c h)
    | (exfalso
       apply hc.valid src hsrc
       apply spanOf_none_of_no_branch <;> assumption)


end Cao.Vm
