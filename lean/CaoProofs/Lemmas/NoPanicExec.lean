import CaoProofs.Lemmas.NoPanicStep
/-!
# Control-flow integrity of the dispatch loop, of `run_function` and of `run` (C04)
-/
namespace Cao.Vm
set_option linter.unusedSectionVars false
set_option linter.unusedVariables false

/-! ## the dispatch loop -/

/-- `Exit` does nothing but stop the loop -/
theorem step_exit (p : Prog) (re : Reenter) (src : Nat) (h : p.bytecode.getD src 0 = Compiler.op.exit) :
    step p re src = pure { ip := src + 1, exit := true } := by
  unfold step
  simp only [h]
  rfl

/-- the error class of a run: additionally the fuel panic of the model -/
class ExecErr (E : ErrKind → Prop) : Prop extends StepErr E where
  gas : E (.panic "gas exhausted")

/-- outcome of a run of the loop: `Q` for the call stack it returns with, `E` for its error -/
def ExecPost (Q : List Frame → Prop) (E : ErrKind → Prop) (r : VmState × Except RunErr (Option Val)) : Prop :=
  match r.2 with
  | .ok _ => Q r.1.frames
  | .error e => E e.kind

theorem fr_liftRun {fs : List Frame} {Q : List Frame → Prop} {E : ErrKind → Prop}
    {g : VmState → VmState × Except RunErr (Option Val)}
    (h : ∀ s, s.frames = fs → ExecPost Q E (g s)) : Fr (liftRun g) fs (fun _ fs' => Q fs') E := by
  constructor
  · intro s a s' hs hg
    have := h s hs
    unfold ExecPost at this
    have hgo : (liftRun g).go s = (match g s with
      | (s', .ok (some v)) => ((.ok v : Except ErrKind Val), s')
      | (s', .ok none) => (.ok .nil, s')
      | (s', .error e) => (.error e.kind, s')) := rfl
    rw [hgo] at hg
    rcases hgs : g s with ⟨s1, (e | (_ | v))⟩ <;> rw [hgs] at hg this <;> simp only [Prod.mk.injEq] at hg
    · exact absurd hg.1 (by simp)
    · obtain ⟨_, rfl⟩ := hg; exact this
    · obtain ⟨_, rfl⟩ := hg; exact this
  · intro s e s' hs hg
    have := h s hs
    unfold ExecPost at this
    have hgo : (liftRun g).go s = (match g s with
      | (s', .ok (some v)) => ((.ok v : Except ErrKind Val), s')
      | (s', .ok none) => (.ok .nil, s')
      | (s', .error e) => (.error e.kind, s')) := rfl
    rw [hgo] at hg
    rcases hgs : g s with ⟨s1, (e' | (_ | v))⟩ <;> rw [hgs] at hg this <;> simp only [Prod.mk.injEq] at hg
    · obtain ⟨h1, _⟩ := hg
      simp only [Except.error.injEq] at h1
      exact h1 ▸ this
    · exact absurd hg.1 (by simp)
    · exact absurd hg.1 (by simp)

/-- where the loop may be: above the protected base `B`, or exactly at it, about to run `Exit` -/
def AtBase (p : Prog) (B fs : List Frame) (ip : Nat) : Prop :=
  (∃ rest, rest ≠ [] ∧ fs = B ++ rest) ∨ (fs = B ∧ B ≠ [] ∧ p.bytecode.getD ip 0 = Compiler.op.exit)

/-- the base is entered only through a return to an `Exit` -/
def BaseExit (p : Prog) (B : List Frame) : Prop :=
  ∀ c, B.getLast? = some c → p.bytecode.getD c.dst 0 = Compiler.op.exit

theorem shape_above {p : Prog} {B rest fs' : List Frame} {ctl : Ctl} (hB : BaseExit p B) (hr : rest ≠ [])
    (h : Shape (B ++ rest) ctl fs') :
    (ctl.exit = true → B <+: fs' ∧ fs' ≠ []) ∧ (ctl.exit = false → AtBase p B fs' ctl.ip) := by
  rw [Shape, List.dropLast_append_of_ne_nil hr] at h
  rcases h with ⟨t, ht, rfl⟩ | ⟨rfl, hne, hx, c, hc, hip⟩
  · refine ⟨fun _ => ⟨⟨rest.dropLast ++ t, by simp⟩, by simp [ht]⟩, fun _ => .inl ⟨rest.dropLast ++ t, by simp [ht], by simp⟩⟩
  · refine ⟨fun h => (by rw [hx] at h; cases h), fun _ => ?_⟩
    by_cases hd : rest.dropLast = []
    · rw [hd, List.append_nil] at hne hc ⊢
      exact .inr ⟨rfl, hne, by rw [hip]; exact hB c hc⟩
    · exact .inl ⟨_, hd, rfl⟩


theorem execPost_failAt {Q : List Frame → Prop} {E : ErrKind → Prop} (s : VmState) (e : ErrKind)
    (h : E e) : ExecPost Q E (failAt s e) := h

theorem prefix_dropLast_of_concat {F u : List Frame} (fr : Frame) :
    F <+: (F ++ [fr] ++ u).dropLast := by
  rw [List.append_assoc, List.dropLast_append_of_ne_nil (by simp)]
  exact List.prefix_append _ _

section exec
variable {G : Nat → Prop} {E : ErrKind → Prop} [ExecErr E] (p : Prog) (hc : Cfi p G)

/-- what the loop guarantees, for a given amount of fuel -/
def LoopSpec (G : Nat → Prop) (E : ErrKind → Prop) (p : Prog) (gas : Nat) : Prop :=
  ∀ (B : List Frame) (ip : Nat) (s : VmState), BaseExit p B → Good G s.frames → G ip →
    AtBase p B s.frames ip →
    ExecPost (fun fs' => B <+: fs' ∧ Good G fs' ∧ fs' ≠ []) E (exec p gas (.loop ip) s)

/-- what `run_function` guarantees (since `run_function` pops the call stack back to its entry
    depth: it returns with exactly the call stack it was called on) -/
def CallSpec (G : Nat → Prop) (E : ErrKind → Prop) (p : Prog) (gas : Nat) : Prop :=
  ∀ (f : Val) (s : VmState), Good G s.frames →
    ExecPost (fun fs' => fs' = s.frames ∧ Good G fs') E (exec p gas (.call f) s)

theorem execPost_mono {Q Q' : List Frame → Prop} {E : ErrKind → Prop}
    {r : VmState × Except RunErr (Option Val)} (h : ExecPost Q E r) (hq : ∀ fs, Q fs → Q' fs) :
    ExecPost Q' E r := by
  unfold ExecPost at h ⊢
  split
  · next heq => rw [heq] at h; exact hq _ h
  · next heq => rw [heq] at h; exact h

/-- the former (weaker) form of `CallSpec`: the call stack `run_function` returns with extends the
    one it was called on -/
theorem CallSpec.prefix {G : Nat → Prop} {E : ErrKind → Prop} {p : Prog} {gas : Nat}
    (h : CallSpec G E p gas) (f : Val) (s : VmState) (hg : Good G s.frames) :
    ExecPost (fun fs' => s.frames <+: fs' ∧ Good G fs') E (exec p gas (.call f) s) :=
  execPost_mono (h f s hg) (fun fs h' => ⟨h'.1 ▸ List.prefix_refl _, h'.2⟩)

include hc in
theorem enterScript_cfi (gas : Nat) (ih : LoopSpec G E p gas) (s : VmState) (l : UInt32) (ar : Nat)
    (c : Option Nat) (hg : Good G s.frames) :
    ExecPost (fun fs' => fs' = s.frames ∧ Good G fs') E (enterScript p gas s l ar c) := by
  unfold enterScript
  split
  · exact execPost_failAt _ _ (ErrClass.calm (calm_of_plain rfl))
  next pos hfind =>
  dsimp only
  split
  · exact execPost_failAt _ _ (ErrClass.calm (calm_of_plain rfl))
  split
  · exact execPost_failAt _ _ (ErrClass.calm (calm_of_plain rfl))
  split
  · exact (ErrClass.calm (calm_of_plain rfl) : E .callStackOverflow)
  generalize hfr : ({ src := pos, dst := p.bytecode.size - 1, stackOffset := s.stack.count - ar, closure := c } : Frame) = fr
  have hdst : fr.dst = p.bytecode.size - 1 := by rw [← hfr]
  have hB : BaseExit p (s.frames ++ [fr]) := by
    intro c' hc'
    rw [List.getLast?_append, List.getLast?_singleton] at hc'
    simp only [Option.some_or, Option.some.injEq] at hc'
    rw [← hc', hdst]; exact hc.lastExit
  have hgood : Good G (s.frames ++ [fr, fr]) := by
    intro f hf
    simp only [List.mem_append, List.mem_cons, List.not_mem_nil, or_false, or_self] at hf
    rcases hf with hf | rfl
    · exact hg f hf
    · rw [hdst]; exact hc.last
  have hpos : G pos := hc.label _ (List.mem_of_find?_eq_some hfind)
  have key := ih (s.frames ++ [fr]) pos { s with frames := s.frames ++ [fr, fr] } hB hgood hpos
    (.inl ⟨[fr], by simp, by simp⟩)
  unfold ExecPost at key ⊢
  rcases hex : exec p gas (.loop pos) { s with frames := s.frames ++ [fr, fr] } with ⟨s', r⟩
  rw [hex] at key
  cases r with
  | error e => exact key
  | ok v =>
    obtain ⟨⟨u, hu⟩, hg', _⟩ := key
    dsimp only at hu hg' ⊢
    refine ⟨?_, fun f hf => hg' f (List.mem_of_mem_take hf)⟩
    rw [← hu, List.append_assoc, List.take_left' rfl]

include hc in
/-- **control-flow integrity of the dispatch loop and of `run_function`**, by induction on the fuel -/
theorem exec_cfi : ∀ gas, LoopSpec G E p gas ∧ CallSpec G E p gas := by
  intro gas
  induction gas with
  | zero =>
    constructor
    · intro B ip s _ _ _ _
      rw [exec_zero]; exact ExecErr.gas
    · intro f s _
      rw [exec_zero]; exact ExecErr.gas
  | succ gas ih =>
    have hre : ReBase (reenterOf p gas) G E := fun f fs hg =>
      fr_liftRun (fun s hs => by subst hs; exact ih.2.prefix f s hg)
    constructor
    · intro B ip s hB hg hip hat
      rw [exec_loop]
      split
      · exact ErrClass.calm (calm_of_plain rfl)
      split
      · exact ErrClass.calm (calm_of_plain rfl)
      have hne : s.frames ≠ [] := by
        rcases hat with ⟨rest, hr, he⟩ | ⟨he, hb, _⟩
        · rw [he]; simp [hr]
        · rw [he]; exact hb
      have hstep := fr_step_cfi p hc (reenterOf p gas) hre ip s.frames hne hg hip
      rcases hat with ⟨rest, hr, he⟩ | ⟨he, hb, hx⟩
      · split
        · next e s' heq => exact hstep.err s.tick e s' rfl heq
        · next ctl s' heq =>
          have post := hstep.ok s.tick ctl s' rfl heq
          have hs := shape_above (ctl := ctl) hB hr (he ▸ post.shape)
          split
          · next hexit => exact ⟨(hs.1 hexit).1, post.good, (hs.1 hexit).2⟩
          · next hexit =>
            have hexit' : ctl.exit = false := by cases h : ctl.exit <;> simp_all
            exact ih.1 B ctl.ip s' hB post.good (post.next hexit') (hs.2 hexit')
      · rw [step_exit p _ ip hx]
        simp only [go_pure, if_true]
        show B <+: s.frames ∧ Good G s.frames ∧ s.frames ≠ []
        exact ⟨he ▸ List.prefix_refl _, hg, hne⟩
    · intro f s hg
      rw [exec_call]
      split
      · split
        · next a h hget =>
          have hreq : ReSpec (reenterOf p gas) (fun fs => fs = s.frames ∧ Good G fs) E := fun f fs hJ =>
            fr_liftRun (fun s₁ hs => by
              subst hs
              exact execPost_mono (ih.2 f s₁ hJ.2) (fun fs h' => ⟨h'.1.trans hJ.1, h'.2⟩))
          have hn := fr_callNative (E := E) (reenterOf p gas) (fun fs => fs = s.frames ∧ Good G fs) hreq h
            s.frames ⟨rfl, hg⟩
          split
          · next s' heq => exact hn.ok s () s' rfl heq
          · next e s' heq => exact execPost_failAt _ _ (hn.err s e s' rfl heq)
        · exact enterScript_cfi p hc gas ih.1 s _ _ _ hg
        · exact enterScript_cfi p hc gas ih.1 s _ _ _ hg
        · exact execPost_failAt _ _ (ErrClass.calm (calm_of_plain rfl))
      · exact execPost_failAt _ _ (ErrClass.calm (calm_of_plain rfl))

include hc in
/-- **`run`**: from a call stack whose return addresses are instruction starts, every error `run`
    reports is in `E` -/
theorem run_cfi (h0 : G 0) (n : Nat) (s : VmState) (hg : Good G s.frames) (e : RunErr)
    (h : (run p n s).2 = some e) : E e.kind := by
  by_cases hr : s.frames.length < s.frameCap
  · rw [run_room p n s hr] at h
    simp only at h
    have hgood : Good G (started n s).frames := by
      intro f hf
      simp only [started, List.mem_append, List.mem_singleton] at hf
      rcases hf with hf | rfl
      · exact hg f hf
      · exact h0
    have key := (exec_cfi (E := E) p hc (gasFor (started n s) n)).1 [] 0 (started n s)
      (fun c hc' => by simp at hc') hgood h0
      (.inl ⟨(started n s).frames, by simp [started], by simp⟩)
    unfold ExecPost at key
    split at h
    · cases h
    · next e' heq =>
      simp only [Option.some.injEq] at h
      subst h
      rw [heq] at key
      exact key
  · rw [run_no_room p n s (Nat.not_lt.1 hr)] at h
    simp only [Option.some.injEq] at h
    subst h
    exact ErrClass.calm (calm_of_plain rfl)

include hc in
/-- … and while the loop runs the call stack is never empty: `run` returns with a call stack that
    extends the one it was started with (before the final truncation) -/
theorem runLoop_frames (h0 : G 0) (n : Nat) (s : VmState) (hg : Good G s.frames) :
    ExecPost (fun fs' => fs' ≠ [] ∧ Good G fs') E
      (exec p (gasFor (started n s) n) (.loop 0) (started n s)) := by
  have hgood : Good G (started n s).frames := by
    intro f hf
    simp only [started, List.mem_append, List.mem_singleton] at hf
    rcases hf with hf | rfl
    · exact hg f hf
    · exact h0
  have key := (exec_cfi (E := E) p hc (gasFor (started n s) n)).1 [] 0 (started n s)
    (fun c hc' => by simp at hc') hgood h0
    (.inl ⟨(started n s).frames, by simp [started], by simp⟩)
  unfold ExecPost at key ⊢
  split at key
  · exact ⟨key.2.2, key.2.1⟩
  · exact key

end exec

end Cao.Vm
