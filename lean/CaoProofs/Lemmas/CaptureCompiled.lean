import CaoProofs.Lemmas.CaptureJumps
import CaoProofs.Lemmas.CaptureCheck
import CaoProofs.Props.C10b
/-!
# From the jump structure of compiled code to the executable checker `capStaticB` (C04c, stage D, (b)–(d))

`capStaticB_of_seg`: a program whose whole bytecode is a segment `JSeg … 0 size Bs` (`Lemmas/CaptureJumps.lean`:
every jump stays inside / outside of the body of every closure block, every `Closure` instruction belongs to
a block whose label is in the label log), whose closure handles do not collide in the log, whose
function-pointer handles resolve to positions outside of all closure bodies, and which passes the checker's
upvalue clause (`C10.UpvaluesChecked`), passes `capStaticB`.
-/
namespace Cao.C04c
open Cao Cao.Compiler Cao.Bytecode

theorem vm_rdU32 (b : Array UInt8) (q : Nat) : Vm.rdU32 b q = Bytecode.rdU32 b q := rfl

theorem inRegion_iff (B : Nat × Nat) (n y : Nat) : inRegion (B.1 + 5, B.2, n) y = true ↔ InBody B y := by
  simp [inRegion, InBody]

theorem inRegion_congr {B : Nat × Nat} {n x y : Nat} (h : InBody B x ↔ InBody B y) :
    inRegion (B.1 + 5, B.2, n) x = inRegion (B.1 + 5, B.2, n) y := by
  rw [Bool.eq_iff_iff, inRegion_iff, inRegion_iff]; exact h

theorem inRegion_false {B : Nat × Nat} {n x : Nat} (h : ¬ InBody B x) :
    inRegion (B.1 + 5, B.2, n) x = false := by
  rw [← Bool.not_eq_true, inRegion_iff]; exact h

/-! ## the two counters agree -/

theorem count_eq (p : Program) : ∀ (fuel at_ n : Nat),
    wfReason.count p fuel at_ n = n + countPairs p.bytecode fuel at_
  | 0, _, _ => by unfold wfReason.count countPairs; rfl
  | f+1, at_, n => by
    unfold wfReason.count countPairs
    split
    · rw [count_eq p f (at_ + 4) (n + 1)]; omega
    · rfl

theorem countPairs_pairs (bc : Array UInt8) : ∀ (fuel at_ k : Nat), k < countPairs bc fuel at_ →
    bc.getD (at_ + 4 * k) 0 = op.copyLast ∧ bc.getD (at_ + 4 * k + 1) 0 = op.registerUpvalue
  | 0, _, _, h => by unfold countPairs at h; omega
  | f+1, at_, k, h => by
    unfold countPairs at h
    split at h
    · rename_i hc
      simp only [Bool.and_eq_true, beq_iff_eq] at hc
      cases k with
      | zero => exact hc
      | succ k =>
        have := countPairs_pairs bc f (at_ + 4) k (by omega)
        rw [show at_ + 4 * (k + 1) = at_ + 4 + 4 * k by omega]
        exact this
    · omega

/-! ## the innermost region -/

theorem lvlOf_eq (rs : List (Nat × Nat × Nat)) (pos : Nat) :
    lvlOf rs pos = match (rs.filter (fun r => r.1 ≤ pos && pos < r.2.1)).foldl C10b.pick none with
      | none => 0
      | some r => r.2.2 := rfl

/-! ## the main lemma -/

theorem region_some {p : Program} {x : Nat × UInt8} {r : Nat × Nat × Nat} :
    (if p.bytecode.getD x.1 0 == op.closure then
      match p.labels.find? (fun l => l.1 == UInt32.ofNat (Vm.rdU32 p.bytecode (x.1 + 1))) with
      | some e => some (e.2, x.1, cntOf p.bytecode x.1)
      | none => none
    else none) = some r ↔
    (p.bytecode.getD x.1 0 = op.closure ∧ ∃ e,
      p.labels.find? (fun l => l.1 == UInt32.ofNat (Vm.rdU32 p.bytecode (x.1 + 1))) = some e ∧
      r = (e.2, x.1, cntOf p.bytecode x.1)) := by
  by_cases hc : p.bytecode.getD x.1 0 = op.closure
  · rw [if_pos (by rw [hc]; simp)]
    cases hf : p.labels.find? (fun l => l.1 == UInt32.ofNat (Vm.rdU32 p.bytecode (x.1 + 1))) with
    | none => simp
    | some e =>
      simp only [Option.some.injEq, hc, true_and]
      constructor
      · intro h; exact ⟨e, rfl, h.symm⟩
      · rintro ⟨e', h1, h2⟩; cases h1; exact h2.symm
  · rw [if_neg (by simpa using hc)]
    constructor
    · intro h; cases h
    · intro h; exact absurd h.1 hc

section
variable {p : Program} {log : List (UInt32 × Nat)} {Bs : List (Nat × Nat)}

/-- the checker's regions are the bodies of the closure blocks -/
structure Fit (p : Program) (Bs : List (Nat × Nat)) : Prop where
  reg : ∀ r ∈ regionsOf p, ∃ B ∈ Bs, r = (B.1 + 5, B.2, cntOf p.bytecode B.2)
  mem : ∀ B ∈ Bs, (B.1 + 5, B.2, cntOf p.bytecode B.2) ∈ regionsOf p
  find : ∀ B ∈ Bs, ∃ e, p.labels.find? (fun l => l.1 == UInt32.ofNat (Vm.rdU32 p.bytecode (B.2 + 1))) = some e ∧
    e.2 = B.1 + 5

theorem blk_instr (G : JSeg p.bytecode log (fun t => t ≤ p.bytecode.size) 0 p.bytecode.size Bs) {B : Nat × Nat}
    (hB : B ∈ Bs) : C10.IsInstr p B.2 op.closure := by
  have b := G.blk B hB
  have h1 := b.len
  have sr : Gen.spanOf (p.bytecode.getD (B.2 - 1) 0) = some 1 := by rw [b.ret]; decide
  have := b.tr.trans (.single sr)
  rw [show B.2 - 1 + 1 = B.2 by omega] at this
  exact ⟨this, by have := b.hi; omega, b.clo.symm⟩

theorem fit_of_seg (hl : p.labels = resolveLog log)
    (G : JSeg p.bytecode log (fun t => t ≤ p.bytecode.size) 0 p.bytecode.size Bs)
    {l : List (Nat × UInt8)} (hdec : decodeAll p.bytecode (p.bytecode.size + 1) 0 [] = .ok l)
    (hcd : ∀ c, C10.IsInstr p c op.closure → ∀ l1 ∈ log, ∀ l2 ∈ log,
      l1.1 = UInt32.ofNat (rdU32 p.bytecode (c + 1)) → l2.1 = l1.1 → l2.2 = l1.2) : Fit p Bs := by
  obtain ⟨_, hmem, _⟩ := decodeAll_tiles hdec
  have hcap : capInstrs p = l := by unfold capInstrs; rw [hdec]
  have key : ∀ B ∈ Bs, ∃ e, p.labels.find? (fun l => l.1 == UInt32.ofNat (Vm.rdU32 p.bytecode (B.2 + 1))) = some e ∧
      e.2 = B.1 + 5 := by
    intro B hB
    have b := G.blk B hB
    obtain ⟨e, he, hes⟩ := C10b.find_label b.lab (fun l2 h2 e2 => hcd B.2 (blk_instr G hB) _ b.lab l2 h2 rfl e2)
    exact ⟨e, by rw [hl, vm_rdU32]; exact he, hes⟩
  refine ⟨?_, ?_, key⟩
  · intro r hr
    unfold regionsOf at hr
    rw [hcap] at hr
    obtain ⟨x, hx, hf⟩ := List.mem_filterMap.1 hr
    obtain ⟨h1, h2, h3⟩ := (hmem x).1 hx
    obtain ⟨hc', e0, he0, hr0⟩ := region_some.1 hf
    obtain ⟨B, hB, e⟩ := G.clos x.1 h1 h2 hc'
    obtain ⟨e', he', hes⟩ := key B hB
    rw [e] at he'
    rw [he'] at he0
    cases he0
    exact ⟨B, hB, by rw [hr0, hes, e]⟩
  · intro B hB
    obtain ⟨i1, i2, i3⟩ := blk_instr G hB
    obtain ⟨e', he', hes⟩ := key B hB
    unfold regionsOf
    rw [hcap]
    refine List.mem_filterMap.2 ⟨(B.2, p.bytecode.getD B.2 0), (hmem _).2 ⟨i1, i2, rfl⟩, ?_⟩
    exact region_some.2 ⟨i3.symm, e', he', by rw [hes]⟩

/-- the skip-`Goto` of a block lies in the body of another block iff its `Closure` instruction does -/
theorem skip_resp (hsz : p.bytecode.size < 2 ^ 32)
    (G : JSeg p.bytecode log (fun t => t ≤ p.bytecode.size) 0 p.bytecode.size Bs) {B : Nat × Nat} (hB : B ∈ Bs) :
    ∀ B' ∈ Bs, (InBody B' B.1 ↔ InBody B' B.2) := by
  have b := G.blk B hB
  have h1 := b.len
  have h2 := b.hi
  obtain ⟨t, e, ht, hr⟩ := G.jmp B.1 b.ta (by omega) (by rw [b.goto]; decide)
  rw [b.tgt, Nat.mod_eq_of_lt (by omega), Nat.mod_eq_of_lt (by omega)] at e
  subst e
  exact hr

theorem lvl_congr (F : Fit p Bs) {x y : Nat} (h : ∀ B ∈ Bs, (InBody B x ↔ InBody B y)) :
    lvlOf (regionsOf p) x = lvlOf (regionsOf p) y := by
  refine lvlOf_congr fun r hr => ?_
  obtain ⟨B, hB, rfl⟩ := F.reg r hr
  exact inRegion_congr (h B hB)

theorem lvl_zero (F : Fit p Bs) {x : Nat} (h : ∀ B ∈ Bs, ¬ InBody B x) : lvlOf (regionsOf p) x = 0 :=
  lvlOf_outside fun r hr => by
    obtain ⟨B, hB, rfl⟩ := F.reg r hr
    exact inRegion_false (h B hB)

/-- falling through an instruction other than `Goto` / `Return` keeps the bodies -/
theorem seq_resp (G : JSeg p.bytecode log (fun t => t ≤ p.bytecode.size) 0 p.bytecode.size Bs) {x sp : Nat}
    (hx : Start p.bytecode x) (hs : Gen.spanOf (p.bytecode.getD x 0) = some sp)
    (hg : p.bytecode.getD x 0 ≠ op.goto) (hr : p.bytecode.getD x 0 ≠ op.ret) :
    ∀ B ∈ Bs, (InBody B (x + sp) ↔ InBody B x) := by
  intro B hB
  have b := G.blk B hB
  have hl := b.len
  have hsp := span_pos hs
  have sg : Gen.spanOf (p.bytecode.getD B.1 0) = some 5 := by rw [b.goto]; decide
  have sr : Gen.spanOf (p.bytecode.getD (B.2 - 1) 0) = some 1 := by rw [b.ret]; decide
  unfold InBody
  constructor
  · rintro ⟨h1, h2⟩
    refine ⟨?_, by omega⟩
    rcases Nat.lt_trichotomy x B.1 with h | h | h
    · have := hx.no_overlap b.ta h hs; omega
    · rw [h] at hg; exact absurd b.goto hg
    · have := b.ta.no_overlap hx h sg; omega
  · rintro ⟨h1, h2⟩
    refine ⟨by omega, ?_⟩
    rcases Nat.lt_or_ge x (B.2 - 1) with h | h
    · have := hx.no_overlap b.tr h hs; omega
    · have : x = B.2 - 1 := by omega
      rw [this] at hr; exact absurd b.ret hr

/-- the level of the first position of a body is the number of pairs behind its `Closure` instruction -/
theorem lvl_body_start (hsz : p.bytecode.size < 2 ^ 32)
    (G : JSeg p.bytecode log (fun t => t ≤ p.bytecode.size) 0 p.bytecode.size Bs) (F : Fit p Bs) {B : Nat × Nat}
    (hB : B ∈ Bs) : lvlOf (regionsOf p) (B.1 + 5) = cntOf p.bytecode B.2 := by
  have b := G.blk B hB
  have hl := b.len
  have hq : (B.1 + 5, B.2, cntOf p.bytecode B.2) ∈
      (regionsOf p).filter (fun r => r.1 ≤ B.1 + 5 && B.1 + 5 < r.2.1) := by
    rw [List.mem_filter]
    refine ⟨F.mem B hB, ?_⟩
    simp only [Bool.and_eq_true, decide_eq_true_eq]
    omega
  obtain ⟨r0, e0, m0, min0⟩ := C10b.foldl_pick_none hq
  rw [lvlOf_eq, e0]
  have hle := min0 _ hq
  rw [List.mem_filter] at m0
  obtain ⟨m1, m2⟩ := m0
  obtain ⟨B0, hB0, rfl⟩ := F.reg r0 m1
  simp only [Bool.and_eq_true, decide_eq_true_eq] at m2 hle
  have b0 := G.blk B0 hB0
  have hl0 := b0.len
  have h9 := b.hi
  have h90 := b0.hi
  show cntOf p.bytecode B0.2 = cntOf p.bytecode B.2
  suffices h : B0.2 = B.2 by rw [h]
  rcases Nat.lt_or_ge B0.1 B.1 with h | h
  · exfalso
    have sg : Gen.spanOf (p.bytecode.getD B0.1 0) = some 5 := by rw [b0.goto]; decide
    have := b0.ta.no_overlap b.ta h sg
    have hin : InBody B0 B.1 := ⟨this, by omega⟩
    have := ((skip_resp hsz G hB) B0 hB0).1 hin
    unfold InBody at this
    omega
  · have : B0.1 = B.1 := by omega
    have t0 := b0.tgt
    rw [this, b.tgt, Nat.mod_eq_of_lt (by omega), Nat.mod_eq_of_lt (by omega)] at t0
    exact t0.symm

theorem filterMap_congr' {α β : Type} {f g : α → Option β} : ∀ (l : List α), (∀ x ∈ l, f x = g x) →
    l.filterMap f = l.filterMap g
  | [], _ => rfl
  | x :: xs, h => by
    rw [List.filterMap_cons, List.filterMap_cons, h x (List.mem_cons_self ..),
      filterMap_congr' xs fun y hy => h y (List.mem_cons_of_mem _ hy)]

theorem regions_eq {l : List (Nat × UInt8)} (hdec : decodeAll p.bytecode (p.bytecode.size + 1) 0 [] = .ok l) :
    regionsOf p = C10.regionsOf p l := by
  obtain ⟨_, hmem, _⟩ := decodeAll_tiles hdec
  have hcap : capInstrs p = l := by unfold capInstrs; rw [hdec]
  unfold regionsOf C10.regionsOf
  rw [hcap]
  apply filterMap_congr'
  intro x hx
  obtain ⟨_, _, h3⟩ := (hmem x).1 hx
  obtain ⟨pos, o⟩ := x
  simp only at h3 ⊢
  subst h3
  by_cases hc : (p.bytecode.getD pos 0 == op.closure) = true
  · rw [if_pos hc, if_pos hc]
    simp only [vm_rdU32]
    generalize p.labels.find? (fun l => l.1 == UInt32.ofNat (rdU32 p.bytecode (pos + 1))) = fo
    cases fo with
    | none => rfl
    | some e =>
      obtain ⟨e1, e2⟩ := e
      simp only [cntOf, count_eq, Nat.zero_add]
  · rw [if_neg hc, if_neg hc]

/-- the checker's upvalue clause, read by `lvlOf` -/
theorem reg_ok {l : List (Nat × UInt8)} (hdec : decodeAll p.bytecode (p.bytecode.size + 1) 0 [] = .ok l)
    (hup : C10.UpvaluesChecked p) {src : Nat} (hi : (src, op.registerUpvalue) ∈ l)
    (hz : p.bytecode.getD (src + 2) 0 = 0) :
    (p.bytecode.getD (src + 1) 0).toNat < lvlOf (regionsOf p) src := by
  have h := List.findSome?_eq_none_iff.1 (hup l hdec) _ hi
  have h1 : (op.registerUpvalue == op.setUpvalue || op.registerUpvalue == op.readUpvalue) = false := by decide
  simp only [C10.checkUpOf, h1, Bool.false_eq_true, if_false] at h
  rw [if_pos (by simp [hz])] at h
  rw [regions_eq hdec, lvlOf_eq, ← C10b.enclosingOf_eq]
  cases henc : C10.enclosingOf p l src with
  | none => rw [henc] at h; cases h
  | some q =>
    rw [henc] at h
    obtain ⟨q1, q2, n⟩ := q
    simp only at h ⊢
    split at h
    · assumption
    · cases h

/-- **the decomposition lemma of stage D** -/
theorem capStaticB_of_seg (hl : p.labels = resolveLog log) (hsz : p.bytecode.size < 2 ^ 32)
    (G : JSeg p.bytecode log (fun t => t ≤ p.bytecode.size) 0 p.bytecode.size Bs)
    {l : List (Nat × UInt8)} (hdec : decodeAll p.bytecode (p.bytecode.size + 1) 0 [] = .ok l)
    (hcd : ∀ c, C10.IsInstr p c op.closure → ∀ l1 ∈ log, ∀ l2 ∈ log,
      l1.1 = UInt32.ofNat (rdU32 p.bytecode (c + 1)) → l2.1 = l1.1 → l2.2 = l1.2)
    (hup : C10.UpvaluesChecked p)
    (hfn : ∀ x, C10.IsInstr p x op.functionPointer → ∀ e,
      p.labels.find? (fun l => l.1 == UInt32.ofNat (rdU32 p.bytecode (x + 1))) = some e →
      ∀ B ∈ Bs, ¬ InBody B e.2) : capStaticB p = true := by
  have F := fit_of_seg hl G hdec hcd
  obtain ⟨htl, hmem, _⟩ := decodeAll_tiles hdec
  have hcap : capInstrs p = l := by unfold capInstrs; rw [hdec]
  unfold capStaticB
  simp only [Bool.and_eq_true, beq_iff_eq, List.all_eq_true]
  refine ⟨⟨fun x hx => ?_, lvl_zero F (G.outside (.inr (by omega)))⟩, lvl_zero F (G.outside (.inl (Nat.le_refl _)))⟩
  rw [hcap] at hx
  obtain ⟨h1, h2, h3⟩ := (hmem x).1 hx
  obtain ⟨sp, hs, _, _⟩ := h1.start_lt htl h2
  unfold chkInstr
  simp only [Bool.and_eq_true]
  refine ⟨⟨⟨⟨?_, ?_⟩, ?_⟩, ?_⟩, ?_⟩
  · -- fall-through
    by_cases he : p.bytecode.getD x.1 0 = op.exit
    · rw [he]; rfl
    by_cases hg : p.bytecode.getD x.1 0 = op.goto
    · rw [hg]; rfl
    by_cases hr : p.bytecode.getD x.1 0 = op.ret
    · rw [hr]; rfl
    simp only [hs, Bool.or_eq_true, beq_iff_eq]
    exact .inr (lvl_congr F (seq_resp G h1 hs hg hr))
  · -- jumps
    cases hj : isJump (p.bytecode.getD x.1 0) with
    | false =>
      have : (p.bytecode.getD x.1 0 == op.goto || p.bytecode.getD x.1 0 == op.gotoIfTrue ||
        p.bytecode.getD x.1 0 == op.gotoIfFalse) = false := hj
      rw [this]; rfl
    | true =>
      obtain ⟨t, e, ht, hr⟩ := G.jmp x.1 h1 h2 hj
      rw [Nat.mod_eq_of_lt (by omega)] at e
      simp only [Bool.or_eq_true, beq_iff_eq]
      right
      rw [vm_rdU32, e]
      exact lvl_congr F fun B hB => (hr B hB).symm
  · -- non-local captures
    by_cases hro : p.bytecode.getD x.1 0 = op.registerUpvalue ∧ p.bytecode.getD (x.1 + 2) 0 = 0
    · have hi : (x.1, op.registerUpvalue) ∈ l := by
        rw [← hro.1, ← h3]; exact hx
      have := reg_ok hdec hup hi hro.2
      simp only [Bool.or_eq_true, decide_eq_true_eq]
      exact .inr this
    · have : (p.bytecode.getD x.1 0 == op.registerUpvalue && p.bytecode.getD (x.1 + 2) 0 == 0) = false := by
        rw [Bool.and_eq_false_iff]
        by_cases h : p.bytecode.getD x.1 0 = op.registerUpvalue
        · right
          rw [beq_eq_false_iff_ne]
          exact fun hh => hro ⟨h, hh⟩
        · left
          rw [beq_eq_false_iff_ne]
          exact h
      rw [this]; rfl
  · -- closure labels and pairs
    by_cases hc : p.bytecode.getD x.1 0 = op.closure
    · obtain ⟨B, hB, e⟩ := G.clos x.1 h1 h2 hc
      obtain ⟨e', he', hes⟩ := F.find B hB
      rw [e] at he'
      simp only [hc, beq_self_eq_true, Bool.not_true, Bool.false_or, Bool.and_eq_true, he', decide_eq_true_eq,
        List.all_eq_true, List.mem_range, beq_iff_eq]
      refine ⟨?_, fun k hk => countPairs_pairs _ _ _ _ hk⟩
      rw [hes, lvl_body_start hsz G F hB, e]
      exact Nat.le_refl _
    · have : (p.bytecode.getD x.1 0 == op.closure) = false := by rw [beq_eq_false_iff_ne]; exact hc
      rw [this]; rfl
  · -- function pointers
    by_cases hc : p.bytecode.getD x.1 0 = op.functionPointer
    · simp only [hc, beq_self_eq_true, Bool.not_true, Bool.false_or]
      cases hf : p.labels.find? (fun l => l.1 == UInt32.ofNat (Vm.rdU32 p.bytecode (x.1 + 1))) with
      | none => rfl
      | some e =>
        simp only [beq_iff_eq]
        exact lvl_zero F (hfn x.1 ⟨h1, h2, hc.symm⟩ e hf)
    · have : (p.bytecode.getD x.1 0 == op.functionPointer) = false := by rw [beq_eq_false_iff_ne]; exact hc
      rw [this]; rfl

end

end Cao.C04c
