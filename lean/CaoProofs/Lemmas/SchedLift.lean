import CaoProofs.Lemmas.SchedCheck
/-!
# Schedule independence: from instructions to runs

`execG stp nat p` is the dispatch loop / `run_function` of `CaoModel/Vm.lean` with the instruction
(`stp`) and the host function call of `run_function` (`nat`) as parameters:
`exec p = execG (step p) callNative p` (`exec_eq_execG`), and the *checked interpreter* is
`execC p := execG (stepC p) natC p`. `execG_sim`: if instructions and host function calls respect
the relation, so do the loop, `run_function` and `run` — in particular the checked interpreter
does, unconditionally (`execC_sim`, `runC_sim`).
-/
namespace Cao.SchedFull
open Cao Cao.Vm Cao.Gc Cao.C02 Cao.C05 Cao.RunInv Cao.Native
set_option linter.unusedVariables false
set_option linter.unusedSectionVars false

abbrev ExecRes := VmState × Except RunErr (Option Val)

/-- `run_function` on a script callee, the loop given as a parameter -/
def enterBy (p : Prog) (k : Nat → VmState → ExecRes) (s : VmState) (label : UInt32) (arity : Nat)
    (closure : Option Nat) : ExecRes :=
  match p.labels.find? (fun l => l.1 == label) with
  | none => failAt s .procedureNotFound
  | some (_, pos) =>
    if s.stack.count < arity then failAt s .missingArgument else
    let fr : Frame := { src := pos, dst := p.bytecode.size - 1, stackOffset := s.stack.count - arity, closure := closure }
    if s.frames.length + 1 > s.frameCap then failAt s .callStackOverflow else
    if s.frames.length + 2 > s.frameCap then (s, .error ⟨.callStackOverflow, 0, s.frames ++ [fr]⟩) else
    match k pos { s with frames := s.frames ++ [fr, fr] } with
    | (s', .ok _) =>
      ({ s' with frames := s'.frames.take s.frames.length, stack := s'.stack.pop.1 }, .ok (some s'.stack.pop.2))
    | (s', .error e) => ({ s' with frames := s'.frames.take s.frames.length }, .error e)

/-- the dispatch loop and `run_function`, parametrised by the instruction and the host call -/
def execG (stp : Reenter → Nat → M Ctl) (nat : Reenter → UInt32 → M Unit) (p : Prog) :
    Nat → Task → VmState → ExecRes
  | 0, _, s => (s, .error ⟨.panic "gas exhausted", 0, s.frames⟩)
  | gas+1, .loop ip, s =>
    if ip ≥ p.bytecode.size then (s, .error ⟨.unexpectedEndOfInput, ip, s.frames⟩) else
    if s.remaining - 1 = 0 then
      ({ s with remaining := s.remaining - 1 }, .error ⟨.timeout, ip, s.frames⟩) else
    match (stp (fun f => liftRun (execG stp nat p gas (.call f))) ip).go s.tick with
    | (.error e, s') => (s', .error ⟨e, ip, s'.frames⟩)
    | (.ok ctl, s') => if ctl.exit then (s', .ok none) else execG stp nat p gas (.loop ctl.ip) s'
  | gas+1, .call f, s =>
    match f with
    | .obj a =>
      match s.heap.get a with
      | some (.native h) =>
        match (nat (fun g => liftRun (execG stp nat p gas (.call g))) h).go s with
        | (.ok (), s') => ({ s' with stack := s'.stack.pop.1 }, .ok (some s'.stack.pop.2))
        | (.error e, s') => failAt s' e
      | some (.fn h ar) => enterBy p (fun pos s' => execG stp nat p gas (.loop pos) s') s h ar.toNat none
      | some (.closure h ar _) =>
        enterBy p (fun pos s' => execG stp nat p gas (.loop pos) s') s h ar.toNat (some a)
      | _ => failAt s .invalidArgument
    | _ => failAt s .invalidArgument

/-- the callback `execG` hands to instructions and host functions -/
def reenterG (stp : Reenter → Nat → M Ctl) (nat : Reenter → UInt32 → M Unit) (p : Prog) (gas : Nat) : Reenter :=
  fun f => liftRun (execG stp nat p gas (.call f))

theorem execG_zero (stp nat p) (t : Task) (s : VmState) :
    execG stp nat p 0 t s = (s, .error ⟨.panic "gas exhausted", 0, s.frames⟩) := by
  unfold execG; rfl

theorem execG_loop (stp nat p) (gas ip : Nat) (s : VmState) :
    execG stp nat p (gas+1) (.loop ip) s =
      if ip ≥ p.bytecode.size then (s, .error ⟨.unexpectedEndOfInput, ip, s.frames⟩) else
      if s.remaining - 1 = 0 then
        ({ s with remaining := s.remaining - 1 }, .error ⟨.timeout, ip, s.frames⟩) else
      match (stp (reenterG stp nat p gas) ip).go s.tick with
      | (.error e, s') => (s', .error ⟨e, ip, s'.frames⟩)
      | (.ok ctl, s') => if ctl.exit then (s', .ok none) else execG stp nat p gas (.loop ctl.ip) s' := by
  rw [execG]; rfl

theorem execG_call (stp nat p) (gas : Nat) (f : Val) (s : VmState) :
    execG stp nat p (gas+1) (.call f) s =
      match f with
      | .obj a =>
        match s.heap.get a with
        | some (.native h) =>
          match (nat (reenterG stp nat p gas) h).go s with
          | (.ok (), s') => ({ s' with stack := s'.stack.pop.1 }, .ok (some s'.stack.pop.2))
          | (.error e, s') => failAt s' e
        | some (.fn h ar) => enterBy p (fun pos s' => execG stp nat p gas (.loop pos) s') s h ar.toNat none
        | some (.closure h ar _) =>
          enterBy p (fun pos s' => execG stp nat p gas (.loop pos) s') s h ar.toNat (some a)
        | _ => failAt s .invalidArgument
      | _ => failAt s .invalidArgument := by
  cases f with
  | obj a => rw [execG.eq_3]; rfl
  | nil => rw [execG]; intro a h; cases h
  | int _ => rw [execG]; intro a h; cases h
  | real _ => rw [execG]; intro a h; cases h

theorem enterScript_eq (p : Prog) (gas : Nat) (s : VmState) (l : UInt32) (ar : Nat) (c : Option Nat) :
    enterScript p gas s l ar c = enterBy p (fun pos s' => exec p gas (.loop pos) s') s l ar c := rfl

/-- **the model's interpreter is the generic one at `step` / `callNative`** -/
theorem exec_eq_execG (p : Prog) : ∀ (gas : Nat) (task : Task) (s : VmState),
    exec p gas task s = execG (step p) callNative p gas task s := by
  intro gas
  induction gas with
  | zero => intro task s; rw [exec_zero, execG_zero]
  | succ gas ih =>
    intro task s
    have hre : reenterOf p gas = reenterG (step p) callNative p gas := by
      funext f
      unfold reenterOf reenterG
      congr 1
      funext s'
      exact ih (.call f) s'
    have hloop : (fun pos s' => exec p gas (.loop pos) s') =
        (fun pos s' => execG (step p) callNative p gas (.loop pos) s') := by
      funext pos s'; exact ih _ _
    cases task with
    | loop ip =>
      rw [exec_loop, execG_loop, hre]
      by_cases h1 : ip ≥ p.bytecode.size
      · rw [if_pos h1, if_pos h1]
      rw [if_neg h1, if_neg h1]
      by_cases h2 : s.remaining - 1 = 0
      · rw [if_pos h2, if_pos h2]
      rw [if_neg h2, if_neg h2]
      rcases (step p (reenterG (step p) callNative p gas) ip).go s.tick with ⟨r, s'⟩
      cases r with
      | error e => rfl
      | ok ctl =>
        dsimp only
        split
        · rfl
        · exact ih _ _
    | call f =>
      rw [exec_call, execG_call, hre]
      cases f with
      | obj a =>
        dsimp only
        cases s.heap.get a with
        | none => rfl
        | some o => cases o <;> first | rfl | (dsimp only; rw [enterScript_eq, hloop])
      | nil => rfl
      | int _ => rfl
      | real _ => rfl

/-! ## the simulation -/

/-- result and final states of two runs of the loop agree; a returned value denotes the same
    thing in both machines -/
def ExecEq (c : Cfg) (r₁ r₂ : ExecRes) : Prop :=
  r₂.2 = r₁.2 ∧ Rel c r₁.1 r₂.1 ∧ ∀ v, r₁.2 = .ok (some v) → VRes c v r₁.1 r₂.1

section sim
variable {c : Cfg}

theorem liftRun_w2 {g₁ g₂ : VmState → ExecRes} {s t : VmState} (h : ExecEq c (g₁ s) (g₂ t)) :
    W2 c (liftRun g₁) (liftRun g₂) (fun a b s' t' => b = a ∧ VRes c a s' t') s t := by
  obtain ⟨h1, h2, h3⟩ := h
  have e1 : (liftRun g₁).go s = (match g₁ s with
      | (s', .ok (some v)) => ((.ok v : Except ErrKind Val), s')
      | (s', .ok none) => (.ok .nil, s')
      | (s', .error e) => (.error e.kind, s')) := rfl
  have e2 : (liftRun g₂).go t = (match g₂ t with
      | (s', .ok (some v)) => ((.ok v : Except ErrKind Val), s')
      | (s', .ok none) => (.ok .nil, s')
      | (s', .error e) => (.error e.kind, s')) := rfl
  rcases hg₁ : g₁ s with ⟨s', r⟩
  rcases hg₂ : g₂ t with ⟨t', r'⟩
  rw [hg₁] at e1 h1 h2 h3
  rw [hg₂] at e2 h1 h2 h3
  dsimp only at h1 h2 h3
  subst h1
  rcases r' with e | (_ | v)
  · exact w2_of_go_err e1 e2 h2
  · obtain ⟨K, hA⟩ := h2
    exact w2_of_go e1 e2 ⟨rfl, K, hA, VK.nil⟩
  · exact w2_of_go e1 e2 ⟨rfl, h3 v rfl⟩

theorem Agree.tick {K : Nat → Prop} {s t : VmState} (h : Agree c K s t) : Agree c K s.tick t.tick :=
  h.reroot rfl rfl rfl rfl h.stack h.globals h.frames h.openUpvalues h.guards
    (by show t.remaining - 1 = s.remaining - 1; rw [h.remaining])
    (by show t.dispatches + 1 = s.dispatches + 1; rw [h.dispatches])
    h.hostLog h.frameCap h.rootsK

theorem Agree.timeout {K : Nat → Prop} {s t : VmState} (h : Agree c K s t) :
    Agree c K { s with remaining := s.remaining - 1 } { t with remaining := t.remaining - 1 } :=
  h.reroot rfl rfl rfl rfl h.stack h.globals h.frames h.openUpvalues h.guards
    (by show t.remaining - 1 = s.remaining - 1; rw [h.remaining])
    h.dispatches h.hostLog h.frameCap h.rootsK

theorem failAt_execEq {s t : VmState} (h : Rel c s t) (e : ErrKind) : ExecEq c (failAt s e) (failAt t e) := by
  obtain ⟨K, hA⟩ := h
  exact ⟨by show Except.error _ = Except.error _; rw [hA.frames], ⟨K, hA⟩, fun v hv => by cases hv⟩

theorem Agree.pushFrames {K : Nat → Prop} {s t : VmState} (h : Agree c K s t) (frs : List Frame)
    (hfr : ∀ f ∈ frs, ∀ a, f.closure = some a → K a) :
    Agree c K { s with frames := s.frames ++ frs } { t with frames := t.frames ++ frs } :=
  h.reroot rfl rfl rfl rfl h.stack h.globals
    (by show t.frames ++ frs = s.frames ++ frs; rw [h.frames])
    h.openUpvalues h.guards h.remaining h.dispatches h.hostLog h.frameCap
    (rootsK_of (fun v hv => h.vk_stack hv) (fun v hv => h.vk_global hv)
      (fun f hf a hfa => by
        rcases List.mem_append.mp hf with hf | hf
        · exact h.k_frame hf hfa
        · exact hfr f hf a hfa)
      (fun a ha => h.k_upv ha) (fun a ha => h.k_guard ha))

/-- the epilogue of `run_function`: pop the call stack back to the entry depth, pop the result
    (which stays in `K`) -/
theorem Agree.epilogue {K : Nat → Prop} {s t : VmState} (h : Agree c K s t) (n : Nat) :
    Agree c K { s with frames := s.frames.take n, stack := s.stack.pop.1 }
              { t with frames := t.frames.take n, stack := t.stack.pop.1 } :=
  h.reroot rfl rfl rfl rfl (h.stack.map (fun x => x.pop.1) h.stack.1.pop.1) h.globals
    (by show t.frames.take n = s.frames.take n; rw [h.frames])
    h.openUpvalues h.guards h.remaining h.dispatches h.hostLog h.frameCap
    (rootsK_of (fun v hv => h.vk_stack (SchedSim.mem_pop_contents hv)) (fun v hv => h.vk_global hv)
      (fun f hf a hfa => h.k_frame (List.mem_of_mem_take hf) hfa)
      (fun a ha => h.k_upv ha) (fun a ha => h.k_guard ha))

/-- the epilogue of a failed `run_function`: pop the call stack back to the entry depth -/
theorem Agree.takeFrames {K : Nat → Prop} {s t : VmState} (h : Agree c K s t) (n : Nat) :
    Agree c K { s with frames := s.frames.take n } { t with frames := t.frames.take n } :=
  h.reroot rfl rfl rfl rfl h.stack h.globals
    (by show t.frames.take n = s.frames.take n; rw [h.frames])
    h.openUpvalues h.guards h.remaining h.dispatches h.hostLog h.frameCap
    (rootsK_of (fun v hv => h.vk_stack hv) (fun v hv => h.vk_global hv)
      (fun f hf a hfa => h.k_frame (List.mem_of_mem_take hf) hfa)
      (fun a ha => h.k_upv ha) (fun a ha => h.k_guard ha))

theorem Agree.popStack {K : Nat → Prop} {s t : VmState} (h : Agree c K s t) :
    Agree c K { s with stack := s.stack.pop.1 } { t with stack := t.stack.pop.1 } :=
  h.stack_change (h.stack.map (fun x => x.pop.1) h.stack.1.pop.1)
    (fun v hv => h.vk_stack (SchedSim.mem_pop_contents hv))

theorem enterBy_sim (p : Prog) (k₁ k₂ : Nat → VmState → ExecRes)
    (ih : ∀ (pos : Nat) (s t : VmState), Rel c s t → ExecEq c (k₁ pos s) (k₂ pos t))
    {K : Nat → Prop} {s t : VmState} (h : Agree c K s t) (l : UInt32) (ar : Nat) (cl : Option Nat)
    (hc : ∀ a, cl = some a → K a) :
    ExecEq c (enterBy p k₁ s l ar cl) (enterBy p k₂ t l ar cl) := by
  unfold enterBy
  have ec : t.stack.count = s.stack.count := h.stack.count
  have ef : t.frames.length = s.frames.length := by rw [h.frames]
  have ecap : t.frameCap = s.frameCap := h.frameCap
  cases hl : p.labels.find? (fun l' => l'.1 == l) with
  | none => exact failAt_execEq h.rel _
  | some lp =>
    obtain ⟨_, pos⟩ := lp
    dsimp only
    by_cases c1 : s.stack.count < ar
    · have c1' : t.stack.count < ar := by omega
      rw [if_pos c1, if_pos c1']; exact failAt_execEq h.rel _
    have c1' : ¬ t.stack.count < ar := by omega
    rw [if_neg c1, if_neg c1']
    by_cases c2 : s.frames.length + 1 > s.frameCap
    · have c2' : t.frames.length + 1 > t.frameCap := by omega
      rw [if_pos c2, if_pos c2']; exact failAt_execEq h.rel _
    have c2' : ¬ t.frames.length + 1 > t.frameCap := by omega
    rw [if_neg c2, if_neg c2']
    have efr : (⟨pos, p.bytecode.size - 1, t.stack.count - ar, cl⟩ : Frame) =
        ⟨pos, p.bytecode.size - 1, s.stack.count - ar, cl⟩ := by rw [ec]
    rw [efr]
    by_cases c3 : s.frames.length + 2 > s.frameCap
    · have c3' : t.frames.length + 2 > t.frameCap := by omega
      rw [if_pos c3, if_pos c3']
      exact ⟨by show Except.error _ = Except.error _; rw [h.frames], h.rel, fun v hv => by cases hv⟩
    have c3' : ¬ t.frames.length + 2 > t.frameCap := by omega
    rw [if_neg c3, if_neg c3']
    have h0 := h.pushFrames [⟨pos, p.bytecode.size - 1, s.stack.count - ar, cl⟩,
        ⟨pos, p.bytecode.size - 1, s.stack.count - ar, cl⟩]
      (fun f hf a hfa => by
        simp only [List.mem_cons, List.not_mem_nil, or_false, or_self] at hf
        subst hf
        exact hc a hfa)
    obtain ⟨e1, e2, _⟩ := ih pos _ _ h0.rel
    rcases hx : k₁ pos { s with frames := s.frames ++ [⟨pos, p.bytecode.size - 1, s.stack.count - ar, cl⟩, ⟨pos, p.bytecode.size - 1, s.stack.count - ar, cl⟩] } with ⟨s', r⟩
    rcases hy : k₂ pos { t with frames := t.frames ++ [⟨pos, p.bytecode.size - 1, s.stack.count - ar, cl⟩, ⟨pos, p.bytecode.size - 1, s.stack.count - ar, cl⟩] } with ⟨t', r'⟩
    rw [hx, hy] at e1 e2
    dsimp only at e1 e2
    subst e1
    cases r' with
    | error e =>
      obtain ⟨K', hA'⟩ := e2
      exact ⟨rfl, ef ▸ (hA'.takeFrames _).rel, fun v hv => by cases hv⟩
    | ok v =>
      obtain ⟨K', hA'⟩ := e2
      dsimp only
      rw [ef]
      refine ⟨?_, (hA'.epilogue _).rel, ?_⟩
      · show Except.ok (some t'.stack.pop.2) = Except.ok (some s'.stack.pop.2)
        rw [hA'.stack.1.pop.2]
      · intro w hw
        simp only [Except.ok.injEq, Option.some.injEq] at hw
        subst hw
        exact ⟨K', hA'.epilogue _, hA'.vk_pop⟩

/-- what a task needs: the callee of `run_function` denotes the same thing in both machines -/
def TaskOk (K : Nat → Prop) : Task → Prop
  | .loop _ => True
  | .call f => VK K f

/-- **the dispatch loop and `run_function` respect the relation as soon as instructions and host
    function calls do** -/
theorem execG_sim (stp : Reenter → Nat → M Ctl) (nat : Reenter → UInt32 → M Unit) (p : Prog)
    (hstep : ∀ re₁ re₂, ReSim c re₁ re₂ → ∀ src, src < p.bytecode.size → ∀ K s t, Agree c K s t →
      W2 c (stp re₁ src) (stp re₂ src) (QStep c) s t)
    (hnat : ∀ re₁ re₂, ReSim c re₁ re₂ → ∀ hd K s t, Agree c K s t →
      W2 c (nat re₁ hd) (nat re₂ hd) (fun _ _ s' t' => Rel c s' t') s t) :
    ∀ (gas : Nat) (task : Task) (K : Nat → Prop) (s t : VmState), Agree c K s t → TaskOk K task →
      ExecEq c (execG stp nat p gas task s) (execG stp nat p gas task t) := by
  intro gas
  induction gas with
  | zero =>
    intro task K s t h _
    rw [execG_zero, execG_zero]
    exact ⟨by show Except.error _ = Except.error _; rw [h.frames], h.rel, fun v hv => by cases hv⟩
  | succ gas ih =>
    intro task K s t h hok
    have hre : ReSim c (reenterG stp nat p gas) (reenterG stp nat p gas) :=
      fun f K s t hst hf => liftRun_w2 (ih (.call f) K s t hst hf)
    cases task with
    | loop ip =>
      rw [execG_loop, execG_loop]
      split
      · exact ⟨by show Except.error _ = Except.error _; rw [h.frames], h.rel, fun v hv => by cases hv⟩
      next hip =>
      have erem : t.remaining - 1 = s.remaining - 1 := by rw [h.remaining]
      by_cases c0 : s.remaining - 1 = 0
      · rw [if_pos c0, if_pos (erem.trans c0)]
        exact ⟨by show Except.error _ = Except.error _; rw [h.frames], h.timeout.rel, fun v hv => by cases hv⟩
      have c0' : ¬ t.remaining - 1 = 0 := by rw [erem]; exact c0
      rw [if_neg c0, if_neg c0']
      have hw := hstep _ _ hre ip (Nat.lt_of_not_le hip) K s.tick t.tick h.tick
      unfold W2 at hw
      rcases hx : (stp (reenterG stp nat p gas) ip).go s.tick with ⟨r, s'⟩
      rcases hy : (stp (reenterG stp nat p gas) ip).go t.tick with ⟨r', t'⟩
      rw [hx, hy] at hw
      cases r with
      | error e =>
        cases r' with
        | error e' =>
          obtain ⟨rfl, K', hA'⟩ := hw
          exact ⟨by show Except.error _ = Except.error _; rw [hA'.frames], hA'.rel, fun v hv => by cases hv⟩
        | ok _ => exact hw.elim
      | ok ctl =>
        cases r' with
        | error e' => exact hw.elim
        | ok ctl' =>
          obtain ⟨rfl, K', hA'⟩ := hw
          dsimp only
          split
          · exact ⟨rfl, hA'.rel, fun v hv => by cases hv⟩
          · exact ih (.loop ctl'.ip) K' s' t' hA' trivial
    | call f =>
      rw [execG_call, execG_call]
      cases f with
      | obj a =>
        dsimp only
        have ha : K a := hok a rfl
        rw [h.agree a ha]
        cases hg : s.heap.get a with
        | none => exact failAt_execEq h.rel _
        | some o =>
          cases o with
          | native hd =>
            dsimp only
            have hw := hnat _ _ hre hd K s t h
            unfold W2 at hw
            rcases hx : (nat (reenterG stp nat p gas) hd).go s with ⟨r, s'⟩
            rcases hy : (nat (reenterG stp nat p gas) hd).go t with ⟨r', t'⟩
            rw [hx, hy] at hw
            cases r with
            | error e =>
              cases r' with
              | error e' => obtain ⟨rfl, hr⟩ := hw; exact failAt_execEq hr _
              | ok _ => exact hw.elim
            | ok u =>
              cases r' with
              | error e' => exact hw.elim
              | ok u' =>
                obtain ⟨K', hA'⟩ := hw
                refine ⟨?_, hA'.popStack.rel, ?_⟩
                · show Except.ok (some t'.stack.pop.2) = Except.ok (some s'.stack.pop.2)
                  rw [hA'.stack.1.pop.2]
                · intro w hw'
                  simp only [Except.ok.injEq, Option.some.injEq] at hw'
                  subst hw'
                  exact ⟨K', hA'.popStack, hA'.vk_pop⟩
          | fn hd ar =>
            exact enterBy_sim p _ _ (fun pos s t ⟨K', hst⟩ => ih (.loop pos) K' s t hst trivial) h _ _ _
              (fun a ha => by cases ha)
          | closure hd ar ups =>
            exact enterBy_sim p _ _ (fun pos s t ⟨K', hst⟩ => ih (.loop pos) K' s t hst trivial) h _ _ _
              (fun a' ha' => by cases ha'; exact ha)
          | table _ _ => exact failAt_execEq h.rel _
          | str _ => exact failAt_execEq h.rel _
          | upvalue _ => exact failAt_execEq h.rel _
      | nil => exact failAt_execEq h.rel _
      | int _ => exact failAt_execEq h.rel _
      | real _ => exact failAt_execEq h.rel _

end sim

/-! ## `run` -/

/-- `Vm::run`, over the generic loop -/
def runG (stp : Reenter → Nat → M Ctl) (nat : Reenter → UInt32 → M Unit) (p : Prog) (n : Nat) (s : VmState) :
    VmState × Option RunErr :=
  if s.frames.length ≥ s.frameCap then (s, some ⟨.callStackOverflow, 0, []⟩) else
  let r := execG stp nat p (gasFor (started n s) n) (.loop 0) (started n s)
  ({ r.1 with frames := r.1.frames.take s.frames.length, guards := s.guards },
   match r.2 with
   | .ok _ => none
   | .error e => some e)

theorem run_eq_runG (p : Prog) (n : Nat) (s : VmState) : run p n s = runG (step p) callNative p n s := by
  unfold runG
  by_cases h : s.frames.length ≥ s.frameCap
  · rw [if_pos h, run_no_room p n s h]
  · rw [if_neg h, run_room p n s (Nat.lt_of_not_le h), exec_eq_execG]
    rfl

/-- the checked interpreter -/
def execC (p : Prog) : Nat → Task → VmState → ExecRes := execG (stepC p) natC p
def runC (p : Prog) (n : Nat) (s : VmState) : VmState × Option RunErr := runG (stepC p) natC p n s

theorem runG_sim {c : Cfg} (stp : Reenter → Nat → M Ctl) (nat : Reenter → UInt32 → M Unit) (p : Prog) (n : Nat)
    (hexec : ∀ (gas : Nat) (K : Nat → Prop) (s t : VmState), Agree c K s t →
      ExecEq c (execG stp nat p gas (.loop 0) s) (execG stp nat p gas (.loop 0) t))
    {s t : VmState} (h : Rel c s t) (hg : s.guards = []) :
    (runG stp nat p n t).2 = (runG stp nat p n s).2 ∧ Rel c (runG stp nat p n s).1 (runG stp nat p n t).1 := by
  obtain ⟨K, hA⟩ := h
  unfold runG
  by_cases hroom : s.frames.length ≥ s.frameCap
  · have hroom' : t.frames.length ≥ t.frameCap := by rw [hA.frames, hA.frameCap]; exact hroom
    rw [if_pos hroom, if_pos hroom']
    exact ⟨rfl, K, hA⟩
  · have hroom' : ¬ t.frames.length ≥ t.frameCap := by rw [hA.frames, hA.frameCap]; exact hroom
    rw [if_neg hroom, if_neg hroom']
    have hst : Agree c K (started n s) (started n t) := by
      have h1 := hA.pushFrames [⟨0, 0, 0, none⟩] (fun f hf a hfa => by
        rcases List.mem_singleton.mp hf with rfl
        cases hfa)
      exact h1.reroot rfl rfl rfl rfl h1.stack h1.globals h1.frames h1.openUpvalues h1.guards rfl rfl
        h1.hostLog h1.frameCap h1.rootsK
    have hgas : gasFor (started n t) n = gasFor (started n s) n := by
      unfold gasFor started
      show 2 * n + 3 * t.frameCap + 3 * t.stack.data.length + 16 =
        2 * n + 3 * s.frameCap + 3 * s.stack.data.length + 16
      rw [hA.frameCap, hA.stack.cap]
    rw [hgas]
    obtain ⟨e1, ⟨K', hA'⟩, _⟩ := hexec (gasFor (started n s) n) K _ _ hst
    dsimp only
    refine ⟨by rw [e1], K', ?_⟩
    refine hA'.reroot rfl rfl rfl rfl hA'.stack hA'.globals
      (by show List.take t.frames.length _ = List.take s.frames.length _; rw [hA'.frames, hA.frames])
      hA'.openUpvalues (by show t.guards = s.guards; exact hA.guards)
      hA'.remaining hA'.dispatches hA'.hostLog hA'.frameCap ?_
    exact rootsK_of (fun v hv => hA'.vk_stack hv) (fun v hv => hA'.vk_global hv)
      (fun f hf a hfa => hA'.k_frame (List.mem_of_mem_take hf) hfa)
      (fun a ha => hA'.k_upv ha) (fun a ha => by rw [show _ = s.guards from rfl, hg] at ha; cases ha)

/-- `run` overwrites the budget counters: the two machines need only be related up to them -/
theorem runG_counters (stp : Reenter → Nat → M Ctl) (nat : Reenter → UInt32 → M Unit) (p : Prog) (n : Nat)
    (s : VmState) (hroom : s.frames.length < s.frameCap) (r d : Nat) :
    runG stp nat p n { s with remaining := r, dispatches := d } = runG stp nat p n s := by
  unfold runG
  rw [if_neg (Nat.not_le.2 hroom), if_neg (Nat.not_le.2 hroom)]
  rfl

theorem runG_sim' {c : Cfg} (stp : Reenter → Nat → M Ctl) (nat : Reenter → UInt32 → M Unit) (p : Prog) (n : Nat)
    (hexec : ∀ (gas : Nat) (K : Nat → Prop) (s t : VmState), Agree c K s t →
      ExecEq c (execG stp nat p gas (.loop 0) s) (execG stp nat p gas (.loop 0) t))
    {s t : VmState}
    (h : Rel c { s with remaining := 0, dispatches := 0 } { t with remaining := 0, dispatches := 0 })
    (hg : s.guards = []) (hroom : s.frames.length < s.frameCap) :
    (runG stp nat p n t).2 = (runG stp nat p n s).2 ∧ Rel c (runG stp nat p n s).1 (runG stp nat p n t).1 := by
  have hroom' : t.frames.length < t.frameCap := by
    obtain ⟨K, hA⟩ := h
    have e1 : t.frames = s.frames := hA.frames
    have e2 : t.frameCap = s.frameCap := hA.frameCap
    rw [e1, e2]; exact hroom
  have := runG_sim stp nat p n hexec h hg
  rw [runG_counters stp nat p n s hroom, runG_counters stp nat p n t hroom'] at this
  exact this

/-- **the checked interpreter respects the relation, for every program** -/
theorem execC_sim {c : Cfg} (hnat : NatSimHyp c) (p : Prog) (gas : Nat) (task : Task) {K : Nat → Prop}
    {s t : VmState} (h : Agree c K s t) (hok : TaskOk K task) :
    ExecEq c (execC p gas task s) (execC p gas task t) :=
  execG_sim (stepC p) natC p (fun re₁ re₂ hre src _ K s t h => stepC_sim hnat p hre src h)
    (fun re₁ re₂ hre hd K s t h => natC_sim hnat hre hd h) gas task K s t h hok

theorem runC_sim {c : Cfg} (hnat : NatSimHyp c) (p : Prog) (n : Nat) {s t : VmState} (h : Rel c s t)
    (hg : s.guards = []) :
    (runC p n t).2 = (runC p n s).2 ∧ Rel c (runC p n s).1 (runC p n t).1 :=
  runG_sim (stepC p) natC p n (fun gas K s t h => execC_sim hnat p gas (.loop 0) h trivial) h hg

theorem runC_sim' {c : Cfg} (hnat : NatSimHyp c) (p : Prog) (n : Nat) {s t : VmState}
    (h : Rel c { s with remaining := 0, dispatches := 0 } { t with remaining := 0, dispatches := 0 })
    (hg : s.guards = []) (hroom : s.frames.length < s.frameCap) :
    (runC p n t).2 = (runC p n s).2 ∧ Rel c (runC p n s).1 (runC p n t).1 :=
  runG_sim' (stepC p) natC p n (fun gas K s t h => execC_sim hnat p gas (.loop 0) h trivial) h hg hroom

end Cao.SchedFull
