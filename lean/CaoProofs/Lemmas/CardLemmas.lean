import CaoModel.CardOps
/-!
# Lemmas about the card / module editing model (`CaoModel/CardOps.lean`)
-/
namespace Cao
open Card

/-! ## induction principle: a property holds for a card if it holds for all its children -/

mutual
  theorem Card.induct {P : Card → Prop} (h : ∀ c, (∀ ch ∈ c.children, P ch) → P c) : ∀ c, P c
    | .bin k a b => h _ (by
        intro ch hm; simp only [children, List.mem_cons, List.not_mem_nil, or_false] at hm
        rcases hm with h1 | h1
        · rw [h1]; exact Card.induct h a
        · rw [h1]; exact Card.induct h b)
    | .un k c => h _ (by
        intro ch hm; simp only [children, List.mem_cons, List.not_mem_nil, or_false] at hm
        rw [hm]; exact Card.induct h c)
    | .tri k a b c => h _ (by
        intro ch hm; simp only [children, List.mem_cons, List.not_mem_nil, or_false] at hm
        rcases hm with h1 | h1 | h1
        · rw [h1]; exact Card.induct h a
        · rw [h1]; exact Card.induct h b
        · rw [h1]; exact Card.induct h c)
    | .scalarNil => h _ (by intro ch hm; cases hm)
    | .createTable => h _ (by intro ch hm; cases hm)
    | .abort => h _ (by intro ch hm; cases hm)
    | .scalarInt _ => h _ (by intro ch hm; cases hm)
    | .scalarFloat _ => h _ (by intro ch hm; cases hm)
    | .stringLiteral _ => h _ (by intro ch hm; cases hm)
    | .comment _ => h _ (by intro ch hm; cases hm)
    | .function _ => h _ (by intro ch hm; cases hm)
    | .nativeFunction _ => h _ (by intro ch hm; cases hm)
    | .readVar _ => h _ (by intro ch hm; cases hm)
    | .setVar _ v => h _ (by
        intro ch hm; simp only [children, List.mem_cons, List.not_mem_nil, or_false] at hm
        rw [hm]; exact Card.induct h v)
    | .setGlobalVar _ v => h _ (by
        intro ch hm; simp only [children, List.mem_cons, List.not_mem_nil, or_false] at hm
        rw [hm]; exact Card.induct h v)
    | .callNative _ a => h _ (Card.inductL h a)
    | .call _ a => h _ (Card.inductL h a)
    | .repeat _ n b => h _ (by
        intro ch hm; simp only [children, List.mem_cons, List.not_mem_nil, or_false] at hm
        rcases hm with h1 | h1
        · rw [h1]; exact Card.induct h n
        · rw [h1]; exact Card.induct h b)
    | .forEach _ _ _ it b => h _ (by
        intro ch hm; simp only [children, List.mem_cons, List.not_mem_nil, or_false] at hm
        rcases hm with h1 | h1
        · rw [h1]; exact Card.induct h it
        · rw [h1]; exact Card.induct h b)
    | .composite _ cs => h _ (Card.inductL h cs)
    | .dynamicCall a f => h _ (by
        intro ch hm; simp only [children, List.mem_cons] at hm
        rcases hm with h1 | h1
        · rw [h1]; exact Card.induct h f
        · exact Card.inductL h a ch h1)
    | .array cs => h _ (Card.inductL h cs)
    | .closure _ cs => h _ (Card.inductL h cs)
  theorem Card.inductL {P : Card → Prop} (h : ∀ c, (∀ ch ∈ c.children, P ch) → P c) :
      ∀ (l : List Card), ∀ ch ∈ l, P ch
    | [], _, hm => by cases hm
    | c :: cs, ch, hm => by
        rcases List.mem_cons.1 hm with h1 | h1
        · rw [h1]; exact Card.induct h c
        · exact Card.inductL h cs ch h1
end

/-! ## C1: child count, child enumeration and child lookup agree -/

theorem Card.numChildren_eq (c : Card) : c.numChildren = c.children.length := by
  cases c <;> simp [numChildren, children] <;> omega

theorem Card.getChild_eq (c : Card) (i : Nat) : c.getChild i = c.children[i]? := by
  cases c <;> rcases i with _ | _ | _ | i <;> simp [getChild, children]

/-! ## lens laws for `getChild` / `setChild` -/

theorem List.getElem?_set_map {α : Type} (l : List α) (i j : Nat) (x : α) :
    (l.set i x)[j]? = if i = j then (l[i]?).map (fun _ => x) else l[j]? := by
  rw [List.getElem?_set]
  split
  · by_cases h : i < l.length <;> simp [h]
  · rfl

theorem Card.getChild_setChild (c : Card) (i j : Nat) (x : Card) :
    (c.setChild i x).getChild j =
      if i = j then (c.getChild i).map (fun _ => x) else c.getChild j := by
  cases c <;> rcases i with _ | _ | _ | i <;> rcases j with _ | _ | _ | j <;>
    simp [getChild, setChild, List.getElem?_set_map]

theorem Card.setChild_setChild (c : Card) (i : Nat) (x y : Card) :
    (c.setChild i x).setChild i y = c.setChild i y := by
  cases c <;> rcases i with _ | _ | _ | i <;> simp [setChild]

theorem List.set_of_getElem? {α : Type} (l : List α) (i : Nat) (x : α) (h : l[i]? = some x) :
    l.set i x = l := by
  obtain ⟨hi, rfl⟩ := List.getElem?_eq_some_iff.1 h
  exact List.set_getElem_self hi

theorem Card.setChild_getChild (c : Card) (i : Nat) (x : Card) (h : c.getChild i = some x) :
    c.setChild i x = c := by
  cases c <;> rcases i with _ | _ | _ | i <;> simp [getChild] at h <;>
    simp [setChild, h, List.set_of_getElem?]

theorem Card.setChild_comm (c : Card) (i j : Nat) (x y : Card) (h : i ≠ j) :
    (c.setChild i x).setChild j y = (c.setChild j y).setChild i x := by
  cases c <;> rcases i with _ | _ | _ | i <;> rcases j with _ | _ | _ | j <;>
    first
    | (exfalso; exact h rfl)
    | (simp [setChild]; done)
    | (simp only [setChild]; congr 1; apply List.set_comm; omega)


/-! ## paths -/

/-- neither path is a prefix of the other -/
def PDisj (p q : List Nat) : Prop := ¬ p <+: q ∧ ¬ q <+: p

theorem PDisj.symm {p q : List Nat} (h : PDisj p q) : PDisj q p := ⟨h.2, h.1⟩

theorem pdisj_cons {i j : Nat} {p q : List Nat} : PDisj (i :: p) (j :: q) ↔ i ≠ j ∨ PDisj p q := by
  unfold PDisj
  simp only [List.cons_prefix_cons]
  by_cases h : i = j
  · subst h; simp
  · simp [h, Ne.symm h]

theorem not_pdisj_nil_left {q : List Nat} : ¬ PDisj [] q := fun h => h.1 (List.nil_prefix)
theorem not_pdisj_nil_right {p : List Nat} : ¬ PDisj p [] := fun h => h.2 (List.nil_prefix)

theorem Card.getPath_append (c : Card) (p t : List Nat) :
    c.getPath (p ++ t) = (c.getPath p).bind (fun d => d.getPath t) := by
  induction p generalizing c with
  | nil => simp [getPath]
  | cons i ps ih =>
    simp only [List.cons_append, getPath]
    cases c.getChild i with
    | none => rfl
    | some ch => exact ih ch

theorem Card.getPath_setPath_same (c : Card) (p : List Nat) (x : Card) :
    (c.setPath p x).getPath p = (c.getPath p).map (fun _ => x) := by
  induction p generalizing c with
  | nil => simp [getPath, setPath]
  | cons i ps ih =>
    simp only [getPath, setPath]
    cases h : c.getChild i with
    | none => simp [h]
    | some ch => simp [Card.getChild_setChild, h, ih]

theorem Card.getPath_setPath_disj (c : Card) (p q : List Nat) (x : Card) (hd : PDisj p q) :
    (c.setPath p x).getPath q = c.getPath q := by
  induction p generalizing c q with
  | nil => exact absurd hd not_pdisj_nil_left
  | cons i ps ih =>
    cases q with
    | nil => exact absurd hd not_pdisj_nil_right
    | cons j qs =>
      simp only [getPath, setPath]
      cases h : c.getChild i with
      | none => rfl
      | some ch =>
        simp only [Card.getChild_setChild, h]
        by_cases hij : i = j
        · subst hij
          have hd' : PDisj ps qs := by
            rcases pdisj_cons.1 hd with h1 | h1
            · exact absurd rfl h1
            · exact h1
          simp [h, ih ch qs hd']
        · simp [hij]

theorem Card.setPath_setPath_same (c : Card) (p : List Nat) (x y : Card) :
    (c.setPath p x).setPath p y = c.setPath p y := by
  induction p generalizing c with
  | nil => simp [setPath]
  | cons i ps ih =>
    simp only [setPath]
    cases h : c.getChild i with
    | none => simp [h]
    | some ch => simp [Card.getChild_setChild, h, Card.setChild_setChild, ih]

theorem Card.setPath_getPath (c : Card) (p : List Nat) (x : Card) (h : c.getPath p = some x) :
    c.setPath p x = c := by
  induction p generalizing c with
  | nil => simp [getPath] at h; simp [setPath, h]
  | cons i ps ih =>
    simp only [getPath] at h
    simp only [setPath]
    cases hc : c.getChild i with
    | none => rfl
    | some ch =>
      rw [hc] at h
      simp only [ih ch h]
      exact Card.setChild_getChild c i ch hc

theorem Card.setPath_comm (c : Card) (p q : List Nat) (x y : Card) (hd : PDisj p q) :
    (c.setPath p x).setPath q y = (c.setPath q y).setPath p x := by
  induction p generalizing c q with
  | nil => exact absurd hd not_pdisj_nil_left
  | cons i ps ih =>
    cases q with
    | nil => exact absurd hd not_pdisj_nil_right
    | cons j qs =>
      by_cases hij : i = j
      · subst hij
        have hd' : PDisj ps qs := by
          rcases pdisj_cons.1 hd with h1 | h1
          · exact absurd rfl h1
          · exact h1
        simp only [setPath]
        cases h : c.getChild i with
        | none => simp [h]
        | some ch =>
          simp [Card.getChild_setChild, h, Card.setChild_setChild, ih ch qs hd']
      · simp only [setPath]
        cases hi : c.getChild i with
        | none =>
          cases hj : c.getChild j with
          | none => simp [hi]
          | some cj => simp [Card.getChild_setChild, hi, Ne.symm hij]
        | some ci =>
          cases hj : c.getChild j with
          | none => simp [Card.getChild_setChild, hj, hi, hij]
          | some cj =>
            simp [Card.getChild_setChild, hi, hj, hij, Ne.symm hij]
            exact Card.setChild_comm c i j _ _ hij


/-! ## the list-of-cards layer (a function body): paths are non-empty -/

/-- `cards.get(indices[0])` followed by the `get_child` loop -/
def getL : List Card → List Nat → Option Card
  | _, [] => none
  | l, i :: rest => match l[i]? with
    | none => none
    | some c => c.getPath rest

def setL : List Card → List Nat → Card → List Card
  | l, [], _ => l
  | l, i :: rest, x => match l[i]? with
    | none => l
    | some c => l.set i (c.setPath rest x)

theorem getL_eq (ty : String) (l : List Card) (p : List Nat) (hp : p ≠ []) :
    getL l p = (Card.composite ty l).getPath p := by
  cases p with
  | nil => exact absurd rfl hp
  | cons i rest =>
    simp only [getL, getPath, getChild]
    cases l[i]? <;> rfl

theorem setL_eq (ty : String) (l : List Card) (p : List Nat) (x : Card) (hp : p ≠ []) :
    Card.composite ty (setL l p x) = (Card.composite ty l).setPath p x := by
  cases p with
  | nil => exact absurd rfl hp
  | cons i rest =>
    simp only [setL, setPath, getChild]
    cases l[i]? <;> simp [setChild]

theorem getL_setL_same (l : List Card) (p : List Nat) (x : Card) :
    getL (setL l p x) p = (getL l p).map (fun _ => x) := by
  by_cases hp : p = []
  · subst hp; simp [getL]
  · rw [getL_eq "" _ p hp, setL_eq "" l p x hp, Card.getPath_setPath_same, getL_eq "" l p hp]

theorem getL_setL_disj (l : List Card) (p q : List Nat) (x : Card) (hd : PDisj p q) :
    getL (setL l p x) q = getL l q := by
  have hp : p ≠ [] := fun h => not_pdisj_nil_left (h ▸ hd)
  have hq : q ≠ [] := fun h => not_pdisj_nil_right (h ▸ hd)
  rw [getL_eq "" _ q hq, setL_eq "" l p x hp, Card.getPath_setPath_disj _ _ _ _ hd, getL_eq "" l q hq]

theorem setL_setL_same (l : List Card) (p : List Nat) (x y : Card) :
    setL (setL l p x) p y = setL l p y := by
  by_cases hp : p = []
  · subst hp; simp [setL]
  · have := Card.setPath_setPath_same (Card.composite "" l) p x y
    rw [← setL_eq "" l p x hp, ← setL_eq "" _ p y hp, ← setL_eq "" l p y hp] at this
    exact (Card.composite.injEq .. ▸ this : _ ∧ _).2

theorem setL_getL (l : List Card) (p : List Nat) (x : Card) (h : getL l p = some x) :
    setL l p x = l := by
  by_cases hp : p = []
  · subst hp; simp [setL]
  · rw [getL_eq "" l p hp] at h
    have := Card.setPath_getPath _ p x h
    rw [← setL_eq "" l p x hp] at this
    exact (Card.composite.injEq .. ▸ this : _ ∧ _).2

theorem setL_comm (l : List Card) (p q : List Nat) (x y : Card) (hd : PDisj p q) :
    setL (setL l p x) q y = setL (setL l q y) p x := by
  have hp : p ≠ [] := fun h => not_pdisj_nil_left (h ▸ hd)
  have hq : q ≠ [] := fun h => not_pdisj_nil_right (h ▸ hd)
  have := Card.setPath_comm (Card.composite "" l) p q x y hd
  rw [← setL_eq "" l p x hp, ← setL_eq "" _ q y hq, ← setL_eq "" l q y hq, ← setL_eq "" _ p x hp] at this
  exact (Card.composite.injEq .. ▸ this : _ ∧ _).2

theorem getL_append (l : List Card) (p t : List Nat) (hp : p ≠ []) :
    getL l (p ++ t) = (getL l p).bind (fun d => d.getPath t) := by
  rw [getL_eq "" l _ (by simp [hp]), getL_eq "" l p hp, Card.getPath_append]

theorem length_setL (l : List Card) (p : List Nat) (x : Card) : (setL l p x).length = l.length := by
  cases p with
  | nil => rfl
  | cons i rest => simp only [setL]; cases l[i]? <;> simp


/-! ## the module layer -/
namespace Module

@[simp] theorem functions_withFunctions (m : Module) (fns) : (m.withFunctions fns).functions = fns := by
  cases m; rfl
@[simp] theorem withFunctions_withFunctions (m : Module) (a b) :
    (m.withFunctions a).withFunctions b = m.withFunctions b := by
  cases m; rfl
@[simp] theorem withFunctions_self (m : Module) : m.withFunctions m.functions = m := by
  cases m; rfl

/-- the body of function number `f` -/
def cardsOf (m : Module) (f : Nat) : Option (List Card) :=
  (m.functions[f]?).map (fun nf => nf.2.cards)

/-- overwrite the body of function number `f` (identity if there is no such function) -/
def setFn (m : Module) (f : Nat) (cs : List Card) : Module :=
  match m.functions[f]? with
  | none => m
  | some nf => m.withFunctions (m.functions.set f (nf.1, { nf.2 with cards := cs }))

theorem cardsOf_setFn (m : Module) (f g : Nat) (cs : List Card) :
    (m.setFn f cs).cardsOf g = if f = g then (m.cardsOf f).map (fun _ => cs) else m.cardsOf g := by
  unfold setFn cardsOf
  cases h : m.functions[f]? with
  | none =>
    by_cases hfg : f = g
    · subst hfg; simp [h]
    · simp [hfg]
  | some nf =>
    simp only [functions_withFunctions, List.getElem?_set_map, h]
    by_cases hfg : f = g <;> simp [hfg]

theorem setFn_setFn (m : Module) (f : Nat) (a b : List Card) :
    (m.setFn f a).setFn f b = m.setFn f b := by
  unfold setFn
  cases h : m.functions[f]? with
  | none => simp [h]
  | some nf => simp [List.getElem?_set_map, h, List.set_set]

theorem setFn_cardsOf (m : Module) (f : Nat) (cs : List Card) (h : m.cardsOf f = some cs) :
    m.setFn f cs = m := by
  unfold setFn
  unfold cardsOf at h
  cases hf : m.functions[f]? with
  | none => rfl
  | some nf =>
    rw [hf] at h
    simp only [Option.map_some, Option.some.injEq] at h
    subst h
    show m.withFunctions (m.functions.set f nf) = m
    rw [List.set_of_getElem? _ _ _ hf, withFunctions_self]

theorem setFn_comm (m : Module) (f g : Nat) (a b : List Card) (hfg : f ≠ g) :
    (m.setFn f a).setFn g b = (m.setFn g b).setFn f a := by
  unfold setFn
  cases hf : m.functions[f]? with
  | none =>
    cases hg : m.functions[g]? with
    | none => simp [hf]
    | some ng => simp [hf, Ne.symm hfg]
  | some nf =>
    cases hg : m.functions[g]? with
    | none => simp [hf, hg, hfg]
    | some ng =>
      simp [hf, hg, hfg, Ne.symm hfg]
      congr 1
      exact List.set_comm _ _ hfg

def optE : Option Card → Except CardFetchError Card
  | none => .error .cardNotFound
  | some d => .ok d

theorem getCard_eq (m : Module) (idx : CardIndex) :
    m.getCard idx = match m.cardsOf idx.function with
      | none => .error .functionNotFound
      | some cs => if idx.indices = [] then .error .invalidIndex else optE (getL cs idx.indices) := by
  unfold getCard cardsOf
  cases m.functions[idx.function]? with
  | none => rfl
  | some nf =>
    obtain ⟨n, fn⟩ := nf
    cases hi : idx.indices with
    | nil => simp
    | cons i rest =>
      simp only [Option.map_some, getL]
      cases fn.cards[i]? with
      | none => rfl
      | some c => cases c.getPath rest <;> rfl

theorem setCard_eq (m : Module) (idx : CardIndex) (x : Card) :
    m.setCard idx x = match m.cardsOf idx.function with
      | none => m
      | some cs => m.setFn idx.function (setL cs idx.indices x) := by
  cases hc : m.cardsOf idx.function with
  | none =>
    unfold setCard; unfold cardsOf at hc
    cases hf : m.functions[idx.function]? with
    | none => rfl
    | some nf => simp [hf] at hc
  | some cs =>
    have hself := m.setFn_cardsOf _ _ hc
    unfold setCard setFn
    unfold cardsOf at hc
    cases hf : m.functions[idx.function]? with
    | none => simp [hf] at hc
    | some nf =>
      obtain ⟨n, fn⟩ := nf
      simp only [hf, Option.map_some, Option.some.injEq] at hc
      subst hc
      unfold setFn at hself
      simp only [hf] at hself
      cases idx.indices with
      | nil => simp only [setL]; exact hself.symm
      | cons i rest =>
        simp only [setL]
        cases fn.cards[i]? with
        | none => exact hself.symm
        | some c => rfl

end Module

/-- two card indices address disjoint subtrees: different functions, or neither sub-index
path is a prefix of the other -/
def MDisj (a b : CardIndex) : Prop := a.function ≠ b.function ∨ PDisj a.indices b.indices

theorem MDisj.symm {a b : CardIndex} (h : MDisj a b) : MDisj b a := by
  rcases h with h | h
  · exact Or.inl (Ne.symm h)
  · exact Or.inr h.symm

namespace Module

theorem getCard_ok_iff (m : Module) (idx : CardIndex) (d : Card) :
    m.getCard idx = .ok d ↔ ∃ cs, m.cardsOf idx.function = some cs ∧ getL cs idx.indices = some d := by
  rw [getCard_eq]
  cases m.cardsOf idx.function with
  | none => simp
  | some cs =>
    by_cases hi : idx.indices = []
    · simp [hi, getL]
    · simp only [hi, if_false, Option.some.injEq, exists_eq_left']
      cases getL cs idx.indices <;> simp [optE]

theorem getCard_setCard_same (m : Module) (a : CardIndex) (x old : Card)
    (h : m.getCard a = .ok old) : (m.setCard a x).getCard a = .ok x := by
  obtain ⟨cs, hc, hg⟩ := (getCard_ok_iff _ _ _).1 h
  rw [getCard_ok_iff, setCard_eq, hc]
  refine ⟨setL cs a.indices x, ?_, ?_⟩
  · simp [cardsOf_setFn, hc]
  · rw [getL_setL_same, hg]; rfl

theorem getCard_setCard_disj (m : Module) (a b : CardIndex) (x : Card) (hd : MDisj a b) :
    (m.setCard a x).getCard b = m.getCard b := by
  rw [setCard_eq]
  cases hc : m.cardsOf a.function with
  | none => rfl
  | some cs =>
    rw [getCard_eq, getCard_eq, cardsOf_setFn]
    by_cases hf : a.function = b.function
    · rcases hd with hd | hd
      · exact absurd hf hd
      · rw [if_pos hf, ← hf, hc]
        simp only [Option.map_some]
        rw [getL_setL_disj _ _ _ _ hd]
    · rw [if_neg hf]

theorem setCard_setCard_same (m : Module) (a : CardIndex) (x y : Card) :
    (m.setCard a x).setCard a y = m.setCard a y := by
  rw [setCard_eq m a x, setCard_eq m a y]
  cases hc : m.cardsOf a.function with
  | none => simp only []; rw [setCard_eq, hc]
  | some cs =>
    simp only []
    rw [setCard_eq, cardsOf_setFn, if_pos rfl, hc]
    simp only [Option.map_some]
    rw [setFn_setFn, setL_setL_same]

theorem setCard_getCard (m : Module) (a : CardIndex) (x : Card) (h : m.getCard a = .ok x) :
    m.setCard a x = m := by
  obtain ⟨cs, hc, hg⟩ := (getCard_ok_iff _ _ _).1 h
  rw [setCard_eq, hc]
  simp only []
  rw [setL_getL _ _ _ hg, setFn_cardsOf _ _ _ hc]

theorem setCard_comm (m : Module) (a b : CardIndex) (x y : Card) (hd : MDisj a b) :
    (m.setCard a x).setCard b y = (m.setCard b y).setCard a x := by
  rw [setCard_eq m a x, setCard_eq m b y]
  cases hca : m.cardsOf a.function with
  | none =>
    simp only []
    cases hcb : m.cardsOf b.function with
    | none => simp only []; rw [setCard_eq, setCard_eq, hca, hcb]
    | some cb =>
      simp only []
      rw [setCard_eq, setCard_eq, hcb, cardsOf_setFn]
      have : b.function ≠ a.function := by intro h; rw [h, hca] at hcb; cases hcb
      rw [if_neg this, hca]
  | some ca =>
    simp only []
    cases hcb : m.cardsOf b.function with
    | none =>
      simp only []
      rw [setCard_eq, setCard_eq, hca, cardsOf_setFn]
      have : a.function ≠ b.function := by intro h; rw [h, hcb] at hca; cases hca
      rw [if_neg this, hcb]
    | some cb =>
      simp only []
      rw [setCard_eq, setCard_eq, cardsOf_setFn, cardsOf_setFn]
      by_cases hf : a.function = b.function
      · rcases hd with hd | hd
        · exact absurd hf hd
        · rw [if_pos hf, if_pos hf.symm, hca, hcb]
          simp only [Option.map_some]
          rw [hf] at hca
          rw [hca] at hcb
          cases hcb
          rw [hf, setFn_setFn, setFn_setFn, setL_comm _ _ _ _ _ hd]
      · rw [if_neg hf, if_neg (Ne.symm hf), hca, hcb]
        simp only []
        exact setFn_comm _ _ _ _ _ hf

theorem getCard_append (m : Module) (f : Nat) (p t : List Nat) (c : Card)
    (h : m.getCard ⟨f, p⟩ = .ok c) : m.getCard ⟨f, p ++ t⟩ = optE (c.getPath t) := by
  obtain ⟨cs, hc, hg⟩ := (getCard_ok_iff _ _ _).1 h
  have hp : p ≠ [] := by intro hp; simp [hp, getL] at hg
  rw [getCard_eq]
  simp only [hc, List.append_eq_nil_iff, hp, false_and, if_false]
  simp only at hg
  rw [getL_append _ _ _ hp, hg]
  rfl

end Module

/-! ## walking -/

theorem Card.descendants_eq (c : Card) : c.descendants = descList 0 c.children := by
  cases c <;> simp [descendants, children, descList]

theorem Card.mem_node (k : Nat) (c : Card) (ds : List (List Nat × Card)) (p : List Nat) (d : Card) :
    (p, d) ∈ node k c ds ↔ (p = [k] ∧ d = c) ∨ ∃ r, (r, d) ∈ ds ∧ p = k :: r := by
  unfold node
  simp only [List.mem_cons, Prod.mk.injEq, List.mem_map, Prod.exists]
  constructor
  · rintro (h | ⟨r, d', hm, h1, h2⟩)
    · exact Or.inl h
    · subst h2; exact Or.inr ⟨r, hm, h1.symm⟩
  · rintro (h | ⟨r, hm, h1⟩)
    · exact Or.inl h
    · exact Or.inr ⟨r, d, hm, h1.symm, rfl⟩

theorem Card.mem_descList (l : List Card) (k : Nat) (p : List Nat) (d : Card) :
    (p, d) ∈ descList k l ↔
      ∃ j c rest, l[j]? = some c ∧ p = (k + j) :: rest ∧
        ((rest = [] ∧ d = c) ∨ (rest, d) ∈ c.descendants) := by
  induction l generalizing k with
  | nil => simp [descList]
  | cons c cs ih =>
    simp only [descList, List.mem_append, Card.mem_node, ih]
    constructor
    · rintro ((⟨h1, h2⟩ | ⟨r, hm, h1⟩) | ⟨j, c', rest, hj, hp, h⟩)
      · exact ⟨0, c, [], by simp, by simp [h1], Or.inl ⟨rfl, h2⟩⟩
      · exact ⟨0, c, r, by simp, by simp [h1], Or.inr hm⟩
      · exact ⟨j + 1, c', rest, by simpa using hj, by rw [hp]; congr 1; omega, h⟩
    · rintro ⟨j, c', rest, hj, hp, h⟩
      cases j with
      | zero =>
        simp only [List.getElem?_cons_zero, Option.some.injEq] at hj
        subst hj
        rcases h with ⟨h1, h2⟩ | h
        · exact Or.inl (Or.inl ⟨by simp [hp, h1], h2⟩)
        · exact Or.inl (Or.inr ⟨rest, h, by simp [hp]⟩)
      | succ j =>
        exact Or.inr ⟨j, c', rest, by simpa using hj, by rw [hp]; congr 1; omega, h⟩

/-- the descendants reported by `visit_children` are exactly the cards reachable by a non-empty
`get_child` path, each with that path -/
theorem Card.mem_descendants : ∀ (c : Card) (p : List Nat) (d : Card),
    (p, d) ∈ c.descendants ↔ p ≠ [] ∧ c.getPath p = some d := by
  intro c
  induction c using Card.induct with
  | h c ih =>
    intro p d
    rw [Card.descendants_eq, Card.mem_descList]
    constructor
    · rintro ⟨j, ch, rest, hj, hp, h⟩
      have hmem : ch ∈ c.children := List.mem_of_getElem? hj
      refine ⟨by simp [hp], ?_⟩
      rw [hp, Nat.zero_add]
      simp only [getPath, Card.getChild_eq, hj]
      rcases h with ⟨h1, h2⟩ | h
      · simp [h1, h2, getPath]
      · exact ((ih ch hmem rest d).1 h).2
    · rintro ⟨hp, hg⟩
      cases p with
      | nil => exact absurd rfl hp
      | cons j rest =>
        simp only [getPath, Card.getChild_eq] at hg
        cases hj : c.children[j]? with
        | none => simp [hj] at hg
        | some ch =>
          rw [hj] at hg
          have hmem : ch ∈ c.children := List.mem_of_getElem? hj
          refine ⟨j, ch, rest, hj, by simp, ?_⟩
          by_cases hr : rest = []
          · subst hr; simp only [getPath, Option.some.injEq] at hg; exact Or.inl ⟨rfl, hg.symm⟩
          · exact Or.inr ((ih ch hmem rest d).2 ⟨hr, hg⟩)

theorem Card.mem_descList_iff (l : List Card) (p : List Nat) (d : Card) :
    (p, d) ∈ descList 0 l ↔ getL l p = some d := by
  rw [Card.mem_descList]
  constructor
  · rintro ⟨j, c, rest, hj, hp, h⟩
    rw [hp, Nat.zero_add]
    simp only [getL, hj]
    rcases h with ⟨h1, h2⟩ | h
    · simp [h1, h2, getPath]
    · exact ((Card.mem_descendants c rest d).1 h).2
  · intro hg
    cases p with
    | nil => simp [getL] at hg
    | cons j rest =>
      simp only [getL] at hg
      cases hj : l[j]? with
      | none => simp [hj] at hg
      | some c =>
        rw [hj] at hg
        refine ⟨j, c, rest, hj, by simp, ?_⟩
        by_cases hr : rest = []
        · subst hr; simp only [getPath, Option.some.injEq] at hg; exact Or.inl ⟨rfl, hg.symm⟩
        · exact Or.inr ((Card.mem_descendants c rest d).2 ⟨hr, hg⟩)

namespace Module

theorem mem_walkFns (fns : List (String × Func)) (k : Nat) (idx : CardIndex) (d : Card) :
    (idx, d) ∈ walkFns k fns ↔
      ∃ j nf, fns[j]? = some nf ∧ idx.function = k + j ∧ getL nf.2.cards idx.indices = some d := by
  induction fns generalizing k with
  | nil => simp [walkFns]
  | cons nf rest ih =>
    obtain ⟨n, fn⟩ := nf
    rw [walkFns, List.mem_append, ih, List.mem_map]
    constructor
    · rintro (⟨⟨p, d'⟩, hm, h⟩ | ⟨j, nf', hj, hf, hg⟩)
      · simp only [Prod.mk.injEq] at h
        obtain ⟨h1, h2⟩ := h
        subst h2
        rw [Card.mem_descList_iff] at hm
        refine ⟨0, (n, fn), by simp, by simp [← h1], ?_⟩
        rw [← h1]; exact hm
      · exact ⟨j + 1, nf', by simpa using hj, by omega, hg⟩
    · rintro ⟨j, nf', hj, hf, hg⟩
      cases j with
      | zero =>
        simp only [List.getElem?_cons_zero, Option.some.injEq] at hj
        subst hj
        refine Or.inl ⟨(idx.indices, d), (Card.mem_descList_iff _ _ _).2 hg, ?_⟩
        cases idx; simp at hf; simp [hf]
      | succ j => exact Or.inr ⟨j, nf', by simpa using hj, by omega, hg⟩

/-- `walk_cards` reports `(idx, card)` iff `get_card(idx) = Ok(card)` -/
theorem mem_walk_iff (m : Module) (idx : CardIndex) (d : Card) :
    (idx, d) ∈ m.walk ↔ m.getCard idx = .ok d := by
  rw [walk, mem_walkFns, getCard_ok_iff]
  unfold cardsOf
  constructor
  · rintro ⟨j, nf, hj, hf, hg⟩
    rw [Nat.zero_add] at hf
    exact ⟨nf.2.cards, by simp [hf, hj], hg⟩
  · rintro ⟨cs, hc, hg⟩
    cases hj : m.functions[idx.function]? with
    | none => simp [hj] at hc
    | some nf =>
      simp only [hj, Option.map_some, Option.some.injEq] at hc
      exact ⟨idx.function, nf, hj, by omega, by rw [hc]; exact hg⟩

end Module

/-! ## no index is reported twice -/

theorem nodup_map_cons (k : Nat) (l : List (List Nat)) (h : l.Nodup) : (l.map (k :: ·)).Nodup := by
  unfold List.Nodup at *
  rw [List.pairwise_map]
  exact h.imp (fun hne heq => hne (List.cons.inj heq).2)

theorem Card.map_fst_node (k : Nat) (c : Card) (ds : List (List Nat × Card)) :
    (node k c ds).map Prod.fst = [k] :: (ds.map Prod.fst).map (k :: ·) := by
  simp [node, List.map_map, Function.comp_def]

theorem Card.nodup_descList (l : List Card) (k : Nat)
    (h : ∀ c ∈ l, (c.descendants.map Prod.fst).Nodup) : ((descList k l).map Prod.fst).Nodup := by
  induction l generalizing k with
  | nil => simp [descList]
  | cons c cs ih =>
    rw [descList, List.map_append, List.nodup_append]
    refine ⟨?_, ih (k + 1) (fun c' hc' => h c' (List.mem_cons_of_mem _ hc')), ?_⟩
    · rw [Card.map_fst_node, List.nodup_cons]
      refine ⟨?_, nodup_map_cons k _ (h c (List.mem_cons_self ..))⟩
      intro hm
      rw [List.mem_map] at hm
      obtain ⟨r, hr, hk⟩ := hm
      rw [List.mem_map] at hr
      obtain ⟨⟨r', d⟩, hrd, hr'⟩ := hr
      simp only at hr'
      subst hr'
      have := ((Card.mem_descendants c r' d).1 hrd).1
      simp only [List.cons.injEq, true_and] at hk
      exact this hk
    · intro a ha b hb hab
      subst hab
      rw [Card.map_fst_node] at ha
      have ha' : ∃ r, a = k :: r := by
        rcases List.mem_cons.1 ha with h1 | h1
        · exact ⟨[], h1⟩
        · rw [List.mem_map] at h1
          obtain ⟨r, _, hr⟩ := h1
          exact ⟨r, hr.symm⟩
      rw [List.mem_map] at hb
      obtain ⟨⟨p, d⟩, hpd, hp⟩ := hb
      simp only at hp
      subst hp
      obtain ⟨j, _, rest, _, hp, _⟩ := (Card.mem_descList _ _ _ _).1 hpd
      obtain ⟨r, hr⟩ := ha'
      rw [hr] at hp
      simp only [List.cons.injEq] at hp
      omega

theorem Card.nodup_descendants (c : Card) : (c.descendants.map Prod.fst).Nodup := by
  induction c using Card.induct with
  | h c ih =>
    rw [Card.descendants_eq]
    exact Card.nodup_descList _ _ ih

namespace Module

theorem nodup_walkFns (fns : List (String × Func)) (k : Nat) :
    ((walkFns k fns).map Prod.fst).Nodup := by
  induction fns generalizing k with
  | nil => simp [walkFns]
  | cons nf rest ih =>
    obtain ⟨n, fn⟩ := nf
    rw [walkFns, List.map_append, List.nodup_append]
    refine ⟨?_, ih (k + 1), ?_⟩
    · rw [List.map_map]
      have : (Prod.fst ∘ fun (pd : List Nat × Card) => ((⟨k, pd.1⟩ : CardIndex), pd.2))
          = (fun p => (⟨k, p⟩ : CardIndex)) ∘ Prod.fst := rfl
      rw [this, ← List.map_map]
      have hn := Card.nodup_descList fn.cards 0 (fun c _ => Card.nodup_descendants c)
      unfold List.Nodup at *
      rw [List.pairwise_map]
      exact hn.imp (fun hne heq => hne (by injection heq))
    · intro a ha b hb hab
      subst hab
      rw [List.map_map, List.mem_map] at ha
      obtain ⟨pd, _, hpd⟩ := ha
      rw [List.mem_map] at hb
      obtain ⟨⟨idx, d⟩, hmem, hidx⟩ := hb
      simp only at hidx
      subst hidx
      obtain ⟨j, _, _, hf, _⟩ := (mem_walkFns _ _ _ _).1 hmem
      rw [← hpd] at hf
      simp only [Function.comp] at hf
      omega

/-- `walk_cards` reports no index twice -/
theorem nodup_walk (m : Module) : (m.walk.map Prod.fst).Nodup := nodup_walkFns _ _

end Module

/-! ## `insert_child` / `remove_child` -/

/-- child slot `i` of `c` belongs to a `Vec<Card>` (insert shifts, remove shrinks) rather than to
a fixed field (insert overwrites, remove leaves a placeholder) -/
def Card.isListSlot : Card → Nat → Bool
  | .composite _ _, _ => true
  | .closure _ _, _ => true
  | .array _, _ => true
  | .call _ _, _ => true
  | .callNative _ _, _ => true
  | .dynamicCall _ _, i => decide (i ≠ 0)
  | _, _ => false

theorem Card.removeChild_insertChild (c c' : Card) (i : Nat) (x : Card)
    (h : c.insertChild i x = .ok c') (hl : c.isListSlot i = true) :
    c'.removeChild i = some (c, x) := by
  cases c <;> simp [isListSlot] at hl
  case dynamicCall cs f =>
    cases i with
    | zero => exact absurd rfl hl
    | succ i =>
      simp only [insertChild] at h
      split at h <;> cases h
      have hle : i ≤ cs.length := by omega
      simp [removeChild, List.length_insertIdx, List.getElem?_insertIdx_self,
        List.eraseIdx_insertIdx_self, hle] <;> omega
  all_goals
    rename_i cs
    simp only [insertChild] at h
    split at h <;> cases h
    have hle : i ≤ cs.length := by omega
    simp [removeChild, List.length_insertIdx, List.getElem?_insertIdx_self,
      List.eraseIdx_insertIdx_self, hle] <;> omega

/-- on a fixed slot `insert_child` is `replace_child` (dropping the old child) -/
theorem Card.insertChild_fixed (c : Card) (i : Nat) (x : Card) (hl : c.isListSlot i = false) :
    c.insertChild i x = match c.getChild i with
      | some _ => .ok (c.setChild i x)
      | none => .error x := by
  cases c <;> simp [isListSlot] at hl <;> rcases i with _ | _ | _ | i <;>
    simp [insertChild, getChild, setChild] at hl ⊢

/-- after a successful `insert_child(i, x)` child `i` is `x` -/
theorem Card.getChild_insertChild (c c' : Card) (i : Nat) (x : Card)
    (h : c.insertChild i x = .ok c') : c'.getChild i = some x := by
  by_cases hl : c.isListSlot i = true
  · cases c <;> simp [isListSlot] at hl
    case dynamicCall cs f =>
      cases i with
      | zero => exact absurd rfl hl
      | succ i =>
        simp only [insertChild] at h
        split at h <;> cases h
        simp [getChild, List.getElem?_insertIdx_self] <;> omega
    all_goals
      rename_i cs
      simp only [insertChild] at h
      split at h <;> cases h
      simp [getChild, List.getElem?_insertIdx_self] <;> omega
  · simp only [Bool.not_eq_true] at hl
    rw [Card.insertChild_fixed c i x hl] at h
    cases hg : c.getChild i with
    | none => rw [hg] at h; cases h
    | some old =>
      rw [hg] at h
      cases h
      rw [Card.getChild_setChild, if_pos rfl, hg]; rfl


/-! ## the hand-written `Ord for CardIndex` on prefix-related indices -/
namespace CardIndex

theorem zipCmp_prefix_left (p t : List Nat) : zipCmp (p.zip (p ++ t)) = none := by
  induction p with
  | nil => simp [zipCmp]
  | cons i ps ih => simp [zipCmp, ih]

theorem zipCmp_prefix_right (p t : List Nat) : zipCmp ((p ++ t).zip p) = none := by
  induction p with
  | nil => simp [zipCmp]
  | cons i ps ih => simp [zipCmp, ih]

/-- a proper ancestor is `<` its descendants -/
theorem lt_of_prefix (a b : CardIndex) (hf : a.function = b.function)
    (hp : a.indices <+: b.indices) (hne : a ≠ b) : a < b := by
  obtain ⟨t, ht⟩ := hp
  show cmp a b = .lt
  have htne : t ≠ [] := by
    intro h; apply hne
    cases a; cases b; simp_all
  unfold cmp
  rw [hf, ← ht, zipCmp_prefix_left]
  have hff : compare b.function b.function = .eq := by simp
  simp only [hff, List.length_append]
  have : 0 < t.length := List.length_pos_iff.2 htne
  simp [Nat.compare_eq_lt]; omega

/-- a descendant (or the index itself) is never `<` its ancestor -/
theorem not_lt_of_prefix (a b : CardIndex) (hf : a.function = b.function)
    (hp : b.indices <+: a.indices) : ¬ a < b := by
  obtain ⟨t, ht⟩ := hp
  show ¬ cmp a b = .lt
  unfold cmp
  rw [hf, ← ht, zipCmp_prefix_right]
  have hff : compare b.function b.function = .eq := by simp
  simp only [hff, List.length_append]
  simp [Nat.compare_eq_lt]

end CardIndex

/-! ## `swap_cards` -/

theorem not_mdisj_iff (x y : CardIndex) :
    ¬ MDisj x y ↔ x.function = y.function ∧ (x.indices <+: y.indices ∨ y.indices <+: x.indices) := by
  unfold MDisj PDisj
  by_cases hf : x.function = y.function
  · by_cases h1 : x.indices <+: y.indices <;> by_cases h2 : y.indices <+: x.indices <;> simp [hf, h1, h2]
  · simp [hf]

theorem MDisj.ne {x y : CardIndex} (h : MDisj x y) : x ≠ y := by
  intro he; subst he
  rcases h with h | h
  · exact h rfl
  · exact h.1 (List.prefix_refl _)

namespace Module

theorem replaceCard_ok (m : Module) (idx : CardIndex) (x old : Card) (h : m.getCard idx = .ok old) :
    m.replaceCard idx x = .ok (m.setCard idx x, old) := by
  unfold replaceCard; rw [h]

theorem replaceCard_error (m : Module) (idx : CardIndex) (x : Card) (e) (h : m.getCard idx = .error e) :
    m.replaceCard idx x = .error e := by
  unfold replaceCard; rw [h]

/-- the part of `swap_cards` after the `lhs == rhs` test and the exchange -/
def swapCore (m : Module) (lhs rhs : CardIndex) : Module × Except SwapError Unit :=
  match m.replaceCard rhs .scalarNil with
  | .error e => (m, .error (.fetchError e))
  | .ok (m1, rhsCard) =>
    match m1.getCard lhs with
    | .error _ =>
      match m1.replaceCard rhs rhsCard with
      | .ok (m0, _) => (m0, .error .invalidSwap)
      | .error _ => (m1, .error .invalidSwap)
    | .ok _ =>
      match m1.replaceCard lhs rhsCard with
      | .error _ => (m1, .error .invalidSwap)
      | .ok (m2, lhsCard) =>
        match m2.replaceCard rhs lhsCard with
        | .error _ => (m2, .error .invalidSwap)
        | .ok (m3, _) => (m3, .ok ())

theorem swapCardsSt_ne (m : Module) (a b : CardIndex) (h : a ≠ b) :
    m.swapCardsSt a b = m.swapCore (if a < b then b else a) (if a < b then a else b) := by
  unfold swapCardsSt swapCore
  rw [if_neg h]
  rfl

theorem swapCardsSt_self (m : Module) (a : CardIndex) :
    m.swapCardsSt a a = match m.getCard a with
      | .ok _ => (m, .ok ())
      | .error e => (m, .error (.fetchError e)) := by
  unfold swapCardsSt
  rw [if_pos rfl]
  cases m.getCard a <;> rfl

theorem swapCore_rhs_error (m : Module) (lhs rhs : CardIndex) (e) (h : m.getCard rhs = .error e) :
    m.swapCore lhs rhs = (m, .error (.fetchError e)) := by
  unfold swapCore
  rw [replaceCard_error _ _ _ _ h]

/-- the restore step really restores -/
theorem swapCore_lhs_unreachable (m : Module) (lhs rhs : CardIndex) (R : Card)
    (hr : m.getCard rhs = .ok R) (e) (hl : (m.setCard rhs .scalarNil).getCard lhs = .error e) :
    m.swapCore lhs rhs = (m, .error .invalidSwap) := by
  unfold swapCore
  rw [replaceCard_ok _ _ _ _ hr]
  simp only [hl]
  rw [replaceCard_ok _ _ _ _ (getCard_setCard_same m rhs .scalarNil R hr)]
  simp only [setCard_setCard_same, setCard_getCard _ _ _ hr]

theorem swapCore_ancestor (m : Module) (lhs rhs : CardIndex) (R : Card)
    (hr : m.getCard rhs = .ok R) (hf : rhs.function = lhs.function)
    (hp : rhs.indices <+: lhs.indices) (hne : lhs ≠ rhs) :
    m.swapCore lhs rhs = (m, .error .invalidSwap) := by
  obtain ⟨t, ht⟩ := hp
  have htne : t ≠ [] := by
    intro h; apply hne; cases lhs; cases rhs; simp_all
  have h1 := getCard_setCard_same m rhs .scalarNil R hr
  have h2 := getCard_append (m.setCard rhs .scalarNil) rhs.function rhs.indices t .scalarNil h1
  have hlhs : lhs = ⟨rhs.function, rhs.indices ++ t⟩ := by cases lhs; cases rhs; simp_all
  cases t with
  | nil => exact absurd rfl htne
  | cons i t' =>
    have : (m.setCard rhs .scalarNil).getCard lhs = .error .cardNotFound := by
      rw [hlhs, h2]; rfl
    exact swapCore_lhs_unreachable m lhs rhs R hr _ this

theorem swapCore_disj (m : Module) (lhs rhs : CardIndex) (L R : Card) (hd : MDisj lhs rhs)
    (hl : m.getCard lhs = .ok L) (hr : m.getCard rhs = .ok R) :
    m.swapCore lhs rhs = ((m.setCard rhs L).setCard lhs R, .ok ()) := by
  unfold swapCore
  rw [replaceCard_ok _ _ _ _ hr]
  have h1 : (m.setCard rhs .scalarNil).getCard lhs = .ok L := by
    rw [getCard_setCard_disj _ _ _ _ hd.symm, hl]
  simp only [h1]
  rw [replaceCard_ok _ _ _ _ h1]
  have h2 : ((m.setCard rhs .scalarNil).setCard lhs R).getCard rhs = .ok .scalarNil := by
    rw [getCard_setCard_disj _ _ _ _ hd]
    exact getCard_setCard_same m rhs .scalarNil R hr
  simp only []
  rw [replaceCard_ok _ _ _ _ h2]
  simp only []
  rw [setCard_comm _ _ _ _ _ hd, setCard_setCard_same]

theorem swapCore_disj_lhs_error (m : Module) (lhs rhs : CardIndex) (R : Card) (hd : MDisj lhs rhs)
    (e) (hl : m.getCard lhs = .error e) (hr : m.getCard rhs = .ok R) :
    m.swapCore lhs rhs = (m, .error .invalidSwap) := by
  apply swapCore_lhs_unreachable m lhs rhs R hr e
  rw [getCard_setCard_disj _ _ _ _ hd.symm, hl]

/-- the exchanged pair: one of the two orders, and `lhs` is never a proper ancestor of `rhs`
(this is what the `lhs < rhs` exchange is for) -/
theorem swap_select (a b : CardIndex) (hne : a ≠ b) :
    let lhs := if a < b then b else a
    let rhs := if a < b then a else b
    ((lhs = b ∧ rhs = a) ∨ (lhs = a ∧ rhs = b)) ∧ lhs ≠ rhs ∧
      ¬ (lhs.function = rhs.function ∧ lhs.indices <+: rhs.indices) := by
  intro lhs rhs
  by_cases hlt : a < b
  · have h1 : lhs = b := if_pos hlt
    have h2 : rhs = a := if_pos hlt
    refine ⟨Or.inl ⟨h1, h2⟩, by rw [h1, h2]; exact Ne.symm hne, ?_⟩
    rw [h1, h2]
    rintro ⟨hf, hp⟩
    exact CardIndex.not_lt_of_prefix a b hf.symm hp hlt
  · have h1 : lhs = a := if_neg hlt
    have h2 : rhs = b := if_neg hlt
    refine ⟨Or.inr ⟨h1, h2⟩, by rw [h1, h2]; exact hne, ?_⟩
    rw [h1, h2]
    rintro ⟨hf, hp⟩
    exact hlt (CardIndex.lt_of_prefix a b hf hp hne)

/-- complete case analysis of `swap_cards` on two different indices -/
theorem swapCore_cases (m : Module) (lhs rhs : CardIndex) (hne : lhs ≠ rhs)
    (hord : ¬ (lhs.function = rhs.function ∧ lhs.indices <+: rhs.indices)) :
    (∃ e, m.getCard rhs = .error e ∧ m.swapCore lhs rhs = (m, .error (.fetchError e))) ∨
    (∃ R, m.getCard rhs = .ok R ∧ ¬ MDisj lhs rhs ∧ m.swapCore lhs rhs = (m, .error .invalidSwap)) ∨
    (∃ R e, m.getCard rhs = .ok R ∧ MDisj lhs rhs ∧ m.getCard lhs = .error e ∧
        m.swapCore lhs rhs = (m, .error .invalidSwap)) ∨
    (∃ L R, m.getCard rhs = .ok R ∧ MDisj lhs rhs ∧ m.getCard lhs = .ok L ∧
        m.swapCore lhs rhs = ((m.setCard rhs L).setCard lhs R, .ok ())) := by
  cases hr : m.getCard rhs with
  | error e => exact Or.inl ⟨e, rfl, swapCore_rhs_error m lhs rhs e hr⟩
  | ok R =>
    by_cases hd : MDisj lhs rhs
    · cases hl : m.getCard lhs with
      | error e =>
        exact Or.inr (Or.inr (Or.inl ⟨R, e, rfl, hd, rfl, swapCore_disj_lhs_error m lhs rhs R hd e hl hr⟩))
      | ok L =>
        exact Or.inr (Or.inr (Or.inr ⟨L, R, rfl, hd, rfl, swapCore_disj m lhs rhs L R hd hl hr⟩))
    · refine Or.inr (Or.inl ⟨R, rfl, hd, ?_⟩)
      obtain ⟨hf, hp⟩ := (not_mdisj_iff _ _).1 hd
      rcases hp with hp | hp
      · exact absurd ⟨hf, hp⟩ hord
      · exact swapCore_ancestor m lhs rhs R hr hf.symm hp hne

end Module

/-! ## `insert_card` / `remove_card` -/

theorem List.split_last (i j : Nat) (rest : List Nat) :
    (i :: j :: rest).dropLast ++ [(i :: j :: rest).getLast?.getD 0] = i :: j :: rest := by
  have h : (i :: j :: rest) ≠ [] := by simp
  rw [List.getLast?_eq_some_getLast h]
  simp only [Option.getD_some]
  exact List.dropLast_concat_getLast h

namespace Module

/-- the addressed slot belongs to a `Vec<Card>`: a top-level slot of a function body, or a
list slot (`Card.isListSlot`) of the parent card -/
def isListSlot (m : Module) (idx : CardIndex) : Bool :=
  match idx.indices with
  | [] => false
  | [_] => true
  | ind@(_ :: _ :: _) =>
    match m.getCard idx.parent with
    | .ok p => p.isListSlot (ind.getLast?.getD 0)
    | .error _ => false

theorem insertCard_top (m : Module) (idx : CardIndex) (x : Card) (i : Nat) (hi : idx.indices = [i]) :
    m.insertCard idx x = match m.cardsOf idx.function with
      | none => .error .functionNotFound
      | some cs => if cs.length < i then .error .cardNotFound
                   else .ok (m.setFn idx.function (cs.insertIdx i x)) := by
  unfold insertCard cardsOf setFn
  cases m.functions[idx.function]? with
  | none => rfl
  | some nf => obtain ⟨n, fn⟩ := nf; simp only [hi, Option.map_some]

theorem removeCard_top (m : Module) (idx : CardIndex) (i : Nat) (hi : idx.indices = [i]) :
    m.removeCard idx = match m.cardsOf idx.function with
      | none => .error .functionNotFound
      | some cs => match cs[i]? with
        | none => .error .cardNotFound
        | some r => .ok (m.setFn idx.function (cs.eraseIdx i), r) := by
  unfold removeCard cardsOf setFn
  cases m.functions[idx.function]? with
  | none => rfl
  | some nf =>
    obtain ⟨n, fn⟩ := nf
    simp only [hi, Option.map_some]
    split
    · rename_i h
      rw [List.getElem?_eq_none h]
    · cases fn.cards[i]? <;> rfl

theorem getCard_parent_fnf (m : Module) (idx : CardIndex) (h : m.functions[idx.function]? = none) :
    m.getCard idx.parent = .error .functionNotFound := by
  unfold getCard CardIndex.parent
  simp only [h]

theorem insertCard_nested (m : Module) (idx : CardIndex) (x : Card) (i j : Nat) (rest : List Nat)
    (hi : idx.indices = i :: j :: rest) :
    m.insertCard idx x = match m.getCard idx.parent with
      | .error e => .error e
      | .ok p => match p.insertChild (idx.indices.getLast?.getD 0) x with
        | .error _ => .error .cardNotFound
        | .ok p' => .ok (m.setCard idx.parent p') := by
  cases hf : m.functions[idx.function]? with
  | none =>
    rw [getCard_parent_fnf m idx hf]
    unfold insertCard; simp only [hf]
  | some nf =>
    unfold insertCard; simp only [hf, hi]; rfl

theorem removeCard_nested (m : Module) (idx : CardIndex) (i j : Nat) (rest : List Nat)
    (hi : idx.indices = i :: j :: rest) :
    m.removeCard idx = match m.getCard idx.parent with
      | .error e => .error e
      | .ok p => match p.removeChild (idx.indices.getLast?.getD 0) with
        | none => .error .cardNotFound
        | some (p', r) => .ok (m.setCard idx.parent p', r) := by
  cases hf : m.functions[idx.function]? with
  | none =>
    rw [getCard_parent_fnf m idx hf]
    unfold removeCard; simp only [hf]
  | some nf =>
    unfold removeCard; simp only [hf, hi]; rfl

theorem idx_eq_parent_append (idx : CardIndex) (i j : Nat) (rest : List Nat)
    (hi : idx.indices = i :: j :: rest) :
    idx = ⟨idx.parent.function, idx.parent.indices ++ [idx.indices.getLast?.getD 0]⟩ := by
  cases idx with
  | mk f ind =>
    simp only at hi
    subst hi
    simp only [CardIndex.parent, List.split_last]

end Module

/-! ## `remove_card` -/

/-- `remove_child(i)` hands out exactly the child `get_child(i)` (and fails iff there is none) -/
theorem Card.removeChild_snd (c : Card) (i : Nat) :
    (c.removeChild i).map (·.2) = c.getChild i := by
  cases c <;> rcases i with _ | _ | _ | i <;>
    simp [removeChild, getChild] <;>
    (try split) <;> simp_all <;> simp [Function.comp_def]

namespace Module

/-- an index below an index that cannot be fetched cannot be fetched, with the same error -/
theorem getCard_append_error (m : Module) (f : Nat) (p t : List Nat) (e : CardFetchError)
    (hp : p ≠ []) (h : m.getCard ⟨f, p⟩ = .error e) : m.getCard ⟨f, p ++ t⟩ = .error e := by
  rw [getCard_eq] at h ⊢
  simp only at h ⊢
  cases hc : m.cardsOf f with
  | none => rw [hc] at h; exact h
  | some cs =>
    rw [hc] at h
    simp only [hp, if_false] at h
    simp only [List.append_eq_nil_iff, hp, false_and, if_false]
    rw [getL_append _ _ _ hp]
    cases hg : getL cs p with
    | none => rw [hg] at h; exact h
    | some d => rw [hg] at h; cases h

/-- `remove_card` hands out the addressed card -/
theorem removeCard_fst_snd (m : Module) (idx : CardIndex) :
    (m.removeCard idx).map (·.2) = m.getCard idx := by
  cases hi : idx.indices with
  | nil =>
    unfold removeCard getCard
    cases m.functions[idx.function]? with
    | none => rfl
    | some nf => simp only [hi]; rfl
  | cons i r =>
    cases r with
    | nil =>
      rw [removeCard_top m idx i hi, getCard_eq, hi]
      cases m.cardsOf idx.function with
      | none => rfl
      | some cs =>
        simp only [getL, List.cons_ne_nil, if_false]
        cases cs[i]? <;> rfl
    | cons j rest =>
      rw [removeCard_nested m idx i j rest hi]
      have hidx := idx_eq_parent_append idx i j rest hi
      cases hp : m.getCard idx.parent with
      | error e =>
        have hne : idx.parent.indices ≠ [] := by simp [CardIndex.parent, hi]
        have := getCard_append_error m idx.parent.function idx.parent.indices
          [idx.indices.getLast?.getD 0] e hne hp
        rw [← hidx] at this
        rw [this]; rfl
      | ok p =>
        have := getCard_append m idx.parent.function idx.parent.indices
          [idx.indices.getLast?.getD 0] p hp
        rw [← hidx] at this
        rw [this]
        simp only [getPath]
        rw [← Card.removeChild_snd]
        cases hrem : p.removeChild (idx.indices.getLast?.getD 0) with
        | none => rfl
        | some pr => obtain ⟨p', r⟩ := pr; rfl

end Module

/-! ## writing below a fetched card -/

theorem Card.setPath_append (c : Card) (p t : List Nat) (x : Card) :
    c.setPath (p ++ t) x = match c.getPath p with
      | none => c
      | some d => c.setPath p (d.setPath t x) := by
  induction p generalizing c with
  | nil => simp [getPath, setPath]
  | cons i ps ih =>
    simp only [List.cons_append, setPath, getPath]
    cases hc : c.getChild i with
    | none => rfl
    | some ch =>
      simp only [ih ch]
      cases hg : ch.getPath ps with
      | none => exact Card.setChild_getChild c i ch hc
      | some d => rfl

theorem setL_append (l : List Card) (p t : List Nat) (x : Card) (hp : p ≠ []) :
    setL l (p ++ t) x = match getL l p with
      | none => l
      | some d => setL l p (d.setPath t x) := by
  have h := Card.setPath_append (Card.composite "" l) p t x
  rw [← setL_eq "" l (p ++ t) x (by simp [hp]), ← getL_eq "" l p hp] at h
  cases hg : getL l p with
  | none => rw [hg] at h; exact (Card.composite.injEq .. ▸ h : _ ∧ _).2
  | some d =>
    rw [hg] at h
    simp only at h
    rw [← setL_eq "" l p _ hp] at h
    exact (Card.composite.injEq .. ▸ h : _ ∧ _).2

namespace Module

theorem setCard_append (m : Module) (f : Nat) (p t : List Nat) (x P : Card)
    (h : m.getCard ⟨f, p⟩ = .ok P) : m.setCard ⟨f, p ++ t⟩ x = m.setCard ⟨f, p⟩ (P.setPath t x) := by
  obtain ⟨cs, hc, hg⟩ := (getCard_ok_iff _ _ _).1 h
  have hp : p ≠ [] := by intro hp; simp [hp, getL] at hg
  rw [setCard_eq, setCard_eq]
  simp only at hc hg ⊢
  rw [hc]
  simp only
  rw [setL_append _ _ _ _ hp, hg]

/-- on a fixed slot `insert_card` is `replace_card` (the old card is dropped) -/
theorem insertCard_fixed (m m' : Module) (idx : CardIndex) (c : Card)
    (h : m.insertCard idx c = .ok m') (hl : m.isListSlot idx = false) :
    ∃ old, m.replaceCard idx c = .ok (m', old) := by
  cases hi : idx.indices with
  | nil =>
    unfold insertCard at h
    cases hf : m.functions[idx.function]? with
    | none => simp [hf] at h
    | some nf => simp [hf, hi] at h
  | cons i r =>
    cases r with
    | nil => simp [isListSlot, hi] at hl
    | cons j rest =>
      rw [insertCard_nested m idx c i j rest hi] at h
      have hidx := idx_eq_parent_append idx i j rest hi
      cases hp : m.getCard idx.parent with
      | error e => simp [hp] at h
      | ok p =>
        simp only [hp] at h
        have hl' : p.isListSlot (idx.indices.getLast?.getD 0) = false := by
          simp only [isListSlot, hi, hp] at hl
          rw [hi]; exact hl
        rw [Card.insertChild_fixed p _ c hl'] at h
        cases hg : p.getChild (idx.indices.getLast?.getD 0) with
        | none => simp [hg] at h
        | some old =>
          simp only [hg, Except.ok.injEq] at h
          subst h
          refine ⟨old, ?_⟩
          have hget : m.getCard idx = .ok old := by
            have := getCard_append m idx.parent.function idx.parent.indices
              [idx.indices.getLast?.getD 0] p hp
            rw [← hidx] at this
            rw [this]
            simp only [getPath, hg]
            rfl
          rw [replaceCard_ok m idx c old hget]
          have := setCard_append m idx.parent.function idx.parent.indices
            [idx.indices.getLast?.getD 0] c p hp
          rw [← hidx] at this
          rw [this]
          simp only [setPath, hg]

end Module
end Cao
