import CaoModel.OpenAddr
/-! Theory of `CaoModel/OpenAddr.lean`: cyclic distance lemmas, the representation invariant
    `Inv`, correctness of `find`, of filling an empty slot, and of backward-shift deletion. -/
namespace Cao.OA

variable {K V : Type}

@[simp] theorem upd_same (s : Slots K V) (i x) : upd s i x i = x := by simp [upd]
theorem upd_other (s : Slots K V) (i j x) (h : j ≠ i) : upd s i x j = s j := by simp [upd, h]


theorem dist_eq {cap a b : Nat} (ha : a < cap) (hb : b < cap) :
    dist cap a b = if a ≤ b then b - a else b + cap - a := by
  unfold dist
  split
  · have : b + cap - a = (b - a) + cap := by omega
    rw [this, Nat.add_mod_right, Nat.mod_eq_of_lt (by omega)]
  · rw [Nat.mod_eq_of_lt (by omega)]

theorem probe_eq {cap h n : Nat} (hh : h < cap) (hn : n < cap) :
    probe cap h n = if h + n < cap then h + n else h + n - cap := by
  unfold probe
  split
  · exact Nat.mod_eq_of_lt ‹_›
  · have : h + n = (h + n - cap) + cap := by omega
    rw [this, Nat.add_mod_right, Nat.mod_eq_of_lt (by omega)]
    omega

theorem probe_lt {cap h n : Nat} (hc : 0 < cap) : probe cap h n < cap := Nat.mod_lt _ hc
theorem dist_lt {cap a b : Nat} (hc : 0 < cap) : dist cap a b < cap := Nat.mod_lt _ hc

theorem probe_dist {cap a b : Nat} (ha : a < cap) (hb : b < cap) :
    probe cap a (dist cap a b) = b := by
  have hd := dist_eq ha hb
  have hl : dist cap a b < cap := dist_lt (by omega)
  rw [probe_eq ha hl]
  split at hd <;> split <;> omega

theorem dist_probe {cap h n : Nat} (hh : h < cap) (hn : n < cap) :
    dist cap h (probe cap h n) = n := by
  have hp := probe_eq hh hn
  have hl : probe cap h n < cap := probe_lt (by omega)
  rw [dist_eq hh hl]
  split at hp <;> split <;> omega

theorem probe_succ {cap h n : Nat} (hh : h < cap) (hn : n + 1 < cap) :
    probe cap h (n+1) = probe cap (probe cap h n) 1 := by
  have h1 := probe_eq hh (show n < cap by omega)
  have h2 := probe_eq hh hn
  have hl : probe cap h n < cap := probe_lt (by omega)
  have h3 := probe_eq hl (show 1 < cap by omega)
  split at h1 <;> split at h2 <;> split at h3 <;> omega

/-- betweenness: if b is on the cyclic path from a to c then distances add up -/
theorem dist_add {cap a b c : Nat} (ha : a < cap) (hb : b < cap) (hc : c < cap)
    (h : dist cap a b ≤ dist cap a c) : dist cap a c = dist cap a b + dist cap b c := by
  have h1 := dist_eq ha hb
  have h2 := dist_eq ha hc
  have h3 := dist_eq hb hc
  split at h1 <;> split at h2 <;> split at h3 <;> omega

/-! ### table, invariant, find -/

variable [DecidableEq K]

def occ (s : Slots K V) (i : Nat) : Prop := (s i).isSome = true

structure Inv (cap : Nat) (home : K → Nat) (s : Slots K V) : Prop where
  capPos : 0 < cap
  homeLt : ∀ k, home k < cap
  /-- every earlier probe position of a stored key is occupied -/
  path : ∀ i < cap, ∀ k v, s i = some (k, v) → ∀ m < dist cap (home k) i, occ s (probe cap (home k) m)
  distinct : ∀ i < cap, ∀ j < cap, ∀ k v w, s i = some (k, v) → s j = some (k, w) → i = j
  hasEmpty : ∃ e < cap, s e = none

theorem findFrom_present (cap : Nat) (s : Slots K V) (h : Nat) (k : K) (v : V) (n0 : Nat) :
    ∀ (d n fuel : Nat), n + d = n0 → d < fuel →
      s (probe cap h n0) = some (k, v) →
      (∀ m, n ≤ m → m < n0 → ∃ k' v', s (probe cap h m) = some (k', v') ∧ k' ≠ k) →
      findFrom cap s h k n fuel = some (probe cap h n0) := by
  intro d
  induction d with
  | zero =>
    intro n fuel hn hf hs _
    obtain ⟨f, rfl⟩ : ∃ f, fuel = f + 1 := ⟨fuel - 1, by omega⟩
    have : n = n0 := by omega
    subst this
    simp [findFrom, hs]
  | succ d ih =>
    intro n fuel hn hf hs hocc
    obtain ⟨f, rfl⟩ : ∃ f, fuel = f + 1 := ⟨fuel - 1, by omega⟩
    obtain ⟨k', v', hk', hne⟩ := hocc n (Nat.le_refl _) (by omega)
    simp only [findFrom, hk']
    rw [if_neg hne]
    exact ih (n+1) f (by omega) (by omega) hs (fun m h1 h2 => hocc m (by omega) h2)

/-- if slot at probe position n0 is empty and everything before is occupied by other keys,
    the scan returns that empty slot -/
theorem findFrom_absent (cap : Nat) (s : Slots K V) (h : Nat) (k : K) (n0 : Nat) :
    ∀ (d n fuel : Nat), n + d = n0 → d < fuel →
      s (probe cap h n0) = none →
      (∀ m, n ≤ m → m < n0 → ∃ k' v', s (probe cap h m) = some (k', v') ∧ k' ≠ k) →
      findFrom cap s h k n fuel = some (probe cap h n0) := by
  intro d
  induction d with
  | zero =>
    intro n fuel hn hf hs _
    obtain ⟨f, rfl⟩ : ∃ f, fuel = f + 1 := ⟨fuel - 1, by omega⟩
    have : n = n0 := by omega
    subst this
    simp [findFrom, hs]
  | succ d ih =>
    intro n fuel hn hf hs hocc
    obtain ⟨f, rfl⟩ : ∃ f, fuel = f + 1 := ⟨fuel - 1, by omega⟩
    obtain ⟨k', v', hk', hne⟩ := hocc n (Nat.le_refl _) (by omega)
    simp only [findFrom, hk']
    rw [if_neg hne]
    exact ih (n+1) f (by omega) (by omega) hs (fun m h1 h2 => hocc m (by omega) h2)

/-- membership of a key -/
def Mem (cap : Nat) (s : Slots K V) (k : K) (v : V) : Prop := ∃ i < cap, s i = some (k, v)

theorem find_mem {cap : Nat} {home : K → Nat} {s : Slots K V} (inv : Inv cap home s)
    {i : Nat} (hi : i < cap) {k : K} {v : V} (hs : s i = some (k, v)) :
    find cap home s k = some i := by
  have hh := inv.homeLt k
  have hpd := probe_dist hh hi
  have hdl : dist cap (home k) i < cap := dist_lt inv.capPos
  unfold find
  have := findFrom_present cap s (home k) k v (dist cap (home k) i) (dist cap (home k) i) 0 cap
    (by omega) hdl (by rw [hpd]; exact hs)
    (by
      intro m _ hm
      have hocc := inv.path i hi k v hs m hm
      unfold occ at hocc
      cases hsm : s (probe cap (home k) m) with
      | none => simp [hsm] at hocc
      | some kv =>
        obtain ⟨k', v'⟩ := kv
        refine ⟨k', v', rfl, ?_⟩
        intro hk; subst hk
        have hpl : probe cap (home k') m < cap := probe_lt inv.capPos
        have := inv.distinct _ hpl i hi k' v' v hsm hs
        have hdp := dist_probe hh (show m < cap by omega)
        rw [this] at hdp
        omega)
  rw [this, hpd]

theorem occ_iff {s : Slots K V} {i : Nat} : occ s i ↔ ∃ k v, s i = some (k, v) := by
  unfold occ
  cases h : s i with
  | none => simp
  | some kv => obtain ⟨k, v⟩ := kv; simp

theorem not_occ_iff {s : Slots K V} {i : Nat} : ¬ occ s i ↔ s i = none := by
  unfold occ
  cases h : s i <;> simp

/-- first empty probe position -/
theorem first_empty (cap : Nat) (s : Slots K V) (h : Nat) :
    ∀ n0, s (probe cap h n0) = none →
      ∃ n ≤ n0, s (probe cap h n) = none ∧ ∀ m < n, occ s (probe cap h m) := by
  intro n0
  induction n0 using Nat.strongRecOn with
  | _ n0 ih =>
    intro hn0
    by_cases hall : ∀ m < n0, occ s (probe cap h m)
    · exact ⟨n0, Nat.le_refl _, hn0, hall⟩
    · have : ∃ m, m < n0 ∧ ¬ occ s (probe cap h m) := by
        apply Classical.byContradiction
        intro hne
        apply hall
        intro m hm
        apply Classical.byContradiction
        intro hno
        exact hne ⟨m, hm, hno⟩
      obtain ⟨m, hm, hno⟩ := this
      obtain ⟨n, hn, h1, h2⟩ := ih m hm (not_occ_iff.mp hno)
      exact ⟨n, by omega, h1, h2⟩

theorem find_absent {cap : Nat} {home : K → Nat} {s : Slots K V} (inv : Inv cap home s)
    {k : K} (hk : ∀ v, ¬ Mem cap s k v) :
    ∃ i < cap, find cap home s k = some i ∧ s i = none ∧
      ∀ m < dist cap (home k) i, occ s (probe cap (home k) m) := by
  obtain ⟨e, he, hse⟩ := inv.hasEmpty
  have hh := inv.homeLt k
  have hde : dist cap (home k) e < cap := dist_lt inv.capPos
  obtain ⟨n, hn, hsn, hocc⟩ := first_empty cap s (home k) (dist cap (home k) e)
    (by rw [probe_dist hh he]; exact hse)
  have hnl : n < cap := by omega
  refine ⟨probe cap (home k) n, probe_lt inv.capPos, ?_, hsn, ?_⟩
  · unfold find
    apply findFrom_absent cap s (home k) k n n 0 cap (by omega) hnl hsn
    intro m _ hm
    obtain ⟨k', v', hkv⟩ := occ_iff.mp (hocc m hm)
    refine ⟨k', v', hkv, ?_⟩
    intro hkk; subst hkk
    exact hk v' ⟨_, probe_lt inv.capPos, hkv⟩
  · rw [dist_probe hh hnl]; exact hocc

/-! ### insert -/

theorem occ_upd_some {s : Slots K V} {i j : Nat} {kv : K × V} (h : occ s j) :
    occ (upd s i (some kv)) j := by
  unfold occ upd
  split
  · rfl
  · exact h

/-- filling the slot returned by `find` (empty case) preserves the invariant, provided another
    empty slot remains -/
theorem insert_new_inv {cap : Nat} {home : K → Nat} {s : Slots K V} (inv : Inv cap home s)
    {k : K} {v : V} {i : Nat} (hi : i < cap) (hsi : s i = none)
    (hk : ∀ w, ¬ Mem cap s k w)
    (hpath : ∀ m < dist cap (home k) i, occ s (probe cap (home k) m))
    (hrest : ∃ e < cap, e ≠ i ∧ s e = none) :
    Inv cap home (upd s i (some (k, v))) where
  capPos := inv.capPos
  homeLt := inv.homeLt
  path := by
    intro j hj k' v' hs m hm
    by_cases hji : j = i
    · subst hji
      simp at hs
      obtain ⟨rfl, rfl⟩ := hs
      exact occ_upd_some (hpath m hm)
    · rw [upd_other _ _ _ _ hji] at hs
      exact occ_upd_some (inv.path j hj k' v' hs m hm)
  distinct := by
    intro a ha b hb k' v' w' hsa hsb
    by_cases hai : a = i <;> by_cases hbi : b = i
    · omega
    · subst hai
      simp at hsa
      rw [upd_other _ _ _ _ hbi] at hsb
      exact absurd ⟨b, hb, hsa.1 ▸ hsb⟩ (hk w')
    · subst hbi
      simp at hsb
      rw [upd_other _ _ _ _ hai] at hsa
      exact absurd ⟨a, ha, hsb.1 ▸ hsa⟩ (hk v')
    · rw [upd_other _ _ _ _ hai] at hsa
      rw [upd_other _ _ _ _ hbi] at hsb
      exact inv.distinct a ha b hb k' v' w' hsa hsb
  hasEmpty := by
    obtain ⟨e, he, hne, hse⟩ := hrest
    exact ⟨e, he, by rw [upd_other _ _ _ _ hne]; exact hse⟩

/-! ### backward-shift deletion -/

theorem probe_add {cap a m d : Nat} (ha : a < cap) (hmd : m + d < cap) :
    probe cap a (m + d) = probe cap (probe cap a m) d := by
  have h1 := probe_eq ha (show m < cap by omega)
  have h2 := probe_eq ha hmd
  have hl : probe cap a m < cap := probe_lt (by omega)
  have h3 := probe_eq hl (show d < cap by omega)
  split at h1 <;> split at h2 <;> split at h3 <;> omega

theorem dist_step {cap a j : Nat} (ha : a < cap) (hj : j < cap) (h : dist cap a j + 1 < cap) :
    dist cap a (probe cap j 1) = dist cap a j + 1 := by
  have h1 := dist_eq ha hj
  have h2 := probe_eq hj (show 1 < cap by omega)
  have hl : probe cap j 1 < cap := probe_lt (by omega)
  have h3 := dist_eq ha hl
  split at h1 <;> split at h2 <;> split at h3 <;> omega

theorem dist_self {cap a : Nat} (ha : a < cap) : dist cap a a = 0 := by
  have := dist_eq ha ha; simp at this; exact this

theorem dist_eq_zero {cap a b : Nat} (ha : a < cap) (hb : b < cap) (h : dist cap a b = 0) : a = b := by
  have := dist_eq ha hb
  split at this <;> omega

/-- loop invariant of `shift` -/
structure LI (cap : Nat) (home : K → Nat) (s : Slots K V) (hole j e : Nat) : Prop where
  capPos : 0 < cap
  homeLt : ∀ k, home k < cap
  holeLt : hole < cap
  jLt : j < cap
  eLt : e < cap
  holeEmpty : s hole = none
  eEmpty : s e = none
  ahead : dist cap hole j < dist cap hole e
  pathH : ∀ x < cap, ∀ k v, s x = some (k, v) → ∀ m < dist cap (home k) x,
            probe cap (home k) m = hole ∨ occ s (probe cap (home k) m)
  needAhead : ∀ x < cap, ∀ k v, s x = some (k, v) →
            dist cap (home k) hole < dist cap (home k) x → dist cap hole j < dist cap hole x
  distinct : ∀ a < cap, ∀ b < cap, ∀ k v w, s a = some (k, v) → s b = some (k, w) → a = b

/-- when the scan stops at an empty slot, the full invariant holds -/
theorem LI_done {cap : Nat} {home : K → Nat} {s : Slots K V} {hole j e : Nat}
    (li : LI cap home s hole j e) (hstop : s (probe cap j 1) = none) : Inv cap home s where
  capPos := li.capPos
  homeLt := li.homeLt
  distinct := li.distinct
  hasEmpty := ⟨e, li.eLt, li.eEmpty⟩
  path := by
    intro x hx k v hs m hm
    rcases li.pathH x hx k v hs m hm with hpm | hocc
    · exfalso
      have hh := li.homeLt k
      have hdx : dist cap (home k) x < cap := dist_lt li.capPos
      have hmc : m < cap := by omega
      -- m = dist home hole
      have hdm : dist cap (home k) hole = m := by rw [← hpm]; exact dist_probe hh hmc
      have hahead := li.needAhead x hx k v hs (by omega)
      have hadd := dist_add hh li.holeLt hx (by omega)
      have hde : dist cap hole e < cap := dist_lt li.capPos
      have hstep := dist_step li.holeLt li.jLt (by have := li.ahead; omega)
      -- j' is on the path of x
      let d := dist cap hole j + 1
      have hj' : probe cap j 1 = probe cap (home k) (m + d) := by
        rw [probe_add hh (by omega), hpm]
        have : probe cap hole d = probe cap j 1 := by
          have hpl : probe cap j 1 < cap := probe_lt li.capPos
          have := probe_dist li.holeLt hpl
          rw [hstep] at this; exact this
        exact this.symm
      by_cases hlt : m + d < dist cap (home k) x
      · rcases li.pathH x hx k v hs (m + d) hlt with h1 | h1
        · -- j' = hole impossible
          rw [← hj'] at h1
          have hpl : probe cap j 1 < cap := probe_lt li.capPos
          have := dist_self li.holeLt
          rw [← h1] at hstep
          have h0 := dist_self (cap := cap) hpl
          rw [h1] at hstep
          omega
        · rw [← hj'] at h1
          unfold occ at h1; rw [hstop] at h1; simp at h1
      · -- j' = x
        have : m + d = dist cap (home k) x := by omega
        have hpx := probe_dist hh hx
        rw [← this, ← hj'] at hpx
        rw [hpx] at hstop; rw [hstop] at hs; cases hs
    · exact hocc

theorem dist_inj {cap a b c : Nat} (ha : a < cap) (hb : b < cap) (hc : c < cap)
    (h : dist cap a b = dist cap a c) : b = c := by
  have h1 := dist_eq ha hb
  have h2 := dist_eq ha hc
  split at h1 <;> split at h2 <;> omega

/-- reverse betweenness: b is on the path from a to c iff its distance to the end is at most the
    total -/
theorem dist_add' {cap a b c : Nat} (ha : a < cap) (hb : b < cap) (hc : c < cap)
    (h : dist cap b c ≤ dist cap a c) : dist cap a c = dist cap a b + dist cap b c := by
  have h1 := dist_eq ha hb
  have h2 := dist_eq ha hc
  have h3 := dist_eq hb hc
  split at h1 <;> split at h2 <;> split at h3 <;> omega

theorem dist_pred {cap j e : Nat} (hj : j < cap) (he : e < cap) (hne : j ≠ e) :
    dist cap (probe cap j 1) e + 1 = dist cap j e := by
  by_cases hc1 : cap = 1
  · omega
  have h2 := probe_eq hj (show 1 < cap by omega)
  have hl : probe cap j 1 < cap := probe_lt (by omega)
  have h1 := dist_eq hj he
  have h3 := dist_eq hl he
  split at h1 <;> split at h2 <;> split at h3 <;> omega

theorem LI_skip {cap : Nat} {home : K → Nat} {s : Slots K V} {hole j e : Nat}
    (li : LI cap home s hole j e) {kj : K} {vj : V}
    (hsj : s (probe cap j 1) = some (kj, vj))
    (hno : ¬ dist cap hole (probe cap j 1) ≤ dist cap (home kj) (probe cap j 1)) :
    LI cap home s hole (probe cap j 1) e := by
  have hpl : probe cap j 1 < cap := probe_lt li.capPos
  have hde : dist cap hole e < cap := dist_lt li.capPos
  have hstep := dist_step li.holeLt li.jLt (by have := li.ahead; omega)
  refine { li with jLt := hpl, ahead := ?_, needAhead := ?_ }
  · have := li.ahead
    by_cases heq : dist cap hole (probe cap j 1) = dist cap hole e
    · have := dist_inj li.holeLt hpl li.eLt heq
      rw [this, li.eEmpty] at hsj; cases hsj
    · omega
  · intro x hx k v hs hneed
    have h1 := li.needAhead x hx k v hs hneed
    by_cases heq : dist cap hole x = dist cap hole (probe cap j 1)
    · exfalso
      have hxe := dist_inj li.holeLt hx hpl heq
      subst hxe
      rw [hsj] at hs; cases hs
      have := dist_add (li.homeLt kj) li.holeLt hpl (by omega)
      omega
    · omega

theorem LI_move {cap : Nat} {home : K → Nat} {s : Slots K V} {hole j e : Nat}
    (li : LI cap home s hole j e) {kj : K} {vj : V}
    (hsj : s (probe cap j 1) = some (kj, vj))
    (hyes : dist cap hole (probe cap j 1) ≤ dist cap (home kj) (probe cap j 1)) :
    LI cap home (upd (upd s hole (some (kj, vj))) (probe cap j 1) none)
      (probe cap j 1) (probe cap j 1) e := by
  have hpl : probe cap j 1 < cap := probe_lt li.capPos
  have hde : dist cap hole e < cap := dist_lt li.capPos
  have hstep := dist_step li.holeLt li.jLt (by have := li.ahead; omega)
  have hjh : probe cap j 1 ≠ hole := by
    intro h; rw [h, dist_self li.holeLt] at hstep; omega
  have hej : e ≠ probe cap j 1 := by
    intro h; rw [← h, li.eEmpty] at hsj; cases hsj
  have heh : e ≠ hole := by
    intro h; have := li.ahead; rw [h, dist_self li.holeLt] at this; omega
  have hh := li.homeLt kj
  have hadd := dist_add' hh li.holeLt hpl hyes
  -- value of the new slots at any position
  have hval : ∀ p, p ≠ hole → p ≠ probe cap j 1 →
      upd (upd s hole (some (kj, vj))) (probe cap j 1) none p = s p := by
    intro p h1 h2; rw [upd_other _ _ _ _ h2, upd_other _ _ _ _ h1]
  have hvalh : upd (upd s hole (some (kj, vj))) (probe cap j 1) none hole = some (kj, vj) := by
    rw [upd_other _ _ _ _ (Ne.symm hjh)]; simp
  refine
    { capPos := li.capPos, homeLt := li.homeLt, holeLt := hpl, jLt := hpl, eLt := li.eLt
      holeEmpty := by simp
      eEmpty := by rw [hval e heh hej]; exact li.eEmpty
      ahead := ?_, pathH := ?_, needAhead := ?_, distinct := ?_ }
  · rw [dist_self hpl]
    have : dist cap (probe cap j 1) e ≠ 0 := fun h => hej (dist_eq_zero hpl li.eLt h).symm
    omega
  · intro x hx k v hs m hm
    by_cases hxj : x = probe cap j 1
    · subst hxj; simp at hs
    by_cases hxh : x = hole
    · subst hxh
      rw [hvalh] at hs
      obtain ⟨rfl, rfl⟩ : k = kj ∧ v = vj := by simpa [eq_comm] using hs
      -- moved element, now at the old hole
      have hmj : m < dist cap (home k) (probe cap j 1) := by omega
      have hmc : m < cap := by have := dist_lt (a := home k) (b := probe cap j 1) li.capPos; omega
      have hdm := dist_probe hh hmc
      rcases li.pathH _ hpl k v hsj m hmj with h1 | h1
      · rw [h1] at hdm; omega
      · right
        have hp1 : probe cap (home k) m ≠ x := by intro h; rw [h] at hdm; omega
        have hp2 : probe cap (home k) m ≠ probe cap j 1 := by intro h; rw [h] at hdm; omega
        unfold occ; rw [hval _ hp1 hp2]; exact h1
    · rw [hval x hxh hxj] at hs
      rcases li.pathH x hx k v hs m hm with h1 | h1
      · right; unfold occ; rw [h1, hvalh]; rfl
      · by_cases hp2 : probe cap (home k) m = probe cap j 1
        · left; exact hp2
        · right
          have hp1 : probe cap (home k) m ≠ hole := by
            intro h; rw [h] at h1; unfold occ at h1; rw [li.holeEmpty] at h1; simp at h1
          unfold occ; rw [hval _ hp1 hp2]; exact h1
  · intro x hx k v hs _
    rw [dist_self hpl]
    have : dist cap (probe cap j 1) x ≠ 0 := by
      intro h
      have := dist_eq_zero hpl hx h
      subst this; simp at hs
    omega
  · intro a ha b hb k v w hsa hsb
    by_cases haj : a = probe cap j 1
    · subst haj; simp at hsa
    by_cases hbj : b = probe cap j 1
    · subst hbj; simp at hsb
    by_cases hah : a = hole <;> by_cases hbh : b = hole
    · omega
    · subst hah
      rw [hvalh] at hsa
      obtain ⟨rfl, rfl⟩ : k = kj ∧ v = vj := by simpa [eq_comm] using hsa
      rw [hval b hbh hbj] at hsb
      exact absurd (li.distinct b hb _ hpl k w v hsb hsj) hbj
    · subst hbh
      rw [hvalh] at hsb
      obtain ⟨rfl, rfl⟩ : k = kj ∧ w = vj := by simpa [eq_comm] using hsb
      rw [hval a hah haj] at hsa
      exact absurd (li.distinct a ha _ hpl k v w hsa hsj) haj
    · rw [hval a hah haj] at hsa
      rw [hval b hbh hbj] at hsb
      exact li.distinct a ha b hb k v w hsa hsb

theorem shift_inv {cap : Nat} {home : K → Nat} {e : Nat} :
    ∀ (fuel : Nat) (s : Slots K V) (hole j : Nat), LI cap home s hole j e → dist cap j e ≤ fuel →
      Inv cap home (shift cap home s hole j fuel) := by
  intro fuel
  induction fuel with
  | zero =>
    intro s hole j li hf
    exfalso
    have hje : j ≠ e := by intro h; have := li.ahead; rw [h] at this; omega
    have := dist_eq_zero li.jLt li.eLt (by omega)
    exact hje this
  | succ fuel ih =>
    intro s hole j li hf
    have hje : j ≠ e := by intro h; have := li.ahead; rw [h] at this; omega
    have hpred := dist_pred li.jLt li.eLt hje
    cases hsj : s (probe cap j 1) with
    | none => simp only [shift, hsj]; exact LI_done li hsj
    | some kv =>
      obtain ⟨kj, vj⟩ := kv
      simp only [shift, hsj]
      by_cases hyes : dist cap hole (probe cap j 1) ≤ dist cap (home kj) (probe cap j 1)
      · rw [if_pos hyes]
        exact ih _ _ _ (LI_move li hsj hyes) (by omega)
      · rw [if_neg hyes]
        exact ih _ _ _ (LI_skip li hsj hyes) (by omega)

/-- removing the entry at slot `i` and shifting restores the invariant -/
theorem remove_inv {cap : Nat} {home : K → Nat} {s : Slots K V} (inv : Inv cap home s)
    {i : Nat} (hi : i < cap) {k : K} {v : V} (hs : s i = some (k, v)) :
    Inv cap home (shift cap home (upd s i none) i i cap) := by
  obtain ⟨e, he, hse⟩ := inv.hasEmpty
  have hei : e ≠ i := by intro h; rw [h, hs] at hse; cases hse
  have hli : LI cap home (upd s i none) i i e :=
    { capPos := inv.capPos, homeLt := inv.homeLt, holeLt := hi, jLt := hi, eLt := he
      holeEmpty := by simp
      eEmpty := by rw [upd_other _ _ _ _ hei]; exact hse
      ahead := by
        rw [dist_self hi]
        have : dist cap i e ≠ 0 := fun h => hei (dist_eq_zero hi he h).symm
        omega
      pathH := by
        intro x hx k' v' hsx m hm
        by_cases hxi : x = i
        · subst hxi; simp at hsx
        rw [upd_other _ _ _ _ hxi] at hsx
        by_cases hp : probe cap (home k') m = i
        · left; exact hp
        · right; unfold occ; rw [upd_other _ _ _ _ hp]; exact inv.path x hx k' v' hsx m hm
      needAhead := by
        intro x hx k' v' hsx _
        rw [dist_self hi]
        have : dist cap i x ≠ 0 := by
          intro h; have := dist_eq_zero hi hx h; subst this; simp at hsx
        omega
      distinct := by
        intro a ha b hb k' v' w' hsa hsb
        by_cases hai : a = i
        · subst hai; simp at hsa
        by_cases hbi : b = i
        · subst hbi; simp at hsb
        rw [upd_other _ _ _ _ hai] at hsa
        rw [upd_other _ _ _ _ hbi] at hsb
        exact inv.distinct a ha b hb k' v' w' hsa hsb }
  exact shift_inv cap _ _ _ hli (by have := dist_lt (a := i) (b := e) inv.capPos; omega)

end Cao.OA
