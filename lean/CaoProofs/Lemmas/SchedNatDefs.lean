import CaoProofs.Lemmas.SchedOpsC
/-!
# Schedule independence: the side condition on callbacks of the iterating host functions

`__min`, `__max` and `__sort` read the entries of the table once, when they start, and then call
back into the script for every entry (call-site stack: `… iterable keyFn value key`). The snapshot
is only referenced from the native: if a callback removes an entry from the table, the values of
that entry may become unreachable, and whether the native then pushes a dangling reference depends
on the collection schedule. `IterOk x x'` (state at the call site / state after the callback
returned) excludes this: the callback gives back the guards as they were, pops exactly its two
arguments, and the table at call-site position 3 keeps all its entries.
-/
namespace Cao.SchedFull
open Cao Cao.Vm Cao.Gc Cao.C02 Cao.C05 Cao.RunInv Cao.Native
set_option linter.unusedVariables false

/-- the host functions that iterate over a table while calling back into the script -/
def iterNames : List String := ["__min", "__max", "__sort"]

def isIter (hd : UInt32) : Bool := iterNames.any (fun n => hName n == hd)

/-- a callback made by an iterating host function left the host function's data intact -/
def IterOk (x x' : VmState) : Prop :=
  x'.guards = x.guards ∧
  x'.stack.contents = x.stack.contents.dropLast.dropLast ∧
  ∀ a cap es, x.stack.peekLast 3 = .obj a → x.heap.get a = some (.table cap es) →
    ∃ cap' es', x'.heap.get a = some (.table cap' es') ∧ ∀ e ∈ es, e ∈ es'

/-- the same as a check -/
def iterOkB (x x' : VmState) : Bool :=
  decide (x'.guards = x.guards) && decide (x'.stack.contents = x.stack.contents.dropLast.dropLast) &&
  (match x.stack.peekLast 3 with
   | .obj a =>
     match x.heap.get a with
     | some (.table _ es) =>
       match x'.heap.get a with
       | some (.table _ es') => es.all (fun e => es'.contains e)
       | _ => false
     | _ => true
   | _ => true)

theorem iterOkB_iff (x x' : VmState) : iterOkB x x' = true ↔ IterOk x x' := by
  unfold iterOkB IterOk
  simp only [Bool.and_eq_true, decide_eq_true_eq, and_assoc]
  refine and_congr_right (fun _ => and_congr_right (fun _ => ?_))
  constructor
  · intro h a cap es hp hg
    rw [hp] at h
    dsimp only at h
    rw [hg] at h
    dsimp only at h
    cases hg' : x'.heap.get a with
    | none => rw [hg'] at h; cases h
    | some o' =>
      rw [hg'] at h
      cases o' with
      | table cap' es' =>
        exact ⟨cap', es', rfl, fun e he => by simpa using List.all_eq_true.mp h e he⟩
      | str _ => cases h
      | fn _ _ => cases h
      | native _ => cases h
      | closure _ _ _ => cases h
      | upvalue _ => cases h
  · intro h
    cases hp : x.stack.peekLast 3 with
    | obj a =>
      dsimp only
      cases hg : x.heap.get a with
      | none => rfl
      | some o =>
        cases o with
        | table cap es =>
          dsimp only
          obtain ⟨cap', es', hg', hsub⟩ := h a cap es hp hg
          rw [hg']
          exact List.all_eq_true.mpr (fun e he => by simpa using hsub e he)
        | str _ => rfl
        | fn _ _ => rfl
        | native _ => rfl
        | closure _ _ _ => rfl
        | upvalue _ => rfl
    | nil => rfl
    | int _ => rfl
    | real _ => rfl

/-- every successful callback satisfies `IterOk` -/
def IterPost (re : Reenter) : Prop :=
  ∀ (f : Val) (x : VmState) (r : Val) (x' : VmState), (re f).go x = (.ok r, x') → IterOk x x'

/-- the callback `re`, checked: it fails when it disturbed the iteration -/
def wrapIter (re : Reenter) : Reenter := fun f => do
  let x ← get
  let r ← re f
  let x' ← get
  if iterOkB x x' && decide (x.stack.count ≤ x.stack.data.length) then pure r
  else throwE (.panic "callback disturbed the iteration")

end Cao.SchedFull
