import CaoProofs.Lemmas.WfLemmas
/-!
# The invariant for whole compilation units (C10)
-/
namespace Cao.Compiler.Wf
open Cao Cao.Bytecode

theorem Tr.step' {α β : Type} {k : Nat} {K H : Nat → Prop} {Q : α → Prop} {m : CM α} {f : α → CM β}
    {s s'' : CState} {b : β} (hp : Pre k K H s) (hr : (m >>= f) s = .ok (b, s'')) (hm : Tr k K Q m) :
    ∃ a s', Rel k s s' ∧ Pre k K H s' ∧ Q a ∧ f a s' = .ok (b, s'') := hm.step hp hr

theorem processFunctionCards_tr : ∀ i cs, Blk (processFunctionCards i cs)
  | _, [] => by intro k K; unfold processFunctionCards; tr
  | i, c :: cs => by
    intro k K
    have ih := processFunctionCards_tr (i + 1) cs
    have hc := processCard_tr c
    unfold processFunctionCards; tr

theorem processFunction_tr (f : FunctionIr) : Blk (processFunction f) := by
  intro k K
  have h := processFunctionCards_tr 0 f.cards
  unfold processFunction; tr

theorem compileFunctionBody_tr (f : FunctionIr) : Blk (do
    scopeBegin
    processFunction f
    scopeEnd
    pushInstr op.scalarNil
    pushInstr op.ret) := by
  intro k K
  have h := processFunction_tr f
  tr

/-- one non-main function: invariant, and its handle gets a label -/
theorem compileFunction_spec {k : Nat} {K H : Nat → Prop} {f : FunctionIr} {s s' : CState}
    (hp : Pre k K H s) (hr : compileFunction f s = .ok ((), s')) :
    Rel k s s' ∧ Pre k K H s' ∧ ∃ l ∈ s'.labels, l.1 = f.handle := by
  unfold compileFunction at hr
  obtain ⟨_, s1, r1, p1, _, hr⟩ := Tr.step' hp hr (tr_modify_other fun _ => rfl)
  rw [get_bind_run] at hr
  obtain ⟨_, s2, h2, hr⟩ := bind_ok.1 hr
  have e2 := insertLabel_ok h2
  have i2 : Inv H s2 := by rw [e2]; exact p1.inv.label _ p1.inv.tiled (Nat.le_refl _)
  have r2 : Rel k s1 s2 := by rw [e2]; exact ⟨Ext.of_eq rfl rfl, ⟨[_], rfl⟩, rfl⟩
  have p2 := p1.rel r2 i2
  obtain ⟨r3, p3, _⟩ := (compileFunctionBody_tr f k K).last p2 hr
  refine ⟨(r1.trans r2).trans r3, p3, ?_⟩
  obtain ⟨l, hl⟩ := r3.labels
  exact ⟨(f.handle, s1.bytecode.size), by rw [hl, e2]; simp, rfl⟩

theorem compileFunctions_spec {k : Nat} {K H : Nat → Prop} : ∀ (fs : List FunctionIr) {s s' : CState},
    Pre k K H s → compileFunctions fs s = .ok ((), s') →
    Rel k s s' ∧ Pre k K H s' ∧ ∀ f ∈ fs, ∃ l ∈ s'.labels, l.1 = f.handle
  | [], s, s', hp, hr => by
    unfold compileFunctions at hr
    simp only [pure_run, Except.ok.injEq, Prod.mk.injEq] at hr
    obtain ⟨_, rfl⟩ := hr
    exact ⟨Rel.refl _ _, hp, fun f hf => by cases hf⟩
  | f :: fs, s, s', hp, hr => by
    unfold compileFunctions at hr
    obtain ⟨_, s1, h1, h2⟩ := bind_ok.1 hr
    obtain ⟨r1, p1, l1⟩ := compileFunction_spec hp h1
    obtain ⟨r2, p2, l2⟩ := compileFunctions_spec fs p1 h2
    refine ⟨r1.trans r2, p2, ?_⟩
    intro g hg
    rcases List.mem_cons.1 hg with rfl | hg
    · obtain ⟨l, hl, e⟩ := l1
      obtain ⟨ls, hls⟩ := r2.labels
      exact ⟨l, by rw [hls]; exact List.mem_append_left _ hl, e⟩
    · exact l2 g hg

/-- `addFunctions` only extends the jump table -/
theorem addFunctions_spec : ∀ (fs : List FunctionIr) {s s' : CState}, addFunctions fs s = .ok ((), s') →
    s' = { s with jumpTable := s.jumpTable ++
      (fs.map fun f => (f.fullName, (f.handle, UInt32.ofNat f.arguments.length))) }
  | [], s, s', hr => by
    unfold addFunctions at hr
    simp only [pure_run, Except.ok.injEq, Prod.mk.injEq] at hr
    obtain ⟨_, rfl⟩ := hr
    simp
  | f :: fs, s, s', hr => by
    unfold addFunctions addFunction at hr
    obtain ⟨_, s1, h1, h2⟩ := bind_ok.1 hr
    rw [get_bind_run] at h1
    split at h1
    · rw [fail_bind_run] at h1; cases h1
    · simp only [modify_run, Except.ok.injEq, Prod.mk.injEq] at h1
      obtain ⟨_, rfl⟩ := h1
      rw [addFunctions_spec fs h2]
      simp

theorem _root_.Cao.Compiler.Inv.jumpTable {H : Nat → Prop} {s : CState} (hI : Inv H s) (j : List (String × (UInt32 × UInt32))) :
    Inv H { s with jumpTable := s.jumpTable ++ j } :=
  hI.tables rfl ⟨Nat.le_refl _, fun _ _ => rfl, ⟨#[], by simp⟩, fun _ h => h, fun _ h => h, Nat.le_refl _,
    fun e he => List.mem_append_left _ he⟩ (fun l hl => .inl hl) (fun _ h => h)
    (hI.aux.of_eq rfl rfl rfl rfl rfl (Nat.le_refl _))

/-- the initial state satisfies the invariant -/
theorem _root_.Cao.Compiler.Inv.init : Inv (fun _ => False) ({} : CState) := by
  refine ⟨.nil _, ?_, ?_, ?_, ?_⟩
  · intro p n _ h; simp at h
  · intro l hl; cases hl
  · intro t ht; cases ht
  · refine ⟨?_, ?_, rfl, .nil, ?_, fun _ => rfl, Nat.le_refl _⟩
    · intro ls hls
      simp only [List.mem_singleton] at hls
      rw [hls]; exact Nat.zero_le _
    · intro us hus
      simp only [List.mem_singleton] at hus
      rw [hus]; exact Nat.zero_le _
    · intro i hi; simp at hi

/-- what a successful `compileUnit` from the initial state establishes -/
structure UnitSpec (unit : Array FunctionIr) (s' : CState) : Prop where
  /-- the state before the final `Exit` -/
  before : ∃ sB, Inv (fun _ => False) sB ∧ s' = afterInstr sB op.exit []
  inv : Inv (fun _ => False) s'
  jt : s'.jumpTable = unit.toList.map fun f => (f.fullName, (f.handle, UInt32.ofNat f.arguments.length))
  fnLabels : ∀ f ∈ unit.toList.drop 1, ∃ l ∈ s'.labels, l.1 = f.handle

theorem compileUnit_spec {unit : Array FunctionIr} {s' : CState}
    (hr : (compileUnit unit).run {} = .ok ((), s')) : UnitSpec unit s' := by
  change compileUnit unit {} = _ at hr
  unfold compileUnit at hr
  split at hr
  · rw [fail_bind_run] at hr; cases hr
  · obtain ⟨_, s1, h1, hr⟩ := bind_ok.1 hr
    have e1 := addFunctions_spec _ h1
    have i1 : Inv (fun _ => False) s1 := by rw [e1]; exact Inv.init.jumpTable _
    have p1 : Pre 0 (fun _ => False) (fun _ => False) s1 := ⟨Nat.zero_le _, i1, fun t ht => ht.elim⟩
    have hmain := processFunction_tr unit[0]!
    have habort := processCard_tr .abort
    obtain ⟨_, s2, r2, p2, _, hr⟩ := Tr.step' p1 hr (tr_modify_other fun _ => rfl)
    obtain ⟨_, s3, r3, p3, _, hr⟩ := scopeBegin_tr.step p2 hr
    obtain ⟨_, s4, r4, p4, _, hr⟩ := (hmain _ _).step p3 hr
    obtain ⟨_, s5, r5, p5, _, hr⟩ := Tr.step' p4 hr (tr_modify_other fun _ => rfl)
    obtain ⟨_, s6, r6, p6, _, hr⟩ := scopeEnd_tr.step p5 hr
    obtain ⟨_, s7, r7, p7, _, hr⟩ := (habort _ _).step p6 hr
    obtain ⟨_, s8, h8, hr⟩ := bind_ok.1 hr
    obtain ⟨r8, p8, l8⟩ := compileFunctions_spec _ p7 h8
    obtain ⟨_, s9, r9, p9, _, hr⟩ := Tr.step' p8 hr (tr_modify_other fun _ => rfl)
    rw [pushInstr_run] at hr
    simp only [Except.ok.injEq, Prod.mk.injEq] at hr
    obtain ⟨_, rfl⟩ := hr
    have rel : Rel 0 s1 s9 := ((((((r2.trans r3).trans r4).trans r5).trans r6).trans r7).trans r8).trans r9
    refine ⟨⟨s9, p9.inv, rfl⟩, p9.inv.afterInstr (by decide) (.plain (by decide) (afterInstr_trace ..)), ?_, ?_⟩
    · show s9.jumpTable = _
      rw [rel.jt, e1]; simp
    · intro f hf
      obtain ⟨l, hl, e⟩ := l8 f hf
      obtain ⟨ls, hls⟩ := r9.labels
      exact ⟨l, by show l ∈ s9.labels; rw [hls]; exact List.mem_append_left _ hl, e⟩

end Cao.Compiler.Wf
