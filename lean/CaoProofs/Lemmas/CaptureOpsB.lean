import CaoProofs.Lemmas.CaptureStep
/-!
# One instruction keeps the capture invariant: the plain opcodes (B)
-/
namespace Cao.Vm
set_option linter.unusedSectionVars false
set_option linter.unusedVariables false

variable {p : Prog} {G : Nat → Prop} {lvl cnt : Nat → Nat} {E : ErrKind → Prop} [ErrClass E]
  {re : Reenter} {W0 : List (Option Nat × Nat)} {fs0 : List Frame} {l : Frame} {src : Nat}

theorem st_op_nativeFunctionPointer (hs : CapStatic p G lvl cnt) (hsrc : G src)
    (hre : ReSpecS re (InvX p lvl none (W0 ++ [(l.closure, lvl src)]) (fs0 ++ [l])) E)
    (hop : p.bytecode.getD src 0 = Compiler.op.nativeFunctionPointer) :
    St (InvX p lvl none (W0 ++ [(l.closure, lvl src)]) (fs0 ++ [l])) (step p re src)
      (StepQ p lvl W0 fs0 l src) E := by
  st_op hop
  all_goals q_seq hs, hsrc, hop, 5

theorem st_op_scalarInt (hs : CapStatic p G lvl cnt) (hsrc : G src)
    (hre : ReSpecS re (InvX p lvl none (W0 ++ [(l.closure, lvl src)]) (fs0 ++ [l])) E)
    (hop : p.bytecode.getD src 0 = Compiler.op.scalarInt) :
    St (InvX p lvl none (W0 ++ [(l.closure, lvl src)]) (fs0 ++ [l])) (step p re src)
      (StepQ p lvl W0 fs0 l src) E := by
  st_op hop
  all_goals q_seq hs, hsrc, hop, 9

theorem st_op_scalarFloat (hs : CapStatic p G lvl cnt) (hsrc : G src)
    (hre : ReSpecS re (InvX p lvl none (W0 ++ [(l.closure, lvl src)]) (fs0 ++ [l])) E)
    (hop : p.bytecode.getD src 0 = Compiler.op.scalarFloat) :
    St (InvX p lvl none (W0 ++ [(l.closure, lvl src)]) (fs0 ++ [l])) (step p re src)
      (StepQ p lvl W0 fs0 l src) E := by
  st_op hop
  all_goals q_seq hs, hsrc, hop, 9

theorem st_op_not (hs : CapStatic p G lvl cnt) (hsrc : G src)
    (hre : ReSpecS re (InvX p lvl none (W0 ++ [(l.closure, lvl src)]) (fs0 ++ [l])) E)
    (hop : p.bytecode.getD src 0 = Compiler.op.not) :
    St (InvX p lvl none (W0 ++ [(l.closure, lvl src)]) (fs0 ++ [l])) (step p re src)
      (StepQ p lvl W0 fs0 l src) E := by
  st_op hop
  all_goals q_seq hs, hsrc, hop, 1

theorem st_op_stringLiteral (hs : CapStatic p G lvl cnt) (hsrc : G src)
    (hre : ReSpecS re (InvX p lvl none (W0 ++ [(l.closure, lvl src)]) (fs0 ++ [l])) E)
    (hop : p.bytecode.getD src 0 = Compiler.op.stringLiteral) :
    St (InvX p lvl none (W0 ++ [(l.closure, lvl src)]) (fs0 ++ [l])) (step p re src)
      (StepQ p lvl W0 fs0 l src) E := by
  st_op hop
  all_goals q_seq hs, hsrc, hop, 5

theorem st_op_callNative (hs : CapStatic p G lvl cnt) (hsrc : G src)
    (hre : ReSpecS re (InvX p lvl none (W0 ++ [(l.closure, lvl src)]) (fs0 ++ [l])) E)
    (hop : p.bytecode.getD src 0 = Compiler.op.callNative) :
    St (InvX p lvl none (W0 ++ [(l.closure, lvl src)]) (fs0 ++ [l])) (step p re src)
      (StepQ p lvl W0 fs0 l src) E := by
  st_op hop
  all_goals q_seq hs, hsrc, hop, 5

theorem st_op_len (hs : CapStatic p G lvl cnt) (hsrc : G src)
    (hre : ReSpecS re (InvX p lvl none (W0 ++ [(l.closure, lvl src)]) (fs0 ++ [l])) E)
    (hop : p.bytecode.getD src 0 = Compiler.op.len) :
    St (InvX p lvl none (W0 ++ [(l.closure, lvl src)]) (fs0 ++ [l])) (step p re src)
      (StepQ p lvl W0 fs0 l src) E := by
  st_op hop
  all_goals q_seq hs, hsrc, hop, 1

theorem st_op_nthRow (hs : CapStatic p G lvl cnt) (hsrc : G src)
    (hre : ReSpecS re (InvX p lvl none (W0 ++ [(l.closure, lvl src)]) (fs0 ++ [l])) E)
    (hop : p.bytecode.getD src 0 = Compiler.op.nthRow) :
    St (InvX p lvl none (W0 ++ [(l.closure, lvl src)]) (fs0 ++ [l])) (step p re src)
      (StepQ p lvl W0 fs0 l src) E := by
  st_op hop
  all_goals q_seq hs, hsrc, hop, 1

theorem st_op_appendTable (hs : CapStatic p G lvl cnt) (hsrc : G src)
    (hre : ReSpecS re (InvX p lvl none (W0 ++ [(l.closure, lvl src)]) (fs0 ++ [l])) E)
    (hop : p.bytecode.getD src 0 = Compiler.op.appendTable) :
    St (InvX p lvl none (W0 ++ [(l.closure, lvl src)]) (fs0 ++ [l])) (step p re src)
      (StepQ p lvl W0 fs0 l src) E := by
  st_op hop
  all_goals q_seq hs, hsrc, hop, 1

theorem st_op_setUpvalue (hs : CapStatic p G lvl cnt) (hsrc : G src)
    (hre : ReSpecS re (InvX p lvl none (W0 ++ [(l.closure, lvl src)]) (fs0 ++ [l])) E)
    (hop : p.bytecode.getD src 0 = Compiler.op.setUpvalue) :
    St (InvX p lvl none (W0 ++ [(l.closure, lvl src)]) (fs0 ++ [l])) (step p re src)
      (StepQ p lvl W0 fs0 l src) E := by
  st_op hop
  all_goals q_seq hs, hsrc, hop, 5

theorem st_op_readUpvalue (hs : CapStatic p G lvl cnt) (hsrc : G src)
    (hre : ReSpecS re (InvX p lvl none (W0 ++ [(l.closure, lvl src)]) (fs0 ++ [l])) E)
    (hop : p.bytecode.getD src 0 = Compiler.op.readUpvalue) :
    St (InvX p lvl none (W0 ++ [(l.closure, lvl src)]) (fs0 ++ [l])) (step p re src)
      (StepQ p lvl W0 fs0 l src) E := by
  st_op hop
  all_goals q_seq hs, hsrc, hop, 5

theorem st_op_closeUpvalue (hs : CapStatic p G lvl cnt) (hsrc : G src)
    (hre : ReSpecS re (InvX p lvl none (W0 ++ [(l.closure, lvl src)]) (fs0 ++ [l])) E)
    (hop : p.bytecode.getD src 0 = Compiler.op.closeUpvalue) :
    St (InvX p lvl none (W0 ++ [(l.closure, lvl src)]) (fs0 ++ [l])) (step p re src)
      (StepQ p lvl W0 fs0 l src) E := by
  st_op hop
  all_goals q_seq hs, hsrc, hop, 1

end Cao.Vm
