import CaoModel.Card
import Std.Data.String.ToInt
/-!
# Round trip of the token syntax of source cards / functions / modules

Printer and fuel-based recursive-descent parser are those of `CaoModel/Card.lean`.
Everything here is proved outright (no hypotheses about core string functions are left open):

* `card_tok_roundtrip   : Card.ofTok? (Card.toTok c) = some c`
* `module_tok_roundtrip : Module.ofTok? (Module.toTok m) = some m`
* corollaries `Card.toTok_injective`, `Module.toTok_injective`.

Structure: all reasoning is on `List Char` (`tokL`, `funcL`, `modL`, `interc`).
1. scanner lemmas "parser applied to `printed ++ rest` returns `(value, rest)`" where `rest`
   satisfies `Stop` (empty or starts with `,` `)` `]`): `ident_kw`, `hexName_spec`, `optName_spec`,
   `intLit_spec`, `natOfHex_hexOfNat64`, `listOf_spec`;
2. generalised parser theorems `card_spec`, `func_spec`, `module_spec` by induction on the fuel
   with the fuel measures `cardSize`, `funcSize`, `modSize`;
3. fuel adequacy `cardSize_le_length`, `modSize_le_length`: the measure is bounded by the length
   of the printed string, so the fuel `s.length + 1` of `ofTok?` suffices.

Besides `CaoModel.Card` only the toolchain's own `Std.Data.String.ToInt` is imported
(for `Int.toInt?_repr : a.repr.toInt? = some a`).
-/
namespace Cao.Serde
open Cao Cao.Parse

/-! ## what may follow a printed item -/

/-- The remaining input after a printed item: end of input or one of the separators `,` `)` `]`. -/
def Stop : List Char → Prop
  | [] => True
  | c :: _ => c = ',' ∨ c = ')' ∨ c = ']'

theorem Stop.nil : Stop [] := trivial
theorem Stop.comma (t : List Char) : Stop (',' :: t) := Or.inl rfl
theorem Stop.paren (t : List Char) : Stop (')' :: t) := Or.inr (Or.inl rfl)
theorem Stop.brack (t : List Char) : Stop (']' :: t) := Or.inr (Or.inr rfl)

theorem Stop.notAlpha {rest : List Char} (h : Stop rest) :
    ∀ c t, rest = c :: t → c.isAlpha = false := by
  intro c t e; subst e
  rcases h with h | h | h <;> subst h <;> decide

theorem Stop.notHex {rest : List Char} (h : Stop rest) :
    ∀ c t, rest = c :: t → (Val.hexVal? c).isSome = false := by
  intro c t e; subst e
  rcases h with h | h | h <;> subst h <;> decide

theorem Stop.notDigit {rest : List Char} (h : Stop rest) :
    ∀ c t, rest = c :: t → (c.isDigit || c == '-') = false := by
  intro c t e; subst e
  rcases h with h | h | h <;> subst h <;> decide

/-! ## `ident` -/

theorem ident_go (w rest acc : List Char) (ha : ∀ c ∈ w, c.isAlpha = true)
    (hr : ∀ c t, rest = c :: t → c.isAlpha = false) :
    ident.go (w ++ rest) acc = (acc.reverse ++ w, rest) := by
  induction w generalizing acc with
  | nil =>
    cases rest with
    | nil => simp [ident.go]
    | cons c t => simp [ident.go, hr c t rfl]
  | cons c w ih =>
    have hc : c.isAlpha = true := ha c (by simp)
    have ih' := ih (c :: acc) (fun d h => ha d (List.mem_cons_of_mem _ h))
    simp [ident.go, hc, ih']

/-- `ident` reads a non-empty alphabetic word that is followed by a non-alphabetic character. -/
theorem ident_word (w rest : List Char) (hw : w ≠ []) (ha : ∀ c ∈ w, c.isAlpha = true)
    (hr : ∀ c t, rest = c :: t → c.isAlpha = false) :
    ident (w ++ rest) = some (String.ofList w, rest) := by
  simp [ident, ident_go w rest [] ha hr, hw]

/-- all keywords of the token syntax -/
def keywords : List String :=
  ["add","sub","mul","div","less","lesseq","eq","neq","and","or","xor","getprop","iftrue","iffalse",
   "while","get","append","not","return","len","pop","ifelse","setprop",
   "nil","table","abort","int","float","str","comment","function","nativefn","readvar","setvar",
   "setglobal","callnative","call","repeat","foreach","composite","dyncall","array","closure",
   "fn","mod","sub"]

theorem keywords_alpha : ∀ s ∈ keywords, s.toList ≠ [] ∧ ∀ c ∈ s.toList, c.isAlpha = true := by
  decide

theorem ident_kw (s : String) (hs : s ∈ keywords) (rest : List Char)
    (hr : ∀ c t, rest = c :: t → c.isAlpha = false) :
    ident (s.toList ++ rest) = some (s, rest) := by
  have h := keywords_alpha s hs
  rw [ident_word _ _ h.1 h.2 hr, String.ofList_toList]

theorem ident_kw_paren (s : String) (hs : s ∈ keywords) (rest : List Char) :
    ident (s.toList ++ '(' :: rest) = some (s, '(' :: rest) :=
  ident_kw s hs _ (by intro c t e; cases e; decide)

/-! ## hex digits, `hexName`, `optName` -/

theorem hexVal_hexDigit : ∀ d, d < 16 → Val.hexVal? (Val.hexDigit d) = some d := by decide

/-- list-level rendering of a byte string: two lower-case hex digits per byte -/
def hexL (bs : List UInt8) : List Char :=
  bs.flatMap (fun x => [Val.hexDigit (x.toNat / 16), Val.hexDigit (x.toNat % 16)])

theorem hexOfNat_two (n : Nat) :
    (Val.hexOfNat n 2).toList = [Val.hexDigit (n / 16 % 16), Val.hexDigit (n % 16)] := by
  have : (List.range 2).reverse = [1, 0] := by decide
  simp [Val.hexOfNat, this]

theorem hexStr_toList (s : String) : (hexStr s).toList = '$' :: hexL s.toByteArray.toList := by
  have : ∀ bs : List UInt8,
      List.flatMap String.toList (bs.map (fun x => Val.hexOfNat x.toNat 2)) = hexL bs := by
    intro bs
    induction bs with
    | nil => rfl
    | cons x bs ih =>
      have hx : x.toNat / 16 % 16 = x.toNat / 16 := by
        have := x.toNat_lt; omega
      simp only [List.map_cons, List.flatMap_cons, ih, hexOfNat_two, hexL, hx]
  simp [hexStr, String.toList_append, this]

theorem hexL_hex (bs : List UInt8) : ∀ c ∈ hexL bs, (Val.hexVal? c).isSome = true := by
  intro c hc
  simp only [hexL, List.mem_flatMap] at hc
  obtain ⟨x, _, hx⟩ := hc
  have h1 : x.toNat / 16 < 16 := by have := x.toNat_lt; omega
  have h2 : x.toNat % 16 < 16 := by omega
  simp only [List.mem_cons, List.not_mem_nil, or_false] at hx
  rcases hx with rfl | rfl
  · simp [hexVal_hexDigit _ h1]
  · simp [hexVal_hexDigit _ h2]

theorem hexName_go (w rest acc : List Char) (ha : ∀ c ∈ w, (Val.hexVal? c).isSome = true)
    (hr : ∀ c t, rest = c :: t → (Val.hexVal? c).isSome = false) :
    hexName.go (w ++ rest) acc = (acc.reverse ++ w, rest) := by
  induction w generalizing acc with
  | nil =>
    cases rest with
    | nil => simp [hexName.go]
    | cons c t => simp [hexName.go, hr c t rfl]
  | cons c w ih =>
    have hc := ha c (by simp)
    have ih' := ih (c :: acc) (fun d h => ha d (List.mem_cons_of_mem _ h))
    simp [hexName.go, hc, ih']

theorem hexName_bytes (bs : List UInt8) : hexName.bytes (hexL bs) = some bs := by
  induction bs with
  | nil => simp [hexL, hexName.bytes]
  | cons x bs ih =>
    have h1 : x.toNat / 16 < 16 := by have := x.toNat_lt; omega
    have h2 : x.toNat % 16 < 16 := by omega
    have e : x.toNat / 16 * 16 + x.toNat % 16 = x.toNat := by omega
    have ih' : hexName.bytes (List.flatMap (fun x => [Val.hexDigit (x.toNat / 16), Val.hexDigit (x.toNat % 16)]) bs) = some bs := ih
    simp [hexL, hexName.bytes, hexVal_hexDigit _ h1, hexVal_hexDigit _ h2, ih', e]

theorem byteArray_toList_loop (bs : ByteArray) (n : Nat) : ∀ (i : Nat) (r : List UInt8),
    bs.size - i = n → i ≤ bs.size →
    ByteArray.toList.loop bs i r = r.reverse ++ bs.data.toList.drop i := by
  induction n with
  | zero =>
    intro i r h hi
    have : i = bs.size := by omega
    subst this
    rw [ByteArray.toList.loop, if_neg (Nat.lt_irrefl _)]
    have : List.drop bs.size bs.data.toList = [] := List.drop_of_length_le (Nat.le_refl _)
    rw [this, List.append_nil]
  | succ n ih =>
    intro i r h hi
    have hlt : i < bs.size := by omega
    rw [ByteArray.toList.loop, if_pos hlt]
    rw [ih (i+1) _ (by omega) (by omega)]
    have hlt' : i < bs.data.toList.length := hlt
    rw [List.drop_eq_getElem_cons hlt']
    have hlt'' : i < bs.data.size := hlt
    have : bs.get! i = bs.data.toList[i] := by
      simp only [ByteArray.get!]
      rw [getElem!_pos bs.data i hlt'']; simp
    simp [this]

theorem byteArray_toList (bs : ByteArray) : bs.toList = bs.data.toList := by
  simp [ByteArray.toList, byteArray_toList_loop bs bs.size 0 [] rfl (Nat.zero_le _)]

theorem fromUTF8_toUTF8 (s : String) :
    String.fromUTF8? (ByteArray.mk s.toByteArray.toList.toArray) = some s := by
  have : ByteArray.mk s.toByteArray.toList.toArray = s.toByteArray := by
    rw [byteArray_toList]
  rw [this]
  simp [String.fromUTF8?, s.isValidUTF8, String.fromUTF8]

/-- `hexName` reads back a printed name that is followed by a non-hex character. -/
theorem hexName_spec (s : String) (rest : List Char)
    (hr : ∀ c t, rest = c :: t → (Val.hexVal? c).isSome = false) :
    hexName ((hexStr s).toList ++ rest) = some (s, rest) := by
  rw [hexStr_toList]
  simp only [List.cons_append, hexName]
  rw [hexName_go _ _ _ (hexL_hex _) hr]
  simp only [List.reverse_nil, List.nil_append, hexName_bytes, fromUTF8_toUTF8]

theorem optName_spec (o : Option String) (rest : List Char)
    (hr : ∀ c t, rest = c :: t → (Val.hexVal? c).isSome = false) :
    optName ((optHex o).toList ++ rest) = some (o, rest) := by
  cases o with
  | none => simp [optHex, optName]
  | some s =>
    have h := hexName_spec s rest hr
    rw [hexStr_toList] at h
    simp only [optHex, hexStr_toList, List.cons_append, optName] at h ⊢
    simp [h]

/-! ## `intLit` -/

theorem intLit_go (w rest acc : List Char) (ha : ∀ c ∈ w, (c.isDigit || c == '-') = true)
    (hr : ∀ c t, rest = c :: t → (c.isDigit || c == '-') = false) :
    intLit.go (w ++ rest) acc = (acc.reverse ++ w, rest) := by
  induction w generalizing acc with
  | nil =>
    cases rest with
    | nil => simp [intLit.go]
    | cons c t =>
      have := hr c t rfl
      rw [List.nil_append, intLit.go, if_neg (by simp [this])]; simp
  | cons c w ih =>
    have hc := ha c (by simp)
    have ih' := ih (c :: acc) (fun d h => ha d (List.mem_cons_of_mem _ h))
    rw [List.cons_append, intLit.go, if_pos hc, ih']; simp

theorem int_repr_chars (i : Int) : ∀ c ∈ (toString i).toList, (c.isDigit || c == '-') = true := by
  intro c hc
  rw [Int.toString_eq_repr, Int.repr_eq_if] at hc
  have hd : ∀ n : Nat, c ∈ n.repr.toList → c.isDigit = true := fun n h => by
    rw [Nat.toList_repr] at h
    exact Nat.isDigit_of_mem_toDigits (by decide) (by decide) h
  split at hc
  · simp [hd _ hc]
  · rw [String.toList_append] at hc
    rcases List.mem_append.1 hc with h | h
    · have : c = '-' := by simpa using h
      subst this; decide
    · simp [hd _ h]

/-- `intLit` reads back a printed integer followed by a non-digit, non-minus character. -/
theorem intLit_spec (i : Int) (rest : List Char)
    (hr : ∀ c t, rest = c :: t → (c.isDigit || c == '-') = false) :
    intLit ('#' :: ((toString i).toList ++ rest)) = some (i, rest) := by
  simp only [intLit]
  rw [intLit_go _ _ _ (int_repr_chars i) hr]
  simp only [List.reverse_nil, List.nil_append, String.ofList_toList]
  rw [Int.toString_eq_repr, Int.toInt?_repr]; rfl

/-! ## 16-digit hex words (`float`) -/

theorem hexOfNat_toList (n w : Nat) :
    (Val.hexOfNat n w).toList = (List.range w).reverse.map (fun i => Val.hexDigit ((n / 16 ^ i) % 16)) := by
  simp [Val.hexOfNat]

theorem hexOfNat_length (n w : Nat) : (Val.hexOfNat n w).toList.length = w := by
  simp [hexOfNat_toList]

theorem hex_foldl (n : Nat) (f : Option Nat → Char → Option Nat)
    (hf : ∀ a c d, Val.hexVal? c = some d → f (some a) c = some (a * 16 + d)) : ∀ (w a : Nat),
    ((List.range w).reverse.map (fun i => Val.hexDigit ((n / 16 ^ i) % 16))).foldl f (some a)
      = some (a * 16 ^ w + n % 16 ^ w) := by
  intro w
  induction w with
  | zero => intro a; simp [Nat.mod_one]
  | succ w ih =>
    intro a
    have hd : n / 16 ^ w % 16 < 16 := Nat.mod_lt _ (by decide)
    rw [List.range_succ, List.reverse_append]
    simp only [List.reverse_cons, List.reverse_nil, List.nil_append, List.singleton_append,
      List.map_cons, List.foldl_cons, hf _ _ _ (hexVal_hexDigit _ hd)]
    rw [ih]
    congr 1
    rw [Nat.mod_pow_succ, Nat.pow_succ]
    generalize 16 ^ w = p
    generalize n % p = m
    generalize n / p % 16 = d
    rw [Nat.add_mul]
    ac_rfl

theorem natOfHex_hexOfNat (n w : Nat) (hw : 0 < w) :
    Val.natOfHex? (Val.hexOfNat n w) = some (n % 16 ^ w) := by
  have hne : (Val.hexOfNat n w).isEmpty = false := by
    have h := hexOfNat_length n w
    cases hb : (Val.hexOfNat n w).isEmpty with
    | false => rfl
    | true =>
      have : Val.hexOfNat n w = "" := by simpa using hb
      rw [this] at h; simp at h; omega
  rw [Val.natOfHex?, hne, hexOfNat_toList]
  simp only [Bool.false_eq_true, if_false]
  rw [hex_foldl n _ (by intro a c d h; simp [h])]; simp

theorem natOfHex_hexOfNat64 (b : UInt64) :
    Val.natOfHex? (Val.hexOfNat b.toNat 16) = some b.toNat := by
  rw [natOfHex_hexOfNat _ _ (by decide), Nat.mod_eq_of_lt]
  exact b.toNat_lt

/-! ## comma separated lists -/

/-- list-level `",".intercalate` -/
def interc : List (List Char) → List Char
  | [] => []
  | [x] => x
  | x :: y :: r => x ++ ',' :: interc (y :: r)

theorem intercalate_toList (l : List String) :
    (",".intercalate l).toList = interc (l.map String.toList) := by
  induction l with
  | nil => simp [interc]
  | cons x l ih =>
    cases l with
    | nil => simp [interc]
    | cons y l =>
      rw [String.intercalate_cons_cons]
      simp only [String.toList_append, ih, List.map_cons, interc]
      simp

theorem bracketToks_toList (l : List String) :
    (bracketToks l).toList = '[' :: (interc (l.map String.toList) ++ [']']) := by
  have h1 : "[".toList = ['['] := by decide
  have h2 : "]".toList = [']'] := by decide
  rw [bracketToks, String.toList_append, String.toList_append, intercalate_toList, h1, h2]
  rfl

theorem listOf_go {α : Type} (p : P α) (tok : α → List Char) (rest : List Char) :
    ∀ (xs : List α) (x : α) (f : Nat) (acc : List α), xs.length + 1 ≤ f →
    (∀ y ∈ x :: xs, ∀ r, Stop r → p (tok y ++ r) = some (y, r)) →
    listOf.go p f (interc ((x :: xs).map tok) ++ ']' :: rest) acc
      = some (acc.reverse ++ x :: xs, rest) := by
  intro xs
  induction xs with
  | nil =>
    intro x f acc hf hp
    obtain ⟨f, rfl⟩ : ∃ g, f = g + 1 := ⟨f - 1, by simp at hf; omega⟩
    have := hp x (by simp) (']' :: rest) (Stop.brack _)
    simp [interc, listOf.go, this]
  | cons y ys ih =>
    intro x f acc hf hp
    obtain ⟨f, rfl⟩ : ∃ g, f = g + 1 := ⟨f - 1, by simp at hf; omega⟩
    have h1 := hp x (by simp) (',' :: (interc ((y :: ys).map tok) ++ ']' :: rest)) (Stop.comma _)
    have h2 := ih y f (x :: acc) (by simp at hf ⊢; omega)
      (fun z hz => hp z (List.mem_cons_of_mem _ hz))
    simp only [List.map_cons, interc, List.append_assoc, List.cons_append] at h1 h2 ⊢
    simp [listOf.go, h1, h2]

/-- `listOf p` reads back a printed bracket list when `p` reads back every element
    (followed by a separator), `p` rejects input starting with `]`, and the fuel covers the length. -/
theorem listOf_spec {α : Type} (p : P α) (tok : α → List Char) (xs : List α) (fuel : Nat)
    (rest : List Char) (hlen : xs.length ≤ fuel + 1)
    (hbr : ∀ t, p (']' :: t) = none)
    (hp : ∀ y ∈ xs, ∀ r, Stop r → p (tok y ++ r) = some (y, r)) :
    listOf p (fuel + 1) ('[' :: (interc (xs.map tok) ++ ']' :: rest)) = some (xs, rest) := by
  cases xs with
  | nil => simp [interc, listOf]
  | cons x xs =>
    have hg := listOf_go p tok rest xs x (fuel + 1) [] (by simpa using hlen) hp
    have : ∃ r', Stop r' ∧ interc ((x :: xs).map tok) ++ ']' :: rest = tok x ++ r' := by
      cases xs with
      | nil => exact ⟨']' :: rest, Stop.brack _, by simp [interc]⟩
      | cons y ys =>
        exact ⟨',' :: (interc ((y :: ys).map tok) ++ ']' :: rest), Stop.comma _, by simp [interc]⟩
    obtain ⟨r', hs, hr'⟩ := this
    have hpx := hp x (by simp) r' hs
    rw [hr'] at hg ⊢
    cases hx : tok x ++ r' with
    | nil => rw [hx] at hg; simpa [listOf] using hg
    | cons c t' =>
      rw [hx] at hg hpx
      have hne : c ≠ ']' := by
        rintro rfl
        rw [hbr] at hpx; cases hpx
      simp only [listOf]
      split
      · rename_i heq; simp at heq; exact absurd heq.1 hne
      · rename_i heq; simp at heq; subst heq; simpa using hg
      · rename_i h1 h2; exact absurd rfl (h2 _)

/-! ## list-level printer for cards -/

/-- keyword as a character list (kept opaque for `simp`) -/
def kw (s : String) : List Char := s.toList

/-- printed card as a character list -/
def tokL (c : Card) : List Char := c.toTok.toList

/-- printed name as a character list -/
def nameL (s : String) : List Char := (hexStr s).toList

theorem toToks_eq_map (cs : List Card) : Card.toToks cs = cs.map Card.toTok := by
  induction cs with
  | nil => rfl
  | cons c cs ih => show c.toTok :: Card.toToks cs = _; rw [ih]; rfl

theorem cardsL (cs : List Card) :
    (bracketToks (Card.toToks cs)).toList = '[' :: (interc (cs.map tokL) ++ [']']) := by
  rw [bracketToks_toList, toToks_eq_map, List.map_map]; rfl

theorem namesL (l : List String) :
    (",".intercalate (l.map hexStr)).toList = interc (l.map nameL) := by
  rw [intercalate_toList, List.map_map]; rfl

section eqns
variable (a b c : Card) (s : String) (cs : List Card)

theorem tokL_bin (k : BinKind) : tokL (.bin k a b) = kw k.name ++ '(' :: (tokL a ++ ',' :: (tokL b ++ [')'])) := by
  show (k.name ++ "(" ++ a.toTok ++ "," ++ b.toTok ++ ")").toList = _
  simp [kw, tokL, String.toList_append]
theorem tokL_un (k : UnKind) : tokL (.un k a) = kw k.name ++ '(' :: (tokL a ++ [')']) := by
  show (k.name ++ "(" ++ a.toTok ++ ")").toList = _
  simp [kw, tokL, String.toList_append]
theorem tokL_tri (k : TriKind) : tokL (.tri k a b c) =
    kw k.name ++ '(' :: (tokL a ++ ',' :: (tokL b ++ ',' :: (tokL c ++ [')']))) := by
  show (k.name ++ "(" ++ a.toTok ++ "," ++ b.toTok ++ "," ++ c.toTok ++ ")").toList = _
  simp [kw, tokL, String.toList_append]
theorem tokL_nil : tokL .scalarNil = kw "nil" := rfl
theorem tokL_table : tokL .createTable = kw "table" := rfl
theorem tokL_abort : tokL .abort = kw "abort" := rfl
theorem tokL_int (i : Int64) : tokL (.scalarInt i) = kw "int" ++ '(' :: '#' :: ((toString i.toInt).toList ++ [')']) := by
  show ("int(#" ++ toString i.toInt ++ ")").toList = _
  simp [kw, String.toList_append]
theorem tokL_float (x : UInt64) : tokL (.scalarFloat x) =
    kw "float" ++ '(' :: '$' :: ((Val.hexOfNat x.toNat 16).toList ++ [')']) := by
  show ("float($" ++ Val.hexOfNat x.toNat 16 ++ ")").toList = _
  simp [kw, String.toList_append]
theorem tokL_str : tokL (.stringLiteral s) = kw "str" ++ '(' :: (nameL s ++ [')']) := by
  show ("str(" ++ hexStr s ++ ")").toList = _
  simp [kw, nameL, String.toList_append]
theorem tokL_comment : tokL (.comment s) = kw "comment" ++ '(' :: (nameL s ++ [')']) := by
  show ("comment(" ++ hexStr s ++ ")").toList = _
  simp [kw, nameL, String.toList_append]
theorem tokL_function : tokL (.function s) = kw "function" ++ '(' :: (nameL s ++ [')']) := by
  show ("function(" ++ hexStr s ++ ")").toList = _
  simp [kw, nameL, String.toList_append]
theorem tokL_nativefn : tokL (.nativeFunction s) = kw "nativefn" ++ '(' :: (nameL s ++ [')']) := by
  show ("nativefn(" ++ hexStr s ++ ")").toList = _
  simp [kw, nameL, String.toList_append]
theorem tokL_readvar : tokL (.readVar s) = kw "readvar" ++ '(' :: (nameL s ++ [')']) := by
  show ("readvar(" ++ hexStr s ++ ")").toList = _
  simp [kw, nameL, String.toList_append]
theorem tokL_setvar : tokL (.setVar s a) = kw "setvar" ++ '(' :: (nameL s ++ ',' :: (tokL a ++ [')'])) := by
  show ("setvar(" ++ hexStr s ++ "," ++ a.toTok ++ ")").toList = _
  simp [kw, nameL, tokL, String.toList_append]
theorem tokL_setglobal : tokL (.setGlobalVar s a) =
    kw "setglobal" ++ '(' :: (nameL s ++ ',' :: (tokL a ++ [')'])) := by
  show ("setglobal(" ++ hexStr s ++ "," ++ a.toTok ++ ")").toList = _
  simp [kw, nameL, tokL, String.toList_append]
theorem tokL_callnative : tokL (.callNative s cs) =
    kw "callnative" ++ '(' :: (nameL s ++ ',' :: '[' :: (interc (cs.map tokL) ++ ']' :: [')'])) := by
  show ("callnative(" ++ hexStr s ++ "," ++ bracketToks (Card.toToks cs) ++ ")").toList = _
  simp [kw, nameL, cardsL, String.toList_append]
theorem tokL_call : tokL (.call s cs) =
    kw "call" ++ '(' :: (nameL s ++ ',' :: '[' :: (interc (cs.map tokL) ++ ']' :: [')'])) := by
  show ("call(" ++ hexStr s ++ "," ++ bracketToks (Card.toToks cs) ++ ")").toList = _
  simp [kw, nameL, cardsL, String.toList_append]
theorem tokL_repeat (i : Option String) : tokL (.repeat i a b) =
    kw "repeat" ++ '(' :: ((optHex i).toList ++ ',' :: (tokL a ++ ',' :: (tokL b ++ [')']))) := by
  show ("repeat(" ++ optHex i ++ "," ++ a.toTok ++ "," ++ b.toTok ++ ")").toList = _
  simp [kw, tokL, String.toList_append]
theorem tokL_foreach (i k v : Option String) : tokL (.forEach i k v a b) =
    kw "foreach" ++ '(' :: ((optHex i).toList ++ ',' :: ((optHex k).toList ++ ',' ::
      ((optHex v).toList ++ ',' :: (tokL a ++ ',' :: (tokL b ++ [')']))))) := by
  show ("foreach(" ++ optHex i ++ "," ++ optHex k ++ "," ++ optHex v ++ "," ++ a.toTok ++ "," ++
    b.toTok ++ ")").toList = _
  simp [kw, tokL, String.toList_append]
theorem tokL_composite : tokL (.composite s cs) =
    kw "composite" ++ '(' :: (nameL s ++ ',' :: '[' :: (interc (cs.map tokL) ++ ']' :: [')'])) := by
  show ("composite(" ++ hexStr s ++ "," ++ bracketToks (Card.toToks cs) ++ ")").toList = _
  simp [kw, nameL, cardsL, String.toList_append]
theorem tokL_dyncall : tokL (.dynamicCall cs a) =
    kw "dyncall" ++ '(' :: '[' :: (interc (cs.map tokL) ++ ']' :: ',' :: (tokL a ++ [')'])) := by
  show ("dyncall(" ++ bracketToks (Card.toToks cs) ++ "," ++ a.toTok ++ ")").toList = _
  simp [kw, tokL, cardsL, String.toList_append]
theorem tokL_array : tokL (.array cs) =
    kw "array" ++ '(' :: '[' :: (interc (cs.map tokL) ++ ']' :: [')']) := by
  show ("array(" ++ bracketToks (Card.toToks cs) ++ ")").toList = _
  simp [kw, cardsL, String.toList_append]
theorem tokL_closure (args : List String) : tokL (.closure args cs) =
    kw "closure" ++ '(' :: '[' :: (interc (args.map nameL) ++ ']' :: ',' :: '[' ::
      (interc (cs.map tokL) ++ ']' :: [')'])) := by
  show ("closure([" ++ ",".intercalate (args.map hexStr) ++ "]," ++ bracketToks (Card.toToks cs)
    ++ ")").toList = _
  simp [kw, namesL, cardsL, String.toList_append, -String.toList_intercalate]
end eqns

/-! ## fuel measure -/

mutual
  /-- fuel needed by `Parse.card` -/
  def cardSize : Card → Nat
    | .bin _ a b => cardSize a + cardSize b + 1
    | .un _ c => cardSize c + 1
    | .tri _ a b c => cardSize a + cardSize b + cardSize c + 1
    | .setVar _ c => cardSize c + 1
    | .setGlobalVar _ c => cardSize c + 1
    | .callNative _ a => cardsSize a + 1
    | .call _ a => cardsSize a + 1
    | .repeat _ n b => cardSize n + cardSize b + 1
    | .forEach _ _ _ it b => cardSize it + cardSize b + 1
    | .composite _ cs => cardsSize cs + 1
    | .dynamicCall a f => cardsSize a + cardSize f + 1
    | .array cs => cardsSize cs + 1
    | .closure args cs => args.length + cardsSize cs + 1
    | _ => 1
  def cardsSize : List Card → Nat
    | [] => 0
    | c :: cs => cardSize c + cardsSize cs + 1
end

theorem cardSize_pos (c : Card) : 0 < cardSize c := by
  cases c <;> simp [cardSize]

theorem cardsSize_mem {cs : List Card} {c : Card} (h : c ∈ cs) : cardSize c ≤ cardsSize cs := by
  induction cs with
  | nil => cases h
  | cons d cs ih =>
    simp only [cardsSize]
    rcases List.mem_cons.1 h with rfl | h
    · omega
    · have := ih h; omega

theorem cardsSize_length (cs : List Card) : cs.length ≤ cardsSize cs := by
  induction cs with
  | nil => simp
  | cons d cs ih => simp only [cardsSize, List.length_cons]; omega

/-! ## keyword facts (all by `decide`) -/

theorem binKind_name (k : BinKind) : binKind? k.name = some k := by cases k <;> decide
theorem unKind_name (k : UnKind) : binKind? k.name = none ∧ unKind? k.name = some k := by
  cases k <;> decide
theorem triKind_name (k : TriKind) :
    binKind? k.name = none ∧ unKind? k.name = none ∧ triKind? k.name = some k := by
  cases k <;> decide
theorem bin_name_kw (k : BinKind) :
    k.name ∈ keywords ∧ k.name ≠ "nil" ∧ k.name ≠ "table" ∧ k.name ≠ "abort" := by
  cases k <;> decide
theorem un_name_kw (k : UnKind) :
    k.name ∈ keywords ∧ k.name ≠ "nil" ∧ k.name ≠ "table" ∧ k.name ≠ "abort" := by
  cases k <;> decide
theorem tri_name_kw (k : TriKind) :
    k.name ∈ keywords ∧ k.name ≠ "nil" ∧ k.name ≠ "table" ∧ k.name ≠ "abort" := by
  cases k <;> decide

/-- the non-operator keywords are not operator names -/
theorem kinds_none (s : String)
    (h : s ∈ ["int","float","str","comment","function","nativefn","readvar","setvar","setglobal",
      "callnative","call","repeat","foreach","composite","dyncall","array","closure"]) :
    binKind? s = none ∧ unKind? s = none ∧ triKind? s = none := by
  revert s; decide

theorem ident_kwp (s : String) (hs : s ∈ keywords) (r : List Char) :
    ident (kw s ++ '(' :: r) = some (s, '(' :: r) := ident_kw_paren s hs r

theorem ident_kws (s : String) (hs : s ∈ keywords) (r : List Char) (hr : Stop r) :
    ident (kw s ++ r) = some (s, r) := ident_kw s hs r hr.notAlpha

theorem card_brack (fuel : Nat) (t : List Char) : card fuel (']' :: t) = none := by
  have : ident (']' :: t) = none := by
    have : Char.isAlpha ']' = false := by decide
    simp [ident, ident.go, this]
  cases fuel <;> simp [card, this]

theorem hexName_brack (t : List Char) : hexName (']' :: t) = none := by
  simp [hexName]

@[simp] theorem stop_comma (t : List Char) : Stop (',' :: t) = True := eq_true (Stop.comma t)
@[simp] theorem stop_paren (t : List Char) : Stop (')' :: t) = True := eq_true (Stop.paren t)
@[simp] theorem stop_brack (t : List Char) : Stop (']' :: t) = True := eq_true (Stop.brack t)

theorem nameL_spec (s : String) (rest : List Char) (h : Stop rest) :
    hexName (nameL s ++ rest) = some (s, rest) := hexName_spec s rest h.notHex

theorem optL_spec (o : Option String) (rest : List Char) (h : Stop rest) :
    optName ((optHex o).toList ++ rest) = some (o, rest) := optName_spec o rest h.notHex

theorem namesL_spec (args : List String) (fuel : Nat) (rest : List Char)
    (h : args.length ≤ fuel + 1) :
    listOf hexName (fuel + 1) ('[' :: (interc (args.map nameL) ++ ']' :: rest)) = some (args, rest) :=
  listOf_spec hexName nameL args fuel rest h hexName_brack (fun y _ r hr => nameL_spec y r hr)

/-! ## the card parser reads back printed cards -/

theorem card_spec : ∀ (fuel : Nat) (c : Card), cardSize c ≤ fuel → ∀ rest, Stop rest →
    card fuel (tokL c ++ rest) = some (c, rest) := by
  intro fuel
  induction fuel with
  | zero => intro c h; have := cardSize_pos c; omega
  | succ fuel ih =>
    intro c hsz rest hrest
    have hl : ∀ cs : List Card, cardsSize cs ≤ fuel → ∀ r,
        listOf (card fuel) (fuel + 1) ('[' :: (interc (cs.map tokL) ++ ']' :: r)) = some (cs, r) := by
      intro cs hcs r
      exact listOf_spec (card fuel) tokL cs fuel r (by have := cardsSize_length cs; omega)
        (card_brack fuel)
        (fun y hy r hr => ih y (by have := cardsSize_mem hy; omega) r hr)
    cases c with
    | bin k a b =>
      simp only [cardSize] at hsz
      have ha := ih a (by omega)
      have hb := ih b (by omega)
      have hk := bin_name_kw k
      simp [tokL_bin, card, ident_kwp _ hk.1, hk.2, binKind_name, expect, ha, hb]
    | un k a =>
      simp only [cardSize] at hsz
      have ha := ih a (by omega)
      have hk := un_name_kw k
      have hn := unKind_name k
      simp [tokL_un, card, ident_kwp _ hk.1, hk.2, hn, expect, ha]
    | tri k a b c =>
      simp only [cardSize] at hsz
      have ha := ih a (by omega)
      have hb := ih b (by omega)
      have hc := ih c (by omega)
      have hk := tri_name_kw k
      have hn := triKind_name k
      simp [tokL_tri, card, ident_kwp _ hk.1, hk.2, hn, expect, ha, hb, hc]
    | scalarNil =>
      simp [tokL_nil, card, ident_kws "nil" (by decide) rest hrest]
    | createTable =>
      simp [tokL_table, card, ident_kws "table" (by decide) rest hrest]
    | abort =>
      simp [tokL_abort, card, ident_kws "abort" (by decide) rest hrest]
    | scalarInt i =>
      have hn := kinds_none "int" (by decide)
      have hi := intLit_spec i.toInt (')' :: rest) (Stop.paren rest).notDigit
      rw [Int.toString_eq_repr] at hi
      simp [tokL_int, card, ident_kwp "int" (by decide), hn, expect, hi, Int64.ofInt_toInt]
    | scalarFloat x =>
      have hn := kinds_none "float" (by decide)
      have h16 := hexOfNat_length x.toNat 16
      have ht : ∀ r, List.take 16 ((Val.hexOfNat x.toNat 16).toList ++ r) = (Val.hexOfNat x.toNat 16).toList := by
        intro r; rw [List.take_append_of_le_length (by omega), List.take_of_length_le (by omega)]
      have hd : ∀ r, List.drop 16 ((Val.hexOfNat x.toNat 16).toList ++ r) = r := by
        intro r; rw [List.drop_append_of_le_length (by omega), List.drop_of_length_le (by omega)]; rfl
      simp [tokL_float, card, ident_kwp "float" (by decide), hn, expect, ht, hd,
        String.ofList_toList, natOfHex_hexOfNat64]
    | stringLiteral s =>
      have hn := kinds_none "str" (by decide)
      simp [tokL_str, card, ident_kwp "str" (by decide), hn, expect, nameL_spec]
    | comment s =>
      have hn := kinds_none "comment" (by decide)
      simp [tokL_comment, card, ident_kwp "comment" (by decide), hn, expect, nameL_spec]
    | function s =>
      have hn := kinds_none "function" (by decide)
      simp [tokL_function, card, ident_kwp "function" (by decide), hn, expect, nameL_spec]
    | nativeFunction s =>
      have hn := kinds_none "nativefn" (by decide)
      simp [tokL_nativefn, card, ident_kwp "nativefn" (by decide), hn, expect, nameL_spec]
    | readVar s =>
      have hn := kinds_none "readvar" (by decide)
      simp [tokL_readvar, card, ident_kwp "readvar" (by decide), hn, expect, nameL_spec]
    | setVar s a =>
      simp only [cardSize] at hsz
      have ha := ih a (by omega)
      have hn := kinds_none "setvar" (by decide)
      simp [tokL_setvar, card, ident_kwp "setvar" (by decide), hn, expect, nameL_spec, ha]
    | setGlobalVar s a =>
      simp only [cardSize] at hsz
      have ha := ih a (by omega)
      have hn := kinds_none "setglobal" (by decide)
      simp [tokL_setglobal, card, ident_kwp "setglobal" (by decide), hn, expect, nameL_spec, ha]
    | callNative s cs =>
      simp only [cardSize] at hsz
      have hcs := hl cs (by omega)
      have hn := kinds_none "callnative" (by decide)
      simp [tokL_callnative, card, ident_kwp "callnative" (by decide), hn, expect, nameL_spec, hcs]
    | call s cs =>
      simp only [cardSize] at hsz
      have hcs := hl cs (by omega)
      have hn := kinds_none "call" (by decide)
      simp [tokL_call, card, ident_kwp "call" (by decide), hn, expect, nameL_spec, hcs]
    | «repeat» i a b =>
      simp only [cardSize] at hsz
      have ha := ih a (by omega)
      have hb := ih b (by omega)
      have hn := kinds_none "repeat" (by decide)
      simp [tokL_repeat, card, ident_kwp "repeat" (by decide), hn, expect, optL_spec, ha, hb]
    | forEach i k v a b =>
      simp only [cardSize] at hsz
      have ha := ih a (by omega)
      have hb := ih b (by omega)
      have hn := kinds_none "foreach" (by decide)
      simp [tokL_foreach, card, ident_kwp "foreach" (by decide), hn, expect, optL_spec, ha, hb]
    | composite s cs =>
      simp only [cardSize] at hsz
      have hcs := hl cs (by omega)
      have hn := kinds_none "composite" (by decide)
      simp [tokL_composite, card, ident_kwp "composite" (by decide), hn, expect, nameL_spec, hcs]
    | dynamicCall cs a =>
      simp only [cardSize] at hsz
      have hcs := hl cs (by omega)
      have ha := ih a (by omega)
      have hn := kinds_none "dyncall" (by decide)
      simp [tokL_dyncall, card, ident_kwp "dyncall" (by decide), hn, expect, ha, hcs]
    | array cs =>
      simp only [cardSize] at hsz
      have hcs := hl cs (by omega)
      have hn := kinds_none "array" (by decide)
      simp [tokL_array, card, ident_kwp "array" (by decide), hn, expect, hcs]
    | closure args cs =>
      simp only [cardSize] at hsz
      have hcs := hl cs (by omega)
      have hargs := namesL_spec args fuel
      have hn := kinds_none "closure" (by decide)
      simp [tokL_closure, card, ident_kwp "closure" (by decide), hn, expect]
      rw [hargs _ (by omega)]
      simp [hcs]

/-! ## fuel adequacy: the printed length bounds the fuel measure -/

theorem length_le_interc (l : List (List Char)) : l.length ≤ (interc l).length + 1 := by
  induction l with
  | nil => simp
  | cons x l ih =>
    cases l with
    | nil => simp [interc]
    | cons y l =>
      simp only [interc, List.length_cons, List.length_append] at ih ⊢; omega

theorem cardsSize_le_len (cs : List Card) (h : ∀ x ∈ cs, cardSize x ≤ (tokL x).length) :
    cardsSize cs ≤ (interc (cs.map tokL)).length + 1 := by
  induction cs with
  | nil => simp [cardsSize]
  | cons x l ih =>
    have hx := h x (by simp)
    have ih' := ih (fun y hy => h y (List.mem_cons_of_mem _ hy))
    cases l with
    | nil => simp [interc, cardsSize]; omega
    | cons y l =>
      simp only [List.map_cons, interc, List.length_cons, List.length_append, cardsSize] at ih' ⊢
      omega

theorem cardSize_le_len : ∀ (n : Nat) (c : Card), cardSize c ≤ n → cardSize c ≤ (tokL c).length := by
  intro n
  induction n with
  | zero => intro c h; have := cardSize_pos c; omega
  | succ n ih =>
    intro c hsz
    have hl : ∀ cs, cardsSize cs ≤ n → cardsSize cs ≤ (interc (cs.map tokL)).length + 1 :=
      fun cs h => cardsSize_le_len cs (fun x hx => ih x (by have := cardsSize_mem hx; omega))
    cases c with
    | bin k a b =>
      simp only [cardSize] at hsz ⊢
      have := ih a (by omega); have := ih b (by omega)
      simp only [tokL_bin, List.length_append, List.length_cons, List.length_nil]; omega
    | un k a =>
      simp only [cardSize] at hsz ⊢
      have := ih a (by omega)
      simp only [tokL_un, List.length_append, List.length_cons, List.length_nil]; omega
    | tri k a b c =>
      simp only [cardSize] at hsz ⊢
      have := ih a (by omega); have := ih b (by omega); have := ih c (by omega)
      simp only [tokL_tri, List.length_append, List.length_cons, List.length_nil]; omega
    | scalarNil => simp [cardSize, tokL_nil, kw]
    | createTable => simp [cardSize, tokL_table, kw]
    | abort => simp [cardSize, tokL_abort, kw]
    | scalarInt i => simp [cardSize, tokL_int]; omega
    | scalarFloat x => simp [cardSize, tokL_float]; omega
    | stringLiteral s => simp [cardSize, tokL_str]; omega
    | comment s => simp [cardSize, tokL_comment]; omega
    | function s => simp [cardSize, tokL_function]; omega
    | nativeFunction s => simp [cardSize, tokL_nativefn]; omega
    | readVar s => simp [cardSize, tokL_readvar]; omega
    | setVar s a =>
      simp only [cardSize] at hsz ⊢
      have := ih a (by omega)
      simp only [tokL_setvar, List.length_append, List.length_cons, List.length_nil]; omega
    | setGlobalVar s a =>
      simp only [cardSize] at hsz ⊢
      have := ih a (by omega)
      simp only [tokL_setglobal, List.length_append, List.length_cons, List.length_nil]; omega
    | callNative s cs =>
      simp only [cardSize] at hsz ⊢
      have := hl cs (by omega)
      simp only [tokL_callnative, List.length_append, List.length_cons, List.length_nil]; omega
    | call s cs =>
      simp only [cardSize] at hsz ⊢
      have := hl cs (by omega)
      simp only [tokL_call, List.length_append, List.length_cons, List.length_nil]; omega
    | «repeat» i a b =>
      simp only [cardSize] at hsz ⊢
      have := ih a (by omega); have := ih b (by omega)
      simp only [tokL_repeat, List.length_append, List.length_cons, List.length_nil]; omega
    | forEach i k v a b =>
      simp only [cardSize] at hsz ⊢
      have := ih a (by omega); have := ih b (by omega)
      simp only [tokL_foreach, List.length_append, List.length_cons, List.length_nil]; omega
    | composite s cs =>
      simp only [cardSize] at hsz ⊢
      have := hl cs (by omega)
      simp only [tokL_composite, List.length_append, List.length_cons, List.length_nil]; omega
    | dynamicCall cs a =>
      simp only [cardSize] at hsz ⊢
      have := hl cs (by omega); have := ih a (by omega)
      simp only [tokL_dyncall, List.length_append, List.length_cons, List.length_nil]; omega
    | array cs =>
      simp only [cardSize] at hsz ⊢
      have := hl cs (by omega)
      simp only [tokL_array, List.length_append, List.length_cons, List.length_nil]; omega
    | closure args cs =>
      simp only [cardSize] at hsz ⊢
      have := hl cs (by omega)
      have := length_le_interc (args.map nameL)
      rw [List.length_map] at this
      simp only [tokL_closure, List.length_append, List.length_cons, List.length_nil]; omega

theorem cardSize_le_length (c : Card) : cardSize c ≤ c.toTok.length := by
  have := cardSize_le_len _ c (Nat.le_refl _)
  rwa [tokL, String.length_toList] at this

/-- **Round trip of the card token syntax.** -/
theorem card_tok_roundtrip (c : Card) : Card.ofTok? (Card.toTok c) = some c := by
  have h := card_spec (c.toTok.length + 1) c (by have := cardSize_le_length c; omega) [] Stop.nil
  rw [tokL, List.append_nil] at h
  rw [Card.ofTok?, h]


/-! ## functions -/

/-- printed named function as a character list -/
def funcL (p : String × Func) : List Char := (p.2.toTok p.1).toList

theorem funcL_eq (p : String × Func) : funcL p =
    kw "fn" ++ '(' :: (nameL p.1 ++ ',' :: '[' :: (interc (p.2.arguments.map nameL) ++ ']' :: ',' :: '[' ::
      (interc (p.2.cards.map tokL) ++ ']' :: [')']))) := by
  show ("fn(" ++ hexStr p.1 ++ ",[" ++ ",".intercalate (p.2.arguments.map hexStr) ++ "]," ++
    bracketToks (Card.toToks p.2.cards) ++ ")").toList = _
  simp [kw, nameL, namesL, cardsL, String.toList_append, -String.toList_intercalate]

/-- fuel needed by `Parse.func` -/
def funcSize (p : String × Func) : Nat := p.2.arguments.length + cardsSize p.2.cards

theorem ident_brack (t : List Char) : ident (']' :: t) = none := by
  have : Char.isAlpha ']' = false := by decide
  simp [ident, ident.go, this]

theorem func_brack (fuel : Nat) (t : List Char) : func fuel (']' :: t) = none := by
  simp [func, ident_brack]

theorem cards_spec (fuel : Nat) (cs : List Card) (h : cardsSize cs ≤ fuel) (r : List Char) :
    listOf (card fuel) (fuel + 1) ('[' :: (interc (cs.map tokL) ++ ']' :: r)) = some (cs, r) :=
  listOf_spec (card fuel) tokL cs fuel r (by have := cardsSize_length cs; omega)
    (card_brack fuel)
    (fun y hy r _ => card_spec fuel y (by have := cardsSize_mem hy; omega) r ‹_›)

theorem func_spec (fuel : Nat) (p : String × Func) (h : funcSize p ≤ fuel) (rest : List Char) :
    func fuel (funcL p ++ rest) = some (p, rest) := by
  obtain ⟨n, f⟩ := p
  simp only [funcSize] at h
  have h1 := namesL_spec f.arguments fuel
  have h2 := cards_spec fuel f.cards (by omega)
  simp [funcL_eq, func, ident_kwp "fn" (by decide), expect, nameL_spec]
  rw [h1 _ (by omega)]
  simp [h2]

/-! ## modules -/

/-- printed module as a character list -/
def modL (m : Module) : List Char := m.toTok.toList

/-- printed submodule entry as a character list -/
def subL (p : String × Module) : List Char :=
  kw "sub" ++ '(' :: (nameL p.1 ++ ',' :: (modL p.2 ++ [')']))

theorem subsToks_eq_map (subs : List (String × Module)) :
    Module.subsToks subs = subs.map (fun p => "sub(" ++ hexStr p.1 ++ "," ++ p.2.toTok ++ ")") := by
  induction subs with
  | nil => rfl
  | cons p subs ih =>
    obtain ⟨n, m⟩ := p
    show ("sub(" ++ hexStr n ++ "," ++ m.toTok ++ ")") :: Module.subsToks subs = _
    rw [ih]; rfl

theorem subsL (subs : List (String × Module)) :
    (",".intercalate (Module.subsToks subs)).toList = interc (subs.map subL) := by
  rw [intercalate_toList, subsToks_eq_map, List.map_map]
  congr 1
  apply List.map_congr_left
  intro p _
  simp [subL, kw, nameL, modL, String.toList_append]

theorem fnsL (fns : List (String × Func)) :
    (",".intercalate (fns.map (fun (n, f) => f.toTok n))).toList = interc (fns.map funcL) := by
  rw [intercalate_toList, List.map_map]; rfl

theorem modL_eq (subs : List (String × Module)) (fns : List (String × Func)) (imps : List String) :
    modL (.mk subs fns imps) =
    kw "mod" ++ '(' :: '[' :: (interc (imps.map nameL) ++ ']' :: ',' :: '[' ::
      (interc (fns.map funcL) ++ ']' :: ',' :: '[' :: (interc (subs.map subL) ++ ']' :: [')']))) := by
  show ("mod([" ++ ",".intercalate (imps.map hexStr) ++ "],[" ++
        ",".intercalate (fns.map (fun (n, f) => f.toTok n)) ++ "],[" ++
        ",".intercalate (Module.subsToks subs) ++ "])").toList = _
  simp only [String.toList_append, namesL, fnsL, subsL]
  simp [kw]

mutual
  /-- fuel needed by `Parse.module` -/
  def modSize : Module → Nat
    | .mk subs fns imps =>
      imps.length + (fns.map (fun f => funcSize f + 1)).sum + subsSize subs + 1
  def subsSize : List (String × Module) → Nat
    | [] => 0
    | (_, m) :: rest => modSize m + 1 + subsSize rest
end

theorem subsSize_eq (subs : List (String × Module)) :
    subsSize subs = (subs.map (fun p => modSize p.2 + 1)).sum := by
  induction subs with
  | nil => rfl
  | cons p subs ih =>
    obtain ⟨n, m⟩ := p
    show modSize m + 1 + subsSize subs = _
    rw [ih]; rfl

theorem modSize_pos (m : Module) : 0 < modSize m := by
  cases m; simp [modSize]

theorem le_sum_of_mem {α : Type} (f : α → Nat) {l : List α} {x : α} (h : x ∈ l) :
    f x ≤ (l.map f).sum := by
  induction l with
  | nil => cases h
  | cons y l ih =>
    simp only [List.map_cons, List.sum_cons]
    rcases List.mem_cons.1 h with rfl | h
    · omega
    · have := ih h; omega

theorem length_le_sum {α : Type} (f : α → Nat) (l : List α) :
    l.length ≤ (l.map (fun x => f x + 1)).sum := by
  induction l with
  | nil => simp
  | cons y l ih => simp only [List.map_cons, List.sum_cons, List.length_cons]; omega

/-- the `sub(...)` entry parser that `Parse.module (fuel+1)` defines locally -/
def subP (fuel : Nat) : P (String × Module) := fun cs => do
  let (id, r) ← ident cs
  if id != "sub" then none
  let ((), r) ← expect '(' r
  let (n, r) ← hexName r; let ((), r) ← expect ',' r
  let (m, r) ← Parse.module fuel r
  let ((), r) ← expect ')' r
  return ((n, m), r)

theorem module_succ (fuel : Nat) (cs : List Char) :
    Parse.module (fuel + 1) cs = (do
      let (id, r) ← ident cs
      if id != "mod" then none
      let ((), r) ← expect '(' r
      let (imps, r) ← listOf hexName (fuel + 1) r; let ((), r) ← expect ',' r
      let (fns, r) ← listOf (func fuel) (fuel + 1) r; let ((), r) ← expect ',' r
      let (subs, r) ← listOf (subP fuel) (fuel + 1) r
      let ((), r) ← expect ')' r
      return (.mk subs fns imps, r)) := rfl

theorem subP_brack (fuel : Nat) (t : List Char) : subP fuel (']' :: t) = none := by
  simp [subP, ident_brack]

theorem module_spec : ∀ (fuel : Nat) (m : Module), modSize m ≤ fuel → ∀ rest, Stop rest →
    Parse.module fuel (modL m ++ rest) = some (m, rest) := by
  intro fuel
  induction fuel with
  | zero => intro m h; have := modSize_pos m; omega
  | succ fuel ih =>
    intro m hsz rest _
    obtain ⟨subs, fns, imps⟩ := m
    simp only [modSize, subsSize_eq] at hsz
    have h1 := namesL_spec imps fuel
    have h2 : ∀ r, listOf (func fuel) (fuel + 1) ('[' :: (interc (fns.map funcL) ++ ']' :: r))
        = some (fns, r) := fun r =>
      listOf_spec (func fuel) funcL fns fuel r
        (by have := length_le_sum funcSize fns; omega) (func_brack fuel)
        (fun y hy r _ => func_spec fuel y
          (by have : funcSize y + 1 ≤ _ := le_sum_of_mem (fun f => funcSize f + 1) hy; omega) r)
    have hsub : ∀ y ∈ subs, ∀ r, Stop r → subP fuel (subL y ++ r) = some (y, r) := by
      intro y hy r _
      obtain ⟨n, m⟩ := y
      have hm := ih m (by have : modSize m + 1 ≤ _ := le_sum_of_mem (fun p => modSize p.2 + 1) hy; omega)
      simp [subL, subP, ident_kwp "sub" (by decide), expect, nameL_spec, hm]
    have h3 : ∀ r, listOf (subP fuel) (fuel + 1) ('[' :: (interc (subs.map subL) ++ ']' :: r))
        = some (subs, r) := fun r =>
      listOf_spec (subP fuel) subL subs fuel r
        (by have := length_le_sum (fun p => modSize p.2) subs; omega) (subP_brack fuel) hsub
    rw [module_succ]
    simp [modL_eq, ident_kwp "mod" (by decide), expect]
    rw [h1 _ (by omega)]
    simp [h2, h3]

theorem sum_le_interc {α : Type} (size : α → Nat) (tok : α → List Char) (l : List α)
    (h : ∀ x ∈ l, size x ≤ (tok x).length) :
    (l.map (fun x => size x + 1)).sum ≤ (interc (l.map tok)).length + 1 := by
  induction l with
  | nil => simp
  | cons x l ih =>
    have hx := h x (by simp)
    have ih' := ih (fun y hy => h y (List.mem_cons_of_mem _ hy))
    cases l with
    | nil => simp [interc]; omega
    | cons y l =>
      simp only [List.map_cons, interc, List.length_cons, List.length_append, List.sum_cons] at ih' ⊢
      omega

theorem funcSize_le_len (p : String × Func) : funcSize p ≤ (funcL p).length := by
  have h1 := length_le_interc (p.2.arguments.map nameL)
  rw [List.length_map] at h1
  have h2 := cardsSize_le_len p.2.cards (fun x _ => cardSize_le_len _ x (Nat.le_refl _))
  simp only [funcSize, funcL_eq, List.length_append, List.length_cons, List.length_nil]
  omega

theorem modSize_le_len : ∀ (n : Nat) (m : Module), modSize m ≤ n → modSize m ≤ (modL m).length := by
  intro n
  induction n with
  | zero => intro m h; have := modSize_pos m; omega
  | succ n ih =>
    intro m hsz
    obtain ⟨subs, fns, imps⟩ := m
    simp only [modSize, subsSize_eq] at hsz ⊢
    have h1 := length_le_interc (imps.map nameL)
    rw [List.length_map] at h1
    have h2 := sum_le_interc funcSize funcL fns (fun x _ => funcSize_le_len x)
    have h3 := sum_le_interc (fun p => modSize p.2) subL subs (by
      intro p hp
      obtain ⟨s, m⟩ := p
      have hm : modSize m + 1 ≤ _ := le_sum_of_mem (fun p => modSize p.2 + 1) hp
      have := ih m (by omega)
      simp only [subL, List.length_append, List.length_cons, List.length_nil]
      omega)
    simp only [modL_eq, List.length_append, List.length_cons, List.length_nil]
    omega

theorem modSize_le_length (m : Module) : modSize m ≤ m.toTok.length := by
  have := modSize_le_len _ m (Nat.le_refl _)
  rwa [modL, String.length_toList] at this

/-- **Round trip of the module token syntax.** -/
theorem module_tok_roundtrip (m : Module) : Module.ofTok? (Module.toTok m) = some m := by
  have h := module_spec (m.toTok.length + 1) m (by have := modSize_le_length m; omega) [] Stop.nil
  rw [modL, List.append_nil] at h
  rw [Module.ofTok?, h]

/-- the statements asked for, as propositions -/
def card_tok_roundtrip_Full : Prop := ∀ c : Card, Card.ofTok? (Card.toTok c) = some c
def module_tok_roundtrip_Full : Prop := ∀ m : Module, Module.ofTok? (Module.toTok m) = some m

theorem card_tok_roundtrip_full : card_tok_roundtrip_Full := card_tok_roundtrip
theorem module_tok_roundtrip_full : module_tok_roundtrip_Full := module_tok_roundtrip

/-- the printer is injective (corollary) -/
theorem Card.toTok_injective {a b : Card} (h : a.toTok = b.toTok) : a = b := by
  have := card_tok_roundtrip a
  rw [h, card_tok_roundtrip b] at this
  exact (Option.some.inj this).symm

theorem Module.toTok_injective {a b : Module} (h : a.toTok = b.toTok) : a = b := by
  have := module_tok_roundtrip a
  rw [h, module_tok_roundtrip b] at this
  exact (Option.some.inj this).symm

/-! ## non-vacuity

Concrete instances (the printed string is computed by the kernel; names are avoided in the literal
examples because `String.toUTF8.toList` is a well-founded loop that `decide`/`rfl` cannot unfold).
`#eval`-checked: `Module.toTok (.mk [("s", .mk [] [] [])] [("f", ⟨["x"], [.scalarInt (-5)]⟩)] ["i"])
  = "mod([$69],[fn($66,[$78],[int(#-5)])],[sub($73,mod([],[],[]))])"`. -/

example : Card.ofTok? "add(int(#1),nil)" = some (.bin .add (.scalarInt 1) .scalarNil) :=
  card_tok_roundtrip (.bin .add (.scalarInt 1) .scalarNil)
example : Card.ofTok? "ifelse(nil,array([table,abort]),float($3ff0000000000000))" =
    some (.tri .ifElse .scalarNil (.array [.createTable, .abort]) (.scalarFloat 0x3ff0000000000000)) :=
  card_tok_roundtrip (.tri .ifElse .scalarNil (.array [.createTable, .abort]) (.scalarFloat 0x3ff0000000000000))
example : Card.ofTok? "dyncall([],repeat(?,int(#-12),nil))" =
    some (.dynamicCall [] (.repeat none (.scalarInt (-12)) .scalarNil)) :=
  card_tok_roundtrip (.dynamicCall [] (.repeat none (.scalarInt (-12)) .scalarNil))
example : Module.ofTok? "mod([],[],[])" = some (.mk [] [] []) := module_tok_roundtrip (.mk [] [] [])
example : Card.ofTok? (Card.toTok (.closure ["a", "b"] [.un .ret (.readVar "a"), .stringLiteral "x,)]"]))
    = some (.closure ["a", "b"] [.un .ret (.readVar "a"), .stringLiteral "x,)]"]) := card_tok_roundtrip _
example : Module.ofTok? (Module.toTok (.mk [("s", .mk [] [] [])] [("f", ⟨["x"], [.scalarInt (-5)]⟩)] ["i"]))
    = some (.mk [("s", .mk [] [] [])] [("f", ⟨["x"], [.scalarInt (-5)]⟩)] ["i"]) := module_tok_roundtrip _
/-- the parser is not trivially accepting: trailing input / glued identifiers are rejected -/
example : (Card.ofTok? "nil)").isNone = true := by decide
example : (Card.ofTok? "nilx").isNone = true := by decide

end Cao.Serde
