import CaoProofs.Lemmas.WfInv
/-!
# `Handle::from_u32` is injective on `0 … 2^32 - 2`

`hash_u64(key, 0xFFFFFFFF)` maps `0` to the image of `0xFFFFFFFF` and is otherwise a composition of
bijections of 32-bit words (xor-shift by 16, multiplication by an odd constant).
-/
namespace Cao.Compiler
open Cao

/-- multiplication by a unit modulo `N` is injective -/
theorem mul_mod_inj {N c cinv q a b : Nat} (hc : c * cinv = 1 + q * N) (ha : a < N) (hb : b < N)
    (h : a * c % N = b * c % N) : a = b := by
  have key : ∀ x, x < N → (x * c % N) * cinv % N = x := by
    intro x hx
    rw [Nat.mod_mul_mod, Nat.mul_assoc, hc, Nat.mul_add, Nat.mul_one, ← Nat.mul_assoc,
      Nat.add_mul_mod_self_right, Nat.mod_eq_of_lt hx]
  rw [← key a ha, ← key b hb, h]

/-- xor-shift by 16 -/
def xs16 (y : Nat) : Nat := (y >>> 16) ^^^ y

theorem xs16_lt {y : Nat} (h : y < 2 ^ 32) : xs16 y < 2 ^ 32 :=
  Nat.xor_lt_two_pow (Nat.lt_of_le_of_lt (Nat.shiftRight_le _ _) h) h

theorem xs16_invol {y : Nat} (h : y < 2 ^ 32) : xs16 (xs16 y) = y := by
  unfold xs16
  rw [Nat.shiftRight_xor_distrib, ← Nat.shiftRight_add]
  have h0 : y >>> (16 + 16) = 0 := by
    rw [Nat.shiftRight_eq_div_pow]
    exact Nat.div_eq_of_lt h
  rw [h0, Nat.zero_xor, ← Nat.xor_assoc, Nat.xor_self, Nat.zero_xor]

theorem xs16_inj {a b : Nat} (ha : a < 2 ^ 32) (hb : b < 2 ^ 32) (h : xs16 a = xs16 b) : a = b := by
  rw [← xs16_invol ha, ← xs16_invol hb, h]

/-- multiplication by the hash constant modulo `2^32` -/
def mulC (y : Nat) : Nat := y * 73207611 % 4294967296

theorem mulC_lt (y : Nat) : mulC y < 2 ^ 32 := Nat.mod_lt _ (by decide)

theorem mulC_inj {a b : Nat} (ha : a < 2 ^ 32) (hb : b < 2 ^ 32) (h : mulC a = mulC b) : a = b :=
  mul_mod_inj (N := 4294967296) (c := 73207611) (cinv := 599585267) (q := 10219916) (by decide) ha hb h

/-- one `((key >> 16) ^ key) * C & mask` round on 32-bit values -/
theorem round_toNat (k : UInt64) :
    ((((k >>> 16) ^^^ k) * 0x45d0f3b) &&& 0xFFFFFFFF).toNat = mulC (xs16 k.toNat) := by
  rw [UInt64.toNat_and, UInt64.toNat_mul, UInt64.toNat_xor, UInt64.toNat_shiftRight]
  have e1 : (16 : UInt64).toNat % 64 = 16 := by decide
  have e2 : (0x45d0f3b : UInt64).toNat = 73207611 := by decide
  have e3 : (0xFFFFFFFF : UInt64).toNat = 2 ^ 32 - 1 := by decide
  rw [e1, e2, e3, Nat.and_two_pow_sub_one_eq_mod]
  unfold mulC xs16
  exact Nat.mod_mod_of_dvd _ (by decide)

theorem last_toNat (k : UInt64) :
    (((k >>> 16) ^^^ k) &&& 0xFFFFFFFF).toNat = xs16 k.toNat % 2 ^ 32 := by
  rw [UInt64.toNat_and, UInt64.toNat_xor, UInt64.toNat_shiftRight]
  have e1 : (16 : UInt64).toNat % 64 = 16 := by decide
  have e3 : (0xFFFFFFFF : UInt64).toNat = 2 ^ 32 - 1 := by decide
  rw [e1, e3, Nat.and_two_pow_sub_one_eq_mod]
  rfl

theorem fold_toNat (k : UInt64) (hk : k.toNat < 2 ^ 32) :
    ((k >>> 32) ^^^ k).toUInt32.toNat = k.toNat := by
  rw [UInt64.toNat_toUInt32, UInt64.toNat_xor, UInt64.toNat_shiftRight]
  have e1 : (32 : UInt64).toNat % 64 = 32 := by decide
  rw [e1]
  have h0 : k.toNat >>> 32 = 0 := by
    rw [Nat.shiftRight_eq_div_pow]; exact Nat.div_eq_of_lt hk
  rw [h0, Nat.zero_xor, Nat.mod_eq_of_lt hk]

/-- the start value of `hash_u64` with mask `0xFFFFFFFF` -/
def key0 (x : Nat) : Nat := if x = 0 then 2 ^ 32 - 1 else x

theorem key0_toNat (k : UInt64) (hk : k.toNat < 2 ^ 32) :
    (k + 0xFFFFFFFF * (if k = 0 then 1 else 0)).toNat = key0 k.toNat := by
  unfold key0
  by_cases h : k = 0
  · subst h
    decide
  · have : k.toNat ≠ 0 := fun h0 => h (UInt64.toNat_inj.1 h0)
    rw [if_neg h, if_neg this, UInt64.toNat_add, UInt64.toNat_mul]
    have e0 : (0 : UInt64).toNat = 0 := rfl
    rw [e0, Nat.mul_zero, Nat.zero_mod, Nat.add_zero]
    exact Nat.mod_eq_of_lt (Nat.lt_trans hk (by decide))

theorem hashU64_toNat (k : UInt64) (hk : k.toNat < 2 ^ 32) :
    (Hash.hashU64 k 0xFFFFFFFF).toNat = xs16 (mulC (xs16 (mulC (xs16 (key0 k.toNat))))) := by
  unfold Hash.hashU64
  dsimp only
  generalize hk0 : k + 0xFFFFFFFF * (if k = 0 then 1 else 0) = k0
  have h0 : k0.toNat = key0 k.toNat := by rw [← hk0]; exact key0_toNat k hk
  generalize hk1 : (((k0 >>> 16) ^^^ k0) * 0x45d0f3b) &&& 0xFFFFFFFF = k1
  have h1 : k1.toNat = mulC (xs16 k0.toNat) := by rw [← hk1]; exact round_toNat k0
  generalize hk2 : (((k1 >>> 16) ^^^ k1) * 0x45d0f3b) &&& 0xFFFFFFFF = k2
  have h2 : k2.toNat = mulC (xs16 k1.toNat) := by rw [← hk2]; exact round_toNat k1
  generalize hk3 : ((k2 >>> 16) ^^^ k2) &&& 0xFFFFFFFF = k3
  have h3 : k3.toNat = xs16 k2.toNat := by
    rw [← hk3, last_toNat, Nat.mod_eq_of_lt (xs16_lt (by rw [h2]; exact mulC_lt _))]
  rw [fold_toNat k3 (by rw [h3]; exact xs16_lt (by rw [h2]; exact mulC_lt _)), h3, h2, h1, h0]

theorem key0_lt {x : Nat} (h : x < 2 ^ 32) : key0 x < 2 ^ 32 := by
  unfold key0; split
  · decide
  · exact h

theorem key0_inj {a b : Nat} (ha : a < 2 ^ 32 - 1) (hb : b < 2 ^ 32 - 1) (h : key0 a = key0 b) : a = b := by
  unfold key0 at h
  split at h <;> split at h <;> omega

/-- the id hash is injective below `2^32 - 1` -/
theorem idHash_inj {n : Nat} (hn : n ≤ 2 ^ 32 - 1) : HInj n := by
  intro i j hi hj h
  have hi' : i < 2 ^ 32 := by omega
  have hj' : j < 2 ^ 32 := by omega
  have ti : (UInt32.ofNat i).toUInt64.toNat = i := by
    rw [UInt32.toNat_toUInt64, UInt32.toNat_ofNat', Nat.mod_eq_of_lt hi']
  have tj : (UInt32.ofNat j).toUInt64.toNat = j := by
    rw [UInt32.toNat_toUInt64, UInt32.toNat_ofNat', Nat.mod_eq_of_lt hj']
  have e := congrArg UInt32.toNat h
  unfold idHash Hash.handleFromU32 at e
  rw [hashU64_toNat _ (by rw [ti]; exact hi'), hashU64_toNat _ (by rw [tj]; exact hj'), ti, tj] at e
  have a1 := xs16_inj (mulC_lt _) (mulC_lt _) e
  have a2 := mulC_inj (xs16_lt (mulC_lt _)) (xs16_lt (mulC_lt _)) a1
  have a3 := xs16_inj (mulC_lt _) (mulC_lt _) a2
  have a4 := mulC_inj (xs16_lt (key0_lt hi')) (xs16_lt (key0_lt hj')) a3
  have a5 := xs16_inj (key0_lt hi') (key0_lt hj') a4
  exact key0_inj (by omega) (by omega) a5

/-- the hash does collide at the excluded value: ids `0` and `2^32 - 1` get the same name key -/
theorem idHash_collision : idHash 0 = idHash (2 ^ 32 - 1) := by decide

end Cao.Compiler
