import CaoProofs.Lemmas.SerdeOwn
/-!
# `Vm::insert_value`: putting an owned value into a VM

`insertValue : OVal → M Val` mirrors `Vm::insert_value` (`vm.rs`): strings and tables are
allocated bottom-up with `init_string` / `init_table`; a table stays guarded while its entries are
built; the key is guarded while the value is built, both are guarded during `table.insert`
(which may grow the hash storage, an allocation that can run a collection).

Main results (`insertValue_spec`): from any state whose heap has unique addresses below `next`,
for every *storable* tree `o` (no function values; the keys of every table pairwise different)
the run either fails with `OutOfMemory` or returns a value whose deep unfolding in the new heap
is `o` again — whatever collections the allocations trigger — and it leaves every object that
was reachable from the roots, the roots themselves and the guard list untouched.
-/
namespace Cao.Serde
open Cao Cao.Vm Cao.Gc Cao.C02 Cao.C05

/-! ## the model of `insert_value` -/

/-- `ObjectGcGuard::new(o)` for object values -/
def guardValue : Val → M Unit
  | .obj a => modify fun s => { s with guards := a :: s.guards }
  | _ => pure ()

/-- dropping that guard -/
def unguardValue : Val → M Unit
  | .obj a => dropGuard a
  | _ => pure ()

mutual
  /-- `Vm::insert_value` -/
  def insertValue : OVal → M Val
    | .nil => pure .nil
    | .int i => pure (.int i)
    | .real b => pure (.real b)
    | .str b => do
      let a ← initString b
      dropGuard a
      pure (.obj a)
    | .table es => do
      let t ← initTable
      insertEntries t es
      dropGuard t
      pure (.obj t)
    -- `OwnedValue` has no function values
    | .fn _ _ => throwE .invalidArgument
    | .native _ => throwE .invalidArgument
    | .closure _ _ => throwE .invalidArgument
  /-- the `for OwnedEntry { key, value } in o.iter()` loop -/
  def insertEntries (t : Nat) : List (OVal × OVal) → M Unit
    | [] => pure ()
    | (k, v) :: rest => do
      let kv ← insertValue k
      guardValue kv
      let vv ← insertValue v
      guardValue vv
      tableInsert t kv vv
      unguardValue vv
      unguardValue kv
      insertEntries t rest
end

/-- the host-level call: guards are scoped (RAII), so an error releases whatever was held -/
def insertValueHost (o : OVal) : M Val := do
  let g := (← get).guards
  try insertValue o
  catch e => do
    modify fun s => { s with guards := g }
    throw e

mutual
  /-- values `insert_value` accepts and reproduces: no function values, and the keys of every
      table are pairwise different (as deep values — a later equal key would overwrite) -/
  def Storable : OVal → Prop
    | .nil => True
    | .int _ => True
    | .real _ => True
    | .str _ => True
    | .table es => StorableL es
    | .fn _ _ => False
    | .native _ => False
    | .closure _ _ => False
  def StorableL : List (OVal × OVal) → Prop
    | [] => True
    | (k, v) :: r => Storable k ∧ Storable v ∧ (∀ e ∈ r, e.1 ≠ k) ∧ StorableL r
end

mutual
  /-- executable version of `Storable` -/
  def storableB : OVal → Bool
    | .nil => true
    | .int _ => true
    | .real _ => true
    | .str _ => true
    | .table es => storableLB es
    | .fn _ _ => false
    | .native _ => false
    | .closure _ _ => false
  def storableLB : List (OVal × OVal) → Bool
    | [] => true
    | (k, v) :: r =>
      storableB k && storableB v && r.all (fun e => decide (e.1 ≠ k)) && storableLB r
end

mutual
  theorem storableB_iff : ∀ o : OVal, storableB o = true ↔ Storable o
    | .nil => by simp [storableB, Storable]
    | .int _ => by simp [storableB, Storable]
    | .real _ => by simp [storableB, Storable]
    | .str _ => by simp [storableB, Storable]
    | .fn _ _ => by simp [storableB, Storable]
    | .native _ => by simp [storableB, Storable]
    | .closure _ _ => by simp [storableB, Storable]
    | .table es => by simp only [storableB, Storable]; exact storableLB_iff es
  theorem storableLB_iff : ∀ es : List (OVal × OVal), storableLB es = true ↔ StorableL es
    | [] => by simp [storableLB, StorableL]
    | (k, v) :: r => by
      simp only [storableLB, StorableL, Bool.and_eq_true, storableB_iff k, storableB_iff v,
        storableLB_iff r, List.all_eq_true, decide_eq_true_eq, and_assoc]
end

instance (o : OVal) : Decidable (Storable o) := decidable_of_iff _ (storableB_iff o)

theorem storableL_iff (oes : List (OVal × OVal)) :
    StorableL oes ↔ (∀ oe ∈ oes, Storable oe.1 ∧ Storable oe.2) ∧ (oes.map Prod.fst).Nodup := by
  induction oes with
  | nil => simp [StorableL]
  | cons x r ih =>
    obtain ⟨k, v⟩ := x
    simp only [StorableL, ih, List.mem_cons, forall_eq_or_imp, List.map_cons, List.nodup_cons,
      List.mem_map, not_exists, not_and]
    constructor
    · rintro ⟨h1, h2, h3, h4, h5⟩
      exact ⟨⟨⟨h1, h2⟩, h4⟩, fun e he => h3 e he, h5⟩
    · rintro ⟨⟨⟨h1, h2⟩, h4⟩, h3, h5⟩
      exact ⟨h1, h2, fun e he => h3 e he, h4, h5⟩

mutual
  /-- no function value anywhere in the tree (`OwnedValue` has none) -/
  def NoFn : OVal → Prop
    | .nil => True
    | .int _ => True
    | .real _ => True
    | .str _ => True
    | .table es => NoFnL es
    | .fn _ _ => False
    | .native _ => False
    | .closure _ _ => False
  def NoFnL : List (OVal × OVal) → Prop
    | [] => True
    | (k, v) :: r => NoFn k ∧ NoFn v ∧ NoFnL r
end

theorem noFnL_iff (oes : List (OVal × OVal)) :
    NoFnL oes ↔ ∀ oe ∈ oes, NoFn oe.1 ∧ NoFn oe.2 := by
  induction oes with
  | nil => simp [NoFnL]
  | cons x r ih =>
    obtain ⟨k, v⟩ := x
    simp only [NoFnL, ih, List.mem_cons, forall_eq_or_imp, and_assoc]

/-- the keys of every table of the heap are pairwise different as deep values — what
    `CaoLangTable::insert` establishes when it adds a key (it is *not* an invariant of the VM:
    mutating a table that is used as a key can make two keys equal afterwards) -/
def KeysDistinct (h : Heap) : Prop :=
  ∀ a cap es, h.get a = some (.table cap es) → (es.map (fun e => ownD h e.1)).Nodup

/-- in such a heap every value that unfolds without function values is storable -/
theorem storable_of_own {h : Heap} (hk : KeysDistinct h) :
    ∀ (f : Nat) (v : Val) (o : OVal), own h f v = some o → NoFn o → Storable o := by
  intro f
  induction f with
  | zero =>
    intro v o ho _
    cases v with
    | obj a => rw [own_zero_obj] at ho; cases ho
    | nil => rw [(own_scalar h 0).1] at ho; cases ho; simp [Storable]
    | int i => rw [(own_scalar h 0).2.1] at ho; cases ho; simp [Storable]
    | real b => rw [(own_scalar h 0).2.2] at ho; cases ho; simp [Storable]
  | succ f ih =>
    intro v o ho hnf
    cases v with
    | nil => rw [(own_scalar h _).1] at ho; cases ho; simp [Storable]
    | int i => rw [(own_scalar h _).2.1] at ho; cases ho; simp [Storable]
    | real b => rw [(own_scalar h _).2.2] at ho; cases ho; simp [Storable]
    | obj a =>
      cases hg : h.get a with
      | none => rw [own_none hg] at ho; cases ho
      | some ob =>
        by_cases hnt : ∀ cap es, ob ≠ .table cap es
        · rw [own_nontable hg hnt] at ho
          cases ob <;> simp [ownNT] at ho <;> subst ho <;> simp_all [Storable, NoFn]
        · have : ∃ cap es, ob = .table cap es := by
            cases ob with
            | table cap es => exact ⟨cap, es, rfl⟩
            | _ => exact absurd (fun _ _ h => by cases h) hnt
          obtain ⟨cap, es, rfl⟩ := this
          obtain ⟨oes, rfl, hall⟩ := (own_table hg f o).mp ho
          simp only [Storable, NoFn] at hnf ⊢
          rw [storableL_iff]
          rw [noFnL_iff] at hnf
          constructor
          · intro oe hoe
            obtain ⟨e, _, h1, h2⟩ := hall.mem_right oe hoe
            exact ⟨ih _ _ h1 (hnf oe hoe).1, ih _ _ h2 (hnf oe hoe).2⟩
          · have := hk a cap es hg
            rw [← all2_map_ownD hall, List.map_map]
            exact this

/-! ## heaps -/

/-- the objects at addresses `≥ n` -/
def heapAbove (h : Heap) (n : Nat) : Heap :=
  { h with objs := h.objs.filter (fun p => decide (n ≤ p.1)) }

theorem heapAbove_get (h : Heap) (n b : Nat) :
    (heapAbove h n).get b = if n ≤ b then h.get b else none := by
  unfold heapAbove Heap.get
  simp only
  split
  · rename_i hb
    rw [find?_filter_of_imp]
    intro x _ hx
    have : x.1 = b := by simpa using hx
    simp [this, hb]
  · rename_i hb
    have : (h.objs.filter (fun p => decide (n ≤ p.1))).find? (fun x => x.1 == b) = none := by
      rw [List.find?_eq_none]
      intro x hx hxb
      have h1 : n ≤ x.1 := by simpa using (List.mem_filter.mp hx).2
      have h2 : x.1 = b := by simpa using hxb
      omega
    rw [this]; rfl

theorem heapAbove_sub (h : Heap) (n b : Nat) (ob : Obj) (hg : (heapAbove h n).get b = some ob) :
    n ≤ b ∧ h.get b = some ob := by
  rw [heapAbove_get] at hg
  split at hg
  · exact ⟨by assumption, hg⟩
  · cases hg

theorem heapAbove_mono (h : Heap) {n m : Nat} (hnm : n ≤ m) (b : Nat) (ob : Obj)
    (hg : (heapAbove h m).get b = some ob) : (heapAbove h n).get b = some ob := by
  obtain ⟨h1, h2⟩ := heapAbove_sub h m b ob hg
  rw [heapAbove_get, if_pos (by omega)]; exact h2

theorem get_mem {h : Heap} {a : Nat} {ob : Obj} (hg : h.get a = some ob) : (a, ob) ∈ h.objs := by
  unfold Heap.get at hg
  cases hf : h.objs.find? (fun x => x.1 == a) with
  | none => rw [hf] at hg; cases hg
  | some p =>
    rw [hf] at hg
    have hp := List.mem_of_find?_eq_some hf
    have hpa : p.1 = a := by simpa using List.find?_some hf
    simp only [Option.map_some, Option.some.injEq] at hg
    rw [← hpa, ← hg]; exact hp

theorem get_lt_next {h : Heap} (hf : FreshNext h) {a : Nat} {ob : Obj} (hg : h.get a = some ob) :
    a < h.next := hf _ (get_mem hg)

theorem get_none_of_ge {h : Heap} (hf : FreshNext h) {a : Nat} (ha : h.next ≤ a) :
    h.get a = none := by
  cases hg : h.get a with
  | none => rfl
  | some ob => have := get_lt_next hf hg; omega

/-- `Heap.set`, address by address -/
theorem set_get (h : Heap) (a : Nat) (ob : Obj) (b : Nat) :
    (h.set a ob).get b = if b = a then (h.get a).map (fun _ => ob) else h.get b := by
  unfold Heap.set Heap.get
  simp only
  induction h.objs with
  | nil => simp
  | cons p l ih =>
    simp only [List.map_cons, List.find?_cons]
    by_cases hpa : p.1 = a
    · simp only [hpa, beq_self_eq_true, if_true]
      by_cases hba : b = a
      · subst hba; simp
      · have : (a == b) = false := by simp; exact fun e => hba e.symm
        simp only [this, hba, if_false]
        rw [ih]; simp [hba]
    · have h1 : (p.1 == a) = false := by simp [hpa]
      simp only [h1, Bool.false_eq_true, if_false]
      by_cases hpb : p.1 = b
      · have hba : b ≠ a := fun e => hpa (hpb.trans e)
        simp [hpb, hba]
      · have h2 : (p.1 == b) = false := by simp [hpb]
        simp only [h2]
        exact ih

/-- the new object of `withObject` -/
theorem withObject_get (o : Obj) (s : VmState) (hf : FreshNext s.heap) (b : Nat) :
    (withObject o s).heap.get b = if b = s.heap.next then some o else s.heap.get b := by
  unfold withObject Heap.get
  simp only [List.find?_append]
  split
  · rename_i hb
    subst hb
    have : s.heap.objs.find? (fun x => x.1 == s.heap.next) = none := by
      rw [List.find?_eq_none]
      intro x hx hxb
      have h1 := hf x hx
      have h2 : x.1 = s.heap.next := by simpa using hxb
      omega
    rw [this]; simp
  · rename_i hb
    cases hfnd : s.heap.objs.find? (fun x => x.1 == b) with
    | some p => simp
    | none =>
      have : (s.heap.next == b) = false := by simp; exact fun e => hb e.symm
      simp [this]

/-! ## roots -/

/-- everything but the guard list -/
def SameRoots (s s' : VmState) : Prop :=
  s'.stack = s.stack ∧ s'.globals = s.globals ∧ s'.frames = s.frames ∧
  s'.openUpvalues = s.openUpvalues

theorem SameRoots.refl (s : VmState) : SameRoots s s := ⟨rfl, rfl, rfl, rfl⟩

theorem SameRoots.trans {s t u : VmState} (h1 : SameRoots s t) (h2 : SameRoots t u) :
    SameRoots s u :=
  ⟨h2.1.trans h1.1, h2.2.1.trans h1.2.1, h2.2.2.1.trans h1.2.2.1, h2.2.2.2.trans h1.2.2.2⟩

theorem mem_rootAddrs (s : VmState) (a : Nat) :
    a ∈ rootAddrs s ↔ Val.obj a ∈ s.stack.contents ∨ Val.obj a ∈ s.globals ∨
      a ∈ s.frames.filterMap (·.closure) ∨ a ∈ s.openUpvalues ∨ a ∈ s.guards := by
  unfold rootAddrs
  rw [mem_addrs]
  unfold Vm.roots
  simp only [List.mem_append, List.mem_map, Val.obj.injEq, exists_eq_right, or_assoc]

theorem rootAddrs_sub {s s' : VmState} (hr : SameRoots s s') (hg : ∀ a ∈ s.guards, a ∈ s'.guards) :
    ∀ a ∈ rootAddrs s, a ∈ rootAddrs s' := by
  intro a ha
  rw [mem_rootAddrs] at ha ⊢
  obtain ⟨h1, h2, h3, h4⟩ := hr
  rw [h1, h2, h3, h4]
  rcases ha with h | h | h | h | h
  · exact Or.inl h
  · exact Or.inr (Or.inl h)
  · exact Or.inr (Or.inr (Or.inl h))
  · exact Or.inr (Or.inr (Or.inr (Or.inl h)))
  · exact Or.inr (Or.inr (Or.inr (Or.inr (hg a h))))

theorem guard_mem_rootAddrs {s : VmState} {a : Nat} (h : a ∈ s.guards) : a ∈ rootAddrs s :=
  (mem_rootAddrs s a).mpr (Or.inr (Or.inr (Or.inr (Or.inr h))))

/-! ## preservation of the reachable part of a heap -/

/-- every object of `h` reachable from `rs` is still there in `h'`: unchanged outside `X`, and with
    at least the same children inside `X` -/
def KeepsR (rs : List Nat) (X : Nat → Prop) (h h' : Heap) : Prop :=
  ∀ b ob, Reach h rs b → h.get b = some ob →
    ∃ ob', h'.get b = some ob' ∧ (¬ X b → ob' = ob) ∧
      ∀ c, Val.obj c ∈ Heap.children ob → Val.obj c ∈ Heap.children ob'

theorem KeepsR.refl (rs : List Nat) (X : Nat → Prop) (h : Heap) : KeepsR rs X h h :=
  fun _ ob _ hg => ⟨ob, hg, fun _ => rfl, fun _ hc => hc⟩

theorem KeepsR.reach {rs : List Nat} {X : Nat → Prop} {h h' : Heap} (hk : KeepsR rs X h h')
    {b : Nat} (hb : Reach h rs b) : Reach h' rs b := by
  induction hb with
  | root hr => exact Reach.root hr
  | step hr ho hc ih =>
    obtain ⟨ob', h1, _, h3⟩ := hk _ _ hr ho
    exact Reach.step ih h1 (h3 _ hc)

theorem KeepsR.trans {rs : List Nat} {X : Nat → Prop} {h h1 h2 : Heap}
    (k1 : KeepsR rs X h h1) (k2 : KeepsR rs X h1 h2) : KeepsR rs X h h2 := by
  intro b ob hb hg
  obtain ⟨ob1, g1, e1, c1⟩ := k1 b ob hb hg
  obtain ⟨ob2, g2, e2, c2⟩ := k2 b ob1 (k1.reach hb) g1
  exact ⟨ob2, g2, fun hx => (e2 hx).trans (e1 hx), fun c hc => c2 c (c1 c hc)⟩

theorem KeepsR.mono_roots {rs rs' : List Nat} {X : Nat → Prop} {h h' : Heap}
    (hsub : ∀ a ∈ rs, a ∈ rs') (hk : KeepsR rs' X h h') : KeepsR rs X h h' :=
  fun b ob hb hg => hk b ob (Reach.mono (fun r hr => Reach.root (hsub r hr)) hb) hg

theorem KeepsR.mono_X {rs : List Nat} {X Y : Nat → Prop} {h h' : Heap}
    (hxy : ∀ b, X b → Y b) (hk : KeepsR rs X h h') : KeepsR rs Y h h' := by
  intro b ob hb hg
  obtain ⟨ob', g, e, c⟩ := hk b ob hb hg
  exact ⟨ob', g, fun hy => e (fun hx => hy (hxy b hx)), c⟩

theorem KeepsR.of_sub {rs : List Nat} {X : Nat → Prop} {h h' : Heap}
    (hsub : ∀ b ob, h.get b = some ob → h'.get b = some ob) : KeepsR rs X h h' :=
  fun b ob _ hg => ⟨ob, hsub b ob hg, fun _ => rfl, fun _ hc => hc⟩

theorem KeepsR.of_obsEq {s t : VmState} (X : Nat → Prop) (h : ObsEq s t) :
    KeepsR (rootAddrs s) X s.heap t.heap :=
  fun b ob hb hg => ⟨ob, by rw [h.fwd b hb]; exact hg, fun _ => rfl, fun _ hc => hc⟩

/-- what lives above `n` and is reachable survives a step that only touches addresses below `n` -/
theorem Owns.keep_above {rs : List Nat} {X : Nat → Prop} {h h' : Heap} {n : Nat}
    (hk : KeepsR rs X h h') (hX : ∀ b, X b → b < n) {v : Val} {o : OVal}
    (hv : ∀ a, v = .obj a → Reach h rs a) (ho : Owns (heapAbove h n) v o) :
    Owns (heapAbove h' n) v o := by
  apply Owns.keep (fun b => Reach h rs b) ?_ ?_ hv ho
  · intro b ob hb hg
    obtain ⟨hnb, hg'⟩ := heapAbove_sub h n b ob hg
    obtain ⟨ob', g, e, _⟩ := hk b ob hb hg'
    have : ob' = ob := e (fun hx => by have := hX b hx; omega)
    rw [heapAbove_get, if_pos hnb, g, this]
  · intro b ob c hb hg hc
    exact Reach.step hb (heapAbove_sub h n b ob hg).2 hc

theorem OwnsEntry.keep_above {rs : List Nat} {X : Nat → Prop} {h h' : Heap} {n : Nat}
    (hk : KeepsR rs X h h') (hX : ∀ b, X b → b < n) {e : Val × Val} {oe : OVal × OVal}
    (h1 : ∀ a, e.1 = .obj a → Reach h rs a) (h2 : ∀ a, e.2 = .obj a → Reach h rs a)
    (ho : OwnsEntry (heapAbove h n) e oe) : OwnsEntry (heapAbove h' n) e oe :=
  ⟨Owns.keep_above hk hX h1 ho.1, Owns.keep_above hk hX h2 ho.2⟩

theorem Owns.of_above {h : Heap} {n : Nat} {v : Val} {o : OVal} (ho : Owns (heapAbove h n) v o) :
    Owns h v o :=
  Owns.mono_heap (fun b ob hg => (heapAbove_sub h n b ob hg).2) ho

theorem Owns.above_mono {h : Heap} {n m : Nat} (hnm : n ≤ m) {v : Val} {o : OVal}
    (ho : Owns (heapAbove h m) v o) : Owns (heapAbove h n) v o :=
  Owns.mono_heap (heapAbove_mono h hnm) ho

/-! ## the invariant and the shape of one step -/

structure HeapOk (s : VmState) : Prop where
  unique : UniqueAddrs s.heap
  fresh : FreshNext s.heap

/-- a step that keeps the roots, the guard list and the reachable heap (outside `X`) -/
structure Good (X : Nat → Prop) (s s' : VmState) : Prop where
  ok : HeapOk s'
  next_le : s.heap.next ≤ s'.heap.next
  roots : SameRoots s s'
  guards : s'.guards = s.guards
  keeps : KeepsR (rootAddrs s) X s.heap s'.heap

theorem Good.rootAddrs_eq {X : Nat → Prop} {s s' : VmState} (g : Good X s s') :
    rootAddrs s' = rootAddrs s := by
  unfold rootAddrs Vm.roots
  obtain ⟨h1, h2, h3, h4⟩ := g.roots
  rw [h1, h2, h3, h4, g.guards]

theorem Good.trans {X : Nat → Prop} {s t u : VmState} (g1 : Good X s t) (g2 : Good X t u) :
    Good X s u where
  ok := g2.ok
  next_le := Nat.le_trans g1.next_le g2.next_le
  roots := g1.roots.trans g2.roots
  guards := g2.guards.trans g1.guards
  keeps := g1.keeps.trans (by have := g2.keeps; rw [g1.rootAddrs_eq] at this; exact this)

theorem Good.mono_X {X Y : Nat → Prop} {s s' : VmState} (hxy : ∀ b, X b → Y b) (g : Good X s s') :
    Good Y s s' :=
  ⟨g.ok, g.next_le, g.roots, g.guards, g.keeps.mono_X hxy⟩

def noX : Nat → Prop := fun _ => False

/-! ## primitives -/

theorem allocPure_cases (c : Nat) (s : VmState) :
    (∃ s', allocPure c s = (.ok (), s')) ∨ ∃ s', allocPure c s = (.error .outOfMemory, s') := by
  unfold allocPure
  dsimp only
  split
  · exact Or.inr ⟨_, rfl⟩
  · exact Or.inl ⟨_, rfl⟩

/-- a successful `allocBytes` is a `Good` step -/
theorem allocPure_good {c : Nat} {s s' : VmState} (hok : HeapOk s)
    (h : allocPure c s = (.ok (), s')) : Good noX s s' ∧ s'.heap.next = s.heap.next := by
  have hobs := allocBytes_obs c s
  have hun := allocBytes_unique c s hok.unique hok.fresh
  rw [allocBytes_run, h] at hobs hun
  exact ⟨⟨⟨hun.1, hun.2⟩, by rw [hobs.next]; exact Nat.le_refl _,
    ⟨hobs.stack, hobs.globals, hobs.frames, hobs.openUpvalues⟩, hobs.guards,
    KeepsR.of_obsEq _ hobs⟩, hobs.next⟩

/-- `refund` changes only the byte counter -/
theorem refund_good (c : Nat) {s : VmState} (hok : HeapOk s) : Good noX s (refund c s) :=
  ⟨⟨hok.unique, hok.fresh⟩, Nat.le_refl _, SameRoots.refl _, rfl, KeepsR.refl _ _ _⟩

/-- the two allocations of `init_string` / `init_table` followed by the new (guarded) object -/
theorem alloc2Pure_spec (c1 c2 : Nat) (ob : Obj) {s : VmState} (hok : HeapOk s) :
    (∃ s', alloc2Pure c1 c2 ob s = (.error .outOfMemory, s')) ∨
    ∃ s1 s', alloc2Pure c1 c2 ob s = (.ok s.heap.next, s') ∧ s' = withObject ob s1 ∧
      Good noX s s1 ∧ s1.heap.next = s.heap.next := by
  unfold alloc2Pure
  rcases allocPure_cases c1 s with ⟨s1, h1⟩ | ⟨s1, h1⟩
  · rw [h1]
    dsimp only
    obtain ⟨g1, n1⟩ := allocPure_good hok h1
    rcases allocPure_cases c2 s1 with ⟨s2, h2⟩ | ⟨s2, h2⟩
    · rw [h2]
      dsimp only
      obtain ⟨g2, n2⟩ := allocPure_good g1.ok h2
      refine Or.inr ⟨s2, _, ?_, rfl, g1.trans g2, by rw [n2, n1]⟩
      rw [n2, n1]
    · rw [h2]; exact Or.inl ⟨_, rfl⟩
  · rw [h1]; exact Or.inl ⟨_, rfl⟩

/-- adding a fresh guarded object -/
theorem withObject_facts (ob : Obj) {s : VmState} (hok : HeapOk s) :
    HeapOk (withObject ob s) ∧ SameRoots s (withObject ob s) ∧
    (withObject ob s).guards = s.heap.next :: s.guards ∧
    (withObject ob s).heap.next = s.heap.next + 1 ∧
    (withObject ob s).heap.get s.heap.next = some ob ∧
    (∀ b ob', s.heap.get b = some ob' → (withObject ob s).heap.get b = some ob') := by
  have hu := withObject_unique ob s hok.unique hok.fresh
  refine ⟨⟨hu.1, hu.2⟩, ⟨rfl, rfl, rfl, rfl⟩, rfl, rfl, ?_, ?_⟩
  · rw [withObject_get ob s hok.fresh, if_pos rfl]
  · intro b ob' hg
    have := get_lt_next hok.fresh hg
    rw [withObject_get ob s hok.fresh, if_neg (by omega)]; exact hg

/-- the state a successful `init_string` / `init_table` ends in, relative to the start -/
theorem alloc2Pure_ok {c1 c2 : Nat} {ob : Obj} {s s' : VmState} {a : Nat} (hok : HeapOk s)
    (h : alloc2Pure c1 c2 ob s = (.ok a, s')) :
    a = s.heap.next ∧ HeapOk s' ∧ s'.heap.next = s.heap.next + 1 ∧ SameRoots s s' ∧
    s'.guards = s.heap.next :: s.guards ∧ s'.heap.get s.heap.next = some ob ∧
    KeepsR (rootAddrs s) noX s.heap s'.heap := by
  rcases alloc2Pure_spec c1 c2 ob hok with ⟨s'', h'⟩ | ⟨s1, s'', h', rfl, g1, n1⟩
  · rw [h'] at h; cases h
  · rw [h'] at h
    simp only [Prod.mk.injEq, Except.ok.injEq] at h
    obtain ⟨rfl, rfl⟩ := h
    obtain ⟨w1, w2, w3, w4, w5, w6⟩ := withObject_facts ob g1.ok
    refine ⟨rfl, w1, by rw [w4, n1], g1.roots.trans w2, by rw [w3, n1, g1.guards],
      by rw [← n1]; exact w5, g1.keeps.trans (KeepsR.of_sub w6)⟩

theorem alloc2Pure_err {c1 c2 : Nat} {ob : Obj} {s s' : VmState} {e : ErrKind} (hok : HeapOk s)
    (h : alloc2Pure c1 c2 ob s = (.error e, s')) : e = .outOfMemory := by
  rcases alloc2Pure_spec c1 c2 ob hok with ⟨s'', h'⟩ | ⟨s1, s'', h', _⟩
  · rw [h'] at h; cases h; rfl
  · rw [h'] at h; cases h

theorem children_entry {cap : Nat} {es : List (Val × Val)} {e : Val × Val} (he : e ∈ es) {a : Nat}
    (ha : e.1 = .obj a ∨ e.2 = .obj a) : Val.obj a ∈ Heap.children (.table cap es) := by
  simp only [Heap.children, List.mem_flatMap]
  refine ⟨e, he, ?_⟩
  rcases ha with h | h <;> simp [h]

theorem children_append {cap cap' : Nat} {es : List (Val × Val)} (e : Val × Val) {c : Nat}
    (hc : Val.obj c ∈ Heap.children (.table cap es)) :
    Val.obj c ∈ Heap.children (.table cap' (es ++ [e])) := by
  simp only [Heap.children, List.flatMap_append, List.mem_append] at hc ⊢
  exact Or.inl hc

/-- overwriting one object by one with at least the same children -/
theorem set_keeps (rs : List Nat) {h : Heap} {t : Nat} {ob ob' : Obj} (hg : h.get t = some ob)
    (hc : ∀ c, Val.obj c ∈ Heap.children ob → Val.obj c ∈ Heap.children ob') :
    KeepsR rs (fun b => b = t) h (h.set t ob') := by
  intro b ob1 _ hb
  by_cases hbt : b = t
  · subst hbt
    rw [hg] at hb; cases hb
    exact ⟨ob', by rw [set_get, if_pos rfl, hg]; rfl, fun hx => absurd rfl hx, hc⟩
  · exact ⟨ob1, by rw [set_get, if_neg hbt]; exact hb, fun _ => rfl, fun _ h => h⟩

/-- `CaoLangTable::insert` of a key that is not in the table yet, on a guarded table -/
theorem tableInsert_spec {s : VmState} (hok : HeapOk s) {t cap : Nat} {esV : List (Val × Val)}
    (hget : s.heap.get t = some (.table cap esV)) (hroot : t ∈ s.guards) (kv vv : Val)
    (hfresh : ∀ e ∈ esV, ownD s.heap e.1 ≠ ownD s.heap kv) :
    (∃ s', tableInsertPure t kv vv s = (.error .outOfMemory, s')) ∨
    ∃ s' cap', tableInsertPure t kv vv s = (.ok (), s') ∧ Good (fun b => b = t) s s' ∧
      s'.heap.get t = some (.table cap' (esV ++ [(kv, vv)])) := by
  unfold tableInsertPure
  rw [hget]
  dsimp only
  have hfind : findEntry s.heap esV (ownD s.heap kv) = none := by
    unfold findEntry
    rw [List.find?_eq_none]
    intro e he
    simpa using hfresh e he
  simp only [hfind, Option.isSome_none, Bool.false_eq_true, if_false]
  by_cases hgrow : HMap.needsGrow (esV.length + 1) cap = true
  · simp only [hgrow, if_true]
    rcases allocPure_cases (Heap.tableCharge (HMap.growCap cap)) s with ⟨s1, h1⟩ | ⟨s1, h1⟩
    · rw [h1]
      dsimp only
      obtain ⟨g1, n1⟩ := allocPure_good hok h1
      have hget1 : s1.heap.get t = some (.table cap esV) := by
        obtain ⟨ob', q1, q2, _⟩ := g1.keeps t _ (Reach.root (guard_mem_rootAddrs hroot)) hget
        rw [q1, q2 (fun h => h)]
      refine Or.inr ⟨_, HMap.growCap cap, rfl, ?_, ?_⟩
      · refine ⟨⟨set_unique _ _ _ g1.ok.unique, set_fresh _ _ _ g1.ok.fresh⟩, g1.next_le, g1.roots,
          g1.guards, ?_⟩
        exact (g1.keeps.mono_X (fun _ h => h.elim)).trans
          (set_keeps _ hget1 (fun c hc => children_append _ hc))
      · show ((refund _ s1).heap.set t _).get t = _
        rw [set_get, if_pos rfl]
        show (s1.heap.get t).map _ = _
        rw [hget1]; rfl
    · rw [h1]; exact Or.inl ⟨_, rfl⟩
  · simp only [hgrow, Bool.false_eq_true, if_false]
    refine Or.inr ⟨_, cap, rfl, ?_, ?_⟩
    · exact ⟨⟨set_unique _ _ _ hok.unique, set_fresh _ _ _ hok.fresh⟩, Nat.le_refl _,
        SameRoots.refl _, rfl, set_keeps _ hget (fun c hc => children_append _ hc)⟩
    · show (s.heap.set t _).get t = _
      rw [set_get, if_pos rfl, hget]; rfl

/-! ## guards -/

def pushL (v : Val) (g : List Nat) : List Nat :=
  match v with
  | .obj a => a :: g
  | _ => g

def pushG (v : Val) (s : VmState) : VmState := { s with guards := pushL v s.guards }

def dropL (v : Val) (g : List Nat) : List Nat :=
  match v with
  | .obj a => g.erase a
  | _ => g

def dropG (v : Val) (s : VmState) : VmState := { s with guards := dropL v s.guards }

theorem dropL_pushL (v : Val) (g : List Nat) : dropL v (pushL v g) = g := by
  cases v <;> simp [dropL, pushL]

theorem guardValue_run (v : Val) (s : VmState) : (guardValue v).run.run s = (.ok (), pushG v s) := by
  cases v <;> rfl

theorem unguardValue_run (v : Val) (s : VmState) : (unguardValue v).run.run s = (.ok (), dropG v s) := by
  cases v <;> rfl

theorem dropGuard_run (a : Nat) (s : VmState) :
    (dropGuard a).run.run s = (.ok (), { s with guards := s.guards.erase a }) := rfl

/-! ## a state in the middle of an operation: `G` are the guards pushed since it started -/

structure Mid (X : Nat → Prop) (G : List Nat) (s0 s : VmState) : Prop where
  ok : HeapOk s
  next_le : s0.heap.next ≤ s.heap.next
  roots : SameRoots s0 s
  guards : s.guards = G ++ s0.guards
  keeps : KeepsR (rootAddrs s0) X s0.heap s.heap

theorem Mid.refl (X : Nat → Prop) {s : VmState} (hok : HeapOk s) : Mid X [] s s :=
  ⟨hok, Nat.le_refl _, SameRoots.refl _, rfl, KeepsR.refl _ _ _⟩

theorem Mid.roots_sub {X : Nat → Prop} {G : List Nat} {s0 s : VmState} (m : Mid X G s0 s) :
    ∀ a ∈ rootAddrs s0, a ∈ rootAddrs s :=
  rootAddrs_sub m.roots (fun a ha => by rw [m.guards]; exact List.mem_append_right _ ha)

theorem Mid.step {X Y : Nat → Prop} {G : List Nat} {s0 s s' : VmState} (m : Mid X G s0 s)
    (g : Good Y s s') (hyx : ∀ b, Y b → X b) : Mid X G s0 s' where
  ok := g.ok
  next_le := Nat.le_trans m.next_le g.next_le
  roots := m.roots.trans g.roots
  guards := by rw [g.guards, m.guards]
  keeps := m.keeps.trans ((g.keeps.mono_roots m.roots_sub).mono_X hyx)

theorem Mid.push {X : Nat → Prop} {G : List Nat} {s0 s : VmState} (m : Mid X G s0 s) (v : Val) :
    Mid X (pushL v G) s0 (pushG v s) where
  ok := ⟨m.ok.unique, m.ok.fresh⟩
  next_le := m.next_le
  roots := m.roots
  guards := by
    show pushL v s.guards = _
    rw [m.guards]; cases v <;> rfl
  keeps := m.keeps

theorem Mid.drop {X : Nat → Prop} {G : List Nat} {s0 s : VmState} {v : Val}
    (m : Mid X (pushL v G) s0 s) : Mid X G s0 (dropG v s) where
  ok := ⟨m.ok.unique, m.ok.fresh⟩
  next_le := m.next_le
  roots := m.roots
  guards := by
    show dropL v s.guards = _
    rw [m.guards]
    cases v <;> simp [dropL, pushL]
  keeps := m.keeps

theorem Mid.good {X : Nat → Prop} {s0 s : VmState} (m : Mid X [] s0 s) : Good X s0 s :=
  ⟨m.ok, m.next_le, m.roots, by rw [m.guards]; rfl, m.keeps⟩

theorem KeepsR.restrict {rs : List Nat} {X : Nat → Prop} {h h' : Heap} (hk : KeepsR rs X h h')
    (hx : ∀ b ob, h.get b = some ob → ¬ X b) : KeepsR rs noX h h' := by
  intro b ob hb hg
  obtain ⟨ob', g, e, c⟩ := hk b ob hb hg
  exact ⟨ob', g, fun _ => e (hx b ob hg), c⟩

/-! ## the loop invariant of `insertEntries` -/

/-- the table under construction is guarded, and its entries unfold (above the table's address)
    to the entries done so far -/
structure LoopInv (t : Nat) (s : VmState) (cap : Nat) (esV : List (Val × Val))
    (done : List (OVal × OVal)) : Prop where
  guarded : t ∈ s.guards
  get : s.heap.get t = some (.table cap esV)
  all : All2 (OwnsEntry (heapAbove s.heap (t + 1))) esV done

theorem LoopInv.reach {t : Nat} {s : VmState} {cap : Nat} {esV : List (Val × Val)}
    {done : List (OVal × OVal)} (li : LoopInv t s cap esV done) :
    Reach s.heap (rootAddrs s) t := Reach.root (guard_mem_rootAddrs li.guarded)

theorem LoopInv.entry_reach {t : Nat} {s : VmState} {cap : Nat} {esV : List (Val × Val)}
    {done : List (OVal × OVal)} (li : LoopInv t s cap esV done) {e : Val × Val} (he : e ∈ esV)
    {a : Nat} (ha : e.1 = .obj a ∨ e.2 = .obj a) : Reach s.heap (rootAddrs s) a :=
  Reach.step li.reach li.get (children_entry he ha)

/-- a step that leaves reachable objects alone keeps the loop invariant -/
theorem LoopInv.keep {t : Nat} {s s' : VmState} {cap : Nat} {esV : List (Val × Val)}
    {done : List (OVal × OVal)} (li : LoopInv t s cap esV done)
    (hk : KeepsR (rootAddrs s) noX s.heap s'.heap) (hg : t ∈ s'.guards) :
    LoopInv t s' cap esV done where
  guarded := hg
  get := by
    obtain ⟨ob', q1, q2, _⟩ := hk t _ li.reach li.get
    rw [q1, q2 (fun h => h)]
  all := by
    apply li.all.imp_mem
    intro e he oe hoe
    exact OwnsEntry.keep_above hk (fun _ h => h.elim)
      (fun a ha => li.entry_reach he (Or.inl ha)) (fun a ha => li.entry_reach he (Or.inr ha)) hoe

theorem LoopInv.push {t : Nat} {s : VmState} {cap : Nat} {esV : List (Val × Val)}
    {done : List (OVal × OVal)} (li : LoopInv t s cap esV done) (v : Val) :
    LoopInv t (pushG v s) cap esV done where
  guarded := by
    show t ∈ pushL v s.guards
    cases v <;> simp [pushL, li.guarded]
  get := li.get
  all := li.all

/-- the deep keys already in the table -/
theorem LoopInv.keys {t : Nat} {s : VmState} {cap : Nat} {esV : List (Val × Val)}
    {done : List (OVal × OVal)} (li : LoopInv t s cap esV done) {e : Val × Val} (he : e ∈ esV) :
    ∃ oe ∈ done, ownD s.heap e.1 = oe.1 := by
  obtain ⟨oe, hoe, h1, _⟩ := li.all.mem_left e he
  exact ⟨oe, hoe, (Owns.of_above h1).ownD⟩

/-! ## specification of `insertValue` / `insertEntries` -/

/-- the accounting invariant of C05 does not mention the guard list -/
theorem inv_guards {s : VmState} (g : List Nat) (h : C05.Inv s) : C05.Inv { s with guards := g } :=
  ⟨h.ledger, h.within, h.unique, h.fresh, h.threshold⟩

theorem inv_pushG {s : VmState} (v : Val) (h : C05.Inv s) : C05.Inv (pushG v s) := inv_guards _ h
theorem inv_dropG {s : VmState} (v : Val) (h : C05.Inv s) : C05.Inv (dropG v s) := inv_guards _ h

def PostV (s : VmState) (o : OVal) : Except ErrKind Val × VmState → Prop
  | (.error e, s') => e = .outOfMemory ∧ (C05.Inv s → C05.Inv s')
  | (.ok v', s') => Good noX s s' ∧ Owns (heapAbove s'.heap s.heap.next) v' o ∧
      (C05.Inv s → C05.Inv s')

def SpecV (o : OVal) : Prop :=
  ∀ s, HeapOk s → Storable o → PostV s o ((insertValue o).run.run s)

def PostE (t : Nat) (s : VmState) (all : List (OVal × OVal)) : Except ErrKind Unit × VmState → Prop
  | (.error e, s') => e = .outOfMemory ∧ (C05.Inv s → C05.Inv s')
  | (.ok (), s') => Good (fun b => b = t) s s' ∧ (∃ cap' esV', LoopInv t s' cap' esV' all) ∧
      (C05.Inv s → C05.Inv s')

def SpecE (es : List (OVal × OVal)) : Prop :=
  ∀ (s : VmState) (t cap : Nat) (esV : List (Val × Val)) (done : List (OVal × OVal)),
    HeapOk s → StorableL es → LoopInv t s cap esV done →
    (∀ oe ∈ done, ∀ oe' ∈ es, oe.1 ≠ oe'.1) →
    PostE t s (done ++ es) ((insertEntries t es).run.run s)

theorem specV_scalar : SpecV .nil ∧ (∀ i, SpecV (.int i)) ∧ (∀ b, SpecV (.real b)) := by
  refine ⟨?_, ?_, ?_⟩
  · intro s hok _
    rw [insertValue]
    exact ⟨(Mid.refl noX hok).good, Owns.nil _, id⟩
  · intro i s hok _
    rw [insertValue]
    exact ⟨(Mid.refl noX hok).good, Owns.int _ i, id⟩
  · intro b s hok _
    rw [insertValue]
    exact ⟨(Mid.refl noX hok).good, Owns.real _ b, id⟩

theorem specV_fn : (∀ hd ar, SpecV (.fn hd ar)) ∧ (∀ hd, SpecV (.native hd)) ∧
    (∀ hd ar, SpecV (.closure hd ar)) :=
  ⟨fun _ _ _ _ h => h.elim, fun _ _ _ h => h.elim, fun _ _ _ _ h => h.elim⟩

theorem specV_str (b : List UInt8) : SpecV (.str b) := by
  intro s hok _
  rw [insertValue]
  have hinv : C05.Inv s → C05.Inv ((initString b).run.run s).2 := C05.initString_inv b s
  simp only [run_bind, initString_run] at hinv ⊢
  rcases ha : alloc2Pure Heap.objCharge (Heap.strCharge b.length) (.str b) s with ⟨r, s1⟩
  rw [ha] at hinv
  cases r with
  | error e => exact ⟨alloc2Pure_err hok ha, hinv⟩
  | ok a =>
    obtain ⟨rfl, hok1, hn1, hr1, hg1, hget1, hk1⟩ := alloc2Pure_ok hok ha
    simp only [dropGuard_run, run_pure]
    refine ⟨⟨⟨hok1.unique, hok1.fresh⟩, by show s.heap.next ≤ s1.heap.next; omega, hr1, ?_, hk1⟩, ?_,
      fun hi => inv_guards _ (hinv hi)⟩
    · show s1.guards.erase s.heap.next = s.guards
      rw [hg1]; simp
    · apply Owns.str
      show (heapAbove s1.heap s.heap.next).get s.heap.next = _
      rw [heapAbove_get, if_pos (Nat.le_refl _)]; exact hget1

/-- the loop, given the specification of every key and value in the list -/
theorem specE_of (es : List (OVal × OVal)) (hIH : ∀ oe ∈ es, SpecV oe.1 ∧ SpecV oe.2) :
    SpecE es := by
  induction es with
  | nil =>
    intro s t cap esV done hok _ li _
    rw [insertEntries]
    refine ⟨(Mid.refl _ hok).good, ⟨cap, esV, ?_⟩, id⟩
    rw [List.append_nil]; exact li
  | cons kvp rest ih =>
    obtain ⟨k, v⟩ := kvp
    have ihR : SpecE rest := ih (fun oe h => hIH oe (List.mem_cons_of_mem _ h))
    obtain ⟨ihK, ihV⟩ := hIH (k, v) List.mem_cons_self
    intro s0 t cap esV done hok hst li hdis
    simp only [StorableL] at hst
    obtain ⟨hsk, hsv, hnk, hsr⟩ := hst
    have htlt : t < s0.heap.next := get_lt_next hok.fresh li.get
    rw [insertEntries]
    simp only [run_bind, guardValue_run, unguardValue_run, tableInsert_run]
    -- key
    have pk := ihK s0 hok hsk
    rcases hk : (insertValue k).run.run s0 with ⟨rk, s1⟩
    rw [hk] at pk
    cases rk with
    | error e => exact pk
    | ok kv =>
      obtain ⟨g1, o1, i1⟩ := pk
      have m1 : Mid (fun b => b = t) [] s0 s1 := (Mid.refl _ hok).step g1 (fun _ h => h.elim)
      have li1 : LoopInv t s1 cap esV done := li.keep g1.keeps (by rw [g1.guards]; exact li.guarded)
      have m2 := m1.push kv
      have li2 := li1.push kv
      have i2 : C05.Inv s0 → C05.Inv (pushG kv s1) := fun hi => inv_pushG kv (i1 hi)
      have kvroot : ∀ a, kv = .obj a → Reach (pushG kv s1).heap (rootAddrs (pushG kv s1)) a := by
        intro a ha
        apply Reach.root; apply guard_mem_rootAddrs
        show a ∈ pushL kv s1.guards
        subst ha; simp [pushL]
      -- value
      have pv := ihV (pushG kv s1) m2.ok hsv
      simp only
      rcases hv : (insertValue v).run.run (pushG kv s1) with ⟨rv, s3⟩
      rw [hv] at pv
      cases rv with
      | error e => exact ⟨pv.1, fun hi => pv.2 (i2 hi)⟩
      | ok vv =>
        obtain ⟨g3, o3, i3'⟩ := pv
        have i3 : C05.Inv s0 → C05.Inv s3 := fun hi => i3' (i2 hi)
        have m3 := m2.step g3 (fun _ h => h.elim)
        have li3 : LoopInv t s3 cap esV done :=
          li2.keep g3.keeps (by rw [g3.guards]; exact li2.guarded)
        have o1' : Owns (heapAbove s3.heap s0.heap.next) kv k :=
          Owns.keep_above g3.keeps (fun _ h => h.elim) kvroot o1
        have m4 := m3.push vv
        have li4 := li3.push vv
        have hg4 : (pushG vv s3).guards = pushL vv (pushL kv s0.guards) := by
          have := m4.guards
          rw [this]
          cases vv <;> cases kv <;> simp [pushL]
        have kvroot4 : ∀ a, kv = .obj a →
            Reach (pushG vv s3).heap (rootAddrs (pushG vv s3)) a := by
          intro a ha
          apply Reach.root; apply guard_mem_rootAddrs
          rw [hg4]
          subst ha; cases vv <;> simp [pushL]
        have vvroot4 : ∀ a, vv = .obj a →
            Reach (pushG vv s3).heap (rootAddrs (pushG vv s3)) a := by
          intro a ha
          apply Reach.root; apply guard_mem_rootAddrs
          rw [hg4]
          subst ha; simp [pushL]
        -- table.insert
        have hkd : ownD (pushG vv s3).heap kv = k := (Owns.of_above o1').ownD
        have hfresh : ∀ e ∈ esV, ownD (pushG vv s3).heap e.1 ≠ ownD (pushG vv s3).heap kv := by
          intro e he
          obtain ⟨oe, hoe, hq⟩ := li4.keys he
          rw [hq, hkd]
          exact hdis oe hoe (k, v) List.mem_cons_self
        have i5 : C05.Inv s0 → C05.Inv (tableInsertPure t kv vv (pushG vv s3)).2 := by
          intro hi
          have := C05.tableInsert_inv t kv vv (pushG vv s3) (inv_pushG vv (i3 hi)) li4.reach
          rwa [tableInsert_run] at this
        simp only
        rcases tableInsert_spec m4.ok li4.get li4.guarded kv vv hfresh with
          ⟨s5, h5⟩ | ⟨s5, cap5, h5, g5, hget5⟩
        · rw [h5] at i5 ⊢; exact ⟨rfl, i5⟩
        · rw [h5] at i5 ⊢
          simp only at i5 ⊢
          have m5 := m4.step g5 (fun _ h => h)
          have hn3 : s0.heap.next ≤ (pushG kv s1).heap.next := m2.next_le
          have all5 : All2 (OwnsEntry (heapAbove s5.heap (t + 1))) (esV ++ [(kv, vv)])
              (done ++ [(k, v)]) := by
            apply All2.append
            · apply li4.all.imp_mem
              intro e he oe hoe
              exact OwnsEntry.keep_above g5.keeps (fun b hb => by subst hb; omega)
                (fun a ha => li4.entry_reach he (Or.inl ha))
                (fun a ha => li4.entry_reach he (Or.inr ha)) hoe
            · refine .cons ⟨?_, ?_⟩ .nil
              · exact Owns.keep_above g5.keeps (fun b hb => by subst hb; omega) kvroot4
                  (Owns.above_mono (by omega) o1')
              · exact Owns.keep_above g5.keeps (fun b hb => by subst hb; omega) vvroot4
                  (Owns.above_mono (by omega) o3)
          have m6 : Mid (fun b => b = t) (pushL kv []) s0 (dropG vv s5) := Mid.drop (v := vv) m5
          have m7 : Mid (fun b => b = t) [] s0 (dropG kv (dropG vv s5)) := Mid.drop m6
          have i7 : C05.Inv s0 → C05.Inv (dropG kv (dropG vv s5)) :=
            fun hi => inv_dropG kv (inv_dropG vv (i5 hi))
          have li7 : LoopInv t (dropG kv (dropG vv s5)) cap5 (esV ++ [(kv, vv)])
              (done ++ [(k, v)]) :=
            ⟨by rw [m7.guards]; exact li.guarded, hget5, all5⟩
          have hdis7 : ∀ oe ∈ done ++ [(k, v)], ∀ oe' ∈ rest, oe.1 ≠ oe'.1 := by
            intro oe hoe oe' hoe'
            rcases List.mem_append.mp hoe with h | h
            · exact hdis oe h oe' (List.mem_cons_of_mem _ hoe')
            · rw [List.mem_singleton] at h; subst h
              exact fun e => hnk oe' hoe' e.symm
          have pr := ihR _ t cap5 _ _ m7.ok hsr li7 hdis7
          rcases hr : (insertEntries t rest).run.run (dropG kv (dropG vv s5)) with ⟨rr, s8⟩
          rw [hr] at pr
          cases rr with
          | error e => exact ⟨pr.1, fun hi => pr.2 (i7 hi)⟩
          | ok u =>
            obtain ⟨g8, ⟨cap8, esV8, li8⟩, i8⟩ := pr
            refine ⟨(m7.step g8 (fun _ h => h)).good, ⟨cap8, esV8, ?_⟩, fun hi => i8 (i7 hi)⟩
            have : done ++ (k, v) :: rest = (done ++ [(k, v)]) ++ rest := by simp
            rw [this]; exact li8

theorem specV_table (es : List (OVal × OVal)) (hE : SpecE es) : SpecV (.table es) := by
  intro s hok hst
  simp only [Storable] at hst
  rw [insertValue]
  have hinv : C05.Inv s → C05.Inv (initTable.run.run s).2 := C05.initTable_inv s
  simp only [run_bind, initTable_run] at hinv ⊢
  rcases ha : alloc2Pure Heap.objCharge (Heap.tableCharge Gen.tableInitCap)
    (.table Gen.tableInitCap []) s with ⟨r, s1⟩
  rw [ha] at hinv
  cases r with
  | error e => exact ⟨alloc2Pure_err hok ha, hinv⟩
  | ok a =>
    obtain ⟨rfl, hok1, hn1, hr1, hg1, hget1, hk1⟩ := alloc2Pure_ok hok ha
    simp only at hinv ⊢
    have li1 : LoopInv s.heap.next s1 Gen.tableInitCap [] [] :=
      ⟨by rw [hg1]; exact List.mem_cons_self, hget1, .nil⟩
    have pe := hE s1 s.heap.next _ _ _ hok1 hst li1 (fun _ h => by cases h)
    rcases he : (insertEntries s.heap.next es).run.run s1 with ⟨re, s2⟩
    rw [he] at pe
    cases re with
    | error e => exact ⟨pe.1, fun hi => pe.2 (hinv hi)⟩
    | ok u =>
      obtain ⟨g2, ⟨cap2, esV2, li2⟩, i2⟩ := pe
      simp only [dropGuard_run, run_pure]
      have hsub : ∀ a ∈ rootAddrs s, a ∈ rootAddrs s1 :=
        rootAddrs_sub hr1 (fun a ha => by rw [hg1]; exact List.mem_cons_of_mem _ ha)
      refine ⟨⟨⟨g2.ok.unique, g2.ok.fresh⟩, ?_, hr1.trans g2.roots, ?_, ?_⟩, ?_,
        fun hi => inv_guards _ (i2 (hinv hi))⟩
      · show s.heap.next ≤ s2.heap.next
        have := g2.next_le; omega
      · show s2.guards.erase s.heap.next = s.guards
        rw [g2.guards, hg1]; simp
      · show KeepsR (rootAddrs s) noX s.heap s2.heap
        have k12 : KeepsR (rootAddrs s) (fun b => b = s.heap.next) s.heap s2.heap :=
          (hk1.mono_X (fun _ h => h.elim)).trans (g2.keeps.mono_roots hsub)
        exact k12.restrict (fun b ob hb hx => by
          have := get_lt_next hok.fresh hb
          omega)
      · show Owns (heapAbove s2.heap s.heap.next) (.obj s.heap.next) (.table es)
        have hget2 : (heapAbove s2.heap s.heap.next).get s.heap.next = some (.table cap2 esV2) := by
          rw [heapAbove_get, if_pos (Nat.le_refl _)]; exact li2.get
        apply Owns.table_intro hget2
        have := li2.all
        rw [List.nil_append] at this
        exact this.imp (fun e oe ⟨q1, q2⟩ =>
          ⟨Owns.above_mono (Nat.le_succ _) q1, Owns.above_mono (Nat.le_succ _) q2⟩)

/-- **`insert_value` is correct for every storable tree** -/
theorem insertValue_spec : ∀ (n : Nat) (o : OVal), osize o ≤ n → SpecV o := by
  intro n
  induction n with
  | zero =>
    intro o ho
    have : 1 ≤ osize o := by cases o <;> simp [osize]
    omega
  | succ n ih =>
    intro o ho
    cases o with
    | nil => exact specV_scalar.1
    | int i => exact specV_scalar.2.1 i
    | real b => exact specV_scalar.2.2 b
    | str b => exact specV_str b
    | fn hd ar => exact specV_fn.1 hd ar
    | native hd => exact specV_fn.2.1 hd
    | closure hd ar => exact specV_fn.2.2 hd ar
    | table es =>
      apply specV_table
      apply specE_of
      intro oe hoe
      have := osize_mem hoe
      simp only [osize] at ho
      have h1 : 1 ≤ osize oe.1 := by cases oe.1 <;> simp [osize]
      have h2 : 1 ≤ osize oe.2 := by cases oe.2 <;> simp [osize]
      exact ⟨ih _ (by omega), ih _ (by omega)⟩

theorem insertValue_correct (o : OVal) : SpecV o := insertValue_spec (osize o) o (Nat.le_refl _)

end Cao.Serde
