import Lean
import CaoModel.Vm
/-!
# Frame reasoning for the interpreter monad `M`

`Pres R m` says that every run of the computation `m : M α` relates the state before to the
state after by `R` (whether it returns or throws). `R` is a preorder on states (`StateOrder R`);
the closure lemmas below let one push `Pres R` through `do` blocks without unfolding them, and the
tactic `pres_auto` applies them syntax-directed.

`PresAt R m s` is the pointwise version; it is needed for the code shape
`let s ← get; …; set { s with … }`, where the continuation has to know that it still runs in `s`.

The second half instantiates this for relations that only look at the two budget counters
(`CounterFrame R`): every primitive of `CaoModel/Vm.lean` leaves `remaining` and `dispatches`
alone (`Keep`), so `callNative` and `step` preserve `R` as soon as the re-entry callback does.

Two more syntax-directed logics of the same kind follow: `Throws P m` (every error `m` raises
satisfies `P`; tactic `throws_auto`) and `Sim δ m₁ m₂` (`m₂` on the machine with `δ` more units of
budget does what `m₁` does — a two-run, relational property; tactic `sim_auto`). On top of them:
`exec_pres` (the dispatch loop respects every `LoopFrame`), `throws_step` (an instruction never
raises `Timeout` by itself) and `exec_shift` (the loop is parametric in the budget and monotone in
the fuel).
-/
namespace Cao.Vm
set_option linter.unusedSectionVars false

/-! ## running a computation -/

/-- run a computation of the interpreter monad from a state -/
def M.go {α : Type} (m : M α) (s : VmState) : Except ErrKind α × VmState := m.run.run s

theorem run_run_eq_go {α : Type} (m : M α) (s : VmState) : m.run.run s = m.go s := rfl

@[simp] theorem go_pure {α : Type} (a : α) (s : VmState) : (pure a : M α).go s = (.ok a, s) := rfl
@[simp] theorem go_get (s : VmState) : (get : M VmState).go s = (.ok s, s) := rfl
@[simp] theorem go_set (x s : VmState) : (set x : M PUnit).go s = (.ok ⟨⟩, x) := rfl
@[simp] theorem go_modify (f : VmState → VmState) (s : VmState) :
    (modify f : M PUnit).go s = (.ok ⟨⟩, f s) := rfl
@[simp] theorem go_throw {α : Type} (e : ErrKind) (s : VmState) :
    (throw e : M α).go s = (.error e, s) := rfl
@[simp] theorem go_throwE {α : Type} (e : ErrKind) (s : VmState) :
    (throwE e : M α).go s = (.error e, s) := rfl

theorem go_bind {α β : Type} (m : M α) (f : α → M β) (s : VmState) :
    (m >>= f).go s = match m.go s with
      | (.ok a, s') => (f a).go s'
      | (.error e, s') => (.error e, s') := by
  show (ExceptT.bind m f).run.run s = _
  unfold ExceptT.bind ExceptT.bindCont
  simp only [ExceptT.run, ExceptT.mk, StateT.run, bind, StateT.bind, M.go]
  rcases m s with ⟨r, s'⟩
  cases r <;> rfl

theorem go_tryCatch {α : Type} (m : M α) (h : ErrKind → M α) (s : VmState) :
    (tryCatch m h).go s = match m.go s with
      | (.ok a, s') => (.ok a, s')
      | (.error e, s') => (h e).go s' := by
  show (ExceptT.tryCatch m h).run.run s = _
  unfold ExceptT.tryCatch
  simp only [ExceptT.run, ExceptT.mk, StateT.run, bind, StateT.bind, M.go]
  rcases m s with ⟨r, s'⟩
  cases r <;> rfl

theorem go_orElse {α : Type} (m : M α) (h : Unit → M α) (s : VmState) :
    (m <|> h ()).go s = match m.go s with
      | (.ok a, s') => (.ok a, s')
      | (.error _, s') => (h ()).go s' := go_tryCatch m (fun _ => h ()) s

theorem go_liftRun (f : VmState → VmState × Except RunErr (Option Val)) (s : VmState) :
    ((liftRun f).go s).2 = (f s).1 := by
  show (match f s with
    | (s', .ok (some v)) => ((.ok v : Except ErrKind Val), s')
    | (s', .ok none) => (.ok .nil, s')
    | (s', .error e) => (.error e.kind, s')).2 = _
  split <;> simp_all

/-! ## the frame predicate -/

/-- a preorder on machine states -/
class StateOrder (R : VmState → VmState → Prop) : Prop where
  refl : ∀ s, R s s
  trans : ∀ {a b c}, R a b → R b c → R a c

/-- `m`, started in `s`, ends in a state related to `s` (a structure, so that tactics never
    unfold it by accident) -/
structure PresAt {α : Type} (R : VmState → VmState → Prop) (m : M α) (s : VmState) : Prop where
  rel : R s (m.go s).2

/-- every run of `m` relates its initial and final state by `R` -/
structure Pres {α : Type} (R : VmState → VmState → Prop) (m : M α) : Prop where
  at_ : ∀ s, PresAt R m s

theorem Pres.rel {α : Type} {R : VmState → VmState → Prop} {m : M α} (h : Pres R m) (s : VmState) :
    R s (m.go s).2 := (h.at_ s).rel

theorem Pres.intro {α : Type} {R : VmState → VmState → Prop} {m : M α}
    (h : ∀ s, R s (m.go s).2) : Pres R m := ⟨fun s => ⟨h s⟩⟩

section closure
variable {R : VmState → VmState → Prop} [StateOrder R] {α β : Type}

theorem pres_at {m : M α} {s : VmState} (h : Pres R m) : PresAt R m s := h.at_ s

theorem presAt_pure (a : α) (s : VmState) : PresAt R (pure a : M α) s := ⟨StateOrder.refl s⟩
theorem presAt_throw (e : ErrKind) (s : VmState) : PresAt R (throw e : M α) s := ⟨StateOrder.refl s⟩
theorem presAt_throwE (e : ErrKind) (s : VmState) : PresAt R (throwE e : M α) s := ⟨StateOrder.refl s⟩
theorem presAt_set {x s : VmState} (h : R s x) : PresAt R (set x : M PUnit) s := ⟨h⟩
theorem presAt_modify {f : VmState → VmState} {s : VmState} (h : R s (f s)) :
    PresAt R (modify f : M PUnit) s := ⟨h⟩

theorem pres_pure (a : α) : Pres R (pure a : M α) := ⟨fun s => presAt_pure a s⟩
theorem pres_throw (e : ErrKind) : Pres R (throw e : M α) := ⟨fun s => presAt_throw e s⟩
theorem pres_throwE (e : ErrKind) : Pres R (throwE e : M α) := ⟨fun s => presAt_throwE e s⟩
theorem pres_get : Pres R (get : M VmState) := ⟨fun s => ⟨StateOrder.refl s⟩⟩
theorem pres_modify {f : VmState → VmState} (h : ∀ s, R s (f s)) : Pres R (modify f : M PUnit) :=
  ⟨fun s => ⟨h s⟩⟩

/-- the precise rule: the continuation is only needed at the state `m` ends in -/
theorem presAt_bind' {m : M α} {f : α → M β} {s : VmState} (hm : PresAt R m s)
    (hf : ∀ a s', m.go s = (.ok a, s') → PresAt R (f a) s') : PresAt R (m >>= f) s := by
  constructor
  have hm := hm.rel
  rw [go_bind]
  rcases h : m.go s with ⟨r, s'⟩
  rw [h] at hm
  cases r with
  | error e => exact hm
  | ok a => exact StateOrder.trans hm (hf a s' h).rel

theorem presAt_bind {m : M α} {f : α → M β} {s : VmState} (hm : PresAt R m s)
    (hf : ∀ a, Pres R (f a)) : PresAt R (m >>= f) s :=
  presAt_bind' hm (fun a s' _ => (hf a).at_ s')

theorem pres_bind {m : M α} {f : α → M β} (hm : Pres R m) (hf : ∀ a, Pres R (f a)) :
    Pres R (m >>= f) := ⟨fun s => presAt_bind (hm.at_ s) hf⟩

theorem presAt_get_bind {f : VmState → M β} {s : VmState} (hf : PresAt R (f s) s) :
    PresAt R (get >>= f) s :=
  presAt_bind' ⟨StateOrder.refl s⟩ (fun a s' h => by
    simp only [go_get, Prod.mk.injEq, Except.ok.injEq] at h
    obtain ⟨rfl, rfl⟩ := h
    exact hf)

/-- `let s ← get; …`: the continuation runs in the very state it is given -/
theorem pres_get_bind {f : VmState → M β} (hf : ∀ s, PresAt R (f s) s) : Pres R (get >>= f) :=
  ⟨fun s => presAt_get_bind (hf s)⟩

/-- `set x; …` -/
theorem presAt_set_bind {x s : VmState} {f : PUnit → M β} (hx : R s x) (hf : PresAt R (f ⟨⟩) x) :
    PresAt R (set x >>= f) s :=
  presAt_bind' (m := (set x : M PUnit)) ⟨hx⟩ (fun a s' h => by
    simp only [go_set, Prod.mk.injEq] at h
    obtain ⟨_, rfl⟩ := h
    exact hf)

/-- `if c then throwE e` in front of a continuation that still needs to know the state -/
theorem presAt_guard_bind {c : Prop} [Decidable c] {e : ErrKind} {s : VmState} {f : PUnit → M β}
    (hf : ¬ c → PresAt R (f ⟨⟩) s) :
    PresAt R ((if c then throwE e else Pure.pure PUnit.unit) >>= f) s := by
  by_cases hc : c
  · simp only [hc, if_true]
    exact presAt_bind' (presAt_throwE e s) (fun a s' h => by simp at h)
  · simp only [hc, if_false]
    exact presAt_bind' (presAt_pure _ s) (fun a s' h => by
      simp only [go_pure, Prod.mk.injEq] at h
      obtain ⟨_, rfl⟩ := h
      exact hf hc)

/-- a `throw` in front of a continuation (the shape `if c then throwE e` compiles to) -/
theorem presAt_throwE_bind {e : ErrKind} {f : α → M β} {s : VmState} :
    PresAt R ((throwE e : M α) >>= f) s :=
  presAt_bind' (presAt_throwE e s) (fun a s' h => by simp at h)

theorem pres_throwE_bind {e : ErrKind} {f : α → M β} : Pres R ((throwE e : M α) >>= f) :=
  ⟨fun _ => presAt_throwE_bind⟩

theorem pres_tryCatch {m : M α} {h : ErrKind → M α} (hm : Pres R m) (hh : ∀ e, Pres R (h e)) :
    Pres R (tryCatch m h) := by
  refine Pres.intro (fun s => ?_)
  rw [go_tryCatch]
  have := hm.rel s
  rcases hgo : m.go s with ⟨r, s'⟩
  rw [hgo] at this
  cases r with
  | ok a => exact this
  | error e => exact StateOrder.trans this ((hh e).rel s')

theorem pres_orElse {m : M α} {h : Unit → M α} (hm : Pres R m) (hh : Pres R (h ())) :
    Pres R (HOrElse.hOrElse m h) :=
  pres_tryCatch (h := fun _ => h ()) hm (fun _ => hh)

theorem pres_ite {c : Prop} [Decidable c] {a b : M α} (ha : Pres R a) (hb : Pres R b) :
    Pres R (if c then a else b) := by
  split <;> assumption

theorem presAt_ite {c : Prop} [Decidable c] {a b : M α} {s : VmState} (ha : c → PresAt R a s)
    (hb : ¬ c → PresAt R b s) : PresAt R (if c then a else b) s := by
  split
  · exact ha ‹_›
  · exact hb ‹_›

/-- `for x in l do …` -/
theorem pres_forIn {γ σ : Type} (l : List γ) (init : σ) (f : γ → σ → M (ForInStep σ))
    (hf : ∀ x b, Pres R (f x b)) : Pres R (forIn l init f) := by
  induction l generalizing init with
  | nil => rw [List.forIn_nil]; exact pres_pure _
  | cons x xs ih =>
    rw [List.forIn_cons]
    refine pres_bind (hf x init) (fun r => ?_)
    cases r with
    | done b => exact pres_pure _
    | yield b => exact ih b

/-- a nested run of the interpreter, seen as a computation -/
theorem pres_liftRun {g : VmState → VmState × Except RunErr (Option Val)} (hg : ∀ s, R s (g s).1) :
    Pres R (liftRun g) := by
  refine Pres.intro (fun s => ?_)
  rw [go_liftRun]
  exact hg s

end closure

/-! ## relations that only look at the budget counters -/

/-- the two budget counters (and the capacity of the call stack) are untouched -/
@[reducible] def Keep (s s' : VmState) : Prop :=
  s'.remaining = s.remaining ∧ s'.dispatches = s.dispatches ∧ s'.frameCap = s.frameCap

instance : StateOrder Keep where
  refl _ := ⟨rfl, rfl, rfl⟩
  trans h1 h2 := ⟨h2.1.trans h1.1, h2.2.1.trans h1.2.1, h2.2.2.trans h1.2.2⟩

/-- a preorder on states that contains `Keep` -/
class CounterFrame (R : VmState → VmState → Prop) : Prop extends StateOrder R where
  of_keep : ∀ {s s'}, Keep s s' → R s s'

instance : CounterFrame Keep where
  of_keep h := h

/-- the potential `dispatches + remaining` does not grow and `dispatches` does not shrink -/
def Budget (s s' : VmState) : Prop :=
  s'.dispatches + s'.remaining ≤ s.dispatches + s.remaining ∧ s.dispatches ≤ s'.dispatches

instance : CounterFrame Budget where
  refl _ := ⟨Nat.le_refl _, Nat.le_refl _⟩
  trans h1 h2 := ⟨Nat.le_trans h2.1 h1.1, Nat.le_trans h1.2 h2.2⟩
  of_keep h := by unfold Budget; rw [h.1, h.2.1]; exact ⟨Nat.le_refl _, Nat.le_refl _⟩

/-- the capacity of the call stack is constant -/
def SameFrameCap (s s' : VmState) : Prop := s'.frameCap = s.frameCap

instance : CounterFrame SameFrameCap where
  refl _ := rfl
  trans h1 h2 := h2.trans h1
  of_keep h := h.2.2

theorem gc_remaining (s : VmState) : (gc s).remaining = s.remaining := by
  unfold gc; simp only []
theorem gc_dispatches (s : VmState) : (gc s).dispatches = s.dispatches := by
  unfold gc; simp only []
theorem gc_frameCap (s : VmState) : (gc s).frameCap = s.frameCap := by
  unfold gc; simp only []

/-! ## automation -/

open Lean Elab Tactic Meta in
/-- `pres_head`: put the computation of a `Pres`/`PresAt` goal into weak head normal form (β, ζ,
    `match` on constructors); fails when nothing changes.
    `pres_head_split`: succeeds iff that computation is an `if` or a `match`. -/
def presHeadCore (onlyCheck : Bool) : TacticM Unit := withMainContext do
  let g ← getMainGoal
  let t ← instantiateMVars (← g.getType)
  let fn := t.getAppFn
  let args := t.getAppArgs
  let idx := 2
  unless (fn.isConstOf ``Pres && args.size == 3) || (fn.isConstOf ``PresAt && args.size == 4) do
    throwError "pres_head: not a Pres/PresAt goal"
  let m := args[idx]!
  if onlyCheck then
    let hd := m.getAppFn
    let ok ← match hd with
      | .const n _ =>
        if n == ``ite || n == ``dite then pure true
        else pure ((← getMatcherInfo? n).isSome)
      | _ => pure false
    unless ok do throwError "pres_head_split: the head is neither `if` nor `match`"
  else
    let m' ← whnfCore m
    if m' == m then throwError "pres_head: no progress"
    let t' := mkAppN fn (args.set! idx m')
    let g' ← g.change t'
    replaceMainGoal [g']

elab "pres_head" : tactic => presHeadCore false
elab "pres_head_split" : tactic => presHeadCore true

/-- closes goals `Pres R prim` for the primitives; extended by `macro_rules` below -/
syntax "pres_prim" : tactic

/-- closes the side goals `R s s'` of `set`/`modify` -/
syntax "pres_side" : tactic
macro_rules
  | `(tactic| pres_side) =>
    `(tactic| with_reducible exact CounterFrame.of_keep ⟨gc_remaining _, gc_dispatches _, gc_frameCap _⟩)
macro_rules | `(tactic| pres_side) => `(tactic| with_reducible exact CounterFrame.of_keep ⟨rfl, rfl, rfl⟩)

/-- one syntax-directed step -/
macro "pres_step" : tactic => `(tactic| first
  | with_reducible exact pres_pure _
  | with_reducible exact pres_throwE _
  | with_reducible exact pres_throw _
  | with_reducible exact pres_get
  | with_reducible exact presAt_pure _ _
  | with_reducible exact presAt_throwE _ _
  | with_reducible exact presAt_throw _ _
  | with_reducible exact presAt_throwE_bind
  | with_reducible exact pres_throwE_bind
  | with_reducible assumption
  | with_reducible exact (‹∀ f : Val, Pres _ ((_ : Val → M Val) f)›) _
  | pres_prim
  | (with_reducible apply pres_modify; intro _; pres_side)
  | (with_reducible apply presAt_modify; pres_side)
  | (with_reducible apply pres_get_bind; intro _)
  | with_reducible apply pres_bind
  | with_reducible apply pres_tryCatch
  | with_reducible apply pres_orElse
  | (with_reducible apply pres_forIn; intro _ _)
  | with_reducible apply presAt_get_bind
  | (with_reducible apply presAt_set_bind; pres_side)
  | (with_reducible apply presAt_guard_bind; intro _)
  | (with_reducible apply presAt_set; pres_side)
  | intro _
  | with_reducible apply pres_ite
  | (with_reducible apply presAt_ite <;> intro _)
  | pres_head
  | (pres_head_split; split)
  | with_reducible apply presAt_bind
  | with_reducible apply pres_at)

macro "pres_auto" : tactic => `(tactic| repeat pres_step)

/-! ## the primitives -/

section prims
variable {R : VmState → VmState → Prop} [CounterFrame R]

theorem Pres.of_keep {α : Type} {m : M α} (h : Pres Keep m) : Pres R m :=
  Pres.intro (fun s => CounterFrame.of_keep (h.rel s))

theorem pres_push (v : Val) : Pres R (push v) := by unfold push; pres_auto
theorem pres_pop : Pres R pop := by unfold pop; pres_auto
theorem pres_peek (n : Nat) : Pres R (peek n) := by unfold peek; pres_auto
theorem pres_popN (n : Nat) : Pres R (popN n) := by unfold popN; pres_auto
theorem pres_curFrame : Pres R curFrame := by unfold curFrame; pres_auto
theorem pres_writeLocal (a b : Nat) (v : Val) : Pres R (writeLocal a b v) := by
  unfold writeLocal; pres_auto
theorem pres_readLocal (a b : Nat) : Pres R (readLocal a b) := by unfold readLocal; pres_auto
theorem pres_keyOf (v : Val) : Pres R (keyOf v) := by unfold keyOf; pres_auto
theorem pres_getTable (v : Val) : Pres R (getTable v) := by unfold getTable; pres_auto
theorem pres_tableGet (es : List (Val × Val)) (k : Val) : Pres R (tableGet es k) := by
  unfold tableGet; pres_auto
theorem pres_deallocBytes (c : Nat) : Pres R (deallocBytes c) := by unfold deallocBytes; pres_auto
theorem pres_newObject (o : Obj) : Pres R (newObject o) := by unfold newObject; pres_auto
theorem pres_dropGuard (a : Nat) : Pres R (dropGuard a) := by unfold dropGuard; pres_auto
theorem pres_closeUpvalues (t : Nat) : Pres R (closeUpvalues t) := by
  unfold closeUpvalues; pres_auto
theorem pres_readUpvalueLoc (a : Nat) : Pres R (readUpvalueLoc a) := by
  unfold readUpvalueLoc; pres_auto
theorem pres_writeUpvalueLoc (a : Nat) (v : Val) : Pres R (writeUpvalueLoc a v) := by
  unfold writeUpvalueLoc; pres_auto
theorem pres_guardVal (v : Val) : Pres R (guardVal v) := by unfold guardVal; pres_auto
theorem pres_unguardVal (v : Val) : Pres R (unguardVal v) := by
  unfold unguardVal
  split
  · exact pres_dropGuard _
  · exact pres_pure _

end prims
macro_rules | `(tactic| pres_prim) => `(tactic| with_reducible first
  | exact pres_push _ | exact pres_pop | exact pres_peek _ | exact pres_popN _ | exact pres_curFrame
  | exact pres_writeLocal _ _ _ | exact pres_readLocal _ _ | exact pres_keyOf _ | exact pres_getTable _
  | exact pres_tableGet _ _ | exact pres_deallocBytes _ | exact pres_newObject _ | exact pres_dropGuard _
  | exact pres_closeUpvalues _ | exact pres_readUpvalueLoc _ | exact pres_writeUpvalueLoc _ _
  | exact pres_guardVal _ | exact pres_unguardVal _)

section compound
variable {R : VmState → VmState → Prop} [CounterFrame R]

theorem pres_guardRows (es : List (Val × Val)) : Pres R (guardRows es) := by
  unfold guardRows; pres_auto
theorem pres_unguardRows (es : List (Val × Val)) : Pres R (unguardRows es) := by
  unfold unguardRows; pres_auto
macro_rules | `(tactic| pres_prim) => `(tactic| with_reducible first
  | exact pres_guardRows _ | exact pres_unguardRows _)

theorem pres_allocBytes (c : Nat) : Pres R (allocBytes c) := by
  unfold allocBytes
  pres_auto
macro_rules | `(tactic| pres_prim) => `(tactic| with_reducible exact pres_allocBytes _)

theorem pres_initTable : Pres R initTable := by
  unfold initTable
  pres_auto
theorem pres_initString (b : List UInt8) : Pres R (initString b) := by
  unfold initString
  pres_auto
theorem pres_initSimple (o : Obj) : Pres R (initSimple o) := by
  unfold initSimple
  pres_auto
theorem pres_tableInsert (a : Nat) (k v : Val) : Pres R (tableInsert a k v) := by
  unfold tableInsert
  pres_auto
macro_rules | `(tactic| pres_prim) => `(tactic| with_reducible first
  | exact pres_initTable | exact pres_initString _ | exact pres_initSimple _ | exact pres_tableInsert _ _ _)

theorem pres_nativeConv (name : String) : Pres R (nativeConv name) := by
  unfold nativeConv
  pres_auto
macro_rules | `(tactic| pres_prim) => `(tactic| with_reducible exact pres_nativeConv _)

/-! ## natives: they preserve `R` as soon as the re-entry callback does -/

theorem pres_callNativeBody (reenter : Reenter) (hre : ∀ f, Pres R (reenter f)) (name : String) :
    Pres R (callNativeBody reenter name) := by
  unfold callNativeBody
  pres_auto
macro_rules
  | `(tactic| pres_prim) => `(tactic| with_reducible exact pres_callNativeBody _ (by assumption) _)

theorem pres_callNative (reenter : Reenter) (hre : ∀ f, Pres R (reenter f)) (h : UInt32) :
    Pres R (callNative reenter h) := by
  unfold callNative
  pres_auto
macro_rules
  | `(tactic| pres_prim) => `(tactic| with_reducible exact pres_callNative _ (by assumption) _)

/-! ## one instruction -/

theorem pres_callScript (p : Prog) (src ip : Nat) (l : UInt32) (ar : Nat) (c : Option Nat) :
    Pres R (step.callScript p src ip l ar c) := by
  unfold step.callScript
  pres_auto
macro_rules
  | `(tactic| pres_prim) => `(tactic| with_reducible exact pres_callScript _ _ _ _ _ _)

/-- **the frame lemma for `step`**: an instruction changes the counters only through re-entry -/
theorem pres_step (p : Prog) (reenter : Reenter) (hre : ∀ f, Pres R (reenter f)) (src : Nat) :
    Pres R (step p reenter src) := by
  unfold step
  pres_auto

end compound

/-- with a callback that keeps the counters, an instruction keeps the counters -/
theorem step_keep (p : Prog) (reenter : Reenter) (hre : ∀ f, Pres Keep (reenter f)) (src : Nat)
    (s : VmState) :
    ((step p reenter src).go s).2.remaining = s.remaining ∧
    ((step p reenter src).go s).2.dispatches = s.dispatches ∧
    ((step p reenter src).go s).2.frameCap = s.frameCap :=
  (pres_step p reenter hre src).rel s

/-! ## the dispatch loop -/

/-- the callback `step` is given by `exec` -/
def reenterOf (p : Prog) (gas : Nat) : Reenter := fun f => liftRun (exec p gas (.call f))

/-- the state in which the dispatch loop runs an instruction -/
def VmState.tick (s : VmState) : VmState :=
  { s with remaining := s.remaining - 1, dispatches := s.dispatches + 1 }

theorem exec_zero (p : Prog) (t : Task) (s : VmState) :
    exec p 0 t s = (s, .error ⟨.panic "gas exhausted", 0, s.frames⟩) := by
  unfold exec; rfl

theorem exec_loop (p : Prog) (gas ip : Nat) (s : VmState) :
    exec p (gas+1) (.loop ip) s =
      if ip ≥ p.bytecode.size then (s, .error ⟨.unexpectedEndOfInput, ip, s.frames⟩) else
      if s.remaining - 1 = 0 then
        ({ s with remaining := s.remaining - 1 }, .error ⟨.timeout, ip, s.frames⟩) else
      match (step p (reenterOf p gas) ip).go s.tick with
      | (.error e, s') => (s', .error ⟨e, ip, s'.frames⟩)
      | (.ok ctl, s') => if ctl.exit then (s', .ok none) else exec p gas (.loop ctl.ip) s' := by
  rw [exec]
  by_cases h1 : ip ≥ p.bytecode.size
  · simp only [h1, if_true]
  · simp only [h1, if_false]
    by_cases h2 : s.remaining - 1 = 0
    · simp [h2]
    · simp only [h2, if_false, beq_iff_eq]
      rfl

def failAt (s : VmState) (e : ErrKind) : VmState × Except RunErr (Option Val) :=
  (s, .error ⟨e, 0, s.frames⟩)

/-- `run_function` on a script callee -/
def enterScript (p : Prog) (gas : Nat) (s : VmState) (label : UInt32) (arity : Nat) (closure : Option Nat) :
    VmState × Except RunErr (Option Val) :=
  match p.labels.find? (fun l => l.1 == label) with
  | none => failAt s .procedureNotFound
  | some (_, pos) =>
    if s.stack.count < arity then failAt s .missingArgument else
    let fr : Frame := { src := pos, dst := p.bytecode.size - 1, stackOffset := s.stack.count - arity, closure := closure }
    if s.frames.length + 1 > s.frameCap then failAt s .callStackOverflow else
    if s.frames.length + 2 > s.frameCap then (s, .error ⟨.callStackOverflow, 0, s.frames ++ [fr]⟩) else
    match exec p gas (.loop pos) { s with frames := s.frames ++ [fr, fr] } with
    | (s', .ok _) =>
      ({ s' with frames := s'.frames.take s.frames.length, stack := s'.stack.pop.1 }, .ok (some s'.stack.pop.2))
    | (s', .error e) => ({ s' with frames := s'.frames.take s.frames.length }, .error e)

theorem exec_call (p : Prog) (gas : Nat) (f : Val) (s : VmState) :
    exec p (gas+1) (.call f) s =
      match f with
      | .obj a =>
        match s.heap.get a with
        | some (.native h) =>
          match (callNative (reenterOf p gas) h).go s with
          | (.ok (), s') => ({ s' with stack := s'.stack.pop.1 }, .ok (some s'.stack.pop.2))
          | (.error e, s') => failAt s' e
        | some (.fn h ar) => enterScript p gas s h ar.toNat none
        | some (.closure h ar _) => enterScript p gas s h ar.toNat (some a)
        | _ => failAt s .invalidArgument
      | _ => failAt s .invalidArgument := by
  unfold exec
  rfl

/-- a counter relation that also admits the two counter updates of the dispatch loop -/
class LoopFrame (R : VmState → VmState → Prop) : Prop extends CounterFrame R where
  tick : ∀ s : VmState, s.remaining - 1 ≠ 0 → R s s.tick
  timeout : ∀ s : VmState, R s { s with remaining := s.remaining - 1 }

instance : LoopFrame Budget where
  tick s h := by simp only [Budget, VmState.tick]; omega
  timeout s := by simp only [Budget]; omega

instance : LoopFrame SameFrameCap where
  tick _ _ := rfl
  timeout _ := rfl

theorem enterScript_pres {R : VmState → VmState → Prop} [CounterFrame R] (p : Prog) (gas : Nat)
    (ih : ∀ t s, R s (exec p gas t s).1) (s : VmState) (l : UInt32) (ar : Nat) (c : Option Nat) :
    R s (enterScript p gas s l ar c).1 := by
  unfold enterScript
  split
  · exact StateOrder.refl s
  · dsimp only
    split
    · exact StateOrder.refl s
    split
    · exact StateOrder.refl s
    split
    · exact StateOrder.refl s
    next pos _ _ _ _ =>
    have h := ih (.loop pos) { s with frames := s.frames ++ [⟨pos, p.bytecode.size - 1, s.stack.count - ar, c⟩, ⟨pos, p.bytecode.size - 1, s.stack.count - ar, c⟩] }
    have h0 : R s { s with frames := s.frames ++ [⟨pos, p.bytecode.size - 1, s.stack.count - ar, c⟩, ⟨pos, p.bytecode.size - 1, s.stack.count - ar, c⟩] } :=
      CounterFrame.of_keep ⟨rfl, rfl, rfl⟩
    split
    · next s' _ heq =>
      rw [heq] at h
      exact StateOrder.trans h0 (StateOrder.trans h (CounterFrame.of_keep ⟨rfl, rfl, rfl⟩))
    · next s' _ heq =>
      rw [heq] at h
      exact StateOrder.trans h0 (StateOrder.trans h (CounterFrame.of_keep ⟨rfl, rfl, rfl⟩))

/-- **every run of the dispatch loop / of `run_function` respects a loop frame** -/
theorem exec_pres {R : VmState → VmState → Prop} [LoopFrame R] (p : Prog) :
    ∀ (gas : Nat) (t : Task) (s : VmState), R s (exec p gas t s).1 := by
  intro gas
  induction gas with
  | zero => intro t s; rw [exec_zero]; exact StateOrder.refl s
  | succ gas ih =>
    intro t s
    have hre : ∀ f, Pres R (reenterOf p gas f) := fun f => pres_liftRun (fun s => ih (.call f) s)
    cases t with
    | loop ip =>
      rw [exec_loop]
      split
      · exact StateOrder.refl s
      split
      · exact LoopFrame.timeout s
      next _ hrem =>
      have h1 : R s s.tick := LoopFrame.tick s hrem
      have h2 := (pres_step p _ hre ip).rel s.tick
      split
      · next e s' heq => rw [heq] at h2; exact StateOrder.trans h1 h2
      · next ctl s' heq =>
        rw [heq] at h2
        split
        · exact StateOrder.trans h1 h2
        · exact StateOrder.trans h1 (StateOrder.trans h2 (ih _ _))
    | call f =>
      rw [exec_call]
      split
      · split
        · next h _ =>
          have h2 := (pres_callNative _ hre h).rel s
          split
          · next s' heq => rw [heq] at h2; exact StateOrder.trans h2 (CounterFrame.of_keep ⟨rfl, rfl, rfl⟩)
          · next e s' heq => rw [heq] at h2; exact h2
        · exact enterScript_pres p gas ih s _ _ _
        · exact enterScript_pres p gas ih s _ _ _
        · exact StateOrder.refl s
      · exact StateOrder.refl s

/-! ## `run` -/

/-- the state in which `run` starts the loop -/
def started (n : Nat) (s : VmState) : VmState :=
  { s with frames := s.frames ++ [{ src := 0, dst := 0, stackOffset := 0, closure := none }],
           remaining := n, dispatches := 0 }

/-- `run` refuses to start on a full call stack and leaves the machine alone -/
theorem run_no_room (p : Prog) (n : Nat) (s : VmState) (h : s.frames.length ≥ s.frameCap) :
    run p n s = (s, some ⟨.callStackOverflow, 0, []⟩) := by
  unfold run
  simp only [h, if_true]

/-- otherwise it is the loop from address 0, with the frames truncated afterwards -/
theorem run_room (p : Prog) (n : Nat) (s : VmState) (h : s.frames.length < s.frameCap) :
    run p n s =
      (let r := exec p (gasFor (started n s) n) (.loop 0) (started n s)
       ({ r.1 with frames := r.1.frames.take s.frames.length, guards := s.guards },
        match r.2 with
        | .ok _ => none
        | .error e => some e)) := by
  unfold run runLoop
  rw [if_neg (Nat.not_le.2 h)]
  dsimp only [started]
  generalize exec p _ (Task.loop 0) _ = r
  rcases r with ⟨s', (e | v)⟩ <;> rfl

/-- no run of the loop or of `run_function` changes the capacity of the call stack -/
theorem exec_frameCap (p : Prog) (gas : Nat) (t : Task) (s : VmState) :
    (exec p gas t s).1.frameCap = s.frameCap :=
  exec_pres (R := SameFrameCap) p gas t s

/-! ## which errors a computation can raise -/

/-- every error raised by `m` satisfies `P` -/
structure Throws {α : Type} (P : ErrKind → Prop) (m : M α) : Prop where
  err : ∀ s e, (m.go s).1 = .error e → P e

section throws
variable {P : ErrKind → Prop} {α β : Type}

theorem throws_pure (a : α) : Throws P (pure a : M α) := ⟨fun s e h => by simp at h⟩
theorem throws_get : Throws P (get : M VmState) := ⟨fun s e h => by simp at h⟩
theorem throws_set (x : VmState) : Throws P (set x : M PUnit) := ⟨fun s e h => by simp at h⟩
theorem throws_modify (f : VmState → VmState) : Throws P (modify f : M PUnit) :=
  ⟨fun s e h => by simp at h⟩
theorem throws_throwE {e : ErrKind} (h : P e) : Throws P (throwE e : M α) :=
  ⟨fun s e' h' => by simp at h'; exact h' ▸ h⟩
theorem throws_throw {e : ErrKind} (h : P e) : Throws P (throw e : M α) :=
  ⟨fun s e' h' => by simp at h'; exact h' ▸ h⟩

theorem throws_bind {m : M α} {f : α → M β} (hm : Throws P m) (hf : ∀ a, Throws P (f a)) :
    Throws P (m >>= f) := by
  constructor
  intro s e h
  rw [go_bind] at h
  rcases hgo : m.go s with ⟨r, s'⟩
  rw [hgo] at h
  cases r with
  | error e' =>
    have := hm.err s e' (by rw [hgo])
    simp only [Except.error.injEq] at h
    exact h ▸ this
  | ok a => exact (hf a).err s' e h

/-- a handler that only raises `P`-errors makes the whole `try … catch` do so -/
theorem throws_tryCatch_any {m : M α} {h : ErrKind → M α} (hh : ∀ e, Throws P (h e)) :
    Throws P (tryCatch m h) := by
  constructor
  intro s e he
  rw [go_tryCatch] at he
  rcases hgo : m.go s with ⟨r, s'⟩
  rw [hgo] at he
  cases r with
  | error e' => exact (hh e').err s' e he
  | ok a => simp at he

/-- a handler may re-raise what it caught -/
theorem throws_tryCatch {m : M α} {h : ErrKind → M α} (hm : Throws P m)
    (hh : ∀ e, P e → Throws P (h e)) : Throws P (tryCatch m h) := by
  constructor
  intro s e he
  rw [go_tryCatch] at he
  rcases hgo : m.go s with ⟨r, s'⟩
  rw [hgo] at he
  cases r with
  | error e' => exact (hh e' (hm.err s e' (by rw [hgo]))).err s' e he
  | ok a => simp at he

/-- both at once: the handler may use that the caught error is a `P`-error *if* the body only
    raises such -/
theorem throws_tryCatch' {m : M α} {h : ErrKind → M α}
    (hh : ∀ e, (Throws P m → P e) → Throws P (h e)) : Throws P (tryCatch m h) := by
  by_cases hm : Throws P m
  · exact throws_tryCatch hm (fun e he => hh e (fun _ => he))
  · exact throws_tryCatch_any (fun e => hh e (fun hm' => absurd hm' hm))

theorem throws_orElse {m : M α} {h : Unit → M α} (hh : Throws P (h ())) :
    Throws P (HOrElse.hOrElse m h) :=
  throws_tryCatch_any (h := fun _ => h ()) (fun _ => hh)

theorem throws_ite {c : Prop} [Decidable c] {a b : M α} (ha : Throws P a) (hb : Throws P b) :
    Throws P (if c then a else b) := by
  split <;> assumption

theorem throws_forIn {γ σ : Type} (l : List γ) (init : σ) (f : γ → σ → M (ForInStep σ))
    (hf : ∀ x b, Throws P (f x b)) : Throws P (forIn l init f) := by
  induction l generalizing init with
  | nil => rw [List.forIn_nil]; exact throws_pure _
  | cons x xs ih =>
    rw [List.forIn_cons]
    refine throws_bind (hf x init) (fun r => ?_)
    cases r with
    | done b => exact throws_pure _
    | yield b => exact ih b

end throws

/-- the errors the interpreter raises by itself: everything except `Timeout` and the model's
    own fuel panic -/
def Benign (e : ErrKind) : Prop := e ≠ .timeout ∧ e ≠ .panic "gas exhausted"

open Lean Elab Tactic Meta in
/-- like `pres_head` / `pres_head_split` for `Throws` goals -/
def throwsHeadCore (onlyCheck : Bool) : TacticM Unit := withMainContext do
  let g ← getMainGoal
  let t ← instantiateMVars (← g.getType)
  let fn := t.getAppFn
  let args := t.getAppArgs
  unless fn.isConstOf ``Throws && args.size == 3 do
    throwError "throws_head: not a Throws goal"
  let m := args[2]!
  if onlyCheck then
    let ok ← match m.getAppFn with
      | .const n _ => pure ((← getMatcherInfo? n).isSome)
      | _ => pure false
    unless ok do throwError "throws_head_split: the head is not a `match`"
  else
    let m' ← whnfCore m
    if m' == m then throwError "throws_head: no progress"
    replaceMainGoal [← g.change (mkAppN fn (args.set! 2 m'))]

elab "throws_head" : tactic => throwsHeadCore false
elab "throws_head_split" : tactic => throwsHeadCore true

syntax "throws_prim" : tactic
syntax "throws_step" : tactic
macro "throws_side" : tactic =>
  `(tactic| focus first
    | assumption
    | (refine ‹Throws _ _ → _› ?_; repeat throws_step)
    | (simp only [Benign, ne_eq, reduceCtorEq, not_false_eq_true, and_self]; done)
    | (simp [Benign]; done))

macro_rules | `(tactic| throws_step) => `(tactic| first
  | with_reducible exact throws_pure _
  | with_reducible exact throws_get
  | with_reducible exact throws_set _
  | with_reducible exact throws_modify _
  | ((with_reducible apply throws_throwE); throws_side)
  | ((with_reducible apply throws_throw); throws_side)
  | with_reducible assumption
  | throws_prim
  | with_reducible apply throws_bind
  | (with_reducible apply throws_tryCatch'; intro _ _)
  | with_reducible apply throws_orElse
  | (with_reducible apply throws_forIn; intro _ _)
  | intro _
  | with_reducible apply throws_ite
  | throws_head
  | (throws_head_split; split))

macro "throws_auto" : tactic => `(tactic| repeat throws_step)

theorem throws_push (v : Val) : Throws Benign (push v) := by unfold push; throws_auto
theorem throws_pop : Throws Benign pop := by unfold pop; throws_auto
theorem throws_peek (n : Nat) : Throws Benign (peek n) := by unfold peek; throws_auto
theorem throws_popN (n : Nat) : Throws Benign (popN n) := by unfold popN; throws_auto
theorem throws_curFrame : Throws Benign curFrame := by unfold curFrame; throws_auto
theorem throws_writeLocal (a b : Nat) (v : Val) : Throws Benign (writeLocal a b v) := by
  unfold writeLocal; throws_auto
theorem throws_readLocal (a b : Nat) : Throws Benign (readLocal a b) := by unfold readLocal; throws_auto
theorem throws_keyOf (v : Val) : Throws Benign (keyOf v) := by unfold keyOf; throws_auto
theorem throws_getTable (v : Val) : Throws Benign (getTable v) := by unfold getTable; throws_auto
theorem throws_tableGet (es : List (Val × Val)) (k : Val) : Throws Benign (tableGet es k) := by
  unfold tableGet; throws_auto
theorem throws_deallocBytes (c : Nat) : Throws Benign (deallocBytes c) := by unfold deallocBytes; throws_auto
theorem throws_newObject (o : Obj) : Throws Benign (newObject o) := by unfold newObject; throws_auto
theorem throws_dropGuard (a : Nat) : Throws Benign (dropGuard a) := by unfold dropGuard; throws_auto
theorem throws_closeUpvalues (t : Nat) : Throws Benign (closeUpvalues t) := by
  unfold closeUpvalues; throws_auto
theorem throws_readUpvalueLoc (a : Nat) : Throws Benign (readUpvalueLoc a) := by
  unfold readUpvalueLoc; throws_auto
theorem throws_writeUpvalueLoc (a : Nat) (v : Val) : Throws Benign (writeUpvalueLoc a v) := by
  unfold writeUpvalueLoc; throws_auto
theorem throws_allocBytes (c : Nat) : Throws Benign (allocBytes c) := by
  unfold allocBytes; throws_auto
theorem throws_guardVal (v : Val) : Throws Benign (guardVal v) := by unfold guardVal; throws_auto
theorem throws_unguardVal (v : Val) : Throws Benign (unguardVal v) := by
  unfold unguardVal
  split
  · exact throws_dropGuard _
  · exact throws_pure _

macro_rules | `(tactic| throws_prim) => `(tactic| with_reducible first
  | exact throws_push _ | exact throws_pop | exact throws_peek _ | exact throws_popN _
  | exact throws_curFrame | exact throws_writeLocal _ _ _ | exact throws_readLocal _ _
  | exact throws_keyOf _ | exact throws_getTable _ | exact throws_tableGet _ _
  | exact throws_deallocBytes _ | exact throws_newObject _ | exact throws_dropGuard _
  | exact throws_closeUpvalues _ | exact throws_readUpvalueLoc _ | exact throws_writeUpvalueLoc _ _
  | exact throws_allocBytes _ | exact throws_guardVal _ | exact throws_unguardVal _)

theorem throws_guardRows (es : List (Val × Val)) : Throws Benign (guardRows es) := by
  unfold guardRows; throws_auto
theorem throws_unguardRows (es : List (Val × Val)) : Throws Benign (unguardRows es) := by
  unfold unguardRows; throws_auto
macro_rules | `(tactic| throws_prim) => `(tactic| with_reducible first
  | exact throws_guardRows _ | exact throws_unguardRows _)

theorem throws_initTable : Throws Benign initTable := by unfold initTable; throws_auto
theorem throws_initString (b : List UInt8) : Throws Benign (initString b) := by
  unfold initString; throws_auto
theorem throws_initSimple (o : Obj) : Throws Benign (initSimple o) := by unfold initSimple; throws_auto
theorem throws_tableInsert (a : Nat) (k v : Val) : Throws Benign (tableInsert a k v) := by
  unfold tableInsert; throws_auto
/-- whatever the callback raises is wrapped in `TaskFailure` -/
theorem throws_callNative (reenter : Reenter) (h : UInt32) : Throws Benign (callNative reenter h) := by
  unfold callNative; throws_auto
theorem throws_callScript (p : Prog) (src ip : Nat) (l : UInt32) (ar : Nat) (c : Option Nat) :
    Throws Benign (step.callScript p src ip l ar c) := by
  unfold step.callScript; throws_auto

macro_rules | `(tactic| throws_prim) => `(tactic| with_reducible first
  | exact throws_initTable | exact throws_initString _ | exact throws_initSimple _
  | exact throws_tableInsert _ _ _ | exact throws_callNative _ _ | exact throws_callScript _ _ _ _ _ _)

/-- **an instruction never raises `Timeout` (nor the fuel panic) by itself**, whatever the
    callback does: errors of natives are wrapped -/
theorem throws_step (p : Prog) (reenter : Reenter) (src : Nat) : Throws Benign (step p reenter src) := by
  unfold step; throws_auto

/-! ## parametricity in the budget: adding `δ` to `remaining` changes nothing else -/

/-- the innermost cause of an error: natives wrap the errors of their callees in `TaskFailure` -/
def rootCause : ErrKind → ErrKind
  | .taskFailure _ inner => rootCause inner
  | e => e

/-- the two errors that depend on the budget / on the fuel -/
def Fatal (e : ErrKind) : Prop := rootCause e = .timeout ∨ rootCause e = .panic "gas exhausted"

theorem fatal_taskFailure (n : String) (e : ErrKind) : Fatal (.taskFailure n e) ↔ Fatal e := by
  simp [Fatal, rootCause]

/-- the same machine with `δ` more units of budget -/
def VmState.shift (δ : Nat) (s : VmState) : VmState := { s with remaining := s.remaining + δ }

section shift
variable (δ : Nat) (s : VmState)
@[simp] theorem shift_stack : (s.shift δ).stack = s.stack := rfl
@[simp] theorem shift_frames : (s.shift δ).frames = s.frames := rfl
@[simp] theorem shift_frameCap : (s.shift δ).frameCap = s.frameCap := rfl
@[simp] theorem shift_globals : (s.shift δ).globals = s.globals := rfl
@[simp] theorem shift_heap : (s.shift δ).heap = s.heap := rfl
@[simp] theorem shift_mem : (s.shift δ).mem = s.mem := rfl
@[simp] theorem shift_guards : (s.shift δ).guards = s.guards := rfl
@[simp] theorem shift_openUpvalues : (s.shift δ).openUpvalues = s.openUpvalues := rfl
@[simp] theorem shift_hostLog : (s.shift δ).hostLog = s.hostLog := rfl
@[simp] theorem shift_dispatches : (s.shift δ).dispatches = s.dispatches := rfl
@[simp] theorem shift_gcRuns : (s.shift δ).gcRuns = s.gcRuns := rfl
@[simp] theorem shift_sched : (s.shift δ).sched = s.sched := rfl
@[simp] theorem shift_allocIndex : (s.shift δ).allocIndex = s.allocIndex := rfl
@[simp] theorem shift_forcedGcs : (s.shift δ).forcedGcs = s.forcedGcs := rfl
theorem shift_remaining : (s.shift δ).remaining = s.remaining + δ := rfl
end shift

/-- `m₂` on the machine with `δ` more budget does what `m₁` does — provided `m₁` does not end in
    a `Fatal` error -/
structure Sim {α : Type} (δ : Nat) (m₁ m₂ : M α) : Prop where
  sim : ∀ s, (∀ e, (m₁.go s).1 = .error e → ¬ Fatal e) →
    m₂.go (s.shift δ) = ((m₁.go s).1, (m₁.go s).2.shift δ)

section sim
variable {δ : Nat} {α β : Type}

theorem sim_pure (a : α) : Sim δ (pure a : M α) (pure a) := ⟨fun _ _ => rfl⟩
theorem sim_throwE (e : ErrKind) : Sim δ (throwE e : M α) (throwE e) := ⟨fun _ _ => rfl⟩
theorem sim_throw (e : ErrKind) : Sim δ (throw e : M α) (throw e) := ⟨fun _ _ => rfl⟩
theorem sim_set {x₁ x₂ : VmState} (h : x₂ = x₁.shift δ) : Sim δ (set x₁ : M PUnit) (set x₂) :=
  ⟨fun _ _ => by subst h; rfl⟩
theorem sim_modify {g₁ g₂ : VmState → VmState} (h : ∀ s, g₂ (s.shift δ) = (g₁ s).shift δ) :
    Sim δ (modify g₁ : M PUnit) (modify g₂) :=
  ⟨fun s _ => by simp only [go_modify, h]⟩

theorem sim_bind {m₁ m₂ : M α} {f₁ f₂ : α → M β} (hm : Sim δ m₁ m₂) (hf : ∀ a, Sim δ (f₁ a) (f₂ a)) :
    Sim δ (m₁ >>= f₁) (m₂ >>= f₂) := by
  constructor
  intro s hs
  rw [go_bind] at hs ⊢
  rw [go_bind]
  rcases hgo : m₁.go s with ⟨r, s'⟩
  rw [hgo] at hs
  cases r with
  | error e =>
    have := hm.sim s (by rw [hgo]; intro e' he'; simp only [Except.error.injEq] at he'; subst he'; exact hs e rfl)
    rw [this, hgo]
  | ok a =>
    have := hm.sim s (by rw [hgo]; intro e' he'; cases he')
    rw [this, hgo]
    exact (hf a).sim s' hs

/-- `let s ← get; …` on both sides: the right continuation receives the shifted state -/
theorem sim_get_bind {f₁ f₂ : VmState → M β} (hf : ∀ s, Sim δ (f₁ s) (f₂ (s.shift δ))) :
    Sim δ (get >>= f₁) (get >>= f₂) := by
  constructor
  intro s hs
  rw [go_bind] at hs ⊢
  rw [go_bind]
  simp only [go_get] at hs ⊢
  exact (hf s).sim s hs

theorem sim_ite {c : Prop} {i₁ i₂ : Decidable c} {a₁ a₂ b₁ b₂ : M α} (ha : Sim δ a₁ a₂)
    (hb : Sim δ b₁ b₂) : Sim δ (@ite _ c i₁ a₁ b₁) (@ite _ c i₂ a₂ b₂) := by
  by_cases h : c
  · rw [if_pos h, if_pos h]; exact ha
  · rw [if_neg h, if_neg h]; exact hb

theorem sim_forIn {γ σ : Type} (l : List γ) (init : σ) (f₁ f₂ : γ → σ → M (ForInStep σ))
    (hf : ∀ x b, Sim δ (f₁ x b) (f₂ x b)) : Sim δ (forIn l init f₁) (forIn l init f₂) := by
  induction l generalizing init with
  | nil => rw [List.forIn_nil, List.forIn_nil]; exact sim_pure _
  | cons x xs ih =>
    rw [List.forIn_cons, List.forIn_cons]
    refine sim_bind (hf x init) (fun r => ?_)
    cases r with
    | done b => exact sim_pure _
    | yield b => exact ih b

/-- `try … catch`: the handler must pass a `Fatal` error on as a `Fatal` error -/
theorem sim_tryCatch {m₁ m₂ : M α} {h₁ h₂ : ErrKind → M α} (hm : Sim δ m₁ m₂)
    (hh : ∀ e, Sim δ (h₁ e) (h₂ e))
    (hfat : ∀ e, Fatal e → ∀ s, ∃ e', ((h₁ e).go s).1 = .error e' ∧ Fatal e') :
    Sim δ (tryCatch m₁ h₁) (tryCatch m₂ h₂) := by
  constructor
  intro s hs
  rw [go_tryCatch] at hs ⊢
  rw [go_tryCatch]
  rcases hgo : m₁.go s with ⟨r, s'⟩
  rw [hgo] at hs
  cases r with
  | ok a =>
    have := hm.sim s (by rw [hgo]; intro e' he'; cases he')
    rw [this, hgo]
  | error e =>
    have hnf : ¬ Fatal e := by
      intro hf
      obtain ⟨e', he', hf'⟩ := hfat e hf s'
      exact hs e' he' hf'
    have := hm.sim s (by rw [hgo]; intro e' he'; simp only [Except.error.injEq] at he'; subst he'; exact hnf)
    rw [this, hgo]
    exact (hh e).sim s' hs

/-- `try … catch` around a body that never raises a `Fatal` error -/
theorem sim_tryCatch_mild {m₁ m₂ : M α} {h₁ h₂ : ErrKind → M α} (hm : Sim δ m₁ m₂)
    (hh : ∀ e, Sim δ (h₁ e) (h₂ e)) (hmild : Throws (fun e => ¬ Fatal e) m₁) :
    Sim δ (tryCatch m₁ h₁) (tryCatch m₂ h₂) := by
  constructor
  intro s hs
  rw [go_tryCatch] at hs ⊢
  rw [go_tryCatch]
  have := hm.sim s (fun e he => hmild.err s e he)
  rcases hgo : m₁.go s with ⟨r, s'⟩
  rw [hgo] at hs this
  rw [this]
  cases r with
  | ok a => rfl
  | error e => exact (hh e).sim s' hs

theorem sim_orElse_mild {m₁ m₂ : M α} {h₁ h₂ : Unit → M α} (hm : Sim δ m₁ m₂)
    (hh : Sim δ (h₁ ()) (h₂ ())) (hmild : Throws (fun e => ¬ Fatal e) m₁) :
    Sim δ (HOrElse.hOrElse m₁ h₁) (HOrElse.hOrElse m₂ h₂) :=
  sim_tryCatch_mild (h₁ := fun _ => h₁ ()) (h₂ := fun _ => h₂ ()) hm (fun _ => hh) hmild

theorem sim_liftRun {g₁ g₂ : VmState → VmState × Except RunErr (Option Val)}
    (h : ∀ s, (∀ e, (g₁ s).2 = .error e → ¬ Fatal e.kind) → g₂ (s.shift δ) = ((g₁ s).1.shift δ, (g₁ s).2)) :
    Sim δ (liftRun g₁) (liftRun g₂) := by
  constructor
  intro s hs
  have hcond : ∀ e, (g₁ s).2 = .error e → ¬ Fatal e.kind := by
    intro e he
    apply hs e.kind
    show (match g₁ s with
      | (s', .ok (some v)) => ((.ok v : Except ErrKind Val), s')
      | (s', .ok none) => (.ok .nil, s')
      | (s', .error e) => (.error e.kind, s')).1 = _
    rcases hg : g₁ s with ⟨s', r⟩
    rw [hg] at he
    simp only at he
    subst he
    rfl
  have h2 := h s hcond
  show (match g₂ (s.shift δ) with
      | (s', .ok (some v)) => ((.ok v : Except ErrKind Val), s')
      | (s', .ok none) => (.ok .nil, s')
      | (s', .error e) => (.error e.kind, s')) =
    ((match g₁ s with
      | (s', .ok (some v)) => ((.ok v : Except ErrKind Val), s')
      | (s', .ok none) => (.ok .nil, s')
      | (s', .error e) => (.error e.kind, s')).1,
     (match g₁ s with
      | (s', .ok (some v)) => ((.ok v : Except ErrKind Val), s')
      | (s', .ok none) => (.ok .nil, s')
      | (s', .error e) => (.error e.kind, s')).2.shift δ)
  rw [h2]
  rcases g₁ s with ⟨s', (e | (_ | v))⟩ <;> rfl

end sim

/-- the errors `getTable` raises by itself are not `Fatal` -/
theorem mild_getTable (v : Val) : Throws (fun e => ¬ Fatal e) (getTable v) := by
  unfold getTable
  split
  · refine throws_bind throws_get (fun s => ?_)
    split
    · exact throws_pure _
    · exact throws_throwE (by simp [Fatal, rootCause])
  · exact throws_throwE (by simp [Fatal, rootCause])

open Lean Elab Tactic Meta in
/-- like `pres_head` / `pres_head_split`, for both computations of a `Sim` goal -/
def simHeadCore (onlyCheck : Bool) : TacticM Unit := withMainContext do
  let g ← getMainGoal
  let t ← instantiateMVars (← g.getType)
  let fn := t.getAppFn
  let args := t.getAppArgs
  unless fn.isConstOf ``Sim && args.size == 4 do
    throwError "sim_head: not a Sim goal"
  let m₁ := args[2]!
  let m₂ := args[3]!
  if onlyCheck then
    let ok ← match m₁.getAppFn with
      | .const n _ => pure ((← getMatcherInfo? n).isSome)
      | _ => pure false
    unless ok do throwError "sim_head_split: the head is not a `match`"
  else
    let m₁' ← whnfCore m₁
    let m₂' ← whnfCore m₂
    if m₁' == m₁ && m₂' == m₂ then throwError "sim_head: no progress"
    replaceMainGoal [← g.change (mkAppN fn ((args.set! 2 m₁').set! 3 m₂'))]

elab "sim_head" : tactic => simHeadCore false
elab "sim_head_split" : tactic => simHeadCore true

syntax "sim_prim" : tactic

/-- rewrite the projections of a shifted state -/
macro "sim_norm" : tactic => `(tactic| try dsimp +instances only [shift_stack, shift_frames, shift_frameCap,
  shift_globals, shift_heap, shift_mem, shift_guards, shift_openUpvalues, shift_hostLog,
  shift_dispatches, shift_gcRuns, shift_sched, shift_allocIndex, shift_forcedGcs])

macro "sim_step" : tactic => `(tactic| first
  | with_reducible exact sim_pure _
  | with_reducible exact sim_throwE _
  | with_reducible exact sim_throw _
  | with_reducible exact (‹∀ f : Val, Sim _ ((_ : Val → M Val) f) ((_ : Val → M Val) f)›) _
  | sim_prim
  | ((with_reducible apply sim_set); rfl)
  | ((with_reducible apply sim_modify); intro _; rfl)
  | ((with_reducible apply sim_get_bind); intro _; sim_norm)
  | with_reducible apply sim_bind
  | ((with_reducible apply sim_forIn); intro _ _)
  | ((with_reducible apply sim_orElse_mild);
     case hmild => (refine throws_bind (mild_getTable _) (fun _ => ?_); repeat throws_step))
  | intro _
  | with_reducible apply sim_ite
  | sim_head
  | (sim_head_split; split))

macro "sim_auto" : tactic => `(tactic| repeat sim_step)

section simprims
variable {δ : Nat}

theorem sim_push (v : Val) : Sim δ (push v) (push v) := by unfold push; sim_auto
theorem sim_pop : Sim δ pop pop := by unfold pop; sim_auto
theorem sim_peek (n : Nat) : Sim δ (peek n) (peek n) := by unfold peek; sim_auto
theorem sim_popN (n : Nat) : Sim δ (popN n) (popN n) := by unfold popN; sim_auto
theorem sim_curFrame : Sim δ curFrame curFrame := by unfold curFrame; sim_auto
theorem sim_writeLocal (a b : Nat) (v : Val) : Sim δ (writeLocal a b v) (writeLocal a b v) := by
  unfold writeLocal; sim_auto
theorem sim_readLocal (a b : Nat) : Sim δ (readLocal a b) (readLocal a b) := by
  unfold readLocal; sim_auto
theorem sim_keyOf (v : Val) : Sim δ (keyOf v) (keyOf v) := by unfold keyOf; sim_auto
theorem sim_getTable (v : Val) : Sim δ (getTable v) (getTable v) := by unfold getTable; sim_auto
theorem sim_tableGet (es : List (Val × Val)) (k : Val) : Sim δ (tableGet es k) (tableGet es k) := by
  unfold tableGet; sim_auto
theorem sim_deallocBytes (c : Nat) : Sim δ (deallocBytes c) (deallocBytes c) := by
  unfold deallocBytes; sim_auto
theorem sim_newObject (o : Obj) : Sim δ (newObject o) (newObject o) := by unfold newObject; sim_auto
theorem sim_dropGuard (a : Nat) : Sim δ (dropGuard a) (dropGuard a) := by unfold dropGuard; sim_auto
theorem closeUpvalues_go_shift (top : Nat) (s : VmState) :
    ∀ (l : List Nat) (h : Heap),
      closeUpvalues.go top (s.shift δ) l h = closeUpvalues.go top s l h := by
  intro l
  induction l with
  | nil => intro h; rfl
  | cons a rest ih =>
    intro h
    unfold closeUpvalues.go
    split
    · split
      · rfl
      · rw [shift_stack]; exact ih _
    · rfl

theorem sim_closeUpvalues (t : Nat) : Sim δ (closeUpvalues t) (closeUpvalues t) := by
  unfold closeUpvalues
  refine sim_get_bind (fun s => ?_)
  simp only [closeUpvalues_go_shift]
  exact sim_set rfl
theorem sim_readUpvalueLoc (a : Nat) : Sim δ (readUpvalueLoc a) (readUpvalueLoc a) := by
  unfold readUpvalueLoc; sim_auto
theorem sim_writeUpvalueLoc (a : Nat) (v : Val) : Sim δ (writeUpvalueLoc a v) (writeUpvalueLoc a v) := by
  unfold writeUpvalueLoc; sim_auto

theorem sim_guardVal (v : Val) : Sim δ (guardVal v) (guardVal v) := by unfold guardVal; sim_auto
theorem sim_unguardVal (v : Val) : Sim δ (unguardVal v) (unguardVal v) := by
  unfold unguardVal
  split
  · exact sim_dropGuard _
  · exact sim_pure _

macro_rules | `(tactic| sim_prim) => `(tactic| with_reducible first
  | exact sim_guardVal _ | exact sim_unguardVal _
  | exact sim_push _ | exact sim_pop | exact sim_peek _ | exact sim_popN _ | exact sim_curFrame
  | exact sim_writeLocal _ _ _ | exact sim_readLocal _ _ | exact sim_keyOf _ | exact sim_getTable _
  | exact sim_tableGet _ _ | exact sim_deallocBytes _ | exact sim_newObject _ | exact sim_dropGuard _
  | exact sim_closeUpvalues _ | exact sim_readUpvalueLoc _ | exact sim_writeUpvalueLoc _ _)

theorem sim_guardRows (es : List (Val × Val)) : Sim δ (guardRows es) (guardRows es) := by
  unfold guardRows; sim_auto
theorem sim_unguardRows (es : List (Val × Val)) : Sim δ (unguardRows es) (unguardRows es) := by
  unfold unguardRows; sim_auto
macro_rules | `(tactic| sim_prim) => `(tactic| with_reducible first
  | exact sim_guardRows _ | exact sim_unguardRows _)

theorem gc_shift (s : VmState) : gc (s.shift δ) = (gc s).shift δ := rfl

theorem sim_allocBytes (c : Nat) : Sim δ (allocBytes c) (allocBytes c) := by
  unfold allocBytes
  sim_auto
macro_rules | `(tactic| sim_prim) => `(tactic| with_reducible exact sim_allocBytes _)

theorem sim_initTable : Sim δ initTable initTable := by
  unfold initTable
  refine sim_bind (sim_allocBytes _) (fun _ => sim_bind ?_ (fun _ => sim_newObject _))
  refine sim_tryCatch (sim_allocBytes _) (fun e => by sim_auto) (fun e hf s => ⟨e, rfl, hf⟩)

theorem sim_initString (b : List UInt8) : Sim δ (initString b) (initString b) := by
  unfold initString
  refine sim_bind (sim_allocBytes _) (fun _ => sim_bind ?_ (fun _ => sim_newObject _))
  refine sim_tryCatch (sim_allocBytes _) (fun e => by sim_auto) (fun e hf s => ⟨e, rfl, hf⟩)

theorem sim_initSimple (o : Obj) : Sim δ (initSimple o) (initSimple o) := by
  unfold initSimple; sim_auto
theorem sim_tableInsert (a : Nat) (k v : Val) : Sim δ (tableInsert a k v) (tableInsert a k v) := by
  unfold tableInsert; sim_auto
theorem sim_nativeConv (name : String) : Sim δ (nativeConv name) (nativeConv name) := by
  unfold nativeConv; sim_auto
theorem sim_callScript (p : Prog) (src ip : Nat) (l : UInt32) (ar : Nat) (c : Option Nat) :
    Sim δ (step.callScript p src ip l ar c) (step.callScript p src ip l ar c) := by
  unfold step.callScript; sim_auto

macro_rules | `(tactic| sim_prim) => `(tactic| with_reducible first
  | exact sim_initTable | exact sim_initString _ | exact sim_initSimple _ | exact sim_tableInsert _ _ _
  | exact sim_nativeConv _ | exact sim_callScript _ _ _ _ _ _)

theorem sim_callNativeBody (re₁ re₂ : Reenter) (hre : ∀ f, Sim δ (re₁ f) (re₂ f)) (name : String) :
    Sim δ (callNativeBody re₁ name) (callNativeBody re₂ name) := by
  unfold callNativeBody
  sim_auto

theorem sim_callNative (re₁ re₂ : Reenter) (hre : ∀ f, Sim δ (re₁ f) (re₂ f)) (h : UInt32) :
    Sim δ (callNative re₁ h) (callNative re₂ h) := by
  unfold callNative
  split
  · exact sim_throwE _
  · next name _ =>
    refine sim_bind (sim_tryCatch (sim_nativeConv name) (fun e => sim_throwE _)
      (fun e hf s => ⟨_, rfl, (fatal_taskFailure name e).2 hf⟩)) (fun _ => ?_)
    refine sim_bind (sim_tryCatch (sim_callNativeBody re₁ re₂ hre name) (fun e => by sim_auto)
      (fun e hf s => ⟨_, rfl, (fatal_taskFailure name e).2 hf⟩)) (fun r => by sim_auto)

macro_rules
  | `(tactic| sim_prim) => `(tactic| with_reducible exact sim_callNative _ _ (by assumption) _)

/-- **an instruction is parametric in the budget** as soon as the re-entry callback is -/
theorem sim_step (p : Prog) (re₁ re₂ : Reenter) (hre : ∀ f, Sim δ (re₁ f) (re₂ f)) (src : Nat) :
    Sim δ (step p re₁ src) (step p re₂ src) := by
  unfold step
  sim_auto

end simprims

/-! ### the dispatch loop is parametric in the budget (and monotone in the fuel) -/

theorem shift_tick (δ : Nat) (s : VmState) (h : s.remaining - 1 ≠ 0) :
    (s.shift δ).tick = s.tick.shift δ := by
  have : s.remaining + δ - 1 = s.remaining - 1 + δ := by omega
  simp only [VmState.shift, VmState.tick, this]

theorem failAt_shift (δ : Nat) (s : VmState) (e : ErrKind) :
    failAt (s.shift δ) e = ((failAt s e).1.shift δ, (failAt s e).2) := rfl

theorem enterScript_shift (p : Prog) (δ g₁ g₂ : Nat)
    (ih : ∀ (t : Task) (s : VmState), (∀ e, (exec p g₁ t s).2 = .error e → ¬ Fatal e.kind) →
      exec p g₂ t (s.shift δ) = ((exec p g₁ t s).1.shift δ, (exec p g₁ t s).2))
    (s : VmState) (l : UInt32) (ar : Nat) (c : Option Nat)
    (hnf : ∀ e, (enterScript p g₁ s l ar c).2 = .error e → ¬ Fatal e.kind) :
    enterScript p g₂ (s.shift δ) l ar c =
      ((enterScript p g₁ s l ar c).1.shift δ, (enterScript p g₁ s l ar c).2) := by
  unfold enterScript at hnf ⊢
  dsimp +instances only [shift_stack, shift_frames, shift_frameCap] at hnf ⊢
  revert hnf
  generalize List.find? _ p.labels = fo
  rcases fo with _ | ⟨_, pos⟩
  · intro _; rfl
  dsimp only
  by_cases h1 : s.stack.count < ar
  · simp only [h1, if_true]; intro _; rfl
  by_cases h2 : s.frames.length + 1 > s.frameCap
  · simp only [h1, h2, if_true, if_false]; intro _; rfl
  by_cases h3 : s.frames.length + 2 > s.frameCap
  · simp only [h1, h2, h3, if_true, if_false]; intro _; trivial
  simp only [h1, h2, h3, if_false]
  have key := ih (.loop pos) { s with frames := s.frames ++ [⟨pos, p.bytecode.size - 1, s.stack.count - ar, c⟩, ⟨pos, p.bytecode.size - 1, s.stack.count - ar, c⟩] }
  rcases hex : exec p g₁ (.loop pos) { s with frames := s.frames ++ [⟨pos, p.bytecode.size - 1, s.stack.count - ar, c⟩, ⟨pos, p.bytecode.size - 1, s.stack.count - ar, c⟩] } with ⟨s', r⟩
  rw [hex] at key
  intro hnf
  cases r with
  | error e =>
    have := key (fun e' he' => hnf e' he')
    show (match exec p g₂ (.loop pos) (VmState.shift δ { s with frames := s.frames ++ [⟨pos, p.bytecode.size - 1, s.stack.count - ar, c⟩, ⟨pos, p.bytecode.size - 1, s.stack.count - ar, c⟩] }) with
      | (s', .ok _) => _
      | (s', .error e) => _) = _
    rw [this]
    rfl
  | ok v =>
    have := key (fun e' he' => by cases he')
    show (match exec p g₂ (.loop pos) (VmState.shift δ { s with frames := s.frames ++ [⟨pos, p.bytecode.size - 1, s.stack.count - ar, c⟩, ⟨pos, p.bytecode.size - 1, s.stack.count - ar, c⟩] }) with
      | (s', .ok _) => _
      | (s', .error e) => _) = _
    rw [this]
    rfl

/-- **the dispatch loop and `run_function` are parametric in the budget and monotone in the
    fuel**: with `δ` more units of budget and at least as much fuel, a run that does not end in
    `Timeout` or in the fuel panic (possibly wrapped in `TaskFailure`s) ends with the same result
    and in the same state, except that `δ` more units are left -/
theorem exec_shift (p : Prog) (δ : Nat) : ∀ (g₁ g₂ : Nat) (t : Task) (s : VmState), g₁ ≤ g₂ →
    (∀ e, (exec p g₁ t s).2 = .error e → ¬ Fatal e.kind) →
    exec p g₂ t (s.shift δ) = ((exec p g₁ t s).1.shift δ, (exec p g₁ t s).2) := by
  intro g₁
  induction g₁ with
  | zero =>
    intro g₂ t s _ hnf
    exact absurd (.inr rfl) (hnf _ (by rw [exec_zero]))
  | succ g₁ ih =>
    intro g₂ t s hle hnf
    obtain ⟨g₂, rfl⟩ : ∃ g, g₂ = g + 1 := ⟨g₂ - 1, by omega⟩
    have hle' : g₁ ≤ g₂ := by omega
    have hre : ∀ f, Sim δ (reenterOf p g₁ f) (reenterOf p g₂ f) :=
      fun f => sim_liftRun (fun s hs => ih g₂ (.call f) s hle' hs)
    cases t with
    | loop ip =>
      rw [exec_loop p g₂ ip (s.shift δ)]
      rw [exec_loop p g₁ ip s] at hnf ⊢
      by_cases hip : ip ≥ p.bytecode.size
      · simp only [hip, if_true]; rfl
      simp only [hip, if_false] at hnf ⊢
      by_cases h0 : s.remaining - 1 = 0
      · simp only [h0, if_true] at hnf
        exact absurd (.inl rfl) (hnf _ rfl)
      have h0' : ¬ ((s.shift δ).remaining - 1 = 0) := by rw [shift_remaining]; omega
      simp only [h0, h0', if_false] at hnf ⊢
      rw [shift_tick δ s h0]
      have hstep := (sim_step p _ _ hre ip).sim s.tick
      rcases hgo : (step p (reenterOf p g₁) ip).go s.tick with ⟨r, s'⟩
      rw [hgo] at hstep hnf
      cases r with
      | error e =>
        rw [hstep (fun e' he' => by
          simp only [Except.error.injEq] at he'; subst he'; exact hnf _ rfl)]
        rfl
      | ok ctl =>
        rw [hstep (fun e' he' => by cases he')]
        simp only at hnf ⊢
        by_cases hx : ctl.exit = true
        · simp only [hx, if_true]
        · simp only [hx] at hnf ⊢
          exact ih g₂ _ s' hle' hnf
    | call f =>
      rw [exec_call p g₂ f (s.shift δ)]
      rw [exec_call p g₁ f s] at hnf ⊢
      cases f with
      | obj a =>
        dsimp only [shift_heap] at hnf ⊢
        revert hnf
        rcases s.heap.get a with _ | o
        · intro _; rfl
        · cases o with
          | native h =>
            dsimp only
            intro hnf
            have hcn := (sim_callNative _ _ hre h).sim s
            rcases hgo : (callNative (reenterOf p g₁) h).go s with ⟨r, s'⟩
            rw [hgo] at hcn hnf
            cases r with
            | error e =>
              rw [hcn (fun e' he' => by
                simp only [Except.error.injEq] at he'; subst he'; exact hnf _ rfl)]
              rfl
            | ok u =>
              rw [hcn (fun e' he' => by cases he')]
              rfl
          | fn h ar =>
            intro hnf
            exact enterScript_shift p δ g₁ g₂ (fun t s hs => ih g₂ t s hle' hs) s _ _ _ hnf
          | closure h ar ups =>
            intro hnf
            exact enterScript_shift p δ g₁ g₂ (fun t s hs => ih g₂ t s hle' hs) s _ _ _ hnf
          | table _ _ => intro _; rfl
          | str _ => intro _; rfl
          | upvalue _ => intro _; rfl
      | nil => rfl
      | int _ => rfl
      | real _ => rfl

end Cao.Vm
