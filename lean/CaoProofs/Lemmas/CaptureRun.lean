import CaoProofs.Lemmas.NoPanicExec
import CaoProofs.Props.C02
/-!
# The capture assertions of `RegisterUpvalue` are unreachable in region-respecting runs (C04c)

`St P m Q E`: a Hoare triple over whole machine states with a separate error postcondition (the
state-predicate analogue of the frames-only triple `Fr` of `NoPanic.lean`).

The dynamic invariant (`Inv`): every `fn` object enters a position of level 0, every closure object
has at least as many upvalues as the position its handle enters requires (`Complete`), and a list
`W` of obligations `(closure of a frame, level of the position it will continue at)` is satisfied and rooted in
the call stack.  Between a `Closure` instruction and the end of its `CopyLast; RegisterUpvalue`
pairs one closure object — the one on top of the stack — is exempt (`InvX (some a)`).
-/
namespace Cao.Vm
set_option linter.unusedSectionVars false
set_option linter.unusedVariables false

/-! ## the triple -/

structure St {α : Type} (P : VmState → Prop) (m : M α) (Q : α → VmState → Prop)
    (E : ErrKind → Prop) : Prop where
  ok : ∀ s a s', P s → m.go s = (.ok a, s') → Q a s'
  err : ∀ s e s', P s → m.go s = (.error e, s') → E e

abbrev NeverS {α : Type} : α → VmState → Prop := fun _ _ => False

section rules
variable {α β : Type} {P : VmState → Prop} {Q : α → VmState → Prop} {E : ErrKind → Prop}

theorem st_pure {a : α} (h : ∀ s, P s → Q a s) : St P (pure a : M α) Q E :=
  ⟨fun s a' s' hs hg => by
      simp only [go_pure, Prod.mk.injEq, Except.ok.injEq] at hg
      obtain ⟨rfl, rfl⟩ := hg; exact h _ hs,
   fun s e s' _ hg => by simp at hg⟩

theorem st_throwE {e : ErrKind} (h : E e) : St P (throwE e : M α) Q E :=
  ⟨fun s a s' _ hg => by simp at hg,
   fun s e' s' _ hg => by
      simp only [go_throwE, Prod.mk.injEq, Except.error.injEq] at hg
      obtain ⟨rfl, _⟩ := hg; exact h⟩

theorem st_throw {e : ErrKind} (h : E e) : St P (throw e : M α) Q E := st_throwE h

theorem st_conseq {m : M α} {P' : VmState → Prop} {Q' : α → VmState → Prop} {E' : ErrKind → Prop}
    (hm : St P' m Q' E') (hp : ∀ s, P s → P' s) (hq : ∀ a s, Q' a s → Q a s) (he : ∀ e, E' e → E e) :
    St P m Q E :=
  ⟨fun s a s' hs hg => hq _ _ (hm.ok s a s' (hp s hs) hg), fun s e s' hs hg => he _ (hm.err s e s' (hp s hs) hg)⟩

theorem st_bind {m : M α} {f : α → M β} {J : α → VmState → Prop} {Q : β → VmState → Prop}
    (hm : St P m J E) (hf : ∀ a, St (J a) (f a) Q E) : St P (m >>= f) Q E := by
  constructor
  · intro s b s' hs hg
    rw [go_bind] at hg
    rcases hgo : m.go s with ⟨r, s1⟩
    rw [hgo] at hg
    cases r with
    | error e => simp at hg
    | ok a => exact (hf a).ok s1 b s' (hm.ok s a s1 hs hgo) hg
  · intro s e s' hs hg
    rw [go_bind] at hg
    rcases hgo : m.go s with ⟨r, s1⟩
    rw [hgo] at hg
    cases r with
    | error e' =>
      simp only [Prod.mk.injEq, Except.error.injEq] at hg
      obtain ⟨rfl, _⟩ := hg
      exact hm.err s e' s1 hs hgo
    | ok a => exact (hf a).err s1 e s' (hm.ok s a s1 hs hgo) hg

/-- sequencing with an invariant -/
theorem st_bind_inv {m : M α} {f : α → M β} {Q : β → VmState → Prop}
    (hm : St P m (fun _ => P) E) (hf : ∀ a, St P (f a) Q E) : St P (m >>= f) Q E :=
  st_bind hm hf

theorem st_get_bind {f : VmState → M β} {Q : β → VmState → Prop}
    (hf : ∀ s0, P s0 → St (fun s => s = s0) (f s0) Q E) : St P (get >>= f) Q E :=
  ⟨fun s b s' hs hg => by
      rw [go_bind] at hg; simp only [go_get] at hg
      exact (hf s hs).ok s b s' rfl hg,
   fun s e s' hs hg => by
      rw [go_bind] at hg; simp only [go_get] at hg
      exact (hf s hs).err s e s' rfl hg⟩

theorem st_set_bind {x : VmState} {f : PUnit → M β} {Q : β → VmState → Prop}
    (hf : St (fun s => s = x) (f ⟨⟩) Q E) : St P (set x >>= f) Q E :=
  ⟨fun s b s' _ hg => by
      rw [go_bind] at hg; simp only [go_set] at hg
      exact hf.ok x b s' rfl hg,
   fun s e s' _ hg => by
      rw [go_bind] at hg; simp only [go_set] at hg
      exact hf.err x e s' rfl hg⟩

theorem st_set {x : VmState} {Q : PUnit → VmState → Prop} (h : Q ⟨⟩ x) : St P (set x : M PUnit) Q E :=
  ⟨fun s a s' _ hg => by
      simp only [go_set, Prod.mk.injEq] at hg
      obtain ⟨_, rfl⟩ := hg; exact h,
   fun s e s' _ hg => by simp at hg⟩

theorem st_modify {g : VmState → VmState} {Q : PUnit → VmState → Prop} (h : ∀ s, P s → Q ⟨⟩ (g s)) :
    St P (modify g : M PUnit) Q E :=
  ⟨fun s a s' hs hg => by
      simp only [go_modify, Prod.mk.injEq] at hg
      obtain ⟨_, rfl⟩ := hg; exact h s hs,
   fun s e s' _ hg => by simp at hg⟩

theorem st_ite {c : Prop} [Decidable c] {a b : M α} (ha : c → St P a Q E) (hb : ¬ c → St P b Q E) :
    St P (if c then a else b) Q E := by
  split
  · exact ha ‹_›
  · exact hb ‹_›

/-- `try … catch` whose handler always re-raises -/
theorem st_tryCatch {m : M α} {h : ErrKind → M α} (hm : St P m Q E)
    (hh : ∀ e, E e → St (fun _ => True) (h e) NeverS E) : St P (tryCatch m h) Q E := by
  constructor
  · intro s a s' hs hg
    rw [go_tryCatch] at hg
    rcases hgo : m.go s with ⟨r, s1⟩
    rw [hgo] at hg
    cases r with
    | ok a' =>
      simp only [Prod.mk.injEq, Except.ok.injEq] at hg
      obtain ⟨rfl, rfl⟩ := hg
      exact hm.ok s a' s1 hs hgo
    | error e => exact ((hh e (hm.err s e s1 hs hgo)).ok s1 a s' trivial hg).elim
  · intro s e s' hs hg
    rw [go_tryCatch] at hg
    rcases hgo : m.go s with ⟨r, s1⟩
    rw [hgo] at hg
    cases r with
    | ok a' => simp at hg
    | error e' => exact (hh e' (hm.err s e' s1 hs hgo)).err s1 e s' trivial hg

theorem st_orElse {m : M α} {h : Unit → M α} (hm : St P m Q E)
    (hh : St (fun _ => True) (h ()) NeverS E) : St P (HOrElse.hOrElse m h) Q E :=
  st_tryCatch (h := fun _ => h ()) hm (fun _ _ => hh)

theorem st_forIn {γ σ : Type} (l : List γ) (init : σ) (f : γ → σ → M (ForInStep σ))
    (hf : ∀ x b, St P (f x b) (fun _ => P) E) : St P (forIn l init f) (fun _ => P) E := by
  induction l generalizing init with
  | nil => rw [List.forIn_nil]; exact st_pure (fun _ h => h)
  | cons x xs ih =>
    rw [List.forIn_cons]
    refine st_bind (hf x init) (fun r => ?_)
    cases r with
    | done b => exact st_pure (fun _ h => h)
    | yield b => exact ih b

theorem st_guard_bind {c : Prop} [Decidable c] {e : ErrKind} {f : PUnit → M β} {Q : β → VmState → Prop}
    (he : c → E e) (hf : ¬ c → St P (f ⟨⟩) Q E) :
    St P ((if c then throwE e else Pure.pure PUnit.unit) >>= f) Q E := by
  by_cases hc : c
  · simp only [hc, if_true]
    exact st_bind (J := NeverS) (st_throwE (he hc)) (fun _ => ⟨fun _ _ _ h => h.elim, fun _ _ _ h => h.elim⟩)
  · simp only [hc, if_false]
    exact st_bind (J := fun _ => P) (st_pure (fun _ h => h)) (fun _ => hf hc)

theorem st_throwE_bind {e : ErrKind} {f : α → M β} {Q : β → VmState → Prop} (he : E e) :
    St P ((throwE e : M α) >>= f) Q E :=
  st_bind (J := NeverS) (st_throwE he) (fun _ => ⟨fun _ _ _ h => h.elim, fun _ _ _ h => h.elim⟩)

/-- an exactly known state that satisfies `P'` -/
theorem st_of_eq {m : M α} {P' : VmState → Prop} {x : VmState} (hx : P' x) (hm : St P' m Q E) :
    St (fun s => s = x) m Q E :=
  st_conseq hm (fun s h => h ▸ hx) (fun _ _ h => h) (fun _ h => h)

end rules

/-! ## the error class: anything but the two capture assertions (below `TaskFailure` wrappers) -/

def NoCap (e : ErrKind) : Prop :=
  rootCause e ≠ .panic "closure not found for capture" ∧ rootCause e ≠ .panic "upvalue index out of bounds"

instance : ErrClass NoCap where
  calm h := ⟨h _, h _⟩
  wrap h := h

theorem noCap_gas : NoCap (.panic "gas exhausted") := by
  constructor <;> (intro h; simp only [rootCause, ErrKind.panic.injEq] at h; exact absurd h (by decide))

/-! ## invariant-style rules and automation -/

section invrules
variable {α β : Type} {K : VmState → Prop} {E : ErrKind → Prop}

/-- `m` keeps the state predicate `K` and raises no panic -/
def Keeps (K : VmState → Prop) {α : Type} (m : M α) : Prop := St K m (fun _ => K) Calm

theorem st_keeps [ErrClass E] {m : M α} (hm : Keeps K m) : St K m (fun _ => K) E :=
  st_conseq hm (fun _ h => h) (fun _ _ h => h) (fun _ => ErrClass.calm)

theorem st_keeps_bind [ErrClass E] {m : M α} {f : α → M β} {Q : β → VmState → Prop} (hm : Keeps K m)
    (hf : ∀ a, St K (f a) Q E) : St K (m >>= f) Q E :=
  st_bind (st_keeps hm) hf

theorem st_get_bind' {P : VmState → Prop} {f : VmState → M β} {Q : β → VmState → Prop}
    (hf : ∀ s0, P s0 → St P (f s0) Q E) : St P (get >>= f) Q E :=
  ⟨fun s b s' hs hg => by
      rw [go_bind] at hg; simp only [go_get] at hg
      exact (hf s hs).ok s b s' hs hg,
   fun s e s' hs hg => by
      rw [go_bind] at hg; simp only [go_get] at hg
      exact (hf s hs).err s e s' hs hg⟩

theorem st_get' {P : VmState → Prop} {Q : VmState → VmState → Prop} (h : ∀ s, P s → Q s s) :
    St P (get : M VmState) Q E :=
  ⟨fun s a s' hs hg => by
      simp only [go_get, Prod.mk.injEq, Except.ok.injEq] at hg
      obtain ⟨rfl, rfl⟩ := hg; exact h _ hs,
   fun s e s' _ hg => by simp at hg⟩

theorem st_set_bind' {P P' : VmState → Prop} {x : VmState} {f : PUnit → M β} {Q : β → VmState → Prop}
    (hx : P' x) (hf : St P' (f ⟨⟩) Q E) : St P (set x >>= f) Q E :=
  st_set_bind (st_of_eq hx hf)

theorem st_modify_bind' {P P' : VmState → Prop} {g : VmState → VmState} {f : PUnit → M β}
    {Q : β → VmState → Prop} (hg : ∀ s, P s → P' (g s)) (hf : St P' (f ⟨⟩) Q E) :
    St P (modify g >>= f) Q E :=
  st_bind (J := fun _ => P') (st_modify hg) (fun _ => hf)

end invrules

open Lean Elab Tactic Meta in
/-- `st_head`: weak-head-normalise the computation of an `St` goal; `st_head_split`: succeed iff it
    is a `match` -/
def stHeadCore (onlyCheck : Bool) : TacticM Unit := withMainContext do
  let g ← getMainGoal
  let t ← instantiateMVars (← g.getType)
  let fn := t.getAppFn
  let args := t.getAppArgs
  unless fn.isConstOf ``St && args.size == 5 do
    throwError "st_head: not an St goal"
  let m := args[2]!
  if onlyCheck then
    let ok ← match m.getAppFn with
      | .const n _ => pure ((← getMatcherInfo? n).isSome)
      | _ => pure false
    unless ok do throwError "st_head_split: the head is not a `match`"
  else
    let m' ← whnfCore m
    if m' == m then throwError "st_head: no progress"
    replaceMainGoal [← g.change (mkAppN fn (args.set! 2 m'))]

elab "st_head" : tactic => stHeadCore false
elab "st_head_split" : tactic => stHeadCore true

/-- `Keeps K prim` facts; extended by `macro_rules` -/
syntax "st_prim" : tactic
/-- specifications of the other building blocks (`reenter`, `callNative`, …) -/
syntax "st_spec" : tactic
/-- `K x` for a state `x` that is being `set` -/
syntax "st_side" : tactic
/-- the leaves -/
syntax "st_leaf" : tactic
macro_rules | `(tactic| st_spec) => `(tactic| fail "no spec")
macro_rules | `(tactic| st_prim) => `(tactic| fail "no prim")
macro_rules | `(tactic| st_side) => `(tactic| assumption)
macro_rules | `(tactic| st_leaf) => `(tactic| first | assumption | exact trivial)

macro "st_step" : tactic => `(tactic| first
  | ((with_reducible apply st_throwE); fr_err)
  | ((with_reducible apply st_throw); fr_err)
  | ((with_reducible apply st_throwE_bind); fr_err)
  | ((with_reducible refine st_pure (fun _ _ => ?_)); try st_leaf)
  | (with_reducible refine st_get_bind' (fun _ _ => ?_))
  | (with_reducible refine st_keeps_bind (by st_prim) (fun _ => ?_))
  | (with_reducible refine st_bind_inv (by st_spec) (fun _ => ?_))
  | ((with_reducible refine st_set_bind' ?hx ?_); (case hx => st_side))
  | ((with_reducible refine st_modify_bind' (fun _ _ => ?hx) ?_); (case hx => st_side))
  | (with_reducible refine st_guard_bind (fun _ => ?_) (fun _ => ?_))
  | ((with_reducible refine st_set ?hx); (case hx => st_side))
  | ((with_reducible refine st_modify (fun _ _ => ?hx)); (case hx => st_side))
  | (with_reducible exact st_keeps (by st_prim))
  | st_spec
  | (with_reducible refine st_tryCatch ?_ (fun _ _ => ?_))
  | (with_reducible refine st_orElse ?_ ?_)
  | (with_reducible refine st_ite (fun _ => ?_) (fun _ => ?_))
  | (with_reducible refine st_forIn _ _ _ (fun _ _ => ?_))
  | (with_reducible refine st_get' (fun _ _ => ?_))
  | (with_reducible refine st_bind_inv ?_ (fun _ => ?_))
  | st_head
  | (st_head_split; split))

macro "st_auto" : tactic => `(tactic| repeat' st_step)

/-! ## the invariant -/

section inv
variable (p : Prog) (lvl : Nat → Nat)

/-- calling a `fn` object with handle `h` enters a position outside of every closure region -/
def FnSafe (h : UInt32) : Prop :=
  ∀ l, p.labels.find? (fun l => l.1 == h) = some l → lvl l.2 = 0

/-- a closure object with handle `h` and `n` upvalues has all the upvalues its body may ask for -/
def Complete (h : UInt32) (n : Nat) : Prop :=
  ∀ l, p.labels.find? (fun l => l.1 == h) = some l → lvl l.2 ≤ n

/-- the heap part; the closure at `x` (under construction) is exempt -/
structure HeapOkX (x : Option Nat) (hp : Heap) : Prop where
  fn : ∀ a h ar, hp.get a = some (.fn h ar) → FnSafe p lvl h
  clo : ∀ a h ar ups, hp.get a = some (.closure h ar ups) → x ≠ some a → Complete p lvl h ups.length

/-- a closure object with at least `n` upvalues lives at `c` -/
def Need (hp : Heap) (c n : Nat) : Prop := ∃ h ar ups, hp.get c = some (.closure h ar ups) ∧ n ≤ ups.length

/-- a frame with closure `clo` may continue at a position of level `n` -/
def FrameOk (hp : Heap) (n : Nat) (clo : Option Nat) : Prop :=
  n = 0 ∨ ∃ c, clo = some c ∧ Need hp c n

/-- the closures of the frames of a call stack -/
def fcs (fs : List Frame) : List Nat := fs.filterMap (·.closure)

/-- the invariant: heap part, the obligations `W`, rooted in the call stack `fs` -/
structure InvX (x : Option Nat) (W : List (Option Nat × Nat)) (fs : List Frame) (s : VmState) : Prop where
  heap : HeapOkX p lvl x s.heap
  obl : ∀ w ∈ W, FrameOk s.heap w.2 w.1
  rooted : ∀ w ∈ W, ∀ c, w.1 = some c → c ∈ fcs fs
  frames : s.frames = fs
  top : ∀ a, x = some a → Val.obj a ∈ s.stack.contents

variable {p lvl}

theorem InvX.congr {x : Option Nat} {W : List (Option Nat × Nat)} {fs : List Frame} {s s' : VmState}
    (h : InvX p lvl x W fs s) (hh : s'.heap = s.heap) (hf : s'.frames = s.frames)
    (ht : x = none ∨ s'.stack = s.stack) : InvX p lvl x W fs s' :=
  ⟨by rw [hh]; exact h.heap, by rw [hh]; exact h.obl, h.rooted, by rw [hf]; exact h.frames, by
    intro a ha
    rcases ht with ht | ht
    · rw [ht] at ha; cases ha
    · rw [ht]; exact h.top a ha⟩

end inv

/-! ## harmless evolution of the heap -/

open Cao.Gc Cao.C02

def isClo : Obj → Bool
  | .closure _ _ _ => true
  | _ => false

def isFC : Obj → Bool
  | .closure _ _ _ => true
  | .fn _ _ => true
  | _ => false

theorem heap_get_set (h : Heap) (a b : Nat) (o : Obj) :
    (h.set a o).get b = if b = a then (h.get a).map (fun _ => o) else h.get b := by
  unfold Heap.get Heap.set
  simp only
  induction h.objs with
  | nil => simp
  | cons p l ih =>
    simp only [List.map_cons, List.find?_cons]
    by_cases hpa : p.1 = a
    · by_cases hb : b = a
      · subst hb; simp [hpa]
      · have h1 : (a == b) = false := by simpa using fun h => hb h.symm
        have h2 : (p.1 == b) = false := by rw [hpa]; exact h1
        simp only [hpa, beq_self_eq_true, if_true, h1]
        simpa [hb] using ih
    · have h0 : (p.1 == a) = false := by simpa using hpa
      simp only [h0, Bool.false_eq_true, if_false]
      by_cases hpb : p.1 = b
      · have hb : ¬ b = a := fun h => hpa (hpb.trans h)
        simp [hpb, hb]
      · have h2 : (p.1 == b) = false := by simpa using hpb
        simp only [h2]
        exact ih

theorem heap_get_append (objs : List (Nat × Obj)) (n nx : Nat) (o : Obj) (b : Nat) :
    (Heap.get { objs := objs ++ [(n, o)], next := nx } b) =
      match Heap.get { objs := objs, next := nx } b with
      | some x => some x
      | none => if n = b then some o else none := by
  unfold Heap.get
  simp only [List.find?_append]
  cases h : objs.find? (fun x => x.1 == b) with
  | some x => simp
  | none =>
    by_cases hn : n = b
    · simp [hn]
    · simp [hn]

/-- the frames, the stack and the closures that are rooted in them are kept; no `fn`/closure object
appears or changes -/
structure Harmless (s s' : VmState) : Prop where
  frames : s'.frames = s.frames
  old : ∀ b o, s'.heap.get b = some o → isFC o = true → s.heap.get b = some o
  keep : ∀ c, c ∈ fcs s.frames → ∀ o, s.heap.get c = some o → isClo o = true → s'.heap.get c = some o

theorem Harmless.refl (s : VmState) : Harmless s s := ⟨rfl, fun _ _ h _ => h, fun _ _ _ h _ => h⟩

theorem Harmless.trans {a b c : VmState} (h1 : Harmless a b) (h2 : Harmless b c) : Harmless a c :=
  ⟨h2.frames.trans h1.frames,
   fun x o h hf => h1.old x o (h2.old x o h hf) hf,
   fun x hx o ho hc => h2.keep x (by rw [h1.frames]; exact hx) o (h1.keep x hx o ho hc) hc⟩

theorem Harmless.of_eq {s s' : VmState} (hh : s'.heap = s.heap) (hf : s'.frames = s.frames) :
    Harmless s s' :=
  ⟨hf, fun _ _ h _ => by rw [← hh]; exact h, fun _ _ _ h _ => by rw [hh]; exact h⟩

theorem mem_fcs_root {s : VmState} {c : Nat} (h : c ∈ fcs s.frames) : Reach s.heap (rootAddrs s) c := by
  refine Reach.root (mem_addrs.mpr ?_)
  unfold roots fcs at *
  simp only [List.mem_append, List.mem_map]
  exact .inl (.inl (.inr ⟨c, h, rfl⟩))

theorem mem_stack_root {s : VmState} {c : Nat} (h : Val.obj c ∈ s.stack.contents) :
    Reach s.heap (rootAddrs s) c :=
  Reach.root (mem_addrs.mpr (by unfold roots; simp [h]))

theorem harmless_gc (s : VmState) : Harmless s (gc s) := by
  refine ⟨rfl, fun b o h _ => ?_, fun c hc o ho _ => ?_⟩
  · exact ((gc_exact_get s b o).1 h).1
  · rw [gc_preserves_reachable s c (mem_fcs_root hc)]; exact ho

theorem harmless_withObject (o : Obj) (s : VmState) (ho : isFC o = false) : Harmless s (withObject o s) := by
  refine ⟨rfl, fun b o' h hf => ?_, fun c _ o' ho' _ => ?_⟩
  · have := heap_get_append s.heap.objs s.heap.next (s.heap.next + 1) o b
    simp only [withObject] at h
    rw [this] at h
    cases hg : Heap.get { objs := s.heap.objs, next := s.heap.next + 1 } b with
    | some x =>
      rw [hg] at h
      simp only [Option.some.injEq] at h
      subst h; exact hg
    | none =>
      rw [hg] at h
      simp only at h
      split at h
      · simp only [Option.some.injEq] at h; subst h; rw [ho] at hf; cases hf
      · cases h
  · have := heap_get_append s.heap.objs s.heap.next (s.heap.next + 1) o c
    simp only [withObject]
    rw [this]
    have e : Heap.get { objs := s.heap.objs, next := s.heap.next + 1 } c = s.heap.get c := rfl
    rw [e, ho']

/-- overwriting an object that is not a closure with an object that is neither a function nor a closure -/
theorem harmless_set (s : VmState) (a : Nat) (o : Obj) (ho : isFC o = false)
    (hold : ∀ x, s.heap.get a = some x → isClo x = false) :
    Harmless s { s with heap := s.heap.set a o } := by
  refine ⟨rfl, fun b o' h hf => ?_, fun c _ o' ho' hc => ?_⟩
  · simp only at h
    rw [heap_get_set] at h
    split at h
    · cases hg : s.heap.get a with
      | none => rw [hg] at h; cases h
      | some x =>
        rw [hg] at h
        simp only [Option.map_some, Option.some.injEq] at h
        subst h; rw [ho] at hf; cases hf
    · exact h
  · simp only
    rw [heap_get_set]
    split
    · next hca =>
      subst hca
      rw [hold o' ho'] at hc; cases hc
    · exact ho'

section inv2
variable {p : Prog} {lvl : Nat → Nat}

theorem need_mono {hp hp' : Heap} {c n : Nat} (h : Need hp c n)
    (hk : ∀ o, hp.get c = some o → isClo o = true → hp'.get c = some o) : Need hp' c n := by
  obtain ⟨hd, ar, ups, hg, hn⟩ := h
  exact ⟨hd, ar, ups, hk _ hg rfl, hn⟩

theorem InvX.harmless {x : Option Nat} {W : List (Option Nat × Nat)} {fs : List Frame} {s s' : VmState}
    (h : InvX p lvl x W fs s) (hh : Harmless s s') (hst : x = none ∨ s'.stack = s.stack) :
    InvX p lvl x W fs s' := by
  refine ⟨⟨fun a hd ar hg => h.heap.fn a hd ar (hh.old a _ hg rfl),
      fun a hd ar ups hg hx => h.heap.clo a hd ar ups (hh.old a _ hg rfl) hx⟩, fun w hw => ?_, h.rooted,
    hh.frames.trans h.frames, fun a ha => by
      rcases hst with hst | hst
      · rw [hst] at ha; cases ha
      · rw [hst]; exact h.top a ha⟩
  rcases h.obl w hw with h0 | ⟨c, hc, hn⟩
  · exact .inl h0
  · refine .inr ⟨c, hc, need_mono hn fun o ho hcl => hh.keep c ?_ o ho hcl⟩
    rw [h.frames]; exact h.rooted w hw c hc

end inv2

/-! ### the allocator -/

theorem harmless_allocCollected (c : Nat) (s : VmState) : Harmless s (allocCollected c s) := by
  unfold allocCollected
  split
  · have h1 : Harmless s (allocCharged c s) := Harmless.of_eq rfl rfl
    have h2 : Harmless (allocCharged c s) (gc (allocCharged c s)) := harmless_gc _
    have h3 : Harmless (gc (allocCharged c s)) (collect (allocCharged c s)) := Harmless.of_eq rfl rfl
    exact h1.trans (h2.trans h3)
  · exact Harmless.of_eq rfl rfl

theorem harmless_allocPure (c : Nat) (s : VmState) : Harmless s (allocPure c s).2 := by
  unfold allocPure
  dsimp only
  split
  · exact (harmless_allocCollected c s).trans (Harmless.of_eq rfl rfl)
  · exact harmless_allocCollected c s

theorem allocPure_err (c : Nat) (s : VmState) (e : ErrKind) (h : (allocPure c s).1 = .error e) :
    e = .outOfMemory := by
  unfold allocPure at h
  dsimp only at h
  split at h
  · simp only [Except.error.injEq] at h; exact h.symm
  · cases h

/-- a computation whose every run is a harmless evolution and whose errors are calm -/
structure Hl {α : Type} (m : M α) : Prop where
  rel : ∀ s, Harmless s (m.go s).2
  calm : ∀ s e, (m.go s).1 = .error e → Calm e

theorem Hl.keeps {α : Type} {m : M α} (h : Hl m) {p : Prog} {lvl : Nat → Nat}
    {W : List (Option Nat × Nat)} {fs : List Frame} : Keeps (InvX p lvl none W fs) m :=
  ⟨fun s a s' hs hg => by have := h.rel s; rw [hg] at this; exact hs.harmless this (.inl rfl),
   fun s e s' hs hg => h.calm s e (by rw [hg])⟩

theorem hl_allocBytes (c : Nat) : Hl (allocBytes c) := by
  constructor
  · intro s
    rw [← run_run_eq_go, allocBytes_run]; exact harmless_allocPure c s
  · intro s e h
    rw [← run_run_eq_go, allocBytes_run] at h
    rw [allocPure_err c s e h]; exact calm_of_plain rfl

theorem hl_pure {α : Type} (a : α) : Hl (pure a : M α) := ⟨fun s => Harmless.refl s, fun s e h => by simp at h⟩

theorem hl_bind {α β : Type} {m : M α} {f : α → M β} (hm : Hl m) (hf : ∀ a, Hl (f a)) : Hl (m >>= f) := by
  constructor
  · intro s
    rw [go_bind]
    have h1 := hm.rel s
    rcases hgo : m.go s with ⟨r, s1⟩
    rw [hgo] at h1
    cases r with
    | error e => exact h1
    | ok a => exact h1.trans ((hf a).rel s1)
  · intro s e h
    rw [go_bind] at h
    have h1 := hm.calm s
    rcases hgo : m.go s with ⟨r, s1⟩
    rw [hgo] at h h1
    cases r with
    | error e' =>
      simp only [Except.error.injEq] at h
      exact h ▸ h1 e' rfl
    | ok a => exact (hf a).calm s1 e h

/-! ### the primitives evolve the heap harmlessly (`Pres` logic of `VmFrame.lean`) -/

instance : StateOrder Harmless where
  refl := Harmless.refl
  trans := Harmless.trans

macro_rules | `(tactic| pres_side) => `(tactic| with_reducible exact Harmless.of_eq rfl rfl)
macro_rules | `(tactic| pres_side) => `(tactic| exact Harmless.of_eq rfl rfl)

theorem hpres_push (v : Val) : Pres Harmless (push v) := by unfold push; pres_auto
theorem hpres_pop : Pres Harmless pop := by unfold pop; pres_auto
theorem hpres_peek (n : Nat) : Pres Harmless (peek n) := by unfold peek; pres_auto
theorem hpres_popN (n : Nat) : Pres Harmless (popN n) := by unfold popN; pres_auto
theorem hpres_curFrame : Pres Harmless curFrame := by unfold curFrame; pres_auto
theorem hpres_writeLocal (a b : Nat) (v : Val) : Pres Harmless (writeLocal a b v) := by
  unfold writeLocal; pres_auto
theorem hpres_readLocal (a b : Nat) : Pres Harmless (readLocal a b) := by unfold readLocal; pres_auto
theorem hpres_keyOf (v : Val) : Pres Harmless (keyOf v) := by unfold keyOf; pres_auto
theorem hpres_getTable (v : Val) : Pres Harmless (getTable v) := by unfold getTable; pres_auto
theorem hpres_tableGet (es : List (Val × Val)) (k : Val) : Pres Harmless (tableGet es k) := by
  unfold tableGet; pres_auto
theorem hpres_deallocBytes (c : Nat) : Pres Harmless (deallocBytes c) := by unfold deallocBytes; pres_auto
theorem hpres_dropGuard (a : Nat) : Pres Harmless (dropGuard a) := by unfold dropGuard; pres_auto
theorem hpres_readUpvalueLoc (a : Nat) : Pres Harmless (readUpvalueLoc a) := by
  unfold readUpvalueLoc; pres_auto
theorem hpres_guardVal (v : Val) : Pres Harmless (guardVal v) := by unfold guardVal; pres_auto
theorem hpres_unguardVal (v : Val) : Pres Harmless (unguardVal v) := by
  unfold unguardVal
  split
  · exact hpres_dropGuard _
  · exact pres_pure _
macro_rules | `(tactic| pres_prim) => `(tactic| with_reducible first
  | exact hpres_push _ | exact hpres_pop | exact hpres_peek _ | exact hpres_popN _ | exact hpres_curFrame
  | exact hpres_writeLocal _ _ _ | exact hpres_readLocal _ _ | exact hpres_keyOf _ | exact hpres_getTable _
  | exact hpres_tableGet _ _ | exact hpres_deallocBytes _ | exact hpres_dropGuard _
  | exact hpres_readUpvalueLoc _ | exact hpres_guardVal _ | exact hpres_unguardVal _)

theorem hpres_guardRows (es : List (Val × Val)) : Pres Harmless (guardRows es) := by
  unfold guardRows; pres_auto
theorem hpres_unguardRows (es : List (Val × Val)) : Pres Harmless (unguardRows es) := by
  unfold unguardRows; pres_auto
macro_rules | `(tactic| pres_prim) => `(tactic| with_reducible first
  | exact hpres_guardRows _ | exact hpres_unguardRows _)

theorem hpres_nativeConv (name : String) : Pres Harmless (nativeConv name) := by
  unfold nativeConv; pres_auto

theorem hpres_allocBytes (c : Nat) : Pres Harmless (allocBytes c) :=
  Pres.intro fun s => (hl_allocBytes c).rel s

theorem hpres_newObject (o : Obj) (ho : isFC o = false) : Pres Harmless (newObject o) :=
  Pres.intro fun s => harmless_withObject o s ho

theorem hpres_writeUpvalueLoc (a : Nat) (v : Val) : Pres Harmless (writeUpvalueLoc a v) := by
  unfold writeUpvalueLoc
  refine pres_get_bind fun s => ?_
  split
  · exact presAt_set (Harmless.of_eq rfl rfl)
  · next heq =>
    exact presAt_set (harmless_set s a _ rfl (fun x hx => by rw [heq] at hx; cases hx; rfl))
  · exact presAt_throwE _ _

theorem closeGo_harmless (top : Nat) (s0 : VmState) : ∀ (l : List Nat) (s : VmState),
    Harmless s { s with heap := (closeUpvalues.go top s0 l s.heap).2 }
  | [], s => by unfold closeUpvalues.go; exact Harmless.of_eq rfl rfl
  | a :: rest, s => by
    unfold closeUpvalues.go
    cases hu : upvalueSlot s.heap a with
    | none => exact Harmless.of_eq rfl rfl
    | some i =>
      dsimp only
      split
      · exact Harmless.of_eq rfl rfl
      · have h1 := harmless_set s a (.upvalue (.closed (s0.stack.data.getD i .nil))) rfl (fun x hx => by
          unfold upvalueSlot at hu
          rw [hx] at hu
          cases x <;> first | rfl | cases hu)
        have h2 := closeGo_harmless top s0 rest
          { s with heap := s.heap.set a (.upvalue (.closed (s0.stack.data.getD i .nil))) }
        exact h1.trans h2

theorem hpres_closeUpvalues (t : Nat) : Pres Harmless (closeUpvalues t) := by
  unfold closeUpvalues
  refine pres_get_bind fun s => ?_
  refine presAt_set ?_
  have := closeGo_harmless t s s.openUpvalues s
  exact this.trans (Harmless.of_eq rfl rfl)

theorem hpres_tableInsert (a : Nat) (k v : Val) : Pres Harmless (tableInsert a k v) := by
  refine Pres.intro fun s => ?_
  rw [← run_run_eq_go, tableInsert_run]
  unfold tableInsertPure
  split
  · next cap es heq =>
    have hold : ∀ x, s.heap.get a = some x → isClo x = false := fun x hx => by
      rw [heq] at hx; cases hx; rfl
    dsimp only
    split
    · exact harmless_set s a _ rfl hold
    · split
      · have h1 := harmless_allocPure (Heap.tableCharge (HMap.growCap cap)) s
        rcases hal : allocPure (Heap.tableCharge (HMap.growCap cap)) s with ⟨r, s1⟩
        rw [hal] at h1
        cases r with
        | error e => exact h1
        | ok u =>
          dsimp only
          have hold1 : ∀ x, s1.heap.get a = some x → isClo x = false := by
            intro x hx
            cases hc : isClo x with
            | false => rfl
            | true =>
              have := h1.old a x hx (by cases x <;> simp_all [isClo, isFC])
              rw [heq] at this; cases this; cases hc
          have h2 : Harmless s1 (refund (Heap.tableCharge cap) s1) := Harmless.of_eq rfl rfl
          have h3 := harmless_set (refund (Heap.tableCharge cap) s1) a
            (.table (HMap.growCap cap) (es ++ [(k, v)])) rfl hold1
          exact h1.trans (h2.trans h3)
      · exact harmless_set s a _ rfl hold
  · exact Harmless.refl s

macro_rules | `(tactic| pres_prim) => `(tactic| with_reducible exact hpres_allocBytes _)
macro_rules | `(tactic| pres_prim) => `(tactic| first
  | exact hpres_newObject _ rfl | exact hpres_newObject _ (by assumption))

theorem hpres_initTable : Pres Harmless initTable := by
  unfold initTable; pres_auto
theorem hpres_initString (b : List UInt8) : Pres Harmless (initString b) := by
  unfold initString; pres_auto
theorem hpres_initSimple (o : Obj) (ho : isFC o = false) : Pres Harmless (initSimple o) := by
  unfold initSimple; pres_auto

/-- harmless + quiet ⇒ keeps the invariant -/
theorem keeps_of_pres_quiet {α : Type} {m : M α} (hp : Pres Harmless m) (hq : Quiet m) {p : Prog}
    {lvl : Nat → Nat} {W : List (Option Nat × Nat)} {fs : List Frame} : Keeps (InvX p lvl none W fs) m :=
  ⟨fun s a s' hs hg => by have := hp.rel s; rw [hg] at this; exact hs.harmless this (.inl rfl),
   fun s e s' hs hg => (hq s.frames).err s e s' rfl hg⟩

macro_rules | `(tactic| st_prim) => `(tactic| with_reducible first
  | exact keeps_of_pres_quiet (hpres_push _) (quiet_push _)
  | exact keeps_of_pres_quiet hpres_pop quiet_pop
  | exact keeps_of_pres_quiet (hpres_peek _) (quiet_peek _)
  | exact keeps_of_pres_quiet (hpres_popN _) (quiet_popN _)
  | exact keeps_of_pres_quiet (hpres_writeLocal _ _ _) (quiet_writeLocal _ _ _)
  | exact keeps_of_pres_quiet (hpres_readLocal _ _) (quiet_readLocal _ _)
  | exact keeps_of_pres_quiet (hpres_keyOf _) (quiet_keyOf _)
  | exact keeps_of_pres_quiet (hpres_getTable _) (quiet_getTable _)
  | exact keeps_of_pres_quiet (hpres_tableGet _ _) (quiet_tableGet _ _)
  | exact keeps_of_pres_quiet (hpres_deallocBytes _) (quiet_deallocBytes _)
  | exact keeps_of_pres_quiet (hpres_dropGuard _) (quiet_dropGuard _)
  | exact keeps_of_pres_quiet (hpres_guardVal _) (quiet_guardVal _)
  | exact keeps_of_pres_quiet (hpres_unguardVal _) (quiet_unguardVal _)
  | exact keeps_of_pres_quiet (hpres_guardRows _) (quiet_guardRows _)
  | exact keeps_of_pres_quiet (hpres_unguardRows _) (quiet_unguardRows _)
  | exact keeps_of_pres_quiet (hpres_closeUpvalues _) (quiet_closeUpvalues _)
  | exact keeps_of_pres_quiet (hpres_readUpvalueLoc _) (quiet_readUpvalueLoc _)
  | exact keeps_of_pres_quiet (hpres_writeUpvalueLoc _ _) (quiet_writeUpvalueLoc _ _)
  | exact keeps_of_pres_quiet (hpres_allocBytes _) (quiet_allocBytes _)
  | exact keeps_of_pres_quiet hpres_initTable quiet_initTable
  | exact keeps_of_pres_quiet (hpres_initString _) (quiet_initString _)
  | exact keeps_of_pres_quiet (hpres_initSimple _ rfl) (quiet_initSimple _)
  | exact keeps_of_pres_quiet (hpres_tableInsert _ _ _) (quiet_tableInsert _ _ _)
  | exact keeps_of_pres_quiet (hpres_nativeConv _) (quiet_nativeConv _))

theorem InvX.congr' {p : Prog} {lvl : Nat → Nat} {W : List (Option Nat × Nat)} {fs : List Frame}
    {s s' : VmState} (h : InvX p lvl none W fs s) (hh : s'.heap = s.heap) (hf : s'.frames = s.frames) :
    InvX p lvl none W fs s' := h.congr hh hf (.inl rfl)

macro_rules | `(tactic| st_side) => `(tactic| (apply InvX.congr' <;> first | assumption | rfl))
macro_rules | `(tactic| st_leaf) => `(tactic| (apply InvX.congr' <;> first | assumption | rfl))

/-- with the trivial invariant: only the errors matter -/
theorem st_quiet_true {α : Type} {E : ErrKind → Prop} [ErrClass E] {m : M α} (hq : Quiet m) :
    St (fun _ => True) m (fun _ _ => True) E :=
  ⟨fun _ _ _ _ _ => trivial, fun s e s' _ hg => ErrClass.calm ((hq s.frames).err s e s' rfl hg)⟩

macro_rules | `(tactic| st_spec) => `(tactic| with_reducible exact st_quiet_true (by fr_quiet_prim))

example {E : ErrKind → Prop} [ErrClass E] {p : Prog} {lvl : Nat → Nat}
    {W : List (Option Nat × Nat)} {fs : List Frame} (v : Val) :
    St (InvX p lvl none W fs) (modify fun s => { s with guards := (match v with | .obj a => [a] | _ => []) ++ s.guards } : M PUnit)
      (fun _ => InvX p lvl none W fs) E := by
  with_reducible refine st_modify (fun _ _ => ?hx)
  case hx => st_side

/-! ## natives -/

/-- the callback keeps `K` (when it returns) and raises `E`-errors -/
def ReSpecS (re : Reenter) (K : VmState → Prop) (E : ErrKind → Prop) : Prop :=
  ∀ f, St K (re f) (fun _ => K) E

theorem ReSpecS.app {re : Reenter} {K : VmState → Prop} {E : ErrKind → Prop} (h : ReSpecS re K E) (f : Val) :
    St K (re f) (fun _ => K) E := h f

macro_rules | `(tactic| st_spec) => `(tactic| with_reducible exact ReSpecS.app (by assumption) _)

theorem st_callNativeBody {E : ErrKind → Prop} [ErrClass E] {p : Prog} {lvl : Nat → Nat}
    {W : List (Option Nat × Nat)} {fs : List Frame} (re : Reenter)
    (hre : ReSpecS re (InvX p lvl none W fs) E) (name : String) :
    St (InvX p lvl none W fs) (callNativeBody re name) (fun _ => InvX p lvl none W fs) E := by
  unfold callNativeBody
  st_auto

macro_rules | `(tactic| st_spec) => `(tactic| with_reducible exact st_callNativeBody _ (by assumption) _)

theorem st_callNative {E : ErrKind → Prop} [ErrClass E] {p : Prog} {lvl : Nat → Nat}
    {W : List (Option Nat × Nat)} {fs : List Frame} (re : Reenter)
    (hre : ReSpecS re (InvX p lvl none W fs) E) (h : UInt32) :
    St (InvX p lvl none W fs) (callNative re h) (fun _ => InvX p lvl none W fs) E := by
  unfold callNative
  st_auto

macro_rules | `(tactic| st_spec) => `(tactic| with_reducible exact st_callNative _ (by assumption) _)

/-! ## one instruction -/

/-- the static facts about the program (all of them are decidable properties of a concrete program):
`G` = instruction starts, `lvl pos` = number of upvalues the code at `pos` may ask its closure for,
`cnt c` = number of `CopyLast; RegisterUpvalue` pairs after the `Closure` instruction at `c`.
(The former field `noExit` — no `Exit` in callee code — and the parameter `Cal` it needed are gone:
`run_function` restores the call stack whatever the callee did.) -/
structure CapStatic (p : Prog) (G : Nat → Prop) (lvl cnt : Nat → Nat) : Prop where
  /-- falling through keeps the level -/
  seq : ∀ src sp, G src → Gen.spanOf (p.bytecode.getD src 0) = some sp →
    p.bytecode.getD src 0 ≠ Compiler.op.exit → p.bytecode.getD src 0 ≠ Compiler.op.goto →
    p.bytecode.getD src 0 ≠ Compiler.op.ret → lvl (src + sp) = lvl src
  /-- so does jumping -/
  jump : ∀ src, G src → (p.bytecode.getD src 0 = Compiler.op.goto ∨
    p.bytecode.getD src 0 = Compiler.op.gotoIfTrue ∨ p.bytecode.getD src 0 = Compiler.op.gotoIfFalse) →
    lvl (rdU32 p.bytecode (src + 1)) = lvl src
  /-- a non-local capture asks for an upvalue the level has -/
  reg : ∀ src, G src → p.bytecode.getD src 0 = Compiler.op.registerUpvalue →
    p.bytecode.getD (src + 2) 0 = 0 → (p.bytecode.getD (src + 1) 0).toNat < lvl src
  /-- the handle of a `Closure` instruction enters a position whose level is at most the number
  of pairs that follow the instruction -/
  closLabel : ∀ c, G c → p.bytecode.getD c 0 = Compiler.op.closure →
    Complete p lvl (UInt32.ofNat (rdU32 p.bytecode (c + 1))) (cnt c)
  pairs : ∀ c k, G c → p.bytecode.getD c 0 = Compiler.op.closure → k < cnt c →
    p.bytecode.getD (c + 9 + 4 * k) 0 = Compiler.op.copyLast ∧
    p.bytecode.getD (c + 9 + 4 * k + 1) 0 = Compiler.op.registerUpvalue
  /-- the handle of a `FunctionPointer` instruction enters a position of level 0 -/
  fnLabel : ∀ x, G x → p.bytecode.getD x 0 = Compiler.op.functionPointer →
    FnSafe p lvl (UInt32.ofNat (rdU32 p.bytecode (x + 1)))
  /-- the return address `run_function` gives its callee (the final `Exit`) has level 0 -/
  lastLvl : lvl (p.bytecode.size - 1) = 0
  /-- so has the entry point of `run` -/
  entryLvl : lvl 0 = 0

/-- the closure at `a` is on top of the value stack -/
def TopIs (s : VmState) (a : Nat) : Prop :=
  0 < s.stack.count ∧ s.stack.count < s.stack.data.length ∧ s.stack.data.getD (s.stack.count - 1) .nil = .obj a

/-- every obligation of `W` is rooted in the call stack `fs` -/
def RootedIn (W : List (Option Nat × Nat)) (fs : List Frame) : Prop :=
  ∀ w ∈ W, ∀ c, w.1 = some c → c ∈ fcs fs

/-- what one instruction of the normal phase leads to -/
inductive StepQ (p : Prog) (lvl : Nat → Nat) (W0 : List (Option Nat × Nat))
    (fs0 : List Frame) (l : Frame) (src : Nat) : Ctl → VmState → Prop
  | exit {ctl : Ctl} {s' : VmState} : ctl.exit = true →
      InvX p lvl none (W0 ++ [(l.closure, lvl src)]) (fs0 ++ [l]) s' → StepQ p lvl W0 fs0 l src ctl s'
  | ord {ctl : Ctl} {s' : VmState} : ctl.exit = false →
      InvX p lvl none (W0 ++ [(l.closure, lvl src)]) (fs0 ++ [l]) s' → lvl ctl.ip = lvl src →
      StepQ p lvl W0 fs0 l src ctl s'
  | call {ctl : Ctl} {s' : VmState} (l' nf : Frame) : ctl.exit = false → l'.closure = l.closure →
      lvl l'.dst = lvl src →
      InvX p lvl none (W0 ++ [(l.closure, lvl src)]) (fs0 ++ [l'] ++ [nf]) s' →
      FrameOk s'.heap (lvl ctl.ip) nf.closure → StepQ p lvl W0 fs0 l src ctl s'
  | ret {ctl : Ctl} {s' : VmState} : ctl.exit = false → InvX p lvl none W0 fs0 s' →
      (∃ c, fs0.getLast? = some c ∧ ctl.ip = c.dst) → StepQ p lvl W0 fs0 l src ctl s'
  | clos {ctl : Ctl} {s' : VmState} (a : Nat) (ar : UInt32) : ctl.exit = false → ctl.ip = src + 9 →
      p.bytecode.getD src 0 = Compiler.op.closure →
      InvX p lvl (some a) (W0 ++ [(l.closure, lvl src)]) (fs0 ++ [l]) s' →
      s'.heap.get a = some (.closure (UInt32.ofNat (rdU32 p.bytecode (src + 1))) ar []) → TopIs s' a →
      StepQ p lvl W0 fs0 l src ctl s'

end Cao.Vm
