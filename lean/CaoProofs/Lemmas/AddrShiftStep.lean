import CaoProofs.Lemmas.AddrShift
/-!
# Equivariance under address shifts: one instruction

`sima_step_of`: every opcode of `step` commutes with the renaming `shiftS δ` (relative to
`CallNativeSimA δ`, which `AddrShiftNat.lean` proves). `sima_auto` does all opcodes except four, which
are finished by hand: the binary operators (the pushed value is a number or a boolean), `Len`, and the
two places where `RegisterUpvalue` inserts a new open upvalue into the sorted list (`List.partition`).
-/
namespace Cao.Vm
open Cao
set_option linter.unusedSectionVars false
set_option linter.unusedVariables false

macro_rules
  | `(tactic| sima_prim) => `(tactic| (sima_headis callNative; exact (‹CallNativeSimA _›) _ _ (by assumption) _))

set_option maxHeartbeats 800000 in
theorem sima_step_of {δ : Nat} (p : Prog) (hcn : CallNativeSimA δ) : StepSimA p δ := by
  intro re₁ re₂ hre src
  unfold step
  sima_auto
  · -- the binary operators: the result is a number or a boolean
    repeat' split
    all_goals rfl
  · -- `len`
    rename_i a s
    cases a with
    | obj a =>
      simp only [shiftV_obj, get_shiftHeap]
      cases s.heap.get a with
      | none => rfl
      | some o => cases o <;> simp only [Option.map_some, shiftObj_table, List.length_map, shiftObj_str,
          shiftObj_fn, shiftObj_native, shiftObj_closure, shiftObj_upvalue, shiftV_int]
    | _ => rfl
  all_goals (
    apply sima_modify
    intro s
    simp only [shiftS, List.partition_eq_filter_filter, List.filter_map, Function.comp_def, upvalueSlot_shift,
      ← set_shiftHeap, shiftObj_closure, List.map_append, List.map_cons, List.map_nil]
    try rfl)

end Cao.Vm
