import CaoProofs.Lemmas.SchedSim
/-!
# Schedule independence: from one instruction to whole runs

`StepSim p`: every instruction of `p`, started in `SchedEq` states with related callbacks, gives
the same result (next address / exit flag, or the same error) and ends in `SchedEq` states.
`NatSim`: the same for host functions. `exec_sim` / `run_sim` lift these two to the dispatch
loop, `run_function` and `Vm::run` by induction on the fuel.
-/
namespace Cao.SchedSim
open Cao Cao.Vm Cao.Gc Cao.C02 Cao.C05 Cao.RunInv
set_option linter.unusedVariables false

/-! ## re-rooting: the roots may be replaced by anything that was reachable -/

theorem obsEq_reroot {s t s' t' : VmState} (h : ObsEq s t)
    (hs : s'.heap = s.heap) (ht : t'.heap = t.heap)
    (e1 : t'.stack = s'.stack) (e2 : t'.globals = s'.globals) (e3 : t'.frames = s'.frames)
    (e4 : t'.openUpvalues = s'.openUpvalues) (e5 : t'.guards = s'.guards)
    (hr : ∀ a ∈ rootAddrs s', Reach s.heap (rootAddrs s) a) : ObsEq s' t' := by
  have hroots : rootAddrs t' = rootAddrs s' := by
    unfold rootAddrs roots; rw [e1, e2, e3, e4, e5]
  have sub : ∀ a, Reach s'.heap (rootAddrs s') a → Reach s.heap (rootAddrs s) a := by
    intro a ha
    rw [hs] at ha
    exact Reach.mono hr ha
  have sub' : ∀ a, Reach t'.heap (rootAddrs t') a → Reach t.heap (rootAddrs t) a := by
    intro a ha
    rw [ht, hroots] at ha
    exact Reach.mono (fun r hr' => (h.reach_iff r).mpr (hr r hr')) ha
  refine ⟨e1, e2, e3, e4, e5, by rw [hs, ht, h.next], ?_, ?_⟩
  · intro a ha
    rw [hs, ht]; exact h.fwd a (sub a ha)
  · intro a ha
    rw [hs, ht]; exact h.bwd a (sub' a ha)

theorem schedEq_reroot {s t s' t' : VmState} (h : SchedEq s t)
    (hs : s'.heap = s.heap) (hsm : s'.mem = s.mem) (ht : t'.heap = t.heap) (htm : t'.mem = t.mem)
    (e1 : t'.stack = s'.stack) (e2 : t'.globals = s'.globals) (e3 : t'.frames = s'.frames)
    (e4 : t'.openUpvalues = s'.openUpvalues) (e5 : t'.guards = s'.guards)
    (c1 : t'.remaining = s'.remaining) (c2 : t'.dispatches = s'.dispatches)
    (c3 : t'.hostLog = s'.hostLog) (c4 : t'.frameCap = s'.frameCap)
    (hr : ∀ a ∈ rootAddrs s', Reach s.heap (rootAddrs s) a) : SchedEq s' t' :=
  ⟨⟨obsEq_reroot h.core.obs hs ht e1 e2 e3 e4 e5 hr, by rw [hsm, htm, h.core.limit], c1, c2, c3, c4,
    by rw [hs]; exact h.core.uniqL, by rw [ht]; exact h.core.uniqR,
    by rw [hs]; exact h.core.freshL, by rw [ht]; exact h.core.freshR⟩,
   inv_of_same hs hsm h.invL, inv_of_same ht htm h.invR⟩

/-- the same roots (or fewer) -/
theorem reach_of_mem_roots {s : VmState} {a : Nat} (h : a ∈ rootAddrs s) :
    Reach s.heap (rootAddrs s) a := Reach.root h

/-! ## the hypotheses -/

/-- the callee of a `run_function` is rooted -/
def FnOk (f : Val) (s : VmState) : Prop := ∀ a, f = .obj a → Reach s.heap (rootAddrs s) a

/-- related callbacks -/
def ReSim (re₁ re₂ : Reenter) : Prop :=
  ∀ (f : Val) (s t : VmState), SchedEq s t → FnOk f s → ResEq ((re₁ f).go s) ((re₂ f).go t)

/-- every instruction respects the relation -/
def StepSim (p : Prog) : Prop :=
  ∀ (re₁ re₂ : Reenter), ReSim re₁ re₂ → ∀ (src : Nat), src < p.bytecode.size →
    ∀ (s t : VmState), SchedEq s t → ResEq ((step p re₁ src).go s) ((step p re₂ src).go t)

/-- the same for instructions that never use their callback -/
def StepSimAny (p : Prog) : Prop :=
  ∀ (re₁ re₂ : Reenter) (src : Nat), src < p.bytecode.size →
    ∀ (s t : VmState), SchedEq s t → ResEq ((step p re₁ src).go s) ((step p re₂ src).go t)

/-- every host function respects the relation -/
def NatSim : Prop :=
  ∀ (re₁ re₂ : Reenter), ReSim re₁ re₂ → ∀ (hd : UInt32) (s t : VmState), SchedEq s t →
    ResEq ((callNative re₁ hd).go s) ((callNative re₂ hd).go t)

/-- result and final state of two runs of the loop agree -/
def ExecEq (r₁ r₂ : VmState × Except RunErr (Option Val)) : Prop :=
  r₂.2 = r₁.2 ∧ SchedEq r₁.1 r₂.1

theorem liftRun_resEq {g₁ g₂ : VmState → VmState × Except RunErr (Option Val)} {s t : VmState}
    (h : ExecEq (g₁ s) (g₂ t)) : ResEq ((liftRun g₁).go s) ((liftRun g₂).go t) := by
  obtain ⟨h1, h2⟩ := h
  show ResEq
    (match g₁ s with
      | (s', .ok (some v)) => ((.ok v : Except ErrKind Val), s')
      | (s', .ok none) => (.ok .nil, s')
      | (s', .error e) => (.error e.kind, s'))
    (match g₂ t with
      | (s', .ok (some v)) => ((.ok v : Except ErrKind Val), s')
      | (s', .ok none) => (.ok .nil, s')
      | (s', .error e) => (.error e.kind, s'))
  rcases hg₁ : g₁ s with ⟨s', r⟩
  rcases hg₂ : g₂ t with ⟨t', r'⟩
  rw [hg₁, hg₂] at h1 h2
  dsimp only at h1 h2
  subst h1
  rcases r' with e | (_ | v) <;> exact ⟨rfl, h2⟩

/-! ## the dispatch loop -/

theorem schedEq_tick {s t : VmState} (h : SchedEq s t) : SchedEq s.tick t.tick :=
  schedEq_reroot h rfl rfl rfl rfl h.core.obs.stack h.core.obs.globals h.core.obs.frames
    h.core.obs.openUpvalues h.core.obs.guards
    (by show t.remaining - 1 = s.remaining - 1; rw [h.core.remaining])
    (by show t.dispatches + 1 = s.dispatches + 1; rw [h.core.dispatches])
    h.core.hostLog h.core.frameCap (fun a ha => Reach.root ha)

theorem schedEq_timeout {s t : VmState} (h : SchedEq s t) :
    SchedEq { s with remaining := s.remaining - 1 } { t with remaining := t.remaining - 1 } :=
  schedEq_reroot h rfl rfl rfl rfl h.core.obs.stack h.core.obs.globals h.core.obs.frames
    h.core.obs.openUpvalues h.core.obs.guards
    (by show t.remaining - 1 = s.remaining - 1; rw [h.core.remaining])
    h.core.dispatches h.core.hostLog h.core.frameCap (fun a ha => Reach.root ha)

theorem mem_rootAddrs_iff (s : VmState) (a : Nat) :
    a ∈ rootAddrs s ↔ Val.obj a ∈ s.stack.contents ∨ Val.obj a ∈ s.globals ∨
      (∃ f ∈ s.frames, f.closure = some a) ∨ a ∈ s.openUpvalues ∨ a ∈ s.guards := by
  unfold rootAddrs
  rw [mem_addrs]
  unfold roots
  simp only [List.mem_append, List.mem_map, List.mem_filterMap, Val.obj.injEq]
  constructor
  · rintro ((((h | h) | ⟨x, ⟨f, hf, hfx⟩, rfl⟩) | ⟨x, hx, rfl⟩) | ⟨x, hx, rfl⟩)
    · exact Or.inl h
    · exact Or.inr (Or.inl h)
    · exact Or.inr (Or.inr (Or.inl ⟨f, hf, hfx⟩))
    · exact Or.inr (Or.inr (Or.inr (Or.inl hx)))
    · exact Or.inr (Or.inr (Or.inr (Or.inr hx)))
  · rintro (h | h | ⟨f, hf, hfx⟩ | h | h)
    · exact Or.inl (Or.inl (Or.inl (Or.inl h)))
    · exact Or.inl (Or.inl (Or.inl (Or.inr h)))
    · exact Or.inl (Or.inl (Or.inr ⟨a, ⟨f, hf, hfx⟩, rfl⟩))
    · exact Or.inl (Or.inr ⟨a, h, rfl⟩)
    · exact Or.inr ⟨a, h, rfl⟩


theorem reach_stack {s : VmState} {a : Nat} (h : Val.obj a ∈ s.stack.contents) :
    Reach s.heap (rootAddrs s) a := Reach.root ((mem_rootAddrs_iff s a).mpr (Or.inl h))
theorem reach_global {s : VmState} {a : Nat} (h : Val.obj a ∈ s.globals) :
    Reach s.heap (rootAddrs s) a := Reach.root ((mem_rootAddrs_iff s a).mpr (Or.inr (Or.inl h)))
theorem reach_frame {s : VmState} {a : Nat} {f : Frame} (hf : f ∈ s.frames) (h : f.closure = some a) :
    Reach s.heap (rootAddrs s) a :=
  Reach.root ((mem_rootAddrs_iff s a).mpr (Or.inr (Or.inr (Or.inl ⟨f, hf, h⟩))))
theorem reach_upv {s : VmState} {a : Nat} (h : a ∈ s.openUpvalues) :
    Reach s.heap (rootAddrs s) a :=
  Reach.root ((mem_rootAddrs_iff s a).mpr (Or.inr (Or.inr (Or.inr (Or.inl h)))))
theorem reach_guard' {s : VmState} {a : Nat} (h : a ∈ s.guards) :
    Reach s.heap (rootAddrs s) a :=
  Reach.root ((mem_rootAddrs_iff s a).mpr (Or.inr (Or.inr (Or.inr (Or.inr h)))))

/-- new roots that were all reachable before -/
theorem reroot_sub {s s' : VmState}
    (h1 : ∀ a, Val.obj a ∈ s'.stack.contents → Reach s.heap (rootAddrs s) a)
    (h2 : ∀ a, Val.obj a ∈ s'.globals → Reach s.heap (rootAddrs s) a)
    (h3 : ∀ f ∈ s'.frames, ∀ a, f.closure = some a → Reach s.heap (rootAddrs s) a)
    (h4 : ∀ a ∈ s'.openUpvalues, Reach s.heap (rootAddrs s) a)
    (h5 : ∀ a ∈ s'.guards, Reach s.heap (rootAddrs s) a) :
    ∀ a ∈ rootAddrs s', Reach s.heap (rootAddrs s) a := by
  intro a ha
  rcases (mem_rootAddrs_iff s' a).mp ha with h | h | ⟨f, hf, hfa⟩ | h | h
  · exact h1 a h
  · exact h2 a h
  · exact h3 f hf a hfa
  · exact h4 a h
  · exact h5 a h

theorem mem_pop_contents {st : VStack Val} {v : Val} (h : v ∈ st.pop.1.contents) : v ∈ st.contents := by
  unfold VStack.pop at h
  split at h
  · exact h
  · next hc =>
    unfold VStack.contents at h ⊢
    dsimp only at h
    rw [List.take_set_of_le (Nat.le_refl _)] at h
    exact List.mem_of_mem_take (by rwa [List.take_take, Nat.min_eq_left (Nat.sub_le _ _)] : v ∈ List.take (st.count - 1) (List.take st.count st.data))


/-- the precondition of a task: the callee of `run_function` is rooted -/
def TaskOk : Task → VmState → Prop
  | .loop _, _ => True
  | .call f, s => FnOk f s

theorem failAt_execEq {s t : VmState} (h : SchedEq s t) (e : ErrKind) : ExecEq (failAt s e) (failAt t e) :=
  ⟨by show Except.error _ = Except.error _; rw [h.core.obs.frames], h⟩

/-- pushing frames whose closure (if any) is reachable -/
theorem schedEq_pushFrames {s t : VmState} (h : SchedEq s t) (frs : List Frame)
    (hfr : ∀ f ∈ frs, ∀ a, f.closure = some a → Reach s.heap (rootAddrs s) a) :
    SchedEq { s with frames := s.frames ++ frs } { t with frames := t.frames ++ frs } :=
  schedEq_reroot h rfl rfl rfl rfl h.core.obs.stack h.core.obs.globals
    (by show t.frames ++ frs = s.frames ++ frs; rw [h.core.obs.frames])
    h.core.obs.openUpvalues h.core.obs.guards h.core.remaining h.core.dispatches h.core.hostLog
    h.core.frameCap
    (reroot_sub (fun a ha => reach_stack ha) (fun a ha => reach_global ha)
      (fun f hf a hfa => by
        rcases List.mem_append.mp hf with hf | hf
        · exact reach_frame hf hfa
        · exact hfr f hf a hfa)
      (fun a ha => reach_upv ha) (fun a ha => reach_guard' ha))

/-- the epilogue of `run_function`: pop the call stack back to the entry depth, pop the result -/
theorem schedEq_epilogue {s t : VmState} (h : SchedEq s t) (n : Nat) :
    SchedEq { s with frames := s.frames.take n, stack := s.stack.pop.1 }
            { t with frames := t.frames.take n, stack := t.stack.pop.1 } :=
  schedEq_reroot h rfl rfl rfl rfl
    (by show t.stack.pop.1 = s.stack.pop.1; rw [h.core.obs.stack]) h.core.obs.globals
    (by show t.frames.take n = s.frames.take n; rw [h.core.obs.frames])
    h.core.obs.openUpvalues h.core.obs.guards h.core.remaining h.core.dispatches h.core.hostLog
    h.core.frameCap
    (reroot_sub (fun a ha => reach_stack (mem_pop_contents ha)) (fun a ha => reach_global ha)
      (fun f hf a hfa => reach_frame (List.mem_of_mem_take hf) hfa)
      (fun a ha => reach_upv ha) (fun a ha => reach_guard' ha))

/-- the epilogue of a failed `run_function`: pop the call stack back to the entry depth -/
theorem schedEq_takeFrames {s t : VmState} (h : SchedEq s t) (n : Nat) :
    SchedEq { s with frames := s.frames.take n } { t with frames := t.frames.take n } :=
  schedEq_reroot h rfl rfl rfl rfl h.core.obs.stack h.core.obs.globals
    (by show t.frames.take n = s.frames.take n; rw [h.core.obs.frames])
    h.core.obs.openUpvalues h.core.obs.guards h.core.remaining h.core.dispatches h.core.hostLog
    h.core.frameCap
    (reroot_sub (fun a ha => reach_stack ha) (fun a ha => reach_global ha)
      (fun f hf a hfa => reach_frame (List.mem_of_mem_take hf) hfa)
      (fun a ha => reach_upv ha) (fun a ha => reach_guard' ha))

theorem schedEq_popStack {s t : VmState} (h : SchedEq s t) :
    SchedEq { s with stack := s.stack.pop.1 } { t with stack := t.stack.pop.1 } :=
  schedEq_reroot h rfl rfl rfl rfl
    (by show t.stack.pop.1 = s.stack.pop.1; rw [h.core.obs.stack]) h.core.obs.globals
    h.core.obs.frames h.core.obs.openUpvalues h.core.obs.guards h.core.remaining h.core.dispatches
    h.core.hostLog h.core.frameCap
    (reroot_sub (fun a ha => reach_stack (mem_pop_contents ha)) (fun a ha => reach_global ha)
      (fun f hf a hfa => reach_frame hf hfa)
      (fun a ha => reach_upv ha) (fun a ha => reach_guard' ha))

theorem enterScript_sim (p : Prog) (gas : Nat)
    (ih : ∀ (ip : Nat) (s t : VmState), SchedEq s t →
      ExecEq (exec p gas (.loop ip) s) (exec p gas (.loop ip) t))
    {s t : VmState} (h : SchedEq s t) (l : UInt32) (ar : Nat) (c : Option Nat)
    (hc : ∀ a, c = some a → Reach s.heap (rootAddrs s) a) :
    ExecEq (enterScript p gas s l ar c) (enterScript p gas t l ar c) := by
  unfold enterScript
  have ec : t.stack.count = s.stack.count := by rw [h.core.obs.stack]
  have ef : t.frames.length = s.frames.length := by rw [h.core.obs.frames]
  have ecap : t.frameCap = s.frameCap := h.core.frameCap
  cases hl : p.labels.find? (fun l' => l'.1 == l) with
  | none => exact failAt_execEq h _
  | some lp =>
    obtain ⟨_, pos⟩ := lp
    dsimp only
    by_cases c1 : s.stack.count < ar
    · have c1' : t.stack.count < ar := by omega
      rw [if_pos c1, if_pos c1']; exact failAt_execEq h _
    have c1' : ¬ t.stack.count < ar := by omega
    rw [if_neg c1, if_neg c1']
    by_cases c2 : s.frames.length + 1 > s.frameCap
    · have c2' : t.frames.length + 1 > t.frameCap := by omega
      rw [if_pos c2, if_pos c2']; exact failAt_execEq h _
    have c2' : ¬ t.frames.length + 1 > t.frameCap := by omega
    rw [if_neg c2, if_neg c2']
    have efr : (⟨pos, p.bytecode.size - 1, t.stack.count - ar, c⟩ : Frame) =
        ⟨pos, p.bytecode.size - 1, s.stack.count - ar, c⟩ := by rw [ec]
    rw [efr]
    by_cases c3 : s.frames.length + 2 > s.frameCap
    · have c3' : t.frames.length + 2 > t.frameCap := by omega
      rw [if_pos c3, if_pos c3']
      exact ⟨by show Except.error _ = Except.error _; rw [h.core.obs.frames], h⟩
    have c3' : ¬ t.frames.length + 2 > t.frameCap := by omega
    rw [if_neg c3, if_neg c3']
    have h0 := schedEq_pushFrames h [⟨pos, p.bytecode.size - 1, s.stack.count - ar, c⟩,
        ⟨pos, p.bytecode.size - 1, s.stack.count - ar, c⟩]
      (fun f hf a hfa => by
        simp only [List.mem_cons, List.not_mem_nil, or_false, or_self] at hf
        subst hf
        exact hc a hfa)
    obtain ⟨e1, e2⟩ := ih pos _ _ h0
    rcases hx : exec p gas (.loop pos) { s with frames := s.frames ++ [⟨pos, p.bytecode.size - 1, s.stack.count - ar, c⟩, ⟨pos, p.bytecode.size - 1, s.stack.count - ar, c⟩] } with ⟨s', r⟩
    rcases hy : exec p gas (.loop pos) { t with frames := t.frames ++ [⟨pos, p.bytecode.size - 1, s.stack.count - ar, c⟩, ⟨pos, p.bytecode.size - 1, s.stack.count - ar, c⟩] } with ⟨t', r'⟩
    rw [hx, hy] at e1 e2
    dsimp only at e1 e2
    subst e1
    cases r' with
    | error e => exact ⟨rfl, ef ▸ schedEq_takeFrames e2 _⟩
    | ok v =>
      refine ⟨?_, ef ▸ schedEq_epilogue e2 _⟩
      show Except.ok (some t'.stack.pop.2) = Except.ok (some s'.stack.pop.2)
      rw [e2.core.obs.stack]

/-- **the dispatch loop and `run_function` under two schedules**: same result (value, or error
    kind with position and frames), related final states — provided every instruction and every
    host function respects the relation -/
theorem exec_sim (p : Prog) (hstep : StepSim p) (hnat : NatSim) :
    ∀ (gas : Nat) (task : Task) (s t : VmState), SchedEq s t → TaskOk task s →
      ExecEq (exec p gas task s) (exec p gas task t) := by
  intro gas
  induction gas with
  | zero =>
    intro task s t h _
    rw [exec_zero, exec_zero]
    exact ⟨by show Except.error _ = Except.error _; rw [h.core.obs.frames], h⟩
  | succ gas ih =>
    intro task s t h hok
    have hre : ReSim (reenterOf p gas) (reenterOf p gas) :=
      fun f s t hst hf => liftRun_resEq (ih (.call f) s t hst hf)
    cases task with
    | loop ip =>
      rw [exec_loop, exec_loop]
      split
      · exact ⟨by show Except.error _ = Except.error _; rw [h.core.obs.frames], h⟩
      have erem : t.remaining - 1 = s.remaining - 1 := by rw [h.core.remaining]
      by_cases c0 : s.remaining - 1 = 0
      · rw [if_pos c0, if_pos (erem.trans c0)]
        exact ⟨by show Except.error _ = Except.error _; rw [h.core.obs.frames], schedEq_timeout h⟩
      have c0' : ¬ t.remaining - 1 = 0 := by rw [erem]; exact c0
      rw [if_neg c0, if_neg c0']
      · next hip =>
        obtain ⟨e1, e2⟩ := hstep _ _ hre ip (Nat.lt_of_not_le hip) s.tick t.tick (schedEq_tick h)
        rcases hx : (step p (reenterOf p gas) ip).go s.tick with ⟨r, s'⟩
        rcases hy : (step p (reenterOf p gas) ip).go t.tick with ⟨r', t'⟩
        rw [hx, hy] at e1 e2
        dsimp only at e1 e2
        subst e1
        cases r' with
        | error e =>
          exact ⟨by show Except.error _ = Except.error _; rw [e2.core.obs.frames], e2⟩
        | ok ctl =>
          dsimp only
          split
          · exact ⟨rfl, e2⟩
          · exact ih (.loop ctl.ip) s' t' e2 trivial
    | call f =>
      rw [exec_call, exec_call]
      cases f with
      | obj a =>
        dsimp only
        have hr : Reach s.heap (rootAddrs s) a := hok a rfl
        rw [h.core.obs.fwd a hr]
        cases hg : s.heap.get a with
        | none => exact failAt_execEq h _
        | some o =>
          cases o with
          | native hd =>
            dsimp only
            obtain ⟨e1, e2⟩ := hnat _ _ hre hd s t h
            rcases hx : (callNative (reenterOf p gas) hd).go s with ⟨r, s'⟩
            rcases hy : (callNative (reenterOf p gas) hd).go t with ⟨r', t'⟩
            rw [hx, hy] at e1 e2
            dsimp only at e1 e2
            subst e1
            cases r' with
            | error e => exact failAt_execEq e2 _
            | ok u =>
              refine ⟨?_, schedEq_popStack e2⟩
              show Except.ok (some t'.stack.pop.2) = Except.ok (some s'.stack.pop.2)
              rw [e2.core.obs.stack]
          | fn hd ar =>
            exact enterScript_sim p gas (fun ip s t hst => ih (.loop ip) s t hst trivial) h _ _ _
              (fun a ha => by cases ha)
          | closure hd ar ups =>
            exact enterScript_sim p gas (fun ip s t hst => ih (.loop ip) s t hst trivial) h _ _ _
              (fun a' ha => by cases ha; exact hr)
          | table _ _ => exact failAt_execEq h _
          | str _ => exact failAt_execEq h _
          | upvalue _ => exact failAt_execEq h _
      | nil => exact failAt_execEq h _
      | int _ => exact failAt_execEq h _
      | real _ => exact failAt_execEq h _

/-- the dispatch loop for programs whose instructions never call back: no hypothesis on natives -/
theorem exec_sim_loop (p : Prog) (hstep : StepSimAny p) :
    ∀ (gas ip : Nat) (s t : VmState), SchedEq s t →
      ExecEq (exec p gas (.loop ip) s) (exec p gas (.loop ip) t) := by
  intro gas
  induction gas with
  | zero =>
    intro ip s t h
    rw [exec_zero, exec_zero]
    exact ⟨by show Except.error _ = Except.error _; rw [h.core.obs.frames], h⟩
  | succ gas ih =>
    intro ip s t h
    rw [exec_loop, exec_loop]
    split
    · exact ⟨by show Except.error _ = Except.error _; rw [h.core.obs.frames], h⟩
    next hip =>
    have erem : t.remaining - 1 = s.remaining - 1 := by rw [h.core.remaining]
    by_cases c0 : s.remaining - 1 = 0
    · rw [if_pos c0, if_pos (erem.trans c0)]
      exact ⟨by show Except.error _ = Except.error _; rw [h.core.obs.frames], schedEq_timeout h⟩
    have c0' : ¬ t.remaining - 1 = 0 := by rw [erem]; exact c0
    rw [if_neg c0, if_neg c0']
    obtain ⟨e1, e2⟩ := hstep _ _ ip (Nat.lt_of_not_le hip) s.tick t.tick (schedEq_tick h)
    rcases hx : (step p (reenterOf p gas) ip).go s.tick with ⟨r, s'⟩
    rcases hy : (step p (reenterOf p gas) ip).go t.tick with ⟨r', t'⟩
    rw [hx, hy] at e1 e2
    dsimp only at e1 e2
    subst e1
    cases r' with
    | error e =>
      exact ⟨by show Except.error _ = Except.error _; rw [e2.core.obs.frames], e2⟩
    | ok ctl =>
      dsimp only
      split
      · exact ⟨rfl, e2⟩
      · exact ih ctl.ip s' t' e2

/-- **`Vm::run` under two schedules**, from the simulation of the main loop (started, as the host
    does, with no guard outstanding: `run` resets the guards to what they were when it returns) -/
theorem run_sim_of_exec (p : Prog) (n : Nat)
    (hexec : ∀ (gas : Nat) (s t : VmState), SchedEq s t →
      ExecEq (exec p gas (.loop 0) s) (exec p gas (.loop 0) t))
    {s t : VmState} (h : SchedEq s t) (hg : s.guards = []) :
    (run p n t).2 = (run p n s).2 ∧ SchedEq (run p n s).1 (run p n t).1 := by
  by_cases hroom : s.frames.length < s.frameCap
  · have hroom' : t.frames.length < t.frameCap := by
      rw [h.core.obs.frames, h.core.frameCap]; exact hroom
    rw [run_room p n s hroom, run_room p n t hroom']
    have hst : SchedEq (started n s) (started n t) := by
      have := schedEq_pushFrames h [⟨0, 0, 0, none⟩] (fun f hf a hfa => by
        rcases List.mem_singleton.mp hf with rfl
        cases hfa)
      exact schedEq_reroot this rfl rfl rfl rfl this.core.obs.stack this.core.obs.globals
        this.core.obs.frames this.core.obs.openUpvalues this.core.obs.guards rfl rfl
        this.core.hostLog this.core.frameCap (fun a ha => Reach.root ha)
    have hgas : gasFor (started n t) n = gasFor (started n s) n := by
      unfold gasFor started
      show 2 * n + 3 * t.frameCap + 3 * t.stack.data.length + 16 = 2 * n + 3 * s.frameCap + 3 * s.stack.data.length + 16
      rw [h.core.frameCap, h.core.obs.stack]
    rw [hgas]
    obtain ⟨e1, e2⟩ := hexec (gasFor (started n s) n) _ _ hst
    dsimp only
    refine ⟨by rw [e1], ?_⟩
    refine schedEq_reroot e2 rfl rfl rfl rfl e2.core.obs.stack e2.core.obs.globals
      (by show List.take t.frames.length _ = List.take s.frames.length _
          rw [e2.core.obs.frames, h.core.obs.frames])
      e2.core.obs.openUpvalues
      (by show t.guards = s.guards; exact h.core.obs.guards)
      e2.core.remaining e2.core.dispatches e2.core.hostLog e2.core.frameCap ?_
    exact reroot_sub (fun a ha => reach_stack ha) (fun a ha => reach_global ha)
      (fun f hf a hfa => reach_frame (List.mem_of_mem_take hf) hfa)
      (fun a ha => reach_upv ha) (fun a ha => by rw [show _ = s.guards from rfl, hg] at ha; cases ha)
  · have hroom' : ¬ t.frames.length < t.frameCap := by
      rw [h.core.obs.frames, h.core.frameCap]; exact hroom
    rw [run_no_room p n s (Nat.not_lt.mp hroom), run_no_room p n t (Nat.not_lt.mp hroom')]
    exact ⟨rfl, h⟩

/-- **whole runs are schedule independent as soon as single instructions and host functions are** -/
theorem run_sim (p : Prog) (hstep : StepSim p) (hnat : NatSim) (n : Nat) {s t : VmState}
    (h : SchedEq s t) (hg : s.guards = []) :
    (run p n t).2 = (run p n s).2 ∧ SchedEq (run p n s).1 (run p n t).1 :=
  run_sim_of_exec p n (fun gas s t hst => exec_sim p hstep hnat gas (.loop 0) s t hst trivial) h hg

theorem run_sim_any (p : Prog) (hstep : StepSimAny p) (n : Nat) {s t : VmState}
    (h : SchedEq s t) (hg : s.guards = []) :
    (run p n t).2 = (run p n s).2 ∧ SchedEq (run p n s).1 (run p n t).1 :=
  run_sim_of_exec p n (fun gas s t hst => exec_sim_loop p hstep gas 0 s t hst) h hg

end Cao.SchedSim
