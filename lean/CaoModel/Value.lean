/-!
# Runtime values (shared by all engines)

`Val` mirrors `cao_lang::value::Value`: `Nil | Object(ptr) | Integer(i64) | Real(f64)`.
Reals are carried as their IEEE-754 bit pattern so that `Val` has decidable equality; the
arithmetic on them goes through `FloatOps` (see `CaoModel/F64.lean`). Objects are heap
addresses (see `CaoModel/Heap.lean`).
-/
namespace Cao

inductive Val where
  | nil
  | int (i : Int64)
  | real (bits : UInt64)
  | obj (addr : Nat)
  deriving DecidableEq, Repr

instance : Inhabited Val := ⟨.nil⟩

namespace Val

def hexDigit (n : Nat) : Char :=
  if n < 10 then Char.ofNat (48 + n) else Char.ofNat (87 + n)

def hexOfNat (n width : Nat) : String :=
  String.ofList ((List.range width).reverse.map (fun i => hexDigit ((n / 16 ^ i) % 16)))

def hexVal? (c : Char) : Option Nat :=
  if '0' ≤ c ∧ c ≤ '9' then some (c.toNat - 48)
  else if 'a' ≤ c ∧ c ≤ 'f' then some (c.toNat - 87)
  else if 'A' ≤ c ∧ c ≤ 'F' then some (c.toNat - 55)
  else none

def natOfHex? (s : String) : Option Nat :=
  if s.isEmpty then none else
  s.toList.foldl (fun acc c => match acc, hexVal? c with
    | some a, some d => some (a * 16 + d)
    | _, _ => none) (some 0)

/-- one-token rendering used by the line protocol: `n`, `i-5`, `r3ff0000000000000`, `o12` -/
def toTok : Val → String
  | .nil => "n"
  | .int i => "i" ++ toString i.toInt
  | .real b => "r" ++ hexOfNat b.toNat 16
  | .obj a => "o" ++ toString a

def ofTok? (s : String) : Option Val :=
  match s.toList with
  | ['n'] => some .nil
  | 'i' :: rest => (String.ofList rest).toInt?.map (fun i => .int (Int64.ofInt i))
  | 'r' :: rest => (natOfHex? (String.ofList rest)).map (fun n => .real (UInt64.ofNat n))
  | 'o' :: rest => (String.ofList rest).toNat?.map .obj
  | _ => none

end Val
end Cao
