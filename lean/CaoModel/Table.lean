import CaoModel.HashMap
import CaoModel.OVal
/-!
# `CaoLangTable` — insertion-ordered table (model of the repaired `cao_lang_table.rs`)

`map` is a `CaoHashMap<Value, Value>`; `keys` the `Vec<Value>` of keys in insertion order.
Key identity in the hash part is "equal hash and `==`", which for nil / integers / non-NaN
reals / strings / acyclic tables is structural equality of the deep value (`OVal`, the
canonical key `ck w`; `+0.0` and `-0.0` hash differently and therefore are different keys,
NaN and function values never equal themselves and are excluded, see DESIGN.md).
The hash part stores `(original key, value)` under the canonical key.
-/
namespace Cao

structure TableM (W : Type) where
  map : HMap OVal (W × W)
  keys : List W

namespace TableM
variable {W : Type}

def hashOf : OVal → UInt64 := OVal.vhash

/-- `with_capacity(size)` -/
def withCapacity (size : Nat) (al : Alloc) : Alloc × Res (TableM W) :=
  match (HMap.withCapacity size al : Alloc × Res (HMap OVal (W × W))) with
  | (al, .ok m) => (al, .ok { map := m, keys := [] })
  | (al, .allocErr) => (al, .allocErr)
  | (al, .panic w) => (al, .panic w)

def len (t : TableM W) : Nat := t.keys.length

def get (ck : W → OVal) (t : TableM W) (k : W) : Option W :=
  (t.map.get hashOf (ck k)).map (·.2)

def contains (ck : W → OVal) (t : TableM W) (k : W) : Bool := t.map.contains hashOf (ck k)

/-- `insert`: overwrite through `get_mut`, else `map.insert` + `keys.push` -/
def insert (ck : W → OVal) (t : TableM W) (k v : W) (al : Alloc) : TableM W × Alloc × Res Unit :=
  match t.map.get hashOf (ck k) with
  | some (k0, _) =>
    match t.map.insert hashOf (ck k) (k0, v) al with
    | (m, al, .ok _) => ({ t with map := m }, al, .ok ())
    | (_, al, .allocErr) => (t, al, .allocErr)
    | (_, al, .panic w) => (t, al, .panic w)
  | none =>
    match t.map.insert hashOf (ck k) (k, v) al with
    | (m, al, .ok _) => ({ map := m, keys := t.keys ++ [k] }, al, .ok ())
    | (_, al, .allocErr) => (t, al, .allocErr)
    | (_, al, .panic w) => (t, al, .panic w)

/-- `remove`: `keys.retain(|k| k != key)`, removing the dropped keys from the hash part -/
def remove (ck : W → OVal) (weq : W → W → Bool) (t : TableM W) (k : W) : TableM W × Res Unit :=
  let (gone, kept) := t.keys.partition (fun k' => weq k' k)
  let r := gone.foldl (fun (acc : HMap OVal (W × W) × Option String) k' =>
    match acc with
    | (m, some w) => (m, some w)
    | (m, none) => match m.remove hashOf (ck k') with
      | (m', .ok _) => (m', none)
      | (m', .allocErr) => (m', some "alloc")
      | (m', .panic w) => (m', some w)) (t.map, none)
  match r with
  | (m, none) => ({ map := m, keys := kept }, .ok ())
  | (_, some w) => (t, .panic w)

/-- smallest integer key `≥ len` not present (the `while contains` loop, bounded by `len + 1`
    probes: at most `len` keys exist) -/
def appendKey (ck : W → OVal) (ofInt : Int64 → W) (t : TableM W) : Int64 :=
  let rec go (fuel : Nat) (i : Int64) : Int64 :=
    match fuel with
    | 0 => i
    | f+1 => if t.map.contains hashOf (ck (ofInt i)) then go f (i + 1) else i
  go (t.keys.length + 1) (Int64.ofNat t.keys.length)

def append (ck : W → OVal) (ofInt : Int64 → W) (t : TableM W) (v : W) (al : Alloc) :
    TableM W × Alloc × Res Unit :=
  t.insert ck (ofInt (t.appendKey ck ofInt)) v al

/-- `pop` (after the fix): drop the last key, return its value, remove it from the hash part -/
def pop (ck : W → OVal) (nilW : W) (t : TableM W) : TableM W × Res W :=
  match t.keys.getLast? with
  | none => (t, .ok nilW)
  | some k =>
    let res := (t.get ck k).getD nilW
    match t.map.remove hashOf (ck k) with
    | (m, .ok _) => ({ map := m, keys := t.keys.dropLast }, .ok res)
    | (_, .allocErr) => (t, .allocErr)
    | (_, .panic w) => (t, .panic w)

def nthKey (nilW : W) (t : TableM W) (i : Nat) : W := t.keys.getD i nilW

/-- `iter()`: keys in insertion order, filtered through the hash part -/
def iter (ck : W → OVal) (t : TableM W) : List (W × W) :=
  t.keys.filterMap (fun k => (t.get ck k).map (fun v => (k, v)))

end TableM
end Cao
