import CaoModel.Heap
import CaoModel.Stack
import CaoModel.Compiler
/-!
# The interpreter — model of `vm.rs`, `vm/instr_execution.rs`, `vm/runtime.rs` (repaired tree)

`step` executes one instruction; `runLoop` is the dispatch loop of `Vm::_run` with the
instruction budget (`remaining`) kept in the machine state, and a structurally decreasing `gas`
that makes the definition total (`gas ≥ remaining` never runs out first: every dispatch
consumes one unit of each). Native functions that call back into scripts (`run_function`)
re-enter `runLoop` through the `reenter` parameter of `step`.
-/
namespace Cao.Vm
open Cao Cao.Compiler

inductive ErrKind where
  | callStackOverflow | unexpectedEndOfInput | exitCode | invalidInstruction | invalidArgument
  | varNotFound | procedureNotFound | unimplemented | outOfMemory | missingArgument | timeout
  | taskFailure (name : String) (inner : ErrKind)
  | stackoverflow | badReturn | unhashable | assertionError | invalidUpvalue | notClosure
  | panic (why : String)

def ErrKind.name : ErrKind → String
  | .callStackOverflow => "CallStackOverflow" | .unexpectedEndOfInput => "UnexpectedEndOfInput"
  | .exitCode => "ExitCode" | .invalidInstruction => "InvalidInstruction"
  | .invalidArgument => "InvalidArgument" | .varNotFound => "VarNotFound"
  | .procedureNotFound => "ProcedureNotFound" | .unimplemented => "Unimplemented"
  | .outOfMemory => "OutOfMemory" | .missingArgument => "MissingArgument" | .timeout => "Timeout"
  | .taskFailure n i => "TaskFailure(" ++ n ++ "):" ++ i.name
  | .stackoverflow => "Stackoverflow" | .badReturn => "BadReturn" | .unhashable => "Unhashable"
  | .assertionError => "AssertionError" | .invalidUpvalue => "InvalidUpvalue"
  | .notClosure => "NotClosure" | .panic w => "panic:" ++ w

structure Frame where
  src : Nat
  dst : Nat
  stackOffset : Nat
  closure : Option Nat     -- address of the closure object
  deriving Repr

structure Config where
  memLimit : Nat := Gen.memLimit
  stackSize : Nat := Gen.stackSize
  callStackSize : Nat := Gen.callStackSize
  maxInstr : Nat := Gen.maxInstr

/-- which allocations (by index since the schedule was installed) run a collection first -/
inductive Sched where
  | none | every | single (k : Nat) | mask (m : Nat)

def Sched.forced : Sched → Nat → Bool
  | .none, _ => false
  | .every, _ => true
  | .single k, i => k == i
  | .mask m, i => (m / 2 ^ (i % 64)) % 2 == 1

structure VmState where
  stack : VStack Val
  frames : List Frame := []           -- bottom first
  frameCap : Nat
  globals : List Val := []
  heap : Heap := {}
  mem : Mem
  guards : List Nat := []             -- objects currently held by an `ObjectGcGuard`
  openUpvalues : List Nat := []       -- addresses, sorted by slot, highest first
  remaining : Nat := 0
  hostLog : List String := []
  dispatches : Nat := 0               -- ghost: number of instructions dispatched in this run
  gcRuns : Nat := 0                   -- ghost
  sched : Sched := .none              -- forced-collection schedule (verification hook)
  allocIndex : Nat := 0
  forcedGcs : Nat := 0

def VmState.fresh (c : Config) : VmState :=
  { stack := VStack.new c.stackSize, frameCap := c.callStackSize, mem := Mem.new c.memLimit }

/-- errors keep the machine state at the point of failure (the host can still read globals) -/
abbrev M := ExceptT ErrKind (StateM VmState)

def throwE {α : Type} (e : ErrKind) : M α := throw e

/-! ## garbage collection -/

/-- the root set of the (repaired) collector -/
def roots (s : VmState) : List Val :=
  s.stack.contents ++ s.globals ++ (s.frames.filterMap (·.closure)).map Val.obj ++
  s.openUpvalues.map Val.obj ++ s.guards.map Val.obj

/-- an open upvalue references a stack slot, which is a root anyway -/
def markLoop (h : Heap) : Nat → List Nat → List Nat → List Nat
  | 0, _, marked => marked
  | _, [], marked => marked
  | fuel+1, a :: work, marked =>
    if marked.contains a then markLoop h fuel work marked
    else
      let kids := match h.get a with
        | some o => (Heap.children o).filterMap (fun v => match v with | .obj x => some x | _ => none)
        | none => []
      markLoop h fuel (kids ++ work) (a :: marked)

def reachable (s : VmState) : List Nat :=
  let rs := (roots s).filterMap (fun v => match v with | .obj x => some x | _ => none)
  -- every object is pushed at most once per incoming edge
  let edges := s.heap.objs.foldl (fun n p => n + (Heap.children p.2).length) 0
  markLoop s.heap (rs.length + edges + s.heap.objs.length + 1) rs []

/-- `RuntimeData::gc`: free every object that is not reachable -/
def gc (s : VmState) : VmState :=
  let live := reachable s
  let (keep, dead) := s.heap.objs.partition (fun p => live.contains p.1)
  let freed := dead.foldl (fun n p => n + Heap.chargeOf p.2) 0
  { s with heap := { s.heap with objs := keep },
           mem := { s.mem with allocated := s.mem.allocated - freed },
           gcRuns := s.gcRuns + 1 }

/-- `CaoLangAllocator::alloc` (repaired): charge, collect when over the threshold *or* over the
    limit, recompute the threshold from the live size, refund and fail if still over the limit -/
def allocBytes (charge : Nat) : M Unit := do
  modify fun s => { s with mem := { s.mem with allocated := s.mem.allocated + charge } }
  let s ← get
  let forced := s.sched.forced s.allocIndex
  set { s with allocIndex := s.allocIndex + 1, forcedGcs := s.forcedGcs + (if forced then 1 else 0) }
  let s ← get
  if forced || s.mem.allocated > s.mem.nextGc || s.mem.allocated > s.mem.limit then
    let s' := gc s
    set { s' with mem := { s'.mem with nextGc := max (s'.mem.allocated * 2) (Mem.initialGc s'.mem.limit) } }
  let s ← get
  if s.mem.allocated > s.mem.limit then
    set { s with mem := { s.mem with allocated := s.mem.allocated - charge } }
    throwE .outOfMemory

def deallocBytes (charge : Nat) : M Unit :=
  modify fun s => { s with mem := { s.mem with allocated := s.mem.allocated - charge } }

/-- put a new object into the heap under a guard (`ObjectGcGuard::new`) -/
def newObject (o : Obj) : M Nat := do
  let s ← get
  let a := s.heap.next
  set { s with heap := { objs := s.heap.objs ++ [(a, o)], next := a + 1 }, guards := a :: s.guards }
  return a

def dropGuard (a : Nat) : M Unit := modify fun s => { s with guards := s.guards.erase a }

/-- `init_table`: header, then the hash storage of capacity 8 -/
def initTable : M Nat := do
  allocBytes Heap.objCharge
  -- (a failure of the second allocation leaks the first charge in the Rust; repaired: refunded)
  try allocBytes (Heap.tableCharge Gen.tableInitCap)
  catch e => do deallocBytes Heap.objCharge; throw e
  newObject (.table Gen.tableInitCap [])

def initString (bytes : List UInt8) : M Nat := do
  allocBytes Heap.objCharge
  try allocBytes (Heap.strCharge bytes.length)
  catch e => do deallocBytes Heap.objCharge; throw e
  newObject (.str bytes)

def initSimple (o : Obj) : M Nat := do
  allocBytes Heap.objCharge
  newObject o

/-! ## value stack helpers -/

def push (v : Val) : M Unit := do
  let s ← get
  match s.stack.push v with
  | (st, .ok ()) => set { s with stack := st }
  | (_, .error _) => throwE .stackoverflow

def pop : M Val := do
  let s ← get
  let (st, v) := s.stack.pop
  set { s with stack := st }
  return v

def peek (n : Nat) : M Val := do return (← get).stack.peekLast n

def popN (n : Nat) : M Unit := modify fun s => { s with stack := (s.stack.popN n).1 }

def curFrame : M Frame := do
  match (← get).frames.getLast? with
  | some f => return f
  | none => throwE (.panic "call stack is empty")

/-- `write_local_var`: `value_stack.set(offset + handle, value)` -/
def writeLocal (offset handle : Nat) (v : Val) : M Unit := do
  let s ← get
  match s.stack.set (offset + handle) v with
  | (st, .ok _) => set { s with stack := st }
  | (_, .error _) => throwE .varNotFound

def readLocal (offset handle : Nat) : M Val := do return (← get).stack.get (offset + handle)

/-! ## tables (specification level, keyed by the deep value of the key) -/

def keyOf (v : Val) : M OVal := do return ownD (← get).heap v

def getTable (v : Val) : M (Nat × Nat × List (Val × Val)) := do
  match v with
  | .obj a => match (← get).heap.get a with
    | some (.table cap es) => return (a, cap, es)
    | _ => throwE .invalidArgument
  | _ => throwE .invalidArgument

def findEntry (h : Heap) (es : List (Val × Val)) (k : OVal) : Option (Val × Val) :=
  es.find? (fun e => decide (ownD h e.1 = k))

def tableGet (es : List (Val × Val)) (k : Val) : M Val := do
  let h := (← get).heap
  return ((findEntry h es (ownD h k)).map (·.2)).getD .nil

/-- `CaoLangTable::insert`: overwrite, or grow the hash part first when the load factor would be
    exceeded (one allocation of the new storage, then the old one is released) and append -/
def tableInsert (a : Nat) (k v : Val) : M Unit := do
  let (_, cap, es) ← getTable (.obj a)
  let h := (← get).heap
  let ck := ownD h k
  if (findEntry h es ck).isSome then
    let es' := es.map (fun e => if decide (ownD h e.1 = ck) then (e.1, v) else e)
    modify fun s => { s with heap := s.heap.set a (.table cap es') }
  else
    if HMap.needsGrow (es.length + 1) cap then
      let cap' := HMap.growCap cap
      allocBytes (Heap.tableCharge cap')
      -- the collection above may only have freed *other* objects: re-read nothing, the table is rooted
      deallocBytes (Heap.tableCharge cap)
      modify fun s => { s with heap := s.heap.set a (.table cap' (es ++ [(k, v)])) }
    else
      modify fun s => { s with heap := s.heap.set a (.table cap (es ++ [(k, v)])) }

def tableAppendKey (h : Heap) (es : List (Val × Val)) : Int64 :=
  let rec go (fuel : Nat) (i : Int64) : Int64 :=
    match fuel with
    | 0 => i
    | f+1 => if (findEntry h es (.int i)).isSome then go f (i + 1) else i
  go (es.length + 1) (Int64.ofNat es.length)

/-! ## upvalues -/

def upvalueSlot (h : Heap) (a : Nat) : Option Nat :=
  match h.get a with
  | some (.upvalue (.stack i)) => some i
  | _ => none

/-- `_close_upvalues(top)`: close every open upvalue whose slot is `≥ top` -/
def closeUpvalues (top : Nat) : M Unit := do
  let s ← get
  let rec go (l : List Nat) (h : Heap) : List Nat × Heap :=
    match l with
    | [] => ([], h)
    | a :: rest =>
      match upvalueSlot h a with
      | some i => if i < top then (a :: rest, h) else go rest (h.set a (.upvalue (.closed (s.stack.data.getD i .nil))))
      | none => ([], h)   -- not an upvalue object: the Rust resets the list and errors
  let (l, h) := go s.openUpvalues s.heap
  set { s with openUpvalues := l, heap := h }

def readUpvalueLoc (a : Nat) : M Val := do
  let s ← get
  match s.heap.get a with
  | some (.upvalue (.stack i)) => return s.stack.data.getD i .nil
  | some (.upvalue (.closed v)) => return v
  | _ => throwE .invalidArgument

def writeUpvalueLoc (a : Nat) (v : Val) : M Unit := do
  let s ← get
  match s.heap.get a with
  | some (.upvalue (.stack i)) => set { s with stack := { s.stack with data := s.stack.data.set i v } }
  | some (.upvalue (.closed _)) => set { s with heap := s.heap.set a (.upvalue (.closed v)) }
  | _ => throwE .invalidArgument

/-! ## decoding -/

structure Prog where
  bytecode : Array UInt8
  data : Array UInt8
  labels : List (UInt32 × Nat)
  varNames : List (UInt32 × String)
  trace : List (Nat × Trace)

def Prog.ofProgram (p : Program) : Prog :=
  { bytecode := p.bytecode, data := p.data, labels := p.labels, varNames := p.varNames, trace := p.trace }

def rdU32 (b : Array UInt8) (p : Nat) : Nat :=
  (List.range 4).foldl (fun acc i => acc + (b.getD (p + i) 0).toNat * 256 ^ i) 0
def rdU64 (b : Array UInt8) (p : Nat) : UInt64 :=
  UInt64.ofNat ((List.range 8).foldl (fun acc i => acc + (b.getD (p + i) 0).toNat * 256 ^ i) 0)

/-- `read_str` (repaired: no 256-byte window): `len:u32 ++ bytes`, valid UTF-8 -/
def readStr (data : Array UInt8) (p : Nat) : Option (List UInt8) :=
  if p + 4 > data.size then none else
  let len := rdU32 data p
  if p + 4 + len > data.size then none else
  let bytes := (List.range len).map (fun i => data.getD (p + 4 + i) 0)
  if (String.fromUTF8? (ByteArray.mk bytes.toArray)).isSome then some bytes else none

/-! ## natives -/

def hName (s : String) : UInt32 := Hash.handleFromBytes s.toUTF8.toList

/-- `TryFrom<Value> for i64` -/
def toI64 (h : Heap) (v : Val) : Int64 := OVal.toI64 hostF64 (ownD h v)

def boolVal (b : Bool) : Val := .int (if b then 1 else 0)

/-- a callback into the dispatch loop: `run_function(value)` -/
abbrev Reenter := Val → M Val

def nativeNames : List String :=
  ["__min", "__max", "__sort", "__to_array", "log", "sum2", "fail", "callback", "strlen", "three", "four", "mktable", "papply"]

def isTable (h : Heap) (v : Val) : Option (List (Val × Val)) :=
  match v with
  | .obj a => match h.get a with | some (.table _ es) => some es | _ => none
  | _ => none

/-- `guard_value` in stdlib.rs: an object value held only by a native is protected -/
def guardVal (v : Val) : M Unit :=
  match v with
  | .obj a => modify fun s => { s with guards := a :: s.guards }
  | _ => pure ()

def unguardVal (v : Val) : M Unit :=
  match v with
  | .obj a => dropGuard a
  | _ => pure ()

/-- `guard_rows` in stdlib.rs (repaired): the keys and values of the rows a native copied are
    protected while the key function runs (it may remove them from the table) -/
def guardRows (es : List (Val × Val)) : M Unit :=
  for (k, v) in es do
    guardVal k
    guardVal v

def unguardRows (es : List (Val × Val)) : M Unit :=
  for (k, v) in es do
    unguardVal k
    unguardVal v

/-- the registered host functions: the stdlib natives and the harness' fixed test family.
    Arguments stay on the value stack while the function runs (repaired wrappers) and are
    popped afterwards. -/
def callNativeBody (reenter : Reenter) (name : String) : M Val := do
  let h := (← get).heap
  match name with
  | "__min" | "__max" => do
    let keyFn ← peek 0
    let iterable ← peek 1
    match isTable h iterable with
    | none => return iterable
    | some es =>
      match es with
      | [] => return .nil
      | (k0, v0) :: rest => do
        guardRows es
        push v0; push k0
        let mut best ← reenter keyFn
        -- (repaired) the best key so far is only referenced from the native: it is guarded
        guardVal best
        let mut idx := 0
        let mut j := 1
        for (k, v) in rest do
          push v; push k
          let key ← reenter keyFn
          let h := (← get).heap
          let better := if name == "__min" then OVal.vlt hostF64 (ownD h key) (ownD h best)
                        else OVal.vlt hostF64 (ownD h best) (ownD h key)
          if better then
            idx := j
            unguardVal best
            best := key
            guardVal best
          j := j + 1
        let (k, v) := es.getD idx (.nil, .nil)
        let row ← initTable
        let ks ← initString "key".toUTF8.toList
        tableInsert row (.obj ks) k
        dropGuard ks
        let vs ← initString "value".toUTF8.toList
        tableInsert row (.obj vs) v
        dropGuard vs
        dropGuard row
        -- the guard of the best key lives until the native returns (`_max_key_guard` is a local)
        unguardVal best
        unguardRows es
        return .obj row
  | "__sort" => do
    let keyFn ← peek 0
    let iterable ← peek 1
    match isTable h iterable with
    | none => return iterable
    | some es => do
      let mut keyed : List (Val × Val × Val) := []
      guardRows es
      for (k, v) in es do
        push v; push k
        let key ← reenter keyFn
        -- (repaired) the keys are kept alive on the VM side until the sort is done
        modify fun s => { s with guards := (match key with | .obj a => [a] | _ => []) ++ s.guards }
        keyed := keyed ++ [(key, k, v)]
      let h := (← get).heap
      let sorted := keyed.mergeSort (fun a b =>
        match OVal.vcmp hostF64 (ownD h a.1) (ownD h b.1) with
        | some .gt => false
        | _ => true)
      let out ← initTable
      for (_, k, v) in sorted do
        tableInsert out k v
      for (key, _, _) in keyed do
        match key with
        | .obj a => dropGuard a
        | _ => pure ()
      unguardRows es
      dropGuard out
      return .obj out
  | "__to_array" => do
    let iterable ← peek 0
    match isTable h iterable with
    | none => return iterable
    | some es => do
      let out ← initTable
      let mut i := 0
      for (_, v) in es do
        tableInsert out (.int (Int64.ofNat i)) v
        i := i + 1
      dropGuard out
      return .obj out
  | "log" => do
    let v ← peek 0
    modify fun s => { s with hostLog := s.hostLog ++ ["log " ++ (ownD h v).toTok] }
    return .nil
  | "sum2" => do
    let b ← peek 0
    let a ← peek 1
    modify fun s => { s with hostLog := s.hostLog ++ ["sum2 " ++ toString (toI64 h a).toInt ++ " " ++ toString (toI64 h b).toInt] }
    return .int (toI64 h a + toI64 h b)
  | "fail" => throwE .invalidArgument
  | "callback" => do
    let x ← peek 0
    let f ← peek 1
    push x
    let r ← reenter f
    let h := (← get).heap
    modify fun s => { s with hostLog := s.hostLog ++ ["callback -> " ++ (ownD h r).toTok] }
    return r
  | "papply" => do
    -- a plain host function: pops its own argument (a function value) and calls it
    let f ← pop
    let r ← reenter f
    let h := (← get).heap
    modify fun s => { s with hostLog := s.hostLog ++ ["papply -> " ++ (ownD h r).toTok] }
    return r
  | "strlen" => do
    let v ← peek 0
    match v with
    | .obj a => match h.get a with
      | some (.str b) => return .int (Int64.ofNat b.length)
      | _ => throwE .invalidArgument
    | _ => throwE .invalidArgument
  | "three" => do
    -- allocates before it looks at its arguments (a collection may run while they are only
    -- referenced from the argument slots)
    let scratch ← initString "scratch".toUTF8.toList
    dropGuard scratch
    let h := (← get).heap
    let c ← peek 0
    let b ← peek 1
    let a ← peek 2
    modify fun s => { s with hostLog := s.hostLog ++ ["three " ++ (ownD h a).toTok ++ " " ++ (ownD h b).toTok ++ " " ++ (ownD h c).toTok] }
    return a
  | "four" => do
    let scratch ← initString "scratch".toUTF8.toList
    dropGuard scratch
    let h := (← get).heap
    let d ← peek 0
    let c ← peek 1
    let b ← peek 2
    let a ← peek 3
    modify fun s => { s with hostLog := s.hostLog ++ ["four " ++ (ownD h a).toTok ++ " " ++ (ownD h b).toTok ++ " " ++ (ownD h c).toTok ++ " " ++ (ownD h d).toTok] }
    return d
  | "mktable" => do
    -- a native that allocates: `{ "n": arg }`
    let v ← peek 0
    let t ← initTable
    let ks ← initString "n".toUTF8.toList
    tableInsert t (.obj ks) v
    dropGuard ks
    dropGuard t
    return .obj t
  | _ => throwE .procedureNotFound

def nativeArity : String → Nat
  | "__min" | "__max" | "__sort" | "sum2" | "callback" => 2
  | "__to_array" | "log" | "strlen" | "mktable" => 1
  | "three" => 3 | "four" => 4
  | _ => 0

/-- argument conversions of the typed wrappers (`TryFrom<Value>`): they run before the host
    function and, when they fail, the arguments are left on the stack -/
def nativeConv (name : String) : M Unit := do
  match name with
  | "strlen" => do
    let v ← peek 0
    match v with
    | .obj a => match (← get).heap.get a with
      | some (.str _) => pure ()
      | _ => throwE .invalidArgument
    | _ => throwE .invalidArgument
  | _ => pure ()

/-- `call_native(handle)`: look the procedure up, convert the arguments in place, run it, pop the
    arguments (also when it failed), wrap its error, push its result -/
def callNative (reenter : Reenter) (handle : UInt32) : M Unit := do
  match nativeNames.find? (fun n => hName n == handle) with
  | none => throwE .procedureNotFound
  | some name =>
    (try nativeConv name catch e => throwE (.taskFailure name e))
    let r ← try callNativeBody reenter name
             catch e => do
               popN (nativeArity name)
               throwE (.taskFailure name e)
    popN (nativeArity name)
    push r

/-! ## one instruction -/

structure Ctl where
  ip : Nat
  exit : Bool := false

/-- executes the instruction at `src`; returns the next instruction pointer -/
def step (p : Prog) (reenter : Reenter) (src : Nat) : M Ctl := do
  let bc := p.bytecode
  let opc := bc.getD src 0
  let ip := src + 1
  let o := Compiler.op
  if opc == o.initTable then
    let a ← initTable
    push (.obj a)
    dropGuard a
    return { ip }
  else if opc == o.getProperty then
    let key ← pop
    let inst ← pop
    let (_, _, es) ← getTable inst
    push (← tableGet es key)
    return { ip }
  else if opc == o.setProperty then
    let key ← peek 0
    let inst ← peek 1
    let value ← peek 2
    let (a, _, _) ← getTable inst
    tableInsert a key value
    popN 3
    return { ip }
  else if opc == o.beginForEach then
    let loopVar := rdU32 bc ip
    let loopItem := rdU32 bc (ip + 4)
    let iH := rdU32 bc (ip + 8)
    let kH := rdU32 bc (ip + 12)
    let vH := rdU32 bc (ip + 16)
    let item := (← get).stack.last
    let _ ← getTable item
    let off := (← curFrame).stackOffset
    writeLocal off loopVar (.int 0)
    writeLocal off loopItem item
    writeLocal off vH .nil
    writeLocal off kH .nil
    writeLocal off iH .nil
    return { ip := ip + 20 }
  else if opc == o.forEach then
    let loopVar := rdU32 bc ip
    let loopItem := rdU32 bc (ip + 4)
    let iH := rdU32 bc (ip + 8)
    let kH := rdU32 bc (ip + 12)
    let vH := rdU32 bc (ip + 16)
    let off := (← curFrame).stackOffset
    let iv ← readLocal off loopVar
    let objv ← readLocal off loopItem
    let i := toI64 (← get).heap iv
    let es ← (do let (_, _, es) ← getTable objv; pure es) <|> throwE .assertionError
    let cont := decide (0 ≤ i.toInt ∧ i.toInt < es.length)
    if cont then
      let (k, v) := es.getD i.toInt.toNat (.nil, .nil)
      writeLocal off vH v
      writeLocal off kH k
      writeLocal off iH (.int i)
      writeLocal off loopVar (.int (i + 1))
    push (boolVal cont)
    return { ip := ip + 20 }
  else if opc == o.gotoIfTrue then
    let c ← pop
    let pos := rdU32 bc ip
    let h := (← get).heap
    return { ip := if OVal.asBool hostF64 (ownD h c) then pos else ip + 4 }
  else if opc == o.gotoIfFalse then
    let c ← pop
    let pos := rdU32 bc ip
    let h := (← get).heap
    return { ip := if OVal.asBool hostF64 (ownD h c) then ip + 4 else pos }
  else if opc == o.goto then
    return { ip := rdU32 bc ip }
  else if opc == o.swapLast then
    let b ← pop
    let a ← pop
    push b; push a
    return { ip }
  else if opc == o.scalarNil then
    push .nil
    return { ip }
  else if opc == o.clearStack then
    let off := (← curFrame).stackOffset
    modify fun s => { s with stack := (s.stack.clearUntil off).1 }
    return { ip }
  else if opc == o.setLocalVar then
    let handle := rdU32 bc ip
    let off := (← curFrame).stackOffset
    let s ← get
    let (st, v) := s.stack.popWOffset off
    set { s with stack := st }
    writeLocal off handle v
    return { ip := ip + 4 }
  else if opc == o.readLocalVar then
    let handle := rdU32 bc ip
    let off := (← curFrame).stackOffset
    push (← readLocal off handle)
    return { ip := ip + 4 }
  else if opc == o.setGlobalVar then
    let id := rdU32 bc ip
    let v ← pop
    modify fun s =>
      let g := if s.globals.length ≤ id then s.globals ++ List.replicate (id + 1 - s.globals.length) .nil else s.globals
      { s with globals := g.set id v }
    return { ip := ip + 4 }
  else if opc == o.readGlobalVar then
    let id := rdU32 bc ip
    match (← get).globals[id]? with
    | some v => push v
    | none => throwE .varNotFound
    return { ip := ip + 4 }
  else if opc == o.pop then
    let _ ← pop
    return { ip }
  else if opc == o.callFunction then
    let f ← pop
    match f with
    | .obj a =>
      match (← get).heap.get a with
      | some (.native h) => callNative reenter h; return { ip }
      | some (.fn h ar) => callScript p src ip h ar.toNat none
      | some (.closure h ar _) => callScript p src ip h ar.toNat (some a)
      | _ => throwE .invalidArgument
    | _ => throwE .invalidArgument
  else if opc == o.ret then
    let s ← get
    match s.frames.getLast? with
    | none => throwE .badReturn
    | some fr =>
      set { s with frames := s.frames.dropLast }
      closeUpvalues fr.stackOffset
      let s ← get
      let (st, v) := s.stack.clearUntil fr.stackOffset
      set { s with stack := st }
      match (← get).frames.getLast? with
      | none => throwE .badReturn
      | some caller =>
        push v
        return { ip := caller.dst }
  else if opc == o.exit then
    return { ip, exit := true }
  else if opc == o.copyLast then
    push (← get).stack.last
    return { ip }
  else if opc == o.nativeFunctionPointer then
    match readStr p.data (rdU32 bc ip) with
    | none => throwE .invalidArgument
    | some name =>
      let a ← initSimple (.native (Hash.handleFromBytes name))
      push (.obj a)
      dropGuard a
      return { ip := ip + 4 }
  else if opc == o.functionPointer then
    let a ← initSimple (.fn (UInt32.ofNat (rdU32 bc ip)) (UInt32.ofNat (rdU32 bc (ip + 4))))
    push (.obj a)
    dropGuard a
    return { ip := ip + 8 }
  else if opc == o.closure then
    let a ← initSimple (.closure (UInt32.ofNat (rdU32 bc ip)) (UInt32.ofNat (rdU32 bc (ip + 4))) [])
    push (.obj a)
    dropGuard a
    return { ip := ip + 8 }
  else if opc == o.scalarInt then
    push (.int (rdU64 bc ip).toInt64)
    return { ip := ip + 8 }
  else if opc == o.scalarFloat then
    push (.real (rdU64 bc ip))
    return { ip := ip + 8 }
  else if opc == o.not then
    let v ← pop
    let h := (← get).heap
    push (boolVal (!(OVal.asBool hostF64 (ownD h v))))
    return { ip }
  else if opc == o.and || opc == o.or || opc == o.xor || opc == o.add || opc == o.sub || opc == o.mul
       || opc == o.div || opc == o.equals || opc == o.notEquals || opc == o.less || opc == o.lessOrEq then
    let b ← pop
    let a ← pop
    let h := (← get).heap
    let oa := ownD h a
    let ob := ownD h b
    let F := hostF64
    let num (x : OVal) : Val := match x with
      | .int i => .int i | .real r => .real r | _ => .nil
    let r : Val :=
      if opc == o.and then boolVal (OVal.asBool F oa && OVal.asBool F ob)
      else if opc == o.or then boolVal (OVal.asBool F oa || OVal.asBool F ob)
      else if opc == o.xor then boolVal (OVal.asBool F oa != OVal.asBool F ob)
      else if opc == o.add then num (OVal.arith F .add oa ob)
      else if opc == o.sub then num (OVal.arith F .sub oa ob)
      else if opc == o.mul then num (OVal.arith F .mul oa ob)
      else if opc == o.div then num (OVal.arith F .div oa ob)
      else if opc == o.equals then boolVal (OVal.veq F oa ob)
      else if opc == o.notEquals then boolVal (!(OVal.veq F oa ob))
      else if opc == o.less then boolVal (OVal.vlt F oa ob)
      else boolVal (OVal.vle F oa ob)
    push r
    return { ip }
  else if opc == o.stringLiteral then
    match readStr p.data (rdU32 bc ip) with
    | none => throwE .invalidArgument
    | some bytes =>
      let a ← initString bytes
      push (.obj a)
      dropGuard a
      return { ip := ip + 4 }
  else if opc == o.callNative then
    callNative reenter (UInt32.ofNat (rdU32 bc ip))
    return { ip := ip + 4 }
  else if opc == o.len then
    let v ← pop
    let h := (← get).heap
    let n : Nat := match v with
      | .nil => 0
      | .int _ | .real _ => 1
      | .obj a => match h.get a with
        | some (.table _ es) => es.length
        | some (.str b) => b.length
        | _ => 0
    push (.int (Int64.ofNat n))
    return { ip }
  else if opc == o.nthRow then
    let iv ← peek 0
    let inst ← peek 1
    let (_, _, es) ← getTable inst
    match iv with
    | .int i =>
      if i.toInt < 0 then throwE .invalidArgument
      let (k, v) := es.getD i.toInt.toNat (.nil, .nil)
      let v := if i.toInt.toNat < es.length then v else .nil
      let row ← initTable
      let ks ← initString "key".toUTF8.toList
      let vs ← initString "value".toUTF8.toList
      tableInsert row (.obj ks) k
      tableInsert row (.obj vs) v
      popN 2
      push (.obj row)
      dropGuard vs; dropGuard ks; dropGuard row
      return { ip }
    | _ => throwE .invalidArgument
  else if opc == o.appendTable then
    let inst ← peek 0
    let value ← peek 1
    let (a, _, es) ← getTable inst
    let h := (← get).heap
    tableInsert a (.int (tableAppendKey h es)) value
    popN 2
    return { ip }
  else if opc == o.popTable then
    let inst ← pop
    let (a, cap, es) ← getTable inst
    match es.getLast? with
    | none => push .nil
    | some (_, v) =>
      modify fun s => { s with heap := s.heap.set a (.table cap es.dropLast) }
      push v
    return { ip }
  else if opc == o.setUpvalue then
    let index := rdU32 bc ip
    let v ← pop
    match (← curFrame).closure with
    | none => throwE .notClosure
    | some c =>
      match (← get).heap.get c with
      | some (.closure _ _ ups) =>
        match ups[index]? with
        | some u => writeUpvalueLoc u v
        | none => throwE .invalidUpvalue
      | _ => throwE .notClosure
    return { ip := ip + 4 }
  else if opc == o.readUpvalue then
    let index := rdU32 bc ip
    match (← curFrame).closure with
    | none => throwE .notClosure
    | some c =>
      match (← get).heap.get c with
      | some (.closure _ _ ups) =>
        match ups[index]? with
        | some u => push (← readUpvalueLoc u)
        | none => throwE .invalidUpvalue
      | _ => throwE .notClosure
    return { ip := ip + 4 }
  else if opc == o.registerUpvalue then
    let index := (bc.getD ip 0).toNat
    let isLocal := (bc.getD (ip + 1) 0) != 0
    let cv ← pop
    match cv with
    | .obj c =>
      match (← get).heap.get c with
      | some (.closure hd ar ups) =>
        if isLocal then
          let off := (← curFrame).stackOffset
          let slot := off + index
          -- (repaired) the slot of the variable is gone: an error, not an out-of-bounds panic
          if slot ≥ (← get).stack.count then throwE .invalidArgument
          let s ← get
          match s.openUpvalues.find? (fun a => upvalueSlot s.heap a == some slot) with
          | some u =>
            modify fun s => { s with heap := s.heap.set c (.closure hd ar (ups ++ [u])) }
          | none =>
            let u ← initSimple (.upvalue (.stack slot))
            modify fun s =>
              let (hi, lo) := s.openUpvalues.partition (fun a => match upvalueSlot s.heap a with
                | some i => i > slot | none => true)
              { s with openUpvalues := hi ++ [u] ++ lo,
                       heap := s.heap.set c (.closure hd ar (ups ++ [u])) }
            dropGuard u
        else
          match (← curFrame).closure with
          | none => throwE (.panic "closure not found for capture")
          | some outer =>
            match (← get).heap.get outer with
            | some (.closure _ _ oups) =>
              match oups[index]? with
              | some u => modify fun s => { s with heap := s.heap.set c (.closure hd ar (ups ++ [u])) }
              | none => throwE (.panic "upvalue index out of bounds")
            | _ => throwE (.panic "closure not found for capture")
        return { ip := ip + 2 }
      | _ => throwE .invalidArgument
    | _ => throwE .invalidArgument
  else if opc == o.closeUpvalue then
    let s ← get
    if s.stack.count == 0 then throwE .invalidArgument
    closeUpvalues (s.stack.count - 1)
    -- (repaired) the instruction stands in for the `Pop` of a captured local: the slot goes
    let _ ← pop
    return { ip }
  else
    throwE (.panic "invalid opcode")
where
  /-- `push_call_frame` + jump to the label -/
  callScript (p : Prog) (src ip : Nat) (label : UInt32) (arity : Nat) (closure : Option Nat) : M Ctl := do
    let s ← get
    if s.frames.isEmpty then throwE (.panic "Call stack was empty")
    if s.stack.count < arity then throwE .missingArgument
    if s.frames.length ≥ s.frameCap then throwE .callStackOverflow
    let lastF : Frame := s.frames.getLast?.getD ⟨0, 0, 0, none⟩
    let frames := s.frames.dropLast ++ [{ lastF with dst := ip }]
    let newF : Frame := { src := src, dst := ip, stackOffset := s.stack.count - arity, closure := closure }
    set { s with frames := frames ++ [newF] }
    match p.labels.find? (fun l => l.1 == label) with
    | some (_, pos) => return { ip := pos }
    | none => throwE .procedureNotFound

/-! ## the dispatch loop -/

structure RunErr where
  kind : ErrKind
  at_ : Nat                 -- address of the instruction that failed
  frames : List Frame

inductive Task where
  | loop (ip : Nat)        -- `_run` from `ip`
  | call (f : Val)         -- `run_function(f)`

/-- lift a state function into `M` -/
def liftRun (f : VmState → VmState × Except RunErr (Option Val)) : M Val :=
  ExceptT.mk (fun s => match f s with
    | (s', .ok (some v)) => (.ok v, s')
    | (s', .ok none) => (.ok .nil, s')
    | (s', .error e) => (.error e.kind, s'))

/-- `Vm::_run` (task `loop`) and `Vm::run_function` (task `call`) in one structurally recursive
    function: `gas` is structural fuel, the instruction budget is `remaining` in the state. -/
def exec (p : Prog) : Nat → Task → VmState → VmState × Except RunErr (Option Val)
  | 0, _, s => (s, .error ⟨.panic "gas exhausted", 0, s.frames⟩)
  | gas+1, .loop ip, s =>
    if ip ≥ p.bytecode.size then (s, .error ⟨.unexpectedEndOfInput, ip, s.frames⟩) else
    -- `remaining_iters = remaining_iters.saturating_sub(1); if remaining_iters == 0 { Timeout }`
    let rem := s.remaining - 1
    let s := { s with remaining := rem }
    if rem == 0 then (s, .error ⟨.timeout, ip, s.frames⟩) else
    let s := { s with dispatches := s.dispatches + 1 }
    match (step p (fun f => liftRun (exec p gas (.call f))) ip).run.run s with
    | (.error e, s') => (s', .error ⟨e, ip, s'.frames⟩)
    | (.ok ctl, s') =>
      if ctl.exit then (s', .ok none) else exec p gas (.loop ctl.ip) s'
  | gas+1, .call f, s =>
    let fail (s : VmState) (e : ErrKind) : VmState × Except RunErr (Option Val) := (s, .error ⟨e, 0, s.frames⟩)
    let enter (label : UInt32) (arity : Nat) (closure : Option Nat) : VmState × Except RunErr (Option Val) :=
      match p.labels.find? (fun l => l.1 == label) with
      | none => fail s .procedureNotFound
      | some (_, pos) =>
        let endp := p.bytecode.size - 1
        if s.stack.count < arity then fail s .missingArgument else
        let fr : Frame := { src := pos, dst := endp, stackOffset := s.stack.count - arity, closure := closure }
        if s.frames.length + 1 > s.frameCap then fail s .callStackOverflow else
        -- (repaired) `run_function` pops the call stack back to its entry depth however the callee ended:
        -- the state has the frames restored, the error record keeps the frames at the time of the failure
        if s.frames.length + 2 > s.frameCap then (s, .error ⟨.callStackOverflow, 0, s.frames ++ [fr]⟩) else
        match exec p gas (.loop pos) { s with frames := s.frames ++ [fr, fr] } with
        | (s', .ok _) =>
          let s' := { s' with frames := s'.frames.take s.frames.length }
          let (st, v) := s'.stack.pop
          ({ s' with stack := st }, .ok (some v))
        | (s', .error e) => ({ s' with frames := s'.frames.take s.frames.length }, .error e)
    match f with
    | .obj a =>
      match s.heap.get a with
      | some (.native h) =>
        match (callNative (fun g => liftRun (exec p gas (.call g))) h).run.run s with
        | (.ok (), s') =>
          let (st, v) := s'.stack.pop
          ({ s' with stack := st }, .ok (some v))
        | (.error e, s') => fail s' e
      | some (.fn h ar) => enter h ar.toNat none
      | some (.closure h ar _) => enter h ar.toNat (some a)
      | _ => fail s .invalidArgument
    | _ => fail s .invalidArgument

def runLoop (p : Prog) (gas ip : Nat) (s : VmState) : VmState × Except RunErr Unit :=
  match exec p gas (.loop ip) s with
  | (s', .ok _) => (s', .ok ())
  | (s', .error e) => (s', .error e)

/-! ## `Vm::run`, `Vm::clear` -/

structure Outcome where
  err : Option RunErr

/-- every nested `run_function` consumes one unit of gas without dispatching; a new level is entered
    by a dispatched call instruction (at most one per dispatch), or by a native calling a native
    (bounded by the value stack: each level keeps an argument there) -/
def gasFor (s : VmState) (maxInstr : Nat) : Nat := 2 * maxInstr + 3 * s.frameCap + 3 * s.stack.data.length + 16

/-- `Vm::run(program)` (repaired: the frames pushed by the run are popped again) -/
def run (p : Prog) (maxInstr : Nat) (s : VmState) : VmState × Option RunErr :=
  if s.frames.length ≥ s.frameCap then (s, some ⟨.callStackOverflow, 0, []⟩) else
  let depth := s.frames.length
  let s := { s with frames := s.frames ++ [{ src := 0, dst := 0, stackOffset := 0, closure := none }],
                    remaining := maxInstr, dispatches := 0 }
  let (s', r) := runLoop p (gasFor s maxInstr) 0 s
  -- `ObjectGcGuard`s are scoped (RAII): whatever an instruction or host function still held when
  -- an error unwound the run has been released by the time `run` returns
  let s'' := { s' with frames := s'.frames.take depth, guards := s.guards }
  match r with
  | .ok () => (s'', none)
  | .error e => (s'', some e)

/-- `Vm::clear` / `RuntimeData::clear` (repaired: the collection threshold is reset too) -/
def clear (s : VmState) : VmState :=
  let freed := s.heap.objs.foldl (fun n p => n + Heap.chargeOf p.2) 0
  { s with heap := { s.heap with objs := [] }, stack := s.stack.clear, globals := [], frames := [],
           openUpvalues := [], guards := [],
           mem := { s.mem with allocated := s.mem.allocated - freed, nextGc := Mem.initialGc s.mem.limit } }

/-- the error trace: the failing instruction, then the call sites of the active frames, innermost first -/
def errTrace (p : Prog) (e : RunErr) : List Trace :=
  let look (a : Nat) := (p.trace.find? (fun t => t.1 == a)).map (·.2)
  (look e.at_).toList ++ e.frames.reverse.filterMap (fun f => look f.src)

end Cao.Vm
