/-!
# Value stack and bounded stack — code-shaped models

`VStack` follows `cao-lang/src/collections/value_stack.rs` function by function, keeping the
*stale* slots above `count` (the Rust never clears them except where noted).
`BStack` follows `bounded_stack.rs`; `dropped` is the log of destructor calls.

Core-only: this file is linked into the `caodriver` executable.
-/
namespace Cao

inductive StackErr where
  | full
  | outOfBounds
  deriving Repr, DecidableEq

/-- `ValueStack`: `data.length` is the allocated size, `count` the height. -/
structure VStack (α : Type) where
  count : Nat
  data : List α
  deriving Repr

namespace VStack
variable {α : Type} [Inhabited α]

/-- `ValueStack::new(size)` (the Rust asserts `size > 0`; the driver rejects 0). -/
def new (size : Nat) : VStack α := { count := 0, data := List.replicate size default }

def cap (s : VStack α) : Nat := s.data.length

/-- `push`: succeeds iff `count + 1 < data.len()`. -/
def push (s : VStack α) (v : α) : VStack α × Except StackErr Unit :=
  if s.count + 1 < s.data.length then
    ({ count := s.count + 1, data := s.data.set s.count v }, .ok ())
  else (s, .error .full)

/-- `clear`: `count = 0; data[0] = Nil`. -/
def clear (s : VStack α) : VStack α := { count := 0, data := s.data.set 0 default }

/-- `pop` (after `fix:` F1): nil on an empty stack, otherwise the top, whose slot is nil-ed. -/
def pop (s : VStack α) : VStack α × α :=
  if s.count = 0 then (s, default)
  else
    let c := s.count - 1
    ({ count := c, data := s.data.set c default }, s.data.getD c default)

/-- `pop` as it was on the pinned tree (before F1): reads `data[count.saturating_sub(1)]`
    even when `count = 0`, exposing a stale slot. Kept for the counter-example theorem. -/
def popOld (s : VStack α) : VStack α × α :=
  let c := s.count - 1
  ({ count := c, data := s.data.set c default }, s.data.getD c default)

/-- `pop_n::<N>`: `result[i] = data[count-i-1]` for `i < min count N`, rest nil; slots stay. -/
def popN (s : VStack α) (n : Nat) : VStack α × List α :=
  let m := min s.count n
  let got := (List.range m).map (fun i => s.data.getD (s.count - i - 1) default)
  ({ s with count := s.count - m }, got ++ List.replicate (n - m) default)

def popWOffset (s : VStack α) (offset : Nat) : VStack α × α :=
  if s.count ≤ offset then (s, default) else s.pop

/-- `set`: returns the old value. -/
def set (s : VStack α) (i : Nat) (v : α) : VStack α × Except StackErr α :=
  if i > s.count then (s, .error .outOfBounds)
  else if i = s.count then
    match s.push v with
    | (s', .ok ()) => (s', .ok default)
    | (s', .error e) => (s', .error e)
  else ({ s with data := s.data.set i v }, .ok (s.data.getD i default))

def get (s : VStack α) (i : Nat) : α :=
  if i ≥ s.count then default else s.data.getD i default

def last (s : VStack α) : α :=
  if s.count > 0 then s.data.getD (s.count - 1) default else default

def peekLast (s : VStack α) (n : Nat) : α :=
  if s.count > n then s.data.getD (s.count - n - 1) default else default

/-- `clear_until(index)`: returns `last()`, then truncates: `if index < count { count = index }`
(it never raises the height; an `index` at or above the height leaves the stack unchanged). -/
def clearUntil (s : VStack α) (index : Nat) : VStack α × α :=
  ({ s with count := if index < s.count then index else s.count }, s.last)

/-- `as_slice()` / `iter()`. -/
def contents (s : VStack α) : List α := s.data.take s.count

end VStack

/-! ## Bounded stack with drop log -/

structure BStack (τ : Type) where
  cap : Nat
  items : List τ      -- bottom first
  dropped : List τ    -- destructor log, oldest first
  deriving Repr

namespace BStack
variable {τ : Type}

def new (cap : Nat) : BStack τ := { cap := cap, items := [], dropped := [] }

/-- `push(val)`: on `Full` the by-value argument is dropped by the callee's epilogue. -/
def push (s : BStack τ) (v : τ) : BStack τ × Except StackErr Unit :=
  if s.items.length ≥ s.cap then ({ s with dropped := s.dropped ++ [v] }, .error .full)
  else ({ s with items := s.items ++ [v] }, .ok ())

def pop (s : BStack τ) : BStack τ × Option τ :=
  match s.items.getLast? with
  | none => (s, none)
  | some v => ({ s with items := s.items.dropLast }, some v)

def last (s : BStack τ) : Option τ := s.items.getLast?

/-- `clear()`: drops `0..head` in order. -/
def clear (s : BStack τ) : BStack τ :=
  { s with items := [], dropped := s.dropped ++ s.items }

def len (s : BStack τ) : Nat := s.items.length

end BStack
end Cao
