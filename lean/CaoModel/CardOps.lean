import CaoModel.Card
/-!
# Card / module editing API — mirror of `compiler/card.rs` and `compiler/module.rs`

Executable, total functions mirroring, kind by kind,

* `Card::num_children`, `iter_children`, `get_child(_mut)`, `remove_child`, `insert_child`,
  `replace_child`;
* `CardIndex` and its hand-written `Ord`;
* `Module::get_card(_mut)`, `replace_card`, `insert_card`, `remove_card`, `swap_cards`,
  `walk_cards` (+ `visit_children`).

Modelling conventions

* `CardId`s are not modelled; `u32`/`usize` are `Nat` (no truncation of `len() as u32`).
* A `&mut Card` obtained through `get_child_mut(i)` / `get_card_mut(idx)` is modelled by the
  pair *read* (`getChild` / `getCard`) + *write-through* (`setChild` / `setCard`): the mutable
  getters perform exactly the same traversal as the shared ones.
* The `depth` payloads of `CardFetchError` are dropped.
* Only `m.functions` is ever consulted (the Rust methods never descend into `submodules`).
-/
namespace Cao

namespace Card

/-- `Card::num_children` -/
def numChildren : Card → Nat
  | .bin _ _ _ => 2
  | .un _ _ => 1
  | .tri _ _ _ _ => 3
  | .scalarNil => 0
  | .createTable => 0
  | .abort => 0
  | .scalarInt _ => 0
  | .scalarFloat _ => 0
  | .stringLiteral _ => 0
  | .comment _ => 0
  | .function _ => 0
  | .nativeFunction _ => 0
  | .readVar _ => 0
  | .setVar _ _ => 1
  | .setGlobalVar _ _ => 1
  | .callNative _ a => a.length
  | .call _ a => a.length
  | .repeat _ _ _ => 2
  | .forEach _ _ _ _ _ => 2
  | .composite _ cs => cs.length
  | .dynamicCall a _ => 1 + a.length
  | .array cs => cs.length
  | .closure _ cs => cs.length

/-- `Card::iter_children` (the order of the iterator) -/
def children : Card → List Card
  | .bin _ a b => [a, b]
  | .un _ c => [c]
  | .tri _ a b c => [a, b, c]
  | .scalarNil => []
  | .createTable => []
  | .abort => []
  | .scalarInt _ => []
  | .scalarFloat _ => []
  | .stringLiteral _ => []
  | .comment _ => []
  | .function _ => []
  | .nativeFunction _ => []
  | .readVar _ => []
  | .setVar _ v => [v]
  | .setGlobalVar _ v => [v]
  | .callNative _ a => a
  | .call _ a => a
  | .repeat _ n b => [n, b]
  | .forEach _ _ _ it b => [it, b]
  | .composite _ cs => cs
  | .dynamicCall a f => f :: a
  | .array cs => cs
  | .closure _ cs => cs

/-- `Card::get_child` / the lookup part of `get_child_mut` -/
def getChild : Card → Nat → Option Card
  | .composite _ cs, i => cs[i]?
  | .closure _ cs, i => cs[i]?
  | .repeat _ n _, 0 => some n
  | .repeat _ _ b, 1 => some b
  | .repeat _ _ _, _ => none
  | .forEach _ _ _ it _, 0 => some it
  | .forEach _ _ _ _ b, 1 => some b
  | .forEach _ _ _ _ _, _ => none
  | .tri _ a _ _, 0 => some a
  | .tri _ _ b _, 1 => some b
  | .tri _ _ _ c, 2 => some c
  | .tri _ _ _ _, _ => none
  | .bin _ a _, 0 => some a
  | .bin _ _ b, 1 => some b
  | .bin _ _ _, _ => none
  | .un _ c, 0 => some c
  | .un _ _, _ => none
  | .setVar _ v, 0 => some v
  | .setVar _ _, _ => none
  | .setGlobalVar _ v, 0 => some v
  | .setGlobalVar _ _, _ => none
  | .callNative _ a, i => a[i]?
  | .call _ a, i => a[i]?
  | .dynamicCall _ f, 0 => some f
  | .dynamicCall a _, i+1 => a[i]?
  | .array cs, i => cs[i]?
  | .function _, _ => none
  | .nativeFunction _, _ => none
  | .readVar _, _ => none
  | .scalarInt _, _ => none
  | .scalarFloat _, _ => none
  | .stringLiteral _, _ => none
  | .comment _, _ => none
  | .scalarNil, _ => none
  | .createTable, _ => none
  | .abort, _ => none

/-- Writing `x` through the reference returned by `get_child_mut(i)`
(`*c.get_child_mut(i).unwrap() = x`); the identity when `get_child_mut(i)` is `None`. -/
def setChild : Card → Nat → Card → Card
  | .composite ty cs, i, x => .composite ty (cs.set i x)
  | .closure ar cs, i, x => .closure ar (cs.set i x)
  | .repeat v _ b, 0, x => .repeat v x b
  | .repeat v n _, 1, x => .repeat v n x
  | .forEach i k v _ b, 0, x => .forEach i k v x b
  | .forEach i k v it _, 1, x => .forEach i k v it x
  | .tri k _ b c, 0, x => .tri k x b c
  | .tri k a _ c, 1, x => .tri k a x c
  | .tri k a b _, 2, x => .tri k a b x
  | .bin k _ b, 0, x => .bin k x b
  | .bin k a _, 1, x => .bin k a x
  | .un k _, 0, x => .un k x
  | .setVar n _, 0, x => .setVar n x
  | .setGlobalVar n _, 0, x => .setGlobalVar n x
  | .callNative n a, i, x => .callNative n (a.set i x)
  | .call n a, i, x => .call n (a.set i x)
  | .dynamicCall a _, 0, x => .dynamicCall a x
  | .dynamicCall a f, i+1, x => .dynamicCall (a.set i x) f
  | .array cs, i, x => .array (cs.set i x)
  | c, _, _ => c

/-- `Card::remove_child`: `some (parent after the call, removed card)`; `none` = `None`
(the parent is then untouched). Fixed-arity slots are overwritten by a placeholder. -/
def removeChild : Card → Nat → Option (Card × Card)
  | .composite ty cs, i =>
    if cs.length ≤ i then none else (cs[i]?).map (fun r => (.composite ty (cs.eraseIdx i), r))
  | .closure ar cs, i =>
    if cs.length ≤ i then none else (cs[i]?).map (fun r => (.closure ar (cs.eraseIdx i), r))
  | .repeat v n b, 0 => some (.repeat v (.scalarInt 0) b, n)
  | .repeat v n b, 1 => some (.repeat v n .scalarNil, b)
  | .repeat _ _ _, _ => none
  | .forEach i k v it b, 0 => some (.forEach i k v .scalarNil b, it)
  | .forEach i k v it b, 1 => some (.forEach i k v it .scalarNil, b)
  | .forEach _ _ _ _ _, _ => none
  | .callNative n a, i =>
    if i < a.length then (a[i]?).map (fun r => (.callNative n (a.eraseIdx i), r)) else none
  | .call n a, i =>
    if i < a.length then (a[i]?).map (fun r => (.call n (a.eraseIdx i), r)) else none
  | .dynamicCall a f, 0 => some (.dynamicCall a .scalarNil, f)
  | .dynamicCall a f, i+1 =>
    if i < a.length then (a[i]?).map (fun r => (.dynamicCall (a.eraseIdx i) f, r)) else none
  | .array cs, i =>
    if i < cs.length then (cs[i]?).map (fun r => (.array (cs.eraseIdx i), r)) else none
  /- `IfTrue | IfFalse`, `IfElse`, and the big fixed-arity group:
     `let c = self.get_child_mut(i)?; res = mem::replace(c, ScalarNil)` -/
  | c@(.bin _ _ _), i => (c.getChild i).map (fun r => (c.setChild i .scalarNil, r))
  | c@(.un _ _), i => (c.getChild i).map (fun r => (c.setChild i .scalarNil, r))
  | c@(.tri _ _ _ _), i => (c.getChild i).map (fun r => (c.setChild i .scalarNil, r))
  | c@(.setVar _ _), i => (c.getChild i).map (fun r => (c.setChild i .scalarNil, r))
  | c@(.setGlobalVar _ _), i => (c.getChild i).map (fun r => (c.setChild i .scalarNil, r))
  | .function _, _ => none
  | .nativeFunction _, _ => none
  | .readVar _, _ => none
  | .scalarInt _, _ => none
  | .scalarFloat _, _ => none
  | .stringLiteral _, _ => none
  | .comment _, _ => none
  | .scalarNil, _ => none
  | .createTable, _ => none
  | .abort, _ => none

/-- `Card::insert_child`: list-like kinds insert, fixed slots are *replaced*;
`.error card` = `Err(card)` (the parent is then untouched). -/
def insertChild : Card → Nat → Card → Except Card Card
  | .composite ty cs, i, x =>
    if cs.length < i then .error x else .ok (.composite ty (cs.insertIdx i x))
  | .closure ar cs, i, x =>
    if cs.length < i then .error x else .ok (.closure ar (cs.insertIdx i x))
  | .forEach a k v _ b, 0, x => .ok (.forEach a k v x b)
  | .forEach a k v it _, 1, x => .ok (.forEach a k v it x)
  | .forEach _ _ _ _ _, _, x => .error x
  | .callNative n a, i, x =>
    if i ≤ a.length then .ok (.callNative n (a.insertIdx i x)) else .error x
  | .call n a, i, x =>
    if i ≤ a.length then .ok (.call n (a.insertIdx i x)) else .error x
  | .dynamicCall a _, 0, x => .ok (.dynamicCall a x)
  | .dynamicCall a f, i+1, x =>
    if i ≤ a.length then .ok (.dynamicCall (a.insertIdx i x) f) else .error x
  | .array cs, i, x =>
    if i ≤ cs.length then .ok (.array (cs.insertIdx i x)) else .error x
  /- `IfElse` (`children.get_mut(i)`) and the fixed-arity group (`self.get_child_mut(i)`),
     which here also contains `Repeat` and `SetProperty` -/
  | c@(.tri _ _ _ _), i, x =>
    match c.getChild i with | some _ => .ok (c.setChild i x) | none => .error x
  | c@(.bin _ _ _), i, x =>
    match c.getChild i with | some _ => .ok (c.setChild i x) | none => .error x
  | c@(.un _ _), i, x =>
    match c.getChild i with | some _ => .ok (c.setChild i x) | none => .error x
  | c@(.setVar _ _), i, x =>
    match c.getChild i with | some _ => .ok (c.setChild i x) | none => .error x
  | c@(.setGlobalVar _ _), i, x =>
    match c.getChild i with | some _ => .ok (c.setChild i x) | none => .error x
  | c@(.repeat _ _ _), i, x =>
    match c.getChild i with | some _ => .ok (c.setChild i x) | none => .error x
  | .function _, _, x => .error x
  | .nativeFunction _, _, x => .error x
  | .readVar _, _, x => .error x
  | .scalarInt _, _, x => .error x
  | .scalarFloat _, _, x => .error x
  | .stringLiteral _, _, x => .error x
  | .comment _, _, x => .error x
  | .scalarNil, _, x => .error x
  | .createTable, _, x => .error x
  | .abort, _, x => .error x

/-- `Card::replace_child`: `.ok (parent after the call, old child)` or `.error card`. -/
def replaceChild (c : Card) (i : Nat) (x : Card) : Except Card (Card × Card) :=
  match c.getChild i with
  | some old => .ok (c.setChild i x, old)
  | none => .error x

/-- following `get_child` along a list of sub-indices
(`for i in indices { card = card.get_child(i)? }`) -/
def getPath : Card → List Nat → Option Card
  | c, [] => some c
  | c, i :: rest => match c.getChild i with
    | none => none
    | some ch => getPath ch rest

/-- writing through the reference reached by following `get_child_mut` along a path;
the identity if the path cannot be followed. -/
def setPath : Card → List Nat → Card → Card
  | _, [], x => x
  | c, i :: rest, x => match c.getChild i with
    | none => c
    | some ch => c.setChild i (setPath ch rest x)

/-- one step of `visit_children`'s loop body for child number `k`: report the child under
sub-index `k`, then everything `visit_children(child, ..)` reports, prefixed by `k`.
`ds` is the (relative) report of the recursive call. -/
def node (k : Nat) (c : Card) (ds : List (List Nat × Card)) : List (List Nat × Card) :=
  ([k], c) :: ds.map (fun pd => (k :: pd.1, pd.2))

mutual
  /-- `visit_children(card, id, op)`: the sequence of `(sub-index path relative to card, child)`
  reported to `op`, depth first, children in `iter_children` order. -/
  def descendants : Card → List (List Nat × Card)
    | .bin _ a b => node 0 a (descendants a) ++ node 1 b (descendants b)
    | .un _ c => node 0 c (descendants c)
    | .tri _ a b c => node 0 a (descendants a) ++ (node 1 b (descendants b) ++ node 2 c (descendants c))
    | .setVar _ v => node 0 v (descendants v)
    | .setGlobalVar _ v => node 0 v (descendants v)
    | .callNative _ a => descList 0 a
    | .call _ a => descList 0 a
    | .repeat _ n b => node 0 n (descendants n) ++ node 1 b (descendants b)
    | .forEach _ _ _ it b => node 0 it (descendants it) ++ node 1 b (descendants b)
    | .composite _ cs => descList 0 cs
    | .dynamicCall a f => node 0 f (descendants f) ++ descList 1 a
    | .array cs => descList 0 cs
    | .closure _ cs => descList 0 cs
    | .scalarNil => []
    | .createTable => []
    | .abort => []
    | .scalarInt _ => []
    | .scalarFloat _ => []
    | .stringLiteral _ => []
    | .comment _ => []
    | .function _ => []
    | .nativeFunction _ => []
    | .readVar _ => []
  /-- the `enumerate()` loop over a slice of cards, first sub-index `k` -/
  def descList : Nat → List Card → List (List Nat × Card)
    | _, [] => []
    | k, c :: cs => node k c (descendants c) ++ descList (k + 1) cs
end

mutual
  /-- structural equality of cards (used by the driver's `walkcheck`) -/
  def beq : Card → Card → Bool
    | .bin k a b, .bin k' a' b' => decide (k = k') && beq a a' && beq b b'
    | .un k c, .un k' c' => decide (k = k') && beq c c'
    | .tri k a b c, .tri k' a' b' c' => decide (k = k') && beq a a' && beq b b' && beq c c'
    | .scalarNil, .scalarNil => true
    | .createTable, .createTable => true
    | .abort, .abort => true
    | .scalarInt i, .scalarInt i' => decide (i = i')
    | .scalarFloat i, .scalarFloat i' => decide (i = i')
    | .stringLiteral s, .stringLiteral s' => decide (s = s')
    | .comment s, .comment s' => decide (s = s')
    | .function s, .function s' => decide (s = s')
    | .nativeFunction s, .nativeFunction s' => decide (s = s')
    | .readVar s, .readVar s' => decide (s = s')
    | .setVar s v, .setVar s' v' => decide (s = s') && beq v v'
    | .setGlobalVar s v, .setGlobalVar s' v' => decide (s = s') && beq v v'
    | .callNative s a, .callNative s' a' => decide (s = s') && beqList a a'
    | .call s a, .call s' a' => decide (s = s') && beqList a a'
    | .repeat i n b, .repeat i' n' b' => decide (i = i') && beq n n' && beq b b'
    | .forEach i k v it b, .forEach i' k' v' it' b' =>
      decide (i = i') && decide (k = k') && decide (v = v') && beq it it' && beq b b'
    | .composite s a, .composite s' a' => decide (s = s') && beqList a a'
    | .dynamicCall a f, .dynamicCall a' f' => beqList a a' && beq f f'
    | .array a, .array a' => beqList a a'
    | .closure s a, .closure s' a' => decide (s = s') && beqList a a'
    | _, _ => false
  def beqList : List Card → List Card → Bool
    | [], [] => true
    | c :: cs, c' :: cs' => beq c c' && beqList cs cs'
    | _, _ => false
end

end Card

/-! ## `CardIndex` -/

/-- `CardIndex { function, card_index: FunctionCardIndex { indices } }` -/
structure CardIndex where
  function : Nat
  indices : List Nat
  deriving DecidableEq, Repr

namespace CardIndex

/-- the `for (lhs, rhs) in a.iter().zip(b.iter())` loop of `Ord::cmp`: the first non-`Equal`
comparison, if any -/
def zipCmp : List (Nat × Nat) → Option Ordering
  | [] => none
  | (l, r) :: rest => match compare l r with
    | .eq => zipCmp rest
    | .lt => some .lt
    | .gt => some .gt

/-- `impl Ord for CardIndex` -/
def cmp (a b : CardIndex) : Ordering :=
  match compare a.function b.function with
  | .lt => .lt
  | .gt => .gt
  | .eq =>
    match zipCmp (a.indices.zip b.indices) with
    | some c => c
    | none => compare a.indices.length b.indices.length

instance : Ord CardIndex := ⟨cmp⟩
/-- `lhs < rhs` via `PartialOrd::partial_cmp = Some(cmp)` -/
instance : LT CardIndex := ⟨fun a b => cmp a b = .lt⟩
instance (a b : CardIndex) : Decidable (a < b) := inferInstanceAs (Decidable (cmp a b = .lt))

def toStr (i : CardIndex) : String :=
  ".".intercalate ((i.function :: i.indices).map toString)

/-- the index of the card holding the addressed slot (all sub-indices but the last) -/
def parent (i : CardIndex) : CardIndex := ⟨i.function, i.indices.dropLast⟩

end CardIndex

inductive CardFetchError where
  | functionNotFound | cardNotFound | noSubFunction | invalidIndex
  deriving DecidableEq, Repr

inductive SwapError where
  | fetchError (e : CardFetchError)
  | invalidSwap
  deriving DecidableEq, Repr

/-! ## `Module` -/
namespace Module

def withFunctions (m : Module) (fns : List (String × Func)) : Module :=
  .mk m.submodules fns m.imports

/-- `Module::get_card` (and the traversal of `get_card_mut`) -/
def getCard (m : Module) (idx : CardIndex) : Except CardFetchError Card :=
  match m.functions[idx.function]? with
  | none => .error .functionNotFound
  | some (_, fn) =>
    match idx.indices with
    | [] => .error .invalidIndex          -- `idx.begin()?`
    | i :: rest =>
      match fn.cards[i]? with
      | none => .error .cardNotFound
      | some c =>
        match c.getPath rest with
        | none => .error .cardNotFound
        | some d => .ok d

/-- writing `x` through the reference returned by `get_card_mut(idx)`;
the identity when `get_card_mut(idx)` is an `Err`. -/
def setCard (m : Module) (idx : CardIndex) (x : Card) : Module :=
  match m.functions[idx.function]? with
  | none => m
  | some (name, fn) =>
    match idx.indices with
    | [] => m
    | i :: rest =>
      match fn.cards[i]? with
      | none => m
      | some c =>
        m.withFunctions (m.functions.set idx.function
          (name, { fn with cards := fn.cards.set i (c.setPath rest x) }))

/-- `Module::replace_card`: `get_card_mut(idx).map(|c| mem::replace(c, child))`;
`.ok (module after the call, old card)` -/
def replaceCard (m : Module) (idx : CardIndex) (child : Card) :
    Except CardFetchError (Module × Card) :=
  match m.getCard idx with
  | .error e => .error e
  | .ok old => .ok (m.setCard idx child, old)

/-- `Module::insert_card`; `.ok (module after the call)`; on `.error` nothing was mutated.

For `indices.len() ≥ 2` the loop over `indices[1..(len-1).max(1)]` following `get_child_mut`
from `function.cards[indices[0]]` is the traversal of `get_card_mut` for the parent index
(all sub-indices but the last); `insert_child` is then applied through that reference. -/
def insertCard (m : Module) (idx : CardIndex) (child : Card) : Except CardFetchError Module :=
  match m.functions[idx.function]? with
  | none => .error .functionNotFound
  | some (name, fn) =>
    match idx.indices with
    | [i] =>
      if fn.cards.length < i then .error .cardNotFound
      else .ok (m.withFunctions (m.functions.set idx.function
                  (name, { fn with cards := fn.cards.insertIdx i child })))
    | [] => .error .invalidIndex          -- `idx.begin()?`
    | ind@(_ :: _ :: _) =>
      match m.getCard idx.parent with
      | .error e => .error e
      | .ok p =>
        match p.insertChild (ind.getLast?.getD 0) child with
        | .error _ => .error .cardNotFound
        | .ok p' => .ok (m.setCard idx.parent p')

/-- `Module::remove_card`; `.ok (module after the call, removed card)` -/
def removeCard (m : Module) (idx : CardIndex) : Except CardFetchError (Module × Card) :=
  match m.functions[idx.function]? with
  | none => .error .functionNotFound
  | some (name, fn) =>
    match idx.indices with
    | [i] =>
      if fn.cards.length ≤ i then .error .cardNotFound
      else match fn.cards[i]? with
        | none => .error .cardNotFound
        | some r => .ok (m.withFunctions (m.functions.set idx.function
                          (name, { fn with cards := fn.cards.eraseIdx i })), r)
    | [] => .error .invalidIndex          -- `idx.begin()?`
    | ind@(_ :: _ :: _) =>
      match m.getCard idx.parent with
      | .error e => .error e
      | .ok p =>
        match p.removeChild (ind.getLast?.getD 0) with
        | none => .error .cardNotFound
        | some (p', r) => .ok (m.setCard idx.parent p', r)

/-- `Module::swap_cards` as a state transformer: (module after the call, result).

The three `.unwrap()`s of the Rust code are the `.error _` branches marked *panic*; the model
answers `InvalidSwap` there and keeps the state reached so far. `C16.swap_error_unchanged`
proves that every `Err` outcome leaves the module unchanged, hence these branches are dead. -/
def swapCardsSt (m : Module) (a b : CardIndex) : Module × Except SwapError Unit :=
  if a = b then
    match m.getCard a with
    | .ok _ => (m, .ok ())
    | .error e => (m, .error (.fetchError e))
  else
    -- `if lhs < rhs { swap(&mut lhs, &mut rhs) }`
    let lhs := if a < b then b else a
    let rhs := if a < b then a else b
    match m.replaceCard rhs .scalarNil with
    | .error e => (m, .error (.fetchError e))
    | .ok (m1, rhsCard) =>
      match m1.getCard lhs with
      | .error _ =>
        -- restore
        match m1.replaceCard rhs rhsCard with
        | .ok (m0, _) => (m0, .error .invalidSwap)
        | .error _ => (m1, .error .invalidSwap)      -- panic
      | .ok _ =>
        match m1.replaceCard lhs rhsCard with
        | .error _ => (m1, .error .invalidSwap)      -- panic
        | .ok (m2, lhsCard) =>
          match m2.replaceCard rhs lhsCard with
          | .error _ => (m2, .error .invalidSwap)    -- panic
          | .ok (m3, _) => (m3, .ok ())

/-- result-only view of `swap_cards` -/
def swapCards (m : Module) (a b : CardIndex) : Except SwapError Module :=
  match m.swapCardsSt a b with
  | (m', .ok ()) => .ok m'
  | (_, .error e) => .error e

/-- the outer loops of `walk_cards` from function number `i` on -/
def walkFns : Nat → List (String × Func) → List (CardIndex × Card)
  | _, [] => []
  | i, (_, f) :: rest =>
    (Card.descList 0 f.cards).map (fun pd => (⟨i, pd.1⟩, pd.2)) ++ walkFns (i + 1) rest

/-- `Module::walk_cards`: the sequence of `(index, card)` passed to `op` -/
def walk (m : Module) : List (CardIndex × Card) := walkFns 0 m.functions

end Module
end Cao
