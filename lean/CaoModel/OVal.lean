import CaoModel.Value
import CaoModel.F64
import CaoModel.Hash
/-!
# Deep ("owned") values and the value-level operations

`OVal` is the deep copy of a runtime value (what `OwnedValue::try_from` produces, extended
with function values): the heap graph below an *acyclic* `Val` unfolded into a tree. Equality,
hashing, ordering, truthiness and arithmetic of `cao_lang::value::Value` are defined on these
trees exactly as `value.rs` / `cao_lang_object.rs` compute them by recursion over the heap.
-/
namespace Cao

inductive OVal where
  | nil
  | int (i : Int64)
  | real (bits : UInt64)
  | str (bytes : List UInt8)
  | table (entries : List (OVal × OVal))
  | fn (handle : UInt32) (arity : UInt32)
  | native (handle : UInt32)
  | closure (handle : UInt32) (arity : UInt32)

namespace OVal

instance : Inhabited OVal := ⟨.nil⟩

mutual
  def beqO : OVal → OVal → Bool
    | .nil, .nil => true
    | .int a, .int b => a == b
    | .real a, .real b => a == b
    | .str a, .str b => a == b
    | .table a, .table b => beqL a b
    | .fn h a, .fn h' a' => h == h' && a == a'
    | .native h, .native h' => h == h'
    | .closure h a, .closure h' a' => h == h' && a == a'
    | _, _ => false
  def beqL : List (OVal × OVal) → List (OVal × OVal) → Bool
    | [], [] => true
    | (k, v) :: r, (k', v') :: r' => beqO k k' && beqO v v' && beqL r r'
    | _, _ => false
end

/-- object length: `CaoLangObject::len` -/
def len : OVal → Nat
  | .str b => b.length
  | .table es => es.length
  | _ => 0

def isObj : OVal → Bool
  | .nil | .int _ | .real _ => false
  | _ => true

variable (F : F64Ops)

/-! ## `PartialEq for Value` / `CaoLangObject` -/
mutual
  /-- `Value::eq` -/
  def veq : OVal → OVal → Bool
    | .nil, .nil => true
    | .int a, .int b => a == b
    | .real a, .real b => F.eq a b
    | .str a, .str b => a == b
    | .table a, .table b => a.length == b.length && veqL a b
    | _, _ => false       -- functions, closures: never equal; mixed kinds: never equal
  /-- the `zip` loop of table equality -/
  def veqL : List (OVal × OVal) → List (OVal × OVal) → Bool
    | (k, v) :: r, (k', v') :: r' => veq k k' && veq v v' && veqL r r'
    | _, _ => true
end

/-! ## `Hash for Value` / `CaoLangObject` as a byte stream into the FNV state -/
mutual
  def hashInto : UInt64 → OVal → UInt64
    | h, .nil => Hash.fnvWrite h [0]
    | h, .int i => Hash.fnvWrite h (Hash.le64 i.toUInt64)
    | h, .real b => Hash.fnvWrite h (Hash.le64 b)
    | h, .str b => Hash.strStream h b
    | h, .table es => hashIntoL h es
    | h, .fn hd ar => Hash.fnvWrite (Hash.fnvWrite h (Hash.le32 hd)) (Hash.le32 ar)
    | h, .native hd => Hash.fnvWrite h (Hash.le32 hd)
    | h, .closure hd ar => Hash.fnvWrite (Hash.fnvWrite h (Hash.le32 hd)) (Hash.le32 ar)
  def hashIntoL : UInt64 → List (OVal × OVal) → UInt64
    | h, [] => h
    | h, (k, v) :: r => hashIntoL (hashInto (hashInto h k) v) r
end

/-- `hash_map::hash(&value)` (0 remapped) -/
def vhash (v : OVal) : UInt64 := Hash.nonZero (hashInto Hash.fnvOffset v)

/-! ## coercions (`TryFrom<Value> for f64 / i64`) -/
def toF64 : OVal → UInt64
  | .real r => r
  | .int i => F.ofInt i
  | .nil => F.ofNat 0
  | o => F.ofNat o.len

def toI64 : OVal → Int64
  | .int i => i
  | .real r => F.toInt r
  | .nil => 0
  | o => Int64.ofNat o.len

def isFloat : OVal → Bool | .real _ => true | _ => false
def isInt : OVal → Bool | .int _ => true | _ => false

inductive Cast where
  | reals (a b : UInt64)
  | ints (a b : Int64)
  | other

/-- `try_cast_match` -/
def castMatch (a b : OVal) : Cast :=
  if isFloat a || isFloat b then .reals (toF64 F a) (toF64 F b)
  else if isInt a || isInt b then .ints (toI64 F a) (toI64 F b)
  else .other

/-- `partial_cmp` as an `Option Ordering` -/
def vcmp (a b : OVal) : Option Ordering :=
  match castMatch F a b with
  | .reals x y => if F.lt x y then some .lt else if F.eq x y then some .eq else if F.lt y x then some .gt else none
  | .ints x y => some (compare x.toInt y.toInt)
  | .other =>
    if isObj a && isObj b then
      if veq F a b then some .eq
      else match compare a.len b.len with
        | .eq => none
        | o => some o
    else none

def vlt (a b : OVal) : Bool := vcmp F a b == some .lt
def vle (a b : OVal) : Bool := match vcmp F a b with | some .lt | some .eq => true | _ => false

/-- `as_bool` -/
def asBool : OVal → Bool
  | .nil => false
  | .int i => i != 0
  | .real r => !(F.eq r (F.ofNat 0))
  | .str b => !b.isEmpty
  | .table es => !es.isEmpty
  | _ => true

inductive ArithOp | add | sub | mul | div

/-- `Add/Sub/Mul/Div for Value`. Integer `+ - *` use wrapping arithmetic (after the overflow
    fix); `div` of two integers is a real division of the converted operands. -/
def arith (op : ArithOp) (a b : OVal) : OVal :=
  match castMatch F a b, op with
  | .reals x y, .add => .real (F.add x y)
  | .reals x y, .sub => .real (F.sub x y)
  | .reals x y, .mul => .real (F.mul x y)
  | .reals x y, .div => .real (F.div x y)
  | .ints x y, .add => .int (x + y)
  | .ints x y, .sub => .int (x - y)
  | .ints x y, .mul => .int (x * y)
  | .ints x y, .div => .real (F.div (F.ofInt x) (F.ofInt y))
  | .other, _ => .nil

/-! ## token syntax (no spaces): n | i<int> | r<hex16> | s<hex> | t[k:v,k:v] | f<h>/<a> | N<h> | c<h>/<a> -/

partial def toTok : OVal → String
  | .nil => "n"
  | .int i => "i" ++ toString i.toInt
  | .real b => "r" ++ Val.hexOfNat b.toNat 16
  | .str b => "s" ++ String.join (b.map (fun x => Val.hexOfNat x.toNat 2))
  | .table es => "t[" ++ ",".intercalate (es.map (fun (k, v) => toTok k ++ ":" ++ toTok v)) ++ "]"
  | .fn h a => "f" ++ toString h.toNat ++ "/" ++ toString a.toNat
  | .native h => "N" ++ toString h.toNat
  | .closure h a => "c" ++ toString h.toNat ++ "/" ++ toString a.toNat

def takeWhileC (p : Char → Bool) : List Char → List Char × List Char
  | [] => ([], [])
  | c :: r => if p c then let (a, b) := takeWhileC p r; (c :: a, b) else ([], c :: r)

def isHex (c : Char) : Bool := (Val.hexVal? c).isSome
def isDigitOrMinus (c : Char) : Bool := c.isDigit || c == '-'

def bytesOfHex (cs : List Char) : Option (List UInt8) :=
  match cs with
  | a :: b :: r => match Val.hexVal? a, Val.hexVal? b, bytesOfHex r with
      | some x, some y, some t => some (UInt8.ofNat (x * 16 + y) :: t)
      | _, _, _ => none
  | [] => some []
  | _ => none

/-- recursive-descent parser with fuel = input length -/
def parse : Nat → List Char → Option (OVal × List Char)
  | 0, _ => none
  | fuel+1, cs =>
    match cs with
    | 'n' :: r => some (.nil, r)
    | 'i' :: r =>
      let (d, r') := takeWhileC isDigitOrMinus r
      (String.ofList d).toInt?.map (fun i => (.int (Int64.ofInt i), r'))
    | 'r' :: r =>
      let (d, r') := takeWhileC isHex r
      (Val.natOfHex? (String.ofList d)).map (fun n => (.real (UInt64.ofNat n), r'))
    | 's' :: r =>
      let (d, r') := takeWhileC isHex r
      (bytesOfHex d).map (fun b => (.str b, r'))
    | 'f' :: r =>
      let (d, r') := takeWhileC Char.isDigit r
      match r' with
      | '/' :: r'' =>
        let (e, r3) := takeWhileC Char.isDigit r''
        match (String.ofList d).toNat?, (String.ofList e).toNat? with
        | some h, some a => some (.fn (UInt32.ofNat h) (UInt32.ofNat a), r3)
        | _, _ => none
      | _ => none
    | 'c' :: r =>
      let (d, r') := takeWhileC Char.isDigit r
      match r' with
      | '/' :: r'' =>
        let (e, r3) := takeWhileC Char.isDigit r''
        match (String.ofList d).toNat?, (String.ofList e).toNat? with
        | some h, some a => some (.closure (UInt32.ofNat h) (UInt32.ofNat a), r3)
        | _, _ => none
      | _ => none
    | 'N' :: r =>
      let (d, r') := takeWhileC Char.isDigit r
      (String.ofList d).toNat?.map (fun h => (.native (UInt32.ofNat h), r'))
    | 't' :: '[' :: r =>
      let rec entries (f : Nat) (cs : List Char) (acc : List (OVal × OVal)) : Option (List (OVal × OVal) × List Char) :=
        match f with
        | 0 => none
        | f+1 =>
          match cs with
          | ']' :: r => some (acc.reverse, r)
          | ',' :: r => entries f r acc
          | _ =>
            match parse fuel cs with
            | some (k, ':' :: r1) =>
              match parse fuel r1 with
              | some (v, r2) => entries f r2 ((k, v) :: acc)
              | none => none
            | _ => none
      (entries (fuel + 1) r []).map (fun (es, r') => (.table es, r'))
    | _ => none

def ofTok? (s : String) : Option OVal :=
  match parse (s.length + 1) s.toList with
  | some (v, []) => some v
  | _ => none

/-! ## decidable (structural) equality — the key identity used for table keys -/

mutual
  theorem beqO_eq : ∀ (a b : OVal), beqO a b = true → a = b
    | .nil, .nil, _ => rfl
    | .int a, .int b, h => by simp [beqO] at h; rw [h]
    | .real a, .real b, h => by simp [beqO] at h; rw [h]
    | .str a, .str b, h => by simp [beqO] at h; rw [h]
    | .table a, .table b, h => by simp only [beqO] at h; rw [beqL_eq a b h]
    | .fn h a, .fn h' a', hh => by simp [beqO] at hh; rw [hh.1, hh.2]
    | .native h, .native h', hh => by simp [beqO] at hh; rw [hh]
    | .closure h a, .closure h' a', hh => by simp [beqO] at hh; rw [hh.1, hh.2]
    | .nil, .int _, h | .nil, .real _, h | .nil, .str _, h | .nil, .table _, h | .nil, .fn _ _, h | .nil, .native _, h | .nil, .closure _ _, h => by simp [beqO] at h
    | .int _, .nil, h | .int _, .real _, h | .int _, .str _, h | .int _, .table _, h | .int _, .fn _ _, h | .int _, .native _, h | .int _, .closure _ _, h => by simp [beqO] at h
    | .real _, .nil, h | .real _, .int _, h | .real _, .str _, h | .real _, .table _, h | .real _, .fn _ _, h | .real _, .native _, h | .real _, .closure _ _, h => by simp [beqO] at h
    | .str _, .nil, h | .str _, .int _, h | .str _, .real _, h | .str _, .table _, h | .str _, .fn _ _, h | .str _, .native _, h | .str _, .closure _ _, h => by simp [beqO] at h
    | .table _, .nil, h | .table _, .int _, h | .table _, .real _, h | .table _, .str _, h | .table _, .fn _ _, h | .table _, .native _, h | .table _, .closure _ _, h => by simp [beqO] at h
    | .fn _ _, .nil, h | .fn _ _, .int _, h | .fn _ _, .real _, h | .fn _ _, .str _, h | .fn _ _, .table _, h | .fn _ _, .native _, h | .fn _ _, .closure _ _, h => by simp [beqO] at h
    | .native _, .nil, h | .native _, .int _, h | .native _, .real _, h | .native _, .str _, h | .native _, .table _, h | .native _, .fn _ _, h | .native _, .closure _ _, h => by simp [beqO] at h
    | .closure _ _, .nil, h | .closure _ _, .int _, h | .closure _ _, .real _, h | .closure _ _, .str _, h | .closure _ _, .table _, h | .closure _ _, .fn _ _, h | .closure _ _, .native _, h => by simp [beqO] at h
  theorem beqL_eq : ∀ (a b : List (OVal × OVal)), beqL a b = true → a = b
    | [], [], _ => rfl
    | (k, v) :: r, (k', v') :: r', h => by
        simp only [beqL, Bool.and_eq_true] at h
        rw [beqO_eq k k' h.1.1, beqO_eq v v' h.1.2, beqL_eq r r' h.2]
    | [], _ :: _, h => by simp [beqL] at h
    | _ :: _, [], h => by simp [beqL] at h
end

mutual
  theorem beqO_refl : ∀ (a : OVal), beqO a a = true
    | .nil => rfl
    | .int a => by simp [beqO]
    | .real a => by simp [beqO]
    | .str a => by simp [beqO]
    | .table a => by simp only [beqO]; exact beqL_refl a
    | .fn h a => by simp [beqO]
    | .native h => by simp [beqO]
    | .closure h a => by simp [beqO]
  theorem beqL_refl : ∀ (a : List (OVal × OVal)), beqL a a = true
    | [] => rfl
    | (k, v) :: r => by simp only [beqL, beqO_refl k, beqO_refl v, beqL_refl r]; rfl
end

instance : DecidableEq OVal := fun a b =>
  if h : beqO a b = true then isTrue (beqO_eq a b h)
  else isFalse (fun e => h (e ▸ beqO_refl a))

end OVal
end Cao
