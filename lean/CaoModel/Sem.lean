import CaoModel.Card
import CaoModel.OVal
import CaoModel.Compiler
/-!
# Reference semantics of the card language (the SPEC of C01 / C06 / C08 / C09 / C18)

A definitional, fuel-indexed big-step interpreter (total: every definition is structurally
recursive; the only recursion over `fuel` is the pair `eval`/`exec`, list traversals, loops and
host functions are higher-order helpers that receive the already fuel-applied evaluator) that works directly on the source cards:
no bytecode, no stack slots, no upvalues. Local variables are reference cells in a store
(closures capture the cells of the enclosing scopes), globals are named, tables are
insertion-ordered association lists keyed by the deep value of the key, calls bind the
supplied arguments to the parameters in *reverse* declaration order (the language's
convention), name resolution follows the documented lookup order over the module tree.

The interpreter has no machine resources: no stack limits, no memory limit, no instruction
budget. Where the language leaves the behaviour to the implementation (reading a global that
was never written, calling a function value with the wrong number of arguments, `Return`
from `main`) the result is `unspecified` and the oracle abstains.
-/
namespace Cao.Sem
open Cao

inductive Err where
  | invalidArgument | procedureNotFound | varNotFound | missingArgument
  | taskFailure (name : String) (inner : Err)
  | assertionError | badReturn
  deriving Repr

def Err.name : Err → String
  | .invalidArgument => "InvalidArgument" | .procedureNotFound => "ProcedureNotFound"
  | .varNotFound => "VarNotFound" | .missingArgument => "MissingArgument"
  | .taskFailure n i => "TaskFailure(" ++ n ++ "):" ++ i.name
  | .assertionError => "AssertionError" | .badReturn => "BadReturn"

/-- a function of the flattened program -/
structure FnDef where
  fullName : String
  ns : List String
  imports : List (String × String)
  params : List String
  cards : List Card
  deriving Inhabited

inductive SObj where
  | table (entries : List (Val × Val))
  | str (bytes : List UInt8)
  | fn (idx : Nat)                                   -- index into the program's functions
  | native (name : String)
  | closure (params : List String) (cards : List Card) (env : List (List (String × Nat))) (home : Nat)

structure St where
  objs : Array SObj := #[]
  cells : Array Val := #[]
  globals : List (String × Val) := []
  log : List String := []
  /-- a value-producing card was executed in statement position (its value was discarded) -/
  stmtValue : Bool := false
  /-- number of script-function calls so far (bounds the work of the evaluator: the machine
      needs at least three instructions per call, so a run with more calls than `callLimit`
      cannot complete within the budget the correspondence check uses) -/
  calls : Nat := 0
  /-- a call supplied fewer arguments than the callee declares (reported as `MissingArgument`;
      the implementation lets the callee take the caller's most recent values: known finding K4) -/
  fewArgs : Bool := false

/-- how an evaluation ends -/
inductive Res (α : Type) where
  | outOfFuel
  | ok (a : α)
  | ret (v : Val)            -- `Return` travelling up to the enclosing call
  | exit                     -- `Abort`: the program stops successfully
  | err (e : Err)
  | unspecified (why : String)
  deriving Inhabited

abbrev Env := List (List (String × Nat))   -- scopes of the current function, innermost first

structure Ctx where
  fns : Array FnDef
  /-- the function whose body is being evaluated (for name resolution) -/
  home : Nat
  /-- scopes of the *enclosing* functions of a closure body (captured by reference) -/
  outer : Env

def deep (s : St) : Nat → Val → OVal
  | _, .nil => .nil
  | _, .int i => .int i
  | _, .real b => .real b
  | 0, .obj _ => .nil
  | fuel+1, .obj a =>
    match s.objs[a]? with
    | some (.table es) => .table (es.map (fun (k, v) => (deep s fuel k, deep s fuel v)))
    | some (.str b) => .str b
    -- function values are opaque in observations
    | some (.fn _) => .fn 0 0
    | some (.native _) => .native 0
    | some (.closure _ _ _ _) => .closure 0 0
    | none => .nil

def deepV (s : St) (v : Val) : OVal := deep s (s.objs.size + 1) v

def F := hostF64

def truthy (s : St) (v : Val) : Bool := OVal.asBool F (deepV s v)

def newObj (s : St) (o : SObj) : St × Val := ({ s with objs := s.objs.push o }, .obj s.objs.size)
def newCell (s : St) (v : Val) : St × Nat := ({ s with cells := s.cells.push v }, s.cells.size)

def lookupEnv (env : Env) (name : String) : Option Nat :=
  env.findSome? (fun scope => (scope.reverse.find? (·.1 == name)).map (·.2))

def boolVal (b : Bool) : Val := .int (if b then 1 else 0)

def tableGet (s : St) (es : List (Val × Val)) (k : Val) : Val :=
  let ck := deepV s k
  ((es.find? (fun e => decide (deepV s e.1 = ck))).map (·.2)).getD .nil

def tableSet (s : St) (es : List (Val × Val)) (k v : Val) : List (Val × Val) :=
  let ck := deepV s k
  if es.any (fun e => decide (deepV s e.1 = ck)) then
    es.map (fun e => if decide (deepV s e.1 = ck) then (e.1, v) else e)
  else es ++ [(k, v)]

def appendKey (s : St) (es : List (Val × Val)) : Int64 :=
  let rec go (fuel : Nat) (i : Int64) : Int64 :=
    match fuel with
    | 0 => i
    | f+1 => if es.any (fun e => decide (deepV s e.1 = OVal.int i)) then go f (i + 1) else i
  go (es.length + 1) (Int64.ofNat es.length)

def asTable (s : St) (v : Val) : Option (Nat × List (Val × Val)) :=
  match v with
  | .obj a => match s.objs[a]? with | some (.table es) => some (a, es) | _ => none
  | _ => none

def setTable (s : St) (a : Nat) (es : List (Val × Val)) : St :=
  { s with objs := s.objs.set! a (.table es) }

/-! ## name resolution (the documented lookup order) -/

def joinNs (ns : List String) (tail : String) : String := String.join (ns.map (· ++ ".")) ++ tail

def findFn (fns : Array FnDef) (full : String) : Option Nat := fns.findIdx? (fun f => f.fullName == full)

/-- absolute path; caller's module; function import; module-prefix import (with `super.`) -/
def resolve (fns : Array FnDef) (home : Nat) (name : String) : Option Nat :=
  match fns[home]? with
  | none => none
  | some h =>
    (findFn fns name).orElse fun _ =>
    (findFn fns (joinNs h.ns name)).orElse fun _ =>
    ((h.imports.find? (fun p => p.1 == name)).bind fun (_, alias_) =>
      let (sd, sfx) := Compiler.superDepth alias_
      if sd > h.ns.length then none else
      findFn fns (joinNs (h.ns.take (h.ns.length - sd)) (sfx.getD alias_))).orElse fun _ =>
    match name.splitOn "." with
    | pre :: rest@(_ :: _) =>
      (h.imports.find? (fun p => p.1 == pre)).bind fun (_, alias_) =>
        let (sd, sfx) := Compiler.superDepth alias_
        if sd > h.ns.length then none else
        findFn fns (joinNs (h.ns.take (h.ns.length - sd)) (sfx.getD alias_ ++ "." ++ ".".intercalate rest))
    | _ => none

/-! ## evaluation -/

structure Frame where
  env : Env          -- scopes of the function being evaluated

/-- bind `params` to `args` by the language's convention: the last declared parameter
    receives the first supplied argument -/
def bindArgs (s : St) (params : List String) (args : List Val) : St × List (String × Nat) :=
  (params.reverse.zip args).foldl (fun (acc : St × List (String × Nat)) (p, a) =>
    let (s', c) := newCell acc.1 a
    (s', acc.2 ++ [(p, c)])) (s, [])

def readVar (cx : Ctx) (env : Env) (s : St) (name : String) : St × Env × Res Val :=
  let (v, props) := match name.splitOn "." with
    | [] => ("", [])
    | v :: ps => (v, ps.filter (fun (q : String) => !q.isEmpty))
  if v.isEmpty then (s, env, .unspecified "empty variable name (compile error)") else
  let base : Res Val :=
    match lookupEnv env v with
    | some c => .ok (s.cells[c]?.getD .nil)
    | none =>
      match lookupEnv cx.outer v with
      | some c => .ok (s.cells[c]?.getD .nil)
      | none =>
        match s.globals.find? (fun (p : String × Val) => p.1 == v) with
        | some (_, x) => .ok x
        | none => .unspecified "read of a global that was never written"
  match base with
  | .ok x =>
    let r := props.foldl (fun (acc : St × Res Val) (p : String) =>
      match acc with
      | (s, .ok tv) =>
        match asTable s tv with
        | some (_, es) =>
          let (s, k) := newObj s (.str p.toUTF8.toList)
          (s, .ok (tableGet s es k))
        | none => (s, .err .invalidArgument)
      | other => other) (s, .ok x)
    (r.1, env, r.2)
  | r => (s, env, r)

/-- evaluate a list of cards left to right with the evaluator `ev` -/
def evalListWith (ev : Env → St → Card → St × Env × Res Val) (env : Env) (s : St) :
    List Card → St × Env × Res (List Val)
  | [] => (s, env, .ok [])
  | c :: cs =>
    match ev env s c with
    | (s, env, .ok v) =>
      match evalListWith ev env s cs with
      | (s, env, .ok vs) => (s, env, .ok (v :: vs))
      | r => r
    | (s, env, .ret v) => (s, env, .ret v)
    | (s, env, .exit) => (s, env, .exit)
    | (s, env, .err e) => (s, env, .err e)
    | (s, env, .unspecified w) => (s, env, .unspecified w)
    | (s, env, .outOfFuel) => (s, env, .outOfFuel)

/-- execute a list of statement cards with the executor `ex` -/
def execListWith (ex : Env → St → Card → St × Env × Res Unit) (env : Env) (s : St) :
    List Card → St × Env × Res Unit
  | [] => (s, env, .ok ())
  | c :: cs =>
    match ex env s c with
    | (s, env, .ok ()) => execListWith ex env s cs
    | r => r

/-- how a function body is run: context of the callee, initial scopes, state, cards -/
abbrev RunBody := Ctx → Env → St → List Card → St × Env × Res Unit
/-- how a host function is called -/
abbrev CallNat := St → String → List Val → St × Res Val

/-- see `St.calls` -/
def callLimit : Nat := 7000

/-- call a function of the program (`.inl idx`) or a closure (`.inr`) with evaluated arguments -/
def callFnWith (rb : RunBody) (fns : Array FnDef) (s : St)
    (f : Sum Nat (List String × List Card × Env × Nat)) (args : List Val) : St × Res Val :=
  let (params, cards, outer, home) := match f with
    | .inl i => match fns[i]? with
      | some d => (d.params, d.cards, ([] : Env), i)
      | none => ([], [], [], 0)
    | .inr (ps, cs, e, h) => (ps, cs, e, h)
  if s.calls ≥ callLimit then (s, .outOfFuel) else
  let s := { s with calls := s.calls + 1 }
  let (s, scope) := bindArgs s params args
  let cx' : Ctx := { fns := fns, home := home, outer := outer }
  match rb cx' [scope] s cards with
  | (s, _, .ok ()) => (s, .ok .nil)
  | (s, _, .ret v) => (s, .ok v)
  | (s, _, .exit) => (s, .exit)
  | (s, _, .err e) => (s, .err e)
  | (s, _, .unspecified w) => (s, .unspecified w)
  | (s, _, .outOfFuel) => (s, .outOfFuel)

def callValueWith (rb : RunBody) (cn : CallNat) (fns : Array FnDef) (s : St) (fv : Val) (args : List Val) : St × Res Val :=
  match fv with
  | .obj a =>
    match s.objs[a]? with
    | some (.fn i) =>
      match fns[i]? with
      | some d =>
        if args.length < d.params.length then ({ s with fewArgs := true }, .err .missingArgument)
        else if d.params.length != args.length then (s, .unspecified "dynamic call with the wrong number of arguments")
        else callFnWith rb fns s (.inl i) args
      | none => (s, .unspecified "bad function index")
    | some (.closure ps cs e h) =>
      if args.length < ps.length then ({ s with fewArgs := true }, .err .missingArgument)
      else if ps.length != args.length then (s, .unspecified "dynamic call with the wrong number of arguments")
      else callFnWith rb fns s (.inr (ps, cs, e, h)) args
    | some (.native n) => cn s n args
    | _ => (s, .err .invalidArgument)
  | _ => (s, .err .invalidArgument)

/-- host functions (the harness' fixed family and the stdlib natives, at specification level).
    `d` bounds the nesting of host functions called *by* host functions (`callback`, `__sort`,
    `__min`, `__max` with a host function as their function argument); when it is exhausted the
    result is `outOfFuel` -/
def callNativeD (rb : RunBody) (fns : Array FnDef) : Nat → CallNat
  | 0, s, _, _ => (s, .outOfFuel)
  | d+1, s, name, args =>
    let callValue := callValueWith rb (callNativeD rb fns d) fns
    let wrap (r : St × Res Val) : St × Res Val := match r with
      | (s, .err e) => (s, .err (.taskFailure name e))
      | other => other
    let arity : Option Nat := match name with
      | "__min" | "__max" | "__sort" | "sum2" | "callback" | "pcall" => some 2
      | "__to_array" | "log" | "strlen" | "mktable" => some 1
      | "three" => some 3 | "four" => some 4 | "fail" => some 0
      | _ => none
    match arity with
    | none => (s, .err .procedureNotFound)
    | some n =>
    if args.length != n then (s, .unspecified "native called with the wrong number of arguments") else
    let toI (s : St) (v : Val) : Int64 := OVal.toI64 F (deepV s v)
    match name, args with
    | "log", [v] => ({ s with log := s.log ++ ["log " ++ (deepV s v).toTok] }, .ok .nil)
    | "sum2", [a, b] =>
      ({ s with log := s.log ++ ["sum2 " ++ toString (toI s a).toInt ++ " " ++ toString (toI s b).toInt] },
       .ok (.int (toI s a + toI s b)))
    | "fail", [] => wrap (s, .err .invalidArgument)
    | "strlen", [v] =>
      match v with
      | .obj a => match s.objs[a]? with
        | some (.str b) => (s, .ok (.int (Int64.ofNat b.length)))
        | _ => wrap (s, .err .invalidArgument)
      | _ => wrap (s, .err .invalidArgument)
    | "three", [a, b, c] =>
      ({ s with log := s.log ++ ["three " ++ (deepV s a).toTok ++ " " ++ (deepV s b).toTok ++ " " ++ (deepV s c).toTok] }, .ok a)
    | "four", [a, b, c, d] =>
      ({ s with log := s.log ++ ["four " ++ (deepV s a).toTok ++ " " ++ (deepV s b).toTok ++ " " ++ (deepV s c).toTok ++ " " ++ (deepV s d).toTok] }, .ok d)
    | "mktable", [v] =>
      let (s, k) := newObj s (.str "n".toUTF8.toList)
      let (s, t) := newObj s (.table [(k, v)])
      (s, .ok t)
    | "callback", [f, x] =>
      match wrap (callValue s f [x]) with
      | (s, .ok r) => ({ s with log := s.log ++ ["callback -> " ++ (deepV s r).toTok] }, .ok r)
      | other => other
    | "pcall", [f, x] =>
      -- a protected call: an error of the callee is logged and swallowed
      match callValue s f [x] with
      | (s, .err e) => ({ s with log := s.log ++ ["pcall caught " ++ e.name] }, .ok .nil)
      | other => other
    | "__to_array", [t] =>
      match asTable s t with
      | none => (s, .ok t)
      | some (_, es) =>
        let (s, r) := newObj s (.table (es.zipIdx.map (fun (e, i) => (Val.int (Int64.ofNat i), e.2))))
        (s, .ok r)
    | "__sort", [t, keyFn] =>
      match asTable s t with
      | none => (s, .ok t)
      | some (_, es) =>
        let keyed := es.foldl (fun (acc : St × Res (List (Val × Val × Val))) (k, v) =>
          match acc with
          | (s, .ok l) =>
            match wrap (callValue s keyFn [v, k]) with
            | (s, .ok key) => (s, .ok (l ++ [(key, k, v)]))
            | (s, .ret v) => (s, .ret v) | (s, .exit) => (s, .exit) | (s, .err e) => (s, .err e)
            | (s, .unspecified w) => (s, .unspecified w) | (s, .outOfFuel) => (s, .outOfFuel)
          | other => other) (s, .ok [])
        match keyed with
        | (s, .ok l) =>
          let sorted := l.mergeSort (fun a b => match OVal.vcmp F (deepV s a.1) (deepV s b.1) with
            | some .gt => false | _ => true)
          let (s, r) := newObj s (.table (sorted.foldl (fun es (_, k, v) => tableSet s es k v) []))
          (s, .ok r)
        | (s, .ret v) => (s, .ret v) | (s, .exit) => (s, .exit) | (s, .err e) => (s, .err e)
        | (s, .unspecified w) => (s, .unspecified w) | (s, .outOfFuel) => (s, .outOfFuel)
    | nm, [t, keyFn] =>
      if nm != "__min" && nm != "__max" then (s, .err .procedureNotFound) else
      match asTable s t with
      | none => (s, .ok t)
      | some (_, es) =>
        match es with
        | [] => (s, .ok .nil)
        | _ =>
          let keyed := es.foldl (fun (acc : St × Res (List (Val × Val × Val))) (k, v) =>
            match acc with
            | (s, .ok l) =>
              match wrap (callValue s keyFn [v, k]) with
              | (s, .ok key) => (s, .ok (l ++ [(key, k, v)]))
              | (s, .ret v) => (s, .ret v) | (s, .exit) => (s, .exit) | (s, .err e) => (s, .err e)
              | (s, .unspecified w) => (s, .unspecified w) | (s, .outOfFuel) => (s, .outOfFuel)
            | other => other) (s, .ok [])
          match keyed with
          | (s, .ok l) =>
            -- the first entry whose key is strictly better than every earlier best
            let best := l.foldl (fun (b : Option (Val × Val × Val)) e =>
              match b with
              | none => some e
              | some b =>
                let better := if nm == "__min" then OVal.vlt F (deepV s e.1) (deepV s b.1)
                              else OVal.vlt F (deepV s b.1) (deepV s e.1)
                if better then some e else some b) none
            match best with
            | some (_, k, v) =>
              let (s, ks) := newObj s (.str "key".toUTF8.toList)
              let (s, vs) := newObj s (.str "value".toUTF8.toList)
              let (s, row) := newObj s (.table [(ks, k), (vs, v)])
              (s, .ok row)
            | none => (s, .ok .nil)
          | (s, .ret v) => (s, .ret v) | (s, .exit) => (s, .exit) | (s, .err e) => (s, .err e)
          | (s, .unspecified w) => (s, .unspecified w) | (s, .outOfFuel) => (s, .outOfFuel)
    | _, _ => (s, .err .procedureNotFound)

/-- the iterations of `Repeat`: `counter < n` is re-evaluated with the language's `<` before
    every iteration; `body scope s` executes the body in the loop's scope -/
def repeatLoop (body : List (String × Nat) → St → St × Env × Res Unit) (i : Option String) (nv : Val) :
    Nat → Int64 → St → St × Res Unit
  | 0, _, s => (s, .outOfFuel)
  | gas+1, k, s =>
    if OVal.vlt F (.int k) (deepV s nv) then
      let (s, scope) := match i with
        | some var => let (s, c) := newCell s (.int k); (s, [(var, c)])
        | none => (s, [])
      match body scope s with
      | (s, _, .ok ()) => repeatLoop body i nv gas (k + 1) s
      | (s, _, .ret v) => (s, .ret v)
      | (s, _, .exit) => (s, .exit)
      | (s, _, .err e) => (s, .err e)
      | (s, _, .unspecified w) => (s, .unspecified w)
      | (s, _, .outOfFuel) => (s, .outOfFuel)
    else (s, .ok ())

/-- the iterations of `ForEach` over the table object `a` -/
def forEachLoop (body : List (String × Nat) → St → St × Env × Res Unit) (i k v : Option String) (a : Nat) :
    Nat → Nat → St → St × Res Unit
  | 0, _, s => (s, .outOfFuel)
  | gas+1, idx, s =>
    -- the table is looked at afresh before every iteration
    match s.objs[a]? with
    | some (.table es) =>
      match es[idx]? with
      | none => (s, .ok ())
      | some (key, val) =>
        let bindOne (acc : St × List (String × Nat)) (nm : Option String) (x : Val) :=
          match nm with
          | some n => let (s, c) := newCell acc.1 x; (s, acc.2 ++ [(n, c)])
          | none => acc
        let acc := bindOne (s, []) v val
        let acc := bindOne acc k key
        let acc := bindOne acc i (.int (Int64.ofNat idx))
        match body acc.2 acc.1 with
        | (s, _, .ok ()) => forEachLoop body i k v a gas (idx + 1) s
        | (s, _, .ret v) => (s, .ret v)
        | (s, _, .exit) => (s, .exit)
        | (s, _, .err e) => (s, .err e)
        | (s, _, .unspecified w) => (s, .unspecified w)
        | (s, _, .outOfFuel) => (s, .outOfFuel)
    | _ => (s, .err .assertionError)

mutual
  /-- evaluate a value-producing card -/
  def eval (cx : Ctx) (fuel : Nat) (env : Env) (s : St) (c : Card) : St × Env × Res Val :=
    match fuel with
    | 0 => (s, env, .outOfFuel)
    | fuel+1 =>
    let ev := eval cx fuel
    let evalList := evalListWith (eval cx fuel)
    let rb : RunBody := fun cx' env s cards => execListWith (exec cx' fuel) env s cards
    let callNative : CallNat := callNativeD rb cx.fns (fuel + 8)
    let bin2 (a b : Card) (k : St → Val → Val → St × Res Val) : St × Env × Res Val :=
      match ev env s a with
      | (s, env, .ok va) =>
        match ev env s b with
        | (s, env, .ok vb) => let (s, r) := k s va vb; (s, env, r)
        | (s, env, r) => (s, env, r)
      | (s, env, r) => (s, env, r)
    let arith (op : OVal.ArithOp) (a b : Card) :=
      bin2 a b (fun s x y => (s, .ok (match OVal.arith F op (deepV s x) (deepV s y) with
        | .int i => .int i | .real r => .real r | _ => .nil)))
    let cmp (f : OVal → OVal → Bool) (a b : Card) :=
      bin2 a b (fun s x y => (s, .ok (boolVal (f (deepV s x) (deepV s y)))))
    match c with
    | .scalarNil => (s, env, .ok .nil)
    | .scalarInt i => (s, env, .ok (.int i))
    | .scalarFloat b => (s, env, .ok (.real b))
    | .stringLiteral str => let (s, v) := newObj s (.str str.toUTF8.toList); (s, env, .ok v)
    | .createTable => let (s, v) := newObj s (.table []); (s, env, .ok v)
    | .bin .add a b => arith .add a b
    | .bin .sub a b => arith .sub a b
    | .bin .mul a b => arith .mul a b
    | .bin .div a b => arith .div a b
    | .bin .less a b => cmp (OVal.vlt F) a b
    | .bin .lessOrEq a b => cmp (OVal.vle F) a b
    | .bin .equals a b => cmp (OVal.veq F) a b
    | .bin .notEquals a b => cmp (fun x y => !(OVal.veq F x y)) a b
    | .bin .and a b => bin2 a b (fun s x y => (s, .ok (boolVal (truthy s x && truthy s y))))
    | .bin .or a b => bin2 a b (fun s x y => (s, .ok (boolVal (truthy s x || truthy s y))))
    | .bin .xor a b => bin2 a b (fun s x y => (s, .ok (boolVal (truthy s x != truthy s y))))
    | .un .not a =>
      match ev env s a with
      | (s, env, .ok v) => (s, env, .ok (boolVal (!(truthy s v))))
      | r => r
    | .un .len a =>
      match ev env s a with
      | (s, env, .ok v) =>
        let n : Nat := match v with
          | .nil => 0 | .int _ | .real _ => 1
          | .obj x => match s.objs[x]? with
            | some (.table es) => es.length | some (.str b) => b.length | _ => 0
        (s, env, .ok (.int (Int64.ofNat n)))
      | r => r
    | .bin .getProperty t k =>
      bin2 t k (fun s tv kv => match asTable s tv with
        | some (_, es) => (s, .ok (tableGet s es kv))
        | none => (s, .err .invalidArgument))
    | .bin .get t i =>
      bin2 t i (fun s tv iv => match asTable s tv, iv with
        | some (_, es), .int i =>
          if i.toInt < 0 then (s, .err .invalidArgument) else
          let (k, v) := (es[i.toInt.toNat]?).getD (.nil, .nil)
          let (s, ks) := newObj s (.str "key".toUTF8.toList)
          let (s, vs) := newObj s (.str "value".toUTF8.toList)
          let (s, row) := newObj s (.table [(ks, k), (vs, v)])
          (s, .ok row)
        | _, _ => (s, .err .invalidArgument))
    | .un .popTable t =>
      match ev env s t with
      | (s, env, .ok tv) =>
        match asTable s tv with
        | some (a, es) =>
          match es.getLast? with
          | some (_, v) => (setTable s a es.dropLast, env, .ok v)
          | none => (s, env, .ok .nil)
        | none => (s, env, .err .invalidArgument)
      | r => r
    | .readVar name => readVar cx env s name
    | .function name =>
      match resolve cx.fns cx.home name with
      | some i => let (s, v) := newObj s (.fn i); (s, env, .ok v)
      | none => (s, env, .unspecified "unresolved function (compile error)")
    | .nativeFunction name => let (s, v) := newObj s (.native name); (s, env, .ok v)
    | .closure params cards =>
      let (s, v) := newObj s (.closure params cards (env ++ cx.outer) cx.home)
      (s, env, .ok v)
    | .call name args =>
      match evalList env s args with
      | (s, env, .ok vs) =>
        match resolve cx.fns cx.home name with
        | some i =>
          match cx.fns[i]? with
          | some f =>
            if vs.length < f.params.length then ({ s with fewArgs := true }, env, .err .missingArgument) else
            if vs.length != f.params.length then (s, env, .unspecified "arity mismatch in a static call") else
            let (s, r) := callFnWith rb cx.fns s (.inl i) vs
            (s, env, r)
          | none => (s, env, .unspecified "bad function index")
        | none => (s, env, .unspecified "unresolved function (compile error)")
      | (s, env, .ret v) => (s, env, .ret v)
      | (s, env, .exit) => (s, env, .exit)
      | (s, env, .err e) => (s, env, .err e)
      | (s, env, .unspecified w) => (s, env, .unspecified w)
      | (s, env, .outOfFuel) => (s, env, .outOfFuel)
    | .dynamicCall args f =>
      match evalList env s args with
      | (s, env, .ok vs) =>
        match ev env s f with
        | (s, env, .ok fv) => let (s, r) := callValueWith rb callNative cx.fns s fv vs; (s, env, r)
        | r => r
      | (s, env, .ret v) => (s, env, .ret v)
      | (s, env, .exit) => (s, env, .exit)
      | (s, env, .err e) => (s, env, .err e)
      | (s, env, .unspecified w) => (s, env, .unspecified w)
      | (s, env, .outOfFuel) => (s, env, .outOfFuel)
    | .callNative name args =>
      match evalList env s args with
      | (s, env, .ok vs) => let (s, r) := callNative s name vs; (s, env, r)
      | (s, env, .ret v) => (s, env, .ret v)
      | (s, env, .exit) => (s, env, .exit)
      | (s, env, .err e) => (s, env, .err e)
      | (s, env, .unspecified w) => (s, env, .unspecified w)
      | (s, env, .outOfFuel) => (s, env, .outOfFuel)
    | .array cards =>
      match evalList env s cards with
      | (s, env, .ok vs) =>
        let es := vs.zipIdx.map (fun (v, i) => (Val.int (Int64.ofNat i), v))
        let (s, t) := newObj s (.table es)
        (s, env, .ok t)
      | (s, env, .ret v) => (s, env, .ret v)
      | (s, env, .exit) => (s, env, .exit)
      | (s, env, .err e) => (s, env, .err e)
      | (s, env, .unspecified w) => (s, env, .unspecified w)
      | (s, env, .outOfFuel) => (s, env, .outOfFuel)
    | .composite _ cards =>
      -- a composite in value position yields the value of its (single) value card
      match cards with
      | [c] => ev env s c
      | _ => (s, env, .unspecified "composite card in value position")
    | _ => (s, env, .unspecified ("statement card in value position: " ++ (c.toTok.take 20).toString))

  /-- execute a statement card (net effect on the value stack: none) -/
  def exec (cx : Ctx) (fuel : Nat) (env : Env) (s : St) (c : Card) : St × Env × Res Unit :=
    match fuel with
    | 0 => (s, env, .outOfFuel)
    | fuel+1 =>
    let lift (r : St × Env × Res Val) (k : St → Env → Val → St × Env × Res Unit) : St × Env × Res Unit :=
      match r with
      | (s, env, .ok v) => k s env v
      | (s, env, .ret v) => (s, env, .ret v)
      | (s, env, .exit) => (s, env, .exit)
      | (s, env, .err e) => (s, env, .err e)
      | (s, env, .unspecified w) => (s, env, .unspecified w)
      | (s, env, .outOfFuel) => (s, env, .outOfFuel)
    match c with
    | .comment _ => (s, env, .ok ())
    | .abort => (s, env, .exit)
    | .composite _ cards => execListWith (exec cx fuel) env s cards
    | .un .ret v => lift (eval cx fuel env s v) (fun s env x => (s, env, .ret x))
    | .setGlobalVar name v =>
      lift (eval cx fuel env s v) (fun s env x =>
        if name.isEmpty then (s, env, .unspecified "empty variable name (compile error)") else
        let g := if s.globals.any (·.1 == name) then s.globals.map (fun p => if p.1 == name then (name, x) else p)
                 else s.globals ++ [(name, x)]
        ({ s with globals := g }, env, .ok ()))
    | .setVar name v =>
      lift (eval cx fuel env s v) (fun s env x =>
        match name.splitOn "." with
        | [] | [_] =>
          if name.isEmpty then (s, env, .unspecified "empty variable name (compile error)") else
          match lookupEnv env name with
          | some c => ({ s with cells := s.cells.set! c x }, env, .ok ())
          | none =>
            match lookupEnv cx.outer name with
            | some c => ({ s with cells := s.cells.set! c x }, env, .ok ())
            | none =>
              -- a new local in the innermost scope of the current function
              let (s, c) := newCell s x
              match env with
              | scope :: rest => (s, (scope ++ [(name, c)]) :: rest, .ok ())
              | [] => (s, [[(name, c)]], .ok ())
        | parts =>
          let tname := ".".intercalate parts.dropLast
          match readVar cx env s tname with
          | (s, env, .ok tv) =>
            match asTable s tv with
            | some (a, es) =>
              let (s, k) := newObj s (.str parts.getLast!.toUTF8.toList)
              (setTable s a (tableSet s es k x), env, .ok ())
            | none => (s, env, .err .invalidArgument)
          | (s, env, .ret v) => (s, env, .ret v)
          | (s, env, .exit) => (s, env, .exit)
          | (s, env, .err e) => (s, env, .err e)
          | (s, env, .unspecified w) => (s, env, .unspecified w)
          | (s, env, .outOfFuel) => (s, env, .outOfFuel))
    | .tri .setProperty v t k =>
      lift (eval cx fuel env s v) (fun s env x =>
        lift (eval cx fuel env s t) (fun s env tv =>
          lift (eval cx fuel env s k) (fun s env kv =>
            match asTable s tv with
            | some (a, es) => (setTable s a (tableSet s es kv x), env, .ok ())
            | none => (s, env, .err .invalidArgument))))
    | .bin .appendTable v t =>
      lift (eval cx fuel env s v) (fun s env x =>
        lift (eval cx fuel env s t) (fun s env tv =>
          match asTable s tv with
          | some (a, es) => (setTable s a (es ++ [(.int (appendKey s es), x)]), env, .ok ())
          | none => (s, env, .err .invalidArgument)))
    | .bin .ifTrue cnd body =>
      lift (eval cx fuel env s cnd) (fun s env x =>
        if truthy s x then exec cx fuel env s body else (s, env, .ok ()))
    | .bin .ifFalse cnd body =>
      lift (eval cx fuel env s cnd) (fun s env x =>
        if truthy s x then (s, env, .ok ()) else exec cx fuel env s body)
    | .tri .ifElse cnd a b =>
      lift (eval cx fuel env s cnd) (fun s env x =>
        if truthy s x then exec cx fuel env s a else exec cx fuel env s b)
    | .bin .while cnd body =>
      lift (eval cx fuel env s cnd) (fun s env x =>
        if truthy s x then
          -- variables declared in the body live for one iteration (a fresh innermost scope,
          -- dropped afterwards), as in `repeat` and `for-each`
          match exec cx fuel ([] :: env) s body with
          | (s, _, .ok ()) => exec cx fuel env s c
          | (s, _, r) => (s, env, r)
        else (s, env, .ok ()))
    | .repeat i n body =>
      lift (eval cx fuel env s n) (fun s env nv =>
        let (s, r) := repeatLoop (fun scope s => exec cx fuel (scope :: env) s body) i nv fuel 0 s
        (s, env, r))
    | .forEach i k v iterable body =>
      lift (eval cx fuel env s iterable) (fun s env tv =>
        match asTable s tv with
        | none => (s, env, .err .invalidArgument)
        | some (a, _) =>
          let (s, r) := forEachLoop (fun scope s => exec cx fuel (scope :: env) s body) i k v a fuel 0 s
          (s, env, r))
    | other =>
      -- a value-producing card in statement position: it is evaluated and its value discarded
      -- (recorded in `stmtValue`: outside the well-scoped fragment)
      lift (eval cx fuel env s other) (fun s env _ => ({ s with stmtValue := true }, env, .ok ()))
end

/-- execute a list of statement cards -/
def execList (cx : Ctx) (fuel : Nat) : Env → St → List Card → St × Env × Res Unit :=
  execListWith (exec cx fuel)

mutual
  /-- the functions of a module and (recursively) of its submodules, in declaration order -/
  def flattenFns : Module → List String → List FnDef
    | .mk subs fns imps, ns =>
      let imports := (imps.filterMap (fun imp =>
        match imp.splitOn "." with
        | [] | [_] => none
        | parts => some (parts.getLast!, imp)))
      fns.map (fun (n, f) =>
        { fullName := joinNs ns n, ns := ns, imports := imports, params := f.arguments, cards := f.cards : FnDef }) ++
      flattenSubs subs ns
  def flattenSubs : List (String × Module) → List String → List FnDef
    | [], _ => []
    | (n, s) :: rest, ns => flattenFns s (ns ++ [n]) ++ flattenSubs rest ns
end

structure Outcome where
  result : String
  globals : List (String × OVal)
  log : List String
  /-- a value-producing card was executed in statement position -/
  stmtValue : Bool := false
  /-- some call supplied fewer arguments than its callee declares -/
  fewArgs : Bool := false

/-- run `main` of a program -/
def run (m : Module) (std : Module) (fuel : Nat) : Outcome :=
  let m' := Module.mk (m.submodules ++ [("std", std)]) m.functions m.imports
  let fns := (flattenFns m' []).toArray
  match fns.findIdx? (fun f => f.fullName == "main") with
  | none => { result := "unspecified:no main", globals := [], log := [] }
  | some mainIdx =>
    let cx : Ctx := { fns := fns, home := mainIdx, outer := [] }
    let main := fns[mainIdx]!
    let (s, _, r) := execList cx fuel [[]] {} main.cards
    let res := match r with
      | .ok () | .exit => "ok"
      | .ret _ => "unspecified:return from main"
      | .err e => "err:" ++ e.name
      | .unspecified w => "unspecified:" ++ w
      | .outOfFuel => "unspecified:out of fuel"
    { result := res, globals := s.globals.map (fun (n, v) => (n, deepV s v)), log := s.log,
      stmtValue := s.stmtValue, fewArgs := s.fewArgs }

end Cao.Sem
