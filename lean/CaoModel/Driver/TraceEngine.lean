import CaoModel.Driver.VmEngine
import CaoModel.CardOps
/-! `trc run <moduletok> budget=N`: run a program that is expected to fail and resolve the error
    trace back to source cards through the module-editing API model (`Module.getCard`);
    `trc compile <moduletok>`: the same for a compilation error location. -/
namespace Cao.Driver
open Cao Cao.Compiler Cao.Vm

def withStd (m : Module) : Module := Module.mk (m.submodules ++ [("std", Gen.stdlib)]) m.functions m.imports

def resolveTrace (m : Module) (t : Trace) : String :=
  let sub := t.ns.foldl (fun (acc : Option Module) n =>
    acc.bind (fun m => (m.submodules.find? (fun p => p.1 == n)).map (·.2))) (some (withStd m))
  match sub with
  | none => "no-module"
  | some sm =>
    match Module.getCard sm { function := t.function, indices := t.indices } with
    | .ok c => c.toTok
    | .error _ => "unresolved"

/-- `card`, `epilogue` (the position of a function's implicit epilogue: `[]` or one past the last
    top-level card) or `other` -/
def resolveKind (m : Module) (t : Trace) : String :=
  let sub := t.ns.foldl (fun (acc : Option Module) n =>
    acc.bind (fun m => (m.submodules.find? (fun p => p.1 == n)).map (·.2))) (some (withStd m))
  match sub with
  | none => "other"
  | some sm =>
    match Module.getCard sm { function := t.function, indices := t.indices } with
    | .ok _ => "card"
    | .error _ =>
      match sm.functions[t.function]? with
      | some (_, f) =>
        if t.indices.isEmpty || (t.indices.length == 1 && t.indices.head! == f.cards.length) then "epilogue" else "other"
      | none => "other"

def sweepLoop (m : Module) (p : Prog) (cfg : Config) : Nat → Nat → Nat → Nat → Nat → String → List String → Nat × Nat × Nat × String × List String
  | 0, _, errs, epi, other, first, trs => (errs, epi, other, first, trs)
  | k+1, b, errs, epi, other, first, trs =>
    let (_, e) := run p b (VmState.fresh cfg)
    match e with
    | none => sweepLoop m p cfg k (b + 1) errs epi other first trs
    | some e =>
      let tr := errTrace p e
      let trs := trs ++ [toString b ++ ":" ++ e.kind.name ++ ":" ++ ";".intercalate (tr.map showTrace)]
      let kinds := tr.map (resolveKind m)
      let epi' := epi + (kinds.filter (· == "epilogue")).length
      let other' := other + (kinds.filter (· == "other")).length
      let first' := if first.isEmpty then
          match (tr.zip kinds).zipIdx.find? (fun x => x.1.2 != "card") with
          | some ((t, _), i) => " first=budget:" ++ toString b ++ ",entry:" ++ toString i ++ "," ++ e.kind.name ++ ":" ++ showTrace t
          | none => ""
        else first
      sweepLoop m p cfg k (b + 1) (errs + 1) epi' other' first' trs

def trcStep (st : VmEngState) (args : List String) : String :=
  match args with
  | "run" :: m :: rest =>
    match Module.ofTok? m with
    | none => "bad-op"
    | some m =>
      match compile m Gen.stdlib with
      | .error e => "compile-" ++ showCErr e
      | .ok prog =>
        let p := Prog.ofProgram prog
        -- an earlier run on the same machine, not cleared (`prev=<module>`)
        let s0 : VmState :=
          match (rest.find? (fun a => a.startsWith "prev=")).bind (fun a => Module.ofTok? (a.drop 5).toString) with
          | some pm =>
            match compile pm Gen.stdlib with
            | .ok pprog => (run (Prog.ofProgram pprog) (kv rest "budget" Gen.maxInstr) (VmState.fresh st.cfg)).1
            | .error _ => VmState.fresh st.cfg
          | none => VmState.fresh st.cfg
        let (_, e) := run p (kv rest "budget" Gen.maxInstr) s0
        match e with
        | none => "ok"
        | some e =>
          "err:" ++ e.kind.name ++ " cards=[" ++ " ; ".intercalate ((errTrace p e).map (resolveTrace m)) ++ "]"
  | "sweep" :: m :: rest =>
    match Module.ofTok? m with
    | none => "bad-op"
    | some m =>
      match compile m Gen.stdlib with
      | .error e => "compile-" ++ showCErr e
      | .ok prog =>
        let p := Prog.ofProgram prog
        let cfg : Config := { memLimit := kv rest "mem" 409600, stackSize := kv rest "stack" 256, callStackSize := 64 }
        let (errs, epi, other, first, trs) := sweepLoop m p cfg (kv rest "upto" 50) 1 0 0 0 "" []
        "sweep errors=" ++ toString errs ++ " unresolved_epilogue=" ++ toString epi ++ " unresolved_other=" ++ toString other ++ first ++
          " traces=[" ++ ",".intercalate trs ++ "]"
  | "compile" :: m :: _ =>
    match Module.ofTok? m with
    | none => "bad-op"
    | some m =>
      match compile m Gen.stdlib with
      | .ok _ => "ok"
      | .error (.err k (some t)) => "err:" ++ k.name ++ " card=" ++ resolveTrace m t
      | .error (.err k none) => "err:" ++ k.name ++ " card=-"
      | .error (.panic w) => "panic:" ++ w
  | _ => "bad-op"

end Cao.Driver
