import CaoModel.Driver.VmEngine
import CaoModel.CardOps
/-! `trc run <moduletok> budget=N`: run a program that is expected to fail and resolve the error
    trace back to source cards through the module-editing API model (`Module.getCard`);
    `trc compile <moduletok>`: the same for a compilation error location. -/
namespace Cao.Driver
open Cao Cao.Compiler Cao.Vm

def withStd (m : Module) : Module := Module.mk (m.submodules ++ [("std", Gen.stdlib)]) m.functions m.imports

def resolveTrace (m : Module) (t : Trace) : String :=
  let sub := t.ns.foldl (fun (acc : Option Module) n =>
    acc.bind (fun m => (m.submodules.find? (fun p => p.1 == n)).map (·.2))) (some (withStd m))
  match sub with
  | none => "no-module"
  | some sm =>
    match Module.getCard sm { function := t.function, indices := t.indices } with
    | .ok c => c.toTok
    | .error _ => "unresolved"

def trcStep (st : VmEngState) (args : List String) : String :=
  match args with
  | "run" :: m :: rest =>
    match Module.ofTok? m with
    | none => "bad-op"
    | some m =>
      match compile m Gen.stdlib with
      | .error e => "compile-" ++ showCErr e
      | .ok prog =>
        let p := Prog.ofProgram prog
        let (_, e) := run p (kv rest "budget" Gen.maxInstr) (VmState.fresh st.cfg)
        match e with
        | none => "ok"
        | some e =>
          "err:" ++ e.kind.name ++ " cards=[" ++ " ; ".intercalate ((errTrace p e).map (resolveTrace m)) ++ "]"
  | "compile" :: m :: _ =>
    match Module.ofTok? m with
    | none => "bad-op"
    | some m =>
      match compile m Gen.stdlib with
      | .ok _ => "ok"
      | .error (.err k (some t)) => "err:" ++ k.name ++ " card=" ++ resolveTrace m t
      | .error (.err k none) => "err:" ++ k.name ++ " card=-"
      | .error (.panic w) => "panic:" ++ w
  | _ => "bad-op"

end Cao.Driver
