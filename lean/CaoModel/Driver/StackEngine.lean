import CaoModel.Stack
import CaoModel.Value
/-! Line protocol for the `stack` (ValueStack) and `bstack` (BoundedStack) engines. -/
namespace Cao.Driver
open Cao

def showVals (l : List Val) : String := "[" ++ " ".intercalate (l.map Val.toTok) ++ "]"

def showErr : StackErr → String
  | .full => "err:Full"
  | .outOfBounds => "err:OutOfBounds"

/-- `none` state = not created. Returns new state and the output line. -/
def stackStep (st : Option (VStack Val)) (args : List String) : Option (VStack Val) × String :=
  match st, args with
  | _, ["new", n] => match n.toNat? with
      | some (k+1) => (some (VStack.new (k+1)), "ok")
      | _ => (st, "bad-op")
  | some s, ["push", v] => match Val.ofTok? v with
      | some v => match s.push v with
          | (s', .ok ()) => (some s', "ok")
          | (s', .error e) => (some s', showErr e)
      | none => (st, "bad-op")
  | some s, ["pop"] => let (s', v) := s.pop; (some s', v.toTok)
  | some s, ["pop_n", n] => match n.toNat? with
      | some n => let (s', vs) := s.popN n; (some s', showVals vs)
      | none => (st, "bad-op")
  | some s, ["pop_w_offset", n] => match n.toNat? with
      | some n => let (s', v) := s.popWOffset n; (some s', v.toTok)
      | none => (st, "bad-op")
  | some s, ["set", i, v] => match i.toNat?, Val.ofTok? v with
      | some i, some v => match s.set i v with
          | (s', .ok old) => (some s', old.toTok)
          | (s', .error e) => (some s', showErr e)
      | _, _ => (st, "bad-op")
  | some s, ["get", i] => match i.toNat? with
      | some i => (st, (s.get i).toTok)
      | none => (st, "bad-op")
  | some s, ["last"] => (st, s.last.toTok)
  | some s, ["peek_last", n] => match n.toNat? with
      | some n => (st, (s.peekLast n).toTok)
      | none => (st, "bad-op")
  | some s, ["clear"] => (some s.clear, "ok")
  | some s, ["clear_until", n] => match n.toNat? with
      | some n => let (s', v) := s.clearUntil n; (some s', v.toTok)
      | none => (st, "bad-op")
  | some s, ["contents"] => (st, showVals s.contents)
  | some s, ["len"] => (st, toString s.count)
  | _, _ => (st, "bad-op")

def showIds (l : List Nat) : String := "[" ++ " ".intercalate (l.map toString) ++ "]"

def bstackStep (st : Option (BStack Nat)) (args : List String) : Option (BStack Nat) × String :=
  match st, args with
  | _, ["new", n] => match n.toNat? with
      | some k => (some (BStack.new k), "ok")
      | none => (st, "bad-op")
  | some s, ["push", v] => match v.toNat? with
      | some v => match s.push v with
          | (s', .ok ()) => (some s', "ok")
          | (s', .error e) => (some s', showErr e)
      | none => (st, "bad-op")
  | some s, ["pop"] => match s.pop with
      | (s', some v) => (some s', toString v)
      | (s', none) => (some s', "none")
  | some s, ["last"] => (st, match s.last with | some v => toString v | none => "none")
  | some s, ["clear"] => (some s.clear, "ok")
  | some s, ["len"] => (st, toString s.len)
  | some s, ["items"] => (st, showIds s.items)
  | some s, ["dropped"] => (st, showIds s.dropped)
  /- dropping the whole stack = `clear` -/
  | some s, ["drop"] => (none, showIds s.clear.dropped)
  | _, _ => (st, "bad-op")

end Cao.Driver
