import CaoModel.Sem
import CaoModel.Generated.Stdlib
import CaoModel.Driver.VmEngine
/-! `sem run <moduletok>`: the reference semantics' observation of a program. -/
namespace Cao.Driver
open Cao

def semStep (args : List String) : String :=
  match args with
  | ["run", m] =>
    match Module.ofTok? m with
    | none => "bad-op"
    | some m =>
      let o := Sem.run m Gen.stdlib 100000
      let gl := sortStrs ((o.globals.filter (fun p => !(decide (p.2 = OVal.nil)))).map (fun (n, v) => n ++ "=" ++ v.toTok))
      o.result ++ " globals=[" ++ ",".intercalate gl ++ "] log=[" ++ "|".intercalate o.log ++ "]"
  | _ => "bad-op"

end Cao.Driver
