import CaoModel.Sem
import CaoModel.Generated.Stdlib
import CaoModel.Driver.VmEngine
/-! `sem run <moduletok>`: the reference semantics' observation of a program. -/
namespace Cao.Driver
open Cao

def semStep (args : List String) : String :=
  match args with
  | "run" :: m :: _ =>
    match Module.ofTok? m with
    | none => "bad-op"
    | some m =>
      -- fuel bounds the nesting depth plus the iterations of the loops on one path: the
      -- implementation side runs with a budget of 20000 instructions (>= 3 per iteration)
      let o := Sem.run m Gen.stdlib 7500
      let gl := sortStrs ((o.globals.filter (fun p => !(decide (p.2 = OVal.nil)))).map (fun (n, v) => n ++ "=" ++ v.toTok))
      -- ` k1`: a value-producing card stood in statement position (known finding K1: the
      -- implementation leaves such a value on the stack); ` k4`: a call with too few arguments
      o.result ++ " globals=[" ++ ",".intercalate gl ++ "] log=[" ++ "|".intercalate o.log ++ "]" ++
        (if o.stmtValue then " k1" else "") ++ (if o.fewArgs then " k4" else "")
  | _ => "bad-op"

end Cao.Driver
