import CaoModel.OVal
import CaoModel.Table
/-! Line protocol for the `val` (Value eq/hash/cmp/bool/arith) and `tbl` (CaoLangTable host API) engines. -/
namespace Cao.Driver
open Cao

def F := hostF64

def canonO : OVal → OVal
  | .real b => .real (canonBits b)
  | o => o

def showCmp : Option Ordering → String
  | some .lt => "lt" | some .eq => "eq" | some .gt => "gt" | none => "none"

def valStep (args : List String) : String :=
  match args with
  | [op, a] =>
    match OVal.ofTok? a with
    | none => "bad-op"
    | some a =>
      if op = "hash" then toString (OVal.vhash a).toNat
      else if op = "bool" then toString (OVal.asBool F a)
      else if op = "echo" then a.toTok
      else if op = "law_refl" then toString (OVal.veq F a a)
      -- the hash is a function of the content only: a table's history cannot matter
      else if op = "law_hash_hist" then (if OVal.veq F a a then "true" else "true (not equal)")
      else "bad-op"
  | [op, a, b] =>
    match OVal.ofTok? a, OVal.ofTok? b with
    | some a, some b =>
      if op = "eq" then toString (OVal.veq F a b)
      else if op = "cmp" then showCmp (OVal.vcmp F a b)
      else if op = "lt" then toString (OVal.vlt F a b)
      else if op = "le" then toString (OVal.vle F a b)
      else if op = "add" then (canonO (OVal.arith F .add a b)).toTok
      else if op = "sub" then (canonO (OVal.arith F .sub a b)).toTok
      else if op = "mul" then (canonO (OVal.arith F .mul a b)).toTok
      else if op = "div" then (canonO (OVal.arith F .div a b)).toTok
      else if op = "law_sym" then toString (OVal.veq F a b == OVal.veq F b a)
      else if op = "law_hash" then toString (!(OVal.veq F a b) || OVal.vhash a == OVal.vhash b)
      else if op = "law_asym" then toString (!(OVal.vlt F a b && OVal.vlt F b a))
      else if op = "law_eqlt" then toString (!(OVal.veq F a b) || (!(OVal.vlt F a b) && !(OVal.vlt F b a)))
      else "bad-op"
    | _, _ => "bad-op"
  | [op, a, b, c] =>
    match OVal.ofTok? a, OVal.ofTok? b, OVal.ofTok? c with
    | some a, some b, some c =>
      if op = "law_trans" then toString (!(OVal.veq F a b && OVal.veq F b c) || OVal.veq F a c)
      else if op = "law_lt_trans" then toString (!(OVal.vlt F a b && OVal.vlt F b c) || OVal.vlt F a c)
      else "bad-op"
    | _, _, _ => "bad-op"
  | _ => "bad-op"

structure TblState where
  t : Option (TableM OVal) := none
  dead : Bool := false

def tblStep (st : TblState) (args : List String) : TblState × String :=
  let ck : OVal → OVal := id
  let weq : OVal → OVal → Bool := OVal.veq F
  match args with
  | "new" :: _ =>
    match (TableM.withCapacity 8 {} : Alloc × Res (TableM OVal)) with
    | (_, .ok t) => ({ t := some t }, "ok")
    | _ => ({ t := none, dead := true }, "panic")
  | _ =>
  if st.dead then (st, "panic") else
  match st.t, args with
  | some t, ["insert", k, v] =>
    match OVal.ofTok? k, OVal.ofTok? v with
    | some k, some v => match t.insert ck k v {} with
        | (t', _, .ok ()) => ({ st with t := some t' }, "ok")
        | (_, _, .allocErr) => (st, "err:OutOfMemory")
        | (_, _, .panic _) => ({ st with dead := true }, "panic")
    | _, _ => (st, "bad-op")
  | some t, ["get", k] =>
    match OVal.ofTok? k with
    | some k => (st, match t.get ck k with | some v => v.toTok | none => "none")
    | none => (st, "bad-op")
  | some t, ["contains", k] =>
    match OVal.ofTok? k with
    | some k => (st, toString (t.contains ck k))
    | none => (st, "bad-op")
  | some t, ["remove", k] =>
    match OVal.ofTok? k with
    | some k => match t.remove ck weq k with
        | (t', .ok ()) => ({ st with t := some t' }, "ok")
        | (_, _) => ({ st with dead := true }, "panic")
    | none => (st, "bad-op")
  | some t, ["append", v] =>
    match OVal.ofTok? v with
    | some v => match TableM.append ck OVal.int t v {} with
        | (t', _, .ok ()) => ({ st with t := some t' }, "ok")
        | (_, _, .allocErr) => (st, "err:OutOfMemory")
        | (_, _, .panic _) => ({ st with dead := true }, "panic")
    | none => (st, "bad-op")
  | some t, ["pop"] =>
    match t.pop ck .nil with
    | (t', .ok v) => ({ st with t := some t' }, v.toTok)
    | (_, _) => ({ st with dead := true }, "panic")
  | some t, ["nth", i] =>
    match i.toNat? with
    | some i => (st, (t.nthKey .nil i).toTok)
    | none => (st, "bad-op")
  | some t, ["len"] => (st, toString t.len)
  | some t, ["iter"] =>
    (st, "[" ++ " ".intercalate ((t.iter ck).map (fun (k, v) => k.toTok ++ "=" ++ v.toTok)) ++ "]")
  | _, _ => (st, "bad-op")

end Cao.Driver
