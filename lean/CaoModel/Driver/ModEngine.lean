import CaoModel.CardOps
/-! Line protocol for the `mod` engine (card / module editing API, `CaoModel/CardOps.lean`). -/
namespace Cao.Driver
open Cao

structure ModState where
  /-- `none` = nothing loaded yet -/
  m : Option Module := none

def showFetchErr : CardFetchError → String
  | .functionNotFound => "FunctionNotFound"
  | .cardNotFound => "CardNotFound"
  | .noSubFunction => "NoSubFunction"
  | .invalidIndex => "InvalidIndex"

/-- `f.i.j.k` -/
def parseIdx? (s : String) : Option CardIndex :=
  match (s.splitOn ".").mapM (fun (w : String) => w.toNat?) with
  | some (f :: rest) => some ⟨f, rest⟩
  | _ => none

def optTok : Option Card → String
  | some c => c.toTok
  | none => "-"

/-- first visited `(idx, card)` for which `getCard idx` is not exactly `card` -/
def walkMismatch (m : Module) : Option CardIndex :=
  ((m.walk).find? (fun p => match m.getCard p.1 with
    | .ok c => !(Card.beq c p.2)
    | .error _ => true)).map (·.1)

def modStep (st : ModState) (args : List String) : ModState × String :=
  match args with
  | ["load", t] => match Module.ofTok? t with
    | some m => ({ m := some m }, "ok")
    | none => (st, "bad-op")
  | _ =>
  match st.m with
  | none => (st, "bad-op")
  | some m =>
    match args with
    | ["get", i] => match parseIdx? i with
      | some idx => match m.getCard idx with
        | .ok c => (st, c.toTok)
        | .error e => (st, "err:" ++ showFetchErr e)
      | none => (st, "bad-op")
    | ["insert", i, c] => match parseIdx? i, Card.ofTok? c with
      | some idx, some c => match m.insertCard idx c with
        | .ok m' => ({ m := some m' }, "ok")
        | .error e => (st, "err:" ++ showFetchErr e)
      | _, _ => (st, "bad-op")
    | ["remove", i] => match parseIdx? i with
      | some idx => match m.removeCard idx with
        | .ok (m', r) => ({ m := some m' }, r.toTok)
        | .error e => (st, "err:" ++ showFetchErr e)
      | none => (st, "bad-op")
    | ["replace", i, c] => match parseIdx? i, Card.ofTok? c with
      | some idx, some c => match m.replaceCard idx c with
        | .ok (m', old) => ({ m := some m' }, old.toTok)
        | .error e => (st, "err:" ++ showFetchErr e)
      | _, _ => (st, "bad-op")
    | ["swap", i, j] => match parseIdx? i, parseIdx? j with
      | some a, some b => match m.swapCardsSt a b with
        | (m', .ok ()) => ({ m := some m' }, "ok")
        | (m', .error .invalidSwap) => ({ m := some m' }, "err:InvalidSwap")
        | (m', .error (.fetchError e)) => ({ m := some m' }, "err:FetchError:" ++ showFetchErr e)
      | _, _ => (st, "bad-op")
    | ["walk"] => (st, "[" ++ " ".intercalate (m.walk.map (fun p => p.1.toStr)) ++ "]")
    | ["walkcheck"] => match walkMismatch m with
      | none => (st, "ok " ++ toString m.walk.length)
      | some idx => (st, "mismatch " ++ idx.toStr)
    | ["children", i] => match parseIdx? i with
      | some idx => match m.getCard idx with
        | .ok c =>
          let n := c.numChildren
          (st, "num=" ++ toString n ++
               " iter=[" ++ ",".intercalate (c.children.map Card.toTok) ++ "]" ++
               " get=[" ++ ",".intercalate ((List.range (n + 2)).map (fun k => optTok (c.getChild k))) ++ "]")
        | .error e => (st, "err:" ++ showFetchErr e)
      | none => (st, "bad-op")
    | ["dump"] => (st, m.toTok)
    | _ => (st, "bad-op")

end Cao.Driver
