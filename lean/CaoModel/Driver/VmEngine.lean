import CaoModel.Vm
import CaoModel.Generated.Stdlib
import CaoModel.Driver.CompileEngine
/-! Line protocol of the `vm` engine: compile a module with the model compiler, run it on the
    model VM, print the observable outcome. -/
namespace Cao.Driver
open Cao Cao.Compiler Cao.Vm

structure VmEngState where
  st : Option VmState := none
  cfg : Config := {}

def parseSched (args : List String) : Sched :=
  match args.find? (fun a => a.startsWith "sched=") with
  | some a =>
    let v := (a.drop 6).toString
    if v == "every" then .every
    else if v.startsWith "single:" then .single (((v.drop 7).toString.toNat?).getD 0)
    else if v.startsWith "mask:" then .mask ((Val.natOfHex? (v.drop 5).toString).getD 0)
    else .none
  | none => .none

def kv (args : List String) (key : String) (dflt : Nat) : Nat :=
  match args.find? (fun a => a.startsWith (key ++ "=")) with
  | some a => ((a.drop (key.length + 1)).toString.toNat?).getD dflt
  | none => dflt

def sortStrs (l : List String) : List String := l.mergeSort (fun a b => decide (a ≤ b))

def showOutcome (p : Prog) (s : VmState) (e : Option RunErr) : String :=
  let res := match e with
    | none => "ok"
    | some e => "err:" ++ e.kind.name
  let tr := match e with
    | none => ""
    | some e => ";".intercalate ((errTrace p e).map showTrace)
  let globals := sortStrs (p.varNames.filterMap (fun (h, name) =>
    -- names are keyed by `Handle::from_u32(id)`: recover the id by search
    match (List.range (p.varNames.length + 1)).find? (fun id => Hash.handleFromU32 (UInt32.ofNat id) == h) with
    | some id => match s.globals[id]? with
      | some v => some (name ++ "=" ++ (ownD s.heap v).toTok)
      | none => some (name ++ "=<unset>")
    | none => none))
  res ++ " trace=[" ++ tr ++ "] globals=[" ++ ",".intercalate globals ++ "] log=[" ++ "|".intercalate s.hostLog ++
    "] alloc=" ++ toString s.mem.allocated ++ " frames=" ++ toString s.frames.length ++
    " stack=" ++ toString s.stack.count ++ " disp=" ++ toString s.dispatches

/-- the part of an observation that must not depend on when collections run -/
def showObs (p : Prog) (s : VmState) (e : Option RunErr) : String :=
  let full := showOutcome p s e
  -- cut the counters (`alloc=` onwards)
  match full.splitOn " alloc=" with
  | a :: _ => a
  | [] => full

def vmStep (st : VmEngState) (args : List String) : VmEngState × String :=
  match args with
  | "new" :: rest =>
    let cfg : Config := { memLimit := kv rest "mem" Gen.memLimit, stackSize := kv rest "stack" Gen.stackSize,
                          callStackSize := kv rest "calls" Gen.callStackSize }
    if cfg.stackSize == 0 then (st, "bad-op") else
    ({ st := some (VmState.fresh cfg), cfg := cfg }, "ok")
  | "run" :: m :: rest =>
    match st.st, Module.ofTok? m with
    | some s, some m =>
      match compile m Gen.stdlib with
      | .error e => (st, "compile-" ++ showCErr e)
      | .ok prog =>
        let p := Prog.ofProgram prog
        let s := { s with hostLog := [], sched := parseSched rest, allocIndex := 0, forcedGcs := 0 }
        let (s', e) := run p (kv rest "budget" Gen.maxInstr) s
        ({ st with st := some s' }, showOutcome p s' e ++ " gcs=" ++ toString s'.forcedGcs ++ "/" ++ toString s'.allocIndex)
    | _, _ => (st, "bad-op")
  | "runcheck" :: m :: rest =>
    match st.st, Module.ofTok? m with
    | some s, some m =>
      match compile m Gen.stdlib with
      | .error e => (st, "compile-" ++ showCErr e)
      | .ok prog =>
        let p := Prog.ofProgram prog
        let budget := kv rest "budget" Gen.maxInstr
        let (s', e) := run p budget { s with hostLog := [], sched := .none, allocIndex := 0, forcedGcs := 0 }
        let (sf, ef) := run p budget (VmState.fresh st.cfg)
        ({ st with st := some s' }, "cur={" ++ showOutcome p s' e ++ "} fresh={" ++ showOutcome p sf ef ++ "}")
    | _, _ => (st, "bad-op")
  | "schedcheck" :: m :: rest =>
    match Module.ofTok? m with
    | some m =>
      match compile m Gen.stdlib with
      | .error e => (st, "compile-" ++ showCErr e)
      | .ok prog =>
        let p := Prog.ofProgram prog
        let budget := kv rest "budget" Gen.maxInstr
        let (sa, ea) := run p budget (VmState.fresh st.cfg)
        let (sb, eb) := run p budget { VmState.fresh st.cfg with sched := parseSched rest }
        (st, "A={" ++ showObs p sa ea ++ "} B={" ++ showObs p sb eb ++ "} gcs=" ++ toString sb.forcedGcs ++ "/" ++ toString sb.allocIndex ++
             " allocA=" ++ toString sa.mem.allocated ++ " allocB=" ++ toString sb.mem.allocated)
    | none => (st, "bad-op")
  | "repeat" :: m :: rest =>
    match st.st, Module.ofTok? m with
    | some s, some m =>
      match compile m Gen.stdlib with
      | .error e => (st, "compile-" ++ showCErr e)
      | .ok prog =>
        let p := Prog.ofProgram prog
        let n := kv rest "n" 10
        let clr := kv rest "clear" 1 == 1
        let budget := kv rest "budget" Gen.maxInstr
        let rec go (k i : Nat) (s : VmState) (first : String) (bal same : Nat) (last : String) : VmState × String × Nat × Nat × String :=
          match k with
          | 0 => (s, first, bal, same, last)
          | k+1 =>
            let (s', e) := run p budget { s with hostLog := [], sched := .none, allocIndex := 0, forcedGcs := 0 }
            let o := if clr then showOutcome p s' e else showObs p s' e
            let first := if i == 0 then o else first
            let bal := if i == 0 then s'.stack.count else bal
            let (same, last) := if o == first then (same + 1, last)
              else if last.isEmpty then (same, " run" ++ toString i ++ "={" ++ o ++ "}") else (same, last)
            go k (i + 1) (if clr then clear s' else s') first bal same last
        let (s', first, bal, same, last) := go n 0 s "" 0 0 ""
        ({ st with st := some s' }, "first={" ++ first ++ "} bal=" ++ toString bal ++ " same=" ++ toString same ++ "/" ++ toString n ++ last)
    | _, _ => (st, "bad-op")
  | "budcheck" :: m :: rest =>
    match Module.ofTok? m with
    | some m =>
      match compile m Gen.stdlib with
      | .error e => (st, "compile-" ++ showCErr e)
      | .ok prog =>
        let p := Prog.ofProgram prog
        let (sa, ea) := run p (kv rest "budget" Gen.maxInstr) (VmState.fresh st.cfg)
        let (sb, eb) := run p (kv rest "budget2" Gen.maxInstr) (VmState.fresh st.cfg)
        (st, "A={" ++ showOutcome p sa ea ++ "} B={" ++ showOutcome p sb eb ++ "}")
    | none => (st, "bad-op")
  | ["clear"] =>
    match st.st with
    | some s => ({ st with st := some (clear s) }, "ok")
    | none => (st, "bad-op")
  | ["stats"] =>
    match st.st with
    | some s => (st, "alloc=" ++ toString s.mem.allocated ++ " nextgc=" ++ toString s.mem.nextGc ++ " frames=" ++
        toString s.frames.length ++ " stack=" ++ toString s.stack.count ++ " objs=" ++ toString s.heap.objs.length)
    | none => (st, "bad-op")
  | _ => (st, "bad-op")

end Cao.Driver

namespace Cao.Driver
open Cao Cao.Compiler Cao.Vm

/-- `nat register <name>` / `nat call <moduletok> …` (C18 engine) -/
def natStep (args : List String) : String :=
  match args with
  | ["register", name] => if name.startsWith "__" then "err:InvalidArgument" else "ok"
  | "call" :: m :: rest =>
    match Module.ofTok? m with
    | none => "bad-op"
    | some m =>
      match compile m Gen.stdlib with
      | .error e => "compile-error:" ++ (match e with | .err k _ => k.name | .panic w => w)
      | .ok prog =>
        let p := Prog.ofProgram prog
        let (s', e) := run p (kv rest "budget" 5000) (VmState.fresh {})
        showOutcome p s' e
  | _ => "bad-op"

end Cao.Driver
