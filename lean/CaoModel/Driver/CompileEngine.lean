import CaoModel.Compiler
import CaoModel.Generated.Stdlib
/-! Line protocol of the `cmp` engine: `cmp compile <moduletok>` prints the whole compiled program
    (or the compilation error with its location) in a canonical, sorted form. -/
namespace Cao.Driver
open Cao Cao.Compiler

def hexBytes (a : Array UInt8) : String :=
  String.join (a.toList.map (fun b => Val.hexOfNat b.toNat 2))

def sortPairs {β : Type} (l : List (Nat × β)) : List (Nat × β) := l.mergeSort (fun a b => a.1 ≤ b.1)

def showTrace (t : Trace) : String :=
  ".".intercalate t.ns ++ "|" ++ toString t.function ++ String.join (t.indices.map (fun i => "." ++ toString i))

def showProgram (p : Program) : String :=
  "ok bc=" ++ hexBytes p.bytecode ++ " data=" ++ hexBytes p.data ++
  " labels=[" ++ ",".intercalate ((sortPairs (p.labels.map (fun (h, x) => (h.toNat, x)))).map (fun (h, x) => toString h ++ ":" ++ toString x)) ++ "]" ++
  " ids=[" ++ ",".intercalate ((sortPairs (p.varIds.map (fun (h, x) => (h.toNat, x)))).map (fun (h, x) => toString h ++ ":" ++ toString x)) ++ "]" ++
  " names=[" ++ ",".intercalate ((sortPairs (p.varNames.map (fun (h, x) => (h.toNat, x)))).map (fun (h, x) => toString h ++ ":" ++ hexStr x)) ++ "]" ++
  " trace=[" ++ ",".intercalate ((sortPairs p.trace).map (fun (pos, t) => toString pos ++ ":" ++ showTrace t)) ++ "]"

def showCErr : CErr → String
  | .err k (some t) => "err:" ++ k.name ++ "@" ++ showTrace t
  | .err k none => "err:" ++ k.name ++ "@-"
  | .panic w => "panic:" ++ w

def cmpStep (args : List String) : String :=
  match args with
  | ["compile", m] =>
    match Module.ofTok? m with
    | none => "bad-op"
    | some m =>
      match compile m Gen.stdlib with
      | .ok p => showProgram p
      | .error e => showCErr e
  | _ => "bad-op"

end Cao.Driver
