import CaoModel.Compiler
import CaoModel.Generated.Stdlib
import CaoModel.Bytecode
import CaoProofs.Lemmas.CapCheckDef
/-! Line protocol of the `cmp` engine: `cmp compile <moduletok>` prints the whole compiled program
    (or the compilation error with its location) in a canonical, sorted form. -/
namespace Cao.Driver
open Cao Cao.Compiler

def hexBytes (a : Array UInt8) : String :=
  String.join (a.toList.map (fun b => Val.hexOfNat b.toNat 2))

def sortPairs {β : Type} (l : List (Nat × β)) : List (Nat × β) := l.mergeSort (fun a b => a.1 ≤ b.1)

def showTrace (t : Trace) : String :=
  ".".intercalate t.ns ++ "|" ++ toString t.function ++ String.join (t.indices.map (fun i => "." ++ toString i))

def showProgram (p : Program) : String :=
  "ok bc=" ++ hexBytes p.bytecode ++ " data=" ++ hexBytes p.data ++
  " labels=[" ++ ",".intercalate ((sortPairs (p.labels.map (fun (h, x) => (h.toNat, x)))).map (fun (h, x) => toString h ++ ":" ++ toString x)) ++ "]" ++
  " ids=[" ++ ",".intercalate ((sortPairs (p.varIds.map (fun (h, x) => (h.toNat, x)))).map (fun (h, x) => toString h ++ ":" ++ toString x)) ++ "]" ++
  " names=[" ++ ",".intercalate ((sortPairs (p.varNames.map (fun (h, x) => (h.toNat, x)))).map (fun (h, x) => toString h ++ ":" ++ hexStr x)) ++ "]" ++
  " trace=[" ++ ",".intercalate ((sortPairs p.trace).map (fun (pos, t) => toString pos ++ ":" ++ showTrace t)) ++ "]"

def showCErr : CErr → String
  | .err k (some t) => "err:" ++ k.name ++ "@" ++ showTrace t
  | .err k none => "err:" ++ k.name ++ "@-"
  | .panic w => "panic:" ++ w

end Cao.Driver

namespace Cao.Driver
open Cao Cao.Compiler

def parseHexBytes (s : String) : Array UInt8 :=
  let cs := s.toList
  let rec go : List Char → Array UInt8 → Array UInt8
    | a :: b :: r, acc => go r (acc.push (UInt8.ofNat (((Val.hexVal? a).getD 0) * 16 + ((Val.hexVal? b).getD 0))))
    | _, acc => acc
  go cs #[]

def field (args : List String) (key : String) : String :=
  match args.find? (fun a => a.startsWith (key ++ "=")) with
  | some a => (a.drop (key.length + 1)).toString
  | none => ""

def listItems (s : String) : List String :=
  let inner := ((s.drop 1).toString.dropEnd 1).toString
  if inner.isEmpty then [] else inner.splitOn ","

def parseTrace (s : String) : Option Trace :=
  match s.splitOn "|" with
  | [ns, idx] =>
    match idx.splitOn "." with
    | f :: rest =>
      some { ns := if ns.isEmpty then [] else ns.splitOn ".", function := f.toNat?.getD 0,
             indices := rest.filterMap (·.toNat?) }
    | [] => none
  | _ => none

def hexToString (h : String) : String :=
  (String.fromUTF8? (ByteArray.mk (parseHexBytes ((h.drop 1).toString)))).getD ""

/-- parse the canonical program line printed by `showProgram` / the harness' `show_program` -/
def parseProgram (args : List String) : Program :=
  let pair (s : String) : Option (Nat × String) :=
    match s.splitOn ":" with
    | a :: rest => a.toNat?.map (fun n => (n, ":".intercalate rest))
    | [] => none
  { bytecode := parseHexBytes (field args "bc"),
    data := parseHexBytes (field args "data"),
    labels := (listItems (field args "labels")).filterMap (fun s => (pair s).bind (fun (h, p) => p.toNat?.map (fun p => (UInt32.ofNat h, p)))),
    varIds := (listItems (field args "ids")).filterMap (fun s => (pair s).bind (fun (h, p) => p.toNat?.map (fun p => (UInt32.ofNat h, p)))),
    varNames := (listItems (field args "names")).filterMap (fun s => (pair s).map (fun (h, n) => (UInt32.ofNat h, hexToString n))),
    trace := (listItems (field args "trace")).filterMap (fun s => (pair s).bind (fun (pos, t) => (parseTrace t).map (fun t => (pos, t)))) }

def wfLine (p : Program) : String :=
  match Bytecode.wfReason p with
  | none => "wf:ok n=" ++ toString ((Bytecode.decodeAll p.bytecode (p.bytecode.size + 1) 0 []).toOption.getD []).length ++
      -- the static hypothesis of `C04c.run_no_capture_panic`, decided on these bytes
      " cap=" ++ toString (Cao.C04c.capStaticB p)
  | some r => "wf:" ++ r

def cmpStep (args : List String) : String :=
  match args with
  | ["compile", m] =>
    match Module.ofTok? m with
    | none => "bad-op"
    | some m =>
      match compile m Gen.stdlib with
      | .ok p => showProgram p
      | .error e => showCErr e
  | ["wf", m] =>
    -- well-formedness of what the *model* compiler emits (equal to the real output whenever
    -- the `compile` line agrees)
    match Module.ofTok? m with
    | none => "bad-op"
    | some m =>
      match compile m Gen.stdlib with
      | .ok p => wfLine p
      | .error _ => "wf:n/a"
  | "wfprog" :: "ok" :: rest => wfLine (parseProgram rest)
  | _ => "bad-op"

end Cao.Driver
