import CaoModel.HashMap
import CaoModel.HandleTable
import CaoModel.Value
/-! Line protocol for the `hm` (CaoHashMap) and `ht` (HandleTable) engines.
    Stored value = `(kid, vid)`: the identity of the key instance and of the value instance,
    so that the drop log of the Rust side (ids of dropped key/value objects) can be compared. -/
namespace Cao.Driver
open Cao

inductive HKey where
  | int (i : Int64)
  | str (bytes : List UInt8)
  deriving DecidableEq

def HKey.hash : HKey → UInt64
  | .int i => Hash.hashI64 i
  | .str b => Hash.hashStr b

def HKey.toTok : HKey → String
  | .int i => "i" ++ toString i.toInt
  | .str b => "s" ++ String.join (b.map (fun x => Val.hexOfNat x.toNat 2))

def hexBytes? (s : String) : Option (List UInt8) :=
  let cs := s.toList
  if cs.length % 2 != 0 then none else
  let rec go : List Char → Option (List UInt8)
    | a :: b :: rest => match Val.hexVal? a, Val.hexVal? b, go rest with
        | some x, some y, some r => some (UInt8.ofNat (x * 16 + y) :: r)
        | _, _, _ => none
    | [] => some []
    | _ => none
  go cs

def HKey.ofTok? (s : String) : Option HKey :=
  match s.toList with
  | 'i' :: rest => (String.ofList rest).toInt?.map (fun i => .int (Int64.ofInt i))
  | 's' :: rest => (hexBytes? (String.ofList rest)).map .str
  | _ => none

def sortNat (l : List Nat) : List Nat := l.mergeSort (· ≤ ·)
def sortStr (l : List String) : List String := l.mergeSort (fun a b => decide (a ≤ b))
def showNats (l : List Nat) : String := "[" ++ " ".intercalate (l.map toString) ++ "]"

def failOf : List String → Alloc
  | [] => {}
  | f :: _ => match (f.drop 4).toString.toNat? with   -- "fail<k>"
      | some k => { failAt := some k }
      | none => {}

structure HmState where
  m : Option (HMap HKey (Nat × Nat)) := none
  dropped : List Nat := []
  dead : Bool := false   -- after a panic everything answers `panic` until the next `new`

def cloneOffset : Nat := 1000000

def hmStep (st : HmState) (args : List String) : HmState × String :=
  let hashOf := HKey.hash
  match args with
  | "new" :: c :: rest =>
      match c.toNat? with
      | some c => match (HMap.withCapacity c (failOf rest) : Alloc × Res (HMap HKey (Nat × Nat))) with
          | (_, .ok m) => ({ m := some m }, "ok")
          | (_, .allocErr) => ({ m := none }, "err:alloc")
          | (_, .panic _) => ({ m := none, dead := true }, "panic")
      | none => (st, "bad-op")
  | _ =>
  if st.dead then (st, "panic") else
  match st.m, args with
  | some m, "insert" :: k :: kid :: vid :: rest =>
      match HKey.ofTok? k, kid.toNat?, vid.toNat? with
      | some k, some kid, some vid =>
        match m.insert hashOf k (kid, vid) (failOf rest) with
        | (m', _, .ok none) => ({ st with m := some m' }, "ok")
        | (m', _, .ok (some (_, (ok, ov)))) => ({ st with m := some m', dropped := ok :: ov :: st.dropped }, "ok")
        | (m', _, .allocErr) => ({ st with m := some m', dropped := kid :: vid :: st.dropped }, "err:alloc")
        | (_, _, .panic _) => ({ st with dead := true }, "panic")
      | _, _, _ => (st, "bad-op")
  | some m, "entry" :: k :: kid :: vid :: rest =>
      match HKey.ofTok? k, kid.toNat?, vid.toNat? with
      | some k, some kid, some vid =>
        match m.entryOrInsert hashOf k (kid, vid) (failOf rest) with
        | (m', _, .ok (true, (_, v))) => ({ st with m := some m' }, "v" ++ toString v)
        | (m', _, .ok (false, (_, v))) => ({ st with m := some m', dropped := kid :: st.dropped }, "v" ++ toString v)
        | (m', _, .allocErr) => ({ st with m := some m', dropped := kid :: st.dropped }, "err:alloc")
        | (_, _, .panic _) => ({ st with dead := true }, "panic")
      | _, _, _ => (st, "bad-op")
  | some m, ["remove", k] =>
      match HKey.ofTok? k with
      | some k => match m.remove hashOf k with
          | (m', .ok (some (_, (kid, vid)))) => ({ st with m := some m', dropped := kid :: st.dropped }, "v" ++ toString vid)
          | (m', .ok none) => ({ st with m := some m' }, "none")
          | (_, _) => ({ st with dead := true }, "panic")
      | none => (st, "bad-op")
  | some m, [g, k] =>
      if g = "get" ∨ g = "get_mut" then
        match HKey.ofTok? k with
        | some k => (st, match m.get hashOf k with | some (_, v) => "v" ++ toString v | none => "none")
        | none => (st, "bad-op")
      else if g = "contains" then
        match HKey.ofTok? k with
        | some k => (st, toString (m.contains hashOf k))
        | none => (st, "bad-op")
      else if g = "reserve" then
        match k.toNat? with
        | some n => match m.reserve hashOf n {} with
            | (_, .ok m') => ({ st with m := some m' }, "ok")
            | (_, .allocErr) => (st, "err:alloc")
            | (_, .panic _) => ({ st with dead := true }, "panic")
        | none => (st, "bad-op")
      else (st, "bad-op")
  | some m, ["reserve", n, f] =>
      match n.toNat? with
      | some n => match m.reserve hashOf n (failOf [f]) with
          | (_, .ok m') => ({ st with m := some m' }, "ok")
          | (_, .allocErr) => (st, "err:alloc")
          | (_, .panic _) => ({ st with dead := true }, "panic")
      | none => (st, "bad-op")
  | some m, ["clear"] =>
      let (m', es) := m.clear
      ({ st with m := some m', dropped := es.foldl (fun acc e => e.2.1 :: e.2.2 :: acc) st.dropped }, "ok")
  | some m, ["clone"] =>
      -- clone (ids shifted by `cloneOffset`), then drop the original
      let shifted : HMap HKey (Nat × Nat) :=
        { m with slots := fun i => (m.slots i).map (fun e => (e.1, (e.2.1 + cloneOffset, e.2.2 + cloneOffset))) }
      match shifted.clone hashOf {} with
      | (_, .ok c) =>
        ({ st with m := some c, dropped := m.toList.foldl (fun acc e => e.2.1 :: e.2.2 :: acc) st.dropped }, "ok")
      | (_, _) => ({ st with dead := true }, "panic")
  | some m, ["len"] => (st, toString m.count)
  | some m, ["cap"] => (st, toString m.cap)
  | some m, ["iter"] =>
      (st, "[" ++ " ".intercalate (sortStr (m.toList.map (fun e => e.1.toTok ++ ":" ++ toString e.2.1 ++ ":" ++ toString e.2.2))) ++ "]")
  | some _, ["dropped"] => (st, showNats (sortNat st.dropped))
  | some m, ["drop"] =>
      let d := m.toList.foldl (fun acc e => e.2.1 :: e.2.2 :: acc) st.dropped
      ({ m := none, dropped := d }, showNats (sortNat d))
  | _, _ => (st, "bad-op")

/-! ## handle table -/

structure HtState where
  t : Option (HTable Nat) := none
  dropped : List Nat := []
  dead : Bool := false

def handle? (s : String) : Option UInt32 :=
  match s.toList with
  | 'h' :: rest => (String.ofList rest).toNat?.map UInt32.ofNat
  | _ => none

def htStep (st : HtState) (args : List String) : HtState × String :=
  match args with
  | "new" :: c :: rest =>
      match c.toNat? with
      | some c => match (HTable.withCapacity c (failOf rest) : Alloc × Res (HTable Nat)) with
          | (_, .ok t) => ({ t := some t }, "ok")
          | (_, .allocErr) => ({ t := none }, "err:alloc")
          | (_, .panic _) => ({ t := none, dead := true }, "panic")
      | none => (st, "bad-op")
  | _ =>
  if st.dead then (st, "panic") else
  match st.t, args with
  | some t, "insert" :: k :: vid :: rest =>
      match handle? k, vid.toNat? with
      | some k, some vid =>
        match t.insert k vid (failOf rest) with
        | (t', _, .ok (.ok none)) => ({ st with t := some t' }, "ok")
        | (t', _, .ok (.ok (some (_, ov)))) => ({ st with t := some t', dropped := ov :: st.dropped }, "ok")
        | (t', _, .ok (.error .invalidHandle)) => ({ st with t := some t', dropped := vid :: st.dropped }, "err:InvalidHandle")
        | (t', _, .ok (.error .alloc)) => ({ st with t := some t', dropped := vid :: st.dropped }, "err:alloc")
        | (t', _, .allocErr) => ({ st with t := some t', dropped := vid :: st.dropped }, "err:alloc")
        | (_, _, .panic _) => ({ st with dead := true }, "panic")
      | _, _ => (st, "bad-op")
  | some t, ["entry", k, vid] =>
      match handle? k, vid.toNat? with
      | some k, some vid =>
        match t.entryOrInsert k vid {} with
        | (t', _, .ok (_, v)) => ({ st with t := some t' }, "v" ++ toString v)
        | (_, _, _) => ({ st with dead := true }, "panic")
      | _, _ => (st, "bad-op")
  | some t, ["remove", k] =>
      match handle? k with
      | some k => match t.remove k with
          | (t', .ok (some (_, vid))) => ({ st with t := some t' }, "v" ++ toString vid)
          | (t', .ok none) => ({ st with t := some t' }, "none")
          | (_, _) => ({ st with dead := true }, "panic")
      | none => (st, "bad-op")
  | some t, [g, k] =>
      if g = "get" ∨ g = "get_mut" ∨ g = "index" then
        match handle? k with
        | some k => (st, match t.get k with | some v => "v" ++ toString v | none => (if g = "index" then "absent" else "none"))
        | none => (st, "bad-op")
      else if g = "contains" then
        match handle? k with
        | some k => (st, toString (t.contains k))
        | none => (st, "bad-op")
      else if g = "reserve" then
        match k.toNat? with
        | some n => match t.reserve n {} with
            | (_, .ok t') => ({ st with t := some t' }, "ok")
            | (_, .allocErr) => (st, "err:alloc")
            | (_, .panic _) => ({ st with dead := true }, "panic")
        | none => (st, "bad-op")
      else (st, "bad-op")
  | some t, ["reserve", n, f] =>
      match n.toNat? with
      | some n => match t.reserve n (failOf [f]) with
          | (_, .ok t') => ({ st with t := some t' }, "ok")
          | (_, .allocErr) => (st, "err:alloc")
          | (_, .panic _) => ({ st with dead := true }, "panic")
      | none => (st, "bad-op")
  | some t, ["clear"] =>
      let (t', es) := t.clear
      ({ st with t := some t', dropped := es.foldl (fun acc e => e.2 :: acc) st.dropped }, "ok")
  | some t, ["clone"] =>
      let shifted : HTable Nat := { t with slots := fun i => (t.slots i).map (fun e => (e.1, e.2 + cloneOffset)) }
      match shifted.clone {} with
      | (_, .ok c) => ({ st with t := some c, dropped := t.toList.foldl (fun acc e => e.2 :: acc) st.dropped }, "ok")
      | (_, _) => ({ st with dead := true }, "panic")
  | some t, ["len"] => (st, toString t.count)
  | some t, ["cap"] => (st, toString t.cap)
  | some t, ["iter"] =>
      (st, "[" ++ " ".intercalate (sortStr (t.toList.map (fun e => "h" ++ toString e.1.toNat ++ ":" ++ toString e.2))) ++ "]")
  | some _, ["dropped"] => (st, showNats (sortNat st.dropped))
  | some t, ["drop"] =>
      let d := t.toList.foldl (fun acc e => e.2 :: acc) st.dropped
      ({ t := none, dropped := d }, showNats (sortNat d))
  | _, _ => (st, "bad-op")

end Cao.Driver
