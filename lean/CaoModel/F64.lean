/-!
# IEEE-754 binary64 operations behind an interface

Reals are carried as bit patterns (`UInt64`). The model's arithmetic goes through a
`F64Ops` record; the driver instantiates it with Lean's `Float` (`hostF64`), whose agreement with
Rust's `f64` is checked differentially by the `value` engine. Theorems that mention reals are
stated for an arbitrary `F64Ops` satisfying the explicit laws `LawfulF64` (trusted base: that
IEEE-754 satisfies them).
-/
namespace Cao

structure F64Ops where
  add : UInt64 → UInt64 → UInt64
  sub : UInt64 → UInt64 → UInt64
  mul : UInt64 → UInt64 → UInt64
  div : UInt64 → UInt64 → UInt64
  lt : UInt64 → UInt64 → Bool
  eq : UInt64 → UInt64 → Bool
  isNaN : UInt64 → Bool
  /-- `i as f64` -/
  ofInt : Int64 → UInt64
  /-- `n as f64` for `usize` lengths -/
  ofNat : Nat → UInt64
  /-- `r as i64` (saturating, NaN ↦ 0) -/
  toInt : UInt64 → Int64

/-- Order laws of non-NaN doubles that the C19 theorems use. -/
structure LawfulF64 (F : F64Ops) : Prop where
  eq_refl : ∀ a, F.isNaN a = false → F.eq a a = true
  eq_symm : ∀ a b, F.eq a b = F.eq b a
  eq_trans : ∀ a b c, F.eq a b = true → F.eq b c = true → F.eq a c = true
  eq_nan : ∀ a b, F.isNaN a = true → F.eq a b = false
  lt_nan_l : ∀ a b, F.isNaN a = true → F.lt a b = false
  lt_nan_r : ∀ a b, F.isNaN b = true → F.lt a b = false
  lt_irrefl : ∀ a, F.lt a a = false
  lt_asymm : ∀ a b, F.lt a b = true → F.lt b a = false
  lt_trans : ∀ a b c, F.lt a b = true → F.lt b c = true → F.lt a c = true
  eq_not_lt : ∀ a b, F.eq a b = true → F.lt a b = false
  total : ∀ a b, F.isNaN a = false → F.isNaN b = false → F.lt a b = true ∨ F.eq a b = true ∨ F.lt b a = true
  lt_eq_l : ∀ a b c, F.eq a b = true → F.lt a c = F.lt b c
  lt_eq_r : ∀ a b c, F.eq a b = true → F.lt c a = F.lt c b
  /-- equal non-zero doubles have identical bit patterns (only +0.0 / -0.0 differ) -/
  eq_bits : ∀ a b, F.eq a b = true → F.eq a (F.ofNat 0) = false → a = b
  /-- conversions never produce NaN and are monotone -/
  ofInt_notNaN : ∀ i, F.isNaN (F.ofInt i) = false
  ofNat_notNaN : ∀ n, F.isNaN (F.ofNat n) = false
  ofInt_mono : ∀ i j : Int64, i.toInt ≤ j.toInt → F.lt (F.ofInt j) (F.ofInt i) = false
  ofNat_mono : ∀ m n : Nat, m ≤ n → F.lt (F.ofNat n) (F.ofNat m) = false

/-- saturating `f64 as i64` of Rust -/
def f64ToI64 (x : Float) : Int64 :=
  if x.isNaN then 0
  else if x ≥ 9223372036854775807.0 then Int64.ofInt 9223372036854775807
  else if x ≤ -9223372036854775808.0 then Int64.ofInt (-9223372036854775808)
  else x.toInt64

def hostF64 : F64Ops where
  add a b := (Float.ofBits a + Float.ofBits b).toBits
  sub a b := (Float.ofBits a - Float.ofBits b).toBits
  mul a b := (Float.ofBits a * Float.ofBits b).toBits
  div a b := (Float.ofBits a / Float.ofBits b).toBits
  lt a b := Float.ofBits a < Float.ofBits b
  eq a b := Float.ofBits a == Float.ofBits b
  isNaN a := (Float.ofBits a).isNaN
  ofInt i := (Float.ofInt i.toInt).toBits
  ofNat n := (Float.ofNat n).toBits
  toInt a := f64ToI64 (Float.ofBits a)

/-- canonical NaN for printing (Rust and Lean may produce different NaN payloads) -/
def canonBits (b : UInt64) : UInt64 :=
  if (Float.ofBits b).isNaN then 0x7ff8000000000000 else b

end Cao
