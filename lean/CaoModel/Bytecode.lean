import CaoModel.Compiler
/-!
# Structural validity of compiled programs (C10)

`decodeAll` walks the bytecode front to back with the generated instruction table; `wfReason`
is the decidable check of everything the interpreter relies on without checking (it returns the
first violated condition, `none` = well-formed).
-/
namespace Cao.Bytecode
open Cao Cao.Compiler

def rdU32 (b : Array UInt8) (p : Nat) : Nat :=
  (List.range 4).foldl (fun acc i => acc + (b.getD (p + i) 0).toNat * 256 ^ i) 0

/-- instruction starts with their opcodes, or the position where decoding fails -/
def decodeAll (bc : Array UInt8) : Nat → Nat → List (Nat × UInt8) → Except String (List (Nat × UInt8))
  | 0, _, _ => .error "decode: out of fuel"
  | fuel+1, pos, acc =>
    if pos == bc.size then .ok acc.reverse
    else if pos > bc.size then .error s!"decode: ran past the end at {pos}"
    else
      let o := bc.getD pos 0
      match Gen.spanOf o with
      | none => .error s!"decode: unknown opcode {o} at {pos}"
      | some span =>
        if pos + span > bc.size then .error s!"decode: truncated operands at {pos}"
        else decodeAll bc fuel (pos + span) ((pos, o) :: acc)

def validStr (data : Array UInt8) (off : Nat) : Bool :=
  if off + 4 > data.size then false else
  let len := rdU32 data off
  if off + 4 + len > data.size then false else
  (String.fromUTF8? (ByteArray.mk ((List.range len).map (fun i => data.getD (off + 4 + i) 0)).toArray)).isSome

/-- limits the compiler declares: at most 255 locals / upvalues per function -/
def maxSlots : Nat := 255

/-- instructions emitted by `scope_end` carry no trace entry and cannot fail in a compiled program -/
def needsTrace (o : UInt8) : Bool := !(o == op.pop || o == op.closeUpvalue)

def wfReason (p : Program) : Option String :=
  match decodeAll p.bytecode (p.bytecode.size + 1) 0 [] with
  | .error e => some e
  | .ok instrs =>
    let starts := instrs.map (·.1)
    let isStart (a : Nat) : Bool := starts.contains a
    let nvars := p.varIds.length
    match instrs.getLast? with
    | none => some "empty program"
    | some (_, lastOp) =>
    if lastOp != op.exit then some "does not end with Exit" else
    let checkInstr : Nat × UInt8 → Option String := fun (pos, o) =>
      let a := pos + 1
      if o == op.goto || o == op.gotoIfTrue || o == op.gotoIfFalse then
        if isStart (rdU32 p.bytecode a) then none else some s!"jump at {pos} does not land on an instruction"
      else if o == op.stringLiteral || o == op.nativeFunctionPointer then
        if validStr p.data (rdU32 p.bytecode a) then none else some s!"string operand at {pos} is not a complete valid string"
      else if o == op.functionPointer || o == op.closure then
        let h := UInt32.ofNat (rdU32 p.bytecode a)
        if p.labels.any (fun l => l.1 == h) then none else some s!"function handle at {pos} has no label"
      else if o == op.setLocalVar || o == op.readLocalVar || o == op.setUpvalue || o == op.readUpvalue then
        if rdU32 p.bytecode a < maxSlots then none else some s!"local/upvalue index at {pos} out of range"
      else if o == op.setGlobalVar || o == op.readGlobalVar then
        if rdU32 p.bytecode a < nvars then none else some s!"global id at {pos} out of range"
      else if o == op.beginForEach || o == op.forEach then
        if (List.range 5).all (fun i => rdU32 p.bytecode (a + 4 * i) < maxSlots) then none
        else some s!"for-each slot at {pos} out of range"
      else if o == op.registerUpvalue then
        if (p.bytecode.getD (a + 1) 0).toNat ≤ 1 then none
        else some s!"register-upvalue flag at {pos} is not boolean"
      else none
    -- closure bodies: `Goto L; <label h>: body …; L: Closure h arity; (CopyLast; RegisterUpvalue i l)*`
    -- each gives a region `[label h, L)` with its declared number of upvalues
    let regions : List (Nat × Nat × Nat) := instrs.filterMap (fun (pos, o) =>
      if o == op.closure then
        let h := UInt32.ofNat (rdU32 p.bytecode (pos + 1))
        match p.labels.find? (fun l => l.1 == h) with
        | some (_, start) =>
          let rec count (fuel at_ n : Nat) : Nat :=
            match fuel with
            | 0 => n
            | f+1 =>
              if p.bytecode.getD at_ 0 == op.copyLast && p.bytecode.getD (at_ + 1) 0 == op.registerUpvalue
              then count f (at_ + 4) (n + 1) else n
          some (start, pos, count 256 (pos + 9) 0)
        | none => none
      else none)
    let enclosing (pos : Nat) : Option (Nat × Nat × Nat) :=
      (regions.filter (fun r => r.1 ≤ pos && pos < r.2.1)).foldl (fun (best : Option (Nat × Nat × Nat)) r =>
        match best with
        | none => some r
        | some b => if r.2.1 - r.1 < b.2.1 - b.1 then some r else some b) none
    let checkUp : Nat × UInt8 → Option String := fun (pos, o) =>
      if o == op.setUpvalue || o == op.readUpvalue then
        match enclosing pos with
        | none => some s!"upvalue access at {pos} outside of any closure body"
        | some (_, _, n) =>
          if rdU32 p.bytecode (pos + 1) < n then none
          else some s!"upvalue index at {pos} is not below the {n} upvalue(s) its closure registers"
      else if o == op.registerUpvalue && p.bytecode.getD (pos + 2) 0 == 0 then
        -- a non-local capture copies an upvalue of the closure whose body creates this one
        match enclosing pos with
        | none => some s!"non-local capture at {pos} outside of any closure body"
        | some (_, _, n) =>
          if (p.bytecode.getD (pos + 1) 0).toNat < n then none
          else some s!"non-local capture at {pos} refers to an upvalue its enclosing closure does not have"
      else none
    match instrs.findSome? checkInstr with
    | some r => some r
    | none =>
    match instrs.findSome? checkUp with
    | some r => some r
    | none =>
    match p.labels.find? (fun l => !isStart l.2) with
    | some (h, pos) => some s!"label {h} -> {pos} is not an instruction start"
    | none =>
    match p.trace.find? (fun t => !isStart t.1) with
    | some (pos, _) => some s!"trace key {pos} is not an instruction start"
    | none =>
    match instrs.find? (fun (pos, o) => needsTrace o && !(p.trace.any (fun t => t.1 == pos))) with
    | some (pos, _) => some s!"instruction at {pos} has no trace entry"
    | none =>
    -- ids dense and one-to-one, every id named
    let ids := p.varIds.map (·.2)
    if !((List.range nvars).all (fun i => ids.contains i)) then some "variable ids are not dense" else
    if !(ids.length == nvars) then some "variable ids are not unique" else
    let rec dupH : List UInt32 → Bool
      | [] => false
      | x :: r => r.contains x || dupH r
    if dupH (p.varIds.map (·.1)) then some "duplicate variable handle" else
    if !((List.range nvars).all (fun i => p.varNames.any (fun n => n.1 == Hash.handleFromU32 (UInt32.ofNat i)))) then
      some "a variable id has no name" else
    if p.varNames.length != nvars then some "names and ids differ in number" else
    none

def WF (p : Program) : Prop := wfReason p = none

instance (p : Program) : Decidable (WF p) := inferInstanceAs (Decidable (wfReason p = none))

end Cao.Bytecode
