import CaoModel.OpenAddr
import CaoModel.Hash
/-!
# `CaoHashMap` — code-shaped model (of the repaired `hash_map.rs`)

Open addressing, linear probing, start slot `fib(hash) % cap`, load factor 0.7, growth
`(max cap 2 * 3) / 2`, backward-shift deletion. Stored hashes are a function of the key
(`hashOf`, never 0 after the remap fix), so a slot is modelled as `Option (K × V)`.

Every operation that allocates consumes one decision of the allocation oracle `Alloc`
(the `n`-th allocation fails iff `failAt = some n`). Operations return the entries they
displace, which is what the Rust drops (see `Driver/MapEngine.lean` for the drop log).
-/
namespace Cao

structure Alloc where
  n : Nat := 0
  failAt : Option Nat := none

def Alloc.next (a : Alloc) : Bool × Alloc := (a.failAt != some a.n, { a with n := a.n + 1 })

inductive Res (α : Type) where
  | ok (a : α)
  | allocErr
  | panic (why : String)

structure HMap (K V : Type) where
  cap : Nat
  slots : OA.Slots K V
  count : Nat

namespace HMap
variable {K V : Type} [DecidableEq K]

/-- `count as f32 > capacity as f32 * 0.7`, as an exact rational test (cross-checked against
    the crate for all `cap ≤ 4096` by the `consts` engine) -/
def needsGrow (count cap : Nat) : Bool := count * 10 > cap * 7

def growCap (cap : Nat) : Nat := (max cap 2 * 3) / 2

def home (hashOf : K → UInt64) (cap : Nat) (k : K) : Nat := Hash.fibHome64 (hashOf k) cap

/-- `with_capacity_in(capacity)`: `capacity.max(1)`, one allocation -/
def withCapacity (c : Nat) (al : Alloc) : Alloc × Res (HMap K V) :=
  let (ok, al) := al.next
  if ok then (al, .ok { cap := max c 1, slots := OA.empty, count := 0 }) else (al, .allocErr)

def get (hashOf : K → UInt64) (m : HMap K V) (k : K) : Option V :=
  OA.get m.cap (home hashOf m.cap) m.slots k

def contains (hashOf : K → UInt64) (m : HMap K V) (k : K) : Bool := (m.get hashOf k).isSome

/-- `adjust_capacity(newCap)`: allocate, re-insert in slot order without growth checks -/
def adjustCapacity (hashOf : K → UInt64) (m : HMap K V) (newCap : Nat) (al : Alloc) :
    Alloc × Res (HMap K V) :=
  let (ok, al) := al.next
  if !ok then (al, .allocErr) else
  match OA.rehash m.cap m.slots newCap (home hashOf newCap) with
  | some s => (al, .ok { cap := newCap, slots := OA.compact newCap s, count := m.count })
  | none => (al, .panic "find_ind does not terminate (rehash)")

def grow (hashOf : K → UInt64) (m : HMap K V) (al : Alloc) : Alloc × Res (HMap K V) :=
  adjustCapacity hashOf m (growCap m.cap) al

def reserve (hashOf : K → UInt64) (m : HMap K V) (additional : Nat) (al : Alloc) :
    Alloc × Res (HMap K V) :=
  adjustCapacity hashOf m (m.cap + additional) al

/-- `insert`: overwrite in place, or (new key) grow first if the load factor would be exceeded,
    then write. Returns the displaced entry. On `allocErr` the map is unchanged. -/
def insert (hashOf : K → UInt64) (m : HMap K V) (k : K) (v : V) (al : Alloc) :
    HMap K V × Alloc × Res (Option (K × V)) :=
  match OA.find m.cap (home hashOf m.cap) m.slots k with
  | none => (m, al, .panic "find_ind does not terminate")
  | some i =>
    match m.slots i with
    | some old => ({ m with slots := OA.upd m.slots i (some (k, v)) }, al, .ok (some old))
    | none =>
      if needsGrow (m.count + 1) m.cap then
        match grow hashOf m al with
        | (al, .ok m') =>
          match OA.put m'.cap (home hashOf m'.cap) m'.slots k v with
          | some (s, _) => ({ m' with slots := s, count := m'.count + 1 }, al, .ok none)
          | none => (m', al, .panic "find_ind does not terminate")
        | (al, .allocErr) => (m, al, .allocErr)
        | (al, .panic w) => (m, al, .panic w)
      else ({ m with slots := OA.upd m.slots i (some (k, v)), count := m.count + 1 }, al, .ok none)

/-- `entry(k).or_insert_with(|| v)`: returns `(inserted?, value now stored under k)` -/
def entryOrInsert (hashOf : K → UInt64) (m : HMap K V) (k : K) (v : V) (al : Alloc) :
    HMap K V × Alloc × Res (Bool × V) :=
  match m.get hashOf k with
  | some cur => (m, al, .ok (false, cur))
  | none =>
    match m.insert hashOf k v al with
    | (m', al, .ok _) => (m', al, .ok (true, v))
    | (m', al, .allocErr) => (m', al, .allocErr)
    | (m', al, .panic w) => (m', al, .panic w)

/-- `remove`: returns the removed entry -/
def remove (hashOf : K → UInt64) (m : HMap K V) (k : K) : HMap K V × Res (Option (K × V)) :=
  match OA.erase m.cap (home hashOf m.cap) m.slots k with
  | some (s, some kv) => ({ m with slots := s, count := m.count - 1 }, .ok (some kv))
  | some (_, none) => (m, .ok none)
  | none => (m, .panic "find_ind does not terminate")

def toList (m : HMap K V) : List (K × V) := OA.toList m.cap m.slots

/-- `clear`: returns the dropped entries -/
def clear (m : HMap K V) : HMap K V × List (K × V) :=
  ({ m with slots := OA.empty, count := 0 }, m.toList)

/-- `clone`: `with_capacity_in(self.capacity)` then `insert` every entry in iteration order -/
def clone (hashOf : K → UInt64) (m : HMap K V) (al : Alloc) : Alloc × Res (HMap K V) :=
  match withCapacity m.cap al with
  | (al, .ok fresh) =>
    m.toList.foldl (fun (acc : Alloc × Res (HMap K V)) kv =>
      match acc with
      | (al, .ok c) =>
        match c.insert hashOf kv.1 kv.2 al with
        | (c', al, .ok _) => (al, .ok c')
        | (_, al, .allocErr) => (al, .allocErr)
        | (_, al, .panic w) => (al, .panic w)
      | other => other) (al, .ok fresh)
  | (al, .allocErr) => (al, .allocErr)
  | (al, .panic w) => (al, .panic w)

end HMap
end Cao
