import CaoModel.Value
/-!
# Cards, functions, modules — the source language (mirror of `compiler/card.rs`, `module.rs`)

`CardBody`'s 43 variants are grouped by their child layout: `BinaryExpression`
(`Box<[Card; 2]>`) kinds share `bin`, `UnaryExpression` kinds share `un`, `Box<[Card; 3]>`
kinds share `tri`. `CardId`s are not modelled (the compiler ignores them; the editing API
treats cards as values).

Token syntax for the line protocol (no spaces): see `Card.toTok` / `Card.ofTok?`.
-/
namespace Cao

inductive BinKind where
  | add | sub | mul | div | less | lessOrEq | equals | notEquals | and | or | xor
  | getProperty | ifTrue | ifFalse | while | get | appendTable
  deriving DecidableEq, Repr

inductive UnKind where
  | not | ret | len | popTable
  deriving DecidableEq, Repr

inductive TriKind where
  | ifElse | setProperty
  deriving DecidableEq, Repr

inductive Card where
  | bin (k : BinKind) (a b : Card)
  | un (k : UnKind) (c : Card)
  | tri (k : TriKind) (a b c : Card)
  | scalarNil
  | createTable
  | abort
  | scalarInt (i : Int64)
  | scalarFloat (bits : UInt64)
  | stringLiteral (s : String)
  | comment (s : String)
  | function (name : String)
  | nativeFunction (name : String)
  | readVar (name : String)
  | setVar (name : String) (value : Card)
  | setGlobalVar (name : String) (value : Card)
  | callNative (name : String) (args : List Card)
  | call (name : String) (args : List Card)
  | repeat (i : Option String) (n body : Card)
  | forEach (i k v : Option String) (iterable body : Card)
  | composite (ty : String) (cards : List Card)
  | dynamicCall (args : List Card) (function : Card)
  | array (cards : List Card)
  | closure (arguments : List String) (cards : List Card)

instance : Inhabited Card := ⟨.scalarNil⟩

/-- `Function { arguments, cards }` -/
structure Func where
  arguments : List String
  cards : List Card

/-- `Module { submodules, functions, imports }` -/
inductive Module where
  | mk (submodules : List (String × Module)) (functions : List (String × Func)) (imports : List String)

namespace Module
def submodules : Module → List (String × Module) | .mk s _ _ => s
def functions : Module → List (String × Func) | .mk _ f _ => f
def imports : Module → List String | .mk _ _ i => i
end Module

/-! ## token syntax -/

def BinKind.name : BinKind → String
  | .add => "add" | .sub => "sub" | .mul => "mul" | .div => "div" | .less => "less"
  | .lessOrEq => "lesseq" | .equals => "eq" | .notEquals => "neq" | .and => "and" | .or => "or"
  | .xor => "xor" | .getProperty => "getprop" | .ifTrue => "iftrue" | .ifFalse => "iffalse"
  | .while => "while" | .get => "get" | .appendTable => "append"

def BinKind.all : List BinKind :=
  [.add, .sub, .mul, .div, .less, .lessOrEq, .equals, .notEquals, .and, .or, .xor,
   .getProperty, .ifTrue, .ifFalse, .while, .get, .appendTable]

def UnKind.name : UnKind → String
  | .not => "not" | .ret => "return" | .len => "len" | .popTable => "pop"
def UnKind.all : List UnKind := [.not, .ret, .len, .popTable]

def TriKind.name : TriKind → String
  | .ifElse => "ifelse" | .setProperty => "setprop"
def TriKind.all : List TriKind := [.ifElse, .setProperty]

def hexStr (s : String) : String :=
  "$" ++ String.join (s.toUTF8.toList.map (fun x => Val.hexOfNat x.toNat 2))

def optHex : Option String → String
  | none => "?"
  | some s => hexStr s

/-- `[x,y,…]` -/
def bracketToks (l : List String) : String := "[" ++ ",".intercalate l ++ "]"

mutual
  def Card.toTok : Card → String
    | .bin k a b => k.name ++ "(" ++ a.toTok ++ "," ++ b.toTok ++ ")"
    | .un k c => k.name ++ "(" ++ c.toTok ++ ")"
    | .tri k a b c => k.name ++ "(" ++ a.toTok ++ "," ++ b.toTok ++ "," ++ c.toTok ++ ")"
    | .scalarNil => "nil"
    | .createTable => "table"
    | .abort => "abort"
    | .scalarInt i => "int(#" ++ toString i.toInt ++ ")"
    | .scalarFloat b => "float($" ++ Val.hexOfNat b.toNat 16 ++ ")"
    | .stringLiteral s => "str(" ++ hexStr s ++ ")"
    | .comment s => "comment(" ++ hexStr s ++ ")"
    | .function s => "function(" ++ hexStr s ++ ")"
    | .nativeFunction s => "nativefn(" ++ hexStr s ++ ")"
    | .readVar s => "readvar(" ++ hexStr s ++ ")"
    | .setVar s c => "setvar(" ++ hexStr s ++ "," ++ c.toTok ++ ")"
    | .setGlobalVar s c => "setglobal(" ++ hexStr s ++ "," ++ c.toTok ++ ")"
    | .callNative s a => "callnative(" ++ hexStr s ++ "," ++ bracketToks (Card.toToks a) ++ ")"
    | .call s a => "call(" ++ hexStr s ++ "," ++ bracketToks (Card.toToks a) ++ ")"
    | .repeat i n b => "repeat(" ++ optHex i ++ "," ++ n.toTok ++ "," ++ b.toTok ++ ")"
    | .forEach i k v it b =>
      "foreach(" ++ optHex i ++ "," ++ optHex k ++ "," ++ optHex v ++ "," ++ it.toTok ++ "," ++ b.toTok ++ ")"
    | .composite ty cs => "composite(" ++ hexStr ty ++ "," ++ bracketToks (Card.toToks cs) ++ ")"
    | .dynamicCall a f => "dyncall(" ++ bracketToks (Card.toToks a) ++ "," ++ f.toTok ++ ")"
    | .array cs => "array(" ++ bracketToks (Card.toToks cs) ++ ")"
    | .closure args cs =>
      "closure([" ++ ",".intercalate (args.map hexStr) ++ "]," ++ bracketToks (Card.toToks cs) ++ ")"
  /-- `cs.map Card.toTok` (structural recursion over the nested list) -/
  def Card.toToks : List Card → List String
    | [] => []
    | c :: cs => c.toTok :: Card.toToks cs
end

def cardsTok (cs : List Card) : String := bracketToks (Card.toToks cs)

def Func.toTok (name : String) (f : Func) : String :=
  "fn(" ++ hexStr name ++ ",[" ++ ",".intercalate (f.arguments.map hexStr) ++ "]," ++ cardsTok f.cards ++ ")"

mutual
  def Module.toTok : Module → String
    | .mk subs fns imps =>
      "mod([" ++ ",".intercalate (imps.map hexStr) ++ "],[" ++
        ",".intercalate (fns.map (fun (n, f) => f.toTok n)) ++ "],[" ++
        ",".intercalate (Module.subsToks subs) ++ "])"
  /-- `subs.map (fun (n, m) => "sub(" ++ hexStr n ++ "," ++ m.toTok ++ ")")` -/
  def Module.subsToks : List (String × Module) → List String
    | [] => []
    | (n, m) :: rest => ("sub(" ++ hexStr n ++ "," ++ m.toTok ++ ")") :: Module.subsToks rest
end

/-! ### parser (recursive descent over `List Char`, fuel = input length) -/
namespace Parse

abbrev P (α : Type) := List Char → Option (α × List Char)

def expect (c : Char) : P Unit
  | x :: r => if x = c then some ((), r) else none
  | [] => none

def ident : P String := fun cs =>
  let rec go : List Char → List Char → List Char × List Char
    | c :: r, acc => if c.isAlpha then go r (c :: acc) else (acc.reverse, c :: r)
    | [], acc => (acc.reverse, [])
  let (a, r) := go cs []
  if a.isEmpty then none else some (String.ofList a, r)

def hexName : P String
  | '$' :: r =>
    let rec go : List Char → List Char → List Char × List Char
      | c :: r, acc => if (Val.hexVal? c).isSome then go r (c :: acc) else (acc.reverse, c :: r)
      | [], acc => (acc.reverse, [])
    let (h, r') := go r []
    let rec bytes : List Char → Option (List UInt8)
      | a :: b :: t => match Val.hexVal? a, Val.hexVal? b, bytes t with
          | some x, some y, some l => some (UInt8.ofNat (x * 16 + y) :: l)
          | _, _, _ => none
      | [] => some []
      | _ => none
    match bytes h with
    | some bs => match String.fromUTF8? (ByteArray.mk bs.toArray) with
        | some s => some (s, r')
        | none => none
    | none => none
  | _ => none

def optName : P (Option String)
  | '?' :: r => some (none, r)
  | cs => (hexName cs).map (fun (s, r) => (some s, r))

def intLit : P Int
  | '#' :: r =>
    let rec go : List Char → List Char → List Char × List Char
      | c :: r, acc => if c.isDigit || c == '-' then go r (c :: acc) else (acc.reverse, c :: r)
      | [], acc => (acc.reverse, [])
    let (d, r') := go r []
    (String.ofList d).toInt?.map (fun i => (i, r'))
  | _ => none

/-- comma separated list in brackets using element parser `p` -/
def listOf {α : Type} (p : P α) : Nat → P (List α)
  | 0 => fun _ => none
  | fuel+1 => fun cs =>
    match cs with
    | '[' :: ']' :: r => some ([], r)
    | '[' :: r =>
      let rec go (f : Nat) (cs : List Char) (acc : List α) : Option (List α × List Char) :=
        match f with
        | 0 => none
        | f+1 => match p cs with
          | some (x, ',' :: r) => go f r (x :: acc)
          | some (x, ']' :: r) => some ((x :: acc).reverse, r)
          | _ => none
      go (fuel+1) r []
    | _ => none

def binKind? (s : String) : Option BinKind := BinKind.all.find? (fun k => k.name == s)
def unKind? (s : String) : Option UnKind := UnKind.all.find? (fun k => k.name == s)
def triKind? (s : String) : Option TriKind := TriKind.all.find? (fun k => k.name == s)

def card : Nat → P Card
  | 0 => fun _ => none
  | fuel+1 => fun cs => do
    let (id, r) ← ident cs
    let c := card fuel
    let cl := listOf c (fuel + 1)
    if id == "nil" then return (.scalarNil, r)
    if id == "table" then return (.createTable, r)
    if id == "abort" then return (.abort, r)
    let ((), r) ← expect '(' r
    let fin (x : Card) (r : List Char) : Option (Card × List Char) := do
      let ((), r) ← expect ')' r
      return (x, r)
    match binKind? id, unKind? id, triKind? id with
    | some k, _, _ => do
      let (a, r) ← c r; let ((), r) ← expect ',' r; let (b, r) ← c r; fin (.bin k a b) r
    | _, some k, _ => do
      let (a, r) ← c r; fin (.un k a) r
    | _, _, some k => do
      let (a, r) ← c r; let ((), r) ← expect ',' r; let (b, r) ← c r
      let ((), r) ← expect ',' r; let (d, r) ← c r; fin (.tri k a b d) r
    | none, none, none =>
      if id == "int" then do let (i, r) ← intLit r; fin (.scalarInt (Int64.ofInt i)) r
      else if id == "float" then do
        let (h, r) ← (match r with
          | '$' :: t => some (t.take 16, t.drop 16)
          | _ => none)
        let n ← Val.natOfHex? (String.ofList h)
        fin (.scalarFloat (UInt64.ofNat n)) r
      else if id == "str" then do let (s, r) ← hexName r; fin (.stringLiteral s) r
      else if id == "comment" then do let (s, r) ← hexName r; fin (.comment s) r
      else if id == "function" then do let (s, r) ← hexName r; fin (.function s) r
      else if id == "nativefn" then do let (s, r) ← hexName r; fin (.nativeFunction s) r
      else if id == "readvar" then do let (s, r) ← hexName r; fin (.readVar s) r
      else if id == "setvar" then do
        let (s, r) ← hexName r; let ((), r) ← expect ',' r; let (v, r) ← c r; fin (.setVar s v) r
      else if id == "setglobal" then do
        let (s, r) ← hexName r; let ((), r) ← expect ',' r; let (v, r) ← c r; fin (.setGlobalVar s v) r
      else if id == "callnative" then do
        let (s, r) ← hexName r; let ((), r) ← expect ',' r; let (a, r) ← cl r; fin (.callNative s a) r
      else if id == "call" then do
        let (s, r) ← hexName r; let ((), r) ← expect ',' r; let (a, r) ← cl r; fin (.call s a) r
      else if id == "repeat" then do
        let (i, r) ← optName r; let ((), r) ← expect ',' r; let (n, r) ← c r
        let ((), r) ← expect ',' r; let (b, r) ← c r; fin (.repeat i n b) r
      else if id == "foreach" then do
        let (i, r) ← optName r; let ((), r) ← expect ',' r
        let (k, r) ← optName r; let ((), r) ← expect ',' r
        let (v, r) ← optName r; let ((), r) ← expect ',' r
        let (it, r) ← c r; let ((), r) ← expect ',' r; let (b, r) ← c r
        fin (.forEach i k v it b) r
      else if id == "composite" then do
        let (s, r) ← hexName r; let ((), r) ← expect ',' r; let (a, r) ← cl r; fin (.composite s a) r
      else if id == "dyncall" then do
        let (a, r) ← cl r; let ((), r) ← expect ',' r; let (f, r) ← c r; fin (.dynamicCall a f) r
      else if id == "array" then do let (a, r) ← cl r; fin (.array a) r
      else if id == "closure" then do
        let (a, r) ← listOf hexName (fuel + 1) r; let ((), r) ← expect ',' r
        let (b, r) ← cl r; fin (.closure a b) r
      else none

def func (fuel : Nat) : P (String × Func) := fun cs => do
  let (id, r) ← ident cs
  if id != "fn" then none
  let ((), r) ← expect '(' r
  let (n, r) ← hexName r; let ((), r) ← expect ',' r
  let (a, r) ← listOf hexName (fuel + 1) r; let ((), r) ← expect ',' r
  let (cs, r) ← listOf (card fuel) (fuel + 1) r
  let ((), r) ← expect ')' r
  return ((n, { arguments := a, cards := cs }), r)

def module : Nat → P Module
  | 0 => fun _ => none
  | fuel+1 => fun cs => do
    let (id, r) ← ident cs
    if id != "mod" then none
    let ((), r) ← expect '(' r
    let (imps, r) ← listOf hexName (fuel + 1) r; let ((), r) ← expect ',' r
    let (fns, r) ← listOf (func fuel) (fuel + 1) r; let ((), r) ← expect ',' r
    let sub : P (String × Module) := fun cs => do
      let (id, r) ← ident cs
      if id != "sub" then none
      let ((), r) ← expect '(' r
      let (n, r) ← hexName r; let ((), r) ← expect ',' r
      let (m, r) ← module fuel r
      let ((), r) ← expect ')' r
      return ((n, m), r)
    let (subs, r) ← listOf sub (fuel + 1) r
    let ((), r) ← expect ')' r
    return (.mk subs fns imps, r)

end Parse

def Card.ofTok? (s : String) : Option Card :=
  match Parse.card (s.length + 1) s.toList with
  | some (c, []) => some c
  | _ => none

def Module.ofTok? (s : String) : Option Module :=
  match Parse.module (s.length + 1) s.toList with
  | some (m, []) => some m
  | _ => none

end Cao
