import CaoModel.HashMap
/-!
# `HandleTable` — code-shaped model (of the repaired `handle_table.rs`)

Keys are non-zero 32-bit handles compared by value only; capacity is always a power of two
`≥ 2` (mask = `% cap`); load factor 0.69 checked *before* an insertion; `alloc_storage`
performs two allocations (keys, then values; the first is released if the second fails).
-/
namespace Cao

structure HTable (V : Type) where
  cap : Nat
  slots : OA.Slots UInt32 V
  count : Nat

namespace HTable
variable {V : Type}

/-- `pad_pot(cap)` for `cap ≥ 2`: clear all but the highest bit of `cap - 1`, shift left -/
def padPot (cap : Nat) : Nat := 2 * 2 ^ (Nat.log2 (cap - 1))

/-- `(count + 1) as f32 > capacity as f32 * 0.69` as an exact rational test -/
def needsGrow (countPlus1 cap : Nat) : Bool := countPlus1 * 100 > cap * 69

def home (cap : Nat) (k : UInt32) : Nat := Hash.fibHome32 k cap

/-- two allocations; `allocErr` if either fails -/
def allocStorage (al : Alloc) : Bool × Alloc :=
  let (ok1, al) := al.next
  if !ok1 then (false, al) else
  let (ok2, al) := al.next
  (ok2, al)

/-- `with_capacity(capacity)` after the fix: `pad_pot(capacity.max(2))` -/
def withCapacity (c : Nat) (al : Alloc) : Alloc × Res (HTable V) :=
  let (ok, al) := allocStorage al
  if ok then (al, .ok { cap := padPot (max c 2), slots := OA.empty, count := 0 }) else (al, .allocErr)

def get (t : HTable V) (k : UInt32) : Option V := OA.get t.cap (home t.cap) t.slots k
def contains (t : HTable V) (k : UInt32) : Bool := (t.get k).isSome

/-- `adjust_capacity(c)`: `pad_pot(c).max(4)`, re-insert via `_insert` in slot order -/
def adjustCapacity (t : HTable V) (c : Nat) (al : Alloc) : Alloc × Res (HTable V) :=
  let newCap := max (padPot c) 4
  let (ok, al) := allocStorage al
  if !ok then (al, .allocErr) else
  match OA.rehash t.cap t.slots newCap (home newCap) with
  | some s => (al, .ok { cap := newCap, slots := OA.compact newCap s, count := t.count })
  | none => (al, .panic "find_ind does not terminate (rehash)")

def grow (t : HTable V) (al : Alloc) : Alloc × Res (HTable V) :=
  adjustCapacity t ((max t.cap 2 * 3) / 2) al

/-- `reserve(n)`: `new = n + count; if new > cap { adjust_capacity((new as f32 * 1.69) as usize) }` -/
def reserve (t : HTable V) (n : Nat) (al : Alloc) : Alloc × Res (HTable V) :=
  let new := n + t.count
  if new > t.cap then adjustCapacity t (new * 169 / 100) al else (al, .ok t)

/-- `_insert` -/
def insertRaw (t : HTable V) (k : UInt32) (v : V) : Res (HTable V × Option (UInt32 × V)) :=
  match OA.put t.cap (home t.cap) t.slots k v with
  | some (s, old) => .ok ({ t with slots := s, count := if old.isSome then t.count else t.count + 1 }, old)
  | none => .panic "find_ind does not terminate"

inductive InsertErr | invalidHandle | alloc

/-- `insert`: rejects handle 0, grows first if `(count+1) > 0.69 cap`, then `_insert` -/
def insert (t : HTable V) (k : UInt32) (v : V) (al : Alloc) :
    HTable V × Alloc × Res (Except InsertErr (Option (UInt32 × V))) :=
  if k = 0 then (t, al, .ok (.error .invalidHandle)) else
  let step (t' : HTable V) (al : Alloc) :=
    match t'.insertRaw k v with
    | .ok (t'', old) => (t'', al, Res.ok (Except.ok old))
    | .allocErr => (t', al, .allocErr)
    | .panic w => (t', al, .panic w)
  if needsGrow (t.count + 1) t.cap then
    match t.grow al with
    | (al, .ok t') => step t' al
    | (al, .allocErr) => (t, al, .ok (.error .alloc))
    | (al, .panic w) => (t, al, .panic w)
  else step t al

/-- `entry(k).or_insert_with(|| v)` after the fix (grows like `insert` when the key is new;
    an allocation failure there is a panic: the signature has no error channel) -/
def entryOrInsert (t : HTable V) (k : UInt32) (v : V) (al : Alloc) :
    HTable V × Alloc × Res (Bool × V) :=
  match t.get k with
  | some cur => (t, al, .ok (false, cur))
  | none =>
    match t.insert k v al with
    | (t', al, .ok (.ok _)) => (t', al, .ok (true, v))
    | (t', al, .ok (.error _)) => (t', al, .panic "entry: failed to grow")
    | (t', al, .allocErr) => (t', al, .panic "entry: failed to grow")
    | (t', al, .panic w) => (t', al, .panic w)

def remove (t : HTable V) (k : UInt32) : HTable V × Res (Option (UInt32 × V)) :=
  match OA.erase t.cap (home t.cap) t.slots k with
  | some (s, some kv) => ({ t with slots := s, count := t.count - 1 }, .ok (some kv))
  | some (_, none) => (t, .ok none)
  | none => (t, .panic "find_ind does not terminate")

def toList (t : HTable V) : List (UInt32 × V) := OA.toList t.cap t.slots

def clear (t : HTable V) : HTable V × List (UInt32 × V) :=
  ({ t with slots := OA.empty, count := 0 }, t.toList)

def clone (t : HTable V) (al : Alloc) : Alloc × Res (HTable V) :=
  match (withCapacity t.cap al : Alloc × Res (HTable V)) with
  | (al, .ok fresh) =>
    t.toList.foldl (fun (acc : Alloc × Res (HTable V)) kv =>
      match acc with
      | (al, .ok c) =>
        match c.insert kv.1 kv.2 al with
        | (c', al, .ok (.ok _)) => (al, .ok c')
        | (_, al, .ok (.error _)) => (al, .allocErr)
        | (_, al, .allocErr) => (al, .allocErr)
        | (_, al, .panic w) => (al, .panic w)
      | other => other) (al, .ok fresh)
  | (al, .allocErr) => (al, .allocErr)
  | (al, .panic w) => (al, .panic w)

end HTable
end Cao
