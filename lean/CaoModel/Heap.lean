import CaoModel.Value
import CaoModel.OVal
import CaoModel.HashMap
import CaoModel.Generated.Layout
import CaoModel.Generated.Consts
/-!
# Heap objects, the accounting allocator and the collector (model of `runtime.rs`,
# `caolang_alloc.rs`, `cao_lang_object.rs` — repaired tree)

Objects live in an association list `addr ↦ Obj`. Tables are kept at their *specification*
level (an insertion-ordered association list plus the capacity of the hash part, which decides
when an insertion allocates) — justified by the refinement theorems of C07/C12 and the `tbl`
engine. `Mem` mirrors `CaoLangAllocator { allocated, next_gc, limit }` byte for byte:
every allocation is charged `size + align`.
-/
namespace Cao

inductive UpLoc where
  | stack (slot : Nat)      -- open: absolute value-stack slot
  | closed (v : Val)
  deriving Repr

inductive Obj where
  | table (cap : Nat) (entries : List (Val × Val))
  | str (bytes : List UInt8)
  | fn (handle arity : UInt32)
  | native (handle : UInt32)
  | closure (handle arity : UInt32) (upvalues : List Nat)
  | upvalue (loc : UpLoc)
  deriving Repr

structure Mem where
  allocated : Nat := 0
  nextGc : Nat
  limit : Nat
  deriving Repr

def Mem.initialGc (limit : Nat) : Nat := max (limit / Gen.gcInitDiv) Gen.gcInitMin

def Mem.new (limit : Nat) : Mem := { allocated := 0, nextGc := Mem.initialGc limit, limit := limit }

structure Heap where
  objs : List (Nat × Obj) := []
  next : Nat := 1
  deriving Repr

namespace Heap

def get (h : Heap) (a : Nat) : Option Obj := (h.objs.find? (·.1 == a)).map (·.2)

def set (h : Heap) (a : Nat) (o : Obj) : Heap :=
  { h with objs := h.objs.map (fun p => if p.1 == a then (a, o) else p) }

/-- charge of the object header: `Layout::new::<CaoLangObject>()` -/
def objCharge : Nat := Gen.objSize + Gen.objAlign
/-- `CaoLangString::layout(len) = Layout::array::<char>(len)` -/
def strCharge (len : Nat) : Nat := 4 * len + 4
/-- `CaoHashMap::<Value, Value>::layout(cap)`: `u64[cap] ++ Value[cap] ++ Value[cap]`, align 8 -/
def tableCharge (cap : Nat) : Nat := (8 + 2 * Gen.valueSize) * cap + 8

/-- bytes released when the object is freed (`drop_in_place` + header) -/
def chargeOf : Obj → Nat
  | .table cap _ => objCharge + tableCharge cap
  | .str b => objCharge + strCharge b.length
  | _ => objCharge

/-- direct references of an object (what `gc` enqueues) -/
def children : Obj → List Val
  | .table _ es => es.flatMap (fun e => [e.1, e.2])
  | .closure _ _ ups => ups.map Val.obj
  | .upvalue (.closed v) => [v]
  | _ => []

end Heap

/-- deep conversion of a value (`OwnedValue::try_from`, extended with function values);
    `none` when `fuel` runs out (cyclic or too deep) or an address is dangling -/
def own (h : Heap) : Nat → Val → Option OVal
  | _, .nil => some .nil
  | _, .int i => some (.int i)
  | _, .real b => some (.real b)
  | 0, .obj _ => none
  | fuel+1, .obj a =>
    match h.get a with
    | none => none
    | some (.str b) => some (.str b)
    | some (.fn hd ar) => some (.fn hd ar)
    | some (.native hd) => some (.native hd)
    | some (.closure hd ar _) => some (.closure hd ar)
    | some (.upvalue _) => none
    | some (.table _ es) =>
      (es.mapM (fun (k, v) => do
        let k' ← own h fuel k
        let v' ← own h fuel v
        pure (k', v'))).map OVal.table

/-- fuel that suffices for every acyclic value: one level per object -/
def ownFuel (h : Heap) : Nat := h.objs.length + 1

def ownD (h : Heap) (v : Val) : OVal := (own h (ownFuel h) v).getD .nil

end Cao
