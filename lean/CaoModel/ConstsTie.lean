import CaoModel.Generated.Consts
import CaoModel.Generated.Instr
import CaoModel.HashMap
import CaoModel.HandleTable
import CaoModel.Hash
/-!
# Tie between hand-written model constants and the constants extracted from /repo

`Generated/Consts.lean` is rewritten from the Rust sources on every run. The models (and the
proofs about them) use literals; this file fails to compile as soon as a literal no longer equals
what the code says, which `./check` reports as a broken proof obligation of every property that
depends on the constant.
-/
namespace Cao.ConstsTie
open Cao

/-- `CaoHashMap`: load factor 0.7, growth `(max cap 2 * 3) / 2` -/
theorem hashMap_consts :
    Gen.hmLoadNum = 7 ∧ Gen.hmLoadDen = 10 ∧ Gen.hmGrowMin = 2 ∧ Gen.hmGrowMul = 3 ∧ Gen.hmGrowDiv = 2 := by decide

/-- `HandleTable`: load factor 0.69, same growth, default capacity 16, minimum 4 after growth -/
theorem handleTable_consts :
    Gen.htLoadNum = 69 ∧ Gen.htLoadDen = 100 ∧ Gen.htGrowMin = 2 ∧ Gen.htGrowMul = 3 ∧ Gen.htGrowDiv = 2 ∧
    Gen.htDefaultCap = 16 ∧ Gen.htMinAdjust = 4 := by decide

/-- FNV-1a and Fibonacci hashing constants of both tables and of `hash_u64` -/
theorem hash_consts :
    Gen.fnvOffset = Hash.fnvOffset.toNat ∧ Gen.fnvPrime = Hash.fnvPrime.toNat ∧
    Gen.fnvOffsetHt = Hash.fnvOffset.toNat ∧ Gen.fnvPrimeHt = Hash.fnvPrime.toNat ∧
    Gen.fibMul = Hash.fibMul ∧ Gen.fibMulHt = Hash.fibMul ∧ Gen.hashU64Mul = 0x45d0f3b := by decide

/-- VM configuration defaults -/
theorem vm_consts :
    Gen.memLimit = 409600 ∧ Gen.stackSize = 256 ∧ Gen.callStackSize = 256 ∧ Gen.maxInstr = 1000 ∧
    Gen.gcInitDiv = 4 ∧ Gen.gcInitMin = 16 ∧ Gen.tableInitCap = 8 ∧ Gen.recursionLimit = 64 := by decide

/-- the instruction set has 47 opcodes numbered densely from 0, `Exit` = 10 -/
theorem instr_dense :
    Gen.instrTable.length = 47 ∧ (Gen.instrTable.map (·.2.1)) = List.range 47 ∧ Gen.op.exit = 10 := by decide

end Cao.ConstsTie
