import CaoModel.Card
import CaoModel.Hash
import CaoModel.Generated.Instr
import CaoModel.Generated.Consts
/-!
# The compiler — model of `compiler.rs` / `module.rs::into_ir_stream` (repaired tree)

A line-by-line mirror: same emission order, same scope/locals/upvalue bookkeeping, same label /
variable / trace tables (kept as insertion logs), same error points. The output is compared
**byte for byte** with the real compiler by the `compile` engine.

`panic` outcomes mark places where the Rust would panic (`ArrayVec::push` overflow of the
upvalue list, `HandleTable::insert(..).unwrap()` on a zero handle).
-/
namespace Cao.Compiler
open Cao

inductive CErrKind where
  | emptyProgram | noMain | tooManyCards | duplicateName | duplicateModule | missingSubProgram
  | invalidJump | internalError | tooManyLocals | tooManyUpvalues | badVariableName | emptyVariable
  | badFunctionName | recursionLimitReached | badImport | ambigousImport | superLimitReached
  deriving DecidableEq, Repr

def CErrKind.name : CErrKind → String
  | .emptyProgram => "EmptyProgram" | .noMain => "NoMain" | .tooManyCards => "TooManyCards"
  | .duplicateName => "DuplicateName" | .duplicateModule => "DuplicateModule"
  | .missingSubProgram => "MissingSubProgram" | .invalidJump => "InvalidJump"
  | .internalError => "InternalError" | .tooManyLocals => "TooManyLocals"
  | .tooManyUpvalues => "TooManyUpvalues" | .badVariableName => "BadVariableName"
  | .emptyVariable => "EmptyVariable" | .badFunctionName => "BadFunctionName"
  | .recursionLimitReached => "RecursionLimitReached" | .badImport => "BadImport"
  | .ambigousImport => "AmbigousImport" | .superLimitReached => "SuperLimitReached"

/-- `Trace { namespace, index: CardIndex { function, indices } }` -/
structure Trace where
  ns : List String
  function : Nat
  indices : List Nat
  deriving DecidableEq, Repr

inductive CErr where
  | err (k : CErrKind) (loc : Option Trace)
  | panic (why : String)

/-- `FunctionIr` -/
structure FunctionIr where
  functionIndex : Nat            -- index within its module
  name : String
  arguments : List String
  cards : List Card
  ns : List String
  imports : List (String × String)   -- name ↦ full import path
  handle : UInt32                -- `Handle::from_u64(global index)`
  deriving Inhabited

def FunctionIr.fullName (f : FunctionIr) : String :=
  if f.ns.isEmpty then f.name else ".".intercalate f.ns ++ "." ++ f.name

/-! ## `into_ir_stream` -/

/-- `is_name_valid`; non-ASCII characters are treated as alphanumeric (the generators only use
    non-ASCII letters) -/
def isNameValid (name : String) : Bool :=
  name.toList.all (fun c => c.isAlphanum || c == '_' || c.toNat ≥ 128) && !name.isEmpty && name != "super"

def executeImports (imports : List String) : Except CErrKind (List (String × String)) :=
  imports.foldlM (fun acc imp =>
    match imp.splitOn "." with
    | [] | [_] => .error .badImport
    | parts =>
      let name := parts.getLast!
      if acc.any (fun p => p.1 == name) then .error .ambigousImport
      else .ok (acc ++ [(name, imp)])) []

/-- duplicate sibling module names, recursively -/
partial def ensureInvariants (m : Module) : Except CErrKind Unit := do
  let rec dup : List String → Bool
    | [] => false
    | x :: r => r.contains x || dup r
  if dup (m.submodules.map (·.1)) then throw .duplicateModule
  for (_, s) in m.submodules do
    ensureInvariants s

partial def flatten (m : Module) (limit : Nat) (ns : List String) (out : Array FunctionIr) :
    Except CErrKind (Array FunctionIr) := do
  if ns.length ≥ limit then throw .recursionLimitReached
  let imports ← executeImports m.imports
  let mut out := out
  let mut i := 0
  for (name, f) in m.functions do
    if !isNameValid name then throw .badFunctionName
    out := out.push { functionIndex := i, name := name, arguments := f.arguments, cards := f.cards,
                      ns := ns, imports := imports, handle := Hash.handleFromU64 (UInt64.ofNat out.size) }
    i := i + 1
  for (name, s) in m.submodules do
    -- (repaired) module names are validated like function names
    if !isNameValid name then throw .badFunctionName
    out ← flatten s limit (ns ++ [name]) out
  return out

/-- the stdlib module is a parameter: it is generated from `/repo` (see `Generated/Stdlib.lean`) -/
def intoIrStream (m : Module) (std : Module) (limit : Nat) : Except CErrKind (Array FunctionIr) := do
  let m := Module.mk (m.submodules ++ [("std", std)]) m.functions m.imports
  ensureInvariants m
  let mainIdx ← match m.functions.findIdx? (fun p => p.1 == "main") with
    | some i => pure i
    | none => throw .noMain
  let out ← flatten m limit [] #[]
  -- move the main function to the front
  let a := out[0]!
  let b := out[mainIdx]!
  return (out.set! 0 b).set! mainIdx a

/-! ## compiler state -/

structure Local where
  name : String
  depth : Int
  captured : Bool

structure CState where
  bytecode : Array UInt8 := #[]
  data : Array UInt8 := #[]
  labels : List (UInt32 × Nat) := []          -- insertion log (later wins)
  varIds : List (UInt32 × Nat) := []          -- first wins (`entry().or_insert_with`)
  varNames : List (UInt32 × String) := []     -- first wins
  trace : List (Nat × Trace) := []            -- insertion log (later wins)
  nextVar : Nat := 0
  locals : List (List Local) := [[]]          -- one list per nested compile context
  upvalues : List (List (Bool × UInt8)) := [[]]
  scopeDepth : List Int := [0]
  curFunction : Nat := 0
  curIndices : List Nat := []
  functionId : Nat := 0
  ns : List String := []
  imports : List (String × String) := []
  fnHandle : UInt32 := 0                      -- handle of the function being compiled
  jumpTable : List (String × (UInt32 × UInt32)) := []

abbrev CM := StateT CState (Except CErr)

def curTrace : CM Trace := do
  let s ← get
  return { ns := s.ns, function := s.curFunction, indices := s.curIndices }

def fail {α : Type} (k : CErrKind) : CM α := do
  let t ← curTrace
  throw (.err k (some t))

def le32 (x : UInt32) : List UInt8 := Hash.le32 x
def le64 (x : UInt64) : List UInt8 := Hash.le64 x

def emitBytes (bs : List UInt8) : CM Unit :=
  modify fun s => { s with bytecode := bs.foldl (fun a b => a.push b) s.bytecode }

def emitU32 (x : Nat) : CM Unit := emitBytes (le32 (UInt32.ofNat x))

/-- opcode numbers come from the generated instruction table (`Generated/Instr.lean`) -/
def op : Gen.Ops := Gen.op

/-- `push_instruction`: trace entry at the current length, then the opcode -/
def pushInstr (o : UInt8) : CM Unit := do
  let t ← curTrace
  modify fun s => { s with trace := s.trace ++ [(s.bytecode.size, t)], bytecode := s.bytecode.push o }

def pushSub (i : Nat) : CM Unit := modify fun s => { s with curIndices := s.curIndices ++ [i] }
def popSub : CM Unit := modify fun s => { s with curIndices := s.curIndices.dropLast }

/-- `CardIndex::as_handle` -/
def indexHandle (function : Nat) (indices : List Nat) : UInt32 :=
  Hash.handleFromU64 (UInt64.ofNat function) ^^^
    Hash.handleFromBytes (indices.flatMap (fun i => le32 (UInt32.ofNat i)))

def insertLabel (h : UInt32) (pos : Nat) : CM Unit := do
  if h == 0 then throw (.panic "HandleTable::insert with handle 0")
  modify fun s => { s with labels := s.labels ++ [(h, pos)] }

def patchI32 (at_ : Nat) (v : Nat) : CM Unit :=
  modify fun s =>
    let bs := le32 (UInt32.ofNat v)
    { s with bytecode := (List.range 4).foldl (fun a i => a.set! (at_ + i) (bs.getD i 0)) s.bytecode }

def scopeBegin : CM Unit :=
  modify fun s => { s with scopeDepth := match s.scopeDepth.reverse with
    | d :: r => ((d + 1) :: r).reverse
    | [] => [] }

def curDepth (s : CState) : Int := s.scopeDepth.getLast?.getD 0

/-- `scope_end`: leave the scope, popping its locals (`CloseUpvalue` for captured ones) -/
def scopeEnd : CM Unit := do
  modify fun s => { s with scopeDepth := match s.scopeDepth.reverse with
    | d :: r => ((d - 1) :: r).reverse
    | [] => [] }
  let s ← get
  let d := curDepth s
  let ls := s.locals.getD s.functionId []
  let keep := ls.reverse.dropWhile (fun l => l.depth > d) |>.reverse
  let gone := (ls.drop keep.length).reverse
  let bytes := gone.map (fun l => if l.captured then op.closeUpvalue else op.pop)
  modify fun s => { s with locals := s.locals.set s.functionId keep }
  emitBytes bytes

def addLocalUnchecked (name : String) : CM Nat := do
  let s ← get
  let ls := s.locals.getLast?.getD []
  if ls.length ≥ 255 then fail .tooManyLocals
  let l : Local := { name := name, depth := curDepth s, captured := false }
  modify fun s => { s with locals := s.locals.dropLast ++ [ls ++ [l]] }
  return ls.length

def validateVarName (name : String) : CM Unit := do
  if name.isEmpty then fail .emptyVariable

def addLocal (name : String) : CM Nat := do
  validateVarName name
  addLocalUnchecked name

def addUpvalue (index : UInt8) (isLocal : Bool) (functionId : Nat) : CM Nat := do
  let s ← get
  let ups := s.upvalues.getD functionId []
  match ups.findIdx? (fun u => u.2 == index && u.1 == isLocal) with
  | some i => return i
  | none =>
    if ups.length ≥ 255 then throw (.panic "ArrayVec::push: upvalue capacity exceeded")
    modify fun s => { s with upvalues := s.upvalues.set functionId (ups ++ [(isLocal, index)]) }
    return ups.length

inductive Variable where
  | global
  | local_ (i : Nat)
  | upvalue (i : Nat)

/-- `resolve_upvalue` -/
def resolveUpvalue (name : String) : Nat → CM Variable
  | 0 => return .global
  | fid+1 => do
    let s ← get
    let ls := s.locals.getD fid []
    match ls.findIdx? (fun l => l.name == name) with
    | some i =>
      let ls' := ls.set i { (ls.getD i ⟨"", 0, false⟩) with captured := true }
      modify fun s => { s with locals := s.locals.set fid ls' }
      let u ← addUpvalue (UInt8.ofNat i) true (fid+1)
      return .upvalue u
    | none =>
      match ← resolveUpvalue name fid with
      | .upvalue i =>
        let u ← addUpvalue (UInt8.ofNat i) false (fid+1)
        return .upvalue u
      | v => return v

/-- `resolve_var` -/
def resolveVar (name : String) : CM Variable := do
  validateVarName name
  let s ← get
  let ls := s.locals.getD s.functionId []
  -- `.iter_mut().enumerate().rev()`: the last local with that name
  match (List.range ls.length).reverse.find? (fun i => (ls.getD i ⟨"", 0, false⟩).name == name) with
  | some i => return .local_ i
  | none => resolveUpvalue name s.functionId

def readLocalVar (i : Nat) : CM Unit := do pushInstr op.readLocalVar; emitU32 i
def writeLocalVar (i : Nat) : CM Unit := do pushInstr op.setLocalVar; emitU32 i
def readUpvalue (i : Nat) : CM Unit := do pushInstr op.readUpvalue; emitU32 i
def writeUpvalue (i : Nat) : CM Unit := do pushInstr op.setUpvalue; emitU32 i

/-- `push_str`: operand = offset into `data`; `encode_str` appends `len:u32 ++ bytes` -/
def pushStr (s : String) : CM Unit := do
  let st ← get
  emitU32 st.data.size
  let bytes := s.toUTF8.toList
  modify fun st => { st with data := (le32 (UInt32.ofNat bytes.length) ++ bytes).foldl (fun a b => a.push b) st.data }

/-- global variable id of `name` (`ids.entry(hash).or_insert_with(next_var++)`, then `names`) -/
def globalId (name : String) : CM Nat := do
  let h := Hash.handleFromBytes name.toUTF8.toList
  if h == 0 then throw (.panic "HandleTable::entry with handle 0")
  let s ← get
  let id ← match s.varIds.find? (fun p => p.1 == h) with
    | some (_, id) => pure id
    | none => do
      modify fun s => { s with varIds := s.varIds ++ [(h, s.nextVar)], nextVar := s.nextVar + 1 }
      pure s.nextVar
  let hn := Hash.handleFromU32 (UInt32.ofNat id)
  let s ← get
  if !(s.varNames.any (fun p => p.1 == hn)) then
    modify fun s => { s with varNames := s.varNames ++ [(hn, name)] }
  return id

/-- `read_var_card` -/
def readVarCard (varName : String) : CM Unit := do
  let (v, props) := match varName.splitOn "." with
    | [] => ("", [])
    | v :: ps => (v, ps)
  match ← resolveVar v with
  | .local_ i => readLocalVar i
  | .upvalue i => readUpvalue i
  | .global =>
    let id ← globalId v
    pushInstr op.readGlobalVar
    emitU32 id
  for p in props do
    if !p.isEmpty then
      pushInstr op.stringLiteral
      pushStr p
      pushInstr op.getProperty

/-- `super_depth(import)`: number of `super.` occurrences and the text after the last one -/
def superDepth (imp : String) : Nat × Option String :=
  match imp.splitOn "super." with
  | [] | [_] => (0, none)
  | parts => (parts.length - 1, some parts.getLast!)

def joinNs (ns : List String) (tail : String) : String :=
  String.join (ns.map (· ++ ".")) ++ tail

def lookupJump (s : CState) (name : String) : Option (UInt32 × UInt32) :=
  (s.jumpTable.find? (fun p => p.1 == name)).map (·.2)

/-- `resolve_function` (repaired: too many `super.` is `SuperLimitReached`, not a panic) -/
def resolveFunction (function : String) : CM (UInt32 × UInt32) := do
  let s ← get
  if let some r := lookupJump s function then return r
  if let some r := lookupJump s (joinNs s.ns function) then return r
  -- function import
  if let some (_, alias_) := s.imports.find? (fun p => p.1 == function) then
    let (sd, suffix) := superDepth alias_
    if sd > s.ns.length then fail .superLimitReached
    let name := joinNs (s.ns.take (s.ns.length - sd)) (suffix.getD alias_)
    if let some r := lookupJump s name then return r
  -- module-prefix import
  match function.splitOn "." with
  | pre :: rest@(_ :: _) =>
    let suffix := ".".intercalate rest
    if let some (_, alias_) := s.imports.find? (fun p => p.1 == pre) then
      let (sd, sfx) := superDepth alias_
      if sd > s.ns.length then fail .superLimitReached
      let name := joinNs (s.ns.take (s.ns.length - sd)) (alias_ ++ "." ++ sfx.getD suffix)
      if let some r := lookupJump s name then return r
    fail .invalidJump
  | _ => fail .invalidJump

def encodeJump (function : String) : CM Unit := do
  let (h, arity) ← resolveFunction function
  emitBytes (le32 h)
  emitBytes (le32 arity)

def closureMask : UInt64 := UInt64.ofNat Gen.closureMask

mutual
  /-- `process_card` -/
  partial def processCard (card : Card) : CM Unit := do
    let s ← get
    insertLabel (indexHandle s.curFunction s.curIndices) s.bytecode.size
    match card with
    | .composite _ cards =>
      for (c, i) in cards.zipIdx do
        pushSub i; processCard c; popSub
    | .forEach i k v iterable body =>
      pushSub 0; processCard iterable; popSub
      scopeBegin
      let loopVar ← addLocalUnchecked ""
      let loopItem ← addLocalUnchecked ""
      let vIndex ← addLocalUnchecked ""
      let kIndex ← addLocalUnchecked ""
      let iIndex ← addLocalUnchecked ""
      pushInstr op.beginForEach
      emitU32 loopVar; emitU32 loopItem; emitU32 iIndex; emitU32 kIndex; emitU32 vIndex
      let blockBegin := (← get).bytecode.size
      pushInstr op.forEach
      emitU32 loopVar; emitU32 loopItem; emitU32 iIndex; emitU32 kIndex; emitU32 vIndex
      encodeIfThen op.gotoIfFalse do
        scopeBegin
        if let some v := v then
          let x ← addLocal v; readLocalVar vIndex; writeLocalVar x
        if let some k := k then
          let x ← addLocal k; readLocalVar kIndex; writeLocalVar x
        if let some i := i then
          let x ← addLocal i; readLocalVar iIndex; writeLocalVar x
        pushSub 1; processCard body; popSub
        scopeEnd
        pushInstr op.goto
        emitU32 blockBegin
      scopeEnd
    | .bin .while cond body =>
      let blockBegin := (← get).bytecode.size
      pushSub 0; processCard cond; popSub
      pushSub 1
      encodeIfThen op.gotoIfFalse do
        processCard body
        pushInstr op.goto
        emitU32 blockBegin
      popSub
    | .repeat i n body =>
      pushSub 0; processCard n; popSub
      scopeBegin
      let loopN ← addLocalUnchecked ""
      let loopCounter ← addLocalUnchecked ""
      writeLocalVar loopN
      processCard (.scalarInt 0)
      writeLocalVar loopCounter
      let blockBegin := (← get).bytecode.size
      readLocalVar loopCounter
      readLocalVar loopN
      pushInstr op.less
      encodeIfThen op.gotoIfFalse do
        scopeBegin
        if let some var := i then
          let x ← addLocal var; readLocalVar loopCounter; writeLocalVar x
        pushSub 1; processCard body; popSub
        scopeEnd
        processCard (.scalarInt 1)
        readLocalVar loopCounter
        pushInstr op.add
        writeLocalVar loopCounter
        pushInstr op.goto
        emitU32 blockBegin
      scopeEnd
    | .readVar v => readVarCard v
    | .setVar name value =>
      compileSubexpr [value]
      match name.splitOn "." with
      | [] | [_] =>
        match ← resolveVar name with
        | .local_ i => writeLocalVar i
        | .global => let i ← addLocal name; writeLocalVar i
        | .upvalue i => writeUpvalue i
      | parts =>
        let readProps := ".".intercalate parts.dropLast
        readVarCard readProps
        pushInstr op.stringLiteral
        pushStr parts.getLast!
        pushInstr op.setProperty
    | .setGlobalVar name value =>
      compileSubexpr [value]
      pushInstr op.setGlobalVar
      if name.isEmpty then fail .emptyVariable
      let id ← globalId name
      emitU32 id
    | .tri .ifElse cond thenC elseC =>
      compileSubexpr [cond]
      pushSub 1
      let idxRef ← encodeIfThenRet op.gotoIfFalse do
        processCard thenC
        pushInstr op.goto
        let idx := (← get).bytecode.size
        emitU32 0xEEF
        return idx
      popSub
      pushSub 2; processCard elseC; popSub
      patchI32 idxRef (← get).bytecode.size
    | .bin .ifFalse cond body =>
      compileSubexpr [cond]
      pushSub 1
      encodeIfThen op.gotoIfTrue (processCard body)
      popSub
    | .bin .ifTrue cond body =>
      compileSubexpr [cond]
      pushSub 1
      encodeIfThen op.gotoIfFalse (processCard body)
      popSub
    | .call name args =>
      compileSubexpr args
      pushInstr op.functionPointer
      encodeJump name
      pushInstr op.callFunction
    | .stringLiteral s =>
      pushInstr op.stringLiteral
      pushStr s
    | .callNative name args =>
      compileSubexpr args
      pushInstr op.callNative
      emitBytes (le32 (Hash.handleFromBytes name.toUTF8.toList))
    | .scalarInt i =>
      pushInstr op.scalarInt
      emitBytes (le64 i.toUInt64)
    | .scalarFloat b =>
      pushInstr op.scalarFloat
      emitBytes (le64 b)
    | .function name =>
      pushInstr op.functionPointer
      encodeJump name
    | .closure arguments cards =>
      pushInstr op.goto
      let gotoIndex := (← get).bytecode.size
      emitU32 0xEEF
      -- compile_begin
      modify fun s => { s with functionId := s.functionId + 1, locals := s.locals ++ [[]],
                               upvalues := s.upvalues ++ [[]], scopeDepth := s.scopeDepth ++ [0] }
      let s ← get
      -- (repaired) keyed by the enclosing function's unique handle, not its module-local index
      let fh := s.fnHandle ^^^ Hash.handleFromBytes (s.curIndices.flatMap (fun i => le32 (UInt32.ofNat i)))
                  ^^^ Hash.handleFromU64 closureMask
      insertLabel fh s.bytecode.size
      scopeBegin
      for p in arguments.reverse do
        let _ ← addLocal p
      compileSubexpr cards
      scopeEnd
      pushInstr op.scalarNil
      pushInstr op.ret
      patchI32 gotoIndex (← get).bytecode.size
      pushInstr op.closure
      emitBytes (le32 fh)
      emitU32 arguments.length
      let s ← get
      let ups := s.upvalues.getD s.functionId []
      for (isLocal, index) in ups do
        pushInstr op.copyLast
        pushInstr op.registerUpvalue
        emitBytes [index, if isLocal then 1 else 0]
      -- compile_end
      modify fun s => { s with functionId := s.functionId - 1, locals := s.locals.dropLast,
                               upvalues := s.upvalues.dropLast, scopeDepth := s.scopeDepth.dropLast }
    | .nativeFunction name =>
      pushInstr op.nativeFunctionPointer
      pushStr name
    | .array cards =>
      pushInstr op.initTable
      let tableVar ← addLocalUnchecked ""
      writeLocalVar tableVar
      for (c, i) in cards.zipIdx do
        pushInstr op.scalarNil
        pushSub i; processCard c; popSub
        readLocalVar tableVar
        pushInstr op.appendTable
      readLocalVar tableVar
    | .un k c =>
      compileSubexpr [c]
      pushInstr (match k with | .len => op.len | .ret => op.ret | .not => op.not | .popTable => op.popTable)
    | .bin k a b =>
      compileSubexpr [a, b]
      pushInstr (match k with
        | .get => op.nthRow | .and => op.and | .or => op.or | .xor => op.xor | .equals => op.equals
        | .less => op.less | .lessOrEq => op.lessOrEq | .notEquals => op.notEquals | .add => op.add
        | .sub => op.sub | .mul => op.mul | .div => op.div | .getProperty => op.getProperty
        | .appendTable => op.appendTable
        | .while | .ifTrue | .ifFalse => op.exit /- unreachable: handled above -/)
    | .tri .setProperty a b c =>
      compileSubexpr [a, b, c]
      pushInstr op.setProperty
    | .dynamicCall args function =>
      -- (repaired) child numbering as in `get_child`: function = 0, arguments = 1..n
      for (c, i) in args.zipIdx do
        pushSub (i + 1); processCard c; popSub
      pushSub 0; processCard function; popSub
      pushInstr op.callFunction
    | .scalarNil => pushInstr op.scalarNil
    | .abort => pushInstr op.exit
    | .createTable => pushInstr op.initTable
    | .comment _ => pure ()

  /-- `compile_subexpr` -/
  partial def compileSubexpr (cards : List Card) : CM Unit := do
    for (c, i) in cards.zipIdx do
      pushSub i; processCard c; popSub

  /-- `encode_if_then` -/
  partial def encodeIfThen (skip : UInt8) (thenBlock : CM Unit) : CM Unit := do
    pushInstr skip
    let idx := (← get).bytecode.size
    emitU32 0
    thenBlock
    patchI32 idx (← get).bytecode.size

  partial def encodeIfThenRet (skip : UInt8) (thenBlock : CM Nat) : CM Nat := do
    pushInstr skip
    let idx := (← get).bytecode.size
    emitU32 0
    let r ← thenBlock
    patchI32 idx (← get).bytecode.size
    return r
end

/-- `process_function` -/
def processFunction (f : FunctionIr) : CM Unit := do
  modify fun s => { s with ns := f.ns, imports := f.imports, fnHandle := f.handle }
  for p in f.arguments.reverse do
    let _ ← addLocal p
  for (c, ic) in f.cards.zipIdx do
    popSub
    pushSub ic
    processCard c

def addFunction (f : FunctionIr) : CM Unit := do
  let s ← get
  -- (repaired) the duplicate test uses the full dotted name
  if s.jumpTable.any (fun p => p.1 == f.fullName) then fail .duplicateName
  modify fun s => { s with jumpTable := s.jumpTable ++ [(f.fullName, (f.handle, UInt32.ofNat f.arguments.length))] }

/-- `Compiler::compile` -/
def compileUnit (unit : Array FunctionIr) : CM Unit := do
  if unit.isEmpty then fail .emptyProgram
  for f in unit do
    addFunction f
  -- stage 2
  let main := unit[0]!
  modify fun s => { s with curFunction := main.functionIndex, curIndices := [0] }
  scopeBegin
  processFunction main
  modify fun s => { s with curFunction := main.functionIndex, curIndices := [main.cards.length] }
  scopeEnd
  processCard .abort
  for f in unit.toList.drop 1 do
    modify fun s => { s with curFunction := f.functionIndex, curIndices := [] }
    insertLabel f.handle (← get).bytecode.size
    scopeBegin
    processFunction f
    scopeEnd
    pushInstr op.scalarNil
    pushInstr op.ret
  modify fun s => { s with imports := [] }
  pushInstr op.exit

/-- the compiled program, with the tables resolved to their final content -/
structure Program where
  bytecode : Array UInt8
  data : Array UInt8
  labels : List (UInt32 × Nat)
  varIds : List (UInt32 × Nat)
  varNames : List (UInt32 × String)
  trace : List (Nat × Trace)

/-- later insertions win -/
def resolveLog {α β : Type} [BEq α] (log : List (α × β)) : List (α × β) :=
  log.foldl (fun acc p => acc.filter (fun q => !(q.1 == p.1)) ++ [p]) []

def compile (m : Module) (std : Module) (limit : Nat := Gen.recursionLimit) : Except CErr Program :=
  match intoIrStream m std limit with
  | .error k => .error (.err k (some { ns := [], function := 0, indices := [] }))
  | .ok unit =>
    match (compileUnit unit).run {} with
    | .error e => .error e
    | .ok ((), s) =>
      .ok { bytecode := s.bytecode, data := s.data, labels := resolveLog s.labels,
            varIds := s.varIds, varNames := s.varNames, trace := resolveLog s.trace }

end Cao.Compiler
