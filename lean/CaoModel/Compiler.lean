import CaoModel.Card
import CaoModel.Hash
import CaoModel.Generated.Instr
import CaoModel.Generated.Consts
/-!
# The compiler — model of `compiler.rs` / `module.rs::into_ir_stream` (repaired tree)

A line-by-line mirror: same emission order, same scope/locals/upvalue bookkeeping, same label /
variable / trace tables (kept as insertion logs), same error points. The output is compared
**byte for byte** with the real compiler by the `compile` engine.

`panic` outcomes mark places where the Rust would panic (`ArrayVec::push` overflow of the
upvalue list, `HandleTable::insert(..).unwrap()` on a zero handle).
-/
namespace Cao.Compiler
open Cao

inductive CErrKind where
  | emptyProgram | noMain | tooManyCards | duplicateName | duplicateModule | missingSubProgram
  | invalidJump | internalError | tooManyLocals | tooManyUpvalues | badVariableName | emptyVariable
  | badFunctionName | recursionLimitReached | badImport | ambigousImport | superLimitReached
  deriving DecidableEq, Repr

def CErrKind.name : CErrKind → String
  | .emptyProgram => "EmptyProgram" | .noMain => "NoMain" | .tooManyCards => "TooManyCards"
  | .duplicateName => "DuplicateName" | .duplicateModule => "DuplicateModule"
  | .missingSubProgram => "MissingSubProgram" | .invalidJump => "InvalidJump"
  | .internalError => "InternalError" | .tooManyLocals => "TooManyLocals"
  | .tooManyUpvalues => "TooManyUpvalues" | .badVariableName => "BadVariableName"
  | .emptyVariable => "EmptyVariable" | .badFunctionName => "BadFunctionName"
  | .recursionLimitReached => "RecursionLimitReached" | .badImport => "BadImport"
  | .ambigousImport => "AmbigousImport" | .superLimitReached => "SuperLimitReached"

/-- `Trace { namespace, index: CardIndex { function, indices } }` -/
structure Trace where
  ns : List String
  function : Nat
  indices : List Nat
  deriving DecidableEq, Repr

inductive CErr where
  | err (k : CErrKind) (loc : Option Trace)
  | panic (why : String)

/-- `FunctionIr` -/
structure FunctionIr where
  functionIndex : Nat            -- index within its module
  name : String
  arguments : List String
  cards : List Card
  ns : List String
  imports : List (String × String)   -- name ↦ full import path
  handle : UInt32                -- `Handle::from_u64(global index)`
  deriving Inhabited

def FunctionIr.fullName (f : FunctionIr) : String :=
  if f.ns.isEmpty then f.name else ".".intercalate f.ns ++ "." ++ f.name

/-! ## `into_ir_stream` -/

/-- `is_name_valid`; non-ASCII characters are treated as alphanumeric (the generators only use
    non-ASCII letters) -/
def isNameValid (name : String) : Bool :=
  name.toList.all (fun c => c.isAlphanum || c == '_' || c.toNat ≥ 128) && !name.isEmpty && name != "super"

def executeImports (imports : List String) : Except CErrKind (List (String × String)) :=
  imports.foldlM (fun acc imp =>
    match imp.splitOn "." with
    | [] | [_] => .error .badImport
    | parts =>
      let name := parts.getLast!
      if acc.any (fun p => p.1 == name) then .error .ambigousImport
      else .ok (acc ++ [(name, imp)])) []

/-- duplicate names in a list of sibling module names -/
def dupNames : List String → Bool
  | [] => false
  | x :: r => r.contains x || dupNames r

mutual
  /-- duplicate sibling module names, recursively (structural recursion over the `Module` tree) -/
  def ensureInvariants : Module → Except CErrKind Unit
    | .mk subs _ _ => do
      if dupNames (subs.map (·.1)) then throw .duplicateModule
      ensureInvariantsSubs subs
  /-- the loop over the submodules of `ensureInvariants` -/
  def ensureInvariantsSubs : List (String × Module) → Except CErrKind Unit
    | [] => pure ()
    | (_, s) :: rest => do
      ensureInvariants s
      ensureInvariantsSubs rest
end

/-- the loop over the functions of one module in `flatten`: `i` is the index within the module -/
def flattenFns (ns : List String) (imports : List (String × String)) :
    List (String × Func) → Nat → Array FunctionIr → Except CErrKind (Array FunctionIr)
  | [], _, out => pure out
  | (name, f) :: rest, i, out => do
    if !isNameValid name then throw .badFunctionName
    flattenFns ns imports rest (i + 1)
      (out.push { functionIndex := i, name := name, arguments := f.arguments, cards := f.cards,
                  ns := ns, imports := imports, handle := Hash.handleFromU64 (UInt64.ofNat out.size) })

mutual
  def flatten : Module → Nat → List String → Array FunctionIr → Except CErrKind (Array FunctionIr)
    | .mk subs fns imps, limit, ns, out => do
      if ns.length ≥ limit then throw .recursionLimitReached
      let imports ← executeImports imps
      let out ← flattenFns ns imports fns 0 out
      flattenSubs subs limit ns out
  /-- the loop over the submodules in `flatten` -/
  def flattenSubs : List (String × Module) → Nat → List String → Array FunctionIr →
      Except CErrKind (Array FunctionIr)
    | [], _, _, out => pure out
    | (name, s) :: rest, limit, ns, out => do
      -- (repaired) module names are validated like function names
      if !isNameValid name then throw .badFunctionName
      let out ← flatten s limit (ns ++ [name]) out
      flattenSubs rest limit ns out
end

/-- the stdlib module is a parameter: it is generated from `/repo` (see `Generated/Stdlib.lean`) -/
def intoIrStream (m : Module) (std : Module) (limit : Nat) : Except CErrKind (Array FunctionIr) := do
  let m := Module.mk (m.submodules ++ [("std", std)]) m.functions m.imports
  ensureInvariants m
  let mainIdx ← match m.functions.findIdx? (fun p => p.1 == "main") with
    | some i => pure i
    | none => throw .noMain
  let out ← flatten m limit [] #[]
  -- move the main function to the front
  let a := out[0]!
  let b := out[mainIdx]!
  return (out.set! 0 b).set! mainIdx a

/-! ## compiler state -/

structure Local where
  name : String
  depth : Int
  captured : Bool

structure CState where
  bytecode : Array UInt8 := #[]
  data : Array UInt8 := #[]
  labels : List (UInt32 × Nat) := []          -- insertion log (later wins)
  varIds : List (UInt32 × Nat) := []          -- first wins (`entry().or_insert_with`)
  varNames : List (UInt32 × String) := []     -- first wins
  trace : List (Nat × Trace) := []            -- insertion log (later wins)
  nextVar : Nat := 0
  locals : List (List Local) := [[]]          -- one list per nested compile context
  upvalues : List (List (Bool × UInt8)) := [[]]
  scopeDepth : List Int := [0]
  curFunction : Nat := 0
  curIndices : List Nat := []
  functionId : Nat := 0
  ns : List String := []
  imports : List (String × String) := []
  fnHandle : UInt32 := 0                      -- handle of the function being compiled
  jumpTable : List (String × (UInt32 × UInt32)) := []

abbrev CM := StateT CState (Except CErr)

def curTrace : CM Trace := do
  let s ← get
  return { ns := s.ns, function := s.curFunction, indices := s.curIndices }

def fail {α : Type} (k : CErrKind) : CM α := do
  let t ← curTrace
  throw (.err k (some t))

def le32 (x : UInt32) : List UInt8 := Hash.le32 x
def le64 (x : UInt64) : List UInt8 := Hash.le64 x

def emitBytes (bs : List UInt8) : CM Unit :=
  modify fun s => { s with bytecode := bs.foldl (fun a b => a.push b) s.bytecode }

def emitU32 (x : Nat) : CM Unit := emitBytes (le32 (UInt32.ofNat x))

/-- opcode numbers come from the generated instruction table (`Generated/Instr.lean`) -/
def op : Gen.Ops := Gen.op

/-- `push_instruction`: trace entry at the current length, then the opcode -/
def pushInstr (o : UInt8) : CM Unit := do
  let t ← curTrace
  modify fun s => { s with trace := s.trace ++ [(s.bytecode.size, t)], bytecode := s.bytecode.push o }

def pushSub (i : Nat) : CM Unit := modify fun s => { s with curIndices := s.curIndices ++ [i] }
def popSub : CM Unit := modify fun s => { s with curIndices := s.curIndices.dropLast }

/-- `CardIndex::as_handle` -/
def indexHandle (function : Nat) (indices : List Nat) : UInt32 :=
  Hash.handleFromU64 (UInt64.ofNat function) ^^^
    Hash.handleFromBytes (indices.flatMap (fun i => le32 (UInt32.ofNat i)))

def insertLabel (h : UInt32) (pos : Nat) : CM Unit := do
  if h == 0 then throw (.panic "HandleTable::insert with handle 0")
  modify fun s => { s with labels := s.labels ++ [(h, pos)] }

def patchI32 (at_ : Nat) (v : Nat) : CM Unit :=
  modify fun s =>
    let bs := le32 (UInt32.ofNat v)
    { s with bytecode := (List.range 4).foldl (fun a i => a.set! (at_ + i) (bs.getD i 0)) s.bytecode }

def scopeBegin : CM Unit :=
  modify fun s => { s with scopeDepth := match s.scopeDepth.reverse with
    | d :: r => ((d + 1) :: r).reverse
    | [] => [] }

def curDepth (s : CState) : Int := s.scopeDepth.getLast?.getD 0

/-- `scope_end`: leave the scope, popping its locals (`CloseUpvalue` for captured ones) -/
def scopeEnd : CM Unit := do
  modify fun s => { s with scopeDepth := match s.scopeDepth.reverse with
    | d :: r => ((d - 1) :: r).reverse
    | [] => [] }
  let s ← get
  let d := curDepth s
  let ls := s.locals.getD s.functionId []
  let keep := ls.reverse.dropWhile (fun l => l.depth > d) |>.reverse
  let gone := (ls.drop keep.length).reverse
  let bytes := gone.map (fun l => if l.captured then op.closeUpvalue else op.pop)
  modify fun s => { s with locals := s.locals.set s.functionId keep }
  emitBytes bytes

def addLocalUnchecked (name : String) : CM Nat := do
  let s ← get
  let ls := s.locals.getLast?.getD []
  if ls.length ≥ 255 then fail .tooManyLocals
  let l : Local := { name := name, depth := curDepth s, captured := false }
  modify fun s => { s with locals := s.locals.dropLast ++ [ls ++ [l]] }
  return ls.length

def validateVarName (name : String) : CM Unit := do
  if name.isEmpty then fail .emptyVariable

def addLocal (name : String) : CM Nat := do
  validateVarName name
  addLocalUnchecked name

def addUpvalue (index : UInt8) (isLocal : Bool) (functionId : Nat) : CM Nat := do
  let s ← get
  let ups := s.upvalues.getD functionId []
  match ups.findIdx? (fun u => u.2 == index && u.1 == isLocal) with
  | some i => return i
  | none =>
    -- (repaired) `try_push`: a full `ArrayVec` is `TooManyUpvalues`, not a panic
    if ups.length ≥ 255 then fail .tooManyUpvalues
    modify fun s => { s with upvalues := s.upvalues.set functionId (ups ++ [(isLocal, index)]) }
    return ups.length

inductive Variable where
  | global
  | local_ (i : Nat)
  | upvalue (i : Nat)

/-- `resolve_upvalue` -/
def resolveUpvalue (name : String) : Nat → CM Variable
  | 0 => return .global
  | fid+1 => do
    let s ← get
    let ls := s.locals.getD fid []
    match ls.findIdx? (fun l => l.name == name) with
    | some i =>
      let ls' := ls.set i { (ls.getD i ⟨"", 0, false⟩) with captured := true }
      modify fun s => { s with locals := s.locals.set fid ls' }
      let u ← addUpvalue (UInt8.ofNat i) true (fid+1)
      return .upvalue u
    | none =>
      match ← resolveUpvalue name fid with
      | .upvalue i =>
        let u ← addUpvalue (UInt8.ofNat i) false (fid+1)
        return .upvalue u
      | v => return v

/-- `resolve_var` -/
def resolveVar (name : String) : CM Variable := do
  validateVarName name
  let s ← get
  let ls := s.locals.getD s.functionId []
  -- `.iter_mut().enumerate().rev()`: the last local with that name
  match (List.range ls.length).reverse.find? (fun i => (ls.getD i ⟨"", 0, false⟩).name == name) with
  | some i => return .local_ i
  | none => resolveUpvalue name s.functionId

def readLocalVar (i : Nat) : CM Unit := do pushInstr op.readLocalVar; emitU32 i
def writeLocalVar (i : Nat) : CM Unit := do pushInstr op.setLocalVar; emitU32 i
def readUpvalue (i : Nat) : CM Unit := do pushInstr op.readUpvalue; emitU32 i
def writeUpvalue (i : Nat) : CM Unit := do pushInstr op.setUpvalue; emitU32 i

/-- `push_str`: operand = offset into `data`; `encode_str` appends `len:u32 ++ bytes` -/
def pushStr (s : String) : CM Unit := do
  let st ← get
  emitU32 st.data.size
  let bytes := s.toUTF8.toList
  modify fun st => { st with data := (le32 (UInt32.ofNat bytes.length) ++ bytes).foldl (fun a b => a.push b) st.data }

/-- global variable id of `name` (`ids.entry(hash).or_insert_with(next_var++)`, then `names`) -/
def globalId (name : String) : CM Nat := do
  let h := Hash.handleFromBytes name.toUTF8.toList
  if h == 0 then throw (.panic "HandleTable::entry with handle 0")
  let s ← get
  let id ← match s.varIds.find? (fun p => p.1 == h) with
    | some (_, id) => pure id
    | none => do
      modify fun s => { s with varIds := s.varIds ++ [(h, s.nextVar)], nextVar := s.nextVar + 1 }
      pure s.nextVar
  let hn := Hash.handleFromU32 (UInt32.ofNat id)
  let s ← get
  if !(s.varNames.any (fun p => p.1 == hn)) then
    modify fun s => { s with varNames := s.varNames ++ [(hn, name)] }
  return id

/-- the property chain of `read_var_card`: `StringLiteral p; GetProperty` for every non-empty `p` -/
def readProps : List String → CM Unit
  | [] => pure ()
  | p :: ps => do
    if !p.isEmpty then
      pushInstr op.stringLiteral
      pushStr p
      pushInstr op.getProperty
    readProps ps

/-- `read_var_card` -/
def readVarCard (varName : String) : CM Unit := do
  let (v, props) := match varName.splitOn "." with
    | [] => ("", [])
    | v :: ps => (v, ps)
  match ← resolveVar v with
  | .local_ i => readLocalVar i
  | .upvalue i => readUpvalue i
  | .global =>
    let id ← globalId v
    pushInstr op.readGlobalVar
    emitU32 id
  readProps props

/-- `super_depth(import)`: number of `super.` occurrences and the text after the last one -/
def superDepth (imp : String) : Nat × Option String :=
  match imp.splitOn "super." with
  | [] | [_] => (0, none)
  | parts => (parts.length - 1, some parts.getLast!)

def joinNs (ns : List String) (tail : String) : String :=
  String.join (ns.map (· ++ ".")) ++ tail

def lookupJump (s : CState) (name : String) : Option (UInt32 × UInt32) :=
  (s.jumpTable.find? (fun p => p.1 == name)).map (·.2)

/-- `resolve_function` (repaired: too many `super.` is `SuperLimitReached`, not a panic) -/
def resolveFunction (function : String) : CM (UInt32 × UInt32) := do
  let s ← get
  if let some r := lookupJump s function then return r
  if let some r := lookupJump s (joinNs s.ns function) then return r
  -- function import
  if let some (_, alias_) := s.imports.find? (fun p => p.1 == function) then
    let (sd, suffix) := superDepth alias_
    if sd > s.ns.length then fail .superLimitReached
    let name := joinNs (s.ns.take (s.ns.length - sd)) (suffix.getD alias_)
    if let some r := lookupJump s name then return r
  -- module-prefix import
  match function.splitOn "." with
  | pre :: rest@(_ :: _) =>
    let suffix := ".".intercalate rest
    if let some (_, alias_) := s.imports.find? (fun p => p.1 == pre) then
      let (sd, sfx) := superDepth alias_
      if sd > s.ns.length then fail .superLimitReached
      -- (repaired) the `super.` segments of the alias only walk the namespace up
      let name := joinNs (s.ns.take (s.ns.length - sd)) (sfx.getD alias_ ++ "." ++ suffix)
      if let some r := lookupJump s name then return r
    fail .invalidJump
  | _ => fail .invalidJump

def encodeJump (function : String) : CM Unit := do
  let (h, arity) ← resolveFunction function
  emitBytes (le32 h)
  emitBytes (le32 arity)

def closureMask : UInt64 := UInt64.ofNat Gen.closureMask

/-! ## `process_card`

The Rust `process_card` is one big `match`; here every arm is a *non-recursive combinator* that
takes the already-built code of the children (`CM Unit` actions) as parameters, and
`processCard` / `compileSubexprFrom` / `processArrayItems` are defined by mutual **structural**
recursion over `Card` / `List Card`, applying the combinators to the recursive calls.  The
emission order is exactly that of the Rust. -/

/-- process a child under sub-index `i`: `pushSub i; m; popSub` -/
def withSub (i : Nat) (m : CM Unit) : CM Unit := do
  pushSub i; m; popSub

/-- the first statement of `process_card`: label the current card index with the current position -/
def cardLabel : CM Unit := do
  let s ← get
  insertLabel (indexHandle s.curFunction s.curIndices) s.bytecode.size

/-- `encode_if_then` -/
def encodeIfThen (skip : UInt8) (thenBlock : CM Unit) : CM Unit := do
  pushInstr skip
  let idx := (← get).bytecode.size
  emitU32 0
  thenBlock
  patchI32 idx (← get).bytecode.size

def encodeIfThenRet (skip : UInt8) (thenBlock : CM Nat) : CM Nat := do
  pushInstr skip
  let idx := (← get).bytecode.size
  emitU32 0
  let r ← thenBlock
  patchI32 idx (← get).bytecode.size
  return r

/-- `for p in arguments.iter().rev() { add_local(p) }` (call with the reversed list) -/
def addLocals : List String → CM Unit
  | [] => pure ()
  | p :: ps => do
    let _ ← addLocal p
    addLocals ps

/-- the `RegisterUpvalue` sequence after a `Closure` instruction -/
def emitUpvalues : List (Bool × UInt8) → CM Unit
  | [] => pure ()
  | (isLocal, index) :: rest => do
    pushInstr op.copyLast
    pushInstr op.registerUpvalue
    emitBytes [index, if isLocal then 1 else 0]
    emitUpvalues rest

/-- body of the `ScalarInt` arm -/
def scalarIntCode (i : Int64) : CM Unit := do
  pushInstr op.scalarInt
  emitBytes (le64 i.toUInt64)

/-- `process_card(&Card::ScalarInt(i))`, as called by the `Repeat` arm for its hidden counter -/
def processScalarInt (i : Int64) : CM Unit := do
  cardLabel
  scalarIntCode i

/-- `if let Some(v) = name { let x = add_local(v); read_local_var(src); write_local_var(x) }` -/
def bindLoopVar (name : Option String) (src : Nat) : CM Unit :=
  match name with
  | some v => do
    let x ← addLocal v; readLocalVar src; writeLocalVar x
  | none => pure ()

/-- `ForEach` arm -/
def forEachCode (i k v : Option String) (iterable body : CM Unit) : CM Unit := do
  withSub 0 iterable
  scopeBegin
  let loopVar ← addLocalUnchecked ""
  let loopItem ← addLocalUnchecked ""
  let vIndex ← addLocalUnchecked ""
  let kIndex ← addLocalUnchecked ""
  let iIndex ← addLocalUnchecked ""
  pushInstr op.beginForEach
  emitU32 loopVar; emitU32 loopItem; emitU32 iIndex; emitU32 kIndex; emitU32 vIndex
  let blockBegin := (← get).bytecode.size
  pushInstr op.forEach
  emitU32 loopVar; emitU32 loopItem; emitU32 iIndex; emitU32 kIndex; emitU32 vIndex
  encodeIfThen op.gotoIfFalse do
    scopeBegin
    bindLoopVar v vIndex
    bindLoopVar k kIndex
    bindLoopVar i iIndex
    withSub 1 body
    scopeEnd
    pushInstr op.goto
    emitU32 blockBegin
  scopeEnd

/-- `While` arm -/
def whileCode (cond body : CM Unit) : CM Unit := do
  let blockBegin := (← get).bytecode.size
  withSub 0 cond
  pushSub 1
  encodeIfThen op.gotoIfFalse do
    -- (repaired) variables declared in the body live for one iteration, as in `Repeat`/`ForEach`
    scopeBegin
    body
    scopeEnd
    pushInstr op.goto
    emitU32 blockBegin
  popSub

/-- `Repeat` arm -/
def repeatCode (i : Option String) (n body : CM Unit) : CM Unit := do
  withSub 0 n
  scopeBegin
  let loopN ← addLocalUnchecked ""
  let loopCounter ← addLocalUnchecked ""
  writeLocalVar loopN
  processScalarInt 0
  writeLocalVar loopCounter
  let blockBegin := (← get).bytecode.size
  readLocalVar loopCounter
  readLocalVar loopN
  pushInstr op.less
  encodeIfThen op.gotoIfFalse do
    scopeBegin
    bindLoopVar i loopCounter
    withSub 1 body
    scopeEnd
    processScalarInt 1
    readLocalVar loopCounter
    pushInstr op.add
    writeLocalVar loopCounter
    pushInstr op.goto
    emitU32 blockBegin
  scopeEnd

/-- the assignment part of the `SetVar` arm (after the value) -/
def setVarTarget (name : String) : CM Unit :=
  match name.splitOn "." with
  | [] | [_] => do
    match ← resolveVar name with
    | .local_ i => writeLocalVar i
    | .global => do
      let i ← addLocal name; writeLocalVar i
    | .upvalue i => writeUpvalue i
  | parts => do
    let readProps := ".".intercalate parts.dropLast
    readVarCard readProps
    pushInstr op.stringLiteral
    pushStr parts.getLast!
    pushInstr op.setProperty

/-- `SetVar` arm -/
def setVarCode (name : String) (value : CM Unit) : CM Unit := do
  withSub 0 value
  setVarTarget name

/-- `SetGlobalVar` arm -/
def setGlobalVarCode (name : String) (value : CM Unit) : CM Unit := do
  withSub 0 value
  pushInstr op.setGlobalVar
  if name.isEmpty then fail .emptyVariable
  let id ← globalId name
  emitU32 id

/-- `IfElse` arm -/
def ifElseCode (cond thenC elseC : CM Unit) : CM Unit := do
  withSub 0 cond
  pushSub 1
  let idxRef ← encodeIfThenRet op.gotoIfFalse do
    thenC
    pushInstr op.goto
    let idx := (← get).bytecode.size
    emitU32 0xEEF
    return idx
  popSub
  withSub 2 elseC
  patchI32 idxRef (← get).bytecode.size

/-- `IfTrue` / `IfFalse` arms (`skip` = the jump that skips the body) -/
def ifCode (skip : UInt8) (cond body : CM Unit) : CM Unit := do
  withSub 0 cond
  pushSub 1
  encodeIfThen skip body
  popSub

/-- `Call` arm (`args` = `compile_subexpr(args)`) -/
def callCode (name : String) (args : CM Unit) : CM Unit := do
  args
  pushInstr op.functionPointer
  encodeJump name
  pushInstr op.callFunction

/-- `CallNative` arm -/
def callNativeCode (name : String) (args : CM Unit) : CM Unit := do
  args
  pushInstr op.callNative
  emitBytes (le32 (Hash.handleFromBytes name.toUTF8.toList))

/-- `compile_begin` -/
def compileBegin : CM Unit :=
  modify fun s => { s with functionId := s.functionId + 1, locals := s.locals ++ [[]],
                           upvalues := s.upvalues ++ [[]], scopeDepth := s.scopeDepth ++ [0] }

/-- `compile_end` -/
def compileEnd : CM Unit :=
  modify fun s => { s with functionId := s.functionId - 1, locals := s.locals.dropLast,
                           upvalues := s.upvalues.dropLast, scopeDepth := s.scopeDepth.dropLast }

/-- `Closure` arm (`body` = `compile_subexpr(cards)`) -/
def closureCode (arguments : List String) (body : CM Unit) : CM Unit := do
  pushInstr op.goto
  let gotoIndex := (← get).bytecode.size
  emitU32 0xEEF
  compileBegin
  let s ← get
  -- (repaired) keyed by the enclosing function's unique handle, not its module-local index
  let fh := s.fnHandle ^^^ Hash.handleFromBytes (s.curIndices.flatMap (fun i => le32 (UInt32.ofNat i)))
              ^^^ Hash.handleFromU64 closureMask
  insertLabel fh s.bytecode.size
  scopeBegin
  addLocals arguments.reverse
  body
  scopeEnd
  pushInstr op.scalarNil
  pushInstr op.ret
  patchI32 gotoIndex (← get).bytecode.size
  pushInstr op.closure
  emitBytes (le32 fh)
  emitU32 arguments.length
  let s ← get
  let ups := s.upvalues.getD s.functionId []
  emitUpvalues ups
  compileEnd

/-- `Array` arm (`items tableVar` = the loop over the elements) -/
def arrayCode (items : Nat → CM Unit) : CM Unit := do
  pushInstr op.initTable
  let tableVar ← addLocalUnchecked ""
  writeLocalVar tableVar
  items tableVar
  readLocalVar tableVar

def unOp : UnKind → UInt8
  | .len => op.len | .ret => op.ret | .not => op.not | .popTable => op.popTable

/-- unary expression arms -/
def unCode (k : UnKind) (c : CM Unit) : CM Unit := do
  withSub 0 c
  pushInstr (unOp k)

def binOp : BinKind → UInt8
  | .get => op.nthRow | .and => op.and | .or => op.or | .xor => op.xor | .equals => op.equals
  | .less => op.less | .lessOrEq => op.lessOrEq | .notEquals => op.notEquals | .add => op.add
  | .sub => op.sub | .mul => op.mul | .div => op.div | .getProperty => op.getProperty
  | .appendTable => op.appendTable
  | .while | .ifTrue | .ifFalse => op.exit /- unreachable: handled by their own arms -/

/-- the arms with two children -/
def binCode (k : BinKind) (a b : CM Unit) : CM Unit :=
  match k with
  | .while => whileCode a b
  | .ifFalse => ifCode op.gotoIfTrue a b
  | .ifTrue => ifCode op.gotoIfFalse a b
  | k => do
    withSub 0 a
    withSub 1 b
    pushInstr (binOp k)

/-- the arms with three children -/
def triCode (k : TriKind) (a b c : CM Unit) : CM Unit :=
  match k with
  | .ifElse => ifElseCode a b c
  | .setProperty => do
    withSub 0 a
    withSub 1 b
    withSub 2 c
    pushInstr op.setProperty

/-- `DynamicCall` arm (`args` = the loop over the arguments, numbered from 1) -/
def dynamicCallCode (args function : CM Unit) : CM Unit := do
  -- (repaired) child numbering as in `get_child`: function = 0, arguments = 1..n
  args
  withSub 0 function
  pushInstr op.callFunction

mutual
  /-- `process_card` -/
  def processCard : Card → CM Unit
    | .composite _ cards => do cardLabel; compileSubexprFrom 0 cards
    | .forEach i k v iterable body => do
      cardLabel; forEachCode i k v (processCard iterable) (processCard body)
    | .repeat i n body => do cardLabel; repeatCode i (processCard n) (processCard body)
    | .readVar v => do cardLabel; readVarCard v
    | .setVar name value => do cardLabel; setVarCode name (processCard value)
    | .setGlobalVar name value => do cardLabel; setGlobalVarCode name (processCard value)
    | .call name args => do cardLabel; callCode name (compileSubexprFrom 0 args)
    | .stringLiteral s => do cardLabel; pushInstr op.stringLiteral; pushStr s
    | .callNative name args => do cardLabel; callNativeCode name (compileSubexprFrom 0 args)
    | .scalarInt i => do cardLabel; scalarIntCode i
    | .scalarFloat b => do cardLabel; pushInstr op.scalarFloat; emitBytes (le64 b)
    | .function name => do cardLabel; pushInstr op.functionPointer; encodeJump name
    | .closure arguments cards => do cardLabel; closureCode arguments (compileSubexprFrom 0 cards)
    | .nativeFunction name => do cardLabel; pushInstr op.nativeFunctionPointer; pushStr name
    | .array cards => do cardLabel; arrayCode (fun tableVar => processArrayItems tableVar 0 cards)
    | .un k c => do cardLabel; unCode k (processCard c)
    | .bin k a b => do cardLabel; binCode k (processCard a) (processCard b)
    | .tri k a b c => do cardLabel; triCode k (processCard a) (processCard b) (processCard c)
    | .dynamicCall args function => do
      cardLabel; dynamicCallCode (compileSubexprFrom 1 args) (processCard function)
    | .scalarNil => do cardLabel; pushInstr op.scalarNil
    | .abort => do cardLabel; pushInstr op.exit
    | .createTable => do cardLabel; pushInstr op.initTable
    | .comment _ => do cardLabel; pure ()

  /-- the loop `for (i, c) in cards.enumerate() { push i; process_card(c); pop }` of
      `compile_subexpr`, the first sub-index being `i` -/
  def compileSubexprFrom : Nat → List Card → CM Unit
    | _, [] => pure ()
    | i, c :: cs => do
      withSub i (processCard c)
      compileSubexprFrom (i + 1) cs

  /-- the loop over the elements of an `Array` card -/
  def processArrayItems (tableVar : Nat) : Nat → List Card → CM Unit
    | _, [] => pure ()
    | i, c :: cs => do
      pushInstr op.scalarNil
      withSub i (processCard c)
      readLocalVar tableVar
      pushInstr op.appendTable
      processArrayItems tableVar (i + 1) cs
end

/-- `compile_subexpr` -/
def compileSubexpr (cards : List Card) : CM Unit := compileSubexprFrom 0 cards

/-- the loop over the top-level cards of a function: `pop; push ic; process_card` -/
def processFunctionCards : Nat → List Card → CM Unit
  | _, [] => pure ()
  | ic, c :: cs => do
    popSub
    pushSub ic
    processCard c
    processFunctionCards (ic + 1) cs

/-- `process_function` -/
def processFunction (f : FunctionIr) : CM Unit := do
  modify fun s => { s with ns := f.ns, imports := f.imports, fnHandle := f.handle }
  addLocals f.arguments.reverse
  processFunctionCards 0 f.cards

def addFunction (f : FunctionIr) : CM Unit := do
  let s ← get
  -- (repaired) the duplicate test uses the full dotted name
  if s.jumpTable.any (fun p => p.1 == f.fullName) then fail .duplicateName
  modify fun s => { s with jumpTable := s.jumpTable ++ [(f.fullName, (f.handle, UInt32.ofNat f.arguments.length))] }

/-- stage 1 of `Compiler::compile`: register every function in the jump table -/
def addFunctions : List FunctionIr → CM Unit
  | [] => pure ()
  | f :: fs => do
    addFunction f
    addFunctions fs

/-- one non-main function of stage 2 -/
def compileFunction (f : FunctionIr) : CM Unit := do
  modify fun s => { s with curFunction := f.functionIndex, curIndices := [] }
  insertLabel f.handle (← get).bytecode.size
  scopeBegin
  processFunction f
  scopeEnd
  pushInstr op.scalarNil
  pushInstr op.ret

/-- stage 2 of `Compiler::compile` for the functions after `main` -/
def compileFunctions : List FunctionIr → CM Unit
  | [] => pure ()
  | f :: fs => do
    compileFunction f
    compileFunctions fs

/-- `Compiler::compile` -/
def compileUnit (unit : Array FunctionIr) : CM Unit := do
  if unit.isEmpty then fail .emptyProgram
  addFunctions unit.toList
  -- stage 2
  let main := unit[0]!
  modify fun s => { s with curFunction := main.functionIndex, curIndices := [0] }
  scopeBegin
  processFunction main
  modify fun s => { s with curFunction := main.functionIndex, curIndices := [main.cards.length] }
  scopeEnd
  processCard .abort
  compileFunctions (unit.toList.drop 1)
  modify fun s => { s with imports := [] }
  pushInstr op.exit

/-- the compiled program, with the tables resolved to their final content -/
structure Program where
  bytecode : Array UInt8
  data : Array UInt8
  labels : List (UInt32 × Nat)
  varIds : List (UInt32 × Nat)
  varNames : List (UInt32 × String)
  trace : List (Nat × Trace)

/-- later insertions win -/
def resolveLog {α β : Type} [BEq α] (log : List (α × β)) : List (α × β) :=
  log.foldl (fun acc p => acc.filter (fun q => !(q.1 == p.1)) ++ [p]) []

def compile (m : Module) (std : Module) (limit : Nat := Gen.recursionLimit) : Except CErr Program :=
  match intoIrStream m std limit with
  | .error k => .error (.err k (some { ns := [], function := 0, indices := [] }))
  | .ok unit =>
    match (compileUnit unit).run {} with
    | .error e => .error e
    | .ok ((), s) =>
      .ok { bytecode := s.bytecode, data := s.data, labels := resolveLog s.labels,
            varIds := s.varIds, varNames := s.varNames, trace := resolveLog s.trace }

end Cao.Compiler
